#!/bin/bash
# setup_cmd: builds the whole framework offline from files on disk.
#   1. Coq development (full .vo build, no -vos), 2. extraction + OCaml runner, 3. Rust harness against /repo (hooks on).
set -e
cd "$(dirname "$0")"
export CARGO_NET_OFFLINE=true
mkdir -p .cache evidence replays work coq/gen
python3 tools/translate.py all
./tools/mkcerts.sh || echo 'certificates not generated (C17 lane will skip)'
( cd coq && coq_makefile -f _CoqProject -o Makefile >/dev/null 2>&1 && timeout 3000 make -j16 2>&1 | grep -v '^COQC\|^COQDEP\|^Closed under\|^CLEAN' | tail -20; test ${PIPESTATUS[0]} -eq 0 )
./tools/build_runner.sh
[ -f harness/Cargo.lock ] || cp /repo/Cargo.lock harness/Cargo.lock
( cd harness && CARGO_TARGET_DIR=/verif/.cache/target RUSTFLAGS="--cfg ldap3_verif" timeout 3000 cargo build --offline 2>&1 | grep -v '^warning: /repo' | tail -5 )
test -x .cache/target/debug/l3h
test -x ocaml/runner
echo "setup ok"
