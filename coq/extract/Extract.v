(* Extraction of the executable model for the correspondence runner.
   Only ExtrOcamlBasic is used: no Extract Constant / Extract Inductive of our own. *)
From Coq Require Import List NArith ZArith Bool.
From Coq.Strings Require Import Byte.
From Coq Require Extraction ExtrOcamlBasic.
From L3 Require Ber BerFixed BerInt Utf8 Frame FrameSpec FrameFixed Filter Escape Dn Entry Result UrlParams Request RequestSeq.
Extraction Language OCaml.
Extraction "model.ml"
  Byte.to_N Byte.of_N
  Ber.encode Ber.parse_tag Ber.byte_of_N
  BerFixed.parse_tag' BerFixed.lim BerFixed.nolim BerFixed.tdepth
  BerInt.int_octets BerInt.int_octets_cur BerInt.bool_octets
  Utf8.valid FrameFixed.decode_inner' FrameFixed.repaired_d FrameSpec.framed_run_buf
  Filter.parse Escape.ldap_escape Escape.ldap_unescape Dn.dn_escape Entry.construct
  Result.result_of_tree Result.success Result.non_error Result.cmp_equal Result.cmp_non_error
  UrlParams.get_url_params
  RequestSeq.run_calls Request.cleared.
