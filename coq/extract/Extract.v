(* Extraction of the executable model for the correspondence runner.
   Only ExtrOcamlBasic is used: no Extract Constant / Extract Inductive of our own. *)
From Coq Require Import List NArith ZArith Bool.
From Coq.Strings Require Import Byte.
From Coq Require Extraction ExtrOcamlBasic.
From L3 Require Ber BerFixed BerInt Utf8 Frame FrameSpec FrameFixed Filter Escape Dn Entry Result UrlParams Request RequestSeq Controls Msgid Conn ConnWire Stream StreamSpec Paged Setup Tls.
Extraction Language OCaml.
Extraction "model.ml"
  Byte.to_N Byte.of_N
  Ber.encode Ber.parse_tag Ber.byte_of_N
  BerFixed.parse_tag' BerFixed.lim BerFixed.nolim BerFixed.tdepth
  BerInt.int_octets BerInt.int_octets_cur BerInt.bool_octets
  Utf8.valid FrameFixed.decode_inner' FrameFixed.repaired_d FrameSpec.framed_run_buf
  Filter.parse Escape.ldap_escape Escape.ldap_unescape Dn.dn_escape Entry.construct
  Result.result_of_tree Result.success Result.non_error Result.cmp_equal Result.cmp_non_error
  UrlParams.get_url_params
  RequestSeq.run_calls RequestSeq.run_csteps RequestSeq.handle_of RequestSeq.no_mods Request.cleared
  Controls.paged_results Controls.sync_request Controls.pre_read Controls.post_read Controls.assertion_of Controls.matched_values_of
  Controls.proxy_auth Controls.txn_spec Controls.manage_dsa_it Controls.relax_rules Controls.make_critical
  Controls.whoami Controls.starttls Controls.start_txn Controls.passmod Controls.end_txn
  Controls.parse_value Controls.parse_paged Controls.parse_sync_state Controls.parse_sync_done Controls.parse_syncinfo
  Controls.parse_read_entry Controls.parse_utf8_val Controls.parse_passmod_resp
  Msgid.next_msgid Conn.step Conn.init Conn.repaired Conn.as_is Conn.quiescent Conn.clean Conn.op_finished
  Stream.start Stream.search StreamSpec.model_step StreamSpec.run
  ConnWire.receive_buf Paged.start Paged.next Paged.drain Paged.take_items Paged.eo_drain Paged.finish Paged.cancelled Paged.prepaired
  Setup.plan_of Setup.plan_of_auth Setup.repaired18 Setup.cert_names_match Tls.establish.
