(* Calibration sketch (round 0): UTF-8 well-formedness as std::str::from_utf8 decides it (Unicode table 3-7). *)
From Coq Require Import List NArith Bool.
From Coq.Strings Require Import Byte.
From L3 Require Import Ber.
Import ListNotations.
Open Scope N_scope.

Definition rng (lo hi : N) (b : byte) : bool := (lo <=? bN b) && (bN b <=? hi).
Definition cont := rng 128 191.

Fixpoint valid (l : list byte) : bool :=
  match l with
  | [] => true
  | b0 :: r0 =>
    if bN b0 <? 128 then valid r0 else
    if rng 194 223 b0 then
      match r0 with b1 :: r1 => cont b1 && valid r1 | _ => false end else
    if rng 224 239 b0 then
      match r0 with
      | b1 :: b2 :: r2 =>
          (if bN b0 =? 224 then rng 160 191 b1 else if bN b0 =? 237 then rng 128 159 b1 else cont b1) && cont b2 && valid r2
      | _ => false end else
    if rng 240 244 b0 then
      match r0 with
      | b1 :: b2 :: b3 :: r3 =>
          (if bN b0 =? 240 then rng 144 191 b1 else if bN b0 =? 244 then rng 128 143 b1 else cont b1) && cont b2 && cont b3 && valid r3
      | _ => false end
    else false
  end.

Example ascii : valid ["a"; "b"]%byte = true. Proof. reflexivity. Qed.
Example two : valid [xc4; x87] = true. Proof. reflexivity. Qed.           (* ć, from filt_simple_utf8 *)
Example overlong : valid [xc0; x80] = false. Proof. reflexivity. Qed.
Example surrogate : valid [xed; xa0; x80] = false. Proof. reflexivity. Qed.
Example max : valid [xf4; x8f; xbf; xbf] = true. Proof. reflexivity. Qed.
Example beyond : valid [xf4; x90; x80; x80] = false. Proof. reflexivity. Qed.
Example truncated : valid [xe2; x82] = false. Proof. reflexivity. Qed.
