(* C13 on a connection whose driver has ended (repair F31): no message id stays reserved there either - the id table is cleared when the
   driver ends, an operation that cannot be sent gives its id back - so a handle that keeps being used after the connection is lost does
   not grow. The only ids a dead connection's table can hold belong to callers caught between taking their id and finding the channel closed. *)
From RecordUpdate Require Import RecordUpdate.
From Coq Require Import List ZArith Lia Bool Arith.
From L3 Require Import Msgid Conn ConnProofs ConnTimeouts ConnAccount ConnAlloc ConnLin2 ConnNoWrap.
Import ListNotations.
Open Scope Z_scope.

Definition held (s : st) (id : Z) : Prop := exists o c, getop s o = Some c /\ o_mid c = id /\ o_status c = CAlloc.
Definition EndedClean (s : st) : Prop := is_running s = false -> forall id, In id (inuse s) -> held s id.

Lemma EndedClean_init f : EndedClean (init f). Proof. intros H. discriminate H. Qed.

Lemma held_app s x id (s' : st) : ops s' = ops s ++ [x] -> held s id -> held s' id.
Proof. intros E (o & c & Hc & M & S). exists o, c. split; [|now split]. unfold getop in *. rewrite E, nth_error_app1; [exact Hc|]. apply nth_error_Some. congruence. Qed.
Lemma held_same s id (s' : st) : ops s' = ops s -> held s id -> held s' id.
Proof. intros E (o & c & Hc & M & S). exists o, c. split; [|now split]. unfold getop in *. now rewrite E. Qed.
(* an update of an operation that is not in the allocated state leaves every holder in place *)
Lemma held_updop s o g id c0 : getop s o = Some c0 -> o_status c0 <> CAlloc -> held s id -> held (updop o g s) id.
Proof. intros H0 Hn (o' & c & Hc & M & S). exists o', c. split; [|now split]. rewrite getop_updop. destruct (Nat.eqb_spec o' o) as [->|]; [|exact Hc]. rewrite H0 in Hc. injection Hc as <-. contradiction. Qed.

(* the driver ends: the table is empty *)
Lemma ends_empty s e : fix31 (fx s) = true -> is_running s = true -> is_running (step s e) = false -> inuse (step s e) = [].
Proof.
  intros F Hr He. assert (E : forall h x, fx x = fx s -> inuse (end_driver h x) = []) by (intros h x Ex; rewrite inuse_end_driver, Ex, F; reflexivity).
  assert (R : forall x, drv x = drv s -> is_running x = false -> False) by (intros x Ex Hx; unfold is_running in *; rewrite Ex in Hx; congruence).
  revert He. destruct e as [k tmo| | | |how|r|o|o|o|dt|o|o|k tmo|o]; unfold step, alloc, enqueue; rewrite ?Hr; cbn [negb].
  all: repeat match goal with
       | |- is_running (end_driver _ _) = false -> _ => intros _; apply E; solve [repeat first [reflexivity | rewrite fx_drop_entry | progress cbn [fx set updop]]]
       | |- is_running ?x = false -> _ => intros He; exfalso; apply (R x); [solve [repeat first [reflexivity | rewrite ConnLin2.drv_drop_entry | progress cbn [drv set updop]]]|exact He]
       | |- context [match ?x with _ => _ end] => destruct x
       end.
Qed.

Theorem step_EndedClean s e : fix31 (fx s) = true -> EndedClean s -> EndedClean (step s e).
Proof.
  intros F EC He id Hin. destruct (is_running s) eqn:Hr.
  { rewrite (ends_empty s e F Hr He) in Hin. destruct Hin. }
  specialize (EC Hr). revert Hin. clear He.
  destruct e as [k tmo| | | |how|r|o|o|o|dt|o|o|k tmo|o]; unfold step; rewrite ?Hr; cbn [negb]; try (intros Hin; exact (EC id Hin)).
  - (* Start: the id just taken is given back *)
    destruct (next_msgid (last s) (inuse s)) as [mid| |]; try (intros Hin; exact (EC id Hin)). rewrite F. cbn [inuse set]. rewrite In_rem. intros [Hne [E|Hin]]; [congruence|].
    eapply held_app; [reflexivity|exact (EC id Hin)].
  - (* CliPoll *) destruct (getop s o) as [c|] eqn:Ec; [|intros Hin; exact (EC id Hin)]. destruct (waiting c) eqn:Ew; cbn [negb]; [|intros Hin; exact (EC id Hin)].
    assert (Hn : o_status c <> CAlloc) by (unfold waiting in Ew; destruct (o_status c); discriminate).
    destruct (o_reply c); [destruct (o_deadline c) as [d|]; [destruct (d <=? now s)|]|..]; cbn [inuse set updop]; intros Hin; try exact (EC id Hin); apply (held_updop s o _ id c Ec Hn); exact (EC id Hin).
  - (* StreamNext *) destruct (getop s o) as [c|] eqn:Ec; [|intros Hin; exact (EC id Hin)]. destruct (o_status c) eqn:Es; try (intros Hin; exact (EC id Hin)).
    assert (Hn : o_status c <> CAlloc) by (rewrite Es; discriminate).
    repeat match goal with |- context [match ?x with _ => _ end] => destruct x end; cbn [inuse set updop]; intros Hin; apply (held_updop s o _ id c Ec Hn); exact (EC id Hin).
  - (* StreamFinish *) destruct (getop s o) as [c|] eqn:Ec; [|intros Hin; exact (EC id Hin)]. destruct (o_status c) eqn:Es; try (intros Hin; exact (EC id Hin)).
    all: assert (Hn : o_status c <> CAlloc) by (rewrite Es; discriminate).
    all: repeat match goal with |- context [match ?x with _ => _ end] => destruct x end; cbn [inuse set updop]; intros Hin; apply (held_updop s o _ id c Ec Hn); exact (EC id Hin).
  - (* DropCall *) destruct (getop s o) as [c|] eqn:Ec; [|intros Hin; exact (EC id Hin)]. destruct (o_status c) eqn:Es; try (intros Hin; exact (EC id Hin)).
    cbn [inuse set updop]. intros Hin. apply (held_updop s o _ id c Ec); [rewrite Es; discriminate|exact (EC id Hin)].
  - (* Alloc: the new id is held by the new record *)
    unfold alloc. destruct (next_msgid (last s) (inuse s)) as [mid| |]; try (intros Hin; exact (EC id Hin)). cbn [inuse set]. intros [<-|Hin].
    + exists (length (ops s)), (mkOp mid k None CAlloc OsClosed [] 0 false false [] None tmo None). unfold getop. cbn [ops set]. rewrite nth_error_last. now repeat split.
    + eapply held_app; [reflexivity|exact (EC id Hin)].
  - (* Enqueue on a dead connection: the send fails, the id is given back *)
    unfold enqueue. destruct (getop s o) as [c|] eqn:Ec; [|intros Hin; exact (EC id Hin)]. destruct (o_status c) eqn:Es; try (intros Hin; exact (EC id Hin)).
    rewrite Hr, F. cbn [inuse set updop]. rewrite In_rem. intros [Hne Hin]. destruct (EC id Hin) as (o' & c' & Hc' & M & S).
    exists o', c'. split; [|now split]. match goal with |- getop (set inuse _ ?x) _ = _ => change (getop x o' = Some c') end.
    rewrite getop_updop. destruct (Nat.eqb_spec o' o) as [->|]; [|exact Hc']. rewrite Ec in Hc'. injection Hc' as <-. congruence.
Qed.

Theorem reachable_EndedClean evs : EndedClean (run repaired evs).
Proof.
  induction evs as [|e evs IH] using rev_ind; [apply EndedClean_init|]. rewrite run_snoc. apply step_EndedClean; [|exact IH].
  assert (F : fx (run repaired evs) = repaired) by (clear; induction evs as [|e evs IH] using rev_ind; [reflexivity|now rewrite run_snoc, fx_step]).
  now rewrite F.
Qed.

(* C13 after the connection is gone: every history, any length, no hypothesis on ids - once every operation has returned, nothing is reserved *)
Theorem c13_dead_connection evs : is_running (run repaired evs) = false -> forallb op_finished (ops (run repaired evs)) = true -> inuse (run repaired evs) = [].
Proof.
  intros Hr Hfin. destruct (inuse (run repaired evs)) as [|id l] eqn:E; [reflexivity|exfalso].
  destruct (reachable_EndedClean evs Hr id) as (o & c & Hc & _ & S); [rewrite E; now left|].
  rewrite forallb_forall in Hfin. specialize (Hfin c (nth_error_In _ _ Hc)). unfold op_finished in Hfin. rewrite S in Hfin. discriminate.
Qed.
(* as found: ten operations on a dead handle, ten ids reserved for good *)
Definition all_but_31 := mkFx true true true true true true true true true false.
Lemma c13_refuted_F31 : let s := run all_but_31 (DrvEnd EndedOk :: repeat (Start KSingle None) 10) in is_running s = false /\ forallb op_finished (ops s) = true /\ length (inuse s) = 10%nat.
Proof. vm_compute. repeat split. Qed.
Print Assumptions c13_dead_connection.
