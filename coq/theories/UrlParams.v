(* Calibration sketch (round 0): get_url_params (src/util.rs:235-319) from url.path() / url.query(). C20. *)
From Coq Require Import List NArith Lia Bool Arith.
From Coq.Strings Require Import Byte.
From L3 Require Import Ber Utf8 Filter.
Import ListNotations.
Open Scope N_scope.

Definition bytes := list byte.
Definition beqs (a b : bytes) : bool := if list_eq_dec Byte.byte_eq_dec a b then true else false.
Lemma beqs_refl a : beqs a a = true. Proof. unfold beqs. destruct (list_eq_dec _ a a); congruence. Qed.

(* percent_decode: %XY with two hex digits becomes a byte, anything else is kept *)
Fixpoint pct_decode (fuel : nat) (s : bytes) : bytes :=
  match fuel with O => s | S f =>
  match s with
  | [] => []
  | p :: h1 :: h2 :: r =>
      if beq p "%"%byte && is_hex h1 && is_hex h2 then byte_of_N (hexval h1 * 16 + hexval h2) :: pct_decode f r
      else p :: pct_decode f (h1 :: h2 :: r)
  | c :: r => c :: pct_decode f r end end.
Definition pdec (s : bytes) : bytes := pct_decode (length s) s.

(* str::split(c) / splitn(n, c) *)
Fixpoint split_on (c : byte) (s : bytes) (cur : bytes) : list bytes :=
  match s with [] => [cur] | x :: r => if beq x c then cur :: split_on c r [] else split_on c r (cur ++ [x]) end.
Fixpoint splitn_on (n : nat) (c : byte) (s : bytes) (cur : bytes) : list bytes :=
  match n with O => [] | S O => [cur ++ s] | S n' =>
  match s with [] => [cur] | x :: r => if beq x c then cur :: splitn_on n' c r [] else splitn_on n c r (cur ++ [x]) end end.

Inductive scope := Base | OneLevel | Subtree.
Inductive ext := Bindname (v : bytes) | XBindpw (v : bytes) | Credentials (v : bytes) | SaslMech (v : bytes) | StartTLS.
Definition ext_kind (e : ext) : N := match e with Bindname _ => 0 | XBindpw _ => 1 | Credentials _ => 2 | SaslMech _ => 3 | StartTLS => 4 end.
Inductive uerr := EUtf8 | EScope | ECritical.
Inductive ures (A : Type) := UOk (a : A) | UErr (e : uerr).
Arguments UOk {A}. Arguments UErr {A}.
Record params := { p_base : bytes; p_attrs : list bytes; p_scope : scope; p_filter : bytes; p_exts : list ext }.

Definition s2b := Filter.s2b.
Definition lc (c : byte) : byte := if in_range 65 90 c then byte_of_N (bN c + 32) else c.
Definition ascii_lc_equal (lower t : bytes) : bool := beqs lower (map lc t).
Definition set_insert (e : ext) (l : list ext) : list ext :=        (* HashSet whose Eq/Hash ignore the value: first one wins *)
  if existsb (fun x => ext_kind x =? ext_kind e) l then l else l ++ [e].

Require Import Coq.Strings.String.
Local Open Scope string_scope.
Fixpoint do_exts (l : list bytes) (acc : list ext) : ures (list ext) :=
  match l with [] => UOk acc | e :: r =>
    let parts := splitn_on 2 "="%byte e [] in
    let id0 := match parts with x :: _ => x | [] => [] end in
    let '(crit, id) := match id0 with c :: tl => if beq c "!"%byte then (true, tl) else (false, id0) | [] => (false, id0) end in
    let rawv := match parts with _ :: v :: _ => v | _ => [] end in
    let v := pdec rawv in
    if negb (Utf8.valid v) then UErr EUtf8 else
    if beqs id (s2b "1.3.6.1.4.1.10094.1.5.1") then do_exts r (set_insert (Credentials v) acc)
    else if beqs id (s2b "1.3.6.1.4.1.10094.1.5.2") then do_exts r (set_insert (SaslMech v) acc)
    else if beqs id (s2b "1.3.6.1.4.1.1466.20037") then do_exts r (set_insert StartTLS acc)
    else if ascii_lc_equal (s2b "bindname") id then do_exts r (set_insert (Bindname v) acc)
    else if ascii_lc_equal (s2b "x-bindpw") id then do_exts r (set_insert (XBindpw v) acc)
    else if crit then UErr ECritical
    else do_exts r acc
  end.

Definition get_url_params (path : bytes) (query : option bytes) : ures params :=
  let base0 := match path with c :: r => if beq c "/"%byte then r else path | [] => path end in
  let base := pdec base0 in
  if negb (Utf8.valid base) then UErr EUtf8 else
  let q := splitn_on 4 "?"%byte (match query with Some x => x | None => [] end) [] in
  let nthq n := nth_error q n in
  let attrs := match nthq 0%nat with Some ((_ :: _) as a) => split_on ","%byte a [] | _ => [s2b "*"] end in
  match (match nthq 1%nat with
         (* repair F35: the scope words are ABNF literals (RFC 4516), hence compared without regard to case *)
         | Some ((_ :: _) as sc0) => let sc := map lc sc0 in
                                  if beqs sc (s2b "base") then UOk Base else if beqs sc (s2b "one") then UOk OneLevel
                                  else if beqs sc (s2b "sub") then UOk Subtree else UErr EScope
         | _ => UOk Subtree end) with
  | UErr e => UErr e
  | UOk sc =>
    let filt := pdec (match nthq 2%nat with Some ((_ :: _) as f) => f | _ => s2b "(objectClass=*)" end) in
    if negb (Utf8.valid filt) then UErr EUtf8 else
    match (match nthq 3%nat with Some ((_ :: _) as x) => do_exts (split_on ","%byte x []) [] | _ => UOk [] end) with
    | UErr e => UErr e
    | UOk exts => UOk {| p_base := base; p_attrs := attrs; p_scope := sc; p_filter := filt; p_exts := exts |} end
  end.

(* the URLs probed in round 0, on the model *)
Definition q (s : string) := Some (s2b s).
Example u1 : get_url_params (s2b "/dc=ex%2Cample") (q "cn,sn?one?(cn=a%3Fb)?!bindname=cn=x%2Cdc=y,x-foo=1") =
  UOk {| p_base := s2b "dc=ex,ample"; p_attrs := [s2b "cn"; s2b "sn"]; p_scope := OneLevel; p_filter := s2b "(cn=a?b)";
         p_exts := [Bindname (s2b "cn=x,dc=y")] |}. Proof. vm_compute. reflexivity. Qed.
Example u_defaults : get_url_params (s2b "/") None =
  UOk {| p_base := []; p_attrs := [s2b "*"]; p_scope := Subtree; p_filter := s2b "(objectClass=*)"; p_exts := [] |}. Proof. vm_compute. reflexivity. Qed.
Example u_empty_fields : get_url_params (s2b "/") (q "??") =
  UOk {| p_base := []; p_attrs := [s2b "*"]; p_scope := Subtree; p_filter := s2b "(objectClass=*)"; p_exts := [] |}. Proof. vm_compute. reflexivity. Qed.
Example u_critical : get_url_params (s2b "/") (q "???!x-foo=1") = UErr ECritical. Proof. vm_compute. reflexivity. Qed.
Example u_scope : get_url_params (s2b "/") (q "cn?bases") = UErr EScope. Proof. vm_compute. reflexivity. Qed.
Example u_scope_case : option_map p_scope (match get_url_params (s2b "/") (q "cn?Base") with UOk p => Some p | _ => None end) = Some Base /\
  option_map p_scope (match get_url_params (s2b "/") (q "cn?SUB") with UOk p => Some p | _ => None end) = Some Subtree. Proof. vm_compute. split; reflexivity. Qed.
Example u_utf8 : get_url_params (s2b "/dc=%ff") None = UErr EUtf8. Proof. vm_compute. reflexivity. Qed.
Example u_case : get_url_params (s2b "/") (q "???BindName=a,!1.3.6.1.4.1.1466.20037,X-BINDPW=p%20w") =
  UOk {| p_base := []; p_attrs := [s2b "*"]; p_scope := Subtree; p_filter := s2b "(objectClass=*)";
         p_exts := [Bindname (s2b "a"); StartTLS; XBindpw (s2b "p w")] |}. Proof. vm_compute. reflexivity. Qed.
Example u_surplus : get_url_params (s2b "/dc=a%3Fb") (q "cn?base?(a=b)?x=1?y=2") =
  UOk {| p_base := s2b "dc=a?b"; p_attrs := [s2b "cn"]; p_scope := Base; p_filter := s2b "(a=b)"; p_exts := [] |}. Proof. vm_compute. reflexivity. Qed.
(* F19: the attribute list is not percent-decoded *)
Example u_attrs_not_decoded : get_url_params (s2b "/") (q "*,%2B") =
  UOk {| p_base := []; p_attrs := [s2b "*"; s2b "%2B"]; p_scope := Subtree; p_filter := s2b "(objectClass=*)"; p_exts := [] |}. Proof. vm_compute. reflexivity. Qed.

(* ---------- C20 round trip: format (RFC 4516, everything outside the unreserved set percent-encoded), then extract ---------- *)
From L3 Require Import FilterSpec Escape Dn.
Local Open Scope list_scope.
Definition unreserved (c : byte) : bool := is_alpha c || is_digit c || beq c "-"%byte || beq c "."%byte || beq c "_"%byte || beq c "~"%byte.
Definition penc (s : bytes) : bytes := flat_map (fun c => if unreserved c then [c] else ["%"%byte; xdigit (bN c / 16); xdigit (bN c mod 16)]) s.

Lemma unreserved_facts c : unreserved c = true -> beq c "%"%byte = false /\ beq c "?"%byte = false /\ beq c ","%byte = false.
Proof. destruct c; vm_compute; intros; repeat split; congruence. Qed.
Lemma xdigit_facts c : beq (xdigit (bN c / 16)) "?"%byte = false /\ beq (xdigit (bN c mod 16)) "?"%byte = false /\
                       beq (xdigit (bN c / 16)) ","%byte = false /\ beq (xdigit (bN c mod 16)) ","%byte = false.
Proof. destruct c; vm_compute; repeat split. Qed.

Lemma pct_plain f c X : beq c "%"%byte = false -> pct_decode (S f) (c :: X) = c :: pct_decode f X.
Proof. intros H. destruct X as [|h1 [|h2 r]]; cbn [pct_decode]; [reflexivity|reflexivity|now rewrite H]. Qed.
Lemma penc_cons c s : penc (c :: s) = (if unreserved c then [c] else ["%"%byte; xdigit (bN c / 16); xdigit (bN c mod 16)]) ++ penc s.
Proof. reflexivity. Qed.
Lemma pct_decode_penc s : forall f, (List.length (penc s) <= f)%nat -> pct_decode f (penc s) = s.
Proof. induction s as [|c s IH]; intros f Hf; [destruct f; reflexivity|]. rewrite penc_cons in *. destruct (unreserved c) eqn:Eu.
  - cbn [app List.length] in *. destruct f as [|f]; [lia|]. destruct (unreserved_facts c Eu) as (Hp & _ & _).
    rewrite (pct_plain f c _ Hp). f_equal. apply IH. lia.
  - cbn [app List.length] in *. destruct f as [|f]; [lia|]. cbn [pct_decode]. change (beq "%" "%")%byte with true.
    destruct (hexpair_back c) as (H1 & H2 & H3). rewrite H1, H2. cbn [andb]. rewrite H3. f_equal. apply IH. lia. Qed.
Theorem pdec_penc s : pdec (penc s) = s.
Proof. unfold pdec. now apply pct_decode_penc. Qed.

Definition no_byte (c : byte) (s : bytes) : Prop := forallb (fun x => negb (beq x c)) s = true.
Lemma penc_no q s : (q = "?"%byte \/ q = ","%byte) -> no_byte q (penc s).
Proof. intros Hq. unfold no_byte. induction s as [|c s IH]; [reflexivity|]. rewrite penc_cons, forallb_app, IH, andb_true_r.
  destruct (unreserved c) eqn:Eu.
  - destruct (unreserved_facts c Eu) as (_ & H1 & H2). cbn. destruct Hq as [-> | ->]; now rewrite ?H1, ?H2.
  - destruct (xdigit_facts c) as (A1 & A2 & A3 & A4). cbn. destruct Hq as [-> | ->]; cbn; now rewrite ?A1, ?A2, ?A3, ?A4. Qed.

Lemma splitn_last c s cur : splitn_on 1 c s cur = [cur ++ s]. Proof. destruct s; reflexivity. Qed.
Lemma splitn_field n c a rest cur : no_byte c a -> splitn_on (S (S n)) c (a ++ c :: rest) cur = (cur ++ a) :: splitn_on (S n) c rest [].
Proof. unfold no_byte. revert cur. induction a as [|x a IH]; intros cur H.
  - cbn [app splitn_on]. rewrite beq_refl. now rewrite app_nil_r.
  - cbn in H. apply andb_true_iff in H as [Hx H]. apply negb_true_iff in Hx. cbn [app splitn_on]. rewrite Hx.
    rewrite IH by assumption. now rewrite <- app_assoc. Qed.
Lemma splitn_end n c a cur : no_byte c a -> splitn_on (S (S n)) c a cur = [cur ++ a].
Proof. unfold no_byte. revert cur. induction a as [|x a IH]; intros cur H.
  - cbn. now rewrite app_nil_r.
  - cbn in H. apply andb_true_iff in H as [Hx H]. apply negb_true_iff in Hx. cbn [splitn_on]. rewrite Hx. rewrite IH by assumption. now rewrite <- app_assoc. Qed.
Lemma split_single c a cur : no_byte c a -> split_on c a cur = [cur ++ a].
Proof. unfold no_byte. revert cur. induction a as [|x a IH]; intros cur H; cbn; [now rewrite app_nil_r|].
  cbn in H. apply andb_true_iff in H as [Hx H]. apply negb_true_iff in Hx. rewrite Hx, IH by assumption. now rewrite <- app_assoc. Qed.
Lemma split_cons c a rest cur : no_byte c a -> split_on c (a ++ c :: rest) cur = (cur ++ a) :: split_on c rest [].
Proof. unfold no_byte. revert cur. induction a as [|x a IH]; intros cur H.
  - cbn [app split_on]. rewrite beq_refl. now rewrite app_nil_r.
  - cbn in H. apply andb_true_iff in H as [Hx H]. apply negb_true_iff in Hx. cbn [app split_on]. rewrite Hx, IH by assumption. now rewrite <- app_assoc. Qed.

Fixpoint join (c : byte) (l : list bytes) : bytes := match l with [] => [] | [x] => x | x :: r => x ++ c :: join c r end.
Lemma split_join c l : l <> [] -> Forall (no_byte c) l -> split_on c (join c l) [] = l.
Proof. induction l as [|x l IH]; intros Hne Hl; [congruence|]. inversion Hl as [|? ? Hx Hl']; subst. destruct l as [|y l].
  - cbn [join]. now rewrite split_single.
  - cbn [join]. rewrite split_cons by assumption. cbn [app]. f_equal. apply IH; [discriminate|assumption]. Qed.

Definition scope_word (sc : scope) : bytes := match sc with Base => s2b "base" | OneLevel => s2b "one" | Subtree => s2b "sub" end.
(* attribute descriptions need no encoding; what matters here is that they contain neither ',' nor '?' and are not empty *)
Definition attr_ok (a : bytes) : Prop := a <> [] /\ no_byte ","%byte a /\ no_byte "?"%byte a.

Lemma no_byte_join q c l : Forall (no_byte q) l -> beq c q = false -> no_byte q (join c l).
Proof. unfold no_byte. induction 1 as [|x l Hx _ IH]; intros Hc; [reflexivity|]. destruct l as [|y l]; cbn [join]; [exact Hx|].
  rewrite forallb_app, Hx. cbn. rewrite Hc. cbn. now apply IH. Qed.

Theorem c20_roundtrip base attrs sc filt :
  Utf8.valid base = true -> Utf8.valid filt = true -> filt <> [] -> attrs <> [] -> Forall attr_ok attrs ->
  get_url_params ("/"%byte :: penc base) (Some (join ","%byte attrs ++ "?"%byte :: scope_word sc ++ "?"%byte :: penc filt)) =
  UOk {| p_base := base; p_attrs := attrs; p_scope := sc; p_filter := filt; p_exts := [] |}.
Proof.
  intros Hb Hf Hfn Han Hat. unfold get_url_params. cbn [beq Byte.eqb]. change (beq "/" "/")%byte with true. cbn match.
  rewrite pdec_penc, Hb. cbn [negb].
  assert (Hq1 : no_byte "?"%byte (join ","%byte attrs)) by (apply no_byte_join; [eapply Forall_impl; [|exact Hat]; intros a (_ & _ & H); exact H|reflexivity]).
  assert (Hq2 : no_byte "?"%byte (scope_word sc)) by (destruct sc; reflexivity).
  rewrite splitn_field by exact Hq1. rewrite splitn_field by exact Hq2. rewrite splitn_end by (apply penc_no; now left).
  cbn [app nth_error].
  assert (Hj : join ","%byte attrs <> []).
  { destruct attrs as [|a l]; [congruence|]. inversion Hat as [|? ? (Hne & _) _]; subst. destruct l; cbn [join]; [exact Hne|]. destruct a; [congruence|discriminate]. }
  destruct (join ","%byte attrs) as [|j0 jt] eqn:Ej; [congruence|]. rewrite <- Ej.
  rewrite split_join; [|assumption|eapply Forall_impl; [|exact Hat]; intros a (_ & H & _); exact H].
  assert (Hs : exists w0 wt, scope_word sc = w0 :: wt) by (destruct sc; eexists; eexists; reflexivity). destruct Hs as (w0 & wt & Ew). rewrite Ew, <- Ew.
  assert (Hsc : (let sc1 := map lc (scope_word sc) in if beqs sc1 (s2b "base") then UOk Base else if beqs sc1 (s2b "one") then UOk OneLevel
                 else if beqs sc1 (s2b "sub") then UOk Subtree else UErr EScope) = UOk sc) by (destruct sc; reflexivity).
  cbv zeta in Hsc |- *. rewrite Hsc.
  assert (Hpf : penc filt <> []) by (destruct filt as [|c r]; [congruence|]; cbn; destruct (unreserved c); discriminate).
  destruct (penc filt) as [|p0 pt] eqn:Ep; [congruence|]. rewrite <- Ep. rewrite pdec_penc, Hf. cbn [negb]. reflexivity.
Qed.
Print Assumptions c20_roundtrip.
(* repair F35: the scope word in any spelling of its letters (RFC 4516 gives the words as ABNF literals, which match without regard to case) *)
Theorem c20_scope_any_case base attrs w sc filt : map lc w = scope_word sc -> no_byte "?"%byte w ->
  Utf8.valid base = true -> Utf8.valid filt = true -> filt <> [] -> attrs <> [] -> Forall attr_ok attrs ->
  get_url_params ("/"%byte :: penc base) (Some (join ","%byte attrs ++ "?"%byte :: w ++ "?"%byte :: penc filt)) =
  UOk {| p_base := base; p_attrs := attrs; p_scope := sc; p_filter := filt; p_exts := [] |}.
Proof.
  intros Hw Hq2 Hb Hf Hfn Han Hat. unfold get_url_params. cbn [beq Byte.eqb]. change (beq "/" "/")%byte with true. cbn match.
  rewrite pdec_penc, Hb. cbn [negb].
  assert (Hq1 : no_byte "?"%byte (join ","%byte attrs)) by (apply no_byte_join; [eapply Forall_impl; [|exact Hat]; intros a (_ & _ & H); exact H|reflexivity]).
  rewrite splitn_field by exact Hq1. rewrite splitn_field by exact Hq2. rewrite splitn_end by (apply penc_no; now left).
  cbn [app nth_error].
  assert (Hj : join ","%byte attrs <> []).
  { destruct attrs as [|a l]; [congruence|]. inversion Hat as [|? ? (Hne & _) _]; subst. destruct l; cbn [join]; [exact Hne|]. destruct a; [congruence|discriminate]. }
  destruct (join ","%byte attrs) as [|j0 jt] eqn:Ej; [congruence|]. rewrite <- Ej.
  rewrite split_join; [|assumption|eapply Forall_impl; [|exact Hat]; intros a (_ & H & _); exact H].
  assert (Hs : exists w0 wt, w = w0 :: wt) by (destruct w; [destruct sc; discriminate|eexists; eexists; reflexivity]). destruct Hs as (w0 & wt & Ew). rewrite Ew, <- Ew.
  assert (Hsc : (let sc1 := map lc w in if beqs sc1 (s2b "base") then UOk Base else if beqs sc1 (s2b "one") then UOk OneLevel
                 else if beqs sc1 (s2b "sub") then UOk Subtree else UErr EScope) = UOk sc) by (rewrite Hw; destruct sc; reflexivity).
  cbv zeta in Hsc |- *. rewrite Hsc.
  assert (Hpf : penc filt <> []) by (destruct filt as [|c r]; [congruence|]; cbn; destruct (unreserved c); discriminate).
  destruct (penc filt) as [|p0 pt] eqn:Ep; [congruence|]. rewrite <- Ep. rewrite pdec_penc, Hf. cbn [negb]. reflexivity.
Qed.
Print Assumptions c20_scope_any_case.

(* ---------- C20 round trip, extensions included ---------- *)
Require Import Coq.Strings.String.
Local Open Scope string_scope.
Local Open Scope list_scope.
Definition ext_name (e : ext) : bytes := match e with
  | Bindname _ => s2b "bindname" | XBindpw _ => s2b "x-bindpw" | Credentials _ => s2b "1.3.6.1.4.1.10094.1.5.1"
  | SaslMech _ => s2b "1.3.6.1.4.1.10094.1.5.2" | StartTLS => s2b "1.3.6.1.4.1.1466.20037" end.
Definition ext_val (e : ext) : option bytes := match e with Bindname v | XBindpw v | Credentials v | SaslMech v => Some v | StartTLS => None end.
(* an extension as RFC 4516 writes it: optional '!', the name or OID, and '=' value with the value percent-encoded *)
Definition fmt_ext (ce : bool * ext) : bytes :=
  (if fst ce then ["!"%byte] else []) ++ ext_name (snd ce) ++ match ext_val (snd ce) with Some v => "="%byte :: penc v | None => [] end.
Definition ext_valid (e : ext) : Prop := match ext_val e with Some v => Utf8.valid v = true | None => True end.

Ltac eval_closed :=
  repeat match goal with
  | |- context [beqs ?a ?b] => let x := eval vm_compute in (beqs a b) in change (beqs a b) with x
  | |- context [ascii_lc_equal ?a ?b] => let x := eval vm_compute in (ascii_lc_equal a b) in change (ascii_lc_equal a b) with x
  | |- context [beq ?a ?b] => let x := eval vm_compute in (beq a b) in change (beq a b) with x
  end.
Lemma do_exts_fmt crit e r acc : ext_valid e -> do_exts (fmt_ext (crit, e) :: r) acc = do_exts r (set_insert e acc).
Proof.
  intros Hv. cbn [do_exts]. unfold fmt_ext. cbn [fst snd].
  destruct e as [v|v|v|v|]; cbn [ext_name ext_val] in *; unfold ext_valid in Hv; cbn [ext_val] in Hv.
  1-4: rewrite app_assoc;
       match goal with |- context [splitn_on 2 _ (?a ++ "="%byte :: penc ?vv) []] =>
         rewrite (splitn_field 0 "="%byte a (penc vv) []) by (destruct crit; reflexivity) end;
       rewrite splitn_last; cbn [app]; rewrite pdec_penc, Hv; destruct crit; cbn [app negb]; eval_closed; cbv beta iota zeta; eval_closed; reflexivity.
  rewrite app_nil_r. rewrite (splitn_end 0 "="%byte _ []) by (destruct crit; reflexivity).
  destruct crit; cbn [app]; eval_closed; cbv beta iota zeta; eval_closed; reflexivity.
Qed.

Definition fresh_kinds (es : list ext) : Prop := NoDup (map ext_kind es).
Lemma set_insert_fresh e acc : ~ In (ext_kind e) (map ext_kind acc) -> set_insert e acc = acc ++ [e].
Proof.
  intros H. unfold set_insert. destruct (existsb (fun x => (ext_kind x =? ext_kind e)%N) acc) eqn:E; [|reflexivity].
  exfalso. apply existsb_exists in E as (x & Hin & Hx). apply N.eqb_eq in Hx. apply H. rewrite <- Hx. now apply in_map.
Qed.
Lemma do_exts_all ces : forall acc, Forall (fun ce => ext_valid (snd ce)) ces -> NoDup (map ext_kind (acc ++ map snd ces)) ->
  do_exts (map fmt_ext ces) acc = UOk (acc ++ map snd ces).
Proof.
  induction ces as [|[crit e] ces IH]; intros acc Hv Hnd; cbn [map]; [cbn; now rewrite app_nil_r|].
  apply Forall_cons_iff in Hv as [Hv1 Hv]. cbn [snd] in *. rewrite do_exts_fmt by assumption.
  rewrite set_insert_fresh.
  - rewrite IH; [now rewrite <- app_assoc|assumption|now rewrite <- app_assoc].
  - rewrite map_app in Hnd. cbn [map] in Hnd. apply NoDup_remove_2 in Hnd. intros H. apply Hnd. apply in_or_app. now left.
Qed.

Lemma fmt_no_comma ce : no_byte ","%byte (fmt_ext ce).
Proof.
  destruct ce as [crit e]. unfold fmt_ext, no_byte. cbn [fst snd]. rewrite !forallb_app.
  assert (H1 : forallb (fun x => negb (beq x ","%byte)) (if crit then ["!"%byte] else []) = true) by (destruct crit; reflexivity).
  assert (H2 : forallb (fun x => negb (beq x ","%byte)) (ext_name e) = true) by (destruct e; reflexivity).
  rewrite H1, H2. destruct (ext_val e) as [v|]; [|reflexivity]. cbn [forallb]. change (negb (beq "=" ","))%byte with true. apply (penc_no ","%byte v). now right.
Qed.

Theorem c20_roundtrip_ext base attrs sc filt ces :
  Utf8.valid base = true -> Utf8.valid filt = true -> filt <> [] -> attrs <> [] -> Forall attr_ok attrs ->
  ces <> [] -> Forall (fun ce => ext_valid (snd ce)) ces -> fresh_kinds (map snd ces) ->
  get_url_params ("/"%byte :: penc base)
    (Some (join ","%byte attrs ++ "?"%byte :: scope_word sc ++ "?"%byte :: penc filt ++ "?"%byte :: join ","%byte (map fmt_ext ces))) =
  UOk {| p_base := base; p_attrs := attrs; p_scope := sc; p_filter := filt; p_exts := map snd ces |}.
Proof.
  intros Hb Hf Hfn Han Hat Hcn Hcv Hck. unfold get_url_params. change (beq "/" "/")%byte with true. cbn match.
  rewrite pdec_penc, Hb. cbn [negb].
  assert (Hq1 : no_byte "?"%byte (join ","%byte attrs)) by (apply no_byte_join; [eapply Forall_impl; [|exact Hat]; intros a (_ & _ & H); exact H|reflexivity]).
  assert (Hq2 : no_byte "?"%byte (scope_word sc)) by (destruct sc; reflexivity).
  rewrite splitn_field by exact Hq1. rewrite splitn_field by exact Hq2. rewrite splitn_field by (apply penc_no; now left). rewrite splitn_last.
  cbn [app nth_error].
  assert (Hj : join ","%byte attrs <> []).
  { destruct attrs as [|a l]; [congruence|]. inversion Hat as [|? ? (Hne & _) _]; subst. destruct l; cbn [join]; [exact Hne|]. destruct a; [congruence|discriminate]. }
  destruct (join ","%byte attrs) as [|j0 jt] eqn:Ej; [congruence|]. rewrite <- Ej.
  rewrite (split_join ","%byte attrs); [|assumption|eapply Forall_impl; [|exact Hat]; intros a (_ & H & _); exact H].
  assert (Hs : exists w0 wt, scope_word sc = w0 :: wt) by (destruct sc; eexists; eexists; reflexivity). destruct Hs as (w0 & wt & Ew). rewrite Ew, <- Ew.
  assert (Hsc : (let sc1 := map lc (scope_word sc) in if beqs sc1 (s2b "base") then UOk Base else if beqs sc1 (s2b "one") then UOk OneLevel
                 else if beqs sc1 (s2b "sub") then UOk Subtree else UErr EScope) = UOk sc) by (destruct sc; reflexivity).
  cbv zeta in Hsc |- *. rewrite Hsc.
  assert (Hpf : penc filt <> []) by (destruct filt as [|c r]; [congruence|]; cbn; destruct (unreserved c); discriminate).
  destruct (penc filt) as [|p0 pt] eqn:Ep; [congruence|]. rewrite <- Ep. rewrite pdec_penc, Hf. cbn [negb].
  assert (Hje : join ","%byte (map fmt_ext ces) <> []).
  { destruct ces as [|[crit e] l]; [congruence|]. cbn [map]. assert (Hne : fmt_ext (crit, e) <> []) by (unfold fmt_ext; cbn [fst snd]; destruct crit, e; discriminate).
    destruct (map fmt_ext l); cbn [join]; [exact Hne|]. destruct (fmt_ext (crit, e)); [congruence|discriminate]. }
  destruct (join ","%byte (map fmt_ext ces)) as [|e0 et] eqn:Eje; [congruence|]. rewrite <- Eje.
  rewrite (split_join ","%byte (map fmt_ext ces)); [|destruct ces; [congruence|discriminate]|apply Forall_forall; intros x Hx; apply in_map_iff in Hx as (ce & <- & _); apply fmt_no_comma].
  rewrite (do_exts_all ces []); [reflexivity|assumption|exact Hck].
Qed.
Example c20_ext_hypotheses_met :
  let ces := [(true, Bindname (s2b "cn=x,dc=y")); (false, StartTLS); (false, XBindpw (s2b "p w"))] in
  ces <> [] /\ Forall (fun ce => ext_valid (snd ce)) ces /\ fresh_kinds (map snd ces) /\
  join ","%byte (map fmt_ext ces) = s2b "!bindname=cn%3dx%2cdc%3dy,1.3.6.1.4.1.1466.20037,x-bindpw=p%20w".
Proof. cbv zeta. split; [discriminate|]. split; [repeat constructor|]. split; [|vm_compute; reflexivity].
  unfold fresh_kinds. cbn. repeat constructor; cbn; intuition discriminate. Qed.
Print Assumptions c20_roundtrip_ext.

(* ---------- C20: defaults for omitted components, and the three error classes ---------- *)
Theorem c20_defaults base : Utf8.valid base = true ->
  get_url_params ("/"%byte :: penc base) None =
  UOk {| p_base := base; p_attrs := [s2b "*"]; p_scope := Subtree; p_filter := s2b "(objectClass=*)"; p_exts := [] |}.
Proof. intros Hb. unfold get_url_params. change (beq "/" "/")%byte with true. cbn match. rewrite pdec_penc, Hb. reflexivity. Qed.

(* only the base and the attribute list given: subtree scope and the match-all filter *)
Theorem c20_defaults_after_attrs base attrs : Utf8.valid base = true -> attrs <> [] -> Forall attr_ok attrs ->
  get_url_params ("/"%byte :: penc base) (Some (join ","%byte attrs)) =
  UOk {| p_base := base; p_attrs := attrs; p_scope := Subtree; p_filter := s2b "(objectClass=*)"; p_exts := [] |}.
Proof.
  intros Hb Han Hat. unfold get_url_params. change (beq "/" "/")%byte with true. cbn match. rewrite pdec_penc, Hb. cbn [negb].
  assert (Hq1 : no_byte "?"%byte (join ","%byte attrs)) by (apply no_byte_join; [eapply Forall_impl; [|exact Hat]; intros a (_ & _ & H); exact H|reflexivity]).
  rewrite splitn_end by exact Hq1. cbn [app nth_error].
  assert (Hj : join ","%byte attrs <> []).
  { destruct attrs as [|a l]; [congruence|]. inversion Hat as [|? ? (Hne & _) _]; subst. destruct l; cbn [join]; [exact Hne|]. destruct a; [congruence|discriminate]. }
  destruct (join ","%byte attrs) as [|j0 jt] eqn:Ej; [congruence|]. rewrite <- Ej.
  rewrite split_join; [|assumption|eapply Forall_impl; [|exact Hat]; intros a (_ & H & _); exact H].
  reflexivity.
Qed.

(* an invalid scope word is an error, whatever follows it *)
Theorem c20_bad_scope base attrs w rest : Utf8.valid base = true -> attrs <> [] -> Forall attr_ok attrs ->
  w <> [] -> no_byte "?"%byte w -> beqs (map lc w) (s2b "base") = false -> beqs (map lc w) (s2b "one") = false -> beqs (map lc w) (s2b "sub") = false ->
  get_url_params ("/"%byte :: penc base) (Some (join ","%byte attrs ++ "?"%byte :: w ++ "?"%byte :: rest)) = UErr EScope.
Proof.
  intros Hb Han Hat Hw Hwq E1 E2 E3. unfold get_url_params. change (beq "/" "/")%byte with true. cbn match. rewrite pdec_penc, Hb. cbn [negb].
  assert (Hq1 : no_byte "?"%byte (join ","%byte attrs)) by (apply no_byte_join; [eapply Forall_impl; [|exact Hat]; intros a (_ & _ & H); exact H|reflexivity]).
  rewrite splitn_field by exact Hq1. rewrite splitn_field by exact Hwq. cbn [app nth_error].
  destruct w as [|w0 wt]; [congruence|]. cbv zeta. now rewrite E1, E2, E3.
Qed.

(* a percent-sequence that does not decode to UTF-8 in the base DN is an error *)
Theorem c20_non_utf8_base path query : Utf8.valid (pdec (match path with c :: r => if beq c "/"%byte then r else path | [] => path end)) = false ->
  get_url_params path query = UErr EUtf8.
Proof. intros H. unfold get_url_params. now rewrite H. Qed.

(* extensions: an unknown one is an error exactly when it is marked critical, and is ignored otherwise *)
Definition known_ext (id : bytes) : bool :=
  beqs id (s2b "1.3.6.1.4.1.10094.1.5.1") || beqs id (s2b "1.3.6.1.4.1.10094.1.5.2") || beqs id (s2b "1.3.6.1.4.1.1466.20037") ||
  ascii_lc_equal (s2b "bindname") id || ascii_lc_equal (s2b "x-bindpw") id.
Lemma splitn2_noeq id : no_byte "="%byte id -> splitn_on 2 "="%byte id [] = [id].
Proof. intros H. now rewrite splitn_end by exact H. Qed.
Theorem c20_unknown_critical id r acc : no_byte "="%byte id -> known_ext id = false ->
  do_exts (("!"%byte :: id) :: r) acc = UErr ECritical.
Proof.
  intros Hn Hk. unfold known_ext in Hk. repeat (apply orb_false_elim in Hk as [Hk ?]).
  cbn [do_exts]. assert (Hn' : no_byte "="%byte ("!"%byte :: id)) by (unfold no_byte in *; cbn; exact Hn).
  rewrite splitn2_noeq by exact Hn'. change (beq "!" "!")%byte with true. cbv iota beta.
  change (pdec []) with (@nil byte). change (Utf8.valid []) with true. cbn [negb].
  repeat match goal with H : _ = false |- _ => rewrite H; clear H end. reflexivity.
Qed.
Theorem c20_unknown_noncritical_ignored id r acc : no_byte "="%byte id -> known_ext id = false ->
  (match id with c :: _ => beq c "!"%byte = false | [] => True end) ->
  do_exts (id :: r) acc = do_exts r acc.
Proof.
  intros Hn Hk Hb. unfold known_ext in Hk. repeat (apply orb_false_elim in Hk as [Hk ?]).
  cbn [do_exts]. rewrite splitn2_noeq by exact Hn.
  destruct id as [|c tl].
  - cbv iota beta. change (pdec []) with (@nil byte). change (Utf8.valid []) with true. cbn [negb].
    repeat match goal with H : _ = false |- _ => rewrite H; clear H end. reflexivity.
  - rewrite Hb. cbv iota beta. change (pdec []) with (@nil byte). change (Utf8.valid []) with true. cbn [negb].
    repeat match goal with H : _ = false |- _ => rewrite H; clear H end. reflexivity.
Qed.
Print Assumptions c20_bad_scope.
Print Assumptions c20_unknown_critical.
