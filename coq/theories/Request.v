(* Calibration sketch (round 0): request builders (src/ldap.rs, src/search.rs start_inner), the envelope and control encoding
   (src/protocol.rs, src/controls_impl.rs build_tag), and a reader written from RFC 4511. C02. *)
From Coq Require Import List ZArith NArith Lia Bool Arith.
From Coq.Strings Require Import Byte.
From L3 Require Import Ber BerInt Frame.
Import ListNotations.

Definition bytes := list byte.
Definition int_t (c : class) (id : N) (z : Z) : tree := P c id (int_octets z).       (* Integer / Enumerated, repaired encoder *)
Definition oct (v : bytes) : tree := P Universal 4 v.
Definition boolt (b : bool) : tree := P Universal 1 [if b then xff else x00].
Definition seq (l : list tree) : tree := C Universal 16 l.
Definition sett (l : list tree) : tree := C Universal 17 l.

(* ---- builders, as in the code ---- *)
Definition build_simple_bind (dn pw : bytes) : tree := C Application 0 [int_t Universal 2 3; oct dn; P Context 0 pw].
Definition build_sasl_bind (mech : bytes) (creds : option bytes) : tree :=
  C Application 0 [int_t Universal 2 3; oct []; C Context 3 (oct mech :: match creds with Some c => [oct c] | None => [] end)].
Record sopts := { deref : Z; typesonly : bool; timelimit : Z; sizelimit : Z }.
Definition default_opts := {| deref := 0; typesonly := false; timelimit := 0; sizelimit := 0 |}.
Definition build_search (base : bytes) (scope : Z) (o : sopts) (filter : tree) (attrs : list bytes) : tree :=
  C Application 3 [oct base; int_t Universal 10 scope; int_t Universal 10 (deref o); int_t Universal 2 (sizelimit o);
                   int_t Universal 2 (timelimit o); boolt (typesonly o); filter; seq (map oct attrs)].
Definition attr_t (a : bytes * list bytes) : tree := seq [oct (fst a); sett (map oct (snd a))].
Definition build_add (dn : bytes) (attrs : list (bytes * list bytes)) : option tree :=      (* None = Err(AddNoValues) *)
  if existsb (fun a => match snd a with [] => true | _ => false end) attrs then None
  else Some (C Application 8 [oct dn; seq (map attr_t attrs)]).
Definition build_compare (dn attr val : bytes) : tree := C Application 14 [oct dn; seq [oct attr; oct val]].
Definition build_delete (dn : bytes) : tree := P Application 10 dn.
Definition mod_t (m : Z * bytes * list bytes) : tree := let '(op, a, vs) := m in seq [int_t Universal 10 op; attr_t (a, vs)].
Definition build_modify (dn : bytes) (mods : list (Z * bytes * list bytes)) : option tree :=
  if existsb (fun m => let '(op, _, vs) := m in (op =? 0)%Z && match vs with [] => true | _ => false end) mods then None
  else Some (C Application 6 [oct dn; seq (map mod_t mods)]).
Definition build_moddn (dn rdn : bytes) (delold : bool) (newsup : option bytes) : tree :=
  C Application 12 ([oct dn; oct rdn; boolt delold] ++ match newsup with Some s => [P Context 0 s] | None => [] end).
Definition build_extended (name : bytes) (val : option bytes) : tree :=
  C Application 23 (P Context 0 name :: match val with Some v => [P Context 1 v] | None => [] end).
Definition build_abandon (id : Z) : tree := int_t Application 16 id.
Definition build_unbind : tree := P Application 2 [].

Definition build_ctrl (c : ctrl) : tree :=
  seq (oct (c_oid c) :: (if c_crit c then [boolt true] else []) ++ match c_val c with Some v => [oct v] | None => [] end).
Definition envelope_of (id : Z) (op : tree) (ctrls : option (list ctrl)) : tree :=
  seq ([int_t Universal 2 id; op] ++ match ctrls with Some cs => [C Context 0 (map build_ctrl cs)] | None => [] end).

(* ---- an independent reader, from RFC 4511 section 4 ---- *)
Inductive auth := Simple (pw : bytes) | Sasl (mech : bytes) (creds : option bytes).
Inductive request :=
| RBind (version : Z) (dn : bytes) (a : auth)
| RSearch (base : bytes) (scope deref size time : Z) (typesonly : bool) (filter : tree) (attrs : list bytes)
| RAdd (dn : bytes) (attrs : list (bytes * list bytes))
| RCompare (dn attr val : bytes) | RDelete (dn : bytes)
| RModify (dn : bytes) (mods : list (Z * bytes * list bytes))
| RModDn (dn rdn : bytes) (delold : bool) (newsup : option bytes)
| RExtended (name : bytes) (val : option bytes) | RAbandon (id : Z) | RUnbind.

Definition rd_oct (t : tree) : option bytes := match t with P Universal 4 v => Some v | _ => None end.
Definition rd_int (id : N) (t : tree) : option Z := match t with P Universal i v => if N.eqb i id then Some (twos v) else None | _ => None end.
Definition rd_bool (t : tree) : option bool := match t with P Universal 1 [b] => Some (negb (Byte.eqb b x00)) | _ => None end.
Fixpoint all_some {A B} (f : A -> option B) (l : list A) : option (list B) :=
  match l with [] => Some [] | x :: r => match f x, all_some f r with Some y, Some ys => Some (y :: ys) | _, _ => None end end.
Definition rd_attr (t : tree) : option (bytes * list bytes) :=
  match t with C Universal 16 [ty; C Universal 17 vs] => match rd_oct ty, all_some rd_oct vs with Some a, Some l => Some (a, l) | _, _ => None end | _ => None end.
Definition rd_mod (t : tree) : option (Z * bytes * list bytes) :=
  match t with C Universal 16 [op; pa] => match rd_int 10 op, rd_attr pa with Some o, Some (a, vs) => Some (o, a, vs) | _, _ => None end | _ => None end.

Definition spec_decode_req (t : tree) : option request :=
  match t with
  | C Application 0 [v; n; P Context 0 pw] => match rd_int 2 v, rd_oct n with Some ver, Some dn => Some (RBind ver dn (Simple pw)) | _, _ => None end
  | C Application 0 [v; n; C Context 3 (m :: cr)] =>
      match rd_int 2 v, rd_oct n, rd_oct m, cr with
      | Some ver, Some dn, Some mech, [] => Some (RBind ver dn (Sasl mech None))
      | Some ver, Some dn, Some mech, [c] => match rd_oct c with Some cv => Some (RBind ver dn (Sasl mech (Some cv))) | None => None end
      | _, _, _, _ => None end
  | C Application 3 [b; sc; de; sz; tm; ty; f; C Universal 16 at_] =>
      match rd_oct b, rd_int 10 sc, rd_int 10 de, rd_int 2 sz, rd_int 2 tm, rd_bool ty, all_some rd_oct at_ with
      | Some b', Some sc', Some de', Some sz', Some tm', Some ty', Some at' => Some (RSearch b' sc' de' sz' tm' ty' f at')
      | _, _, _, _, _, _, _ => None end
  | C Application 8 [d; C Universal 16 l] => match rd_oct d, all_some rd_attr l with Some dn, Some al => Some (RAdd dn al) | _, _ => None end
  | C Application 14 [d; C Universal 16 [a; v]] => match rd_oct d, rd_oct a, rd_oct v with Some dn, Some at_, Some va => Some (RCompare dn at_ va) | _, _, _ => None end
  | P Application 10 dn => Some (RDelete dn)
  | C Application 6 [d; C Universal 16 l] => match rd_oct d, all_some rd_mod l with Some dn, Some ml => Some (RModify dn ml) | _, _ => None end
  | C Application 12 [d; r; b] => match rd_oct d, rd_oct r, rd_bool b with Some dn, Some rdn, Some del => Some (RModDn dn rdn del None) | _, _, _ => None end
  | C Application 12 [d; r; b; P Context 0 ns] => match rd_oct d, rd_oct r, rd_bool b with Some dn, Some rdn, Some del => Some (RModDn dn rdn del (Some ns)) | _, _, _ => None end
  | C Application 23 [P Context 0 n] => Some (RExtended n None)
  | C Application 23 [P Context 0 n; P Context 1 v] => Some (RExtended n (Some v))
  | P Application 16 v => Some (RAbandon (twos v))
  | P Application 2 [] => Some RUnbind
  | _ => None end.

Definition i64 (z : Z) : Prop := (- 2^63 <= z < 2^63)%Z.
Lemma rd_int_t id z : i64 z -> rd_int id (int_t Universal id z) = Some z.
Proof. intros H. unfold rd_int, int_t. rewrite N.eqb_refl. f_equal. now apply c07_int_shortest_repaired. Qed.
Lemma all_some_map {A B} (f : A -> option B) (g : B -> A) l : (forall y, f (g y) = Some y) -> all_some f (map g l) = Some l.
Proof. intros H. induction l as [|y l IH]; cbn; [reflexivity|]. now rewrite H, IH. Qed.
Lemma rd_oct_oct v : rd_oct (oct v) = Some v. Proof. reflexivity. Qed.
Lemma rd_bool_boolt b : rd_bool (boolt b) = Some b. Proof. now destruct b. Qed.
Lemma rd_attr_t a : rd_attr (attr_t a) = Some a.
Proof. destruct a as [n vs]. unfold rd_attr, attr_t. cbn. now rewrite (all_some_map rd_oct oct vs rd_oct_oct). Qed.

Theorem c02_bind dn pw : spec_decode_req (build_simple_bind dn pw) = Some (RBind 3 dn (Simple pw)).
Proof. unfold build_simple_bind, spec_decode_req. now rewrite (rd_int_t 2 3) by (unfold i64; lia). Qed.
Theorem c02_sasl_external : spec_decode_req (build_sasl_bind [x45;x58;x54;x45;x52;x4e;x41;x4c] (Some [])) =
  Some (RBind 3 [] (Sasl [x45;x58;x54;x45;x52;x4e;x41;x4c] (Some []))).
Proof. unfold build_sasl_bind, spec_decode_req. now rewrite (rd_int_t 2 3) by (unfold i64; lia). Qed.
Theorem c02_search base scope o f attrs : i64 scope -> i64 (deref o) -> i64 (sizelimit o) -> i64 (timelimit o) ->
  spec_decode_req (build_search base scope o f attrs) = Some (RSearch base scope (deref o) (sizelimit o) (timelimit o) (typesonly o) f attrs).
Proof. intros H1 H2 H3 H4. unfold build_search, spec_decode_req, seq. cbv beta iota.
  rewrite rd_oct_oct, !rd_int_t, rd_bool_boolt, (all_some_map rd_oct oct attrs rd_oct_oct) by assumption. reflexivity. Qed.
Theorem c02_add dn attrs t : build_add dn attrs = Some t -> spec_decode_req t = Some (RAdd dn attrs).
Proof. unfold build_add. destruct (existsb _ attrs); [discriminate|]. intros [= <-]. unfold spec_decode_req, seq. cbv beta iota.
  now rewrite rd_oct_oct, (all_some_map rd_attr attr_t attrs rd_attr_t). Qed.
Theorem c02_compare dn a v : spec_decode_req (build_compare dn a v) = Some (RCompare dn a v). Proof. reflexivity. Qed.
Theorem c02_delete dn : spec_decode_req (build_delete dn) = Some (RDelete dn). Proof. reflexivity. Qed.
Theorem c02_modify dn mods t : Forall (fun m => i64 (fst (fst m))) mods -> build_modify dn mods = Some t -> spec_decode_req t = Some (RModify dn mods).
Proof. intros Hm. unfold build_modify. destruct (existsb _ mods); [discriminate|]. intros [= <-]. unfold spec_decode_req, seq. cbv beta iota. rewrite rd_oct_oct.
  assert (E : all_some rd_mod (map mod_t mods) = Some mods).
  { induction Hm as [|[[op a] vs] l Hop _ IH]; cbn [map all_some]; [reflexivity|]. rewrite IH. unfold rd_mod, mod_t, seq. cbv beta iota.
    cbn in Hop. now rewrite rd_int_t, rd_attr_t by assumption. }
  now rewrite E. Qed.
Theorem c02_moddn dn rdn del ns : spec_decode_req (build_moddn dn rdn del ns) = Some (RModDn dn rdn del ns).
Proof. destruct ns; unfold build_moddn, spec_decode_req; cbn [app]; cbv beta iota; now rewrite !rd_oct_oct, rd_bool_boolt. Qed.
Theorem c02_extended n v : spec_decode_req (build_extended n v) = Some (RExtended n v). Proof. now destruct v. Qed.
Theorem c02_abandon id : i64 id -> spec_decode_req (build_abandon id) = Some (RAbandon id).
Proof. intros H. unfold build_abandon, int_t, spec_decode_req. f_equal. f_equal. now apply c07_int_shortest_repaired. Qed.
Theorem c02_unbind : spec_decode_req build_unbind = Some RUnbind. Proof. reflexivity. Qed.

(* the envelope, read back by the model of the *client's own* decoder is not the point; read it with the RFC shape *)
Definition rd_ctrl (t : tree) : option ctrl :=
  match t with
  | C Universal 16 [o] => option_map (fun oid => Build_ctrl oid false None) (rd_oct o)
  | C Universal 16 [o; P Universal 1 [b]] => option_map (fun oid => Build_ctrl oid (negb (Byte.eqb b x00)) None) (rd_oct o)
  | C Universal 16 [o; P Universal 4 v] => option_map (fun oid => Build_ctrl oid false (Some v)) (rd_oct o)
  | C Universal 16 [o; P Universal 1 [b]; P Universal 4 v] => option_map (fun oid => Build_ctrl oid (negb (Byte.eqb b x00)) (Some v)) (rd_oct o)
  | _ => None end.
Definition spec_decode_msg (t : tree) : option (Z * tree * option (list ctrl)) :=
  match t with
  | C Universal 16 [i; op] => option_map (fun id => (id, op, None)) (rd_int 2 i)
  | C Universal 16 [i; op; C Context 0 cs] => match rd_int 2 i, all_some rd_ctrl cs with Some id, Some l => Some (id, op, Some l) | _, _ => None end
  | _ => None end.
Lemma rd_ctrl_build c : rd_ctrl (build_ctrl c) = Some c.
Proof. destruct c as [oid [|] [v|]]; reflexivity. Qed.
Theorem c02_envelope id op ctrls : (1 <= id <= 2147483647)%Z -> spec_decode_msg (envelope_of id op ctrls) = Some (id, op, ctrls).
Proof. intros H. unfold envelope_of, spec_decode_msg, seq. destruct ctrls as [cs|]; cbn [app]; cbv beta iota.
  - rewrite rd_int_t by (unfold i64; lia). now rewrite (all_some_map rd_ctrl build_ctrl cs rd_ctrl_build).
  - now rewrite rd_int_t by (unfold i64; lia). Qed.
Print Assumptions c02_search.
Print Assumptions c02_envelope.

(* ---- per-operation modifiers are one-shot ---- *)
Record handle := { h_ctrls : option (list ctrl); h_timeout : option Z; h_opts : option sopts }.
Definition cleared := {| h_ctrls := None; h_timeout := None; h_opts := None |}.
Inductive opk := OpSearch | OpOther | OpRejectedLocally.   (* add/modify returning AddNoValues before op_call *)
(* what the handle looks like afterwards, and which modifiers the request used *)
Definition issue (fix10 fix11 : bool) (h : handle) (k : opk) : handle * (option (list ctrl) * option Z * option sopts) :=
  match k with
  | OpSearch => (cleared, (h_ctrls h, h_timeout h, h_opts h))          (* streaming_search_with: take() x3 into the stream's clone *)
  | OpOther => ({| h_ctrls := None; h_timeout := None; h_opts := if fix10 then None else h_opts h |}, (h_ctrls h, h_timeout h, None))
  | OpRejectedLocally => (if fix11 then cleared else h, (None, None, None)) end.

Lemma c02_refuted_search_opts_survive o :
  fst (issue false false {| h_ctrls := None; h_timeout := None; h_opts := Some o |} OpOther) <> cleared.
Proof. cbn. discriminate. Qed.
Lemma c02_refuted_controls_survive cs :
  fst (issue false false {| h_ctrls := Some cs; h_timeout := None; h_opts := None |} OpRejectedLocally) <> cleared.
Proof. cbn. discriminate. Qed.
Theorem c02_modifiers_one_shot h k : fst (issue true true h k) = cleared.
Proof. destruct k; reflexivity. Qed.

(* ---- the request bytes written by the unchanged client for one call of each operation (round-0 probe over the in-memory transport),
        against the model's builders through the Ber.v encoder ---- *)
Require Import Coq.Strings.String.
From L3 Require Filter.
Definition hexd (n : N) : Ascii.ascii := Ascii.ascii_of_N (if N.ltb n 10 then 48 + n else 87 + n).
Fixpoint tohex (l : list byte) : string :=
  match l with nil => EmptyString | cons b r => String (hexd (N.div (Byte.to_N b) 16)) (String (hexd (N.modulo (Byte.to_N b) 16)) (tohex r)) end.
Definition sb (s : string) := Filter.s2b s.
Definition wire (id : Z) (t : tree) : string := tohex (encode (envelope_of id t None)).
Example c02_probe_bytes :
  wire 1 (build_simple_bind (sb "cn=a") (sb "pw")) = "3012020101600d0201030404636e3d6180027077"%string /\
  option_map (fun f => wire 2 (build_search (sb "dc=x") 2 default_opts f (cons (sb "cn") (cons (sb "sn") nil)))) (Filter.parse (sb "(cn=a)")) =
    Some "302d0201026328040464633d780a01020a0100020100020100010100a3070402636e04016130080402636e0402736e"%string /\
  option_map (wire 3) (build_add (sb "cn=a") (cons (sb "cn", cons (sb "a") nil) nil)) = Some "301802010368130404636e3d61300b30090402636e3103040161"%string /\
  wire 4 (build_compare (sb "cn=a") (sb "cn") (sb "v")) = "30140201046e0f0404636e3d6130070402636e040176"%string /\
  wire 5 (build_delete (sb "cn=a")) = "30090201054a04636e3d61"%string /\
  option_map (wire 6) (build_modify (sb "cn=a") (cons (2%Z, sb "sn", cons (sb "x") nil) nil)) =
    Some "301d02010666180404636e3d613010300e0a010230090402736e3103040178"%string /\
  wire 7 (build_moddn (sb "cn=a") (sb "cn=b") true None) = "30140201076c0f0404636e3d610404636e3d620101ff"%string /\
  wire 8 (build_extended (sb "1.3.6.1.4.1.4203.1.11.3") None) = "301e02010877198017312e332e362e312e342e312e343230332e312e31312e33"%string /\
  wire 9 (build_abandon 5) = "3006020109500105"%string /\
  wire 10 build_unbind = "300502010a4200"%string.
Proof. vm_compute. repeat split. Qed.
