(* Callers on several threads: op_call takes its message id (next_msgid, under the handle's shared mutex) and only then sends the request
   to the driver's queue; between the two, operations of other handles can be allocated AND queued. Conn.v has the two halves as events of
   their own (Alloc, Enqueue; Start is exactly one followed at once by the other: Conn.start_split). This file: an allocated, not yet
   enqueued record is inert - nothing the driver or the caller does touches it - for every event, with or without the repairs. *)
From RecordUpdate Require Import RecordUpdate.
From Coq Require Import List ZArith Lia Bool Arith.
From L3 Require Import Msgid Conn ConnProofs ConnTimeouts ConnAccount.
Import ListNotations.
Open Scope Z_scope.

Definition alc (c : cop) : Prop := o_status c = CAlloc -> o_reply c = OsClosed /\ o_rx c = false /\ o_chan c = false /\ o_items c = [].
Definition Al (s : st) : Prop := forall o c, getop s o = Some c -> alc c.

Lemma alc_not c : o_status c <> CAlloc -> alc c. Proof. intros H S. contradiction. Qed.
Lemma alc_same c c' : o_status c' = o_status c -> o_reply c' = o_reply c -> o_rx c' = o_rx c -> o_chan c' = o_chan c -> o_items c' = o_items c -> alc c -> alc c'.
Proof. unfold alc. intros -> -> -> -> ->. tauto. Qed.
Lemma alc_drop_reply c : alc c -> alc (drop_reply c).
Proof. unfold drop_reply. destruct (o_reply c) eqn:E; auto. intros A S. cbn in S. destruct (A S) as (R & _). congruence. Qed.
Lemma alc_close_chan c : alc c -> alc (close_chan c).
Proof. intros A S. cbn in S. destruct (A S) as (R & X & Ch & I). now repeat split. Qed.
Lemma alc_fill p c : alc c -> alc (fill_reply p c).
Proof. unfold fill_reply. destruct (o_reply c) eqn:E; auto. intros A. destruct (waiting c) eqn:W.
  - apply alc_not. cbn. unfold waiting in W. destruct (o_status c); discriminate.
  - intros S. cbn in S. destruct (A S) as (R & _). congruence. Qed.

Lemma Al_updop o g s : Al s -> (forall c, getop s o = Some c -> alc c -> alc (g c)) -> Al (updop o g s).
Proof. intros A Hg o' c' H. rewrite getop_updop in H. destruct (Nat.eqb_spec o' o) as [->|]; [|exact (A _ _ H)].
  destruct (getop s o) as [c|] eqn:Hc; [|discriminate]. cbn in H. injection H as <-. apply Hg; [reflexivity|exact (A _ _ Hc)]. Qed.
Lemma Al_drop_entry m k g s : Al s -> (forall c, alc c -> alc (g c)) -> Al (drop_entry m k g s).
Proof. intros A Hg. unfold drop_entry. destruct (alookup k m); [apply Al_updop; auto|exact A]. Qed.
Lemma Al_same s s' : Al s -> ops s' = ops s -> Al s'.
Proof. intros A E o c H. unfold getop in H. rewrite E in H. exact (A _ _ H). Qed.
Lemma Al_fold {A} (g : st -> A -> st) (l : list A) : (forall s a, Al s -> Al (g s a)) -> forall s, Al s -> Al (fold_left g l s).
Proof. intros Hg. induction l as [|a l IH]; intros s H; cbn [fold_left]; [exact H|]. apply IH, Hg, H. Qed.
Lemma Al_end_driver h s : Al s -> Al (end_driver h s).
Proof. intros A. unfold end_driver. eapply Al_same; [|reflexivity].
  apply Al_fold; [intros; apply Al_updop; [assumption|intros; now apply alc_close_chan, alc_drop_reply]|].
  apply Al_fold; [intros; apply Al_updop; [assumption|intros; now apply alc_close_chan]|].
  apply Al_fold; [intros; apply Al_updop; [assumption|intros; now apply alc_drop_reply]|]. exact A. Qed.
Lemma Al_app s s' x : Al s -> ops s' = ops s ++ [x] -> alc x -> Al s'.
Proof. intros A E Hx o c H. unfold getop in H. rewrite E in H. destruct (Nat.ltb_spec o (length (ops s))).
  - rewrite nth_error_app1 in H by assumption. exact (A _ _ H).
  - rewrite nth_error_app2 in H by assumption. destruct (o - length (ops s))%nat as [|[|n]]; cbn in H; try discriminate. now injection H as <-. Qed.
Lemma Al_init f : Al (init f). Proof. intros o c H. unfold getop in H. cbn in H. destruct o; discriminate. Qed.

Ltac aside :=
  intros; first [ (apply alc_drop_reply; assumption) | (apply alc_close_chan; assumption) | (apply alc_fill; assumption)
                | (apply alc_close_chan, alc_drop_reply; assumption)
                | (apply alc_not; cbn; discriminate)
                | (apply alc_not; cbn; match goal with |- context [match ?k with _ => _ end] => destruct k end; discriminate)
                | (eapply alc_same; [| | | | |eassumption]; reflexivity) ].
Ltac astrip :=
  lazymatch goal with
  | |- Al (set ops _ _) => fail
  | |- Al (set _ _ ?x) => apply (Al_same x); [|reflexivity]
  | |- Al (updop ?o ?f ?x) => apply Al_updop; [|try solve [aside]]
  | |- Al (drop_entry ?m ?k ?f ?x) => apply Al_drop_entry; [|try solve [aside]]
  | |- Al (end_driver ?h ?x) => apply Al_end_driver
  end.

Theorem step_Al s e : Al s -> Al (step s e).
Proof.
  intros A. destruct e as [k tmo| | | |how|r|o|o|o|dt|o|o|k tmo|o]; unfold step.
  - (* Start *) destruct (next_msgid (last s) (inuse s)); try exact A.
    destruct (is_running s); (eapply Al_app; [exact A|reflexivity|]); apply alc_not; cbn; try destruct k; discriminate.
  - (* DrvOp *) destruct (is_running s); cbn [negb]; [|exact A].
    destruct (opq s) as [|o q]; [exact A|]. destruct (getop s o) as [c|] eqn:Ec; [|repeat astrip; exact A].
    destruct (o_kind c); repeat match goal with |- context [if ?b then _ else _] => destruct b end; repeat astrip; exact A.
  - (* DrvScrub *) destruct (is_running s); cbn [negb]; [|exact A].
    destruct (scrubq s) as [|id q]; [exact A|]. repeat astrip; exact A.
  - (* DrvResp *) destruct (is_running s); cbn [negb]; [|exact A].
    destruct (win s) as [|r w]; [exact A|].
    destruct (alookup (r_mid r) (smap s)) as [o|] eqn:Es.
    + destruct (getop s o) as [c|] eqn:Ec; [destruct (r_kind r); destruct (o_rx c) eqn:Erx|destruct (r_kind r)]; cbn [negb];
        repeat match goal with |- context [if ?b then _ else _] => destruct b end; repeat astrip; try exact A.
      all: intros c0 H0 A0; change (getop s o = Some c0) in H0; rewrite Ec in H0; injection H0 as <-;
           intros S; cbn in S; destruct (A0 S) as (_ & X & _); congruence.
    + destruct (alookup (r_mid r) (rmap s)) as [o|]; repeat match goal with |- context [if ?b then _ else _] => destruct b end; repeat astrip; exact A.
  - (* DrvEnd *) destruct (is_running s); [now apply Al_end_driver|exact A].
  - (* ServerSend *) repeat astrip; exact A.
  - (* CliPoll *) destruct (getop s o) as [c|] eqn:Ec; [|exact A].
    destruct (waiting c); cbn [negb]; [|exact A].
    destruct (o_reply c); [destruct (o_deadline c) as [d|]; [destruct (d <=? now s); [destruct (is_running s)|]|]| |]; repeat astrip; exact A.
  - (* StreamNext *) destruct (getop s o) as [c|] eqn:Ec; [|exact A].
    destruct (o_status c) eqn:Est; try exact A.
    assert (Hs : forall c0, getop s o = Some c0 -> o_status c0 = SActive) by (intros c0 H0; rewrite Ec in H0; injection H0 as <-; exact Est).
    assert (Hl : forall (g : cop -> cop), (forall c0, o_status (g c0) = o_status c0 \/ o_status (g c0) <> CAlloc) ->
                 forall c0, getop s o = Some c0 -> alc c0 -> alc (g c0)).
    { intros g Hg c0 H0 _. apply alc_not. destruct (Hg c0) as [E|E]; [rewrite E, (Hs _ H0); discriminate|exact E]. }
    destruct (o_rx c); cbn [negb]; [|repeat astrip; exact A].
    destruct (nth_error (o_items c) (o_taken c)) as [r|].
    + destruct (r_kind r); try destruct (o_kind c) as [|[|]| |]; repeat astrip; try exact A.
      all: try (apply Hl; intros c0; cbn; first [left; reflexivity | right; destruct (o_kind c0) as [|[|]| |]; try destruct (fix7 (fx s)); discriminate]).
    + destruct (o_chan c); cbn [negb]; [|repeat astrip; exact A].
      destruct (o_tmo c) as [d|]; [|repeat astrip; try exact A; try (apply Hl; intros c0; left; reflexivity)].
      match goal with |- context [if ?b then _ else _] => destruct b end; [destruct (is_running s)|]; repeat astrip; try exact A.
      all: try (apply Hl; intros c0; left; reflexivity).
  - (* StreamFinish *) destruct (getop s o) as [c|] eqn:Ec; [|exact A].
    destruct (o_status c); try exact A; try destruct (fix20 (fx s)); destruct (is_running s); repeat astrip; exact A.
  - (* Advance *) repeat astrip; exact A.
  - (* ViaHandle *) repeat astrip; exact A.
  - (* DropCall *) destruct (getop s o) as [c|] eqn:Ec; [destruct (o_status c) eqn:Est|]; repeat astrip; exact A.
  - (* Alloc *) unfold alloc. destruct (next_msgid (last s) (inuse s)); try exact A.
    eapply Al_app; [exact A|reflexivity|]. intros _. cbn. now repeat split.
  - (* Enqueue *) unfold enqueue. destruct (getop s o) as [c|] eqn:Ec; [|exact A].
    destruct (o_status c); try exact A. destruct (is_running s); repeat astrip; try exact A.
    intros c0 _ _. apply alc_not. cbn. unfold start_err. destruct (o_kind c0); discriminate.
Qed.

Theorem reachable_Al f evs : Al (run f evs).
Proof. induction evs as [|e evs IH] using rev_ind; [apply Al_init|]. rewrite run_snoc. now apply step_Al. Qed.

(* ---------- nothing but its own Enqueue touches an allocated record ---------- *)
Definition inert (c : cop) : Prop := o_status c = CAlloc /\ o_reply c = OsClosed /\ o_rx c = false /\ o_chan c = false /\ o_items c = [].
Lemma inert_drop c : inert c -> drop_reply c = c. Proof. intros (_ & R & _). unfold drop_reply. now rewrite R. Qed.
Lemma inert_close c : inert c -> close_chan c = c. Proof. intros (_ & _ & _ & Ch & _). unfold close_chan. destruct c. cbn in *. now subst. Qed.
Lemma inert_fill p c : inert c -> fill_reply p c = c. Proof. intros (_ & R & _). unfold fill_reply. now rewrite R. Qed.

Definition kept (o : nat) (c : cop) (x : st) : Prop := getop x o = Some c.
Lemma kept_set o c x y : kept o c x -> ops y = ops x -> kept o c y.
Proof. unfold kept, getop. now intros H ->. Qed.
Lemma kept_updop o c x o' g : kept o c x -> (o' = o -> g c = c) -> kept o c (updop o' g x).
Proof. unfold kept. intros H Hg. rewrite getop_updop. destruct (Nat.eqb_spec o o') as [->|]; [|exact H]. rewrite H. cbn. now rewrite Hg. Qed.
Lemma kept_drop_entry o c x m k g : kept o c x -> g c = c -> kept o c (drop_entry m k g x).
Proof. intros H Hg. unfold drop_entry. destruct (alookup k m); [apply kept_updop; auto|exact H]. Qed.
Lemma kept_fold {A} o c (g : st -> A -> st) (l : list A) : (forall s a, kept o c s -> kept o c (g s a)) -> forall s, kept o c s -> kept o c (fold_left g l s).
Proof. intros Hg. induction l as [|a l IH]; intros s H; cbn [fold_left]; [exact H|]. apply IH, Hg, H. Qed.
Lemma kept_end_driver o c h x : inert c -> kept o c x -> kept o c (end_driver h x).
Proof. intros I H. unfold end_driver. eapply kept_set; [|reflexivity].
  apply kept_fold; [intros; apply kept_updop; [assumption|intros _; now rewrite (inert_drop c I), (inert_close c I)]|].
  apply kept_fold; [intros; apply kept_updop; [assumption|intros _; now apply inert_close]|].
  apply kept_fold; [intros; apply kept_updop; [assumption|intros _; now apply inert_drop]|]. exact H. Qed.
Lemma kept_app o c x y cn : kept o c x -> ops y = ops x ++ [cn] -> kept o c y.
Proof. unfold kept, getop. intros H ->. rewrite nth_error_app1; [exact H|]. apply nth_error_Some. congruence. Qed.

Ltac kside I := intros; first [ now apply (inert_drop _ I) | now apply (inert_close _ I) | now apply (inert_fill _ _ I)
                               | (rewrite (inert_drop _ I); now apply (inert_close _ I)) | (rewrite (inert_fill _ _ I); now apply (inert_close _ I)) ].
Ltac kstrip I :=
  lazymatch goal with
  | |- kept _ _ (set ops _ _) => fail
  | |- kept ?o ?c (set _ _ ?x) => apply (kept_set o c x); [|reflexivity]
  | |- kept ?o ?c (updop ?o' ?f ?x) => apply (kept_updop o c x o' f); [|try solve [kside I]]
  | |- kept ?o ?c (drop_entry ?m ?k ?f ?x) => apply (kept_drop_entry o c x m k f); [|try solve [kside I]]
  | |- kept ?o ?c (end_driver ?h ?x) => apply (kept_end_driver o c h x I)
  end.

(* what the caller of an operation that has taken its id but not yet queued the request can observe of everything else that goes on -
   other callers' operations being allocated, queued, sent, answered, timed out, abandoned; the connection failing - is: nothing. No event
   other than its own Enqueue changes the record (and its id stays reserved: Lin's l_id clause carries it) *)
Theorem alloc_untouched s e o c : getop s o = Some c -> inert c -> e <> Enqueue o -> e <> DropCall o -> getop (step s e) o = Some c.
Proof.
  intros Hc I He Hd. change (kept o c (step s e)). assert (H0 : kept o c s) by exact Hc. destruct I as (Ist & Irest). pose proof (conj Ist Irest) as I.
  assert (Hother : forall o' c', getop s o' = Some c' -> o_status c' <> CAlloc -> o' <> o).
  { intros o' c' H' Hn ->. rewrite Hc in H'. injection H' as <-. contradiction. }
  destruct e as [k tmo| | | |how|r|o'|o'|o'|dt|o'|o'|k tmo|o']; unfold step.
  - (* Start *) destruct (next_msgid (last s) (inuse s)); try exact H0.
    destruct (is_running s); (eapply kept_app; [exact H0|reflexivity]).
  - (* DrvOp *) destruct (is_running s); cbn [negb]; [|exact H0].
    destruct (opq s) as [|o1 q]; [exact H0|]. destruct (getop s o1) as [c1|] eqn:Ec; [|repeat kstrip I; exact H0].
    destruct (o_kind c1); repeat match goal with |- context [if ?b then _ else _] => destruct b end; repeat kstrip I; exact H0.
  - (* DrvScrub *) destruct (is_running s); cbn [negb]; [|exact H0].
    destruct (scrubq s) as [|id q]; [exact H0|]. repeat kstrip I; exact H0.
  - (* DrvResp *) destruct (is_running s); cbn [negb]; [|exact H0].
    destruct (win s) as [|r w]; [exact H0|].
    destruct (alookup (r_mid r) (smap s)) as [o1|] eqn:Es.
    + destruct (getop s o1) as [c1|] eqn:Ec; [destruct (r_kind r); destruct (o_rx c1) eqn:Erx|destruct (r_kind r)]; cbn [negb];
        repeat match goal with |- context [if ?b then _ else _] => destruct b end; repeat kstrip I; try exact H0.
      all: intros ->; exfalso; rewrite Hc in Ec; injection Ec as <-; destruct I as (_ & _ & X & _); congruence.
    + destruct (alookup (r_mid r) (rmap s)) as [o1|]; repeat match goal with |- context [if ?b then _ else _] => destruct b end; repeat kstrip I; exact H0.
  - (* DrvEnd *) destruct (is_running s); [now apply kept_end_driver|exact H0].
  - (* ServerSend *) repeat kstrip I; exact H0.
  - (* CliPoll *) destruct (getop s o') as [c1|] eqn:Ec; [|exact H0].
    destruct (waiting c1) eqn:Ew; cbn [negb]; [|exact H0].
    assert (Hne : o' <> o) by (apply (Hother o' c1 Ec); unfold waiting in Ew; destruct (o_status c1); discriminate).
    destruct (o_reply c1); [destruct (o_deadline c1) as [d|]; [destruct (d <=? now s); [destruct (is_running s)|]|]| |]; repeat kstrip I; try exact H0.
    all: intros E; now elim Hne.
  - (* StreamNext *) destruct (getop s o') as [c1|] eqn:Ec; [|exact H0].
    destruct (o_status c1) eqn:Est; try exact H0.
    assert (Hne : o' <> o) by (apply (Hother o' c1 Ec); rewrite Est; discriminate).
    destruct (o_rx c1); cbn [negb]; [|repeat kstrip I; try exact H0; intros E; now elim Hne].
    destruct (nth_error (o_items c1) (o_taken c1)) as [r|].
    + destruct (r_kind r); try destruct (o_kind c1) as [|[|]| |]; repeat kstrip I; try exact H0.
      all: intros E; now elim Hne.
    + destruct (o_chan c1); cbn [negb]; [|repeat kstrip I; try exact H0; intros E; now elim Hne].
      destruct (o_tmo c1) as [d|]; [|repeat kstrip I; try exact H0; intros E; now elim Hne].
      match goal with |- context [if ?b then _ else _] => destruct b end; [destruct (is_running s)|]; repeat kstrip I; try exact H0.
      all: intros E; now elim Hne.
  - (* StreamFinish *) destruct (getop s o') as [c1|] eqn:Ec; [|exact H0].
    destruct (o_status c1) eqn:Est; try exact H0.
    all: assert (Hne : o' <> o) by (apply (Hother o' c1 Ec); rewrite Est; discriminate).
    all: try destruct (fix20 (fx s)); destruct (is_running s); repeat kstrip I; try exact H0.
    all: intros E; now elim Hne.
  - (* Advance *) repeat kstrip I; exact H0.
  - (* ViaHandle *) repeat kstrip I; exact H0.
  - (* DropCall of another operation *) destruct (getop s o') as [c1|] eqn:Ec; [destruct (o_status c1) eqn:Est|]; repeat kstrip I; try exact H0. intros ->. now elim Hd.
  - (* Alloc *) unfold alloc. destruct (next_msgid (last s) (inuse s)); try exact H0. eapply kept_app; [exact H0|reflexivity].
  - (* Enqueue of another operation *) unfold enqueue. destruct (getop s o') as [c1|] eqn:Ec; [|exact H0].
    assert (Hne : o' <> o) by (intros ->; now elim He).
    destruct (o_status c1); try exact H0. destruct (is_running s); repeat kstrip I; try exact H0.
    all: intros E; now elim Hne.
Qed.

(* every allocated record of a reachable state is inert, so the theorem applies to it *)
Theorem reachable_alloc_inert f evs o c : getop (run f evs) o = Some c -> o_status c = CAlloc -> inert c.
Proof. intros Hc Hs. destruct (reachable_Al f evs o c Hc Hs) as (R & X & Ch & I). now repeat split. Qed.

(* two callers on two threads, the second overtaking the first between its id allocation and its send: the driver sees the requests in the
   order 2, 1; each caller still gets the response that carries its own id *)
Example crossed_starts :
  let r1 := mkResp 1 RDone 11 in let r2 := mkResp 2 RDone 22 in
  let s := run as_is [Alloc KSingle None; Alloc KSingle None; Enqueue 1; Enqueue 0; DrvOp; DrvOp; ServerSend r1; ServerSend r2; DrvResp; DrvResp; CliPoll 0; CliPoll 1] in
  map fst (wout s) = [2; 1] /\ option_map o_status (getop s 0%nat) = Some (COk (Some r1)) /\ option_map o_status (getop s 1%nat) = Some (COk (Some r2)) /\ inuse s = [].
Proof. vm_compute. repeat split. Qed.
Print Assumptions alloc_untouched.
