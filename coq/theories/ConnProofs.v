(* Calibration sketch (round 0): C01 on the Conn model — for every schedule. Holds for the code as it is and for the repaired code. *)
From RecordUpdate Require Import RecordUpdate.
From Coq Require Import List ZArith Lia Bool Arith.
From L3 Require Import Msgid Conn.
Import ListNotations.
Open Scope Z_scope.

(* ---------- list / map helpers ---------- *)
Lemma nth_upd {A} (f : A -> A) : forall (l : list A) n m,
  nth_error (upd n f l) m = if Nat.eqb m n then option_map f (nth_error l m) else nth_error l m.
Proof. induction l as [|x l IH]; intros n m.
  - destruct n, m; cbn; try reflexivity. destruct (Nat.eqb m n); reflexivity.
  - destruct n, m; cbn; try reflexivity. apply IH. Qed.
Lemma alookup_In k m o : alookup k m = Some o -> In (k, o) m.
Proof. unfold alookup. destruct (find _ m) as [[k' o']|] eqn:E; [|discriminate]. intros [= <-].
  apply find_some in E as [Hin Hk]. cbn in Hk. apply Z.eqb_eq in Hk. now subst. Qed.
Lemma In_aremove k m p : In p (aremove k m) -> In p m.
Proof. unfold aremove. now rewrite filter_In. Qed.

(* ---------- what may happen to an operation record ---------- *)
Definition mine (c : cop) (r : resp) : Prop := r_mid r = o_mid c.
Definition reply_mine (c : cop) (o : oneshot) : Prop := match o with OsFilled (Some r) => mine c r | _ => True end.
Definition reply_ok (c : cop) (a b : oneshot) : Prop := a = b \/ reply_mine c b.
(* identity preserved; the item channel only grows, and both it and the one-shot only ever receive responses that carry the operation's
   own message id *)
Definition cext (c c' : cop) : Prop :=
  o_mid c' = o_mid c /\ o_kind c' = o_kind c /\
  (exists extra, o_items c' = o_items c ++ extra /\ Forall (mine c) extra) /\
  reply_ok c (o_reply c) (o_reply c').
Lemma cext_refl c : cext c c.
Proof. repeat split; [exists []; now rewrite app_nil_r|now left]. Qed.
Lemma cext_trans a b c : cext a b -> cext b c -> cext a c.
Proof. intros (M1 & K1 & (x1 & P1 & F1) & R1) (M2 & K2 & (x2 & P2 & F2) & R2). repeat split; try congruence.
  - exists (x1 ++ x2). rewrite P2, P1, app_assoc. split; [reflexivity|]. apply Forall_app. split; [assumption|].
    eapply Forall_impl; [|exact F2]. unfold mine. intros r. congruence.
  - unfold reply_ok in *. destruct R2 as [E2|Q2].
    + rewrite <- E2. exact R1.
    + right. unfold reply_mine, mine in *. destruct (o_reply c) as [|[r|]|]; auto. congruence.
Qed.

(* what a caller can ever be handed carries the operation's own message id *)
Definition wfpay (c : cop) : Prop := Forall (mine c) (o_items c) /\ reply_mine c (o_reply c).
Lemma wfpay_cext c c' : wfpay c -> cext c c' -> wfpay c'.
Proof. intros [Hi Hr] (M & K & (x & P & F) & R). split.
  - rewrite P. apply Forall_app. split; (eapply Forall_impl; [|eassumption]); unfold mine; intros r; congruence.
  - destruct R as [<-|Q].
    + unfold reply_mine, mine in *. destruct (o_reply c) as [|[r|]|]; auto. congruence.
    + unfold reply_mine, mine in *. destruct (o_reply c') as [|[r|]|]; auto. congruence. Qed.

Definition oext (l l' : list cop) : Prop :=
  (length l <= length l')%nat /\
  (forall o c, nth_error l o = Some c -> exists c', nth_error l' o = Some c' /\ cext c c') /\
  (forall o c', nth_error l' o = Some c' -> (length l <= o)%nat -> wfpay c').
Lemma oext_refl l : oext l l.
Proof. split; [lia|]. split.
  - intros o c H. exists c. split; [assumption|apply cext_refl].
  - intros o c' H Hl. exfalso. assert (o < length l)%nat by (apply nth_error_Some; congruence). lia. Qed.
Lemma oext_trans a b c : oext a b -> oext b c -> oext a c.
Proof. intros (L1 & H1 & N1) (L2 & H2 & N2). split; [lia|]. split.
  - intros o x Hx. destruct (H1 _ _ Hx) as (y & Hy & E1).
    destruct (H2 _ _ Hy) as (z & Hz & E2). exists z. split; [assumption|eapply cext_trans; eassumption].
  - intros o z Hz Hl. destruct (Nat.lt_ge_cases o (length b)) as [Hlt|Hge].
    + destruct (nth_error b o) as [y|] eqn:Hy; [|apply nth_error_None in Hy; lia].
      destruct (H2 _ _ Hy) as (z' & Hz' & E2). rewrite Hz in Hz'. injection Hz' as <-.
      eapply wfpay_cext; [apply (N1 _ _ Hy Hl)|exact E2].
    + now apply (N2 _ _ Hz). Qed.
Lemma upd_length {A} (f : A -> A) l : forall o, length (upd o f l) = length l.
Proof. induction l as [|x l IH]; intros [|o]; cbn; try reflexivity. now rewrite IH. Qed.
Lemma oext_upd o f l : (forall c, nth_error l o = Some c -> cext c (f c)) -> oext l (upd o f l).
Proof. intros Hf. split; [rewrite upd_length; lia|]. split.
  - intros o' c Hc. rewrite nth_upd. destruct (Nat.eqb_spec o' o) as [->|]; [|exists c; split; [assumption|apply cext_refl]].
    rewrite Hc. cbn. exists (f c). split; [reflexivity|now apply Hf].
  - intros o' c' H Hl. exfalso. assert (o' < length (upd o f l))%nat by (apply nth_error_Some; congruence).
    rewrite upd_length in *. lia. Qed.
Lemma oext_app l x : wfpay x -> oext l (l ++ [x]).
Proof. intros Hx. split; [rewrite app_length; lia|]. split.
  - intros o c Hc. exists c. split; [|apply cext_refl].
    rewrite nth_error_app1; [assumption|]. apply nth_error_Some. congruence.
  - intros o c' H Hl. rewrite nth_error_app2 in H by assumption.
    destruct (o - length l)%nat as [|n]; cbn in H; [now injection H as <-|destruct n; discriminate]. Qed.

Lemma items_same c c' : o_items c' = o_items c -> exists extra, o_items c' = o_items c ++ extra /\ Forall (mine c) extra.
Proof. intros E. exists []. rewrite app_nil_r. now split. Qed.
Lemma cext_drop_reply c : cext c (drop_reply c).
Proof. unfold drop_reply. destruct (o_reply c) eqn:E; try apply cext_refl.
  repeat split; [now apply items_same|]. right. exact I. Qed.
Lemma cext_close_chan c : cext c (close_chan c).
Proof. repeat split; [now apply items_same|now left]. Qed.
Lemma cext_fill p c : (match p with Some r => mine c r | None => True end) -> cext c (fill_reply p c).
Proof. intros Hp. unfold fill_reply. destruct (o_reply c) eqn:E; try apply cext_refl. destruct (waiting c).
  - repeat split; [now apply items_same|]. right. cbn. destruct p; exact Hp.
  - repeat split; [now apply items_same|]. right. exact I. Qed.
(* updates that touch neither identity nor what the caller can receive *)
Lemma cext_same c c' : o_mid c' = o_mid c -> o_kind c' = o_kind c -> o_items c' = o_items c -> o_reply c' = o_reply c -> cext c c'.
Proof. intros M K I R. repeat split; try assumption; [now apply items_same|left; now symmetry]. Qed.
Lemma cext_push c r : mine c r -> cext c (c <| o_items ::= fun l => l ++ [r] |>).
Proof. intros H. repeat split; [|now left]. exists [r]. split; [reflexivity|]. constructor; [exact H|constructor]. Qed.

(* state-level: ops of the successor extend ops of the predecessor *)
Definition sext (s s' : st) : Prop := oext (ops s) (ops s').
Lemma sext_refl s : sext s s. Proof. apply oext_refl. Qed.
Lemma sext_trans a b c : sext a b -> sext b c -> sext a c. Proof. apply oext_trans. Qed.
Lemma sext_updop o f s : (forall c, getop s o = Some c -> cext c (f c)) -> sext s (updop o f s).
Proof. intros H. unfold sext, updop. cbn. now apply oext_upd. Qed.
Lemma sext_drop_entry m k f s : (forall c, cext c (f c)) -> sext s (drop_entry m k f s).
Proof. intros H. unfold drop_entry. destruct (alookup k m); [apply sext_updop; auto|apply sext_refl]. Qed.
Lemma sext_fold {A} (g : st -> A -> st) (l : list A) : (forall s a, sext s (g s a)) -> forall s, sext s (fold_left g l s).
Proof. intros Hg. induction l as [|a l IH]; intros s; cbn; [apply sext_refl|]. eapply sext_trans; [apply Hg|apply IH]. Qed.
Lemma sext_same_ops s s' : ops s' = ops s -> sext s s'.
Proof. intros E. unfold sext. rewrite E. apply oext_refl. Qed.
Lemma sext_end_driver how s : sext s (end_driver how s).
Proof. unfold end_driver.
  eapply sext_trans; [apply (sext_fold (fun s (p : Z * nat) => updop (snd p) drop_reply s)); intros; apply sext_updop; intros; apply cext_drop_reply|].
  eapply sext_trans; [apply (sext_fold (fun s (p : Z * nat) => updop (snd p) close_chan s)); intros; apply sext_updop; intros; apply cext_close_chan|].
  eapply sext_trans; [apply (sext_fold (fun s o => updop o (fun c => close_chan (drop_reply c)) s)); intros; apply sext_updop; intros;
                      eapply cext_trans; [apply cext_drop_reply|apply cext_close_chan]|].
  apply sext_same_ops. reflexivity. Qed.

(* ---------- the routing invariant ---------- *)
Definition keyed (s : st) : Prop :=
  forall k o, In (k, o) (rmap s) \/ In (k, o) (smap s) -> exists c, getop s o = Some c /\ o_mid c = k.

Lemma getop_set_non_ops s o (s' : st) : ops s' = ops s -> getop s' o = getop s o.
Proof. unfold getop. now intros ->. Qed.

Ltac same_ops := apply sext_same_ops; reflexivity.
Lemma sext_set s x y : sext s x -> ops y = ops x -> sext s y.
Proof. intros H E. unfold sext in *. now rewrite E. Qed.
Lemma sext_updop' s x o f : sext s x -> (forall c, getop x o = Some c -> cext c (f c)) -> sext s (updop o f x).
Proof. intros H Hf. eapply sext_trans; [exact H|now apply sext_updop]. Qed.
Lemma sext_drop_entry' s x m k f : sext s x -> (forall c, cext c (f c)) -> sext s (drop_entry m k f x).
Proof. intros H Hf. eapply sext_trans; [exact H|now apply sext_drop_entry]. Qed.

Ltac side :=
  intros; first [ apply cext_drop_reply | apply cext_close_chan | (apply cext_fill; exact I) | (now apply cext_same)
                | (eapply cext_trans; [apply cext_drop_reply|apply cext_close_chan]) ].
Ltac strip :=
  lazymatch goal with
  | |- sext ?s ?s => apply sext_refl
  | |- sext ?s (set ops _ _) => fail
  | |- sext ?s (set _ _ ?x) => apply (sext_set s x); [|reflexivity]
  | |- sext ?s (updop ?o ?f ?x) => apply (sext_updop' s x); [|try solve [side]]
  | |- sext ?s (drop_entry ?m ?k ?f ?x) => apply (sext_drop_entry' s x); [|try solve [side]]
  | |- sext ?s (end_driver ?h ?x) => apply (sext_trans s x); [|apply sext_end_driver]
  end.

Theorem step_sext s e : keyed s -> sext s (step s e).
Proof.
  intros HK. destruct e as [k tmo| | | |how|r|o|o|o|dt|o|o|k tmo|o]; unfold step.
  - (* Start *) destruct (next_msgid (last s) (inuse s)); try apply sext_refl.
    destruct (is_running s); unfold sext; cbn; apply oext_app; (split; [constructor|exact I]).
  - (* DrvOp *) destruct (is_running s); cbn [negb]; [|apply sext_refl].
    destruct (opq s) as [|o q]; [apply sext_refl|]. destruct (getop s o) as [c|] eqn:Ec; [|repeat strip].
    destruct (o_kind c); repeat match goal with |- context [if ?b then _ else _] => destruct b end; repeat strip.
  - (* DrvScrub *) destruct (is_running s); cbn [negb]; [|apply sext_refl].
    destruct (scrubq s) as [|id q]; [apply sext_refl|]. repeat strip.
  - (* DrvResp *) destruct (is_running s); cbn [negb]; [|apply sext_refl].
    destruct (win s) as [|r w]; [apply sext_refl|].
    destruct (alookup (r_mid r) (smap s)) as [o|] eqn:Es.
    + destruct (HK _ _ (or_intror (alookup_In _ _ _ Es))) as (c & Ec & Em). rewrite Ec.
      assert (Hpush : forall x, ops x = ops s -> forall c0, getop x o = Some c0 -> cext c0 (c0 <| o_items ::= fun l => l ++ [r] |>)).
      { intros x Ex c0 Hc0. rewrite (getop_set_non_ops s o x Ex), Ec in Hc0. injection Hc0 as <-.
        apply cext_push. unfold mine. now symmetry. }
      destruct (r_kind r); destruct (o_rx c); cbn [negb];
        repeat match goal with |- context [if ?b then _ else _] => destruct b end; repeat strip;
        try (apply Hpush; reflexivity).
    + destruct (alookup (r_mid r) (rmap s)) as [o|] eqn:Er; [|repeat strip].
      destruct (HK _ _ (or_introl (alookup_In _ _ _ Er))) as (c & Ec & Em).
      match goal with |- context [if ?b then _ else _] => destruct b end; [repeat strip|].
      repeat strip. intros c0 Hc0. change (getop s o = Some c0) in Hc0. rewrite Ec in Hc0. injection Hc0 as <-.
      apply cext_fill. unfold mine. now symmetry.
  - (* DrvEnd *) destruct (is_running s); [apply sext_end_driver|apply sext_refl].
  - (* ServerSend *) repeat strip.
  - (* CliPoll *) destruct (getop s o) as [c|] eqn:Ec; [|apply sext_refl].
    destruct (waiting c); cbn [negb]; [|apply sext_refl].
    destruct (o_reply c); [destruct (o_deadline c) as [d|]; [destruct (d <=? now s); [destruct (is_running s)|]|]| |]; repeat strip.
  - (* StreamNext *) destruct (getop s o) as [c|] eqn:Ec; [|apply sext_refl].
    destruct (o_status c); try apply sext_refl.
    destruct (o_rx c); cbn [negb]; [|repeat strip].
    destruct (nth_error (o_items c) (o_taken c)) as [r|].
    + destruct (r_kind r); try destruct (o_kind c) as [|[|]| |]; repeat strip.
    + destruct (o_chan c); cbn [negb]; [|repeat strip].
      destruct (o_tmo c) as [d|]; [|repeat strip]. match goal with |- context [if ?b then _ else _] => destruct b end; [|repeat strip].
      destruct (is_running s); repeat strip.
  - (* StreamFinish *) destruct (getop s o) as [c|] eqn:Ec; [|apply sext_refl].
    destruct (o_status c); try apply sext_refl; try destruct (fix20 (fx s)); destruct (is_running s); repeat strip.
  - (* Advance *) repeat strip.
  - (* ViaHandle *) repeat strip.
  - (* DropCall *) destruct (getop s o) as [c|] eqn:Ec; [destruct (o_status c) eqn:Est|]; repeat strip.
  - (* Alloc *) unfold alloc. destruct (next_msgid (last s) (inuse s)); try apply sext_refl.
    unfold sext; cbn; apply oext_app; (split; [constructor|exact I]).
  - (* Enqueue *) unfold enqueue. destruct (getop s o) as [c|] eqn:Ec; [|apply sext_refl].
    destruct (o_status c) eqn:Es; try apply sext_refl. destruct (is_running s); repeat strip.
    intros c0 _. repeat split; [now apply items_same|]. right. exact I.
Qed.

(* ---------- keyed is an invariant ---------- *)
Definition new_ok (s : st) (p : Z * nat) : Prop := exists c, getop s (snd p) = Some c /\ o_mid c = fst p.
Lemma keyed_gen s s' : keyed s -> sext s s' ->
  (forall p, In p (rmap s') -> In p (rmap s) \/ new_ok s p) ->
  (forall p, In p (smap s') -> In p (smap s) \/ new_ok s p) -> keyed s'.
Proof.
  intros HK (_ & HE & _) Hr Hs k o Hin.
  assert (Hold : (In (k, o) (rmap s) \/ In (k, o) (smap s)) \/ new_ok s (k, o)).
  { destruct Hin as [H|H]; [destruct (Hr _ H); auto|destruct (Hs _ H); auto]. }
  destruct Hold as [Hold|(c & Hc & Hm)].
  - destruct (HK _ _ Hold) as (c & Hc & Hm). destruct (HE _ _ Hc) as (c' & Hc' & M & _). exists c'. split; [exact Hc'|congruence].
  - cbn in Hc, Hm. destruct (HE _ _ Hc) as (c' & Hc' & M & _). exists c'. split; [exact Hc'|congruence].
Qed.

Lemma rmap_drop_entry m k f x : rmap (drop_entry m k f x) = rmap x.
Proof. unfold drop_entry. now destruct (alookup k m). Qed.
Lemma smap_drop_entry m k f x : smap (drop_entry m k f x) = smap x.
Proof. unfold drop_entry. now destruct (alookup k m). Qed.
Lemma rmap_end_driver h x : rmap (end_driver h x) = []. Proof. reflexivity. Qed.
Lemma smap_end_driver h x : smap (end_driver h x) = []. Proof. reflexivity. Qed.
Lemma In_ainsert k v m p : In p (ainsert k v m) -> p = (k, v) \/ In p m.
Proof. unfold ainsert. intros [<-|H]; [now left|right; now apply In_aremove in H]. Qed.

Lemma rmap_updop o f x : rmap (updop o f x) = rmap x. Proof. reflexivity. Qed.
Lemma smap_updop o f x : smap (updop o f x) = smap x. Proof. reflexivity. Qed.
Ltac msimp := repeat (progress (cbn [rmap smap set];
  rewrite ?rmap_updop, ?smap_updop, ?rmap_drop_entry, ?smap_drop_entry, ?rmap_end_driver, ?smap_end_driver)).
Ltac fin H :=
  repeat (apply In_aremove in H);
  first [ now left | contradiction
        | (apply In_ainsert in H as [->|H]; [right; eexists; split; [eassumption|reflexivity] | repeat (apply In_aremove in H); now left]) ].
Ltac brk := repeat match goal with |- context [if ?b then _ else _] => destruct b end.

Theorem step_keyed s e : keyed s -> keyed (step s e).
Proof.
  intros HK. pose proof (step_sext s e HK) as HS.
  destruct e as [k tmo| | | |how|r|o|o|o|dt|o|o|k tmo|o]; apply (keyed_gen s _ HK HS); intros p; unfold step.
  (* Start *)
  1, 2: destruct (next_msgid (last s) (inuse s)); [destruct (is_running s)| |]; intros H; now left.
  (* DrvOp *)
  1, 2: destruct (is_running s); cbn [negb]; [|now left];
        destruct (opq s) as [|o q]; [now left|]; destruct (getop s o) as [c|] eqn:Ec; [|now left];
        destruct (o_kind c); brk; msimp; intros H; fin H.
  (* DrvScrub *)
  1, 2: destruct (is_running s); cbn [negb]; [|now left]; destruct (scrubq s); [now left|]; msimp; intros H; fin H.
  (* DrvResp *)
  1, 2: destruct (is_running s); cbn [negb]; [|now left];
        destruct (win s) as [|r w]; [now left|]; destruct (alookup (r_mid r) (smap s)) as [o|];
        [ destruct (r_kind r); destruct (getop s o) as [c|]; try destruct (o_rx c); cbn [negb]; brk; msimp; intros H; fin H
        | destruct (alookup (r_mid r) (rmap s)); brk; msimp; intros H; fin H ].
  (* DrvEnd *)
  1, 2: destruct (is_running s); [msimp; intros []|now left].
  (* ServerSend *)
  1, 2: now left.
  (* CliPoll *)
  1, 2: destruct (getop s o) as [c|]; [|now left]; destruct (waiting c); cbn [negb]; [|now left];
        destruct (o_reply c); [destruct (o_deadline c) as [d|]; [destruct (d <=? now s); [destruct (is_running s)|]|]| |]; now left.
  (* StreamNext *)
  1, 2: destruct (getop s o) as [c|]; [|now left]; destruct (o_status c); try (now left);
        destruct (o_rx c); cbn [negb]; [|now left]; destruct (nth_error (o_items c) (o_taken c)) as [r|];
        [ destruct (r_kind r); try destruct (o_kind c) as [|[|]| |]; now left
        | destruct (o_chan c); cbn [negb]; [|now left]; destruct (o_tmo c) as [d|]; [|now left];
          match goal with |- context [if ?b then _ else _] => destruct b end; [destruct (is_running s)|]; now left ].
  (* StreamFinish *)
  1, 2: destruct (getop s o) as [c|]; [|now left]; destruct (o_status c); try (now left); try destruct (fix20 (fx s)); destruct (is_running s); now left.
  (* Advance *)
  1, 2: now left.
  (* ViaHandle *)
  1, 2: now left.
  (* DropCall *)
  1, 2: destruct (getop s o) as [c|]; [destruct (o_status c)|]; now left.
  (* Alloc *)
  1, 2: unfold alloc; destruct (next_msgid (last s) (inuse s)); intros H; now left.
  (* Enqueue *)
  1, 2: unfold enqueue; destruct (getop s o) as [c|]; [|now left]; destruct (o_status c); try (now left); destruct (is_running s); now left.
Qed.

(* ---------- C01, for every schedule and for the code with or without the repairs ---------- *)
Lemma run_snoc f evs e : run f (evs ++ [e]) = step (run f evs) e.
Proof. unfold run. now rewrite fold_left_app. Qed.

Theorem reachable_keyed f evs : keyed (run f evs).
Proof. induction evs as [|e evs IH] using rev_ind.
  - intros k o [[]|[]].
  - rewrite run_snoc. now apply step_keyed. Qed.

Theorem c01_routed_by_id f evs o c : getop (run f evs) o = Some c ->
  Forall (fun r => r_mid r = o_mid c) (o_items c) /\
  match o_reply c with OsFilled (Some r) => r_mid r = o_mid c | _ => True end.
Proof.
  revert o c. induction evs as [|e evs IH] using rev_ind; intros o c Hc.
  - unfold getop in Hc. cbn in Hc. destruct o; discriminate.
  - rewrite run_snoc in Hc. destruct (step_sext _ e (reachable_keyed f evs)) as (_ & Hf & Hn).
    destruct (Nat.lt_ge_cases o (length (ops (run f evs)))) as [Hlt|Hge].
    + destruct (nth_error (ops (run f evs)) o) as [c0|] eqn:E0; [|apply nth_error_None in E0; lia].
      destruct (Hf _ _ E0) as (c' & Hc' & Hx). unfold getop in Hc. rewrite Hc in Hc'. injection Hc' as <-.
      exact (wfpay_cext _ _ (IH _ _ E0) Hx).
    + exact (Hn _ _ Hc Hge).
Qed.

(* a response whose id matches no outstanding operation changes nothing but the queues and the log *)
Theorem c01_unmatched_noop s r w : is_running s = true -> win s = r :: w ->
  alookup (r_mid r) (smap s) = None -> alookup (r_mid r) (rmap s) = None ->
  step s DrvResp = s <| win := w |> <| processed ::= fun l => l ++ [(r, None)] |>.
Proof. intros Hr Hw Hs Hm. unfold step. now rewrite Hr, Hw, Hs, Hm. Qed.
Print Assumptions c01_routed_by_id.
