(* Calibration sketch (round 0): decode_inner with the Appendix B repairs F2 (envelope) and F4 (controls) as switches, on top of
   the switchable parser of BerFixed.v. C11: no byte string makes the repaired decoder panic or wedge. *)
From Coq Require Import List NArith Lia Bool Arith.
From Coq.Strings Require Import Byte.
From L3 Require Import Ber BerFixed Utf8 Frame.
Import ListNotations.
Open Scope N_scope.

Record dfix := { fix2 : bool; fix4 : bool; pf : pfix; fix30 : bool; fix38 : bool }.
(* fix30: a message id outside 0 .. 2^31-1 is a decoding error, not folded into the range
   fix38: the envelope is a SEQUENCE of class universal, its message id has content octets, and nothing precedes the message id *)
Definition idchk (f38 : bool) (v : list byte) : bool := if f38 then id_ok v else id_ok0 v.
Definition is_nil {A} (l : list A) : bool := match l with [] => true | _ => false end.
Inductive cres (A : Type) := COk (a : A) | CBad | CPanic.       (* CBad = decoding_error *)
Arguments COk {A}. Arguments CBad {A}. Arguments CPanic {A}.
Definition oops {A} (b : bool) : cres A := if b then CBad else CPanic.

Definition parse_control' (f4 : bool) (t : tree) : cres ctrl :=
  match t with
  | P _ _ _ => oops f4
  | C _ _ comps =>
    match comps with
    | [] => oops f4
    | C _ _ _ :: _ => oops f4
    | P _ _ oid :: rest =>
      if negb (Utf8.valid oid) then oops f4 else
      match rest with
      | [] => COk {| c_oid := oid; c_crit := false; c_val := None |}
      | c :: rest' =>
        if tree_id c =? 1 then
          match c with
          | C _ _ _ => oops f4
          | P _ _ [] => oops f4
          | P _ _ (b :: _) =>
            let crit := negb (bN b =? 0) in
            match rest' with
            | [] => COk {| c_oid := oid; c_crit := crit; c_val := None |}
            | P _ _ v :: _ => COk {| c_oid := oid; c_crit := crit; c_val := Some v |}
            | C _ _ _ :: _ => oops f4 end
          end
        else if tree_id c =? 4 then
          match c with P _ _ v => COk {| c_oid := oid; c_crit := false; c_val := Some v |} | C _ _ _ => oops f4 end
        else oops f4
      end
    end
  end.
Fixpoint parse_controls' (f4 : bool) (ts : list tree) : cres (list ctrl) :=
  match ts with [] => COk [] | t :: r =>
    match parse_control' f4 t with CPanic => CPanic | CBad => CBad | COk c =>
    match parse_controls' f4 r with CPanic => CPanic | CBad => CBad | COk cs => COk (c :: cs) end end end.

Definition envelope' (fx : dfix) (tags : list tree) : cres (N * tree * list ctrl) :=
  match rev tags with
  | [] => oops (fix2 fx)
  | last :: before =>
    let is_ctx n := class_eqb (tree_class last) Context && (tree_id last =? n) in
    let cont (protoop : tree) (ctrl_seq : option (list tree)) (before : list tree) :=
      match (match ctrl_seq with Some cs => parse_controls' (fix4 fx) cs | None => COk [] end) with
      | CPanic => CPanic | CBad => CBad
      | COk ctrls =>
        match before with
        | [] => oops (fix2 fx)
        | P Universal id v :: more => if id =? 2 then (if fix30 fx && negb (idchk (fix38 fx) v) then CBad else
                                                        if fix38 fx && negb (is_nil more) then CBad else COk (as_i32 (parse_uint v), protoop, ctrls)) else oops (fix2 fx)
        | _ => oops (fix2 fx) end
      end in
    if is_ctx 0 then
      match last with
      | P _ _ _ => CBad
      | C _ _ cs => match before with [] => oops (fix2 fx) | protoop :: before' => cont protoop (Some cs) before' end end
    else if is_ctx 10 then
      match before with [] => oops (fix2 fx) | protoop :: before' => cont protoop None before' end
    else cont last None before
  end.

Definition decode_inner' (fx : dfix) (buf : list byte) : dres :=
  match buf with
  | [] => DNeed
  | _ =>
    match parse_tag' (pf fx) 0 (S (length buf)) buf with
    | PInc => DNeed
    | PErr | PFuel => DErr
    | POk (t, rest) =>
      match t with
      | C c id tags =>
        if (id =? 16) && (negb (fix38 fx) || class_eqb c Universal) then
          match envelope' fx tags with
          | CPanic => DPanic | CBad => DErr
          | COk (mid, op, ctrls) => DFrame mid op ctrls rest end
        else DErr
      | P _ _ _ => DErr end
    end
  end.

Definition as_is_d := {| fix2 := false; fix4 := false; pf := as_is_p; fix30 := false; fix38 := false |}.
(* the probes again, on the switchable definitions with every switch off *)
Lemma as_is_panics : decode_inner' as_is_d (b [48; 0]) = DPanic /\ decode_inner' as_is_d (b [48; 3; 2; 1; 1]) = DPanic /\
  decode_inner' as_is_d (b [48; 5; 4; 1; 1; 97; 0]) = DPanic /\
  decode_inner' as_is_d (b [48; 14; 2; 1; 1; 97; 0; 160; 7; 48; 5; 4; 1; 120; 1; 0]) = DPanic /\
  decode_inner' as_is_d (b [48; 4; 48; 130; 16; 0]) = DNeed.
Proof. vm_compute. repeat split. Qed.

Lemma parse_control_no_panic t : parse_control' true t <> CPanic.
Proof. unfold parse_control', oops. repeat match goal with |- context [match ?x with _ => _ end] => destruct x end; discriminate. Qed.
Lemma parse_controls_no_panic ts : parse_controls' true ts <> CPanic.
Proof. induction ts as [|t ts IH]; cbn; [discriminate|]. pose proof (parse_control_no_panic t).
  destruct (parse_control' true t); try congruence. destruct (parse_controls' true ts); congruence. Qed.
Lemma envelope_no_panic fx tags : fix2 fx = true -> fix4 fx = true -> envelope' fx tags <> CPanic.
Proof. intros H2 H4. unfold envelope', oops. rewrite H2, H4.
  repeat match goal with
  | |- context [parse_controls' true ?cs] => pose proof (parse_controls_no_panic cs); destruct (parse_controls' true cs)
  | |- context [match ?x with _ => _ end] => destruct x end; congruence. Qed.

(* C11: with the repairs, no byte string whatsoever makes the decoder panic ... *)
Theorem c11_decode_no_panic fx buf : fix2 fx = true -> fix4 fx = true -> decode_inner' fx buf <> DPanic.
Proof. intros H2 H4. unfold decode_inner'. destruct buf as [|x xs]; [discriminate|].
  destruct (parse_tag' (pf fx) 0 (S (length (x :: xs))) (x :: xs)) as [[t rest]| | |]; try discriminate.
  destruct t as [|c id tags]; [discriminate|]. destruct ((id =? 16) && _); [|discriminate].
  pose proof (envelope_no_panic fx tags H2 H4). destruct (envelope' fx tags) as [[[mid op] cs]| |]; congruence. Qed.
(* ... and once the bytes announced by the outer length are present the frame is delivered or rejected *)
Theorem c11_decode_no_wedge fx b0 i1 len i2 : fix3 (pf fx) = true ->
  parse_length i1 = POk (len, i2) -> len <= N.of_nat (length i2) -> decode_inner' fx (b0 :: i1) <> DNeed.
Proof. intros H3 Hl Hle. unfold decode_inner'.
  pose proof (c11_no_wedge (pf fx) 0 (length (b0 :: i1)) b0 i1 len i2 H3 Hl Hle) as Hn.
  destruct (parse_tag' (pf fx) 0 (S (length (b0 :: i1))) (b0 :: i1)) as [[t rest]| | |]; try discriminate; try congruence.
  destruct t as [|c id tags]; [discriminate|]. destruct ((id =? 16) && _); [|discriminate]. destruct (envelope' fx tags) as [[[mid op] cs]| |]; discriminate. Qed.
Print Assumptions c11_decode_no_panic.

(* ---------- the repaired decoder agrees with the decoder as it was wherever that one delivered a frame ---------- *)
Lemma parse_control'_agrees f4 t c : parse_control t = Ok c -> parse_control' f4 t = COk c.
Proof. unfold parse_control, parse_control', oops.
  repeat match goal with |- context [match ?x with _ => _ end] => destruct x end; intros H; try discriminate H; injection H as <-; reflexivity. Qed.
Lemma parse_controls'_agrees f4 ts cs : parse_controls ts = Ok cs -> parse_controls' f4 ts = COk cs.
Proof. revert cs. induction ts as [|t ts IH]; intros cs; cbn; [intros H; injection H as <-; reflexivity|].
  destruct (parse_control t) as [c|] eqn:E; [|discriminate]. rewrite (parse_control'_agrees f4 t c E).
  destruct (parse_controls ts) as [cs'|]; [|discriminate]. intros H; injection H as <-. now rewrite (IH cs' eq_refl). Qed.
Lemma envelope'_agrees fx tags v : fix30 fx = false -> fix38 fx = false -> envelope tags = Ok (Some v) -> envelope' fx tags = COk v.
Proof. intros F30 F38. unfold envelope, envelope', oops. rewrite F30, F38. cbn [andb].
  repeat match goal with
  | |- context [parse_controls ?cs] => let E := fresh "E" in destruct (parse_controls cs) eqn:E; [rewrite (parse_controls'_agrees (fix4 fx) _ _ E)|]
  | |- context [match ?x with _ => _ end] => destruct x end; intros H; try discriminate H; injection H as <-; reflexivity. Qed.

Definition repaired_d (m : nat) : dfix := {| fix2 := true; fix4 := true; pf := lim true m; fix30 := true; fix38 := true |}.
Definition repaired_d_but38 (m : nat) : dfix := {| fix2 := true; fix4 := true; pf := lim true m; fix30 := true; fix38 := false |}.

(* the repairs of F2-F6 alone (message ids still folded mod 2^32, as the decoder as found does) *)
Definition repaired_d_but30 (m : nat) : dfix := {| fix2 := true; fix4 := true; pf := lim true m; fix30 := false; fix38 := false |}.
Theorem decode_agrees m buf mid op cs rest : decode_inner buf = DFrame mid op cs rest ->
  (forall t r, parse_tag (S (length buf)) buf = POk (t, r) -> (tdepth t <= S m)%nat) ->
  decode_inner' (repaired_d_but30 m) buf = DFrame mid op cs rest.
Proof. unfold decode_inner, decode_inner'. destruct buf as [|x xs]; [discriminate|]. intros H Hd.
  destruct (parse_tag (S (length (x :: xs))) (x :: xs)) as [[t r]| | |] eqn:E; try discriminate.
  cbn [pf repaired_d_but30]. rewrite (c11_repairs_reject_nothing_valid m _ _ t r E (Hd t r eq_refl)).
  destruct t as [|c id tags]; [discriminate|]. cbn [fix38 repaired_d_but30 negb orb]. rewrite andb_true_r. destruct (id =? 16); [|discriminate].
  destruct (envelope tags) as [[[[mid' op'] cs']|]|] eqn:Ee; try discriminate.
  now rewrite (envelope'_agrees (repaired_d_but30 m) _ _ eq_refl eq_refl Ee). Qed.
(* F30: the decoder never delivers a frame whose message id is outside 0 .. 2^31-1 (as found, 2^32+1 was delivered as 1) *)
Theorem c01_decoded_id_in_range fx buf mid op cs rest : fix30 fx = true -> decode_inner' fx buf = DFrame mid op cs rest -> mid <= 2147483647.
Proof.
  intros F. unfold decode_inner'. destruct buf as [|x xs]; [discriminate|].
  destruct (parse_tag' (pf fx) 0 (S (length (x :: xs))) (x :: xs)) as [[t r]| | |]; try discriminate.
  destruct t as [|c id tags]; [discriminate|]. destruct ((id =? 16) && _); [|discriminate].
  destruct (envelope' fx tags) as [[[mid' op'] cs']| |] eqn:Ee; try discriminate. intros H. injection H as <- _ _ _.
  assert (R : forall v, idchk (fix38 fx) v = true -> as_i32 (parse_uint v) <= 2147483647).
  { intros v E. assert (E0 : id_ok0 v = true) by (unfold idchk, id_ok in E; destruct (fix38 fx); [destruct v; [discriminate|exact E]|exact E]).
    unfold id_ok0 in E0. apply andb_prop in E0 as [_ E0]. apply N.leb_le in E0. unfold as_i32. rewrite N.mod_small; [exact E0|].
    revert E0. generalize (parse_uint v). intros n Hn. apply N.le_lt_trans with 2147483647; [exact Hn|reflexivity]. }
  revert Ee. unfold envelope', oops. rewrite F. cbn [andb].
  repeat match goal with
  | |- context [idchk ?f ?v] => let E := fresh "E" in destruct (idchk f v) eqn:E; cbn [negb]
  | |- context [match ?x with _ => _ end] => destruct x end; intros H; try discriminate H; injection H as <- _ _.
  all: match goal with E : idchk _ ?v = true |- _ => exact (R v E) end.
Qed.
Lemma c01_refuted_F30 : decode_inner' (repaired_d_but30 100) (b [48; 16; 2; 5; 1; 0; 0; 0; 1; 97; 7; 10; 1; 0; 4; 0; 4; 0]) = DFrame 1 (C Application 1 [P Universal 10 [x00]; P Universal 4 []; P Universal 4 []]) [] []
  /\ decode_inner' (repaired_d 100) (b [48; 16; 2; 5; 1; 0; 0; 0; 1; 97; 7; 10; 1; 0; 4; 0; 4; 0]) = DErr.
Proof. vm_compute. split; reflexivity. Qed.

(* ---------- F38: what is delivered is an envelope ---------- *)
Definition ctx_is (n : N) (t : tree) : bool := class_eqb (tree_class t) Context && (tree_id t =? n).
Inductive Envelope : tree -> N * tree * list ctrl -> Prop :=
| Env_plain ib op : id_ok ib = true -> ctx_is 0 op = false -> ctx_is 10 op = false ->
    Envelope (C Universal 16 [P Universal 2 ib; op]) (as_i32 (parse_uint ib), op, [])
| Env_ctrls ib op cts cs : id_ok ib = true -> parse_controls' true cts = COk cs ->
    Envelope (C Universal 16 [P Universal 2 ib; op; C Context 0 cts]) (as_i32 (parse_uint ib), op, cs)
| Env_ad ib op x : id_ok ib = true -> ctx_is 10 x = true ->
    Envelope (C Universal 16 [P Universal 2 ib; op; x]) (as_i32 (parse_uint ib), op, []).

Lemma class_eqb_eq a b : class_eqb a b = true -> a = b.
Proof. destruct a, b; vm_compute; congruence. Qed.

Lemma envelope_sound fx tags v : fix4 fx = true -> fix30 fx = true -> fix38 fx = true ->
  envelope' fx tags = COk v -> Envelope (C Universal 16 tags) v.
Proof.
  intros F4 F30 F38. set (l := rev tags). replace tags with (rev l) by apply rev_involutive. unfold envelope'. rewrite rev_involutive. clearbody l. clear tags.
  unfold oops. rewrite F4, F30, F38. cbn [andb idchk].
  destruct l as [|last before]; [destruct (fix2 fx); discriminate|]. cbv zeta.
  fold (ctx_is 0 last). fold (ctx_is 10 last).
  destruct (ctx_is 0 last) eqn:E0; [|destruct (ctx_is 10 last) eqn:E10].
  - destruct last as [|c i cts]; [discriminate|]. unfold ctx_is in E0. cbn in E0. apply andb_prop in E0 as [Ec Ei]. apply class_eqb_eq in Ec. apply N.eqb_eq in Ei. subst c i.
    destruct before as [|op before']; [destruct (fix2 fx); discriminate|].
    destruct (parse_controls' true cts) as [cs| |] eqn:Ecs; try discriminate.
    destruct before' as [|[[] id ib|] more]; try (destruct (fix2 fx); discriminate).
    destruct (N.eqb_spec id 2) as [->|]; [|destruct (fix2 fx); discriminate].
    destruct (id_ok ib) eqn:Eid; [|discriminate]. cbn [negb]. destruct more; [|discriminate]. cbn [is_nil negb]. intros [= <-].
    cbn [rev app]. now constructor.
  - destruct before as [|op before']; [destruct (fix2 fx); discriminate|].
    destruct before' as [|[[] id ib|] more]; try (destruct (fix2 fx); discriminate).
    destruct (N.eqb_spec id 2) as [->|]; [|destruct (fix2 fx); discriminate].
    destruct (id_ok ib) eqn:Eid; [|discriminate]. cbn [negb]. destruct more; [|discriminate]. cbn [is_nil negb]. intros [= <-].
    cbn [rev app]. now apply Env_ad.
  - destruct before as [|[[] id ib|] more]; try (destruct (fix2 fx); discriminate).
    destruct (N.eqb_spec id 2) as [->|]; [|destruct (fix2 fx); discriminate].
    destruct (id_ok ib) eqn:Eid; [|discriminate]. cbn [negb]. destruct more; [|discriminate]. cbn [is_nil negb]. intros [= <-].
    cbn [rev app]. now apply Env_plain.
Qed.

(* C11, the direction the completeness theorems of FrameFixedSpec leave open: whatever the repaired decoder delivers is an LDAPMessage
   envelope - a universal SEQUENCE of the message id (an INTEGER with content octets, in 0 .. 2^31-1), the protocol op, and then nothing,
   or the controls, or the stray [10] element of Active Directory's Notice of Disconnection, which the code tolerates on purpose *)
Theorem c11_delivered_is_envelope m buf mid op cs rest : decode_inner' (repaired_d m) buf = DFrame mid op cs rest ->
  exists env, parse_tag' (lim true m) 0 (S (length buf)) buf = POk (env, rest) /\ Envelope env (mid, op, cs).
Proof.
  unfold decode_inner'. destruct buf as [|x xs]; [discriminate|]. cbn [pf repaired_d].
  destruct (parse_tag' (lim true m) 0 (S (length (x :: xs))) (x :: xs)) as [[t r]| | |]; try discriminate.
  destruct t as [|c id tags]; [discriminate|]. cbn [fix38 negb orb]. destruct (N.eqb_spec id 16) as [->|]; [|discriminate].
  destruct (class_eqb c Universal) eqn:Ec; [|discriminate]. apply class_eqb_eq in Ec. subst c. cbn [andb].
  destruct (envelope' (repaired_d m) tags) as [[[mid' op'] cs']| |] eqn:Ee; try discriminate. intros [= <- <- <- <-].
  exists (C Universal 16 tags). split; [reflexivity|]. now apply (envelope_sound (repaired_d m)).
Qed.
(* ... so input whose first element is anything else ends the stream with a decoding error (ConnWire: and with it the connection) *)
Corollary c11_not_envelope_is_error m buf env rest : parse_tag' (lim true m) 0 (S (length buf)) buf = POk (env, rest) ->
  (forall v, ~ Envelope env v) -> decode_inner' (repaired_d m) buf = DErr.
Proof.
  intros Hp Hn. destruct (decode_inner' (repaired_d m) buf) as [| | |mid op cs r] eqn:E; try reflexivity.
  - exfalso. unfold decode_inner' in E. destruct buf; [discriminate|]. cbn [pf repaired_d] in E. rewrite Hp in E. destruct env; [discriminate|].
    destruct ((_ =? 16) && _); [|discriminate]. destruct (envelope' _ _) as [[[? ?] ?]| |]; discriminate.
  - exfalso. now apply (c11_decode_no_panic (repaired_d m) buf).
  - destruct (c11_delivered_is_envelope m buf mid op cs r E) as (env' & Hp' & He). rewrite Hp in Hp'. injection Hp' as <- _. now elim (Hn _ He).
Qed.
(* F38 as found: a BindResponse in an APPLICATION 16 wrapper, one with an OCTET STRING in front of the message id, and one whose message id
   has no content octets were all delivered (the last as id 0) *)
Lemma c11_refuted_F38 :
  let resp := C Application 1 [P Universal 10 [x00]; P Universal 4 []; P Universal 4 []] in
  decode_inner' (repaired_d_but38 100) (b [112; 12; 2; 1; 1; 97; 7; 10; 1; 0; 4; 0; 4; 0]) = DFrame 1 resp [] [] /\
  decode_inner' (repaired_d_but38 100) (b [48; 14; 4; 0; 2; 1; 1; 97; 7; 10; 1; 0; 4; 0; 4; 0]) = DFrame 1 resp [] [] /\
  decode_inner' (repaired_d_but38 100) (b [48; 11; 2; 0; 97; 7; 10; 1; 0; 4; 0; 4; 0]) = DFrame 0 resp [] [] /\
  decode_inner' (repaired_d 100) (b [112; 12; 2; 1; 1; 97; 7; 10; 1; 0; 4; 0; 4; 0]) = DErr /\
  decode_inner' (repaired_d 100) (b [48; 14; 4; 0; 2; 1; 1; 97; 7; 10; 1; 0; 4; 0; 4; 0]) = DErr /\
  decode_inner' (repaired_d 100) (b [48; 11; 2; 0; 97; 7; 10; 1; 0; 4; 0; 4; 0]) = DErr /\
  decode_inner' (repaired_d 100) (b [48; 12; 2; 1; 1; 97; 7; 10; 1; 0; 4; 0; 4; 0]) = DFrame 1 resp [] [].
Proof. vm_compute. repeat split. Qed.
Print Assumptions c11_delivered_is_envelope.

(* a proper prefix of an encoding is Incomplete for the repaired parser as well *)
Theorem proper_prefix_incomplete' fx d t bs p q f : BerEnc t bs -> p ++ q = bs -> q <> [] -> parse_tag' fx d (S f) p = PInc.
Proof.
  intros HB E Hq. destruct p as [|b0 p]; [reflexivity|].
  destruct HB as [c id v l Hid HL | c id ts l body Hid Hts HL]; cbn in E; injection E as -> E;
    cbn [parse_tag']; rewrite header_ident by exact Hid.
  - destruct (parse_length_prefix _ _ _ _ _ HL eq_refl E Hq) as [-> | (i2 & -> & Hlt)]; [reflexivity|].
    destruct (N.ltb_spec (N.of_nat (length i2)) (N.of_nat (length v))); [reflexivity|lia].
  - destruct (parse_length_prefix _ _ _ _ _ HL eq_refl E Hq) as [-> | (i2 & -> & Hlt)]; [reflexivity|].
    destruct (N.ltb_spec (N.of_nat (length i2)) (N.of_nat (length body))); [reflexivity|lia].
Qed.
Print Assumptions decode_agrees.
Corollary c11_decode_no_panic_repaired m buf : decode_inner' (repaired_d m) buf <> DPanic.
Proof. now apply c11_decode_no_panic. Qed.
Corollary c11_decode_no_wedge_repaired m b0 i1 len i2 :
  parse_length i1 = POk (len, i2) -> len <= N.of_nat (length i2) -> decode_inner' (repaired_d m) (b0 :: i1) <> DNeed.
Proof. now apply c11_decode_no_wedge. Qed.
