(* C14: the synchronous facade (src/sync.rs) as a delegation table. The table itself (L3G.SyncTable) is regenerated from the
   source by tools/translate_sync.py before every proof stage, so the theorems below are about what sync.rs says now. *)
From Coq Require Import List String Bool.
From L3G Require Import SyncTable.
Import ListNotations.
Open Scope string_scope.

Definition row := (string * string * list string * list string)%type.
(* the modifiers of the asynchronous handle: method, field it assigns (src/ldap.rs with_search_options / with_controls / with_timeout) *)
Definition async_modifiers : list (string * string) :=
  [("with_search_options", "search_opts"); ("with_controls", "controls"); ("with_timeout", "timeout")].

Definition expected_target (m : string) : string :=
  if String.eqb m "EntryStream::next" then "next" else if String.eqb m "EntryStream::result" then "finish"
  else if String.eqb m "EntryStream::last_id" then "last_id" else m.
Definition row_ok (r : row) : bool :=
  let '(m, t, ps, args) := r in String.eqb t (expected_target m) && (if list_eq_dec string_dec ps args then true else false).
(* the operations of the property's surface must all be there (a sync method that silently disappears is not "diagonal") *)
Definition required : list string :=
  ["simple_bind"; "sasl_external_bind"; "search"; "streaming_search"; "streaming_search_with"; "add"; "compare"; "delete"; "modify"; "modifydn";
   "unbind"; "extended"; "abandon"; "last_id"; "is_closed"; "EntryStream::next"; "EntryStream::result"; "EntryStream::last_id"].
Definition covers : bool := forallb (fun m => existsb (fun r : row => String.eqb (fst (fst (fst r))) m) sync_table) required.

(* every sync method blocks on the async method of the same name (next -> next, result -> finish) with its own arguments in order;
   the three modifiers assign the same fields as their async counterparts *)
Theorem c14_table_diagonal : forallb row_ok sync_table = true /\ covers = true /\ modifier_table = async_modifiers.
Proof. split; [|split]; vm_compute; reflexivity. Qed.

(* semantics: a sync call is block_on of the async call named by its row, with the row's arguments *)
Section Equivalence.
Variables (St Arg Res : Type) (async_step : St -> string -> list Arg -> St * Res).
Definition lookup (m : string) : option row := find (fun r : row => String.eqb (fst (fst (fst r))) m) sync_table.
Definition sync_step (env : string -> Arg) (s : St) (m : string) : option (St * Res) :=
  match lookup m with Some (_, t, _, args) => Some (async_step s t (map env args)) | None => None end.
Definition async_direct (env : string -> Arg) (s : St) (m : string) : option (St * Res) :=
  match lookup m with Some (_, _, ps, _) => Some (async_step s (expected_target m) (map env ps)) | None => None end.
Theorem c14_equivalence env s m : sync_step env s m = async_direct env s m.
Proof.
  unfold sync_step, async_direct. destruct (lookup m) as [[[[m' t] ps] args]|] eqn:E; [|reflexivity]. unfold lookup in E.
  apply find_some in E as [Hin Hm]. cbn in Hm. apply String.eqb_eq in Hm. subst m'.
  pose proof (proj1 c14_table_diagonal) as Hd. rewrite forallb_forall in Hd. specialize (Hd _ Hin). cbn in Hd.
  apply andb_true_iff in Hd as [Ht Ha]. apply String.eqb_eq in Ht. destruct (list_eq_dec string_dec ps args); [|discriminate]. now subst.
Qed.
(* whole operation sequences: running a script through the facade is running it through the async API *)
Fixpoint run_sync (env : string -> Arg) (s : St) (ms : list string) : list (option Res) :=
  match ms with [] => [] | m :: r => match sync_step env s m with Some (s', x) => Some x :: run_sync env s' r | None => None :: run_sync env s r end end.
Fixpoint run_async (env : string -> Arg) (s : St) (ms : list string) : list (option Res) :=
  match ms with [] => [] | m :: r => match async_direct env s m with Some (s', x) => Some x :: run_async env s' r | None => None :: run_async env s r end end.
Theorem c14_sequences env ms : forall s, run_sync env s ms = run_async env s ms.
Proof. induction ms as [|m r IH]; intros s; [reflexivity|]. cbn [run_sync run_async]. rewrite c14_equivalence.
  destruct (async_direct env s m) as [[s' x]|]; now rewrite IH. Qed.
End Equivalence.
Print Assumptions c14_sequences.
