(* Calibration sketch (round 0): the synchronous facade (src/sync.rs) as a delegation table — the table below is what
   tools/translate_sync.py is to regenerate from the source on every run. C14. *)
From Coq Require Import List String Bool.
Import ListNotations.
Open Scope string_scope.

(* (sync method, async method it blocks on, sync parameter list, arguments passed in order) *)
Definition row := (string * string * list string * list string)%type.
Definition sync_table : list row := [
  ("simple_bind", "simple_bind", ["bind_dn"; "bind_pw"], ["bind_dn"; "bind_pw"]);
  ("sasl_external_bind", "sasl_external_bind", [], []);
  ("search", "search", ["base"; "scope"; "filter"; "attrs"], ["base"; "scope"; "filter"; "attrs"]);
  ("streaming_search", "streaming_search", ["base"; "scope"; "filter"; "attrs"], ["base"; "scope"; "filter"; "attrs"]);
  ("streaming_search_with", "streaming_search_with", ["adapters"; "base"; "scope"; "filter"; "attrs"], ["adapters"; "base"; "scope"; "filter"; "attrs"]);
  ("add", "add", ["dn"; "attrs"], ["dn"; "attrs"]);
  ("compare", "compare", ["dn"; "attr"; "val"], ["dn"; "attr"; "val"]);
  ("delete", "delete", ["dn"], ["dn"]);
  ("modify", "modify", ["dn"; "mods"], ["dn"; "mods"]);
  ("modifydn", "modifydn", ["dn"; "rdn"; "delete_old"; "new_sup"], ["dn"; "rdn"; "delete_old"; "new_sup"]);
  ("unbind", "unbind", [], []);
  ("extended", "extended", ["exop"], ["exop"]);
  ("abandon", "abandon", ["msgid"], ["msgid"]);
  ("get_peer_certificate", "get_peer_certificate", [], []);
  ("last_id", "last_id", [], []);
  ("EntryStream::next", "next", [], []);
  ("EntryStream::result", "finish", [], []);
  ("EntryStream::last_id", "last_id", [], [])].
(* modifiers: (sync method, field of the inner handle it assigns) *)
Definition modifier_table : list (string * string) :=
  [("with_search_options", "search_opts"); ("with_controls", "controls"); ("with_timeout", "timeout")].
Definition async_modifiers : list (string * string) :=
  [("with_search_options", "search_opts"); ("with_controls", "controls"); ("with_timeout", "timeout")].

Definition expected_target (m : string) : string :=
  if String.eqb m "EntryStream::next" then "next" else if String.eqb m "EntryStream::result" then "finish"
  else if String.eqb m "EntryStream::last_id" then "last_id" else m.
Definition row_ok (r : row) : bool :=
  let '(m, t, ps, args) := r in String.eqb t (expected_target m) && (if list_eq_dec string_dec ps args then true else false).
Theorem c14_table_diagonal : forallb row_ok sync_table = true /\ modifier_table = async_modifiers.
Proof. split; [vm_compute|]; reflexivity. Qed.

(* semantics: a sync call is block_on of the async call named by its row, with the row's arguments *)
Section Equivalence.
Variables (St Arg Res : Type) (async_step : St -> string -> list Arg -> St * Res).
Definition lookup (m : string) : option row := find (fun r => String.eqb (fst (fst (fst r))) m) sync_table.
Definition sync_step (env : string -> Arg) (s : St) (m : string) : option (St * Res) :=
  match lookup m with Some (_, t, _, args) => Some (async_step s t (map env args)) | None => None end.
Definition async_direct (env : string -> Arg) (s : St) (m : string) : option (St * Res) :=
  match lookup m with Some (_, _, ps, _) => Some (async_step s (expected_target m) (map env ps)) | None => None end.
Theorem c14_equivalence env s m : sync_step env s m = async_direct env s m.
Proof.
  unfold sync_step, async_direct. destruct (lookup m) as [[[[m' t] ps] args]|] eqn:E; [|reflexivity]. unfold lookup in E.
  apply find_some in E as [Hin Hm]. cbn in Hm. apply String.eqb_eq in Hm. subst m'.
  pose proof (proj1 c14_table_diagonal) as Hd. rewrite forallb_forall in Hd. specialize (Hd _ Hin). cbn in Hd.
  apply andb_true_iff in Hd as [Ht Ha]. apply String.eqb_eq in Ht. destruct (list_eq_dec string_dec ps args); [|discriminate]. now subst.
Qed.
End Equivalence.
Print Assumptions c14_equivalence.
