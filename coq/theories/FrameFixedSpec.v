(* C06 on the decoder as repaired (F2, F3, F4, F6): framing does not depend on how the byte stream is segmented. *)
From Coq Require Import List NArith Lia Bool Arith.
From Coq.Strings Require Import Byte.
From L3 Require Import Ber BerFixed Utf8 Frame FrameSpec FrameFixed.
Import ListNotations.
Open Scope N_scope.

(* "bs is a definite-length encoding (any legal length-of-length) of a well-formed LDAPMessage, nested no deeper than
   the parser's limit, which the client must see as v = (message id, protocol op, controls)" *)
Definition EncFixed (m : nat) (v : N * tree * list ctrl) (bs : list byte) : Prop :=
  exists env, WfMsg env v /\ BerEnc env bs /\ (tdepth env <= S m)%nat.

(* a well-formed message (its id in 0 .. 2^31-1) passes the repaired envelope reader unchanged *)
Lemma envelope'_wf m env view : WfMsg env view -> exists tags, env = C Universal 16 tags /\ envelope' (repaired_d m) tags = COk view.
Proof.
  intros [ib op Hop Hid|ib op cts cs Hop Hid Hcs]; eexists; (split; [reflexivity|]); unfold envelope'; cbn [rev app fix2 fix4 fix30 repaired_d].
  - unfold op_ok in Hop. unfold class_eqb. rewrite Hop. cbn. rewrite Hid. reflexivity.
  - cbn. rewrite (parse_controls'_agrees true _ _ (parse_controls_wf _ _ Hcs)). cbn. rewrite Hid. reflexivity.
Qed.
Theorem c06_exact_consumption_fixed m v bs rest :
  EncFixed m v bs -> decode_inner' (repaired_d m) (bs ++ rest) = view_frame v rest.
Proof.
  intros (env & Hw & He & Hd). destruct (envelope'_wf m _ _ Hw) as (tags & -> & Henv).
  pose proof (BerEnc_nonempty _ _ He) as Hne.
  unfold decode_inner'. destruct (bs ++ rest) as [|x xs] eqn:E; [destruct bs; [congruence|discriminate]|]. rewrite <- E.
  assert (Hp : parse_tag (S (length (bs ++ rest))) (bs ++ rest) = POk (C Universal 16 tags, rest)) by (apply (proj1 any_encoding_parses _ _ He); rewrite app_length; lia).
  cbn [pf repaired_d]. rewrite (c11_repairs_reject_nothing_valid m _ _ _ _ Hp Hd).
  change (16 =? 16) with true. cbn match. rewrite Henv. destruct v as [[mid op] cs]. reflexivity.
Qed.

Theorem c06_prefix_needs_more_fixed m v bs p q :
  EncFixed m v bs -> p ++ q = bs -> q <> [] -> decode_inner' (repaired_d m) p = DNeed.
Proof.
  intros (env & _ & He & _) E Hq. unfold decode_inner'. destruct p as [|x xs] eqn:Ep; [reflexivity|]. rewrite <- Ep in *.
  now rewrite (proper_prefix_incomplete' _ 0 _ _ p q (length p) He E Hq).
Qed.

Theorem c06_any_segmentation_fixed m vs bss chunks : Stream (EncFixed m) vs bss -> concat chunks = concat bss ->
  framed_run (decode_inner' (repaired_d m)) [] chunks = map Deliver vs.
Proof.
  apply (c06_any_segmentation (decode_inner' (repaired_d m)) (EncFixed m)).
  - intros v bs (env & _ & He & _). now apply BerEnc_nonempty in He.
  - reflexivity.
  - intros v bs rest H. now apply c06_exact_consumption_fixed.
  - intros v bs p q H. now apply (c06_prefix_needs_more_fixed m v).
Qed.

(* the hypotheses are satisfiable: a bind response followed by a search entry, in minimal encodings *)
Example c06_stream_example :
  Stream (EncFixed 100)
    [(1, C Application 1 [P Universal 10 [x00]; P Universal 4 []; P Universal 4 []], []);
     (2, C Application 4 [P Universal 4 [x61]; C Universal 16 []], [])]
    [encode (C Universal 16 [P Universal 2 [x01]; C Application 1 [P Universal 10 [x00]; P Universal 4 []; P Universal 4 []]]);
     encode (C Universal 16 [P Universal 2 [x02]; C Application 4 [P Universal 4 [x61]; C Universal 16 []]])].
Proof.
  repeat constructor.
  - eexists. split; [apply (WM_plain [x01]); reflexivity|]. split; [apply encode_is_encoding; cbn; repeat split; lia|cbn; lia].
  - eexists. split; [apply (WM_plain [x02]); reflexivity|]. split; [apply encode_is_encoding; cbn; repeat split; lia|cbn; lia].
Qed.
Print Assumptions c06_any_segmentation_fixed.
