(* C06 on the decoder as repaired (F2, F3, F4, F6): framing does not depend on how the byte stream is segmented. *)
From Coq Require Import List NArith Lia Bool Arith.
From Coq.Strings Require Import Byte.
From L3 Require Import Ber BerFixed Utf8 Frame FrameSpec FrameFixed.
Import ListNotations.
Open Scope N_scope.

(* "bs is a definite-length encoding (any legal length-of-length) of a well-formed LDAPMessage, nested no deeper than
   the parser's limit, which the client must see as v = (message id, protocol op, controls)" *)
Definition EncFixed (m : nat) (v : N * tree * list ctrl) (bs : list byte) : Prop :=
  exists env, WfMsg env v /\ BerEnc env bs /\ (tdepth env <= S m)%nat.

Theorem c06_exact_consumption_fixed m v bs rest :
  EncFixed m v bs -> decode_inner' (repaired_d m) (bs ++ rest) = view_frame v rest.
Proof.
  intros (env & Hw & He & Hd). pose proof (c06_exact_consumption env v bs rest Hw He) as H.
  destruct v as [[mid op] cs]. cbn [view_frame] in *. apply decode_agrees; [exact H|].
  intros t r Hp. rewrite (proj1 any_encoding_parses _ _ He (S (length (bs ++ rest))) rest) in Hp by (rewrite app_length; lia).
  injection Hp as <- _. exact Hd.
Qed.

Theorem c06_prefix_needs_more_fixed m v bs p q :
  EncFixed m v bs -> p ++ q = bs -> q <> [] -> decode_inner' (repaired_d m) p = DNeed.
Proof.
  intros (env & _ & He & _) E Hq. unfold decode_inner'. destruct p as [|x xs] eqn:Ep; [reflexivity|]. rewrite <- Ep in *.
  now rewrite (proper_prefix_incomplete' _ 0 _ _ p q (length p) He E Hq).
Qed.

Theorem c06_any_segmentation_fixed m vs bss chunks : Stream (EncFixed m) vs bss -> concat chunks = concat bss ->
  framed_run (decode_inner' (repaired_d m)) [] chunks = map Deliver vs.
Proof.
  apply (c06_any_segmentation (decode_inner' (repaired_d m)) (EncFixed m)).
  - intros v bs (env & _ & He & _). now apply BerEnc_nonempty in He.
  - reflexivity.
  - intros v bs rest H. now apply c06_exact_consumption_fixed.
  - intros v bs p q H. now apply (c06_prefix_needs_more_fixed m v).
Qed.

(* the hypotheses are satisfiable: a bind response followed by a search entry, in minimal encodings *)
Example c06_stream_example :
  Stream (EncFixed 100)
    [(1, C Application 1 [P Universal 10 [x00]; P Universal 4 []; P Universal 4 []], []);
     (2, C Application 4 [P Universal 4 [x61]; C Universal 16 []], [])]
    [encode (C Universal 16 [P Universal 2 [x01]; C Application 1 [P Universal 10 [x00]; P Universal 4 []; P Universal 4 []]]);
     encode (C Universal 16 [P Universal 2 [x02]; C Application 4 [P Universal 4 [x61]; C Universal 16 []]])].
Proof.
  repeat constructor.
  - eexists. split; [apply (WM_plain [x01]); reflexivity|]. split; [apply encode_is_encoding; cbn; repeat split; lia|cbn; lia].
  - eexists. split; [apply (WM_plain [x02]); reflexivity|]. split; [apply encode_is_encoding; cbn; repeat split; lia|cbn; lia].
Qed.
Print Assumptions c06_any_segmentation_fixed.
