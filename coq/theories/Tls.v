(* Calibration sketch (round 0): connection establishment with TLS (src/conn.rs:475-621), the TLS library as an oracle. C17. *)
From Coq Require Import List NArith Bool.
Import ListNotations.

Record cfg := { ldaps : bool; starttls : bool; no_tls_verify : bool; custom_connector_accepts_invalid : option bool }.
Inductive st_answer := AnsSuccess | AnsRc (n : N) | AnsGarbage | AnsClose | AnsOtherIdFirst.
Record server := {
  answer : st_answer;
  cert_trusted_for_host : bool;     (* oracle: X.509 path + name check of the TLS library *)
  handshake_completes : bool;       (* oracle: everything else about the handshake *)
  bytes_after_response : list nat } (* cleartext the server (or an attacker) appends to the StartTLS response *).
Inductive transport := Clear | Tls.
Inductive outcome := Established (t : transport) | Failed | NeverReturns.
Inductive wrote := StartTlsRequest | OtherLdapMessage.
Record run := { result : outcome; cleartext_writes : list wrote; cleartext_bytes_fed_to_ldap_decoder_after_tls : list nat }.

Definition accepts_invalid (c : cfg) : bool :=
  match custom_connector_accepts_invalid c with Some b => b | None => no_tls_verify c end.   (* create_connector: danger_accept_invalid_certs only when set *)
Definition handshake (c : cfg) (s : server) : bool := handshake_completes s && (cert_trusted_for_host s || accepts_invalid c).

Definition establish (fix18 : bool) (c : cfg) (s : server) : run :=
  let use_starttls := negb (ldaps c) && starttls c in      (* ldaps forces starttls off *)
  if ldaps c then
    {| result := if handshake c s then Established Tls else Failed; cleartext_writes := []; cleartext_bytes_fed_to_ldap_decoder_after_tls := [] |}
  else if use_starttls then
    match answer s with
    | AnsSuccess =>
        (* Framed rebuilt on the TLS stream: parts.read_buf (with bytes_after_response) is dropped *)
        {| result := if handshake c s then Established Tls else Failed; cleartext_writes := [StartTlsRequest]; cleartext_bytes_fed_to_ldap_decoder_after_tls := [] |}
    | AnsRc n => {| result := if N.eqb n 0 then (if handshake c s then Established Tls else Failed) else Failed;
                    cleartext_writes := [StartTlsRequest]; cleartext_bytes_fed_to_ldap_decoder_after_tls := [] |}
    | AnsGarbage => {| result := Failed; cleartext_writes := [StartTlsRequest]; cleartext_bytes_fed_to_ldap_decoder_after_tls := [] |}
    | AnsClose =>
        {| result := if fix18 then Failed else NeverReturns; cleartext_writes := [StartTlsRequest]; cleartext_bytes_fed_to_ldap_decoder_after_tls := [] |}
    | AnsOtherIdFirst =>
        (* a message under another id (e.g. an unsolicited notification) first, then the success response: with the repair of F18 the
           single-op turn keeps going until the StartTLS response itself has been delivered *)
        {| result := if fix18 then (if handshake c s then Established Tls else Failed) else NeverReturns;
           cleartext_writes := [StartTlsRequest]; cleartext_bytes_fed_to_ldap_decoder_after_tls := [] |}
    end
  else {| result := Established Clear; cleartext_writes := []; cleartext_bytes_fed_to_ldap_decoder_after_tls := [] |}.

Definition tls_requested (c : cfg) : bool := ldaps c || starttls c.

Ltac crush := cbn in *; repeat (match goal with
  | |- context [match ?x with _ => _ end] => destruct x eqn:?
  | H : context [match ?x with _ => _ end] |- _ => destruct x eqn:?
  end; cbn in *); try congruence; try discriminate; auto.

Theorem c17_tls_when_requested f c s t : tls_requested c = true -> result (establish f c s) = Established t -> t = Tls.
Proof. unfold tls_requested, establish. intros H R. crush. Qed.
Theorem c17_cleartext_only_starttls f c s : tls_requested c = true -> forall w, In w (cleartext_writes (establish f c s)) -> w = StartTlsRequest.
Proof. unfold tls_requested, establish. intros H w Hw. crush; intuition. Qed.
Theorem c17_nonzero_rc_fails f c s n : ldaps c = false -> starttls c = true -> answer s = AnsRc n -> n <> 0%N -> result (establish f c s) = Failed.
Proof. intros H1 H2 H3 H4. unfold establish. rewrite H1, H2, H3. cbn. destruct (N.eqb_spec n 0); [contradiction|reflexivity]. Qed.
Theorem c17_handshake_failure_fails f c s : tls_requested c = true -> handshake_completes s = false ->
  forall t, result (establish f c s) <> Established t.
Proof. unfold tls_requested, establish, handshake. intros Hr Hh t R. rewrite Hh in R. crush. Qed.
Theorem c17_untrusted_fails_unless_disabled f c s : tls_requested c = true -> cert_trusted_for_host s = false ->
  no_tls_verify c = false -> custom_connector_accepts_invalid c = None -> forall t, result (establish f c s) <> Established t.
Proof. unfold tls_requested, establish, handshake, accepts_invalid. intros Hr Hc Hn Hx t R. rewrite Hc, Hx, Hn in R. rewrite andb_false_r in R. crush. Qed.
Theorem c17_preface_bytes_dropped f c s : cleartext_bytes_fed_to_ldap_decoder_after_tls (establish f c s) = [].
Proof. unfold establish. crush. Qed.
(* F18 on the code as it is *)
Lemma c04_refuted_starttls_never_returns c s : ldaps c = false -> starttls c = true -> answer s = AnsClose -> result (establish false c s) = NeverReturns.
Proof. intros H1 H2 H3. unfold establish. now rewrite H1, H2, H3. Qed.
