(* Calibration sketch (round 0): connection establishment with TLS (src/conn.rs:475-621), the TLS library as an oracle. C17. *)
From Coq Require Import List NArith Bool.
From L3 Require Import SingleOp.
Import ListNotations.

Record cfg := { ldaps : bool; starttls : bool; no_tls_verify : bool; custom_connector_accepts_invalid : option bool }.
Inductive st_answer := AnsSuccess | AnsRc (n : N) | AnsGarbage | AnsClose | AnsOtherIdFirst
  | AnsSlam          (* the peer closes at once, without reading anything *)
  | AnsGreetFirst.   (* the peer sends an unsolicited message as soon as the connection is open, then answers the request with success *)
Record server := {
  answer : st_answer;
  cert_trusted_for_host : bool;     (* oracle: X.509 path + name check of the TLS library *)
  handshake_completes : bool;       (* oracle: everything else about the handshake *)
  driver_first : bool;              (* schedule: the driver task sees what the peer did before it takes the StartTLS request from its queue *)
  bytes_after_response : list nat } (* cleartext the server (or an attacker) appends to the StartTLS response *).
Inductive transport := Clear | Tls.
Inductive outcome := Established (t : transport) | Failed | NeverReturns.
Inductive wrote := StartTlsRequest | OtherLdapMessage.
Record run := { result : outcome; cleartext_writes : list wrote; cleartext_bytes_fed_to_ldap_decoder_after_tls : list nat }.

Definition accepts_invalid (c : cfg) : bool :=
  match custom_connector_accepts_invalid c with Some b => b | None => no_tls_verify c end.   (* create_connector: danger_accept_invalid_certs only when set *)
Definition handshake (c : cfg) (s : server) : bool := handshake_completes s && (cert_trusted_for_host s || accepts_invalid c).

(* the StartTLS exchange is one single-operation turn of the driver (SingleOp.v); this is the schedule a server behaviour produces *)
Definition exchange (s : server) : list sev :=
  match answer s with
  | AnsSuccess | AnsRc _ => [TakeOp true; Msg true]
  | AnsGarbage => [TakeOp true; RdErr]
  | AnsClose => [TakeOp true; Eof]
  | AnsOtherIdFirst => [TakeOp true; Msg false; Msg true]
  | AnsSlam => if driver_first s then [Eof] else [TakeOp true; Eof]
  | AnsGreetFirst => if driver_first s then [Msg false; TakeOp true; Msg true] else [TakeOp true; Msg false; Msg true]
  end.
Definition response_rc (a : st_answer) : N := match a with AnsRc n => n | _ => 0%N end.
(* [fix18]: the single-op turn as repaired (F18, completed by F23) or as found *)
Definition turn_ver (fix18 : bool) : sver := if fix18 then V23 else V0.

Definition establish (fix18 : bool) (c : cfg) (s : server) : run :=
  let use_starttls := negb (ldaps c) && starttls c in      (* ldaps forces starttls off *)
  if ldaps c then
    {| result := if handshake c s then Established Tls else Failed; cleartext_writes := []; cleartext_bytes_fed_to_ldap_decoder_after_tls := [] |}
  else if use_starttls then
    let t := srun (turn_ver fix18) (exchange s) in
    (* with the response in hand: res.success()?, then the handshake; Framed is rebuilt on the TLS stream: parts.read_buf (with
       bytes_after_response) is dropped *)
    let after := if N.eqb (response_rc (answer s)) 0 then (if handshake c s then Established Tls else Failed) else Failed in
    {| result := match caller_sees t with SFails => Failed | SHasResponse => after | SNever | SWaiting => NeverReturns end;
       cleartext_writes := if taken t then [StartTlsRequest] else []; cleartext_bytes_fed_to_ldap_decoder_after_tls := [] |}
  else {| result := Established Clear; cleartext_writes := []; cleartext_bytes_fed_to_ldap_decoder_after_tls := [] |}.

Definition tls_requested (c : cfg) : bool := ldaps c || starttls c.

Ltac crush := cbn in *; repeat (match goal with
  | |- context [match ?x with _ => _ end] => destruct x eqn:?
  | H : context [match ?x with _ => _ end] |- _ => destruct x eqn:?
  end; cbn in *); try congruence; try discriminate; auto.

Theorem c17_tls_when_requested f c s t : tls_requested c = true -> result (establish f c s) = Established t -> t = Tls.
Proof. unfold tls_requested, establish. intros H R. crush. Qed.
Theorem c17_cleartext_only_starttls f c s : tls_requested c = true -> forall w, In w (cleartext_writes (establish f c s)) -> w = StartTlsRequest.
Proof. unfold tls_requested, establish. intros H w Hw. crush; intuition. Qed.
Theorem c17_nonzero_rc_fails f c s n : ldaps c = false -> starttls c = true -> answer s = AnsRc n -> n <> 0%N -> result (establish f c s) = Failed.
Proof. intros H1 H2 H3 H4. unfold establish, exchange. rewrite H1, H2, H3. cbn [negb andb response_rc]. destruct (N.eqb_spec n 0); [contradiction|]. destruct f; reflexivity. Qed.
Theorem c17_handshake_failure_fails f c s : tls_requested c = true -> handshake_completes s = false ->
  forall t, result (establish f c s) <> Established t.
Proof. unfold tls_requested, establish, handshake. intros Hr Hh t R. rewrite Hh in R. crush. Qed.
Theorem c17_untrusted_fails_unless_disabled f c s : tls_requested c = true -> cert_trusted_for_host s = false ->
  no_tls_verify c = false -> custom_connector_accepts_invalid c = None -> forall t, result (establish f c s) <> Established t.
Proof. unfold tls_requested, establish, handshake, accepts_invalid. intros Hr Hc Hn Hx t R. rewrite Hc, Hx, Hn in R. rewrite andb_false_r in R. crush. Qed.
Theorem c17_preface_bytes_dropped f c s : cleartext_bytes_fed_to_ldap_decoder_after_tls (establish f c s) = [].
Proof. unfold establish. crush. Qed.
(* F18 on the code as it is *)
Lemma c04_refuted_starttls_never_returns c s : ldaps c = false -> starttls c = true -> answer s = AnsClose -> result (establish false c s) = NeverReturns.
Proof. intros H1 H2 H3. unfold establish, exchange. now rewrite H1, H2, H3. Qed.
(* F23 on the code with the first repair only (SingleOp.c04_refuted_F23), and as repaired: whatever the server does and whoever wins the
   race between the driver task and the caller, the establishment returns *)
Theorem c04_starttls_establishment_returns c s : result (establish true c s) <> NeverReturns.
Proof. unfold establish, exchange, handshake. destruct (ldaps c), (starttls c), (answer s), (driver_first s); cbn; repeat match goal with |- context [if ?b then _ else _] => destruct b end; discriminate. Qed.
Lemma c04_slam_and_greet c s : ldaps c = false -> starttls c = true ->
  (answer s = AnsSlam -> result (establish true c s) = Failed) /\ (answer s = AnsGreetFirst -> result (establish true c s) = if handshake c s then Established Tls else Failed).
Proof. intros H1 H2. unfold establish, exchange. rewrite H1, H2. split; intros ->; destruct (driver_first s); reflexivity. Qed.
