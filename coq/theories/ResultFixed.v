(* C03 on the repaired decoder: result fields from any definite encoding of the whole response message. *)
From Coq Require Import List NArith Lia Bool Arith.
From Coq.Strings Require Import Byte.
From L3 Require Import Ber BerFixed Utf8 Frame FrameSpec FrameFixed FrameFixedSpec Result.
Import ListNotations.
Open Scope N_scope.

Lemma tdepth_oct_list l : fold_right (fun t acc => Nat.max (tdepth t) acc) 0%nat (map oct l) = 0%nat.
Proof. induction l as [|u l IH]; cbn; [reflexivity|exact IH]. Qed.
Lemma fold_max_app (a b : list tree) :
  fold_right (fun t acc => Nat.max (tdepth t) acc) 0%nat (a ++ b) =
  Nat.max (fold_right (fun t acc => Nat.max (tdepth t) acc) 0%nat a) (fold_right (fun t acc => Nat.max (tdepth t) acc) 0%nat b).
Proof. induction a as [|x a IH]; cbn [app fold_right]; [reflexivity|]. rewrite IH. lia. Qed.
Lemma fold_max_opt1 o id : fold_right (fun t acc => Nat.max (tdepth t) acc) 0%nat (opt1 o id) = 0%nat.
Proof. destruct o; reflexivity. Qed.
Lemma tdepth_spec_response app_id code r : (tdepth (spec_response app_id code r) <= 2)%nat.
Proof. unfold spec_response. cbn [tdepth]. rewrite !fold_max_app, !fold_max_opt1.
  destruct (refs r) as [|u l]; cbn [fold_right tdepth oct]; [lia|]. rewrite tdepth_oct_list. lia. Qed.

Lemma WfCtrl_depth t c : WfCtrl t c -> (tdepth t <= 1)%nat.
Proof. intros []; cbn; lia. Qed.
Lemma WfCtrls_depth cts cs : Forall2 WfCtrl cts cs -> (fold_right (fun t acc => Nat.max (tdepth t) acc) 0%nat cts <= 1)%nat.
Proof. induction 1 as [|t c cts cs H _ IH]; cbn [fold_right]; [lia|]. apply WfCtrl_depth in H. lia. Qed.

Theorem c03_from_the_wire_fixed m app_id code r ib env bs rest : (2 <= m)%nat -> id_ok ib = true ->
  wf_res code r -> env = C Universal 16 [P Universal 2 ib; spec_response app_id code r] -> BerEnc env bs ->
  decode_inner' (repaired_d m) (bs ++ rest) = DFrame (as_i32 (parse_uint ib)) (spec_response app_id code r) [] rest /\
  result_of_tree (spec_response app_id code r) = Ok r.
Proof.
  intros Hm Hid Hw -> He. split; [|now apply c03_result_of_spec].
  assert (Hop : op_ok (spec_response app_id code r)) by reflexivity.
  apply (c06_exact_consumption_fixed m (as_i32 (parse_uint ib), spec_response app_id code r, []) bs rest).
  eexists. split; [exact (WM_plain ib _ Hop Hid)|]. split; [exact He|].
  pose proof (tdepth_spec_response app_id code r). cbn [tdepth fold_right]. lia.
Qed.

Theorem c03_from_the_wire_with_controls_fixed m app_id code r ib cts cs env bs rest : (2 <= m)%nat -> id_ok ib = true ->
  wf_res code r -> Forall2 WfCtrl cts cs ->
  env = C Universal 16 [P Universal 2 ib; spec_response app_id code r; C Context 0 cts] -> BerEnc env bs ->
  decode_inner' (repaired_d m) (bs ++ rest) = DFrame (as_i32 (parse_uint ib)) (spec_response app_id code r) cs rest /\
  result_of_tree (spec_response app_id code r) = Ok r.
Proof.
  intros Hm Hid Hw Hc -> He. split; [|now apply c03_result_of_spec].
  assert (Hop : op_ok (spec_response app_id code r)) by reflexivity.
  apply (c06_exact_consumption_fixed m (as_i32 (parse_uint ib), spec_response app_id code r, cs) bs rest).
  eexists. split; [exact (WM_ctrls ib _ cts cs Hop Hid Hc)|]. split; [exact He|].
  pose proof (tdepth_spec_response app_id code r). pose proof (WfCtrls_depth _ _ Hc). cbn [tdepth fold_right]. lia.
Qed.
Print Assumptions c03_from_the_wire_with_controls_fixed.
