(* Calibration sketch (round 0): LdapResultExt::from(Tag) (src/result.rs:321-412), parse_refs, and the result-code helpers. C03. *)
From Coq Require Import List NArith Lia Bool Arith.
From Coq.Strings Require Import Byte.
From L3 Require Import Ber Utf8 Frame FrameSpec.
Import ListNotations.
Open Scope N_scope.

Definition bytes := list byte.
Record lres := { rc : N; matched : bytes; text : bytes; refs : list bytes;
                 exop_name : option bytes; exop_val : option bytes; sasl : option bytes }.

Fixpoint parse_refs_l (l : list tree) : outcome (list bytes) :=
  match l with [] => Ok []
  | P _ _ v :: r => if Utf8.valid v then match parse_refs_l r with Ok vs => Ok (v :: vs) | Panic => Panic end else Panic
  | C _ _ _ :: _ => Panic end.
Definition parse_refs (t : tree) : outcome (list bytes) :=
  match t with C _ _ l => parse_refs_l l | P _ _ _ => Panic end.

Fixpoint comps (l : list tree) (acc : lres) : outcome lres :=
  match l with
  | [] => Ok acc
  | c :: r =>
    let id := tree_id c in
    if id =? 3 then match parse_refs c with Panic => Panic | Ok rs =>
         comps r {| rc := rc acc; matched := matched acc; text := text acc; refs := refs acc ++ rs;
                    exop_name := exop_name acc; exop_val := exop_val acc; sasl := sasl acc |} end
    else if id =? 7 then match c with P _ _ v =>
         comps r {| rc := rc acc; matched := matched acc; text := text acc; refs := refs acc;
                    exop_name := exop_name acc; exop_val := exop_val acc; sasl := Some v |} | _ => Panic end
    else if id =? 10 then match c with P _ _ v => if Utf8.valid v then
         comps r {| rc := rc acc; matched := matched acc; text := text acc; refs := refs acc;
                    exop_name := Some v; exop_val := exop_val acc; sasl := sasl acc |} else Panic | _ => Panic end
    else if id =? 11 then match c with P _ _ v =>
         comps r {| rc := rc acc; matched := matched acc; text := text acc; refs := refs acc;
                    exop_name := exop_name acc; exop_val := Some v; sasl := sasl acc |} | _ => Panic end
    else comps r acc
  end.

Definition result_of_tree (t : tree) : outcome lres :=
  match t with
  | P _ _ _ => Panic                                                          (* expect("result sequence") *)
  | C _ _ (P Universal 10 code :: P _ _ m :: P _ _ d :: rest) =>
      (* repair F28: a result code of more than 8 octets, or one that does not fit 32 bits, is malformed - it is not truncated (as found:
         [rc_as_found] below; a refusal with code 2^32 read as success) *)
      (* repair F51: ... and a result code without content octets is no result code (as found it read as 0, success) *)
      if negb (match code with [] => true | _ => false end) && (Nat.leb (length code) 8) && (parse_uint code <? 2^32) then
      if Utf8.valid m then if Utf8.valid d then
        comps rest {| rc := parse_uint code; matched := m; text := d; refs := [];
                      exop_name := None; exop_val := None; sasl := None |}
      else Panic else Panic else Panic
  | _ => Panic end.

(* ---- what the server encoded (RFC 4511 LDAPResult + the response-specific trailers) ---- *)
Definition oct (v : bytes) := P Universal 4 v.
Definition opt1 (o : option bytes) (id : N) : list tree := match o with Some v => [P Context id v] | None => [] end.
Definition spec_response (app_id : N) (code : bytes) (r : lres) : tree :=
  C Application app_id ([P Universal 10 code; oct (matched r); oct (text r)]
     ++ (match refs r with [] => [] | l => [C Context 3 (map oct l)] end)
     ++ opt1 (sasl r) 7 ++ opt1 (exop_name r) 10 ++ opt1 (exop_val r) 11).

Definition rc_as_found (code : bytes) : N := parse_uint code mod 2^32.
Lemma c03_refuted_F28 : rc_as_found [x01; x00; x00; x00; x00] = 0. Proof. reflexivity. Qed.
(* F51: an ENUMERATED without content octets (0a 00) read as code 0 - a StartTLS "response" of that shape as success; now malformed *)
Lemma c03_refuted_F51 : rc_as_found [] = 0 /\ result_of_tree (C Application 24 [P Universal 10 []; P Universal 4 []; P Universal 4 []]) = Panic /\
  result_of_tree (C Application 24 [P Universal 10 [x00]; P Universal 4 []; P Universal 4 []]) <> Panic.
Proof. vm_compute. repeat split. discriminate. Qed.
Definition wf_res (code : bytes) (r : lres) : Prop :=
  code <> [] /\ (length code <= 8)%nat /\ parse_uint code = rc r /\ rc r < 2^32 /\ Utf8.valid (matched r) = true /\ Utf8.valid (text r) = true /\
  Forall (fun u => Utf8.valid u = true) (refs r) /\ (match exop_name r with Some n => Utf8.valid n = true | None => True end).

Lemma parse_refs_oct l : Forall (fun u => Utf8.valid u = true) l -> parse_refs_l (map oct l) = Ok l.
Proof. induction 1 as [|u l Hu _ IH]; cbn; [reflexivity|]. now rewrite Hu, IH. Qed.

Definition set_refs (acc : lres) (x : list bytes) : lres :=
  {| rc := rc acc; matched := matched acc; text := text acc; refs := x; exop_name := exop_name acc; exop_val := exop_val acc; sasl := sasl acc |}.
Lemma comps_refs rs rest acc : Forall (fun u => Utf8.valid u = true) rs ->
  comps (C Context 3 (map oct rs) :: rest) acc = comps rest (set_refs acc (refs acc ++ rs)).
Proof. intros H. cbn [comps tree_id parse_refs]. change (3 =? 3) with true. cbn match. now rewrite (parse_refs_oct _ H). Qed.
Lemma comps_sasl v rest acc : comps (P Context 7 v :: rest) acc =
  comps rest {| rc := rc acc; matched := matched acc; text := text acc; refs := refs acc; exop_name := exop_name acc; exop_val := exop_val acc; sasl := Some v |}.
Proof. reflexivity. Qed.
Lemma comps_name v rest acc : Utf8.valid v = true -> comps (P Context 10 v :: rest) acc =
  comps rest {| rc := rc acc; matched := matched acc; text := text acc; refs := refs acc; exop_name := Some v; exop_val := exop_val acc; sasl := sasl acc |}.
Proof. intros H. cbn [comps tree_id]. change (10 =? 3) with false. change (10 =? 7) with false. change (10 =? 10) with true. cbn match. now rewrite H. Qed.
Lemma comps_val v rest acc : comps (P Context 11 v :: rest) acc =
  comps rest {| rc := rc acc; matched := matched acc; text := text acc; refs := refs acc; exop_name := exop_name acc; exop_val := Some v; sasl := sasl acc |}.
Proof. reflexivity. Qed.

Theorem c03_result_of_spec app_id code r : wf_res code r -> result_of_tree (spec_response app_id code r) = Ok r.
Proof.
  intros (Hne & Hlen & Hc & Hlt & Hm & Ht & Hr & Hn). destruct r as [c m t rs en ev sa]. cbn [rc matched text refs exop_name exop_val sasl] in *.
  unfold result_of_tree, spec_response. cbn [app matched text refs sasl exop_name exop_val]. unfold oct at 1 2. cbn beta iota.
  destruct code as [|c0 code']; [congruence|]. cbn [negb].
  rewrite (proj2 (Nat.leb_le _ _) Hlen), Hc, (proj2 (N.ltb_lt _ _) Hlt). cbn [andb]. rewrite Hm, Ht.
  destruct rs as [|u us]; cbn beta iota; cbn [app].
  2: rewrite comps_refs by exact Hr; unfold set_refs.
  all: cbn [rc matched text refs exop_name exop_val sasl app].
  all: destruct sa as [sv|]; cbn [opt1 app]; try rewrite comps_sasl; cbn [rc matched text refs exop_name exop_val sasl].
  all: destruct en as [nv|]; cbn [opt1 app]; try rewrite comps_name by exact Hn; cbn [rc matched text refs exop_name exop_val sasl].
  all: destruct ev as [vv|]; cbn [opt1 app]; try rewrite comps_val; reflexivity.
Qed.

(* together with C06/C07: whatever definite encoding the server chose for the whole message *)
Theorem c03_from_the_wire app_id code r ib env bs rest : id_ok ib = true ->
  wf_res code r -> env = C Universal 16 [P Universal 2 ib; spec_response app_id code r] -> BerEnc env bs ->
  exists mid, decode_inner (bs ++ rest) = DFrame mid (spec_response app_id code r) [] rest /\
              result_of_tree (spec_response app_id code r) = Ok r.
Proof.
  intros Hid Hw -> He. eexists. split; [|now apply c03_result_of_spec].
  assert (Hop : op_ok (spec_response app_id code r)) by reflexivity.
  exact (c06_exact_consumption _ _ bs rest (WM_plain ib _ Hop Hid) He).
Qed.

(* ---- helpers: success(), non_error(), CompareResult::equal()/non_error() ---- *)
Definition success (c : N) : bool := c =? 0.
Definition non_error (c : N) : bool := (c =? 0) || (c =? 10).
Definition cmp_equal (c : N) : option bool := if c =? 5 then Some false else if c =? 6 then Some true else None.
Definition cmp_non_error (c : N) : bool := (c =? 5) || (c =? 6) || (c =? 10).
Theorem c03_success_iff c : success c = true <-> c = 0. Proof. unfold success. now rewrite N.eqb_eq. Qed.
Theorem c03_non_error_iff c : non_error c = true <-> c = 0 \/ c = 10.
Proof. unfold non_error. now rewrite orb_true_iff, !N.eqb_eq. Qed.
Theorem c03_equal_spec c : (cmp_equal c = Some false <-> c = 5) /\ (cmp_equal c = Some true <-> c = 6) /\ (cmp_equal c = None <-> c <> 5 /\ c <> 6).
Proof. unfold cmp_equal. destruct (N.eqb_spec c 5) as [->|H5]; [repeat split; try discriminate; try lia; intros []; congruence|].
  destruct (N.eqb_spec c 6) as [->|H6]; repeat split; try discriminate; try congruence; try lia. Qed.
Theorem c03_cmp_non_error_iff c : cmp_non_error c = true <-> c = 5 \/ c = 6 \/ c = 10.
Proof. unfold cmp_non_error. rewrite !orb_true_iff, !N.eqb_eq. tauto. Qed.
Print Assumptions c03_from_the_wire.

(* ... and with response controls attached: the caller gets the result and, for each control the server attached, its OID, criticality
   and value bytes, in order — whatever definite encoding the server chose *)
Theorem c03_from_the_wire_with_controls app_id code r ib cts cs env bs rest : id_ok ib = true ->
  wf_res code r -> Forall2 WfCtrl cts cs ->
  env = C Universal 16 [P Universal 2 ib; spec_response app_id code r; C Context 0 cts] -> BerEnc env bs ->
  exists mid, decode_inner (bs ++ rest) = DFrame mid (spec_response app_id code r) cs rest /\
              result_of_tree (spec_response app_id code r) = Ok r.
Proof.
  intros Hid Hw Hc -> He. eexists. split; [|now apply c03_result_of_spec].
  assert (Hop : op_ok (spec_response app_id code r)) by reflexivity.
  exact (c06_exact_consumption _ _ bs rest (WM_ctrls ib _ cts cs Hop Hid Hc) He).
Qed.
Print Assumptions c03_from_the_wire_with_controls.

(* ---- the responses fed to the unchanged client in the last probe of round 0, on the model ---- *)
Require Import Coq.Strings.String.
From L3 Require Filter.
Definition sb (s : string) := Filter.s2b s.
Example c03_probe_delete_with_referrals :
  result_of_tree (C Application 11 (cons (P Universal 10 (cons x0a nil)) (cons (oct (sb "dc=x")) (cons (oct (sb "msg"))
      (cons (C Context 3 (cons (oct (sb "ldap://a/")) (cons (oct (sb "ldap://b/")) nil))) nil))))) =
  Ok {| rc := 10; matched := sb "dc=x"; text := sb "msg"; refs := cons (sb "ldap://a/") (cons (sb "ldap://b/") nil);
        exop_name := None; exop_val := None; sasl := None |}.
Proof. vm_compute. reflexivity. Qed.
Example c03_probe_extended :
  result_of_tree (C Application 24 (cons (P Universal 10 (cons x00 nil)) (cons (oct nil) (cons (oct nil)
      (cons (P Context 10 (sb "1.2.3")) (cons (P Context 11 (sb "dn:cn=a")) nil)))))) =
  Ok {| rc := 0; matched := nil; text := nil; refs := nil; exop_name := Some (sb "1.2.3"); exop_val := Some (sb "dn:cn=a"); sasl := None |}.
Proof. vm_compute. reflexivity. Qed.
Example c03_probe_two_byte_code :
  option_map rc (match result_of_tree (C Application 15 (cons (P Universal 10 (cons x01 (cons x00 nil))) (cons (oct nil) (cons (oct nil) nil)))) with Ok r => Some r | Panic => None end) = Some 256.
Proof. vm_compute. reflexivity. Qed.
