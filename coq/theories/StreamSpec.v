(* Calibration sketch (round 0): C10 over every call sequence. A small specification machine written from the property's text, and
   the theorem that the stream model of Stream.v (adapted, or direct with repair F7) produces the same outputs as the specification
   for every sequence of next()/finish()/state() calls, once the server's items have arrived. *)
From Coq Require Import List NArith Lia Bool Arith.
From Coq.Strings Require Import Byte.
From L3 Require Import Stream.
Import ListNotations.

Inductive call := CNext | CFinish | CState.
Inductive out := ONext (r : nres) | OFinish (r : result) | OState (st : sstate).

(* ---------- the specification ---------- *)
Record spec := mkSpec {
  phase : sstate;            (* Active, Done or Closed *)
  todo : list sitem;         (* what the server sent for this search and the caller has not consumed yet *)
  refs : list bytes;         (* adapted streams: referral URIs seen so far *)
  stored : option result;    (* the final result, once read *)
  ad : bool }.
Definition hiddenb (it : sitem) : bool := match it with IRef _ | IInter _ => true | _ => false end.
Fixpoint take_hidden (l : list sitem) : list sitem := match l with it :: tl => if hiddenb it then it :: take_hidden tl else [] | [] => [] end.
Fixpoint drop_hidden (l : list sitem) : list sitem := match l with it :: tl => if hiddenb it then drop_hidden tl else l | [] => [] end.

Definition spec_next (p : spec) : spec * nres :=
  match phase p with
  | Active =>
      let hid := if ad p then take_hidden (todo p) else [] in
      let rest := if ad p then drop_hidden (todo p) else todo p in
      match rest with
      | IDone r cs :: _ => (mkSpec Done [] (refs p ++ flat_map ref_uris hid) (Some (mkRes (rc r) (res_refs r) cs)) (ad p), NNone)
      | it :: tl => (mkSpec Active tl (refs p ++ flat_map ref_uris hid) (stored p) (ad p), NSome it)
      | [] => (p, NNone)
      end
  | _ => (p, NNone)                                   (* outside Active: Ok(None), nothing changes *)
  end.
Definition spec_finish (p : spec) : spec * result :=
  match phase p with
  | Closed => (p, already)                            (* second finish(): 80 *)
  | _ =>
      let r := match stored p with Some r => r | None => cancelled end in       (* not read to the end: 88 *)
      (mkSpec Closed [] [] None (ad p), if ad p then mkRes (rc r) (res_refs r ++ refs p) (res_ctrls r) else r)
  end.
Definition spec_step (p : spec) (c : call) : spec * out :=
  match c with
  | CNext => let (p', r) := spec_next p in (p', ONext r)
  | CFinish => let (p', r) := spec_finish p in (p', OFinish r)
  | CState => (p, OState (phase p)) end.
Definition model_step (s : stream) (c : call) : stream * out :=
  match c with
  | CNext => let (s', r) := next s in (s', ONext r)
  | CFinish => let (s', r) := finish s in (s', OFinish r)
  | CState => (s, OState (state s)) end.
Fixpoint run {S} (step : S -> call -> S * out) (s : S) (cs : list call) : list out :=
  match cs with [] => [] | c :: tl => let (s', o) := step s c in o :: run step s' tl end.

(* ---------- abstraction and invariant ---------- *)
Definition abs (s : stream) : spec :=
  mkSpec (state s) (match rx s with Some ch => avail ch | None => [] end) (eo_refs s) (res s) (adapted s).
Definition Inv (s : stream) : Prop :=
  (adapted s = false -> fix7 s = true) /\
  match state s with
  | Active => exists cl its r cs tl, rx s = Some (mkChan (its ++ IDone r cs :: tl) cl) /\ Forall not_done its /\ res s = None
  | Done => rx s = None
  | Closed => rx s = None /\ res s = None /\ eo_refs s = []
  | _ => False end.

Lemma split_hidden its : Forall not_done its ->
  Forall hidden its \/ exists hid t tl, its = hid ++ IEntry t :: tl /\ Forall hidden hid /\ Forall not_done tl.
Proof.
  induction 1 as [|it its Hn Hf IH]; [left; constructor|].
  destruct (hidden_or_entry it Hn) as [Hh|(t & ->)].
  - destruct IH as [IH|(hid & t & tl & -> & Hh' & Hn')]; [left; now constructor|].
    right. exists (it :: hid), t, tl. split; [reflexivity|]. split; [now constructor|assumption].
  - right. exists [], t, its. split; [reflexivity|]. split; [constructor|assumption].
Qed.
Lemma take_hidden_app hid x tl : Forall hidden hid -> hiddenb x = false -> take_hidden (hid ++ x :: tl) = hid.
Proof. induction 1 as [|it hid Hh _ IH]; intros Hx; cbn; [now rewrite Hx|]. destruct it; cbn in Hh; try contradiction; cbn; now rewrite IH. Qed.
Lemma drop_hidden_app hid x tl : Forall hidden hid -> hiddenb x = false -> drop_hidden (hid ++ x :: tl) = x :: tl.
Proof. induction 1 as [|it hid Hh _ IH]; intros Hx; cbn; [now rewrite Hx|]. destruct it; cbn in Hh; try contradiction; cbn; now rewrite IH. Qed.

Lemma next_refines s : Inv s -> Inv (fst (next s)) /\ abs (fst (next s)) = fst (spec_next (abs s)) /\ snd (next s) = snd (spec_next (abs s)).
Proof.
  intros [Hf7 Hst]. destruct s as [st rxo rs er adp sc f7]. cbn [state adapted fix7 rx res eo_refs] in *.
  destruct st; try contradiction.
  - (* Active *) destruct Hst as (cl & its & r & cs & tl & -> & Hn & ->).
    destruct adp.
    + (* adapted *) destruct (split_hidden its Hn) as [Hh|(hid & t & tl' & -> & Hh & Hn')].
      * rewrite next_adapted_done by assumption. unfold spec_next, abs. cbn [phase ad todo state adapted rx avail eo_refs res fst snd refs stored].
        rewrite take_hidden_app, drop_hidden_app by (assumption || reflexivity). cbn [fst snd]. repeat split; discriminate.
      * rewrite <- app_assoc. cbn [app]. rewrite next_adapted_entry by assumption. unfold spec_next, abs. cbn [phase ad todo state adapted rx avail eo_refs res fst snd refs stored].
        rewrite take_hidden_app, drop_hidden_app by (assumption || reflexivity). cbn [fst snd]. repeat split; try discriminate.
        exists cl, tl', r, cs, tl. now repeat split.
    + (* direct, repaired *) rewrite (Hf7 eq_refl). destruct its as [|it its'].
      * cbn [app]. rewrite next_direct_repaired_done. unfold spec_next, abs. cbn. rewrite app_nil_r. repeat split; reflexivity.
      * cbn [app]. apply Forall_cons_iff in Hn as [Hn1 Hn2]. rewrite next_direct_repaired_item by assumption.
        unfold spec_next, abs. cbn [phase ad todo state adapted rx avail eo_refs res fst snd refs stored flat_map]. rewrite app_nil_r.
        destruct it; cbn in Hn1; try contradiction; cbn [fst snd]; (repeat split; try reflexivity; exists cl, its', r, cs, tl; now repeat split).
  - (* Done *) rewrite c10_next_outside_active by (cbn; discriminate). unfold spec_next, abs. cbn. repeat split; assumption.
  - (* Closed *) rewrite c10_next_outside_active by (cbn; discriminate). unfold spec_next, abs. cbn. repeat split; try assumption; apply Hst.
Qed.

Lemma finish_refines s : Inv s -> Inv (fst (finish s)) /\ abs (fst (finish s)) = fst (spec_finish (abs s)) /\ snd (finish s) = snd (spec_finish (abs s)).
Proof.
  intros [Hf7 Hst]. destruct s as [st rxo rs er adp sc f7]. cbn [state adapted fix7 rx res eo_refs] in *.
  destruct st; try contradiction; unfold finish, spec_finish, abs; cbn [state adapted fix7 rx res eo_refs phase ad stored refs fst snd scrubs].
  - repeat split; try reflexivity; assumption.
  - repeat split; try reflexivity; assumption.
  - destruct Hst as (-> & -> & ->). repeat split; try reflexivity; assumption.
Qed.

(* C10 for every call sequence: same outputs as the specification *)
Theorem c10_all_call_sequences cs : forall s, Inv s -> run model_step s cs = run spec_step (abs s) cs.
Proof.
  induction cs as [|c cs IH]; intros s Hi; [reflexivity|]. cbn [run]. destruct c; cbn [model_step spec_step].
  - destruct (next_refines s Hi) as (Hi' & Ha & Ho). destruct (next s) as [s' r]. destruct (spec_next (abs s)) as [p' r']. cbn [fst snd] in *. subst. now rewrite (IH s' Hi').
  - destruct (finish_refines s Hi) as (Hi' & Ha & Ho). destruct (finish s) as [s' r]. destruct (spec_finish (abs s)) as [p' r']. cbn [fst snd] in *. subst. now rewrite (IH s' Hi').
  - unfold abs at 2. cbn [phase]. now rewrite (IH s Hi).
Qed.

(* a stream started on a complete, well-formed server script satisfies the invariant: adapted, or direct with the repair *)
Lemma start_Inv its r cs adp : Forall not_done its -> Inv (start (its ++ [IDone r cs]) adp true).
Proof. intros Hn. split; [reflexivity|]. cbn. exists true, its, r, cs, []. now repeat split. Qed.
Corollary c10_start_all_call_sequences its r cs adp calls : Forall not_done its ->
  run model_step (start (its ++ [IDone r cs]) adp true) calls =
  run spec_step (mkSpec Active (its ++ [IDone r cs]) [] None adp) calls.
Proof. intros Hn. now rewrite (c10_all_call_sequences calls _ (start_Inv its r cs adp Hn)). Qed.

(* the specification says what the property says; three readings of it as examples of use *)
Example spec_reads_in_order :
  run spec_step (mkSpec Active [IEntry 1; IRef [[x61]]; IEntry 2; IDone (mkRes 0 [] []) [7]] [] None false)
      [CState; CNext; CNext; CNext; CNext; CState; CNext; CFinish; CFinish; CState] =
  [OState Active; ONext (NSome (IEntry 1)); ONext (NSome (IRef [[x61]])); ONext (NSome (IEntry 2)); ONext NNone; OState Done; ONext NNone;
   OFinish (mkRes 0 [] [7]); OFinish already; OState Closed].
Proof. reflexivity. Qed.
Example spec_early_finish :
  run spec_step (mkSpec Active [IEntry 1; IEntry 2; IDone (mkRes 0 [] []) [7]] [] None false) [CNext; CFinish; CNext; CFinish] =
  [ONext (NSome (IEntry 1)); OFinish cancelled; ONext NNone; OFinish already].
Proof. reflexivity. Qed.
Print Assumptions c10_start_all_call_sequences.
