(* Calibration sketch (round 0): connection set-up decisions (src/conn.rs:415-550), from what the url crate reports. C18. *)
From Coq Require Import List NArith Lia Bool Arith.
From Coq.Strings Require Import Byte String.
From L3 Require Import Ber Filter UrlParams.
Import ListNotations.
Open Scope N_scope.

Inductive stdstream := StTcp | StUnix | StInvalid.
Record settings := { starttls : bool; std_stream : option stdstream; has_timeout : bool }.
Inductive tlsmode := Plain | StartTls | Ldaps.
Inductive serr := EEmptyUnixPath | EPortInUnixPath | EMismatched | EUnknownScheme | ENoAuthority   (* repair F57 *)
  | EStartTlsUnix.   (* repair F27: StartTLS asked for on an ldapi URL - TLS cannot be layered over the Unix socket here, and a cleartext handle would be a silent downgrade *)
Inductive plan :=
| PPanic                                   (* panic!("unexpected None from url.host_str()") *)
| PErr (e : serr)
| PTcp (host : list byte) (port : N) (mode : tlsmode) (timeout_covers_all : bool)
| PPreTcp (mode : tlsmode) (timeout_covers_all : bool)
| PUnix (path : list byte)
| PPreUnix.

Record fixes18 := { fix12 : bool; fix13 : bool; fix27 : bool; fix57 : bool }.
(* fix57: "a missing host means localhost" (repair F12) is for a URL that has an authority part, however empty (ldap:///). A URL without
   "//" after the scheme has no host part at all - what looks like one, ldap:host.example, is an opaque path - and is no LDAP URL
   (RFC 4516: ldapurl = scheme COLON SLASH SLASH ...): an error, not a connection to localhost with the host the caller wrote dropped *)
Definition contains_colon (s : list byte) : bool := existsb (fun c => beq c ":"%byte) s.
Local Open Scope string_scope.

Definition plan_of_auth (fx : fixes18) (auth : bool) (scheme : list byte) (host : option (list byte)) (port : option N) (st : settings) : plan :=
  if beqs scheme (s2b "ldapi") then
    if fix27 fx && starttls st then PErr EStartTlsUnix else
    match std_stream st with
    | None =>
        let path := match host with Some h => h | None => [] end in
        match path with [] => PErr EEmptyUnixPath | _ =>
        if contains_colon path || (fix13 fx && match port with Some _ => true | None => false end) then PErr EPortInUnixPath
        else PUnix (pdec path) end
    | Some StUnix => PPreUnix
    | Some _ => PErr EMismatched end
  else
    let go (mode : tlsmode) (dflt : N) :=
      let p := match port with Some p => p | None => dflt end in
      match host with
      | Some ((_ :: _) as h) =>
          match std_stream st with
          | None => PTcp h p mode (has_timeout st)
          | Some StTcp => PPreTcp mode (has_timeout st)
          | Some _ => PErr EMismatched end
      | _ =>                                  (* second guard duplicates the first: falls to the panic arm *)
          if fix12 fx then
            if fix57 fx && negb auth then PErr ENoAuthority else
            match std_stream st with
            | None => PTcp (s2b "localhost") p mode (has_timeout st)
            | Some StTcp => PPreTcp mode (has_timeout st)
            | Some _ => PErr EMismatched end
          else PPanic
      end in
    if beqs scheme (s2b "ldap") then go (if starttls st then StartTls else Plain) 389
    else if beqs scheme (s2b "ldaps") then go Ldaps 636
    else PErr EUnknownScheme.

(* every URL of the theorems below has an authority part; the form without one: c18_no_authority *)
Definition plan_of (fx : fixes18) := plan_of_auth fx true.
Definition as_is18 := {| fix12 := false; fix13 := false; fix27 := false; fix57 := false |}.
Definition repaired18 := {| fix12 := true; fix13 := true; fix27 := true; fix57 := true |}.
Definition dflt := {| starttls := false; std_stream := None; has_timeout := false |}.

(* the code as it is: *)
Lemma c18_refuted_panic : plan_of as_is18 (s2b "ldap") None None dflt = PPanic. Proof. reflexivity. Qed.
Lemma c18_refuted_ldapi_port : plan_of as_is18 (s2b "ldapi") (Some (s2b "%2ftmp%2fsock")) (Some 33) dflt = PUnix (s2b "/tmp/sock").
Proof. vm_compute. reflexivity. Qed.

(* the repaired code: *)
Theorem c18_total sch h p st : plan_of repaired18 sch h p st <> PPanic.
Proof. unfold plan_of, plan_of_auth. cbn [fix12 fix13 fix27 fix57 repaired18 negb andb]. repeat match goal with |- context [match ?x with _ => _ end] => destruct x end; try discriminate; intros H; discriminate H. Qed.
Theorem c18_ldap_default_port h hs st : std_stream st = None ->
  plan_of repaired18 (s2b "ldap") (Some (h :: hs)) None st = PTcp (h :: hs) 389 (if starttls st then StartTls else Plain) (has_timeout st).
Proof. intros E. unfold plan_of, plan_of_auth. cbn. now rewrite E. Qed.
Theorem c18_ldaps_default_port h hs st : std_stream st = None ->
  plan_of repaired18 (s2b "ldaps") (Some (h :: hs)) None st = PTcp (h :: hs) 636 Ldaps (has_timeout st).
Proof. intros E. unfold plan_of, plan_of_auth. cbn. now rewrite E. Qed.
Theorem c18_missing_host_localhost st p : std_stream st = None ->
  plan_of repaired18 (s2b "ldap") None p st = PTcp (s2b "localhost") (match p with Some x => x | None => 389 end) (if starttls st then StartTls else Plain) (has_timeout st)
  /\ plan_of repaired18 (s2b "ldap") (Some []) p st = PTcp (s2b "localhost") (match p with Some x => x | None => 389 end) (if starttls st then StartTls else Plain) (has_timeout st).
Proof. intros E. unfold plan_of, plan_of_auth. cbn. rewrite E. now split. Qed.
Theorem c18_ldapi_port_rejected h hs n st : std_stream st = None -> starttls st = false -> plan_of repaired18 (s2b "ldapi") (Some (h :: hs)) (Some n) st = PErr EPortInUnixPath.
Proof. intros E S. unfold plan_of, plan_of_auth. cbn. rewrite E, S. now rewrite orb_true_r. Qed.
Theorem c18_ldapi_empty st p : std_stream st = None -> starttls st = false -> plan_of repaired18 (s2b "ldapi") None p st = PErr EEmptyUnixPath.
Proof. intros E S. unfold plan_of, plan_of_auth. cbn. now rewrite E, S. Qed.
(* F27: StartTLS asked for together with an ldapi URL is refused - whatever else the URL and the settings say (also with a pre-opened socket);
   as found the setting was ignored and a cleartext connection returned *)
Theorem c17_ldapi_starttls_rejected h p st : starttls st = true -> plan_of repaired18 (s2b "ldapi") h p st = PErr EStartTlsUnix.
Proof. intros S. unfold plan_of, plan_of_auth. cbn. now rewrite S. Qed.
Lemma c17_refuted_F27 : plan_of {| fix12 := true; fix13 := true; fix27 := false; fix57 := true |} (s2b "ldapi") (Some (s2b "%2ftmp%2fsock")) None {| starttls := true; std_stream := None; has_timeout := false |} = PUnix (s2b "/tmp/sock").
Proof. vm_compute. reflexivity. Qed.
Theorem c18_mismatched fx h p st :
  (std_stream st = Some StUnix \/ std_stream st = Some StInvalid -> exists e, plan_of fx (s2b "ldap") (Some (s2b "h")) p st = PErr e) /\
  (std_stream st = Some StTcp \/ std_stream st = Some StInvalid -> starttls st = false -> plan_of fx (s2b "ldapi") h p st = PErr EMismatched).
Proof. split; [intros [E|E]|intros [E|E] S]; unfold plan_of; cbn; rewrite ?S, ?andb_false_r, E; try reflexivity; eexists; reflexivity. Qed.
Theorem c18_unknown_scheme fx sch h p st : beqs sch (s2b "ldap") = false -> beqs sch (s2b "ldaps") = false -> beqs sch (s2b "ldapi") = false ->
  plan_of fx sch h p st = PErr EUnknownScheme.
Proof. intros E1 E2 E3. unfold plan_of, plan_of_auth. now rewrite E3, E1, E2. Qed.
Theorem c18_ldapi_decodes_path h hs st : std_stream st = None -> starttls st = false -> contains_colon (h :: hs) = false ->
  plan_of repaired18 (s2b "ldapi") (Some (h :: hs)) None st = PUnix (pdec (h :: hs)).
Proof. intros E S Hc. unfold plan_of, plan_of_auth. cbn [beqs]. change (beqs (s2b "ldapi") (s2b "ldapi")) with true. cbv iota. rewrite S, andb_false_r, E, Hc. reflexivity. Qed.

(* repair F57: ldap:host.example, ldap:, ldaps:x - no "//", no authority part: an error whatever else the URL and the settings say (a
   host that is present, which the url crate never reports without an authority, would be used as before) *)
Theorem c18_no_authority sch p st : beqs sch (s2b "ldap") = true \/ (beqs sch (s2b "ldap") = false /\ beqs sch (s2b "ldaps") = true) ->
  beqs sch (s2b "ldapi") = false -> plan_of_auth repaired18 false sch None p st = PErr ENoAuthority.
Proof. intros H Hi. unfold plan_of_auth. rewrite Hi. destruct H as [H|[H1 H2]]; [rewrite H|rewrite H1, H2]; reflexivity. Qed.
Lemma c18_refuted_F57 : plan_of_auth {| fix12 := true; fix13 := true; fix27 := true; fix57 := false |} false (s2b "ldap") None None dflt = PTcp (s2b "localhost") 389 Plain false /\
  plan_of_auth repaired18 false (s2b "ldap") None None dflt = PErr ENoAuthority /\ plan_of_auth repaired18 true (s2b "ldap") None None dflt = PTcp (s2b "localhost") 389 Plain false.
Proof. repeat split. Qed.

(* ---- the name matched against the server's certificate (new_tcp: `_hostname`); repair F43 ----
   url.host_str() keeps the brackets of an IPv6 literal - the socket address needs them, the certificate check must not see them. Whether a
   certificate is good for a name is the TLS library's business (oracle); the lane's certificates are described by the names they list. *)
Definition unbracket (h : list byte) : list byte :=
  match h with
  | c :: r => if beq c "["%byte then match rev r with d :: m => if beq d "]"%byte then rev m else h | [] => h end else h
  | [] => h end.
Definition tls_name (fix43 : bool) (host : option (list byte)) : list byte :=
  match host with Some (c :: r) => if fix43 then unbracket (c :: r) else c :: r | _ => s2b "localhost" end.
Definition cert_names_match (sans : list (list byte)) (fix43 : bool) (host : option (list byte)) : bool := existsb (beqs (tls_name fix43 host)) sans.

Theorem c18_tls_name_v6_literal a : tls_name true (Some ("["%byte :: a ++ ["]"%byte])) = a.
Proof. unfold tls_name, unbracket. change (beq "[" "[")%byte with true. cbv iota. rewrite rev_app_distr. cbn [rev app]. change (beq "]" "]")%byte with true. cbv iota. apply rev_involutive. Qed.
Theorem c18_tls_name_plain c r : beq c "["%byte = false -> tls_name true (Some (c :: r)) = c :: r.
Proof. intros H. unfold tls_name, unbracket. now rewrite H. Qed.
Theorem c18_tls_name_default f : tls_name f None = s2b "localhost" /\ tls_name f (Some []) = s2b "localhost".
Proof. split; reflexivity. Qed.
Lemma c18_refuted_F43 : tls_name false (Some (s2b "[::1]")) = s2b "[::1]" /\ tls_name true (Some (s2b "[::1]")) = s2b "::1" /\
  cert_names_match [s2b "localhost"; s2b "127.0.0.1"; s2b "::1"] false (Some (s2b "[::1]")) = false /\
  cert_names_match [s2b "localhost"; s2b "127.0.0.1"; s2b "::1"] true (Some (s2b "[::1]")) = true /\
  cert_names_match [s2b "localhost"] true (Some (s2b "[::1]")) = false.
Proof. vm_compute. repeat split. Qed.
