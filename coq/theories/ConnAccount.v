(* Calibration sketch (round 0): where the senders are — the accounting invariant behind C04 (and the base of C13). *)
From RecordUpdate Require Import RecordUpdate.
From Coq Require Import List ZArith Lia Bool Arith.
From L3 Require Import Msgid Conn ConnProofs ConnTimeouts.
Import ListNotations.
Open Scope Z_scope.

(* ---------- getop / updop algebra ---------- *)
Lemma getop_updop s o f o' : getop (updop o f s) o' = if Nat.eqb o' o then option_map f (getop s o') else getop s o'.
Proof. unfold getop, updop. cbn. apply nth_upd. Qed.
Lemma getop_drop_entry m k f s o' :
  getop (drop_entry m k f s) o' =
  match alookup k m with Some o => if Nat.eqb o' o then option_map f (getop s o') else getop s o' | None => getop s o' end.
Proof. unfold drop_entry. destruct (alookup k m); [apply getop_updop|reflexivity]. Qed.

Definition ukeys (m : list (Z * nat)) : Prop := NoDup (map fst m).
Lemma alookup_unique k o m : ukeys m -> In (k, o) m -> alookup k m = Some o.
Proof. unfold ukeys, alookup. induction m as [|[k' o'] m IH]; cbn; [tauto|]. intros Hnd [[= -> ->]|Hin].
  - now rewrite Z.eqb_refl.
  - inversion Hnd as [|? ? Hnin Hnd']; subst. destruct (Z.eqb_spec k' k) as [->|_].
    + exfalso. apply Hnin. change k with (fst (k, o)). now apply in_map.
    + now apply IH. Qed.
Lemma In_aremove_iff k m p : In p (aremove k m) <-> In p m /\ fst p <> k.
Proof. unfold aremove. rewrite filter_In. split; intros [H1 H2]; split; auto.
  - intros E. rewrite E, Z.eqb_refl in H2. discriminate.
  - now apply negb_true_iff, Z.eqb_neq. Qed.
Lemma ukeys_aremove k m : ukeys m -> ukeys (aremove k m).
Proof. unfold ukeys, aremove. induction m as [|[k' o'] m IH]; cbn; [constructor|]. intros Hnd.
  inversion Hnd as [|? ? Hnin Hnd']; subst. destruct (Z.eqb k' k); cbn; [now apply IH|].
  constructor; [|now apply IH]. intros Hin. apply Hnin. apply in_map_iff in Hin as ([k2 o2] & E & Hin2). cbn in E. subst k2.
  apply filter_In in Hin2 as [Hin2 _]. change k' with (fst (k', o2)). now apply in_map. Qed.
Lemma ukeys_ainsert k v m : ukeys m -> ukeys (ainsert k v m).
Proof. intros H. unfold ainsert, ukeys. cbn. constructor; [|now apply ukeys_aremove].
  intros Hin. apply in_map_iff in Hin as ([k2 o2] & E & Hin2). cbn in E. subst k2. apply In_aremove_iff in Hin2 as [_ Hne]. now apply Hne. Qed.

(* ---------- the invariant ---------- *)
Definition sender_of_reply (s : st) (o : nat) (c : cop) : Prop := In o (opq s) \/ In (o_mid c, o) (rmap s).
Definition sender_of_chan (s : st) (o : nat) (c : cop) : Prop := In o (opq s) \/ In (o_mid c, o) (smap s).
Definition is_search (c : cop) : Prop := match o_kind c with KSearch _ => True | _ => False end.
Record acct (s : st) : Prop := {
  a_keyed : keyed s;
  a_ur : ukeys (rmap s); a_us : ukeys (smap s);
  a_reply : forall o c, getop s o = Some c -> o_reply c = OsEmpty -> is_running s = true /\ sender_of_reply s o c;
  a_chan : forall o c, getop s o = Some c -> o_chan c = true -> is_running s = true /\ sender_of_chan s o c /\ is_search c;
  a_stopped : is_running s = false -> opq s = [] /\ rmap s = [] /\ smap s = [] }.

(* C04, given the invariant: once the driver has ended nobody can be left waiting for a value that cannot come *)
Theorem c04_nothing_pending s o c : acct s -> is_running s = false -> getop s o = Some c ->
  o_reply c <> OsEmpty /\ o_chan c = false.
Proof. intros A Hr Hc. split.
  - intros E. destruct (a_reply s A o c Hc E) as [R _]. congruence.
  - destruct (o_chan c) eqn:E; [|reflexivity]. destruct (a_chan s A o c Hc E) as [R _]. congruence. Qed.

(* ... so a poll of a waiting operation completes (with the value if it was delivered, with an error otherwise) *)
Theorem c04_poll_completes s o c : acct s -> is_running s = false -> getop s o = Some c -> o_status c = CWait ->
  exists c', getop (step s (CliPoll o)) o = Some c' /\ o_status c' <> CWait.
Proof.
  intros A Hr Hc Hw. destruct (c04_nothing_pending s o c A Hr Hc) as [Hne _].
  unfold step. rewrite Hc. unfold waiting. rewrite Hw. cbn [negb].
  destruct (o_reply c) eqn:E; [congruence| |]; eexists; (split; [apply getop_updop_same; exact Hc|]); cbn; destruct (o_kind c); discriminate.
Qed.
(* ... and a stream's next() does not block either: an item, the end, or an error *)
Theorem c04_stream_next_completes s o c : acct s -> is_running s = false -> getop s o = Some c -> o_status c = SActive -> o_rx c = true ->
  nth_error (o_items c) (o_taken c) = None ->
  exists c', getop (step s (StreamNext o)) o = Some c' /\ o_status c' = SError.
Proof.
  intros A Hr Hc Hs Hx Hn. destruct (c04_nothing_pending s o c A Hr Hc) as [_ Hch].
  unfold step. rewrite Hc, Hs, Hx. cbn [negb]. rewrite Hn, Hch. cbn [negb].
  eexists. split; [apply getop_updop_same; exact Hc|reflexivity]. Qed.

(* later operations on the handle fail at once *)
Theorem c04_later_ops_fail s k tmo mid : is_running s = false -> next_msgid (last s) (inuse s) = Found mid ->
  exists c, getop (step s (Start k tmo)) (length (ops s)) = Some c /\
    o_status c = match k with KSearch _ => SStartErr EOpSend | _ => CErr EOpSend end.
Proof. intros Hr Hm. unfold step. rewrite Hm, Hr. unfold getop. cbn. rewrite nth_error_app2, Nat.sub_diag by lia. cbn.
  eexists. split; reflexivity. Qed.

(* ---------- the invariant is established and preserved ---------- *)
Lemma acct_init f : acct (init f).
Proof. constructor; cbn; try (constructor; fail).
  - intros k o [[]|[]].
  - intros o c H. destruct o; discriminate.
  - intros o c H. destruct o; discriminate.
  - discriminate. Qed.

(* steps that move no sender: same queues and maps, same driver status, op records changed only in caller-side fields *)
Lemma acct_same_senders s s' : acct s -> keyed s' ->
  opq s' = opq s -> rmap s' = rmap s -> smap s' = smap s -> drv s' = drv s ->
  (forall o c', getop s' o = Some c' -> exists c, getop s o = Some c /\ o_mid c = o_mid c' /\ o_reply c = o_reply c' /\ o_chan c = o_chan c' /\ o_kind c = o_kind c') ->
  acct s'.
Proof.
  intros A HK Eq Er Es Ed Hops. assert (Erun : is_running s' = is_running s) by (unfold is_running; now rewrite Ed).
  constructor; try assumption.
  - rewrite Er. apply A. - rewrite Es. apply A.
  - intros o c' Hc' He. destruct (Hops _ _ Hc') as (c & Hc & M & R & _). rewrite <- R in He.
    destruct (a_reply s A o c Hc He) as [Hr Hs]. rewrite Erun. split; [assumption|].
    unfold sender_of_reply in *. now rewrite Eq, Er, <- M.
  - intros o c' Hc' He. destruct (Hops _ _ Hc') as (c & Hc & M & _ & Ch & K). rewrite <- Ch in He.
    destruct (a_chan s A o c Hc He) as (Hr & Hs & Hk). rewrite Erun. split; [assumption|]. split.
    + unfold sender_of_chan in *. now rewrite Eq, Es, <- M.
    + unfold is_search in *. now rewrite <- K.
  - rewrite Erun, Eq, Er, Es. apply A.
Qed.

(* an update of one op record by a caller-side function *)
Definition caller_side (f : cop -> cop) : Prop :=
  forall c, o_mid (f c) = o_mid c /\ o_reply (f c) = o_reply c /\ o_chan (f c) = o_chan c /\ o_kind (f c) = o_kind c.
Lemma ops_of_updop o f s o' c' : caller_side f -> getop (updop o f s) o' = Some c' ->
  exists c, getop s o' = Some c /\ o_mid c = o_mid c' /\ o_reply c = o_reply c' /\ o_chan c = o_chan c' /\ o_kind c = o_kind c'.
Proof. intros Hf H. rewrite getop_updop in H. destruct (Nat.eqb o' o).
  - destruct (getop s o') as [c|]; [|discriminate]. cbn in H. injection H as <-. exists c. destruct (Hf c) as (M & R & Ch & K). now repeat split.
  - exists c'. now repeat split. Qed.

Ltac use_updop H :=
  match type of H with
  | getop ?x ?o' = Some ?c' =>
      match x with context [updop ?o ?F ?s] =>
        change (getop (updop o F s) o' = Some c') in H; apply (ops_of_updop o F s o' c'); [intros ?; repeat split | exact H] end end.

Lemma acct_client s e : acct s ->
  (match e with ServerSend _ | CliPoll _ | StreamNext _ | StreamFinish _ | Advance _ | ViaHandle _ | DropCall _ => True | _ => False end) -> acct (step s e).
Proof.
  intros A He. pose proof (step_keyed s e (a_keyed s A)) as HK.
  destruct e as [k tmo| | | |how|r|o|o|o|dt|o|o|k tmo|o]; try contradiction; clear He.
  - (* ServerSend *) apply (acct_same_senders s _ A HK); try reflexivity. intros o c' H. exists c'. now repeat split.
  - (* CliPoll *) revert HK. unfold step. destruct (getop s o) as [c|] eqn:Ec; [|intros; exact A].
    destruct (waiting c); cbn [negb]; [|intros; exact A].
    destruct (o_reply c); [destruct (o_deadline c) as [d|]; [destruct (d <=? now s); [destruct (is_running s)|]|]| |]; intros HK;
      try exact A; apply (acct_same_senders s _ A HK); try reflexivity; intros o' c' H;
      use_updop H.
  - (* StreamNext *) revert HK. unfold step. destruct (getop s o) as [c|] eqn:Ec; [|intros; exact A].
    destruct (o_status c); try (intros; exact A).
    destruct (o_rx c); cbn [negb].
    + destruct (nth_error (o_items c) (o_taken c)) as [r|].
      * destruct (r_kind r); try destruct (o_kind c) as [|[|]| |]; intros HK; apply (acct_same_senders s _ A HK); try reflexivity; intros o' c' H;
          use_updop H.
      * destruct (o_chan c); cbn [negb].
        -- destruct (o_tmo c) as [d|]; [match goal with |- context [if ?b then _ else _] => destruct b end; [destruct (is_running s)|]|];
             intros HK; apply (acct_same_senders s _ A HK); try reflexivity; intros o' c' H;
             use_updop H.
        -- intros HK; apply (acct_same_senders s _ A HK); try reflexivity; intros o' c' H;
             use_updop H.
    + intros HK; apply (acct_same_senders s _ A HK); try reflexivity; intros o' c' H;
        use_updop H.
  - (* StreamFinish *) revert HK. unfold step. destruct (getop s o) as [c|] eqn:Ec; [|intros; exact A].
    destruct (o_status c); try (intros; exact A); try destruct (fix20 (fx s)); destruct (is_running s); intros HK;
      apply (acct_same_senders s _ A HK); try reflexivity; intros o' c' H;
      use_updop H.
  - (* Advance *) apply (acct_same_senders s _ A HK); try reflexivity. intros o c' H. exists c'. now repeat split.
  - (* ViaHandle *) apply (acct_same_senders s _ A HK); try reflexivity. intros o' c' H. exists c'. now repeat split.
  - (* DropCall *) revert HK. unfold step. destruct (getop s o) as [c|] eqn:Ec; [|intros; exact A]. destruct (o_status c); try (intros; exact A).
    intros HK; apply (acct_same_senders s _ A HK); try reflexivity; intros o' c' H; use_updop H.
Qed.

(* ---------- driver actions: the invariant with one operation's sender "in transit" ---------- *)
Definition exempt (x : option nat) (o : nat) : Prop := x = Some o.
Record acctx (xr xc : option nat) (s : st) : Prop := {
  x_keyed : keyed s;
  x_ur : ukeys (rmap s); x_us : ukeys (smap s);
  x_reply : forall o c, getop s o = Some c -> o_reply c = OsEmpty -> exempt xr o \/ (is_running s = true /\ sender_of_reply s o c);
  x_chan : forall o c, getop s o = Some c -> o_chan c = true -> is_search c /\ (exempt xc o \/ (is_running s = true /\ sender_of_chan s o c));
  x_stopped : is_running s = false -> opq s = [] /\ rmap s = [] /\ smap s = [] }.

Lemma acct_acctx s : acct s -> acctx None None s.
Proof. intros A. constructor; try apply A.
  - intros o c H E. right. now apply (a_reply s A).
  - intros o c H E. destruct (a_chan s A o c H E) as (R & S & K). split; [assumption|right; now split]. Qed.
Lemma acctx_acct s : acctx None None s -> acct s.
Proof. intros X. constructor; try apply X.
  - intros o c H E. destruct (x_reply _ _ s X o c H E) as [Ex|R]; [discriminate Ex|exact R].
  - intros o c H E. destruct (x_chan _ _ s X o c H E) as (K & [Ex|[R S]]); [discriminate Ex|now repeat split]. Qed.

(* fields acct does not look at may change freely *)
Lemma acctx_irrelevant xr xc s s' : acctx xr xc s -> ops s' = ops s -> opq s' = opq s -> rmap s' = rmap s -> smap s' = smap s -> drv s' = drv s -> acctx xr xc s'.
Proof.
  intros X Eo Eq Er Es Ed. assert (Erun : is_running s' = is_running s) by (unfold is_running; now rewrite Ed).
  assert (Eg : forall o, getop s' o = getop s o) by (intros; unfold getop; now rewrite Eo).
  constructor.
  - intros k o H. rewrite Er, Es in H. destruct (x_keyed _ _ s X k o H) as (c & Hc & M). exists c. now rewrite Eg.
  - rewrite Er. apply X. - rewrite Es. apply X.
  - intros o c H E. rewrite Eg in H. destruct (x_reply _ _ s X o c H E) as [Ex|[R S]]; [now left|right]. rewrite Erun. split; [assumption|].
    unfold sender_of_reply in *. now rewrite Eq, Er.
  - intros o c H E. rewrite Eg in H. destruct (x_chan _ _ s X o c H E) as (K & [Ex|[R S]]); (split; [assumption|]); [now left|right].
    rewrite Erun. split; [assumption|]. unfold sender_of_chan in *. now rewrite Eq, Es.
  - rewrite Erun, Eq, Er, Es. apply X.
Qed.

(* take the head of the op queue: its senders are now in the driver's hands *)
Lemma acctx_pop s o q : acct s -> is_running s = true -> opq s = o :: q -> acctx (Some o) (Some o) (s <| opq := q |>).
Proof.
  intros A Hr Hq. constructor; try apply A.
  - intros o' c H E. change (getop s o' = Some c) in H. destruct (a_reply s A o' c H E) as [_ [Hin|Hin]].
    + rewrite Hq in Hin. destruct Hin as [<-|Hin]; [now left|right]. split; [exact Hr|now left].
    + right. split; [exact Hr|now right].
  - intros o' c H E. change (getop s o' = Some c) in H. destruct (a_chan s A o' c H E) as (_ & [Hin|Hin] & K); (split; [exact K|]).
    + rewrite Hq in Hin. destruct Hin as [<-|Hin]; [now left|right]. split; [exact Hr|now left].
    + right. split; [exact Hr|now right].
  - intros H. change (is_running s = false) in H. congruence.
Qed.

(* an update of op o that settles its one-shot (filled or closed) and touches nothing else that matters *)
Definition settles_reply (g : cop -> cop) : Prop :=
  forall c, o_mid (g c) = o_mid c /\ o_kind (g c) = o_kind c /\ o_chan (g c) = o_chan c /\ o_reply (g c) <> OsEmpty.
Definition closes_chan (g : cop -> cop) : Prop :=
  forall c, o_mid (g c) = o_mid c /\ o_kind (g c) = o_kind c /\ o_chan (g c) = false /\ (o_reply (g c) = OsEmpty -> o_reply c = OsEmpty).

Lemma settles_drop_reply : settles_reply drop_reply.
Proof. intros c. unfold drop_reply. destruct (o_reply c) eqn:E; cbn; repeat split; congruence. Qed.
Lemma settles_fill p : settles_reply (fill_reply p).
Proof. intros c. unfold fill_reply. destruct (o_reply c) eqn:E; [destruct (waiting c)|..]; cbn; repeat split; congruence. Qed.
Lemma closes_close_chan : closes_chan close_chan.
Proof. intros c. cbn. repeat split; auto. Qed.

Lemma keyed_updop s o g : keyed s -> (forall c, o_mid (g c) = o_mid c) -> keyed (updop o g s).
Proof. intros HK Hg k o' H. change (In (k, o') (rmap s) \/ In (k, o') (smap s)) in H. destruct (HK k o' H) as (c & Hc & M).
  rewrite getop_updop. destruct (Nat.eqb o' o); [|now exists c]. rewrite Hc. cbn. exists (g c). split; [reflexivity|now rewrite Hg]. Qed.

Lemma acctx_settle s o g xc : acctx (Some o) xc s -> settles_reply g -> acctx None xc (updop o g s).
Proof.
  intros X Hg. constructor; try apply X.
  - apply keyed_updop; [apply X|]. intros c. apply Hg.
  - intros o' c' H E. rewrite getop_updop in H. destruct (Nat.eqb_spec o' o) as [->|Hne].
    + destruct (getop s o) as [c|]; [|discriminate]. cbn in H. injection H as <-. destruct (Hg c) as (_ & _ & _ & Hn). congruence.
    + destruct (x_reply _ _ s X o' c' H E) as [Ex|R]; [injection Ex as ->; congruence|now right].
  - intros o' c' H E. rewrite getop_updop in H. destruct (Nat.eqb_spec o' o) as [->|Hne].
    + destruct (getop s o) as [c|] eqn:Hc; [|discriminate]. cbn in H. injection H as <-. destruct (Hg c) as (M & K & Ch & _).
      rewrite Ch in E. destruct (x_chan _ _ s X o c Hc E) as (Ks & Hs). split; [unfold is_search in *; now rewrite K|].
      destruct Hs as [Ex|[R S]]; [now left|right]. split; [exact R|]. unfold sender_of_chan in *. now rewrite M.
    + exact (x_chan _ _ s X o' c' H E).
Qed.

Lemma is_running_drop_entry m k f x : is_running (drop_entry m k f x) = is_running x.
Proof. unfold is_running. now rewrite drv_drop_entry. Qed.
Lemma opq_drop_entry m k f x : opq (drop_entry m k f x) = opq x.
Proof. unfold drop_entry. now destruct (alookup k m). Qed.

(* remove key k from the result map, settling the one-shot of whoever held it *)
Lemma acctx_rm_r xr xc s k g : acctx xr xc s -> settles_reply g -> acctx xr xc (drop_entry (rmap s) k g s <| rmap ::= aremove k |>).
Proof.
  intros X Hg. set (s1 := drop_entry (rmap s) k g s).
  assert (G : forall o', getop s1 o' = match alookup k (rmap s) with Some o => if Nat.eqb o' o then option_map g (getop s o') else getop s o' | None => getop s o' end)
    by (intros; apply getop_drop_entry).
  constructor.
  - intros k' o' H. cbn [rmap smap set] in H. unfold s1 in H. rewrite rmap_drop_entry, smap_drop_entry in H.
    assert (H' : In (k', o') (rmap s) \/ In (k', o') (smap s)) by (destruct H as [H|H]; [left; now apply In_aremove in H|now right]).
    destruct (x_keyed _ _ s X k' o' H') as (c & Hc & M). change (exists c0, getop s1 o' = Some c0 /\ o_mid c0 = k'). rewrite G.
    destruct (alookup k (rmap s)) as [o|]; [|now exists c]. destruct (Nat.eqb o' o); [|now exists c].
    rewrite Hc. cbn. exists (g c). split; [reflexivity|]. destruct (Hg c) as (Mg & _). now rewrite Mg.
  - cbn [rmap set]. unfold s1. rewrite rmap_drop_entry. apply ukeys_aremove, X.
  - cbn [smap set]. unfold s1. rewrite smap_drop_entry. apply X.
  - intros o' c' H E. change (getop s1 o' = Some c') in H. rewrite G in H.
    assert (Hold : getop s o' = Some c' /\ alookup k (rmap s) <> Some o').
    { destruct (alookup k (rmap s)) as [o|] eqn:Ea; [|split; [assumption|discriminate]].
      destruct (Nat.eqb_spec o' o) as [->|Hne]; [|split; [assumption|congruence]].
      destruct (getop s o) as [c|]; [|discriminate]. cbn in H. injection H as <-. destruct (Hg c) as (_ & _ & _ & Hn). congruence. }
    destruct Hold as [Hc Hnk]. destruct (x_reply _ _ s X o' c' Hc E) as [Ex|[R [Sq|Sr]]]; [now left|right|right].
    + split; [change (is_running s1 = true); unfold s1; now rewrite is_running_drop_entry|]. left.
      change (In o' (opq s1)). unfold s1. now rewrite opq_drop_entry.
    + split; [change (is_running s1 = true); unfold s1; now rewrite is_running_drop_entry|]. right.
      cbn [rmap set]. unfold s1. rewrite rmap_drop_entry. apply In_aremove_iff. split; [assumption|]. cbn. intros Ek. apply Hnk.
      apply alookup_unique; [apply X|now rewrite <- Ek].
  - intros o' c' H E. change (getop s1 o' = Some c') in H. rewrite G in H.
    assert (Hold : exists c, getop s o' = Some c /\ o_mid c = o_mid c' /\ o_kind c = o_kind c' /\ o_chan c = true).
    { destruct (alookup k (rmap s)) as [o|]; [|exists c'; now repeat split].
      destruct (Nat.eqb o' o); [|exists c'; now repeat split].
      destruct (getop s o') as [c|]; [|discriminate]. cbn in H. injection H as <-. destruct (Hg c) as (Mg & Kg & Cg & _).
      exists c. repeat split; try congruence. }
    destruct Hold as (c & Hc & M & K & Ch). destruct (x_chan _ _ s X o' c Hc Ch) as (Ks & Hs).
    split; [unfold is_search in *; now rewrite <- K|]. destruct Hs as [Ex|[R S]]; [now left|right].
    split; [change (is_running s1 = true); unfold s1; now rewrite is_running_drop_entry|].
    unfold sender_of_chan in *. cbn [opq smap set]. unfold s1. rewrite opq_drop_entry, smap_drop_entry. now rewrite <- M.
  - intros Hr. change (is_running s1 = false) in Hr. unfold s1 in Hr. rewrite is_running_drop_entry in Hr.
    destruct (x_stopped _ _ s X Hr) as (Eq & Er & Es). cbn [opq rmap smap set]. unfold s1.
    rewrite opq_drop_entry, rmap_drop_entry, smap_drop_entry, Eq, Er, Es. now repeat split.
Qed.

(* the same for the search map and the item channel *)
Lemma acctx_rm_s xr xc s k g : acctx xr xc s -> closes_chan g -> acctx xr xc (drop_entry (smap s) k g s <| smap ::= aremove k |>).
Proof.
  intros X Hg. set (s1 := drop_entry (smap s) k g s).
  assert (G : forall o', getop s1 o' = match alookup k (smap s) with Some o => if Nat.eqb o' o then option_map g (getop s o') else getop s o' | None => getop s o' end)
    by (intros; apply getop_drop_entry).
  constructor.
  - intros k' o' H. cbn [rmap smap set] in H. unfold s1 in H. rewrite rmap_drop_entry, smap_drop_entry in H.
    assert (H' : In (k', o') (rmap s) \/ In (k', o') (smap s)) by (destruct H as [H|H]; [now left|right; now apply In_aremove in H]).
    destruct (x_keyed _ _ s X k' o' H') as (c & Hc & M). change (exists c0, getop s1 o' = Some c0 /\ o_mid c0 = k'). rewrite G.
    destruct (alookup k (smap s)) as [o|]; [|now exists c]. destruct (Nat.eqb o' o); [|now exists c].
    rewrite Hc. cbn. exists (g c). split; [reflexivity|]. destruct (Hg c) as (Mg & _). now rewrite Mg.
  - cbn [rmap set]. unfold s1. rewrite rmap_drop_entry. apply X.
  - cbn [smap set]. unfold s1. rewrite smap_drop_entry. apply ukeys_aremove, X.
  - intros o' c' H E. change (getop s1 o' = Some c') in H. rewrite G in H.
    assert (Hold : exists c, getop s o' = Some c /\ o_mid c = o_mid c' /\ o_reply c = OsEmpty).
    { destruct (alookup k (smap s)) as [o|]; [|exists c'; now repeat split].
      destruct (Nat.eqb o' o); [|exists c'; now repeat split].
      destruct (getop s o') as [c|]; [|discriminate]. cbn in H. injection H as <-. destruct (Hg c) as (Mg & _ & _ & Rg).
      exists c. repeat split; [congruence|now apply Rg]. }
    destruct Hold as (c & Hc & M & R). destruct (x_reply _ _ s X o' c Hc R) as [Ex|[Rr S]]; [now left|right].
    split; [change (is_running s1 = true); unfold s1; now rewrite is_running_drop_entry|].
    unfold sender_of_reply in *. cbn [opq rmap set]. unfold s1. rewrite opq_drop_entry, rmap_drop_entry. now rewrite <- M.
  - intros o' c' H E. change (getop s1 o' = Some c') in H. rewrite G in H.
    assert (Hold : getop s o' = Some c' /\ alookup k (smap s) <> Some o').
    { destruct (alookup k (smap s)) as [o|] eqn:Ea; [|split; [assumption|discriminate]].
      destruct (Nat.eqb_spec o' o) as [->|Hne]; [|split; [assumption|congruence]].
      destruct (getop s o) as [c|]; [|discriminate]. cbn in H. injection H as <-. destruct (Hg c) as (_ & _ & Cg & _). congruence. }
    destruct Hold as [Hc Hnk]. destruct (x_chan _ _ s X o' c' Hc E) as (K & Hs). split; [exact K|].
    destruct Hs as [Ex|[R [Sq|Sr]]]; [now left|right|right].
    + split; [change (is_running s1 = true); unfold s1; now rewrite is_running_drop_entry|]. left.
      change (In o' (opq s1)). unfold s1. now rewrite opq_drop_entry.
    + split; [change (is_running s1 = true); unfold s1; now rewrite is_running_drop_entry|]. right.
      cbn [smap set]. unfold s1. rewrite smap_drop_entry. apply In_aremove_iff. split; [assumption|]. cbn. intros Ek. apply Hnk.
      apply alookup_unique; [apply X|now rewrite <- Ek].
  - intros Hr. change (is_running s1 = false) in Hr. unfold s1 in Hr. rewrite is_running_drop_entry in Hr.
    destruct (x_stopped _ _ s X Hr) as (Eq & Er & Es). cbn [opq rmap smap set]. unfold s1.
    rewrite opq_drop_entry, rmap_drop_entry, smap_drop_entry, Eq, Er, Es. now repeat split.
Qed.

Lemma not_key_aremove k m : ~ In k (map fst (aremove k m)).
Proof. intros H. apply in_map_iff in H as ([k' o] & E & Hin). cbn in E. subst. apply In_aremove_iff in Hin as [_ Hne]. now apply Hne. Qed.

(* hand the one-shot sender to the result map *)
Lemma acctx_cons_r xc s o c : acctx (Some o) xc s -> getop s o = Some c -> is_running s = true ->
  ~ In (o_mid c) (map fst (rmap s)) -> acctx None xc (s <| rmap ::= cons (o_mid c, o) |>).
Proof.
  intros X Hc Hr Hk. constructor.
  - intros k o' H. cbn [rmap smap set] in H. change (exists c0, getop s o' = Some c0 /\ o_mid c0 = k).
    destruct H as [[[= <- <-]|H]|H]; [now exists c|apply (x_keyed _ _ s X); now left|apply (x_keyed _ _ s X); now right].
  - cbn [rmap set]. constructor; [exact Hk|apply X].
  - apply X.
  - intros o' c' H E. change (getop s o' = Some c') in H. right. split; [exact Hr|].
    destruct (x_reply _ _ s X o' c' H E) as [Ex|[_ [Sq|Sr]]].
    + injection Ex as ->. rewrite Hc in H. injection H as <-. right. cbn [rmap set]. now left.
    + now left.
    + right. cbn [rmap set]. now right.
  - intros o' c' H E. change (getop s o' = Some c') in H. exact (x_chan _ _ s X o' c' H E).
  - intros H. change (is_running s = false) in H. congruence.
Qed.
Lemma acctx_cons_s xr s o c : acctx xr (Some o) s -> getop s o = Some c -> is_running s = true ->
  ~ In (o_mid c) (map fst (smap s)) -> acctx xr None (s <| smap ::= cons (o_mid c, o) |>).
Proof.
  intros X Hc Hr Hk. constructor.
  - intros k o' H. cbn [rmap smap set] in H. change (exists c0, getop s o' = Some c0 /\ o_mid c0 = k).
    destruct H as [H|[[= <- <-]|H]]; [apply (x_keyed _ _ s X); now left|now exists c|apply (x_keyed _ _ s X); now right].
  - apply X.
  - cbn [smap set]. constructor; [exact Hk|apply X].
  - intros o' c' H E. change (getop s o' = Some c') in H. exact (x_reply _ _ s X o' c' H E).
  - intros o' c' H E. change (getop s o' = Some c') in H. destruct (x_chan _ _ s X o' c' H E) as (K & Hs). split; [exact K|]. right. split; [exact Hr|].
    destruct Hs as [Ex|[_ [Sq|Sr]]].
    + injection Ex as ->. rewrite Hc in H. injection H as <-. right. cbn [smap set]. now left.
    + now left.
    + right. cbn [smap set]. now right.
  - intros H. change (is_running s = false) in H. congruence.
Qed.

(* the exemption can be dropped when there is nothing left to account for *)
Lemma acctx_drop_xc xr s o c : acctx xr (Some o) s -> getop s o = Some c -> (o_chan c = false \/ ~ is_search c) -> acctx xr None s.
Proof. intros X Hc Hn. constructor; try apply X. intros o' c' H E. destruct (x_chan _ _ s X o' c' H E) as (K & [Ex|S]); (split; [exact K|]); [|now right].
  injection Ex as ->. rewrite Hc in H. injection H as <-. destruct Hn as [Hn|Hn]; [congruence|contradiction]. Qed.
Lemma acctx_drop_xr xc s o c : acctx (Some o) xc s -> getop s o = Some c -> o_reply c <> OsEmpty -> acctx None xc s.
Proof. intros X Hc Hn. constructor; try apply X. intros o' c' H E. destruct (x_reply _ _ s X o' c' H E) as [Ex|S]; [|now right].
  injection Ex as ->. rewrite Hc in H. injection H as <-. congruence. Qed.
Lemma acctx_close s o g xr : acctx xr (Some o) s -> closes_chan g -> acctx xr None (updop o g s).
Proof.
  intros X Hg. constructor; try apply X.
  - apply keyed_updop; [apply X|]. intros c. apply Hg.
  - intros o' c' H E. rewrite getop_updop in H. destruct (Nat.eqb_spec o' o) as [->|Hne].
    + destruct (getop s o) as [c|] eqn:Hc; [|discriminate]. cbn in H. injection H as <-. destruct (Hg c) as (M & K & _ & Rg).
      destruct (x_reply _ _ s X o c Hc (Rg E)) as [Ex|[R S]]; [now left|right]. split; [exact R|]. unfold sender_of_reply in *. now rewrite M.
    + exact (x_reply _ _ s X o' c' H E).
  - intros o' c' H E. rewrite getop_updop in H. destruct (Nat.eqb_spec o' o) as [->|Hne].
    + destruct (getop s o) as [c|]; [|discriminate]. cbn in H. injection H as <-. destruct (Hg c) as (_ & _ & Cg & _). congruence.
    + destruct (x_chan _ _ s X o' c' H E) as (K & [Ex|S]); (split; [exact K|]); [injection Ex as ->; congruence|now right].
Qed.
(* weakening: an exemption that is not needed *)
Lemma acctx_weaken_xc xr s o : acctx xr None s -> acctx xr (Some o) s.
Proof. intros X. constructor; try apply X. intros o' c' H E. destruct (x_chan _ _ s X o' c' H E) as (K & [Ex|S]); [discriminate Ex|]. split; [exact K|now right]. Qed.

(* ---------- assembling the driver events ---------- *)
Lemma drop_entry_found m k f x o : alookup k m = Some o -> drop_entry m k f x = updop o f x.
Proof. unfold drop_entry. now intros ->. Qed.

Lemma acctx_caller_side xr xc s o f : acctx xr xc s -> caller_side f -> acctx xr xc (updop o f s).
Proof.
  intros X Hf. constructor; try apply X.
  - apply keyed_updop; [apply X|]. intros c. apply Hf.
  - intros o' c' H E. destruct (ops_of_updop o f s o' c' Hf H) as (c & Hc & M & R & _). rewrite <- R in E.
    destruct (x_reply _ _ s X o' c Hc E) as [Ex|[Rr S]]; [now left|right]. split; [exact Rr|]. unfold sender_of_reply in *. now rewrite <- M.
  - intros o' c' H E. destruct (ops_of_updop o f s o' c' Hf H) as (c & Hc & M & _ & Ch & K). rewrite <- Ch in E.
    destruct (x_chan _ _ s X o' c Hc E) as (Ks & Hs). split; [unfold is_search in *; now rewrite <- K|].
    destruct Hs as [Ex|[Rr S]]; [now left|right]. split; [exact Rr|]. unfold sender_of_chan in *. now rewrite <- M.
Qed.

Lemma acct_scrub s : acct s -> acct (step s DrvScrub).
Proof.
  intros A. unfold step. destruct (is_running s) eqn:Hr; cbn [negb]; [|exact A]. destruct (scrubq s) as [|id q]; [exact A|].
  set (s1 := drop_entry (rmap s) id drop_reply s <| rmap ::= aremove id |>).
  set (s2 := drop_entry (smap s1) id close_chan s1 <| smap ::= aremove id |>).
  apply acctx_acct. apply (acctx_irrelevant None None s2); [|reflexivity..].
  unfold s2. apply acctx_rm_s; [|apply closes_close_chan]. unfold s1. apply acctx_rm_r; [|apply settles_drop_reply]. now apply acct_acctx.
Qed.

(* ending the driver: every sender it held is dropped *)
Lemma fold_updop_other {A} (h : A -> nat) g l : forall s o, ~ In o (map h l) -> getop (fold_left (fun s a => updop (h a) g s) l s) o = getop s o.
Proof. induction l as [|a l IH]; intros s o Hn; cbn; [reflexivity|]. rewrite IH by (intros H; apply Hn; now right).
  rewrite getop_updop. destruct (Nat.eqb_spec o (h a)) as [->|]; [exfalso; apply Hn; now left|reflexivity]. Qed.
Lemma fold_updop_hit {A} (h : A -> nat) g l : (forall c, g (g c) = g c) -> forall s o, In o (map h l) ->
  getop (fold_left (fun s a => updop (h a) g s) l s) o = option_map g (getop s o).
Proof. intros Hg. induction l as [|a l IH]; intros s o Hin; cbn; [destruct Hin|].
  destruct (in_dec Nat.eq_dec o (map h l)) as [Hl|Hl].
  - rewrite IH by assumption. rewrite getop_updop. destruct (Nat.eqb o (h a)); [|reflexivity]. destruct (getop s o); cbn; [now rewrite Hg|reflexivity].
  - rewrite fold_updop_other by assumption. destruct Hin as [<-|Hin]; [|contradiction]. rewrite getop_updop, Nat.eqb_refl. reflexivity. Qed.
Lemma fold_updop_fields {A} (h : A -> nat) g l : forall s,
  let s' := fold_left (fun s a => updop (h a) g s) l s in
  opq s' = opq s /\ rmap s' = rmap s /\ smap s' = smap s /\ drv s' = drv s.
Proof. induction l as [|a l IH]; intros s; cbn; [now repeat split|]. destruct (IH (updop (h a) g s)) as (E1 & E2 & E3 & E4). now repeat split. Qed.

Lemma acct_end_driver how s : acct s -> how <> Running -> acct (end_driver how s).
Proof.
  intros A Hh. unfold end_driver.
  set (s1 := fold_left (fun (s : st) (p : Z * nat) => updop (snd p) drop_reply s) (rmap s) s).
  set (s2 := fold_left (fun (s : st) (p : Z * nat) => updop (snd p) close_chan s) (smap s1) s1).
  set (s3 := fold_left (fun (s : st) (o : nat) => updop o (fun c => close_chan (drop_reply c)) s) (opq s2) s2).
  destruct (fold_updop_fields (@snd Z nat) drop_reply (rmap s) s) as (Q1 & R1 & S1 & D1). fold s1 in Q1, R1, S1, D1.
  destruct (fold_updop_fields (@snd Z nat) close_chan (smap s1) s1) as (Q2 & R2 & S2 & D2). fold s2 in Q2, R2, S2, D2.
  assert (Idr : forall c, drop_reply (drop_reply c) = drop_reply c) by (intros c; unfold drop_reply; destruct (o_reply c) eqn:E; cbn; rewrite ?E; reflexivity).
  assert (Icc : forall c, close_chan (close_chan c) = close_chan c) by reflexivity.
  assert (Icd : forall c, close_chan (drop_reply (close_chan (drop_reply c))) = close_chan (drop_reply c)).
  { intros c. unfold drop_reply, close_chan. destruct (o_reply c) eqn:E; cbn; rewrite ?E; reflexivity. }
  (* every op record of the final state: settled one-shot, closed channel *)
  assert (Fin : forall o c', getop s3 o = Some c' -> o_reply c' <> OsEmpty /\ o_chan c' = false).
  { intros o c' H.
    (* peel the three folds *)
    assert (H3 : exists c2, getop s2 o = Some c2 /\ (c' = c2 /\ ~ In o (opq s2) \/ c' = close_chan (drop_reply c2) /\ In o (opq s2))).
    { unfold s3 in H. destruct (in_dec Nat.eq_dec o (map (fun x => x) (opq s2))) as [Hi|Hi].
      - rewrite (fold_updop_hit (fun x : nat => x) _ (opq s2) Icd s2 o Hi) in H. destruct (getop s2 o) as [c2|]; [|discriminate]. cbn in H. injection H as <-.
        exists c2. split; [reflexivity|right]. rewrite map_id in Hi. now split.
      - rewrite (fold_updop_other (fun x : nat => x) _ (opq s2) s2 o Hi) in H. exists c'. split; [assumption|left]. rewrite map_id in Hi. now split. }
    destruct H3 as (c2 & H2 & Hc2).
    assert (H2' : exists c1, getop s1 o = Some c1 /\ (c2 = c1 /\ ~ In o (map snd (smap s1)) \/ c2 = close_chan c1 /\ In o (map snd (smap s1)))).
    { unfold s2 in H2. destruct (in_dec Nat.eq_dec o (map snd (smap s1))) as [Hi|Hi].
      - rewrite (fold_updop_hit (@snd Z nat) _ (smap s1) Icc s1 o Hi) in H2. destruct (getop s1 o) as [c1|]; [|discriminate]. cbn in H2. injection H2 as <-.
        exists c1. split; [reflexivity|now right].
      - rewrite (fold_updop_other (@snd Z nat) _ (smap s1) s1 o Hi) in H2. exists c2. split; [assumption|now left]. }
    destruct H2' as (c1 & H1 & Hc1).
    assert (H1' : exists c0, getop s o = Some c0 /\ (c1 = c0 /\ ~ In o (map snd (rmap s)) \/ c1 = drop_reply c0 /\ In o (map snd (rmap s)))).
    { unfold s1 in H1. destruct (in_dec Nat.eq_dec o (map snd (rmap s))) as [Hi|Hi].
      - rewrite (fold_updop_hit (@snd Z nat) _ (rmap s) Idr s o Hi) in H1. destruct (getop s o) as [c0|]; [|discriminate]. cbn in H1. injection H1 as <-.
        exists c0. split; [reflexivity|now right].
      - rewrite (fold_updop_other (@snd Z nat) _ (rmap s) s o Hi) in H1. exists c1. split; [assumption|now left]. }
    destruct H1' as (c0 & H0 & Hc0).
    rewrite Q2, Q1 in Hc2. rewrite S1 in Hc1.
    assert (Sd : forall c, o_reply (drop_reply c) <> OsEmpty) by (intros c; apply settles_drop_reply).
    split.
    - (* one-shot *) intros E.
      assert (E0 : o_reply c0 = OsEmpty).
      { destruct Hc2 as [[-> _]|[-> _]]; [|cbn in E; now apply Sd in E].
        destruct Hc1 as [[-> _]|[-> _]]; destruct Hc0 as [[-> _]|[-> _]]; cbn in E; try assumption; now apply Sd in E. }
      destruct (a_reply s A o c0 H0 E0) as [_ [Hq|Hr]].
      + destruct Hc2 as [[_ Hn]|[-> _]]; [contradiction|]. cbn in E. now apply Sd in E.
      + assert (Hi : In o (map snd (rmap s))) by (change o with (snd (o_mid c0, o)); now apply in_map).
        destruct Hc0 as [[_ Hn]|[-> _]]; [contradiction|].
        destruct Hc2 as [[-> _]|[-> _]]; [|cbn in E; now apply Sd in E].
        destruct Hc1 as [[-> _]|[-> _]]; cbn in E; now apply Sd in E.
    - (* channel *) destruct (o_chan c') eqn:E; [exfalso|reflexivity].
      assert (E0 : o_chan c0 = true).
      { destruct Hc2 as [[-> _]|[-> _]]; [|discriminate E].
        destruct Hc1 as [[-> _]|[-> _]]; [|discriminate E]. destruct Hc0 as [[-> _]|[-> _]]; [assumption|].
        unfold drop_reply in E. destruct (o_reply c0); exact E. }
      destruct (a_chan s A o c0 H0 E0) as (_ & [Hq|Hs] & _).
      + destruct Hc2 as [[_ Hn]|[-> _]]; [contradiction|discriminate E].
      + assert (Hi : In o (map snd (smap s))) by (change o with (snd (o_mid c0, o)); now apply in_map).
        destruct Hc1 as [[_ Hn]|[-> _]]; [contradiction|]. destruct Hc2 as [[-> _]|[-> _]]; discriminate E. }
  assert (Hnr : is_running (s3 <| rmap := [] |> <| smap := [] |> <| opq := [] |> <| scrubq := [] |> <| drv := how |>) = false)
    by (unfold is_running; cbn; destruct how; [congruence|reflexivity..]).
  constructor.
  - intros k o [[]|[]].
  - constructor. - constructor.
  - intros o c' H E. change (getop s3 o = Some c') in H. destruct (Fin o c' H) as [Hn _]. congruence.
  - intros o c' H E. change (getop s3 o = Some c') in H. destruct (Fin o c' H) as [_ Hn]. congruence.
  - intros _. now repeat split.
Qed.

Lemma acct_drvend s how : acct s -> how <> Running -> acct (step s (DrvEnd how)).
Proof. intros A Hh. unfold step. destruct (is_running s); [now apply acct_end_driver|exact A]. Qed.

Lemma acct_start s k tmo : acct s -> acct (step s (Start k tmo)).
Proof.
  intros A. pose proof (step_keyed s (Start k tmo) (a_keyed s A)) as HK. revert HK. unfold step.
  destruct (next_msgid (last s) (inuse s)) as [mid| |]; try (intros; exact A).
  set (onew := mkOp mid k (option_map (Z.add (now s)) tmo) CWait OsEmpty [] 0
                    (match k with KSearch _ => true | _ => false end) (match k with KSearch _ => true | _ => false end) [] None tmo None).
  destruct (is_running s) eqn:Hr; intros HK.
  - (* queued *)
    assert (G : forall o, getop (s <| last := mid |> <| inuse ::= cons mid |> <| ops ::= fun l => l ++ [onew] |> <| opq ::= fun q => q ++ [length (ops s)] |>) o =
                          if Nat.ltb o (length (ops s)) then getop s o else if Nat.eqb o (length (ops s)) then Some onew else None).
    { intros o. unfold getop. cbn [ops set]. destruct (Nat.ltb_spec o (length (ops s))); [now rewrite nth_error_app1|].
      rewrite nth_error_app2 by lia. destruct (Nat.eqb_spec o (length (ops s))) as [->|]; [now rewrite Nat.sub_diag|].
      destruct (o - length (ops s))%nat as [|[|m]] eqn:E; [lia|reflexivity|reflexivity]. }
    constructor; try assumption; try apply A.
    + intros o c H E. rewrite G in H. split; [exact Hr|]. unfold sender_of_reply. cbn [opq rmap set].
      destruct (Nat.ltb o (length (ops s))).
      * destruct (a_reply s A o c H E) as [_ [Hq|Hm]]; [left; apply in_or_app; now left|now right].
      * destruct (Nat.eqb_spec o (length (ops s))) as [->|]; [|discriminate]. left. apply in_or_app. right. now left.
    + intros o c H E. rewrite G in H. split; [exact Hr|]. unfold sender_of_chan. cbn [opq smap set].
      destruct (Nat.ltb o (length (ops s))).
      * destruct (a_chan s A o c H E) as (_ & [Hq|Hm] & K); (split; [|exact K]); [left; apply in_or_app; now left|now right].
      * destruct (Nat.eqb_spec o (length (ops s))) as [->|]; [|discriminate]. injection H as <-. cbn in E. split.
        -- left. apply in_or_app. right. now left.
        -- unfold is_search. cbn. destruct k; try discriminate. exact I.
    + intros H. change (is_running s = false) in H. congruence.
  - (* driver gone: the tuple comes back in the SendError and is dropped *)
    set (oerr := onew <| o_status := match k with KSearch _ => SStartErr EOpSend | _ => CErr EOpSend end |> <| o_reply := OsClosed |> <| o_rx := false |> <| o_chan := false |>).
    assert (G : forall o, getop (s <| last := mid |> <| inuse ::= cons mid |> <| ops ::= fun l => l ++ [oerr] |>) o =
                          if Nat.ltb o (length (ops s)) then getop s o else if Nat.eqb o (length (ops s)) then Some oerr else None).
    { intros o. unfold getop. cbn [ops set]. destruct (Nat.ltb_spec o (length (ops s))); [now rewrite nth_error_app1|].
      rewrite nth_error_app2 by lia. destruct (Nat.eqb_spec o (length (ops s))) as [->|]; [now rewrite Nat.sub_diag|].
      destruct (o - length (ops s))%nat as [|[|m]] eqn:E; [lia|reflexivity|reflexivity]. }
    constructor; try assumption; try apply A.
    + intros o c H E. change (getop (s <| last := mid |> <| inuse ::= cons mid |> <| ops ::= fun l => l ++ [oerr] |>) o = Some c) in H. rewrite G in H. destruct (Nat.ltb o (length (ops s))).
      * destruct (a_reply s A o c H E) as [R _]. congruence.
      * destruct (Nat.eqb o (length (ops s))); [|discriminate]. injection H as <-. discriminate E.
    + intros o c H E. change (getop (s <| last := mid |> <| inuse ::= cons mid |> <| ops ::= fun l => l ++ [oerr] |>) o = Some c) in H. rewrite G in H. destruct (Nat.ltb o (length (ops s))).
      * destruct (a_chan s A o c H E) as [R _]. congruence.
      * destruct (Nat.eqb o (length (ops s))); [|discriminate]. injection H as <-. discriminate E.
Qed.

(* the two halves of a start, for callers on several threads: an allocated record holds no sender yet ... *)
Lemma acct_alloc s k tmo : acct s -> acct (step s (Alloc k tmo)).
Proof.
  intros A. pose proof (step_keyed s (Alloc k tmo) (a_keyed s A)) as HK. revert HK. cbn [step]. unfold alloc.
  destruct (next_msgid (last s) (inuse s)) as [mid| |]; try (intros; exact A). intros HK.
  set (onew := mkOp mid k None CAlloc OsClosed [] 0 false false [] None tmo None).
  assert (G : forall o, getop (s <| last := mid |> <| inuse ::= cons mid |> <| ops ::= fun l => l ++ [onew] |>) o =
                        if Nat.ltb o (length (ops s)) then getop s o else if Nat.eqb o (length (ops s)) then Some onew else None).
  { intros o. unfold getop. cbn [ops set]. destruct (Nat.ltb_spec o (length (ops s))); [now rewrite nth_error_app1|].
    rewrite nth_error_app2 by lia. destruct (Nat.eqb_spec o (length (ops s))) as [->|]; [now rewrite Nat.sub_diag|].
    destruct (o - length (ops s))%nat as [|[|m]] eqn:E; [lia|reflexivity|reflexivity]. }
  constructor; try assumption; try apply A.
  + intros o c H E. rewrite G in H. destruct (Nat.ltb o (length (ops s))).
    * exact (a_reply s A o c H E).
    * destruct (Nat.eqb o (length (ops s))); [|discriminate]. injection H as <-. discriminate E.
  + intros o c H E. rewrite G in H. destruct (Nat.ltb o (length (ops s))).
    * exact (a_chan s A o c H E).
    * destruct (Nat.eqb o (length (ops s))); [|discriminate]. injection H as <-. discriminate E.
Qed.
(* ... and Enqueue creates them and puts them into the driver's queue (or fails at once if the driver is gone) *)
Lemma acct_enqueue s o : acct s -> acct (step s (Enqueue o)).
Proof.
  intros A. pose proof (step_keyed s (Enqueue o) (a_keyed s A)) as HK. revert HK. cbn [step]. unfold enqueue.
  destruct (getop s o) as [c|] eqn:Ec; [|intros; exact A].
  destruct (o_status c); try (intros; exact A).
  destruct (is_running s) eqn:Hr; intros HK.
  - constructor; try assumption; try apply A.
    + intros o' c' H E. match type of H with getop (set opq _ ?x) _ = _ => change (getop x o' = Some c') in H end.
      rewrite getop_updop in H. split; [exact Hr|]. unfold sender_of_reply. cbn [opq rmap set updop].
      destruct (Nat.eqb_spec o' o) as [->|Hne].
      * left. apply in_or_app. right. now left.
      * destruct (a_reply s A o' c' H E) as [_ [Hq|Hm]]; [left; apply in_or_app; now left|now right].
    + intros o' c' H E. match type of H with getop (set opq _ ?x) _ = _ => change (getop x o' = Some c') in H end.
      rewrite getop_updop in H. split; [exact Hr|]. unfold sender_of_chan. cbn [opq smap set updop].
      destruct (Nat.eqb_spec o' o) as [->|Hne].
      * rewrite Ec in H. cbn in H. injection H as <-. cbn in E. split; [left; apply in_or_app; right; now left|].
        unfold is_search. cbn. destruct (o_kind c); try discriminate; exact I.
      * destruct (a_chan s A o' c' H E) as (_ & [Hq|Hm] & K); (split; [|exact K]); [left; apply in_or_app; now left|now right].
    + intros H. change (is_running s = false) in H. congruence.
  - apply (acct_same_senders s _ A HK); try reflexivity; intros o' c' H; use_updop H.
Qed.

(* kind and id of an op survive every update used by the driver *)
Definition kpres (g : cop -> cop) : Prop := forall c, o_kind (g c) = o_kind c /\ o_mid (g c) = o_mid c.
Lemma kpres_drop_reply : kpres drop_reply. Proof. intros c. unfold drop_reply. destruct (o_reply c); now split. Qed.
Lemma kpres_close_chan : kpres close_chan. Proof. intros c. now split. Qed.
Lemma kpres_fill p : kpres (fill_reply p). Proof. intros c. unfold fill_reply. destruct (o_reply c); [destruct (waiting c)|..]; now split. Qed.
Definition same_id (x : st) (o : nat) (c : cop) : Prop := exists c', getop x o = Some c' /\ o_kind c' = o_kind c /\ o_mid c' = o_mid c.
Lemma same_id_refl x o c : getop x o = Some c -> same_id x o c. Proof. intros H. now exists c. Qed.
Lemma same_id_updop x o c o' g : kpres g -> same_id x o c -> same_id (updop o' g x) o c.
Proof. intros Hg (c' & H & K & M). unfold same_id. rewrite getop_updop. destruct (Nat.eqb o o'); [|now exists c'].
  rewrite H. cbn. exists (g c'). destruct (Hg c') as [Kg Mg]. repeat split; congruence. Qed.
Lemma same_id_drop_entry x o c m k g : kpres g -> same_id x o c -> same_id (drop_entry m k g x) o c.
Proof. intros Hg H. unfold drop_entry. destruct (alookup k m); [now apply same_id_updop|exact H]. Qed.
Lemma same_id_irrelevant x y o c : ops y = ops x -> same_id x o c -> same_id y o c.
Proof. intros E (c' & H & K & M). exists c'. unfold getop in *. now rewrite E. Qed.

Lemma alookup_ainsert k v m : alookup k (ainsert k v m) = Some v.
Proof. unfold alookup, ainsert. cbn. now rewrite Z.eqb_refl. Qed.

Lemma acct_drvop s : acct s -> acct (step s DrvOp).
Proof.
  intros A. unfold step. destruct (is_running s) eqn:Hr; cbn [negb]; [|exact A].
  destruct (opq s) as [|o q] eqn:Hq; [exact A|].
  destruct (getop s o) as [c|] eqn:Hc.
  2: { (* stale index: cannot happen, but the step is harmless *)
       apply acctx_acct. pose proof (acctx_pop s o q A Hr Hq) as X.
       constructor; try apply X.
       - intros o' c' H E. destruct (x_reply _ _ _ X o' c' H E) as [Ex|R]; [|now right]. injection Ex as <-.
         change (getop s o = Some c') in H. congruence.
       - intros o' c' H E. destruct (x_chan _ _ _ X o' c' H E) as (K & [Ex|R]); (split; [exact K|]); [|now right]. injection Ex as <-.
         change (getop s o = Some c') in H. congruence. }
  set (s0 := s <| opq := q |> <| wout ::= fun w => w ++ [(o_mid c, o_kind c)] |>).
  assert (X0 : acctx (Some o) (Some o) s0) by (apply (acctx_irrelevant _ _ (s <| opq := q |>)); [now apply acctx_pop|reflexivity..]).
  assert (H0 : getop s0 o = Some c) by exact Hc.
  assert (R0 : is_running s0 = true) by exact Hr.
  destruct (o_kind c) eqn:Ek.
  - (* Single *)
    destruct (fix16 (fx s) && negb (waiting c)).
    + apply acctx_acct. apply (acctx_irrelevant _ _ (updop o drop_reply s0)); [|reflexivity..]. apply (acctx_drop_xc None _ o (drop_reply c)).
      * apply acctx_settle; [exact X0|apply settles_drop_reply].
      * now apply getop_updop_same.
      * right. unfold is_search. destruct (kpres_drop_reply c) as [-> _]. now rewrite Ek.
    + set (s1 := drop_entry (rmap s0) (o_mid c) drop_reply s0 <| rmap ::= aremove (o_mid c) |>).
      assert (X1 : acctx (Some o) (Some o) s1) by (apply acctx_rm_r; [exact X0|apply settles_drop_reply]).
      assert (I1 : same_id s1 o c) by (apply (same_id_irrelevant (drop_entry (rmap s0) (o_mid c) drop_reply s0)); [reflexivity|];
                                       apply same_id_drop_entry; [apply kpres_drop_reply|now apply same_id_refl]).
      destruct I1 as (c1 & H1 & K1 & M1).
      assert (X2 : acctx None (Some o) (s1 <| rmap ::= cons (o_mid c1, o) |>)).
      { apply acctx_cons_r; [exact X1|exact H1| |].
        - unfold s1. unfold is_running. cbn [drv set]. rewrite drv_drop_entry. exact R0.
        - rewrite M1. unfold s1. cbn [rmap set]. rewrite rmap_drop_entry. apply not_key_aremove. }
      apply acctx_acct. apply (acctx_drop_xc None _ o c1).
      * apply (acctx_irrelevant _ _ (s1 <| rmap ::= cons (o_mid c1, o) |>)); [exact X2|try reflexivity..].
        rewrite M1. reflexivity.
      * exact H1.
      * right. unfold is_search. now rewrite K1, Ek.
  - (* Search *)
    set (s1 := drop_entry (smap s0) (o_mid c) close_chan s0 <| smap ::= aremove (o_mid c) |>).
    assert (X1 : acctx (Some o) (Some o) s1) by (apply acctx_rm_s; [exact X0|apply closes_close_chan]).
    assert (I1 : same_id s1 o c) by (apply (same_id_irrelevant (drop_entry (smap s0) (o_mid c) close_chan s0)); [reflexivity|];
                                     apply same_id_drop_entry; [apply kpres_close_chan|now apply same_id_refl]).
    destruct I1 as (c1 & H1 & K1 & M1).
    set (R1 := drop_entry (smap s0) (o_mid c) close_chan s0 <| smap ::= ainsert (o_mid c) o |>).
    assert (X2 : acctx (Some o) None R1).
    { apply (acctx_irrelevant _ _ (s1 <| smap ::= cons (o_mid c1, o) |>)); [|try reflexivity..].
      - apply acctx_cons_s; [exact X1|exact H1| |].
        + unfold s1. unfold is_running. cbn [drv set]. rewrite drv_drop_entry. exact R0.
        + rewrite M1. unfold s1. cbn [smap set]. rewrite smap_drop_entry. apply not_key_aremove.
      - rewrite M1. reflexivity. }
    assert (X3 : acctx None None (updop o (fill_reply None) R1)) by (apply acctx_settle; [exact X2|apply settles_fill]).
    destruct (fix16 (fx s) && negb (waiting c)); [|now apply acctx_acct].
    apply acctx_acct. match goal with |- acctx _ _ (set inuse _ ?x) => apply (acctx_irrelevant _ _ x); [|reflexivity..] end.
    assert (Ea : alookup (o_mid c) (smap (updop o (fill_reply None) R1)) = Some o) by (unfold R1; cbn [smap set]; rewrite smap_updop; cbn [smap set]; apply alookup_ainsert).
    rewrite <- (drop_entry_found _ _ close_chan (updop o (fill_reply None) R1) o Ea).
    apply acctx_rm_s; [exact X3|apply closes_close_chan].
  - (* Abandon *)
    set (s1 := drop_entry (rmap s0) target drop_reply s0 <| rmap ::= aremove target |>).
    set (s2 := drop_entry (smap s1) target close_chan s1 <| smap ::= aremove target |>).
    assert (X2 : acctx (Some o) (Some o) s2) by (apply acctx_rm_s; [apply acctx_rm_r; [exact X0|apply settles_drop_reply]|apply closes_close_chan]).
    assert (I2 : same_id s2 o c).
    { apply (same_id_irrelevant (drop_entry (smap s1) target close_chan s1)); [reflexivity|]. apply same_id_drop_entry; [apply kpres_close_chan|].
      apply (same_id_irrelevant (drop_entry (rmap s0) target drop_reply s0)); [reflexivity|]. apply same_id_drop_entry; [apply kpres_drop_reply|now apply same_id_refl]. }
    set (b9 := fix9 (fx s) && abandon_hit s0 target). set (s4 := if b9 then s2 <| inuse ::= rem (o_mid c) |> <| inuse ::= rem target |> else s2 <| inuse ::= rem (o_mid c) |>).
    assert (X4 : acctx (Some o) (Some o) s4) by (unfold s4; destruct b9; apply (acctx_irrelevant _ _ s2); try reflexivity; exact X2).
    assert (I4 : same_id s4 o c) by (unfold s4; destruct b9; apply (same_id_irrelevant s2); try reflexivity; exact I2).
    assert (I5 : same_id (updop o (fill_reply None) s4) o c) by (apply same_id_updop; [apply kpres_fill|exact I4]).
    destruct I5 as (c5 & H5 & K5 & _).
    apply acctx_acct. unfold s4 in *. destruct b9; apply (acctx_drop_xc None _ o c5); try exact H5;
      try (right; unfold is_search; now rewrite K5, Ek); apply acctx_settle; try apply settles_fill; exact X4.
  - (* Unbind *)
    assert (I1 : same_id (updop o (fill_reply None) s0) o c) by (apply same_id_updop; [apply kpres_fill|now apply same_id_refl]).
    destruct I1 as (c1 & H1 & K1 & _).
    assert (A1 : acct (updop o (fill_reply None) s0)).
    { apply acctx_acct. apply (acctx_drop_xc None _ o c1); [apply acctx_settle; [exact X0|apply settles_fill]|exact H1|].
      right. unfold is_search. now rewrite K1, Ek. }
    destruct (fix15 (fx s)); [apply acct_end_driver; [exact A1|discriminate]|exact A1].
Qed.

Lemma caller_side_push r : caller_side (fun c0 => c0 <| o_items ::= fun l => l ++ [r] |>).
Proof. intros c. now repeat split. Qed.

Lemma acct_drvresp s : acct s -> acct (step s DrvResp).
Proof.
  intros A. unfold step. destruct (is_running s) eqn:Hr; cbn [negb]; [|exact A].
  destruct (win s) as [|r w] eqn:Hw; [exact A|].
  set (s0 := s <| win := w |>).
  assert (A0 : acctx None None s0) by (apply (acctx_irrelevant _ _ s); [now apply acct_acctx|reflexivity..]).
  destruct (alookup (r_mid r) (smap s)) as [o|] eqn:Es.
  - (* a search holds this id *)
    destruct (r_kind r) eqn:Ek.
    5: { assert (A5 : acct (s0 <| processed ::= fun l => l ++ [(r, None)] |>)) by (apply acctx_acct; apply (acctx_irrelevant _ _ s0); [exact A0|reflexivity..]).
         destruct (fix5 (fx s)); [exact A5|]. apply acct_end_driver; [exact A5|discriminate]. }
    all: set (alive := match getop s o with Some c => o_rx c | None => false end).
    all: set (s1 := if alive then updop o (fun c0 => c0 <| o_items ::= fun l => l ++ [r] |>) s0 else s0).
    all: assert (A1 : acctx None None s1) by (unfold s1; destruct alive; [apply acctx_caller_side; [exact A0|apply caller_side_push]|exact A0]).
    all: set (s1' := s1 <| processed ::= fun l => l ++ [(r, if alive then Some o else None)] |>).
    all: assert (A1' : acctx None None s1') by (apply (acctx_irrelevant _ _ s1); [exact A1|reflexivity..]).
    all: assert (Ea : alookup (r_mid r) (smap s1') = Some o) by (unfold s1', s1; destruct alive; exact Es).
    all: assert (Rm : acctx None None (updop o close_chan s1' <| smap ::= aremove (r_mid r) |>))
           by (rewrite <- (drop_entry_found _ _ close_chan s1' o Ea); apply acctx_rm_s; [exact A1'|apply closes_close_chan]).
    all: assert (Rm8 : acct (if fix8 (fx s) then updop o close_chan s1' <| smap ::= aremove (r_mid r) |> <| inuse ::= rem (r_mid r) |>
                                        else updop o close_chan s1' <| smap ::= aremove (r_mid r) |>))
           by (apply acctx_acct; destruct (fix8 (fx s)); [apply (acctx_irrelevant _ _ (updop o close_chan s1' <| smap ::= aremove (r_mid r) |>)); [exact Rm|reflexivity..]|exact Rm]).
    (* Entry / Ref / Inter: removed only if the receiver is gone; Done: always removed *)
    1, 2, 3: destruct alive; cbn [negb]; [now apply acctx_acct|exact Rm8].
    exact Rm8.
  - destruct (alookup (r_mid r) (rmap s)) as [o|] eqn:Er.
    + (* a single-result operation holds this id *)
      match goal with |- context [if ?b then _ else _] => destruct b end;
        [apply acctx_acct; apply (acctx_irrelevant _ _ s0); [exact A0|reflexivity..]|].
      apply acctx_acct.
      apply (acctx_irrelevant _ _ (drop_entry (rmap s0) (r_mid r) (fill_reply (Some r)) s0 <| rmap ::= aremove (r_mid r) |>)).
      * apply acctx_rm_r; [exact A0|apply settles_fill].
      * rewrite (drop_entry_found (rmap s0) (r_mid r) _ s0 o Er). reflexivity.
      * rewrite (drop_entry_found (rmap s0) (r_mid r) _ s0 o Er). reflexivity.
      * rewrite (drop_entry_found (rmap s0) (r_mid r) _ s0 o Er). reflexivity.
      * rewrite (drop_entry_found (rmap s0) (r_mid r) _ s0 o Er). reflexivity.
      * rewrite (drop_entry_found (rmap s0) (r_mid r) _ s0 o Er). reflexivity.
    + (* unmatched *) apply acctx_acct. apply (acctx_irrelevant _ _ s0); [exact A0|reflexivity..].
Qed.

Theorem acct_step s e : acct s -> (match e with DrvEnd Running => False | _ => True end) -> acct (step s e).
Proof.
  intros A He. destruct e as [k tmo| | | |how|r|o|o|o|dt|o|o|k tmo|o].
  - now apply acct_start. - now apply acct_drvop. - now apply acct_scrub. - now apply acct_drvresp.
  - apply acct_drvend; [exact A|]. intros ->. exact He.
  - now apply acct_client. - now apply acct_client. - now apply acct_client. - now apply acct_client. - now apply acct_client.
  - now apply acct_client.
  - now apply acct_client.
  - now apply acct_alloc. - now apply acct_enqueue.
Qed.

Definition proper (e : ev) : Prop := match e with DrvEnd Running => False | _ => True end.
Theorem reachable_acct f evs : Forall proper evs -> acct (run f evs).
Proof. induction evs as [|e evs IH] using rev_ind; intros H.
  - apply acct_init.
  - rewrite run_snoc. apply Forall_app in H as [H1 H2]. inversion H2; subst. apply acct_step; [now apply IH|assumption]. Qed.

(* C04, unconditionally: after any history in which the driver has ended (for whatever reason), nothing is left pending *)
Theorem c04_no_pending_after_end f evs o c : Forall proper evs -> is_running (run f evs) = false -> getop (run f evs) o = Some c ->
  o_reply c <> OsEmpty /\ o_chan c = false.
Proof. intros H. apply c04_nothing_pending. now apply reachable_acct. Qed.
Print Assumptions c04_no_pending_after_end.
