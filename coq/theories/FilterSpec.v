(* Calibration sketch (round 0): RFC 4515 spec relations and completeness of the model parser (stage 1: lexical layer). *)
From Coq Require Import List NArith Lia Bool Arith.
From Coq.Strings Require Import Byte.
From L3 Require Import Ber Filter.
Import ListNotations.
Open Scope N_scope.

(* ---------- generic ---------- *)
Definition hd_sat (p : byte -> bool) (l : list byte) : Prop := match l with [] => True | c :: _ => p c = true end.
(* "rest" does not continue a token whose characters satisfy p *)
Definition stops_p (p : byte -> bool) (rest : list byte) : Prop := match rest with [] => True | c :: _ => p c = false end.

Lemma span_app p w rest : forallb p w = true -> stops_p p rest -> span p (w ++ rest) = (w, rest).
Proof. induction w as [|c w IH]; cbn; intros Hw Hr.
  - destruct rest as [|c r]; [reflexivity|]. cbn in Hr |- *. now rewrite Hr.
  - apply andb_true_iff in Hw as [Hc Hw]. rewrite Hc, IH by assumption. reflexivity. Qed.

Lemma beq_refl c : beq c c = true.
Proof. destruct c; reflexivity. Qed.
Lemma tag_app t rest : tag t (t ++ rest) = Some rest.
Proof. induction t as [|a t IH]; cbn; [reflexivity|]. now rewrite beq_refl. Qed.

(* ---------- attribute descriptions (RFC 4512) ---------- *)
Definition IsNumber (d : list byte) : Prop :=
  d <> [] /\ forallb is_digit d = true /\ (match d with [_] => True | x :: _ => beq x "0"%byte = false | [] => False end).
Definition dotted (ds : list (list byte)) : list byte := concat (map (fun d => "."%byte :: d) ds).
Definition NumericOid (a : list byte) : Prop :=
  exists d ds, IsNumber d /\ ds <> [] /\ Forall IsNumber ds /\ a = d ++ dotted ds.
Definition Descr (a : list byte) : Prop :=
  exists c w, a = c :: w /\ is_alpha c = true /\ forallb is_alnum_hyphen w = true.
Definition Oid a := NumericOid a \/ Descr a.
Definition IsOption (w : list byte) : Prop := w <> [] /\ forallb is_alnum_hyphen w = true.
Definition optioned (ws : list (list byte)) : list byte := concat (map (fun w => ";"%byte :: w) ws).
Definition AttrDesc (a : list byte) : Prop := exists t ws, Oid t /\ Forall IsOption ws /\ a = t ++ optioned ws.

(* what may follow an attribute description / an oid inside a filter item *)
Definition opchar (c : byte) : bool := beq c "="%byte || beq c ">"%byte || beq c "<"%byte || beq c "~"%byte || beq c ":"%byte.
Definition attr_stop (rest : list byte) : Prop := match rest with [] => True | c :: _ => opchar c = true end.

Lemma opchar_facts c : opchar c = true -> is_digit c = false /\ is_alnum_hyphen c = false /\ beq c "."%byte = false /\ beq c ";"%byte = false.
Proof. destruct c; vm_compute; intros; repeat split; congruence. Qed.
Lemma dot_not_digit : is_digit "."%byte = false. Proof. reflexivity. Qed.
Lemma semi_facts : is_digit ";"%byte = false /\ is_alnum_hyphen ";"%byte = false /\ beq ";"%byte "."%byte = false. Proof. repeat split. Qed.
Lemma digit_alnum c : is_digit c = true -> is_alnum_hyphen c = true.
Proof. unfold is_alnum_hyphen. intros ->. now rewrite orb_true_r. Qed.
Lemma alpha_not_digit c : is_alpha c = true -> is_digit c = false.
Proof. destruct c; vm_compute; congruence. Qed.

Lemma number_app d rest : IsNumber d -> stops_p is_digit rest -> number (d ++ rest) = Some (d, rest).
Proof. intros (Hne & Hd & Hz) Hr. unfold number. rewrite span_app by assumption.
  destruct d as [|x [|y d]]; [congruence|reflexivity|]. now rewrite Hz. Qed.

(* a stop for dotted numbers: next char is neither a digit nor a dot *)
Definition dot_stop (rest : list byte) : Prop := match rest with [] => True | c :: _ => is_digit c = false /\ beq c "."%byte = false end.
Lemma dot_stop_digit rest : dot_stop rest -> stops_p is_digit rest.
Proof. destruct rest; cbn; tauto. Qed.

Lemma dotted_cons d ds : dotted (d :: ds) = "."%byte :: d ++ dotted ds.
Proof. reflexivity. Qed.

Lemma dotnums_app ds : Forall IsNumber ds -> forall rest fuel, dot_stop rest -> (length ds <= fuel)%nat ->
  dotnums fuel (dotted ds ++ rest) = (dotted ds, rest).
Proof.
  induction 1 as [|d ds Hd Hds IH]; intros rest fuel Hr Hf.
  - destruct fuel as [|fuel]; [reflexivity|].
    cbn [dotted map concat app dotnums]. destruct rest as [|c r]; [reflexivity|]. destruct Hr as [_ Hdot].
    unfold beq in *. now rewrite Hdot.
  - destruct fuel as [|fuel]; [cbn in Hf; lia|].
    rewrite dotted_cons. cbn [app dotnums]. change (beq "." ".")%byte with true. cbn match.
    rewrite <- app_assoc.
    assert (Hs : stops_p is_digit (dotted ds ++ rest)).
    { destruct ds as [|d' ds']; [cbn; now apply dot_stop_digit|]. rewrite dotted_cons. cbn. reflexivity. }
    rewrite (number_app _ _ Hd Hs). cbn [length] in Hf. rewrite IH by (assumption || lia). reflexivity.
Qed.

Lemma dotted_length_ge ds : (length ds <= length (dotted ds))%nat.
Proof. induction ds as [|d ds IH]; [cbn; lia|]. rewrite dotted_cons. cbn [length]. rewrite app_length. lia. Qed.

Lemma numericoid_app a rest : NumericOid a -> dot_stop rest -> numericoid (a ++ rest) = Some (a, rest).
Proof. intros (d & ds & Hd & Hne & Hds & ->) Hr. unfold numericoid. rewrite <- app_assoc.
  assert (Hs : stops_p is_digit (dotted ds ++ rest)).
  { destruct ds as [|d' ds']; [congruence|]. rewrite dotted_cons. cbn. reflexivity. }
  rewrite (number_app _ _ Hd Hs). rewrite dotnums_app; [reflexivity|assumption|assumption|].
  rewrite app_length. pose proof (dotted_length_ge ds). lia. Qed.

Lemma descr_app a rest : Descr a -> stops_p is_alnum_hyphen rest -> descr (a ++ rest) = Some (a, rest).
Proof. intros (c & w & -> & Hc & Hw) Hr. cbn. rewrite Hc, span_app by assumption. reflexivity. Qed.

Lemma numericoid_alpha c w rest : is_alpha c = true -> numericoid (c :: w ++ rest) = None.
Proof. intros Hc. unfold numericoid, number. cbn [span]. now rewrite (alpha_not_digit _ Hc). Qed.

(* stop for a whole oid: not a key char, not a dot *)
Definition oid_stop (rest : list byte) : Prop :=
  match rest with [] => True | c :: _ => is_alnum_hyphen c = false /\ beq c "."%byte = false end.
Lemma oid_stop_dot rest : oid_stop rest -> dot_stop rest.
Proof. destruct rest as [|c r]; cbn; [tauto|]. intros [H1 H2]. split; [|assumption].
  destruct (is_digit c) eqn:E; [|reflexivity]. apply digit_alnum in E. congruence. Qed.
Lemma oid_stop_alnum rest : oid_stop rest -> stops_p is_alnum_hyphen rest.
Proof. destruct rest; cbn; tauto. Qed.

Lemma attributetype_app t rest : Oid t -> oid_stop rest -> attributetype (t ++ rest) = Some (t, rest).
Proof. intros [Hn|Hd] Hr; unfold attributetype.
  - rewrite numericoid_app; [reflexivity|assumption|now apply oid_stop_dot].
  - destruct Hd as (c & w & -> & Hc & Hw). cbn [app]. rewrite numericoid_alpha by assumption.
    change (c :: w ++ rest) with ((c :: w) ++ rest). apply descr_app; [now exists c, w|now apply oid_stop_alnum]. Qed.

Lemma optioned_cons w ws : optioned (w :: ws) = ";"%byte :: w ++ optioned ws.
Proof. reflexivity. Qed.
Definition opt_stop (rest : list byte) : Prop :=
  match rest with [] => True | c :: _ => is_alnum_hyphen c = false /\ beq c ";"%byte = false end.
Lemma opts_app ws : Forall IsOption ws -> forall rest fuel, opt_stop rest -> (length ws <= fuel)%nat ->
  opts fuel (optioned ws ++ rest) = (optioned ws, rest).
Proof.
  induction 1 as [|w ws Hw Hws IH]; intros rest fuel Hr Hf.
  - destruct fuel as [|fuel]; [reflexivity|].
    cbn [optioned map concat app opts]. destruct rest as [|c r]; [reflexivity|]. destruct Hr as [_ Hs]. now rewrite Hs.
  - destruct fuel as [|fuel]; [cbn in Hf; lia|].
    rewrite optioned_cons. cbn [app opts]. change (beq ";" ";")%byte with true. cbn match.
    rewrite <- app_assoc. destruct Hw as [Hne Hw].
    assert (Hs : stops_p is_alnum_hyphen (optioned ws ++ rest)).
    { destruct ws as [|w' ws']; [cbn; destruct rest; cbn in *; tauto|]. rewrite optioned_cons. cbn. reflexivity. }
    rewrite span_app by assumption. destruct w as [|x w]; [congruence|].
    cbn [length] in Hf. rewrite IH by (assumption || lia). reflexivity.
Qed.
Lemma optioned_length_ge ws : (length ws <= length (optioned ws))%nat.
Proof. induction ws as [|w ws IH]; [cbn; lia|]. rewrite optioned_cons. cbn [length]. rewrite app_length. lia. Qed.

Lemma attr_stop_facts rest : attr_stop rest -> oid_stop rest /\ opt_stop rest.
Proof. destruct rest as [|c r]; cbn; [tauto|]. intros H. destruct (opchar_facts _ H) as (_ & H2 & H3 & H4). tauto. Qed.

Theorem attributedescription_app a rest : AttrDesc a -> attr_stop rest ->
  attributedescription (a ++ rest) = Some (a, rest).
Proof.
  intros (t & ws & Ht & Hws & ->) Hr. destruct (attr_stop_facts _ Hr) as [Ho Hp].
  unfold attributedescription. rewrite <- app_assoc.
  assert (Hs : oid_stop (optioned ws ++ rest)).
  { destruct ws as [|w ws']; [exact Ho|]. rewrite optioned_cons. cbn. split; reflexivity. }
  rewrite (attributetype_app _ _ Ht Hs). rewrite opts_app; [reflexivity|assumption|assumption|].
  rewrite app_length. pose proof (optioned_length_ge ws). lia.
Qed.

(* ---------- assertion values (RFC 4515 valueencoding) ---------- *)
Definition special (c : byte) : bool := negb (is_value_char c) || beq c "\"%byte.
Inductive ValEnc : list byte -> list byte -> Prop :=
| VE_nil : ValEnc [] []
| VE_plain c v s : special c = false -> ValEnc v s -> ValEnc (c :: v) (c :: s)
| VE_hex c h1 h2 v s : is_hex h1 = true -> is_hex h2 = true -> bN c = hexval h1 * 16 + hexval h2 ->
    ValEnc v s -> ValEnc (c :: v) ("\"%byte :: h1 :: h2 :: s).
Definition val_stop (rest : list byte) : Prop := stops_p is_value_char rest.

Lemma hex_is_value_char h : is_hex h = true -> is_value_char h = true.
Proof. destruct h; vm_compute; congruence. Qed.
Lemma byte_of_bN c : byte_of_N (bN c) = c.
Proof. destruct c; reflexivity. Qed.

Lemma unesc_complete v s : ValEnc v s -> forall acc rest, val_stop rest ->
  unesc_loop Value acc (s ++ rest) = (Value, acc ++ v, rest).
Proof.
  induction 1 as [|c v s Hc _ IH|c h1 h2 v s H1 H2 Hv _ IH]; intros acc rest Hr.
  - rewrite app_nil_r. destruct rest as [|c r]; [reflexivity|]. cbn in Hr |- *. rewrite Hr. reflexivity.
  - cbn [app unesc_loop]. unfold special in Hc. apply orb_false_elim in Hc as [Hvc Hbs].
    apply negb_false_iff in Hvc. rewrite Hvc, Hbs. rewrite IH by assumption. now rewrite <- app_assoc.
  - cbn [app unesc_loop]. change (is_value_char "\"%byte) with true. cbn match. change (beq "\" "\")%byte with true. cbn match.
    rewrite (hex_is_value_char _ H1), H1, (hex_is_value_char _ H2), H2.
    rewrite <- Hv, byte_of_bN. rewrite IH by assumption. now rewrite <- app_assoc.
Qed.
Theorem unescaped_app v s rest : ValEnc v s -> val_stop rest -> unescaped (s ++ rest) = Some (v, rest).
Proof. intros H Hr. unfold unescaped. now rewrite (unesc_complete _ _ H [] rest Hr). Qed.
Lemma ValEnc_nonempty v s : ValEnc v s -> v <> [] -> s <> [].
Proof. intros [] Hv; congruence. Qed.

(* ---------- items ---------- *)
Inductive itemA :=
| IEq (a v : list byte) | IGe (a v : list byte) | ILe (a v : list byte) | IApprox (a v : list byte)
| IPres (a : list byte)
| ISub (a : list byte) (ini : option (list byte)) (anys : list (list byte)) (fin : option (list byte))
| IExt (mr attr : option (list byte)) (dn : bool) (v : list byte).

Definition oget (o : option (list byte)) : list byte := match o with Some x => x | None => [] end.
Definition ber_item (it : itemA) : tree :=
  match it with
  | IEq a v => C Context 3 [octs a; octs v]
  | IGe a v => C Context 5 [octs a; octs v]
  | ILe a v => C Context 6 [octs a; octs v]
  | IApprox a v => C Context 8 [octs a; octs v]
  | IPres a => ctx_p 7 a
  | ISub a ini anys fin =>
      C Context 4 [octs a; seq_u ((match ini with Some x => [ctx_p 0 x] | None => [] end) ++ map (ctx_p 1) anys ++
                                  (match fin with Some x => [ctx_p 2 x] | None => [] end))]
  | IExt mr attr dn v => ext_tag_of mr attr v dn
  end.

Definition ONonempty (o : option (list byte)) : Prop := match o with Some x => x <> [] | None => True end.
Definition starred (segs : list (list byte)) : list byte := concat (map (fun s => "*"%byte :: s) segs).
Definition dnstr (dn : bool) : list byte := if dn then [":"; "d"; "n"]%byte else [].
(* the flag as written: ":dn" in any spelling of its two letters (dnattrs = COLON "dn", an ABNF literal) *)
Definition DnStr (dn : bool) (d : list byte) : Prop :=
  if dn then exists c1 c2, d = [":"%byte; c1; c2] /\ is_dn c1 c2 = true else d = [].
Lemma DnStr_canon dn : DnStr dn (dnstr dn).
Proof. destruct dn; [exists "d"%byte, "n"%byte; split; reflexivity|reflexivity]. Qed.
Definition is_dn_word (m : list byte) : bool := match m with [c1; c2] => is_dn c1 c2 | _ => false end.
(* F14: the code commits to ":dn" when a matching-rule name merely starts with "dn" *)
Definition starts_dn (m : list byte) : bool := match m with a :: b :: _ => beq a "d"%byte && beq b "n"%byte | _ => false end.

Inductive ItemStr : itemA -> list byte -> Prop :=
| S_Eq a v s : AttrDesc a -> ValEnc v s -> ItemStr (IEq a v) (a ++ "="%byte :: s)
| S_Ge a v s : AttrDesc a -> ValEnc v s -> ItemStr (IGe a v) (a ++ ">"%byte :: "="%byte :: s)
| S_Le a v s : AttrDesc a -> ValEnc v s -> ItemStr (ILe a v) (a ++ "<"%byte :: "="%byte :: s)
| S_Approx a v s : AttrDesc a -> ValEnc v s -> ItemStr (IApprox a v) (a ++ "~"%byte :: "="%byte :: s)
| S_Pres a : AttrDesc a -> ItemStr (IPres a) (a ++ ["="; "*"]%byte)
| S_Sub a ini anys fin si sa sf :
    AttrDesc a -> ONonempty ini -> Forall (fun x => x <> []) anys -> ONonempty fin ->
    ~ (ini = None /\ anys = [] /\ fin = None) ->
    ValEnc (oget ini) si -> Forall2 ValEnc anys sa -> ValEnc (oget fin) sf ->
    ItemStr (ISub a ini anys fin) (a ++ "="%byte :: si ++ starred (sa ++ [sf]))
| S_ExtA a dn d mr v s : AttrDesc a -> DnStr dn d -> (match mr with Some m => Oid m | None => True end) -> ValEnc v s ->
    ItemStr (IExt mr (Some a) dn v)
            (a ++ d ++ (match mr with Some m => ":"%byte :: m | None => [] end) ++ ":"%byte :: "="%byte :: s)
| S_ExtM m dn d v s : Oid m -> DnStr dn d -> ValEnc v s ->
    ItemStr (IExt (Some m) None dn v) (d ++ ":"%byte :: m ++ ":"%byte :: "="%byte :: s).

(* RFC 4515's grammar is ambiguous on one string shape: "a:dn:=v" is both attribute a with the dn flag and no rule, and attribute a
   with a matching rule literally named "dn" and no flag. The library (like every LDAP implementation) reads the flag; the second
   reading is therefore excluded from the completeness statement. Before the repair of F14 this exclusion had to cover every rule
   name that merely started with "dn". *)
Definition KnownF14 (it : itemA) : Prop :=
  match it with IExt (Some m) (Some _) false _ => is_dn_word m = true | _ => False end.

Definition item_stop (rest : list byte) : Prop := match rest with [] => True | c :: _ => c = ")"%byte end.
Lemma item_stop_val rest : item_stop rest -> val_stop rest.
Proof. destruct rest as [|c r]; cbn; [tauto|]. now intros ->. Qed.
Lemma item_stop_nostar rest : item_stop rest -> stops_p (fun c => beq c "*"%byte) rest.
Proof. destruct rest as [|c r]; cbn; [tauto|]. now intros ->. Qed.

Lemma starred_cons s segs : starred (s :: segs) = "*"%byte :: s ++ starred segs.
Proof. reflexivity. Qed.

Lemma stars_app vals segs : Forall2 ValEnc vals segs -> forall rest fuel, item_stop rest -> (length segs <= fuel)%nat ->
  stars fuel (starred segs ++ rest) = (vals, rest).
Proof.
  induction 1 as [|v s vals segs Hv Hvs IH]; intros rest fuel Hr Hf.
  - destruct fuel as [|fuel]; [reflexivity|]. cbn [starred map concat app stars].
    destruct rest as [|c r]; [reflexivity|]. cbn in Hr. subst c. reflexivity.
  - destruct fuel as [|fuel]; [cbn in Hf; lia|]. rewrite starred_cons. cbn [app stars].
    change (beq "*" "*")%byte with true. cbn match. rewrite <- app_assoc.
    assert (Hs : val_stop (starred segs ++ rest)).
    { destruct segs as [|s' segs']; [cbn; now apply item_stop_val|]. rewrite starred_cons. cbn. reflexivity. }
    rewrite (unescaped_app _ _ _ Hv Hs). cbn [length] in Hf. rewrite IH by (assumption || lia). reflexivity.
Qed.
Lemma starred_length_ge segs : (length segs <= length (starred segs))%nat.
Proof. induction segs as [|s segs IH]; [cbn; lia|]. rewrite starred_cons. cbn [length]. rewrite app_length. lia. Qed.

Lemma bad_stars_cons2 y l : l <> [] -> bad_stars (y :: l) = is_nil y || bad_stars l.
Proof. destruct l; [congruence|reflexivity]. Qed.
Lemma sub_elems_cons2 y l : l <> [] -> sub_elems (y :: l) = if is_nil y then [] else ctx_p 1 y :: sub_elems l.
Proof. destruct l; [congruence|reflexivity]. Qed.
Lemma snoc_ne {A} (l : list A) x : l ++ [x] <> [].
Proof. destruct l; discriminate. Qed.
Lemma bad_stars_snoc anys x : Forall (fun y => y <> []) anys -> bad_stars (anys ++ [x]) = false.
Proof. induction 1 as [|y anys Hy _ IH]; [reflexivity|]. cbn [app].
  rewrite bad_stars_cons2 by apply snoc_ne. destruct y; [congruence|]. cbn. exact IH. Qed.
Lemma sub_elems_snoc anys x : Forall (fun y => y <> []) anys ->
  sub_elems (anys ++ [x]) = map (ctx_p 1) anys ++ (if is_nil x then [] else [ctx_p 2 x]).
Proof. induction 1 as [|y anys Hy _ IH]; [reflexivity|]. cbn [app map].
  rewrite sub_elems_cons2 by apply snoc_ne. destruct y; [congruence|]. cbn [is_nil]. now rewrite IH. Qed.

Lemma eq_attr_stop c rest : opchar c = true -> attr_stop (c :: rest).
Proof. intros H. exact H. Qed.

Lemma eq_item_Eq a v s rest : AttrDesc a -> ValEnc v s -> item_stop rest ->
  eq_item ((a ++ "="%byte :: s) ++ rest) = Some (ber_item (IEq a v), rest).
Proof.
  intros Ha Hv Hr. unfold eq_item. rewrite <- app_assoc. rewrite (attributedescription_app _ _ Ha) by reflexivity.
  cbn [app tag]. change (beq "=" "=")%byte with true. cbn match.
  rewrite (unescaped_app _ _ _ Hv (item_stop_val _ Hr)).
  assert (Hst : stars (length rest) rest = ([], rest)).
  { destruct rest as [|c r]; [reflexivity|]. cbn in Hr. subst c. reflexivity. }
  rewrite Hst. reflexivity.
Qed.

Lemma eq_item_Pres a rest : AttrDesc a -> item_stop rest ->
  eq_item ((a ++ ["="; "*"]%byte) ++ rest) = Some (ber_item (IPres a), rest).
Proof.
  intros Ha Hr. unfold eq_item. rewrite <- app_assoc. rewrite (attributedescription_app _ _ Ha) by reflexivity.
  cbn [app tag]. change (beq "=" "=")%byte with true. cbn match.
  change ("*"%byte :: rest) with ([] ++ "*"%byte :: rest). rewrite (unescaped_app [] [] _ VE_nil) by reflexivity.
  cbn [app length].
  pose proof (stars_app [[]] [[]] (Forall2_cons _ _ VE_nil (Forall2_nil _)) rest (S (length rest)) Hr ltac:(cbn; lia)) as E.
  cbn [starred map concat app] in E. rewrite E. reflexivity.
Qed.

Lemma eq_item_Sub a ini anys fin si sa sf rest :
  AttrDesc a -> ONonempty ini -> Forall (fun x => x <> []) anys -> ONonempty fin ->
  ~ (ini = None /\ anys = [] /\ fin = None) ->
  ValEnc (oget ini) si -> Forall2 ValEnc anys sa -> ValEnc (oget fin) sf -> item_stop rest ->
  eq_item ((a ++ "="%byte :: si ++ starred (sa ++ [sf])) ++ rest) = Some (ber_item (ISub a ini anys fin), rest).
Proof.
  intros Ha Hi Hn Hf Hx Vi Va Vf Hr. unfold eq_item. rewrite <- app_assoc.
  rewrite (attributedescription_app _ _ Ha) by reflexivity.
  cbn [app tag]. change (beq "=" "=")%byte with true. cbn match. rewrite <- app_assoc.
  assert (Hs : val_stop (starred (sa ++ [sf]) ++ rest)).
  { destruct sa; cbn; reflexivity. }
  rewrite (unescaped_app _ _ _ Vi Hs).
  assert (V2 : Forall2 ValEnc (anys ++ [oget fin]) (sa ++ [sf])) by (apply Forall2_app; [assumption|repeat constructor; assumption]).
  assert (Hfuel : (length (sa ++ [sf]) <= length (starred (sa ++ [sf]) ++ rest))%nat)
    by (rewrite (app_length (starred (sa ++ [sf])) rest); pose proof (starred_length_ge (sa ++ [sf])); lia).
  rewrite (stars_app _ _ V2 rest _ Hr Hfuel).
  rewrite bad_stars_snoc by assumption. unfold build_eq.
  destruct (anys ++ [oget fin]) as [|m0 ms] eqn:E; [destruct anys; discriminate|]. rewrite <- E.
  assert (Hp : (is_nil (oget ini) && match anys ++ [oget fin] with [x] => is_nil x | _ => false end) = false).
  { destruct ini as [i|]; cbn [oget is_nil].
    - destruct i; [cbn in Hi; congruence|reflexivity].
    - destruct anys as [|y anys']; cbn.
      + destruct fin as [f|]; cbn; [destruct f; [cbn in Hf; congruence|reflexivity]|exfalso; apply Hx; auto].
      + destruct (anys' ++ [oget fin]) eqn:E2; [destruct anys'; discriminate|reflexivity]. }
  rewrite E in Hp |- *. rewrite Hp. rewrite <- E. rewrite sub_elems_snoc by assumption.
  cbn [ber_item]. repeat f_equal.
  - destruct ini as [i|]; cbn; [destruct i; [cbn in Hi; congruence|reflexivity]|reflexivity].
  - destruct fin as [f|]; cbn; [destruct f; [cbn in Hf; congruence|reflexivity]|reflexivity].
Qed.

(* ---------- alternation order: which alternative fires ---------- *)
Lemma AttrDesc_head a : AttrDesc a -> exists c w, a = c :: w /\ (is_alpha c = true \/ is_digit c = true).
Proof.
  intros (t & ws & [(d & ds & (Hne & Hd & _) & _ & _ & ->)|(c & w & -> & Hc & _)] & _ & ->).
  - destruct d as [|x d]; [congruence|]. cbn in Hd. apply andb_true_iff in Hd as [Hx _].
    exists x, ((d ++ dotted ds) ++ optioned ws). split; [now rewrite <- !app_assoc|now right].
  - exists c, (w ++ optioned ws). split; [reflexivity|now left].
Qed.
Lemma Oid_head m : Oid m -> exists c w, m = c :: w /\ (is_alpha c = true \/ is_digit c = true).
Proof. intros H. apply (AttrDesc_head m). exists m, []. repeat split; [assumption|constructor|]. cbn. now rewrite app_nil_r. Qed.

Lemma attrdesc_none_on c rest : is_alpha c = false -> is_digit c = false -> attributedescription (c :: rest) = None.
Proof. intros Ha Hd. unfold attributedescription, attributetype, numericoid, number, descr. cbn [span]. now rewrite Hd, Ha. Qed.

Lemma eq_item_none_op a c rest : AttrDesc a -> opchar c = true -> beq "="%byte c = false ->
  eq_item (a ++ c :: rest) = None.
Proof. intros Ha Hc Hne. unfold eq_item. rewrite (attributedescription_app _ _ Ha) by exact Hc. cbn [tag]. now rewrite Hne. Qed.

Lemma non_eq_app a v s rest (o1 : byte) (id : N) :
  AttrDesc a -> ValEnc v s -> item_stop rest ->
  (o1 = ">"%byte /\ id = 5 \/ o1 = "<"%byte /\ id = 6 \/ o1 = "~"%byte /\ id = 8) ->
  non_eq ((a ++ o1 :: "="%byte :: s) ++ rest) = Some (C Context id [octs a; octs v], rest).
Proof.
  intros Ha Hv Hr Ho. unfold non_eq. rewrite <- app_assoc.
  assert (Hop : opchar o1 = true) by (destruct Ho as [[-> _]|[[-> _]|[-> _]]]; reflexivity).
  rewrite (attributedescription_app _ _ Ha) by exact Hop. cbn [app].
  destruct Ho as [[-> ->]|[[-> ->]|[-> ->]]]; cbn [tag beq Byte.eqb]; cbn;
    rewrite (unescaped_app _ _ _ Hv (item_stop_val _ Hr)); reflexivity.
Qed.
Lemma non_eq_none_colon a rest : AttrDesc a -> non_eq (a ++ ":"%byte :: rest) = None.
Proof. intros Ha. unfold non_eq. rewrite (attributedescription_app _ _ Ha) by reflexivity. reflexivity. Qed.

(* ":dn" is not taken when what follows the colon is a rule name other than "dn" itself *)
Lemma alnum_not_colon c : is_alnum_hyphen c = true -> beq c ":"%byte = false.
Proof. destruct c; vm_compute; congruence. Qed.
Lemma Oid_dn_third c1 c2 c3 w : is_dn c1 c2 = true -> Oid (c1 :: c2 :: c3 :: w) -> beq c3 ":"%byte = false.
Proof.
  intros Hdn [(d & ds & (Hne & Hdig & _) & _ & _ & E)|(c & w' & E & _ & Hw)].
  - destruct d as [|x d']; [congruence|]. cbn in E. injection E as <- _. cbn in Hdig. apply andb_true_iff in Hdig as [Hx _].
    unfold is_dn in Hdn. apply andb_true_iff in Hdn as [Hd _]. apply orb_true_iff in Hd as [Hd|Hd]; apply Byte.byte_dec_bl in Hd; subst; discriminate.
  - injection E as <- <-. cbn [forallb] in Hw. apply andb_true_iff in Hw as [_ Hw]. apply andb_true_iff in Hw as [Hc _]. now apply alnum_not_colon.
Qed.
Lemma opt_dn_rule m r : Oid m -> is_dn_word m <> true ->
  opt_dn (":"%byte :: m ++ ":"%byte :: r) = (false, ":"%byte :: m ++ ":"%byte :: r).
Proof.
  intros Ho Hne. destruct (Oid_head _ Ho) as (c & w & -> & _). unfold opt_dn. cbn [app]. change (beq ":" ":")%byte with true. cbn [andb].
  destruct w as [|b w]; cbn [app].
  { destruct r as [|c0 r]; [reflexivity|]. unfold is_dn. change (beq ":" "n" || beq ":" "N")%byte with false. rewrite andb_false_r. reflexivity. }
  destruct w as [|c3 w]; cbn [app].
  - cbn [is_dn_word] in Hne. destruct (is_dn c b); [congruence|reflexivity].
  - destruct (is_dn c b) eqn:Edn; [|reflexivity]. cbn [andb]. now rewrite (Oid_dn_third c b c3 w Edn Ho).
Qed.
Lemma opt_mrule_some m rest : Oid m -> opt_mrule (":"%byte :: m ++ ":"%byte :: "="%byte :: rest) = (Some m, ":"%byte :: "="%byte :: rest).
Proof. intros Ho. unfold opt_mrule. cbn [tag]. change (beq ":" ":")%byte with true. cbn match.
  rewrite (attributetype_app _ _ Ho); [reflexivity|]. cbn. split; reflexivity. Qed.
Lemma opt_mrule_none rest : opt_mrule (":"%byte :: "="%byte :: rest) = (None, ":"%byte :: "="%byte :: rest).
Proof. reflexivity. Qed.

Lemma opt_tag_dn d r : DnStr true d -> opt_dn (d ++ ":"%byte :: r) = (true, ":"%byte :: r).
Proof. intros (c1 & c2 & -> & H). unfold opt_dn. cbn [app]. rewrite H. reflexivity. Qed.
Lemma tag_colon r : tag [":"%byte] (":"%byte :: r) = Some r.
Proof. reflexivity. Qed.
Lemma tag_coloneq r : tag [":"; "="]%byte (":"%byte :: "="%byte :: r) = Some r.
Proof. reflexivity. Qed.
Lemma opt_tag_dn_coloneq r : opt_dn (":"%byte :: "="%byte :: r) = (false, ":"%byte :: "="%byte :: r).
Proof. destruct r as [|c2 [|c r]]; reflexivity. Qed.
Lemma attr_dn_mrule_app a dn d mr v s rest :
  AttrDesc a -> DnStr dn d -> (match mr with Some m => Oid m | None => True end) -> ValEnc v s -> item_stop rest ->
  ~ KnownF14 (IExt mr (Some a) dn v) ->
  attr_dn_mrule ((a ++ d ++ (match mr with Some m => ":"%byte :: m | None => [] end) ++ ":"%byte :: "="%byte :: s) ++ rest)
  = Some (ext_tag_of mr (Some a) v dn, rest).
Proof.
  intros Ha Hd Hm Hv Hr Hk. unfold attr_dn_mrule. rewrite <- app_assoc.
  assert (Hst : attr_stop ((d ++ (match mr with Some m => ":"%byte :: m | None => [] end) ++ ":"%byte :: "="%byte :: s) ++ rest)).
  { destruct dn; [destruct Hd as (c1 & c2 & -> & _); reflexivity|]. cbn in Hd. subst d. destruct mr; reflexivity. }
  rewrite (attributedescription_app _ _ Ha Hst).
  pose proof (unescaped_app _ _ _ Hv (item_stop_val _ Hr)) as Hu.
  destruct dn, mr as [m|]; [| |cbn in Hd; subst d|cbn in Hd; subst d]; rewrite <- ?app_assoc; cbn [app].
  - rewrite (opt_tag_dn d _ Hd), (opt_mrule_some _ _ Hm), tag_coloneq, Hu. reflexivity.
  - rewrite (opt_tag_dn d _ Hd), opt_mrule_none, tag_coloneq, Hu. reflexivity.
  - rewrite (opt_dn_rule _ _ Hm Hk), (opt_mrule_some _ _ Hm), tag_coloneq, Hu. reflexivity.
  - rewrite opt_tag_dn_coloneq, opt_mrule_none, tag_coloneq, Hu. reflexivity.
Qed.

(* the form without an attribute description: the flag is taken when a rule follows it, never on ":dn:=" (where dn is the rule) *)
Lemma is_alnum_not_eq c : is_alpha c = true \/ is_digit c = true -> beq c "="%byte = false.
Proof. destruct c; vm_compute; intros [H|H]; congruence. Qed.
Lemma opt_dn_m_flag d m r : DnStr true d -> Oid m -> opt_dn_m (d ++ ":"%byte :: m ++ r) = (true, ":"%byte :: m ++ r).
Proof. intros (c1 & c2 & -> & H) Ho. destruct (Oid_head _ Ho) as (c & w & -> & Hc). unfold opt_dn_m. cbn [app]. rewrite H.
  change (beq ":" ":")%byte with true. cbn [andb]. now rewrite (is_alnum_not_eq c Hc). Qed.
Lemma opt_dn_m_rule m r : Oid m -> opt_dn_m (":"%byte :: m ++ ":"%byte :: "="%byte :: r) = (false, ":"%byte :: m ++ ":"%byte :: "="%byte :: r).
Proof.
  intros Ho. destruct (Oid_head _ Ho) as (c & w & -> & _). unfold opt_dn_m. cbn [app]. change (beq ":" ":")%byte with true. cbn [andb].
  destruct w as [|b w]; cbn [app].
  { unfold is_dn. change (beq ":" "n" || beq ":" "N")%byte with false. now rewrite andb_false_r. }
  destruct w as [|c3 w]; cbn [app].
  - (* the rule is two characters long: if they spell dn, "=" follows the colon *)
    change (beq ":" ":")%byte with true. change (beq "=" "=")%byte with true. cbn [negb]. now rewrite !andb_false_r.
  - destruct (is_dn c b) eqn:Edn; [|reflexivity]. cbn [andb]. now rewrite (Oid_dn_third c b c3 w Edn Ho).
Qed.
Lemma dn_mrule_app m dn d v s rest :
  Oid m -> DnStr dn d -> ValEnc v s -> item_stop rest ->
  dn_mrule ((d ++ ":"%byte :: m ++ ":"%byte :: "="%byte :: s) ++ rest) = Some (ext_tag_of (Some m) None v dn, rest).
Proof.
  intros Hm Hd Hv Hr. unfold dn_mrule. pose proof (unescaped_app _ _ _ Hv (item_stop_val _ Hr)) as Hu.
  assert (Hat : forall r, attributetype (m ++ ":"%byte :: "="%byte :: r) = Some (m, ":"%byte :: "="%byte :: r)).
  { intros r. apply attributetype_app; [assumption|]. cbn. split; reflexivity. }
  destruct dn; [|cbn in Hd; subst d]; rewrite <- ?app_assoc; cbn [app]; rewrite <- ?app_assoc; cbn [app].
  - rewrite (opt_dn_m_flag d m _ Hd Hm), tag_colon, Hat, tag_coloneq, Hu. reflexivity.
  - rewrite (opt_dn_m_rule m _ Hm), tag_colon, Hat, tag_coloneq, Hu. reflexivity.
Qed.

Theorem item_complete it s rest : ItemStr it s -> ~ KnownF14 it -> item_stop rest ->
  item (s ++ rest) = Some (ber_item it, rest).
Proof.
  intros H Hk Hr. unfold item. destruct H.
  - now rewrite (eq_item_Eq a v s rest).
  - rewrite <- app_assoc. cbn [app]. rewrite eq_item_none_op by (assumption || reflexivity).
    change (a ++ ">"%byte :: "="%byte :: s ++ rest) with (a ++ (">"%byte :: "="%byte :: s) ++ rest). rewrite app_assoc.
    now rewrite (non_eq_app a v s rest ">"%byte 5) by auto.
  - rewrite <- app_assoc. cbn [app]. rewrite eq_item_none_op by (assumption || reflexivity).
    change (a ++ "<"%byte :: "="%byte :: s ++ rest) with (a ++ ("<"%byte :: "="%byte :: s) ++ rest). rewrite app_assoc.
    now rewrite (non_eq_app a v s rest "<"%byte 6) by auto.
  - rewrite <- app_assoc. cbn [app]. rewrite eq_item_none_op by (assumption || reflexivity).
    change (a ++ "~"%byte :: "="%byte :: s ++ rest) with (a ++ ("~"%byte :: "="%byte :: s) ++ rest). rewrite app_assoc.
    now rewrite (non_eq_app a v s rest "~"%byte 8) by auto.
  - now rewrite (eq_item_Pres a rest).
  - now rewrite (eq_item_Sub a ini anys fin si sa sf rest).
  - (* attr form of extensible: eq and non_eq fail on ':' *)
    set (tail := d ++ (match mr with Some m => ":"%byte :: m | None => [] end) ++ ":"%byte :: "="%byte :: s).
    assert (Ht : exists tl, tail ++ rest = ":"%byte :: tl).
    { unfold tail; destruct dn; [match goal with H : DnStr true d |- _ => destruct H as (c1 & c2 & -> & _) end; eexists; reflexivity|].
      match goal with H : DnStr false d |- _ => cbn in H; subst d end. destruct mr; eexists; reflexivity. }
    destruct Ht as (tl & Ht). rewrite <- app_assoc. rewrite Ht.
    rewrite eq_item_none_op by (assumption || reflexivity). rewrite non_eq_none_colon by assumption.
    rewrite <- Ht, app_assoc. unfold tail. now rewrite (attr_dn_mrule_app a dn d mr v s rest).
  - (* rule-only form: nothing that needs an attribute description can start *)
    assert (Ht : exists tl, (d ++ ":"%byte :: m ++ ":"%byte :: "="%byte :: s) ++ rest = ":"%byte :: tl).
    { destruct dn; [match goal with H : DnStr true d |- _ => destruct H as (c1 & c2 & -> & _) end|match goal with H : DnStr false d |- _ => cbn in H; subst d end]; eexists; reflexivity. }
    destruct Ht as (tl & Ht). rewrite Ht.
    assert (Hn : attributedescription (":"%byte :: tl) = None) by (apply attrdesc_none_on; reflexivity).
    unfold eq_item, non_eq, attr_dn_mrule. rewrite Hn. rewrite <- Ht. now apply (dn_mrule_app m dn d v s rest).
Qed.

(* ---------- filters ---------- *)
Inductive filtA := FAnd (l : list filtA) | FOr (l : list filtA) | FNot (f : filtA) | FItem (it : itemA).
Fixpoint ber (f : filtA) : tree :=
  match f with
  | FAnd l => C Context 0 (map ber l)
  | FOr l => C Context 1 (map ber l)
  | FNot g => C Context 2 [ber g]
  | FItem it => ber_item it end.
Fixpoint NoF14 (f : filtA) : Prop :=
  match f with
  | FAnd l | FOr l => (fix all l := match l with [] => True | g :: r => NoF14 g /\ all r end) l
  | FNot g => NoF14 g
  | FItem it => ~ KnownF14 it end.

Inductive FiltStr : filtA -> list byte -> Prop :=
| FS_And l s : FiltStrs l s -> FiltStr (FAnd l) ("("%byte :: "&"%byte :: s ++ [")"%byte])
| FS_Or l s : FiltStrs l s -> FiltStr (FOr l) ("("%byte :: "|"%byte :: s ++ [")"%byte])
| FS_Not f s : FiltStr f s -> FiltStr (FNot f) ("("%byte :: "!"%byte :: s ++ [")"%byte])
| FS_Item it s : ItemStr it s -> FiltStr (FItem it) ("("%byte :: s ++ [")"%byte])
with FiltStrs : list filtA -> list byte -> Prop :=
| FSs_nil : FiltStrs [] []
| FSs_cons f l s ss : FiltStr f s -> FiltStrs l ss -> FiltStrs (f :: l) (s ++ ss).
Scheme FiltStr_mut := Induction for FiltStr Sort Prop with FiltStrs_mut := Induction for FiltStrs Sort Prop.
Combined Scheme FiltStr_FiltStrs_ind from FiltStr_mut, FiltStrs_mut.

Lemma FiltStr_nonempty f s : FiltStr f s -> exists tl, s = "("%byte :: tl.
Proof. intros []; eexists; reflexivity. Qed.
Lemma FiltStrs_count l s : FiltStrs l s -> (length l <= length s)%nat.
Proof. induction 1 as [|f l s ss Hs _ IH]; cbn; [lia|]. rewrite app_length.
  destruct (FiltStr_nonempty _ _ Hs) as (tl & ->). cbn. lia. Qed.

Lemma ItemStr_head it s : ItemStr it s -> exists c tl, s = c :: tl /\
  beq c "&"%byte = false /\ beq c "|"%byte = false /\ beq c "!"%byte = false /\ beq c "("%byte = false.
Proof.
  assert (G : forall c, (is_alpha c = true \/ is_digit c = true) ->
              beq c "&"%byte = false /\ beq c "|"%byte = false /\ beq c "!"%byte = false /\ beq c "("%byte = false).
  { intros c. destruct c; vm_compute; intros [H|H]; repeat split; congruence. }
  intros H. destruct H as [a ? ? Ha|a ? ? Ha|a ? ? Ha|a ? ? Ha|a Ha|a ? ? ? ? ? ? Ha|a dn d mr ? ? Ha|m dn d ? ? Hm Hd].
  1-7: destruct (AttrDesc_head _ Ha) as (c & w & -> & Hc); exists c; eexists; split; [reflexivity|now apply G].
  destruct dn; [destruct Hd as (c1 & c2 & -> & _)|cbn in Hd; subst d]; cbn; eexists; eexists; (split; [reflexivity|repeat split]).
Qed.

Lemma filter_closeparen f rest : filter f (")"%byte :: rest) = None.
Proof. destruct f; reflexivity. Qed.

Theorem filter_complete :
  (forall f s, FiltStr f s -> NoF14 f -> forall fuel rest, (length s < fuel)%nat -> filter fuel (s ++ rest) = Some (ber f, rest)) /\
  (forall l s, FiltStrs l s -> (fix all l := match l with [] => True | g :: r => NoF14 g /\ all r end) l ->
     forall fuel g rest, (length s < fuel)%nat -> (length l <= g)%nat ->
     filterlist (filter fuel) g (s ++ ")"%byte :: rest) = (map ber l, ")"%byte :: rest)).
Proof.
  apply FiltStr_FiltStrs_ind.
  - (* and *) intros l s Hs IH Hn fuel rest Hf. destruct fuel as [|fuel]; [lia|]. cbn [app filter].
    change (beq "(" "(")%byte with true. cbn match. change (beq "&" "&")%byte with true. cbn match.
    rewrite <- app_assoc. cbn [app]. cbn [length] in Hf. rewrite app_length in Hf. cbn [length] in Hf.
    rewrite (IH Hn fuel fuel rest) by (try lia; pose proof (FiltStrs_count _ _ Hs); lia).
    change (beq ")" ")")%byte with true. reflexivity.
  - (* or *) intros l s Hs IH Hn fuel rest Hf. destruct fuel as [|fuel]; [lia|]. cbn [app filter].
    change (beq "(" "(")%byte with true. cbn match. change (beq "|" "&")%byte with false. change (beq "|" "|")%byte with true. cbn match.
    rewrite <- app_assoc. cbn [app]. cbn [length] in Hf. rewrite app_length in Hf. cbn [length] in Hf.
    rewrite (IH Hn fuel fuel rest) by (try lia; pose proof (FiltStrs_count _ _ Hs); lia).
    change (beq ")" ")")%byte with true. reflexivity.
  - (* not *) intros f s Hs IH Hn fuel rest Hf. destruct fuel as [|fuel]; [lia|]. cbn [app filter].
    change (beq "(" "(")%byte with true. cbn match. change (beq "!" "&")%byte with false. change (beq "!" "|")%byte with false.
    change (beq "!" "!")%byte with true. cbn match.
    rewrite <- app_assoc. cbn [app]. cbn [length] in Hf. rewrite app_length in Hf. cbn [length] in Hf.
    rewrite (IH Hn fuel (")"%byte :: rest)) by lia. change (beq ")" ")")%byte with true. reflexivity.
  - (* item *) intros it s Hs Hn fuel rest Hf. destruct fuel as [|fuel]; [lia|]. cbn [app filter].
    change (beq "(" "(")%byte with true. cbn match.
    destruct (ItemStr_head _ _ Hs) as (c & tl & -> & H1 & H2 & H3 & _). cbn [app]. rewrite H1, H2, H3.
    rewrite <- app_assoc. cbn [app]. change (c :: tl ++ ")"%byte :: rest) with ((c :: tl) ++ ")"%byte :: rest).
    rewrite (item_complete _ _ (")"%byte :: rest) Hs Hn eq_refl). change (beq ")" ")")%byte with true. reflexivity.
  - (* nil *) intros _ fuel g rest _ _. cbn [app map]. destruct g; cbn [filterlist]; [reflexivity|now rewrite filter_closeparen].
  - (* cons *) intros f l s ss Hs IHf Hss IHl [Hnf Hnl] fuel g rest Hf Hg. cbn [length] in Hg. destruct g as [|g]; [lia|].
    cbn [filterlist map]. rewrite <- app_assoc. rewrite app_length in Hf.
    rewrite (IHf Hnf fuel (ss ++ ")"%byte :: rest)) by lia.
    rewrite (IHl Hnl fuel g rest) by lia. reflexivity.
Qed.

(* ---------- top level: RFC 4515 strings plus the documented extensions ---------- *)
Inductive Denote : filtA -> list byte -> Prop :=
| D_filter f s : FiltStr f s -> Denote f s            (* includes (&) and (|) *)
| D_bare it s : ItemStr it s -> Denote (FItem it) s.  (* an item without outer parentheses *)

Theorem c08_complete_modulo_F14 f s : Denote f s -> NoF14 f -> parse s = Some (ber f).
Proof.
  intros [f' s' H|it s' H] Hn; unfold parse, filtexpr.
  - pose proof (proj1 filter_complete _ _ H Hn (S (length s')) [] ltac:(lia)) as E. rewrite app_nil_r in E. now rewrite E.
  - destruct (ItemStr_head _ _ H) as (c & tl & -> & _ & _ & _ & Hp).
    assert (Ef : filter (S (length (c :: tl))) (c :: tl) = None) by (cbn [filter]; now rewrite Hp).
    rewrite Ef. pose proof (item_complete _ _ [] H Hn I) as E. rewrite app_nil_r in E. now rewrite E.
Qed.

(* why the exclusion is needed, whatever the parser: the one string "cn:dn:=x" is denoted by two different items *)
Require Import Coq.Strings.String.
Lemma c08_dn_rule_ambiguity : exists it1 it2 s, it1 <> it2 /\ ItemStr it1 s /\ ItemStr it2 s.
Proof.
  exists (IExt None (Some (s2b "cn")) true (s2b "x")), (IExt (Some (s2b "dn")) (Some (s2b "cn")) false (s2b "x")), (s2b "cn:dn:=x").
  assert (Ha : AttrDesc (s2b "cn")) by (exists (s2b "cn"), []; repeat split; [right; exists "c"%byte, ["n"%byte]; repeat split|constructor]).
  assert (Hv : ValEnc (s2b "x") (s2b "x")) by (repeat (apply VE_plain; [reflexivity|]); constructor).
  split; [discriminate|]. split.
  - change (s2b "cn:dn:=x") with (s2b "cn" ++ dnstr true ++ [] ++ ":"%byte :: "="%byte :: s2b "x").
    apply (S_ExtA (s2b "cn") true (dnstr true) None (s2b "x") (s2b "x")); [exact Ha|apply DnStr_canon|exact I|exact Hv].
  - change (s2b "cn:dn:=x") with (s2b "cn" ++ dnstr false ++ (":"%byte :: s2b "dn") ++ ":"%byte :: "="%byte :: s2b "x").
    apply (S_ExtA (s2b "cn") false (dnstr false) (Some (s2b "dn")) (s2b "x") (s2b "x")); [exact Ha|apply DnStr_canon| |exact Hv].
    right. exists "d"%byte, ["n"%byte]. repeat split.
Qed.
(* F14's former witnesses are now within the theorem's domain *)
Example c08_dnmatch_in_domain : NoF14 (FItem (IExt (Some (s2b "dnMatch")) (Some (s2b "cn")) false (s2b "x"))).
Proof. cbn. discriminate. Qed.
Print Assumptions c08_complete_modulo_F14.
Print Assumptions c08_dn_rule_ambiguity.
