(* Calibration sketch (round 0): soundness of the filter parser — whatever it accepts means what it says. C08, second half. *)
From Coq Require Import List NArith Lia Bool Arith.
From Coq.Strings Require Import Byte.
From L3 Require Import Ber Filter FilterSpec.
Import ListNotations.
Open Scope N_scope.

(* ---------- the library's language: RFC 4515 plus single-arc numeric OIDs ---------- *)
Definition NumericOidL (a : list byte) : Prop := exists d ds, IsNumber d /\ Forall IsNumber ds /\ a = d ++ dotted ds.
Definition OidL a := NumericOidL a \/ Descr a.
Definition AttrDescL (a : list byte) : Prop := exists t ws, OidL t /\ Forall IsOption ws /\ a = t ++ optioned ws.
Lemma Oid_OidL a : Oid a -> OidL a.
Proof. intros [(d & ds & H1 & _ & H3 & ->)|H]; [left; now exists d, ds|now right]. Qed.
Lemma AttrDesc_AttrDescL a : AttrDesc a -> AttrDescL a.
Proof. intros (t & ws & Ho & Hw & ->). exists t, ws. repeat split; [now apply Oid_OidL|assumption]. Qed.

(* ---------- inversion of the lexical layer ---------- *)
Lemma span_inv p : forall i w r, span p i = (w, r) -> i = w ++ r /\ forallb p w = true.
Proof. induction i as [|c i IH]; intros w r H; cbn in H.
  - injection H as <- <-. now split.
  - destruct (p c) eqn:Ep.
    + destruct (span p i) as [w' r'] eqn:Es. injection H as <- <-. destruct (IH w' r' eq_refl) as [-> Hw]. split; [reflexivity|]. cbn. now rewrite Ep.
    + injection H as <- <-. now split. Qed.

Lemma number_inv i d r : number i = Some (d, r) -> i = d ++ r /\ IsNumber d.
Proof. unfold number. destruct (span is_digit i) as [w r'] eqn:Es. destruct (span_inv _ _ _ _ Es) as [-> Hw].
  destruct w as [|x [|y w]]; [discriminate| |].
  - intros [= <- <-]. split; [reflexivity|]. repeat split; [discriminate|assumption].
  - destruct (beq x "0"%byte) eqn:E0; [discriminate|]. intros [= <- <-]. split; [reflexivity|]. repeat split; [discriminate|assumption|assumption]. Qed.

Lemma dotnums_inv : forall fuel i s r, dotnums fuel i = (s, r) -> i = s ++ r /\ exists ds, Forall IsNumber ds /\ s = dotted ds.
Proof. induction fuel as [|f IH]; intros i s r H; cbn in H.
  - injection H as <- <-. split; [reflexivity|]. exists []. now split.
  - destruct i as [|b i]; [injection H as <- <-; split; [reflexivity|exists []; now split]|].
    destruct (beq b "."%byte) eqn:Eb; [|injection H as <- <-; split; [reflexivity|exists []; now split]].
    destruct (number i) as [[d r']|] eqn:En; [|injection H as <- <-; split; [reflexivity|exists []; now split]].
    destruct (dotnums f r') as [ds' r''] eqn:Ed. injection H as <- <-.
    destruct (number_inv _ _ _ En) as [-> Hd]. destruct (IH _ _ _ Ed) as [-> (ds & Hds & ->)].
    apply Byte.byte_dec_bl in Eb. subst b. split; [cbn; now rewrite <- app_assoc|]. exists (d :: ds). split; [now constructor|reflexivity]. Qed.

Lemma numericoid_inv i a r : numericoid i = Some (a, r) -> i = a ++ r /\ NumericOidL a.
Proof. unfold numericoid. destruct (number i) as [[d r']|] eqn:En; [|discriminate].
  destruct (dotnums (length r') r') as [s r''] eqn:Ed. intros [= <- <-].
  destruct (number_inv _ _ _ En) as [-> Hd]. destruct (dotnums_inv _ _ _ _ Ed) as [-> (ds & Hds & ->)].
  split; [now rewrite <- app_assoc|]. now exists d, ds. Qed.
Lemma descr_inv i a r : descr i = Some (a, r) -> i = a ++ r /\ Descr a.
Proof. unfold descr. destruct i as [|c i]; [discriminate|]. destruct (is_alpha c) eqn:Ec; [|discriminate].
  destruct (span is_alnum_hyphen i) as [w r'] eqn:Es. intros [= <- <-]. destruct (span_inv _ _ _ _ Es) as [-> Hw].
  split; [reflexivity|]. now exists c, w. Qed.
Lemma attributetype_inv i a r : attributetype i = Some (a, r) -> i = a ++ r /\ OidL a.
Proof. unfold attributetype. destruct (numericoid i) as [[a' r']|] eqn:En.
  - intros [= <- <-]. destruct (numericoid_inv _ _ _ En) as [-> H]. split; [reflexivity|now left].
  - intros H. destruct (descr_inv _ _ _ H) as [-> Hd]. split; [reflexivity|now right]. Qed.

Lemma opts_inv : forall fuel i s r, opts fuel i = (s, r) -> i = s ++ r /\ exists ws, Forall IsOption ws /\ s = optioned ws.
Proof. induction fuel as [|f IH]; intros i s r H; cbn in H.
  - injection H as <- <-. split; [reflexivity|]. exists []. now split.
  - destruct i as [|b i]; [injection H as <- <-; split; [reflexivity|exists []; now split]|].
    destruct (beq b ";"%byte) eqn:Eb; [|injection H as <- <-; split; [reflexivity|exists []; now split]].
    destruct (span is_alnum_hyphen i) as [w r'] eqn:Es. destruct (span_inv _ _ _ _ Es) as [-> Hw].
    destruct w as [|x w]; [injection H as <- <-; split; [reflexivity|exists []; now split]|].
    destruct (opts f r') as [ws' r''] eqn:Eo. injection H as <- <-. destruct (IH _ _ _ Eo) as [-> (ws & Hws & ->)].
    apply Byte.byte_dec_bl in Eb. subst b. split; [cbn; now rewrite <- app_assoc|].
    exists ((x :: w) :: ws). split; [constructor; [split; [discriminate|assumption]|assumption]|reflexivity]. Qed.

Theorem attributedescription_inv i a r : attributedescription i = Some (a, r) -> i = a ++ r /\ AttrDescL a.
Proof. unfold attributedescription. destruct (attributetype i) as [[t r']|] eqn:Et; [|discriminate].
  destruct (opts (length r') r') as [o r''] eqn:Eo. intros [= <- <-].
  destruct (attributetype_inv _ _ _ Et) as [-> Ht]. destruct (opts_inv _ _ _ _ Eo) as [-> (ws & Hws & ->)].
  split; [now rewrite <- app_assoc|]. now exists t, ws. Qed.

(* ---------- values ---------- *)
Lemma hexval_lt h : is_hex h = true -> hexval h < 16.
Proof. destruct h; vm_compute; congruence. Qed.
Lemma hexval_byte h1 h2 : is_hex h1 = true -> is_hex h2 = true -> bN (byte_of_N (hexval h1 * 16 + hexval h2)) = hexval h1 * 16 + hexval h2.
Proof. intros H1 H2. pose proof (hexval_lt _ H1). pose proof (hexval_lt _ H2). rewrite bN_byte_of_N. apply N.mod_small. lia. Qed.

(* what has been consumed so far, by automaton state *)
Inductive Pending : ust -> list byte -> Prop :=
| P_value : Pending Value []
| P_first : Pending WantFirst ["\"%byte]
| P_second h1 : is_hex h1 = true -> Pending (WantSecond (hexval h1)) ["\"%byte; h1].

Lemma unesc_error_stuck : forall i acc out r, unesc_loop UError acc i <> (Value, out, r).
Proof. induction i as [|x i IH]; intros acc out r H; cbn in H; [discriminate|]. destruct (is_value_char x); [now apply IH in H|discriminate]. Qed.

Lemma unesc_inv : forall i st acc out r, unesc_loop st acc i = (Value, out, r) -> forall pend, Pending st pend ->
  exists v s, i = s ++ r /\ out = acc ++ v /\
    match st with
    | Value => ValEnc v s
    | WantFirst => exists c h1 h2 v' s', s = h1 :: h2 :: s' /\ v = c :: v' /\ is_hex h1 = true /\ is_hex h2 = true /\ bN c = hexval h1 * 16 + hexval h2 /\ ValEnc v' s'
    | WantSecond p => exists c h2 v' s', s = h2 :: s' /\ v = c :: v' /\ is_hex h2 = true /\ bN c = p * 16 + hexval h2 /\ ValEnc v' s'
    | UError => False end.
Proof.
  induction i as [|c i IH]; intros st acc out r H pend Hp.
  - cbn in H. injection H as -> <- <-. exists [], []. repeat split; [now rewrite app_nil_r|constructor].
  - cbn [unesc_loop] in H. destruct (is_value_char c) eqn:Evc.
    + destruct st as [| p | |].
      * destruct (is_hex c) eqn:Eh.
        -- destruct (IH _ _ _ _ H _ (P_second c Eh)) as (v & s & -> & -> & (c0 & h2 & v' & s' & -> & -> & Hh2 & Hc & Hv)).
           exists (c0 :: v'), (c :: h2 :: s'). repeat split. exists c0, c, h2, v', s'. now repeat split.
        -- exfalso. now apply unesc_error_stuck in H.
      * destruct (is_hex c) eqn:Eh.
        -- destruct (IH _ _ _ _ H _ P_value) as (v & s & -> & -> & Hv).
           exists (byte_of_N (p * 16 + hexval c) :: v), (c :: s). rewrite <- app_assoc. repeat split.
           exists (byte_of_N (p * 16 + hexval c)), c, v, s. repeat split; try assumption.
           inversion Hp as [| |h1 Hh1 E1]; subst. now apply hexval_byte.
        -- exfalso. now apply unesc_error_stuck in H.
      * destruct (beq c "\"%byte) eqn:Eb.
        -- destruct (IH _ _ _ _ H _ P_first) as (v & s & -> & -> & (c0 & h1 & h2 & v' & s' & -> & -> & H1 & H2 & Hc & Hv)).
           apply Byte.byte_dec_bl in Eb. subst c. exists (c0 :: v'), ("\"%byte :: h1 :: h2 :: s'). repeat split. now apply VE_hex.
        -- destruct (IH _ _ _ _ H _ P_value) as (v & s & -> & -> & Hv). exists (c :: v), (c :: s). rewrite <- app_assoc. repeat split.
           apply VE_plain; [|assumption]. unfold special. now rewrite Evc, Eb.
      * exfalso. now apply unesc_error_stuck in H.
    + injection H as -> <- <-. exists [], []. repeat split; [now rewrite app_nil_r|constructor].
Qed.

Theorem unescaped_inv i v r : unescaped i = Some (v, r) -> exists s, i = s ++ r /\ ValEnc v s.
Proof. unfold unescaped. destruct (unesc_loop Value [] i) as [[st out] r'] eqn:E. destruct st; try discriminate. intros [= <- <-].
  destruct (unesc_inv _ _ _ _ _ E _ P_value) as (v & s & -> & -> & Hv). now exists s. Qed.

Lemma stars_inv : forall fuel i vs r, stars fuel i = (vs, r) -> exists segs, i = starred segs ++ r /\ Forall2 ValEnc vs segs.
Proof. induction fuel as [|f IH]; intros i vs r H; cbn in H.
  - injection H as <- <-. exists []. split; [reflexivity|constructor].
  - destruct i as [|b i]; [injection H as <- <-; exists []; split; [reflexivity|constructor]|].
    destruct (beq b "*"%byte) eqn:Eb; [|injection H as <- <-; exists []; split; [reflexivity|constructor]].
    destruct (unescaped i) as [[v r']|] eqn:Eu; [|injection H as <- <-; exists []; split; [reflexivity|constructor]].
    destruct (stars f r') as [vs' r''] eqn:Es. injection H as <- <-.
    destruct (unescaped_inv _ _ _ Eu) as (s & -> & Hv). destruct (IH _ _ _ Es) as (segs & -> & Hs).
    apply Byte.byte_dec_bl in Eb. subst b. exists (s :: segs). split; [rewrite starred_cons; cbn; now rewrite <- app_assoc|now constructor]. Qed.

(* ---------- the library's item and filter languages ---------- *)
Inductive ItemStrL : itemA -> list byte -> Prop :=
| L_Eq a v s : AttrDescL a -> ValEnc v s -> ItemStrL (IEq a v) (a ++ "="%byte :: s)
| L_Ge a v s : AttrDescL a -> ValEnc v s -> ItemStrL (IGe a v) (a ++ ">"%byte :: "="%byte :: s)
| L_Le a v s : AttrDescL a -> ValEnc v s -> ItemStrL (ILe a v) (a ++ "<"%byte :: "="%byte :: s)
| L_Approx a v s : AttrDescL a -> ValEnc v s -> ItemStrL (IApprox a v) (a ++ "~"%byte :: "="%byte :: s)
| L_Pres a : AttrDescL a -> ItemStrL (IPres a) (a ++ ["="; "*"]%byte)
| L_Sub a ini anys fin si sa sf :
    AttrDescL a -> ONonempty ini -> Forall (fun x => x <> []) anys -> ONonempty fin ->
    ~ (ini = None /\ anys = [] /\ fin = None) ->
    ValEnc (oget ini) si -> Forall2 ValEnc anys sa -> ValEnc (oget fin) sf ->
    ItemStrL (ISub a ini anys fin) (a ++ "="%byte :: si ++ starred (sa ++ [sf]))
| L_ExtA a dn d mr v s : AttrDescL a -> DnStr dn d -> (match mr with Some m => OidL m | None => True end) -> ValEnc v s ->
    ItemStrL (IExt mr (Some a) dn v)
             (a ++ d ++ (match mr with Some m => ":"%byte :: m | None => [] end) ++ ":"%byte :: "="%byte :: s)
| L_ExtM m dn d v s : OidL m -> DnStr dn d -> ValEnc v s ->
    ItemStrL (IExt (Some m) None dn v) (d ++ ":"%byte :: m ++ ":"%byte :: "="%byte :: s).

Lemma tag_inv t : forall i r, tag t i = Some r -> i = t ++ r.
Proof. induction t as [|a t IH]; intros i r H; cbn in H; [now injection H as ->|].
  destruct i as [|b i]; [discriminate|]. destruct (beq a b) eqn:E; [|discriminate]. apply Byte.byte_dec_bl in E. subst. now rewrite (IH _ _ H). Qed.

(* sub_elems / bad_stars read backwards *)
Lemma split_mf (mf : list (list byte)) : mf <> [] -> bad_stars mf = false ->
  exists anys f, mf = anys ++ [f] /\ Forall (fun x => x <> []) anys.
Proof. induction mf as [|x mf IH]; intros Hne Hb; [congruence|]. destruct mf as [|y mf].
  - exists [], x. split; [reflexivity|constructor].
  - rewrite bad_stars_cons2 in Hb by discriminate. apply orb_false_elim in Hb as [Hx Hb].
    destruct (IH ltac:(discriminate) Hb) as (anys & f & E & Ha). exists (x :: anys), f. rewrite E. split; [reflexivity|].
    constructor; [destruct x; [discriminate|discriminate]|assumption]. Qed.
Lemma Forall2_snoc_inv {A B} (R : A -> B -> Prop) l x l' : Forall2 R (l ++ [x]) l' -> exists m y, l' = m ++ [y] /\ Forall2 R l m /\ R x y.
Proof. revert l'. induction l as [|a l IH]; intros l' H.
  - inversion H as [|? ? ? ? Hr Ht]; subst. inversion Ht; subst. exists [], y. now repeat split.
  - inversion H as [|? b ? l'' Hr Ht]; subst. destruct (IH _ Ht) as (m & y & -> & Hm & Hy). exists (b :: m), y. repeat split; [now constructor|assumption]. Qed.

Definition opt_of (v : list byte) : option (list byte) := match v with [] => None | _ => Some v end.
Lemma oget_opt_of v : oget (opt_of v) = v. Proof. now destruct v. Qed.
Lemma ONonempty_opt_of v : ONonempty (opt_of v). Proof. destruct v; cbn; [exact I|discriminate]. Qed.

Lemma build_eq_nonempty a ini mf : mf <> [] ->
  build_eq a ini mf = if is_nil ini && (match mf with [x] => is_nil x | _ => false end) then ctx_p 7 a
                      else C Context 4 [octs a; seq_u ((if is_nil ini then [] else [ctx_p 0 ini]) ++ sub_elems mf)].
Proof. destruct mf; [congruence|reflexivity]. Qed.

Theorem eq_item_inv i t r : eq_item i = Some (t, r) -> exists it s, i = s ++ r /\ ItemStrL it s /\ t = ber_item it.
Proof.
  unfold eq_item. destruct (attributedescription i) as [[a r0]|] eqn:Ea; [|discriminate].
  destruct (tag ["="%byte] r0) as [r1|] eqn:Et; [|discriminate].
  destruct (unescaped r1) as [[ini r2]|] eqn:Eu; [|discriminate].
  destruct (stars (length r2) r2) as [mf r3] eqn:Es. destruct (bad_stars mf) eqn:Eb; [discriminate|]. intros [= <- <-].
  destruct (attributedescription_inv _ _ _ Ea) as [-> Ha]. apply tag_inv in Et. subst r0.
  destruct (unescaped_inv _ _ _ Eu) as (si & -> & Hi). destruct (stars_inv _ _ _ _ Es) as (segs & -> & Hs).
  destruct (list_eq_dec (list_eq_dec Byte.byte_eq_dec) mf []) as [->|Hne].
  - (* equality *) inversion Hs; subst. exists (IEq a ini), (a ++ "="%byte :: si). cbn [starred map concat app]. repeat split.
    + now rewrite <- app_assoc.
    + now constructor.
  - destruct (split_mf mf Hne Eb) as (anys & f & -> & Hanys).
    destruct (Forall2_snoc_inv _ _ _ _ Hs) as (sa & sf & -> & Hsa & Hsf).
    rewrite build_eq_nonempty by exact Hne.
    destruct (is_nil ini && match anys ++ [f] with [x] => is_nil x | _ => false end) eqn:Ep.
    + (* presence: initial empty, a single empty segment *)
      apply andb_true_iff in Ep as [Hi0 Hm1]. destruct ini; [|discriminate]. inversion Hi; subst.
      destruct anys as [|y anys]; [|destruct anys; discriminate]. cbn in Hm1. destruct f; [|discriminate].
      inversion Hsa; subst. inversion Hsf; subst.
      exists (IPres a), (a ++ ["="; "*"]%byte). repeat split.
      * cbn. now rewrite <- app_assoc.
      * now constructor.
    + (* substring *)
      exists (ISub a (opt_of ini) anys (opt_of f)), (a ++ "="%byte :: si ++ starred (sa ++ [sf])). repeat split.
      * rewrite <- !app_assoc. cbn. now rewrite <- app_assoc.
      * constructor; try assumption; try apply ONonempty_opt_of; try (now rewrite oget_opt_of).
        intros (Hi0 & Ha0 & Hf0). subst anys. destruct ini; [|discriminate]. destruct f; [|discriminate]. discriminate.
      * rewrite sub_elems_snoc by assumption. cbn [ber_item]. repeat f_equal.
        -- now destruct ini.
        -- now destruct f.
Qed.

Theorem non_eq_inv i t r : non_eq i = Some (t, r) -> exists it s, i = s ++ r /\ ItemStrL it s /\ t = ber_item it.
Proof.
  unfold non_eq. destruct (attributedescription i) as [[a r0]|] eqn:Ea; [|discriminate].
  destruct (attributedescription_inv _ _ _ Ea) as [-> Ha].
  destruct (tag [">"; "="]%byte r0) as [r1|] eqn:E1.
  - destruct (unescaped r1) as [[v r2]|] eqn:Eu; [|discriminate]. intros [= <- <-].
    apply tag_inv in E1. subst r0. destruct (unescaped_inv _ _ _ Eu) as (s & -> & Hv).
    exists (IGe a v), (a ++ ">"%byte :: "="%byte :: s). repeat split; [rewrite <- app_assoc; reflexivity|now constructor].
  - destruct (tag ["<"; "="]%byte r0) as [r1|] eqn:E2.
    + destruct (unescaped r1) as [[v r2]|] eqn:Eu; [|discriminate]. intros [= <- <-].
      apply tag_inv in E2. subst r0. destruct (unescaped_inv _ _ _ Eu) as (s & -> & Hv).
      exists (ILe a v), (a ++ "<"%byte :: "="%byte :: s). repeat split; [rewrite <- app_assoc; reflexivity|now constructor].
    + destruct (tag ["~"; "="]%byte r0) as [r1|] eqn:E3; [|discriminate].
      destruct (unescaped r1) as [[v r2]|] eqn:Eu; [|discriminate]. intros [= <- <-].
      apply tag_inv in E3. subst r0. destruct (unescaped_inv _ _ _ Eu) as (s & -> & Hv).
      exists (IApprox a v), (a ++ "~"%byte :: "="%byte :: s). repeat split; [rewrite <- app_assoc; reflexivity|now constructor].
Qed.

Lemma opt_dn_inv i b r : opt_dn i = (b, r) -> exists d, DnStr b d /\ i = d ++ r.
Proof. unfold opt_dn. destruct i as [|c0 [|c1 [|c2 [|c r']]]]; try (intros [= <- <-]; exists []; now split).
  destruct (beq c0 ":"%byte) eqn:E0; cbn [andb]; [|intros [= <- <-]; exists []; now split].
  destruct (is_dn c1 c2) eqn:Ed; cbn [andb]; [|intros [= <- <-]; exists []; now split].
  destruct (beq c ":"%byte); intros [= <- <-]; [|exists []; now split].
  apply Byte.byte_dec_bl in E0. subst c0. exists [":"%byte; c1; c2]. split; [exists c1, c2; now split|reflexivity]. Qed.
Lemma opt_dn_m_inv i b r : opt_dn_m i = (b, r) -> exists d, DnStr b d /\ i = d ++ r.
Proof. unfold opt_dn_m. destruct i as [|c0 [|c1 [|c2 [|c r']]]]; try (intros [= <- <-]; exists []; now split).
  destruct (beq c0 ":"%byte) eqn:E0; cbn [andb]; [|intros [= <- <-]; exists []; now split].
  destruct (is_dn c1 c2) eqn:Ed; cbn [andb]; [|intros [= <- <-]; exists []; now split].
  destruct (beq c ":"%byte); cbn [andb]; [|intros [= <- <-]; exists []; now split].
  destruct (negb _); intros [= <- <-]; [|exists []; now split].
  apply Byte.byte_dec_bl in E0. subst c0. exists [":"%byte; c1; c2]. split; [exists c1, c2; now split|reflexivity]. Qed.
Lemma opt_tag_inv t i b r : opt_tag t i = (b, r) -> i = (if b then t else []) ++ r.
Proof. unfold opt_tag. destruct (tag t i) as [r'|] eqn:E; intros [= <- <-]; [now apply tag_inv in E|reflexivity]. Qed.
Lemma opt_mrule_inv i mr r : opt_mrule i = (mr, r) ->
  i = (match mr with Some m => ":"%byte :: m | None => [] end) ++ r /\ (match mr with Some m => OidL m | None => True end).
Proof. unfold opt_mrule. destruct (tag [":"%byte] i) as [r1|] eqn:E1; [|intros [= <- <-]; now split].
  destruct (attributetype r1) as [[m r2]|] eqn:E2; intros [= <- <-]; [|now split].
  apply tag_inv in E1. subst i. destruct (attributetype_inv _ _ _ E2) as [-> Hm]. split; [cbn; reflexivity|assumption]. Qed.

Theorem attr_dn_mrule_inv i t r : attr_dn_mrule i = Some (t, r) -> exists it s, i = s ++ r /\ ItemStrL it s /\ t = ber_item it.
Proof.
  unfold attr_dn_mrule. destruct (attributedescription i) as [[a r0]|] eqn:Ea; [|discriminate].
  destruct (opt_dn r0) as [dn r1] eqn:Ed. destruct (opt_mrule r1) as [mr r2] eqn:Em.
  destruct (tag [":"; "="]%byte r2) as [r3|] eqn:Et; [|discriminate]. destruct (unescaped r3) as [[v r4]|] eqn:Eu; [|discriminate]. intros [= <- <-].
  destruct (attributedescription_inv _ _ _ Ea) as [-> Ha]. apply opt_dn_inv in Ed as (d & Hd & Ed). destruct (opt_mrule_inv _ _ _ Em) as [E2 Hm].
  apply tag_inv in Et. destruct (unescaped_inv _ _ _ Eu) as (s & -> & Hv). subst r0 r1 r2.
  exists (IExt mr (Some a) dn v), (a ++ d ++ (match mr with Some m => ":"%byte :: m | None => [] end) ++ ":"%byte :: "="%byte :: s).
  repeat split; [|now constructor]. rewrite <- !app_assoc; cbn; now rewrite <- ?app_assoc.
Qed.
Theorem dn_mrule_inv i t r : dn_mrule i = Some (t, r) -> exists it s, i = s ++ r /\ ItemStrL it s /\ t = ber_item it.
Proof.
  unfold dn_mrule. destruct (opt_dn_m i) as [dn r1] eqn:Ed.
  destruct (tag [":"%byte] r1) as [r1'|] eqn:Ec; [|discriminate]. destruct (attributetype r1') as [[m r2]|] eqn:Em; [|discriminate].
  destruct (tag [":"; "="]%byte r2) as [r3|] eqn:Et; [|discriminate]. destruct (unescaped r3) as [[v r4]|] eqn:Eu; [|discriminate]. intros [= <- <-].
  apply opt_dn_m_inv in Ed as (d & Hd & Ed). apply tag_inv in Ec. destruct (attributetype_inv _ _ _ Em) as [-> Hm]. apply tag_inv in Et.
  destruct (unescaped_inv _ _ _ Eu) as (s & -> & Hv). subst i r1 r2.
  exists (IExt (Some m) None dn v), (d ++ ":"%byte :: m ++ ":"%byte :: "="%byte :: s).
  repeat split; [|now constructor]. cbn; rewrite <- ?app_assoc; cbn; now rewrite <- ?app_assoc.
Qed.

Theorem item_inv i t r : item i = Some (t, r) -> exists it s, i = s ++ r /\ ItemStrL it s /\ t = ber_item it.
Proof. unfold item. destruct (eq_item i) as [x|] eqn:E1; [intros [= ->]; now apply eq_item_inv|].
  destruct (non_eq i) as [x|] eqn:E2; [intros [= ->]; now apply non_eq_inv|].
  destruct (attr_dn_mrule i) as [x|] eqn:E3; [intros [= ->]; now apply attr_dn_mrule_inv|]. apply dn_mrule_inv. Qed.

(* ---------- filters ---------- *)
Inductive FiltStrL : filtA -> list byte -> Prop :=
| FL_And l s : FiltStrsL l s -> FiltStrL (FAnd l) ("("%byte :: "&"%byte :: s ++ [")"%byte])
| FL_Or l s : FiltStrsL l s -> FiltStrL (FOr l) ("("%byte :: "|"%byte :: s ++ [")"%byte])
| FL_Not f s : FiltStrL f s -> FiltStrL (FNot f) ("("%byte :: "!"%byte :: s ++ [")"%byte])
| FL_Item it s : ItemStrL it s -> FiltStrL (FItem it) ("("%byte :: s ++ [")"%byte])
with FiltStrsL : list filtA -> list byte -> Prop :=
| FLs_nil : FiltStrsL [] []
| FLs_cons f l s ss : FiltStrL f s -> FiltStrsL l ss -> FiltStrsL (f :: l) (s ++ ss).

Lemma filterlist_inv flt : (forall i t r, flt i = Some (t, r) -> exists f s, i = s ++ r /\ FiltStrL f s /\ t = ber f) ->
  forall g i ts r, filterlist flt g i = (ts, r) -> exists l s, i = s ++ r /\ FiltStrsL l s /\ ts = map ber l.
Proof. intros Hf. induction g as [|g IH]; intros i ts r H; cbn in H.
  - injection H as <- <-. exists [], []. repeat split. constructor.
  - destruct (flt i) as [[t r1]|] eqn:E; [|injection H as <- <-; exists [], []; repeat split; constructor].
    destruct (filterlist flt g r1) as [ts' r2] eqn:E2. injection H as <- <-.
    destruct (Hf _ _ _ E) as (f & s & -> & Hs & ->). destruct (IH _ _ _ E2) as (l & ss & -> & Hl & ->).
    exists (f :: l), (s ++ ss). repeat split; [now rewrite <- app_assoc|now constructor]. Qed.

Theorem filter_inv : forall fuel i t r, filter fuel i = Some (t, r) -> exists f s, i = s ++ r /\ FiltStrL f s /\ t = ber f.
Proof.
  induction fuel as [|fuel IH]; intros i t r H; [discriminate|]. cbn [filter] in H.
  destruct i as [|b i]; [discriminate|]. destruct (beq b "("%byte) eqn:Eb; [|discriminate]. apply Byte.byte_dec_bl in Eb. subst b.
  (* name the component parse *)
  match type of H with match ?comp with _ => _ end = _ => destruct comp as [[tc rc]|] eqn:Ec; [|discriminate] end.
  destruct rc as [|c rc']; [discriminate|]. destruct (beq c ")"%byte) eqn:Ep; [|discriminate]. apply Byte.byte_dec_bl in Ep. subst c. injection H as -> ->.
  assert (Hitem : forall x, item x = Some (t, ")"%byte :: r) -> exists f s, "("%byte :: x = s ++ r /\ FiltStrL f s /\ t = ber f).
  { intros x Hx. destruct (item_inv _ _ _ Hx) as (it & s & -> & Hs & ->). exists (FItem it), ("("%byte :: s ++ [")"%byte]).
    repeat split; [cbn; rewrite <- app_assoc; reflexivity|now constructor]. }
  destruct i as [|c i]; [now apply Hitem|].
  destruct (beq c "&"%byte) eqn:Ea.
  - apply Byte.byte_dec_bl in Ea. subst c. destruct (filterlist (filter fuel) fuel i) as [ts r2] eqn:El. injection Ec as <- ->.
    destruct (filterlist_inv (filter fuel) IH _ _ _ _ El) as (l & s & -> & Hl & ->).
    exists (FAnd l), ("("%byte :: "&"%byte :: s ++ [")"%byte]). repeat split; [cbn; rewrite <- app_assoc; reflexivity|now constructor].
  - destruct (beq c "|"%byte) eqn:Eo.
    + apply Byte.byte_dec_bl in Eo. subst c. destruct (filterlist (filter fuel) fuel i) as [ts r2] eqn:El. injection Ec as <- ->.
      destruct (filterlist_inv (filter fuel) IH _ _ _ _ El) as (l & s & -> & Hl & ->).
      exists (FOr l), ("("%byte :: "|"%byte :: s ++ [")"%byte]). repeat split; [cbn; rewrite <- app_assoc; reflexivity|now constructor].
    + destruct (beq c "!"%byte) eqn:En; [|now apply Hitem].
      destruct (filter fuel i) as [[tn rn]|] eqn:Ef; [|now apply Hitem]. injection Ec as <- ->.
      apply Byte.byte_dec_bl in En. subst c. destruct (IH _ _ _ Ef) as (f & s & -> & Hs & ->).
      exists (FNot f), ("("%byte :: "!"%byte :: s ++ [")"%byte]). repeat split; [cbn; rewrite <- app_assoc; reflexivity|now constructor].
Qed.

(* the library's language at top level *)
Inductive DenoteL : filtA -> list byte -> Prop :=
| DL_filter f s : FiltStrL f s -> DenoteL f s
| DL_bare it s : ItemStrL it s -> DenoteL (FItem it) s.

Theorem c08_sound s t : parse s = Some t -> exists f, DenoteL f s /\ t = ber f.
Proof.
  unfold parse, filtexpr. destruct (filter (S (length s)) s) as [[t' r]|] eqn:Ef.
  - destruct r; [|discriminate]. intros [= <-]. destruct (filter_inv _ _ _ _ Ef) as (f & s' & E & Hs & ->). rewrite app_nil_r in E. subst s'.
    exists f. split; [now constructor|reflexivity].
  - destruct (item s) as [[t' r]|] eqn:Ei; [|discriminate]. destruct r; [|discriminate]. intros [= <-].
    destruct (item_inv _ _ _ Ei) as (it & s' & E & Hs & ->). rewrite app_nil_r in E. subst s'.
    exists (FItem it). split; [now apply DL_bare|reflexivity].
Qed.
Print Assumptions c08_sound.

(* the RFC language is contained in the library's language, so soundness and completeness talk about the same trees *)
Lemma ItemStr_ItemStrL it s : ItemStr it s -> ItemStrL it s.
Proof. intros []; constructor; try assumption; try (now apply AttrDesc_AttrDescL); try (destruct mr; [now apply Oid_OidL|exact I]); now apply Oid_OidL. Qed.
Lemma FiltStr_FiltStrL : (forall f s, FiltStr f s -> FiltStrL f s) /\ (forall l s, FiltStrs l s -> FiltStrsL l s).
Proof. apply FiltStr_FiltStrs_ind; intros; try (constructor; assumption). constructor. now apply ItemStr_ItemStrL. Qed.
Theorem Denote_DenoteL f s : Denote f s -> DenoteL f s.
Proof. intros [f' s' H|it s' H]; [apply DL_filter; now apply (proj1 FiltStr_FiltStrL)|apply DL_bare; now apply ItemStr_ItemStrL]. Qed.
