(* Calibration sketch (round 0): BER model faithful to lber write.rs / parse.rs, spec relation, round trip. *)
From Coq Require Import List NArith Lia Bool Arith.
From Coq.Strings Require Import Byte.
Import ListNotations.
Open Scope N_scope.
Arguments N.add : simpl never. Arguments N.mul : simpl never. Arguments N.div : simpl never.
Arguments N.modulo : simpl never. Arguments N.pow : simpl never. Arguments N.ltb : simpl never.
Arguments N.leb : simpl never. Arguments N.eqb : simpl never. Arguments N.land : simpl never.
Arguments N.testbit : simpl never. Arguments N.shiftr : simpl never. Arguments N.sub : simpl never.

Definition bN := Byte.to_N.
Definition byte_of_N (n : N) : byte := match Byte.of_N (n mod 256) with Some b => b | None => x00 end.
Lemma bN_byte_of_N n : bN (byte_of_N n) = n mod 256.
Proof. unfold byte_of_N, bN. destruct (Byte.of_N (n mod 256)) eqn:E.
 - apply Byte.to_of_N in E. exact E.
 - exfalso. assert (n mod 256 < 256) by (apply N.mod_lt; lia).
   destruct (Byte.of_N_None_iff (n mod 256)) as [H1 _]. specialize (H1 E). lia. Qed.
Lemma bN_lt b : bN b < 256.
Proof. unfold bN. pose proof (Byte.to_N_bounded b). lia. Qed.

Inductive class := Universal | Application | Context | Private.
Definition class_N c := match c with Universal => 0 | Application => 1 | Context => 2 | Private => 3 end.
Definition class_of_N n := if n =? 0 then Universal else if n =? 1 then Application else if n =? 2 then Context else Private.

Inductive tree := P (c : class) (id : N) (v : list byte) | C (c : class) (id : N) (ts : list tree).

(* ---------- encoder (write.rs) ---------- *)
Fixpoint be (f : nat) (n : N) : list byte :=
  match f with O => [] | S f' => if n =? 0 then [] else be f' (n / 256) ++ [byte_of_N n] end.
Definition write_length (n : N) : list byte :=
  if n <? 128 then [byte_of_N n] else let bs := be 8 n in byte_of_N (128 + N.of_nat (length bs)) :: bs.
(* base-128 groups, most significant first, continuation bit on all but the last (id > 30 only) *)
Fixpoint b128 (f : nat) (n : N) : list N :=
  match f with O => [] | S f' => if n =? 0 then [] else b128 f' (n / 128) ++ [n mod 128] end.
Definition ext_tag (id : N) : list byte :=
  let gs := b128 10 id in
  map (fun g => byte_of_N (128 + g)) (removelast gs) ++ [byte_of_N (last gs 0)].
Definition write_type (c : class) (pc : bool) (id : N) : list byte :=
  let hi := class_N c * 64 + (if pc then 32 else 0) in
  if 30 <? id then byte_of_N (hi + 31) :: ext_tag id else [byte_of_N (hi + id)].

Fixpoint encode (t : tree) : list byte :=
  match t with
  | P c id v => write_type c false id ++ write_length (N.of_nat (length v)) ++ v
  | C c id ts => let body := (fix go ts := match ts with [] => [] | t :: r => encode t ++ go r end) ts in
                 write_type c true id ++ write_length (N.of_nat (length body)) ++ body
  end.
Definition encodes (ts : list tree) : list byte := flat_map encode ts.

(* ---------- parser (parse.rs), nom streaming results ---------- *)
Inductive pres (A : Type) := POk (a : A) | PInc | PErr | PFuel.
Arguments POk {A}. Arguments PInc {A}. Arguments PErr {A}. Arguments PFuel {A}.

Definition parse_uint (bs : list byte) : N := fold_left (fun r b => (r * 256 + bN b) mod 2^64) bs 0.
Definition be_value (bs : list byte) : N := fold_left (fun r b => r * 256 + bN b) bs 0.
(* repair F38: length octets whose value does not fit 64 bits are an error; as found ([parse_length_asfound]) the value was folded modulo
   2^64 by the shifts of parse_uint, so that an element announcing 2^64+12 octets was complete after 12 *)
Definition parse_length_gen (strict : bool) (i : list byte) : pres (N * list byte) :=
  match i with [] => PInc | b :: r =>
    let l := bN b in
    if l <? 128 then POk (l, r) else
      if strict && (l =? 128) then PErr else     (* 0x80 announces the indefinite form; as found it was read as a long form of no octets, i.e. length 0 *)
      let k := N.to_nat (l - 128) in
      if Nat.ltb (length r) k then PInc else
      if strict && negb (be_value (firstn k r) <? 2^64) then PErr else POk (parse_uint (firstn k r), skipn k r) end.
Definition parse_length := parse_length_gen true.
Definition parse_length_asfound := parse_length_gen false.
Definition parse_header (b0 : byte) : class * bool * N :=
  let n := bN b0 in (class_of_N (n / 64), N.testbit n 5, N.land n 31).

Fixpoint seq_loop (pt : list byte -> pres (tree * list byte)) (g : nat) (c : list byte) : pres (list tree) :=
  match c with [] => POk [] | _ =>
  match g with O => PFuel | S g' =>
    match pt c with
    | POk (t, c') => match seq_loop pt g' c' with POk ts => POk (t :: ts) | PInc => PInc | PErr => PErr | PFuel => PFuel end
    | PInc => PInc | PErr => PErr | PFuel => PFuel end end end.

Fixpoint parse_tag (fuel : nat) (i : list byte) : pres (tree * list byte) :=
  match fuel with O => PFuel | S f =>
  match i with [] => PInc | b0 :: i1 =>
    let '(cls, pc, id) := parse_header b0 in
    match parse_length i1 with
    | POk (len, i2) =>
        if N.of_nat (length i2) <? len then PInc else
        let content := firstn (N.to_nat len) i2 in let rest := skipn (N.to_nat len) i2 in
        if pc then
          match seq_loop (parse_tag f) f content with
          | POk ts => POk (C cls id ts, rest) | PInc => PInc | PErr => PErr | PFuel => PFuel end
        else POk (P cls id content, rest)
    | PInc => PInc | PErr => PErr | PFuel => PFuel end end end.

(* ---------- specification: any definite-length encoding ---------- *)
Inductive LenEnc : N -> list byte -> Prop :=
| LE_short n : n < 128 -> LenEnc n [byte_of_N n]
| LE_long n bs : (1 <= length bs <= 127)%nat -> be_value bs = n -> n < 2^64 ->
                 LenEnc n (byte_of_N (128 + N.of_nat (length bs)) :: bs).
Definition ident (c : class) (pc : bool) (id : N) : byte := byte_of_N (class_N c * 64 + (if pc then 32 else 0) + id).
Inductive BerEnc : tree -> list byte -> Prop :=
| BE_P c id v l : id <= 30 -> LenEnc (N.of_nat (length v)) l -> BerEnc (P c id v) (ident c false id :: l ++ v)
| BE_C c id ts l body : id <= 30 -> BerEncs ts body -> LenEnc (N.of_nat (length body)) l ->
                        BerEnc (C c id ts) (ident c true id :: l ++ body)
with BerEncs : list tree -> list byte -> Prop :=
| BEs_nil : BerEncs [] []
| BEs_cons t ts b bs : BerEnc t b -> BerEncs ts bs -> BerEncs (t :: ts) (b ++ bs).
Scheme BerEnc_mut := Induction for BerEnc Sort Prop with BerEncs_mut := Induction for BerEncs Sort Prop.
Combined Scheme BerEnc_BerEncs_ind from BerEnc_mut, BerEncs_mut.

(* ---------- lemmas ---------- *)
Lemma header_ident c pc id : id <= 30 -> parse_header (ident c pc id) = (c, pc, id).
Proof.
  intros H. unfold parse_header, ident. rewrite bN_byte_of_N.
  assert (Hs : class_N c * 64 + (if pc then 32 else 0) + id < 256) by (destruct c, pc; cbn; lia).
  rewrite N.mod_small by exact Hs.
  (* finite sweep: 4 classes x 2 x 31 ids *)
  assert (Hid : exists k, (k <= 30)%nat /\ id = N.of_nat k) by (exists (N.to_nat id); split; lia).
  destruct Hid as (k & Hk & ->).
  do 31 (destruct k as [|k]; [destruct c, pc; vm_compute; reflexivity|]). lia.
Qed.

Lemma parse_uint_snoc l b : parse_uint (l ++ [b]) = (parse_uint l * 256 + bN b) mod 2^64.
Proof. unfold parse_uint. now rewrite fold_left_app. Qed.
Lemma be_value_snoc l b : be_value (l ++ [b]) = be_value l * 256 + bN b.
Proof. unfold be_value. now rewrite fold_left_app. Qed.
Lemma parse_uint_be_value bs : be_value bs < 2^64 -> parse_uint bs = be_value bs.
Proof.
  induction bs as [|b l IH] using rev_ind; intros H; [reflexivity|].
  rewrite be_value_snoc in H. rewrite parse_uint_snoc, be_value_snoc.
  pose proof (bN_lt b). rewrite IH by lia. apply N.mod_small. exact H.
Qed.

Lemma firstn_app_exact {A} (l r : list A) : firstn (length l) (l ++ r) = l.
Proof. induction l; cbn; congruence. Qed.
Lemma skipn_app_exact {A} (l r : list A) : skipn (length l) (l ++ r) = r.
Proof. induction l; cbn; congruence. Qed.

Lemma parse_length_spec n l rest : LenEnc n l -> parse_length (l ++ rest) = POk (n, rest).
Proof.
  intros [n' Hn | n' bs [Hl1 Hl2] Hv Hn].
  - unfold parse_length. cbn [app parse_length_gen]. rewrite bN_byte_of_N, N.mod_small by lia.
    destruct (N.ltb_spec n' 128); [reflexivity|lia].
  - unfold parse_length. cbn [app parse_length_gen]. rewrite bN_byte_of_N, N.mod_small by lia.
    destruct (N.ltb_spec (128 + N.of_nat (length bs)) 128); [lia|].
    destruct (N.eqb_spec (128 + N.of_nat (length bs)) 128); [lia|]. cbn [andb].
    replace (N.to_nat (128 + N.of_nat (length bs) - 128)) with (length bs) by lia.
    rewrite app_length. destruct (Nat.ltb_spec (length bs + length rest) (length bs)); [lia|].
    rewrite firstn_app_exact, skipn_app_exact, parse_uint_be_value by (rewrite Hv; exact Hn).
    rewrite Hv. destruct (N.ltb_spec n' (2^64)); [reflexivity|lia].
Qed.

Lemma BerEnc_nonempty t b : BerEnc t b -> b <> [].
Proof. intros []; discriminate. Qed.
Lemma BerEncs_count ts body : BerEncs ts body -> (length ts <= length body)%nat.
Proof. induction 1 as [|t ts b bs Hb _ IH]; cbn; [lia|]. rewrite app_length.
  destruct b; [now apply BerEnc_nonempty in Hb|cbn; lia]. Qed.

Theorem any_encoding_parses :
  (forall t bs, BerEnc t bs -> forall f rest, (length bs < f)%nat -> parse_tag f (bs ++ rest) = POk (t, rest)) /\
  (forall ts body, BerEncs ts body -> forall f g rest, (length body < f)%nat -> (length ts <= g)%nat -> rest = [] ->
      seq_loop (parse_tag f) g (body ++ rest) = POk ts).
Proof.
  apply BerEnc_BerEncs_ind.
  - (* primitive *) intros c id v l Hid Hl f rest Hf. destruct f as [|f]; [cbn in Hf; lia|].
    cbn [app parse_tag]. rewrite header_ident by exact Hid. rewrite <- app_assoc, (parse_length_spec _ _ _ Hl).
    rewrite app_length. destruct (N.ltb_spec (N.of_nat (length v + length rest)) (N.of_nat (length v))); [lia|].
    rewrite Nat2N.id, firstn_app_exact, skipn_app_exact. reflexivity.
  - (* constructed *) intros c id ts l body Hid Hts IH Hl f rest Hf. destruct f as [|f]; [cbn in Hf; lia|].
    cbn [app parse_tag]. rewrite header_ident by exact Hid. rewrite <- app_assoc, (parse_length_spec _ _ _ Hl).
    rewrite app_length. destruct (N.ltb_spec (N.of_nat (length body + length rest)) (N.of_nat (length body))); [lia|].
    rewrite Nat2N.id, firstn_app_exact, skipn_app_exact.
    cbn [length] in Hf. rewrite app_length in Hf.
    specialize (IH f f [] ltac:(lia) ltac:(pose proof (BerEncs_count _ _ Hts); lia) eq_refl).
    rewrite app_nil_r in IH. rewrite IH. reflexivity.
  - (* nil *) intros f g rest _ _ ->. destruct g; reflexivity.
  - (* pc *) intros t ts b bs Hb IHb Hbs IHbs f g rest Hf Hg ->. rewrite app_nil_r.
    rewrite app_length in Hf. cbn [length] in Hg. destruct g as [|g]; [lia|].
    pose proof (BerEnc_nonempty _ _ Hb) as Hne.
    destruct (b ++ bs) as [|x xs] eqn:E; [destruct b; [congruence|discriminate]|]. rewrite <- E.
    cbn [seq_loop]. rewrite E. rewrite <- E.
    rewrite (IHb f bs ltac:(lia)).
    specialize (IHbs f g [] ltac:(lia) ltac:(lia) eq_refl). rewrite app_nil_r in IHbs. rewrite IHbs. reflexivity.
Qed.

(* ---------- the encoder produces a member of the spec relation ---------- *)
Lemma be_spec f : forall n, n < 256 ^ N.of_nat f -> be_value (be f n) = n /\ (length (be f n) <= f)%nat /\ (0 < n -> (0 < length (be f n))%nat).
Proof.
  induction f as [|f IH]; intros n Hn.
  - cbn [be]. change (256 ^ N.of_nat 0) with 1 in Hn. assert (n = 0) by lia. subst. repeat split; try reflexivity; simpl; lia.
  - cbn [be]. destruct (N.eqb_spec n 0) as [->|Hne].
    + repeat split; simpl; lia.
    + assert (Hd : n / 256 < 256 ^ N.of_nat f).
      { apply N.div_lt_upper_bound; [lia|]. rewrite Nat2N.inj_succ, N.pow_succ_r' in Hn. lia. }
      destruct (IH _ Hd) as (E & L & _).
      rewrite be_value_snoc, E, bN_byte_of_N, app_length. cbn [length].
      repeat split; try lia. rewrite N.mul_comm. symmetry. apply N.div_mod. lia.
Qed.

Lemma write_length_LenEnc n : n < 2^64 -> LenEnc n (write_length n).
Proof.
  intros H. unfold write_length. destruct (N.ltb_spec n 128); [now constructor|].
  change (2^64) with (256 ^ N.of_nat 8) in H. destruct (be_spec 8 n H) as (E & L & P).
  constructor; [split; [apply P; lia|lia] | exact E | exact H].
Qed.

Lemma write_type_small c pc id : id <= 30 -> write_type c pc id = [ident c pc id].
Proof. intros H. unfold write_type, ident. destruct (N.ltb_spec 30 id); [lia|]. reflexivity. Qed.

Fixpoint ids_ok (t : tree) : Prop :=
  match t with P _ id _ => id <= 30
  | C _ id ts => id <= 30 /\ (fix all ts := match ts with [] => True | t :: r => ids_ok t /\ all r end) ts end.
(* every content length fits a usize *)
Fixpoint small (t : tree) : Prop :=
  match t with P _ _ v => N.of_nat (length v) < 2^64
  | C _ _ ts => N.of_nat (length (encodes ts)) < 2^64 /\ (fix all ts := match ts with [] => True | t :: r => small t /\ all r end) ts end.

Lemma tree_ind' (Q : tree -> Prop) :
  (forall c id v, Q (P c id v)) ->
  (forall c id ts, Forall Q ts -> Q (C c id ts)) -> forall t, Q t.
Proof. intros HP HC. fix IH 1. intros [c id v|c id ts]; [apply HP|apply HC].
  induction ts as [|t ts IHts]; constructor; [apply IH|exact IHts]. Qed.

Lemma encode_go ts : (fix go ts := match ts with [] => [] | t :: r => encode t ++ go r end) ts = encodes ts.
Proof. induction ts as [|t ts IH]; cbn; [reflexivity|]. now rewrite IH. Qed.

Theorem encode_is_encoding t : ids_ok t -> small t -> BerEnc t (encode t).
Proof.
  induction t as [c id v|c id ts IH] using tree_ind'; intros Hid Hs.
  - cbn in *. rewrite write_type_small by exact Hid. cbn [app]. constructor; [exact Hid|now apply write_length_LenEnc].
  - cbn [encode]. rewrite encode_go. cbn in Hid, Hs. destruct Hid as [Hid Hids]. destruct Hs as [Hlen Hss].
    rewrite write_type_small by exact Hid. cbn [app]. constructor; [exact Hid| |now apply write_length_LenEnc].
    clear Hlen. induction ts as [|t ts IHts]; cbn; [constructor|].
    inversion IH as [|? ? Ht Hts]; subst. destruct Hids as [Hi Hids]. destruct Hss as [Hs Hss].
    constructor; [now apply Ht|now apply IHts].
Qed.

Corollary roundtrip t rest : ids_ok t -> small t ->
  parse_tag (S (length (encode t))) (encode t ++ rest) = POk (t, rest).
Proof. intros Hi Hs. apply (proj1 any_encoding_parses); [now apply encode_is_encoding|lia]. Qed.

(* F38: what the length parser returns is the value its octets denote - no folding *)
Theorem parse_length_honest b r n r' : parse_length (b :: r) = POk (n, r') -> 128 <= bN b ->
  let k := N.to_nat (bN b - 128) in n = be_value (firstn k r) /\ r' = skipn k r /\ n < 2^64 /\ (0 < k)%nat.
Proof.
  unfold parse_length. cbn [parse_length_gen]. intros H Hb. destruct (N.ltb_spec (bN b) 128); [lia|].
  cbn [andb] in H. destruct (N.eqb_spec (bN b) 128) as [|Hne]; [discriminate|].
  destruct (Nat.ltb (length r) (N.to_nat (bN b - 128))); [discriminate|]. cbn [andb] in H.
  destruct (N.ltb_spec (be_value (firstn (N.to_nat (bN b - 128)) r)) (2^64)) as [Hlt|]; [|discriminate]. cbn [negb] in H.
  injection H as <- <-. cbn zeta. rewrite parse_uint_be_value by exact Hlt. repeat split; [exact Hlt|lia].
Qed.
Lemma c11_refuted_F38_length : let i := map byte_of_N [137; 1; 0; 0; 0; 0; 0; 0; 0; 12; 48] in
  parse_length_asfound i = POk (12, [byte_of_N 48]) /\ parse_length i = PErr /\
  parse_length (map byte_of_N [137; 0; 0; 0; 0; 0; 0; 0; 0; 12; 48]) = POk (12, [byte_of_N 48]) /\
  parse_length_asfound (map byte_of_N [128; 48]) = POk (0, [byte_of_N 48]) /\ parse_length (map byte_of_N [128; 48]) = PErr.
Proof. vm_compute. repeat split. Qed.

(* ---------- C06: a proper prefix of an encoding is Incomplete, never Ok, never Error ---------- *)
Lemma parse_length_prefix n l body p q : LenEnc n l -> N.of_nat (length body) = n -> p ++ q = l ++ body -> q <> [] ->
  parse_length p = PInc \/ exists i2, parse_length p = POk (n, i2) /\ N.of_nat (length i2) < n.
Proof.
  intros HL Hb E Hq. destruct HL as [n' Hn | n' bs [Hl1 Hl2] Hv Hn].
  - destruct p as [|b p]; [now left|]. cbn in E. injection E as -> E. right. exists p.
    unfold parse_length. cbn [parse_length_gen]. rewrite bN_byte_of_N, N.mod_small by lia. destruct (N.ltb_spec n' 128); [|lia].
    split; [reflexivity|]. assert (length body = length p + length q)%nat by (rewrite <- app_length; congruence).
    destruct q; [congruence|]. cbn [length] in *. lia.
  - destruct p as [|b p]; [now left|]. cbn in E. injection E as -> E.
    unfold parse_length. cbn [parse_length_gen]. rewrite bN_byte_of_N, N.mod_small by lia.
    destruct (N.ltb_spec (128 + N.of_nat (length bs)) 128); [lia|].
    destruct (N.eqb_spec (128 + N.of_nat (length bs)) 128); [lia|]. cbn [andb].
    replace (N.to_nat (128 + N.of_nat (length bs) - 128)) with (length bs) by lia.
    destruct (Nat.ltb_spec (length p) (length bs)) as [Hlt|Hge]; [now left|]. right.
    (* p = bs ++ p' *)
    assert (Hp : p = bs ++ skipn (length bs) p).
    { rewrite <- (firstn_skipn (length bs) p) at 1. f_equal.
      apply (f_equal (firstn (length bs))) in E. rewrite firstn_app_exact in E.
      rewrite firstn_app in E. replace (length bs - length p)%nat with 0%nat in E by lia.
      cbn in E. now rewrite app_nil_r in E. }
    set (p' := skipn (length bs) p) in *. rewrite Hp in E |- *. rewrite <- app_assoc in E. apply app_inv_head in E.
    exists p'. rewrite firstn_app_exact, parse_uint_be_value by (rewrite Hv; exact Hn).
    rewrite Hv. destruct (N.ltb_spec n' (2^64)); [|lia]. split; [reflexivity|].
    assert (length body = length p' + length q)%nat by (rewrite <- app_length; congruence).
    destruct q; [congruence|]. cbn [length] in *. lia.
Qed.

Theorem proper_prefix_incomplete t bs p q f : BerEnc t bs -> p ++ q = bs -> q <> [] -> parse_tag (S f) p = PInc.
Proof.
  intros HB E Hq. destruct p as [|b0 p]; [reflexivity|].
  destruct HB as [c id v l Hid HL | c id ts l body Hid Hts HL]; cbn in E; injection E as -> E;
    cbn [parse_tag]; rewrite header_ident by exact Hid.
  - destruct (parse_length_prefix _ _ _ _ _ HL eq_refl E Hq) as [-> | (i2 & -> & Hlt)]; [reflexivity|].
    destruct (N.ltb_spec (N.of_nat (length i2)) (N.of_nat (length v))); [reflexivity|lia].
  - destruct (parse_length_prefix _ _ _ _ _ HL eq_refl E Hq) as [-> | (i2 & -> & Hlt)]; [reflexivity|].
    destruct (N.ltb_spec (N.of_nat (length i2)) (N.of_nat (length body))); [reflexivity|lia].
Qed.

(* ---------- C07: emitted lengths are minimal ---------- *)
Lemma be_zero f : be f 0 = [].
Proof. destruct f; reflexivity. Qed.
Lemma hd_app_ne {A} (d : A) l r : l <> [] -> hd d (l ++ r) = hd d l.
Proof. destruct l; [congruence|reflexivity]. Qed.
Lemma byte_of_N_nz n : 0 < n -> n < 256 -> byte_of_N n <> x00.
Proof. intros H0 H1 E. pose proof (bN_byte_of_N n) as B. rewrite E, N.mod_small in B by exact H1. cbv in B. lia. Qed.
Lemma be_hd f : forall n, n < 256 ^ N.of_nat f -> 0 < n -> hd x00 (be f n) <> x00.
Proof.
  induction f as [|f IH]; intros n Hn H0.
  - change (256 ^ N.of_nat 0) with 1 in Hn. lia.
  - cbn [be]. destruct (N.eqb_spec n 0) as [->|_]; [lia|].
    assert (Hd : n / 256 < 256 ^ N.of_nat f).
    { apply N.div_lt_upper_bound; [lia|]. rewrite Nat2N.inj_succ, N.pow_succ_r' in Hn. lia. }
    destruct (N.eqb_spec (n / 256) 0) as [E|E].
    + rewrite E, be_zero. cbn [app hd]. apply byte_of_N_nz; [exact H0|].
      assert (n = 256 * (n / 256) + n mod 256) by (apply N.div_mod; lia).
      assert (n mod 256 < 256) by (apply N.mod_lt; lia). lia.
    + destruct (be_spec f (n / 256) Hd) as (_ & _ & P). rewrite hd_app_ne.
      * apply IH; [exact Hd|]. destruct (n / 256); [congruence|reflexivity].
      * intros E0. assert (0 < n / 256) as P0 by (destruct (n / 256); [congruence|reflexivity]). apply P in P0. rewrite E0 in P0. cbn in P0. lia.
Qed.
Theorem write_length_minimal n : n < 2^64 ->
  (n < 128 -> write_length n = [byte_of_N n]) /\
  (128 <= n -> exists bs, write_length n = byte_of_N (128 + N.of_nat (length bs)) :: bs /\
                 be_value bs = n /\ (1 <= length bs <= 8)%nat /\ hd x00 bs <> x00).
Proof.
  intros H. unfold write_length. split; intros Hn.
  - destruct (N.ltb_spec n 128); [reflexivity|lia].
  - destruct (N.ltb_spec n 128); [lia|]. exists (be 8 n).
    change (2^64) with (256 ^ N.of_nat 8) in H. destruct (be_spec 8 n H) as (E & L & P).
    repeat split; try assumption; [apply P; lia|apply be_hd; [exact H|lia]].
Qed.
Print Assumptions any_encoding_parses.
Print Assumptions write_length_minimal.
Print Assumptions roundtrip.
Print Assumptions proper_prefix_incomplete.
