(* Calibration sketch (round 0): "exactly" at the connection level. A search operation's item channel holds precisely the responses the
   driver logged as routed to it, in log order; with ConnOrder (order w.r.t. the wire) and c01_routed_by_id (own id only) this is what
   C10's stream model takes as its input. Every schedule, with or without repairs. *)
From RecordUpdate Require Import RecordUpdate.
From Coq Require Import List ZArith Lia Bool Arith.
From L3 Require Import Msgid Conn ConnProofs ConnAccount.
Import ListNotations.
Open Scope Z_scope.

(* ---------- resultmap entries point at single-result operations ---------- *)
Definition rsingle (s : st) : Prop := forall k o, In (k, o) (rmap s) -> exists c, getop s o = Some c /\ o_kind c = KSingle.
Definition new_single (s : st) (p : Z * nat) : Prop := exists c, getop s (snd p) = Some c /\ o_kind c = KSingle.
Lemma rsingle_gen s s' : rsingle s -> sext s s' -> (forall p, In p (rmap s') -> In p (rmap s) \/ new_single s p) -> rsingle s'.
Proof.
  intros HK (_ & HE & _) Hr k o Hin. destruct (Hr _ Hin) as [Hold|(c & Hc & Hk)].
  - destruct (HK _ _ Hold) as (c & Hc & Hk). destruct (HE _ _ Hc) as (c' & Hc' & _ & K & _). exists c'. split; [exact Hc'|congruence].
  - cbn in Hc. destruct (HE _ _ Hc) as (c' & Hc' & _ & K & _). exists c'. split; [exact Hc'|congruence].
Qed.
Ltac fin1 H :=
  repeat (apply In_aremove in H);
  first [ now left | contradiction
        | (apply In_ainsert in H as [->|H]; [right; eexists; split; eassumption | repeat (apply In_aremove in H); now left]) ].
Theorem step_rsingle s e : keyed s -> rsingle s -> rsingle (step s e).
Proof.
  intros HK HR. pose proof (step_sext s e HK) as HS.
  destruct e as [k tmo| | | |how|r|o|o|o|dt|o|o|k tmo|o]; apply (rsingle_gen s _ HR HS); intros p; unfold step.
  - destruct (next_msgid (last s) (inuse s)); [destruct (is_running s)| |]; intros H; now left.
  - destruct (is_running s); cbn [negb]; [|now left];
    destruct (opq s) as [|o q]; [now left|]; destruct (getop s o) as [c|] eqn:Ec; [|now left];
    destruct (o_kind c) eqn:Ek; brk; msimp; intros H; fin1 H.
  - destruct (is_running s); cbn [negb]; [|now left]; destruct (scrubq s); [now left|]; msimp; intros H; fin1 H.
  - destruct (is_running s); cbn [negb]; [|now left];
    destruct (win s) as [|r w]; [now left|]; destruct (alookup (r_mid r) (smap s)) as [o|];
    [ destruct (r_kind r); destruct (getop s o) as [c|]; try destruct (o_rx c); cbn [negb]; brk; msimp; intros H; fin1 H
    | destruct (alookup (r_mid r) (rmap s)); brk; msimp; intros H; fin1 H ].
  - destruct (is_running s); [msimp; intros []|now left].
  - now left.
  - destruct (getop s o) as [c|]; [|now left]; destruct (waiting c); cbn [negb]; [|now left];
    destruct (o_reply c); [destruct (o_deadline c) as [d|]; [destruct (d <=? now s); [destruct (is_running s)|]|]| |]; now left.
  - destruct (getop s o) as [c|]; [|now left]; destruct (o_status c); try (now left);
    destruct (o_rx c); cbn [negb]; [|now left]; destruct (nth_error (o_items c) (o_taken c)) as [r|];
    [ destruct (r_kind r); try destruct (o_kind c) as [|[|]| |]; now left
    | destruct (o_chan c); cbn [negb]; [|now left]; destruct (o_tmo c) as [d|]; [|now left];
      match goal with |- context [if ?b then _ else _] => destruct b end; [destruct (is_running s)|]; now left ].
  - destruct (getop s o) as [c|]; [|now left]; destruct (o_status c); try (now left); try destruct (fix20 (fx s)); destruct (is_running s); now left.
  - now left.
  - now left.
  - destruct (getop s o) as [c|]; [destruct (o_status c)|]; now left.
  - unfold alloc; destruct (next_msgid (last s) (inuse s)); intros H; now left.
  - unfold enqueue; destruct (getop s o) as [c|]; [|now left]; destruct (o_status c); try (now left); destruct (is_running s); now left.
Qed.
Theorem reachable_rsingle f evs : rsingle (run f evs).
Proof. induction evs as [|e evs IH] using rev_ind; [intros k o []|]. rewrite run_snoc. apply step_rsingle; [apply reachable_keyed|assumption]. Qed.

(* ---------- the invariant ---------- *)
Definition to (o : nat) (p : resp * option nat) : bool := match snd p with Some o' => Nat.eqb o' o | None => false end.
Record exact (s : st) : Prop := {
  ex_items : forall o c, getop s o = Some c -> is_search c -> o_items c = map fst (filter (to o) (processed s));
  ex_tags : forall r o, In (r, Some o) (processed s) -> (o < length (ops s))%nat }.

(* steps that keep every op's items and kind, the number of ops, and the log *)
Definition ipres (s x : st) : Prop :=
  processed x = processed s /\ length (ops x) = length (ops s) /\
  forall o c, getop s o = Some c -> exists c', getop x o = Some c' /\ o_items c' = o_items c /\ o_kind c' = o_kind c.
Lemma ipres_refl s : ipres s s. Proof. split; [reflexivity|]. split; [reflexivity|]. intros o c H. now exists c. Qed.
Lemma ipres_trans a b c : ipres a b -> ipres b c -> ipres a c.
Proof. intros (G1 & L1 & H1) (G2 & L2 & H2). split; [congruence|]. split; [congruence|]. intros o x Hx.
  destruct (H1 _ _ Hx) as (y & Hy & I1 & K1). destruct (H2 _ _ Hy) as (z & Hz & I2 & K2). exists z. split; [assumption|]. split; congruence. Qed.
Lemma ipres_set s x y : ipres s x -> ops y = ops x -> processed y = processed x -> ipres s y.
Proof. intros (G & L & H) E El. unfold ipres, getop in *. rewrite E, El. auto. Qed.
Lemma ipres_updop s o f : (forall c, o_items (f c) = o_items c /\ o_kind (f c) = o_kind c) -> ipres s (updop o f s).
Proof. intros Hf. split; [reflexivity|]. split; [unfold updop; cbn [ops set]; apply upd_length|]. intros o' c Hc. unfold getop, updop in *. cbn [ops set]. rewrite nth_upd, Hc.
  destruct (Nat.eqb o' o); [exists (f c); split; [reflexivity|apply Hf]|exists c; now repeat split]. Qed.
Lemma ipres_updop' s x o f : ipres s x -> (forall c, o_items (f c) = o_items c /\ o_kind (f c) = o_kind c) -> ipres s (updop o f x).
Proof. intros H Hf. eapply ipres_trans; [exact H|now apply ipres_updop]. Qed.
Lemma ipres_drop_entry' s x m k f : ipres s x -> (forall c, o_items (f c) = o_items c /\ o_kind (f c) = o_kind c) -> ipres s (drop_entry m k f x).
Proof. intros H Hf. unfold drop_entry. destruct (alookup k m); [now apply ipres_updop'|assumption]. Qed.
Lemma ipres_fold {A} (g : st -> A -> st) (l : list A) : (forall s a, ipres s (g s a)) -> forall s, ipres s (fold_left g l s).
Proof. intros Hg. induction l as [|a l IH]; intros s; cbn; [apply ipres_refl|]. eapply ipres_trans; [apply Hg|apply IH]. Qed.
Lemma ik_drop c : o_items (drop_reply c) = o_items c /\ o_kind (drop_reply c) = o_kind c. Proof. unfold drop_reply. now destruct (o_reply c). Qed.
Lemma ik_fill p c : o_items (fill_reply p c) = o_items c /\ o_kind (fill_reply p c) = o_kind c.
Proof. unfold fill_reply. destruct (o_reply c); try (now split). now destruct (waiting c). Qed.
Lemma ipres_end_driver h s : ipres s (end_driver h s).
Proof. unfold end_driver.
  eapply ipres_trans; [apply (ipres_fold (fun s (p : Z * nat) => updop (snd p) drop_reply s)); intros; apply ipres_updop; apply ik_drop|].
  eapply ipres_trans; [apply (ipres_fold (fun s (p : Z * nat) => updop (snd p) close_chan s)); intros; apply ipres_updop; now split|].
  eapply ipres_trans; [apply (ipres_fold (fun s o => updop o (fun c => close_chan (drop_reply c)) s)); intros; apply ipres_updop; intros; apply ik_drop|].
  eapply ipres_set; [apply ipres_refl|reflexivity|reflexivity]. Qed.
Ltac iside := intros; first [ (split; reflexivity) | apply ik_drop | apply ik_fill ].
Ltac istrip :=
  lazymatch goal with
  | |- ipres ?s ?s => apply ipres_refl
  | |- ipres ?s (set ops _ _) => fail
  | |- ipres ?s (set _ _ ?x) => apply (ipres_set s x); [|reflexivity|reflexivity]
  | |- ipres ?s (updop ?o ?f ?x) => apply (ipres_updop' s x); [|try solve [iside]]
  | |- ipres ?s (drop_entry ?m ?k ?f ?x) => apply (ipres_drop_entry' s x); [|try solve [iside]]
  | |- ipres ?s (end_driver ?h ?x) => apply (ipres_trans s x); [|apply ipres_end_driver]
  end.

Lemma exact_ipres s x : exact s -> ipres s x -> exact x.
Proof.
  intros E (Ep & Len & H). constructor.
  - intros o c' Hc' Hs. destruct (getop s o) as [c|] eqn:Hc.
    + destruct (H _ _ Hc) as (c2 & Hc2 & I & K). rewrite Hc' in Hc2. injection Hc2 as <-. rewrite Ep, I. apply (ex_items s E o c Hc). unfold is_search in *. now rewrite <- K.
    + exfalso. unfold getop in *. apply nth_error_None in Hc. assert (o < length (ops x))%nat by (apply nth_error_Some; congruence). lia.
  - intros r o Hin. rewrite Ep in Hin. rewrite Len. exact (ex_tags s E r o Hin).
Qed.

Lemma exact_init f : exact (init f).
Proof. constructor; [intros o c H; unfold getop in H; cbn in H; destruct o; discriminate|intros r o []]. Qed.

Lemma filter_to_snoc o l r tag : filter (to o) (l ++ [(r, tag)]) = filter (to o) l ++ (if to o (r, tag) then [(r, tag)] else []).
Proof. rewrite filter_app. cbn [filter]. now destruct (to o (r, tag)). Qed.

(* a response step: the log grows by (r, tag); at most the op named by the tag gets r appended *)
Lemma exact_resp s x r tag : exact s -> processed x = processed s ++ [(r, tag)] -> length (ops x) = length (ops s) ->
  (forall o, tag = Some o -> (o < length (ops s))%nat) ->
  (forall o c', getop x o = Some c' -> exists c, getop s o = Some c /\ o_kind c' = o_kind c /\
      (is_search c -> o_items c' = o_items c ++ (if to o (r, tag) then [r] else []))) ->
  exact x.
Proof.
  intros E Ep Len Ht H. constructor.
  - intros o c' Hc' Hs. destruct (H _ _ Hc') as (c & Hc & K & I). assert (Hs0 : is_search c) by (unfold is_search in *; now rewrite <- K).
    rewrite Ep, filter_to_snoc, map_app, (I Hs0), (ex_items s E o c Hc Hs0). now destruct (to o (r, tag)).
  - intros r0 o Hin. rewrite Ep in Hin. rewrite Len. apply in_app_or in Hin as [Hin|[Hin|[]]]; [exact (ex_tags s E r0 o Hin)|]. injection Hin as _ ->. now apply Ht.
Qed.

Lemma upd_upd {A} (f g : A -> A) : forall l o, upd o g (upd o f l) = upd o (fun x => g (f x)) l.
Proof. induction l as [|x l IH]; intros [|o]; cbn; try reflexivity. now rewrite IH. Qed.

Lemma exact_resp_upd s x r tag o c g : exact s -> getop s o = Some c -> ops x = upd o g (ops s) -> processed x = processed s ++ [(r, tag)] ->
  (forall o', tag = Some o' -> o' = o) -> o_kind (g c) = o_kind c ->
  (is_search c -> o_items (g c) = o_items c ++ (if to o (r, tag) then [r] else [])) -> exact x.
Proof.
  intros E Hc Eo Ep Ht Hk Hi. apply (exact_resp s x r tag); try assumption.
  - rewrite Eo. apply upd_length.
  - intros o' H. rewrite (Ht o' H). apply nth_error_Some. unfold getop in Hc. congruence.
  - intros o' c' H. unfold getop in *. rewrite Eo, nth_upd in H. destruct (Nat.eqb_spec o' o) as [->|Hne].
    + rewrite Hc in H. injection H as <-. exists c. now repeat split.
    + exists c'. split; [assumption|]. split; [reflexivity|]. intros _.
      assert (Hto : to o' (r, tag) = false). { unfold to. cbn [snd]. destruct tag as [o2|]; [|reflexivity]. rewrite (Ht o2 eq_refl). apply Nat.eqb_neq. congruence. }
      rewrite Hto. now rewrite app_nil_r.
Qed.
Lemma exact_resp_same s x r : exact s -> ops x = ops s -> processed x = processed s ++ [(r, None)] -> exact x.
Proof.
  intros E Eo Ep. apply (exact_resp s x r None); try assumption; [now rewrite Eo|discriminate|].
  intros o c' H. unfold getop in *. rewrite Eo in H. exists c'. split; [assumption|]. split; [reflexivity|]. intros _. unfold to. cbn. now rewrite app_nil_r.
Qed.

Lemma filter_to_none l n : (forall r o, In (r, Some o) l -> (o < n)%nat) -> filter (to n) l = [].
Proof.
  induction l as [|[r [o|]] l IH]; intros H; cbn [filter]; [reflexivity| |].
  - unfold to at 1. cbn [snd]. destruct (Nat.eqb_spec o n) as [->|_].
    + exfalso. specialize (H r n (or_introl eq_refl)). lia.
    + apply IH. intros r0 o0 Hin. apply (H r0 o0). now right.
  - unfold to at 1. cbn [snd]. apply IH. intros r0 o0 Hin. apply (H r0 o0). now right.
Qed.
Lemma exact_app s x cn : exact s -> ops x = ops s ++ [cn] -> processed x = processed s -> o_items cn = [] -> exact x.
Proof.
  intros E Eo Ep Hi. constructor.
  - intros o c H Hs. unfold getop in H. rewrite Eo in H. rewrite Ep. destruct (Nat.ltb_spec o (length (ops s))).
    + rewrite nth_error_app1 in H by assumption. exact (ex_items s E o c H Hs).
    + rewrite nth_error_app2 in H by assumption. destruct (o - length (ops s))%nat as [|[|m]] eqn:En; cbn in H; try discriminate. injection H as <-.
      assert (o = length (ops s)) by lia. subst o. rewrite Hi, (filter_to_none _ _ (ex_tags s E)). reflexivity.
  - intros r o Hin. rewrite Ep in Hin. rewrite Eo, app_length. pose proof (ex_tags s E r o Hin). cbn. lia.
Qed.

Theorem exact_step s e : keyed s -> rsingle s -> exact s -> exact (step s e).
Proof.
  intros HK HR E. destruct e as [k tmo| | | |how|r|o|o|o|dt|o|o|k tmo|o]; unfold step.
  - (* Start *) destruct (next_msgid (last s) (inuse s)); try exact E.
    destruct (is_running s); eapply (exact_app s); try exact E; reflexivity.
  - (* DrvOp *) destruct (is_running s); cbn [negb]; [|exact E].
    destruct (opq s) as [|o q]; [exact E|]. apply (exact_ipres s); [exact E|]. destruct (getop s o) as [c|] eqn:Ec; [|repeat istrip].
    destruct (o_kind c); repeat match goal with |- context [if ?b then _ else _] => destruct b end; repeat istrip.
  - (* DrvScrub *) destruct (is_running s); cbn [negb]; [|exact E].
    destruct (scrubq s) as [|id q]; [exact E|]. apply (exact_ipres s); [exact E|]. repeat istrip.
  - (* DrvResp *) destruct (is_running s); cbn [negb]; [|exact E].
    destruct (win s) as [|r w] eqn:Ew; [exact E|].
    destruct (alookup (r_mid r) (smap s)) as [o|] eqn:Es.
    + destruct (HK _ _ (or_intror (alookup_In _ _ _ Es))) as (c & Ec & Em). rewrite Ec.
      destruct (r_kind r) eqn:Ek.
      5: { apply (exact_ipres (s <| win := w |> <| processed ::= fun l => l ++ [(r, None)] |>)); [|destruct (fix5 (fx s)); [apply ipres_refl|apply ipres_end_driver]].
           apply (exact_resp_same s _ r); [exact E|reflexivity|reflexivity]. }
      all: destruct (o_rx c) eqn:Erx; cbn [negb]; repeat match goal with |- context [if ?b then _ else _] => destruct b end.
      all: first
        [ (apply (exact_resp_upd s _ r (Some o) o c (fun c0 => c0 <| o_items ::= fun l => l ++ [r] |>));
           [exact E|exact Ec|cbn [ops set updop]; rewrite ?upd_upd; reflexivity|reflexivity|intros o' H; now injection H|reflexivity
           |intros _; unfold to; cbn [snd o_items set]; now rewrite Nat.eqb_refl])
        | (apply (exact_resp_upd s _ r (Some o) o c (fun c0 => close_chan (c0 <| o_items ::= fun l => l ++ [r] |>)));
           [exact E|exact Ec|cbn [ops set updop]; rewrite ?upd_upd; reflexivity|reflexivity|intros o' H; now injection H|reflexivity
           |intros _; unfold to; cbn [snd o_items set close_chan]; now rewrite Nat.eqb_refl])
        | (apply (exact_resp_upd s _ r None o c close_chan);
           [exact E|exact Ec|cbn [ops set updop]; rewrite ?upd_upd; reflexivity|reflexivity|intros o' H; discriminate H|reflexivity
           |intros _; unfold to; cbn [snd o_items set close_chan]; now rewrite app_nil_r]) ].
    + destruct (alookup (r_mid r) (rmap s)) as [o|] eqn:Er.
      * match goal with |- context [if ?b then _ else _] => destruct b end; [apply (exact_resp_same s _ r); [exact E|reflexivity|reflexivity]|].
        pose proof (alookup_In _ _ _ Er) as Hin. destruct (HR _ _ Hin) as (c & Ec & Ek). rewrite Ec.
        destruct (ik_fill (Some r) c) as [I1 I2].
        apply (exact_resp_upd s _ r (if waiting c then Some o else None) o c (fill_reply (Some r)));
          [exact E|exact Ec|reflexivity|reflexivity| |exact I2|].
        -- intros o' H. destruct (waiting c); [now injection H|discriminate H].
        -- intros Hs. exfalso. unfold is_search in Hs. now rewrite Ek in Hs.
      * apply (exact_resp_same s _ r); [exact E|reflexivity|reflexivity].
  - (* DrvEnd *) destruct (is_running s); [|exact E]. apply (exact_ipres s); [exact E|apply ipres_end_driver].
  - (* ServerSend *) apply (exact_ipres s); [exact E|]. repeat istrip.
  - (* CliPoll *) destruct (getop s o) as [c|] eqn:Ec; [|exact E]. apply (exact_ipres s); [exact E|].
    destruct (waiting c); cbn [negb]; [|apply ipres_refl].
    destruct (o_reply c); [destruct (o_deadline c) as [d|]; [destruct (d <=? now s); [destruct (is_running s)|]|]| |]; repeat istrip.
  - (* StreamNext *) destruct (getop s o) as [c|] eqn:Ec; [|exact E]. apply (exact_ipres s); [exact E|].
    destruct (o_status c); try apply ipres_refl.
    destruct (o_rx c); cbn [negb]; [|repeat istrip].
    destruct (nth_error (o_items c) (o_taken c)) as [r|].
    + destruct (r_kind r); try destruct (o_kind c) as [|[|]| |]; repeat istrip.
    + destruct (o_chan c); cbn [negb]; [|repeat istrip].
      destruct (o_tmo c) as [d|]; [|repeat istrip]. match goal with |- context [if ?b then _ else _] => destruct b end; [|repeat istrip].
      destruct (is_running s); repeat istrip.
  - (* StreamFinish *) destruct (getop s o) as [c|] eqn:Ec; [|exact E]. apply (exact_ipres s); [exact E|].
    destruct (o_status c); try apply ipres_refl; try destruct (fix20 (fx s)); destruct (is_running s); repeat istrip.
  - (* Advance *) apply (exact_ipres s); [exact E|]. repeat istrip.
  - (* ViaHandle *) apply (exact_ipres s); [exact E|]. repeat istrip.
  - (* DropCall *) apply (exact_ipres s); [exact E|]. destruct (getop s o) as [c|] eqn:Ec; [destruct (o_status c) eqn:Est|]; repeat istrip.
  - (* Alloc *) unfold alloc. destruct (next_msgid (last s) (inuse s)); try exact E. eapply (exact_app s); try exact E; reflexivity.
  - (* Enqueue *) unfold enqueue. destruct (getop s o) as [c|] eqn:Ec; [|exact E]. apply (exact_ipres s); [exact E|].
    destruct (o_status c); try apply ipres_refl. destruct (is_running s); repeat istrip.
Qed.

Theorem reachable_exact f evs : exact (run f evs).
Proof. induction evs as [|e evs IH] using rev_ind; [apply exact_init|]. rewrite run_snoc. apply exact_step; [apply reachable_keyed|apply reachable_rsingle|assumption]. Qed.

(* C10 at the connection level: what a search stream can ever read is exactly the sequence of responses the driver routed to it *)
Theorem c10_items_exact f evs o c : getop (run f evs) o = Some c -> is_search c ->
  o_items c = map fst (filter (to o) (processed (run f evs))).
Proof. intros Hc Hs. exact (ex_items _ (reachable_exact f evs) o c Hc Hs). Qed.
Print Assumptions c10_items_exact.

(* and the driver does route: a response carrying the id under which a search is registered, whose stream still holds its receiver,
   is logged as delivered to that search (so nothing the server sends for a live search is lost between the wire and the stream) *)
Theorem c01_routes_to_registered s r w o c : acct s -> is_running s = true -> win s = r :: w ->
  In (r_mid r, o) (smap s) -> getop s o = Some c -> o_rx c = true -> r_kind r <> ROther ->
  processed (step s DrvResp) = processed s ++ [(r, Some o)].
Proof.
  intros A Hr Ew Hin Hc Hrx Hk. unfold step. rewrite Hr, Ew. cbn [negb]. rewrite (alookup_unique _ _ _ (a_us s A) Hin), Hc, Hrx.
  destruct (r_kind r); try contradiction; cbn [negb]; repeat match goal with |- context [if ?b then _ else _] => destruct b end; reflexivity.
Qed.
