(* The driver's single-operation turn (src/conn.rs turn(LoopMode::SingleOp)), used once: for the StartTLS exchange during connection
   establishment (new_tcp: the turn runs in a spawned task, the caller awaits try_join!(turn result, ldap.extended(StartTLS))).
   Each ready select! branch is an event; the schedule - in particular whether the driver sees what the server did (bytes, EOF) before
   or after it takes the request from its queue - is universally quantified. Three versions of the code: as found (V0), with the repair
   of F18 (V18: the turn goes on until the response has been handed over; EOF while it is awaited is an error), and with its completion
   F23 (V23: "the response has been handed over" presupposes that the request has been taken at all). C04, C17. *)
From Coq Require Import List Bool.
Import ListNotations.

Inductive sver := V0 | V18 | V23.
Inductive sev :=
| TakeOp (write_ok : bool)   (* rx.recv() yields the request: it is written; if that works it is registered in resultmap; continue *)
| Msg (mine : bool)          (* stream.next() yields a decoded message: the awaited response (its id is registered) or anything else *)
| Eof | RdErr                (* stream.next() yields None / an error *)
| Other.                     (* the scrub or misc branch fires: nothing to do for them; the loop body ends *)
Inductive sres := Going | RetOk | RetErr.
Record sst := mkS { taken : bool; reg : bool; deliv : bool; ret : sres }.
Definition sinit := mkS false false false Going.

(* the check at the bottom of the loop body *)
Definition end_check (v : sver) (s : sst) : sst :=
  match v with
  | V0 => mkS (taken s) (reg s) (deliv s) RetOk                                               (* break, always *)
  | V18 => if negb (reg s) then mkS (taken s) (reg s) (deliv s) RetOk else s                  (* break if resultmap is empty *)
  | V23 => if taken s && negb (reg s) then mkS (taken s) (reg s) (deliv s) RetOk else s       (* ... and the request has been taken *)
  end.
Definition sstep (v : sver) (s : sst) (e : sev) : sst :=
  match ret s with
  | Going =>
    match e with
    | TakeOp ok => if taken s then s                                   (* there is one request only *)
                   else if ok then mkS true true (deliv s) Going       (* LdapOp::Single: resultmap.insert; continue *)
                   else mkS true false (deliv s) RetErr                (* socket send error *)
    | Msg mine => if mine && reg s then end_check v (mkS (taken s) false true Going)   (* handed to the waiting caller *)
                  else end_check v s                                                    (* warn!("unmatched id") *)
    | Eof => match v with
             | V0 => mkS (taken s) (reg s) (deliv s) RetOk                                                      (* None => break *)
             | V18 => mkS (taken s) (reg s) (deliv s) (if reg s then RetErr else RetOk)
             | V23 => mkS (taken s) (reg s) (deliv s) (if reg s || negb (taken s) then RetErr else RetOk) end
    | RdErr => mkS (taken s) (reg s) (deliv s) RetErr
    | Other => end_check v s
    end
  | _ => s end.
Definition srun (v : sver) (evs : list sev) : sst := fold_left (sstep v) evs sinit.

(* what the caller of new_tcp sees: an error turn drops the connection object, and with it the request queue - the StartTLS call fails;
   a turn that returned Ok hands the connection back, and the caller then awaits the StartTLS call: it has its response (delivered), or
   its request sits in a queue nobody reads any more - no timeout applies: it never returns *)
Inductive seen := SFails | SHasResponse | SNever | SWaiting.
Definition caller_sees (s : sst) : seen :=
  match ret s with RetErr => SFails | RetOk => if deliv s then SHasResponse else SNever | Going => SWaiting end.

(* ---- the repaired turn ---- *)
Definition sinv (s : sst) : Prop := (reg s = true -> taken s = true) /\ (ret s = RetOk -> deliv s = true) /\ (taken s = true -> reg s = false -> ret s <> RetErr -> deliv s = true).
Lemma sinv_step s e : sinv s -> sinv (sstep V23 s e).
Proof. destruct s as [[|] [|] [|] [| |]]; destruct e as [[|]|[|]| | |]; unfold sinv; cbn; intuition (try discriminate; try congruence). Qed.
Lemma sinv_run evs : sinv (srun V23 evs).
Proof. unfold srun. assert (H : sinv sinit) by (repeat split; discriminate). revert H. generalize sinit. induction evs as [|e evs IH]; intros s H; cbn; [exact H|]. apply IH, sinv_step, H. Qed.

(* safety, every schedule: when the turn hands the connection back, the awaited response has been delivered *)
Theorem c04_single_turn_ok_means_delivered evs : ret (srun V23 evs) = RetOk -> deliv (srun V23 evs) = true.
Proof. intros H. exact (proj1 (proj2 (sinv_run evs)) H). Qed.
Theorem c04_single_turn_never_strands_the_caller evs : caller_sees (srun V23 evs) <> SNever.
Proof. unfold caller_sees. destruct (ret (srun V23 evs)) eqn:E; try discriminate. rewrite (c04_single_turn_ok_means_delivered evs E). discriminate. Qed.

(* liveness, every version: once the transport has ended (EOF or an error) the turn has returned *)
Lemma ret_sticky v s e : ret s <> Going -> sstep v s e = s.
Proof. unfold sstep. destruct (ret s); [intros H; now elim H|reflexivity|reflexivity]. Qed.
Lemma ret_sticky_run v evs s : ret s <> Going -> fold_left (sstep v) evs s = s.
Proof. revert s. induction evs as [|e evs IH]; intros s H; cbn; [reflexivity|]. rewrite (ret_sticky v s e H). now apply IH. Qed.
Lemma step_end v s e : e = Eof \/ e = RdErr -> ret (sstep v s e) <> Going.
Proof. intros [-> | ->]; unfold sstep; destruct (ret s) eqn:E; rewrite ?E; try discriminate; destruct v; cbn; try discriminate; destruct (reg s), (taken s); cbn; discriminate. Qed.
Theorem c04_single_turn_returns_when_transport_ends v evs : In Eof evs \/ In RdErr evs -> ret (srun v evs) <> Going.
Proof.
  unfold srun. generalize sinit. induction evs as [|e evs IH]; intros s H; [destruct H as [[]|[]]|]. cbn [fold_left].
  destruct (ret (sstep v s e)) eqn:E.
  - apply IH. destruct H as [[->|H]|[->|H]]; auto; exfalso; revert E; apply step_end; auto.
  - rewrite ret_sticky_run by (rewrite E; discriminate). rewrite E. discriminate.
  - rewrite ret_sticky_run by (rewrite E; discriminate). rewrite E. discriminate.
Qed.
(* together: a connection that ends during the StartTLS exchange makes the establishment fail or lets it go on with the response *)
Theorem c04_starttls_exchange_terminates evs : In Eof evs \/ In RdErr evs ->
  caller_sees (srun V23 evs) = SFails \/ caller_sees (srun V23 evs) = SHasResponse.
Proof.
  intros H. pose proof (c04_single_turn_returns_when_transport_ends V23 evs H) as G. pose proof (c04_single_turn_never_strands_the_caller evs) as N.
  unfold caller_sees in *. destruct (ret (srun V23 evs)); [now elim G|destruct (deliv (srun V23 evs)); [now right|now elim N]|now left].
Qed.

(* ---- the code as found, and with the first repair only ---- *)
Lemma c04_refuted_F18 : caller_sees (srun V0 [TakeOp true; Eof]) = SNever /\ caller_sees (srun V0 [TakeOp true; Msg false; Msg true]) = SNever.
Proof. split; reflexivity. Qed.
(* F23: the peer closes at once, or speaks first, and the driver task sees that before it has taken the request from its queue *)
Lemma c04_refuted_F23 : caller_sees (srun V18 [Eof]) = SNever /\ caller_sees (srun V18 [Msg false; TakeOp true; Msg true]) = SNever /\ caller_sees (srun V18 [Other]) = SNever.
Proof. repeat split; reflexivity. Qed.
Lemma c04_repaired_F23 : caller_sees (srun V23 [Eof]) = SFails /\ caller_sees (srun V23 [Msg false; TakeOp true; Msg true]) = SHasResponse /\
  caller_sees (srun V23 [TakeOp true; Eof]) = SFails /\ caller_sees (srun V23 [TakeOp true; Msg false; Msg true]) = SHasResponse /\ caller_sees (srun V23 [TakeOp false]) = SFails.
Proof. repeat split; reflexivity. Qed.
Print Assumptions c04_starttls_exchange_terminates.
