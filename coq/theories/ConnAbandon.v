(* C13, the Abandon clause on the connection model (repair F9): processing an Abandon whose target is a registered single-result
   operation writes an AbandonRequest naming that id, drops the target's reply sender (its caller, if still waiting, gets an error at its
   next poll: c04_poll_completes), removes the routing entry and releases both the target's id and the Abandon's own. *)
From RecordUpdate Require Import RecordUpdate.
From Coq Require Import List ZArith Lia Bool Arith.
From L3 Require Import Msgid Conn ConnProofs ConnTimeouts ConnAccount ConnLin2.
Import ListNotations.
Open Scope Z_scope.

Lemma wout_drop_entry m k f x : wout (drop_entry m k f x) = wout x.
Proof. unfold drop_entry. now destruct (alookup k m). Qed.

Theorem c13_abandon_single s o q c t o' c' :
  fix9 (fx s) = true -> is_running s = true -> opq s = o :: q -> getop s o = Some c -> o_kind c = KAbandon t ->
  alookup t (rmap s) = Some o' -> getop s o' = Some c' -> o' <> o ->
  let s' := step s DrvOp in
  In (o_mid c, KAbandon t) (wout s') /\                                   (* the request on the wire names t *)
  alookup t (rmap s') = None /\ alookup t (smap s') = None /\             (* no routing state for t is left *)
  ~ In t (inuse s') /\ ~ In (o_mid c) (inuse s') /\                        (* both ids are released *)
  (exists c'', getop s' o' = Some c'' /\ (o_reply c' = OsEmpty -> o_reply c'' = OsClosed)).   (* the waiting caller's channel is closed *)
Proof.
  intros F9 Hr Eq Hc Hk Ht Hc' Hne. cbv zeta. unfold step. rewrite Hr, Eq, Hc, Hk, F9. cbn [negb andb].
  set (s0 := s <| opq := q |> <| wout ::= fun w => w ++ [(o_mid c, KAbandon t)] |>).
  assert (Hh : abandon_hit s0 t = true) by (unfold abandon_hit; change (rmap s0) with (rmap s); now rewrite Ht).
  rewrite Hh.
  set (s1 := drop_entry (rmap s0) t drop_reply s0 <| rmap ::= aremove t |>).
  set (s2 := drop_entry (smap s1) t close_chan s1 <| smap ::= aremove t |>).
  repeat split.
  - (* wire *) cbn [wout set updop]. unfold s2, s1, s0. repeat first [rewrite wout_drop_entry | progress cbn [wout set]]. apply in_or_app. right. now left.
  - (* rmap *) cbn [rmap set updop]. unfold s2. cbn [rmap set]. rewrite rmap_drop_entry. unfold s1. cbn [rmap set]. rewrite rmap_drop_entry. apply alookup_aremove.
  - (* smap *) cbn [smap set updop]. unfold s2. cbn [smap set]. apply alookup_aremove.
  - (* t released *) cbn [inuse set updop]. apply not_In_rem.
  - (* own id released *) cbn [inuse set updop]. intros H. apply In_rem in H as [_ H]. now apply not_In_rem in H.
  - (* the caller's reply channel *)
    assert (G1 : getop s1 o' = Some (drop_reply c')).
    { unfold s1. change (getop (drop_entry (rmap s0) t drop_reply s0) o' = Some (drop_reply c')).
      unfold drop_entry. change (rmap s0) with (rmap s). rewrite Ht. apply getop_updop_same. exact Hc'. }
    assert (G2 : exists c2, getop s2 o' = Some c2 /\ o_reply c2 = o_reply (drop_reply c')).
    { unfold s2. change (exists c2, getop (drop_entry (smap s1) t close_chan s1) o' = Some c2 /\ o_reply c2 = o_reply (drop_reply c')).
      unfold drop_entry. destruct (alookup t (smap s1)) as [os|].
      - destruct (Nat.eq_dec o' os) as [<-|Hd].
        + rewrite (getop_updop_same _ _ _ _ G1). eexists. split; reflexivity.
        + rewrite getop_updop_ne by exact Hd. eexists. split; [exact G1|reflexivity].
      - eexists. split; [exact G1|reflexivity]. }
    destruct G2 as (c2 & Hc2 & R2). exists c2. split.
    + change (getop (updop o (fill_reply None) (s2 <| inuse ::= rem (o_mid c) |> <| inuse ::= rem t |>)) o' = Some c2).
      rewrite getop_updop_ne by exact Hne. exact Hc2.
    + intros E. rewrite R2. unfold drop_reply. now rewrite E.
Qed.
Print Assumptions c13_abandon_single.

(* the same for a search in flight (its routing entry is in the search map): the item channel is closed, so the stream's next() ends with an error *)
Theorem c13_abandon_search s o q c t o' c' :
  fix9 (fx s) = true -> is_running s = true -> opq s = o :: q -> getop s o = Some c -> o_kind c = KAbandon t ->
  alookup t (rmap s) = None -> alookup t (smap s) = Some o' -> getop s o' = Some c' -> o' <> o ->
  let s' := step s DrvOp in
  In (o_mid c, KAbandon t) (wout s') /\
  alookup t (rmap s') = None /\ alookup t (smap s') = None /\
  ~ In t (inuse s') /\ ~ In (o_mid c) (inuse s') /\
  (exists c'', getop s' o' = Some c'' /\ o_chan c'' = false).             (* the stream's item channel is closed *)
Proof.
  intros F9 Hr Eq Hc Hk Htr Ht Hc' Hne. cbv zeta. unfold step. rewrite Hr, Eq, Hc, Hk, F9. cbn [negb andb].
  set (s0 := s <| opq := q |> <| wout ::= fun w => w ++ [(o_mid c, KAbandon t)] |>).
  assert (Hh : abandon_hit s0 t = true) by (unfold abandon_hit; change (rmap s0) with (rmap s); change (smap s0) with (smap s); now rewrite Htr, Ht).
  rewrite Hh.
  set (s1 := drop_entry (rmap s0) t drop_reply s0 <| rmap ::= aremove t |>).
  set (s2 := drop_entry (smap s1) t close_chan s1 <| smap ::= aremove t |>).
  repeat split.
  - cbn [wout set updop]. unfold s2, s1, s0. repeat first [rewrite wout_drop_entry | progress cbn [wout set]]. apply in_or_app. right. now left.
  - cbn [rmap set updop]. unfold s2. cbn [rmap set]. rewrite rmap_drop_entry. unfold s1. cbn [rmap set]. rewrite rmap_drop_entry. apply alookup_aremove.
  - cbn [smap set updop]. unfold s2. cbn [smap set]. apply alookup_aremove.
  - cbn [inuse set updop]. apply not_In_rem.
  - cbn [inuse set updop]. intros H. apply In_rem in H as [_ H]. now apply not_In_rem in H.
  - assert (E1 : s1 = s0 <| rmap ::= aremove t |>) by (unfold s1, drop_entry; change (rmap s0) with (rmap s); now rewrite Htr).
    assert (G2 : getop s2 o' = Some (close_chan c')).
    { unfold s2. change (getop (drop_entry (smap s1) t close_chan s1) o' = Some (close_chan c')). unfold drop_entry. rewrite E1. cbn [smap set]. change (smap s0) with (smap s). rewrite Ht.
      apply getop_updop_same. exact Hc'. }
    exists (close_chan c'). split; [|reflexivity].
    change (getop (updop o (fill_reply None) (s2 <| inuse ::= rem (o_mid c) |> <| inuse ::= rem t |>)) o' = Some (close_chan c')).
    rewrite getop_updop_ne by exact Hne. exact G2.
Qed.
Print Assumptions c13_abandon_search.
