(* Calibration sketch (round 0): the parser with the Appendix B repairs F3 (inner Incomplete inside a complete TLV is an error)
   and F6 (nesting limit) as switches, and what C11 says about it. *)
From Coq Require Import List NArith Lia Bool Arith.
From Coq.Strings Require Import Byte.
From L3 Require Import Ber.
Import ListNotations.
Open Scope N_scope.

Record pfix := { fix3 : bool; limit : option nat }.       (* limit = Some d: at most d nested constructed levels below the top *)

Fixpoint seq_loop' (pt : list byte -> pres (tree * list byte)) (g : nat) (c : list byte) : pres (list tree) :=
  match c with [] => POk [] | _ =>
  match g with O => PFuel | S g' =>
    match pt c with
    | POk (t, c') => match seq_loop' pt g' c' with POk ts => POk (t :: ts) | PInc => PInc | PErr => PErr | PFuel => PFuel end
    | PInc => PInc | PErr => PErr | PFuel => PFuel end end end.

Fixpoint parse_tag' (fx : pfix) (depth : nat) (fuel : nat) (i : list byte) : pres (tree * list byte) :=
  match fuel with O => PFuel | S f =>
  match i with [] => PInc | b0 :: i1 =>
    let '(cls, pc, id) := parse_header b0 in
    match parse_length i1 with
    | POk (len, i2) =>
        if N.of_nat (length i2) <? len then PInc else
        let content := firstn (N.to_nat len) i2 in let rest := skipn (N.to_nat len) i2 in
        if pc then
          if (match limit fx with Some d => Nat.ltb d depth | None => false end) then PErr else
          match seq_loop' (parse_tag' fx (S depth) f) f content with
          | POk ts => POk (C cls id ts, rest)
          | PInc => if fix3 fx then PErr else PInc
          | PErr => PErr | PFuel => PFuel end
        else POk (P cls id content, rest)
    | PInc => PInc | PErr => PErr | PFuel => PFuel end end end.

Definition as_is_p := {| fix3 := false; limit := None |}.

(* the as-is instance is the parser of Ber.v *)
Lemma seq_loop'_ext p q : (forall c, p c = q c) -> forall g c, seq_loop' p g c = seq_loop q g c.
Proof. intros H. induction g as [|g IH]; intros c; destruct c as [|x c]; cbn; try reflexivity. rewrite H.
  destruct (q (x :: c)) as [[t c']| | |]; try reflexivity. now rewrite IH. Qed.
Theorem as_is_agrees : forall fuel depth i, parse_tag' as_is_p depth fuel i = parse_tag fuel i.
Proof. induction fuel as [|f IH]; intros depth i; [reflexivity|]. cbn [parse_tag' parse_tag]. destruct i as [|b0 i1]; [reflexivity|].
  destruct (parse_header b0) as [[cls pc] id]. destruct (parse_length i1) as [[len i2]| | |]; try reflexivity.
  destruct (N.of_nat (length i2) <? len); [reflexivity|]. destruct pc; [|reflexivity]. cbn [limit fix3 as_is_p].
  rewrite (seq_loop'_ext (parse_tag' as_is_p (S depth) f) (parse_tag f) (IH (S depth))).
  now destruct (seq_loop (parse_tag f) f (firstn (N.to_nat len) i2)). Qed.

(* C11, no wedge: once the bytes announced by the outer length are there, the repaired parser never asks for more *)
Theorem c11_no_wedge fx depth fuel b0 i1 len i2 : fix3 fx = true ->
  parse_length i1 = POk (len, i2) -> len <= N.of_nat (length i2) ->
  parse_tag' fx depth (S fuel) (b0 :: i1) <> PInc.
Proof. intros H3 Hl Hle. cbn [parse_tag']. destruct (parse_header b0) as [[cls pc] id]. rewrite Hl.
  destruct (N.ltb_spec (N.of_nat (length i2)) len); [lia|]. destruct pc; [|discriminate].
  destruct (match limit fx with Some d => Nat.ltb d depth | None => false end); [discriminate|].
  destruct (seq_loop' _ _ _); try discriminate. now rewrite H3. Qed.
(* ... whereas the code as it is does (the witness of the probe) *)
Lemma c11_wedge_as_is : parse_tag' as_is_p 0 7 (map byte_of_N [48; 4; 48; 130; 16; 0]) = PInc.
Proof. vm_compute. reflexivity. Qed.

(* C11, bounded recursion: with limit d the parser never descends below depth d + 1 — stated through an instrumented run *)
Fixpoint tdepth (t : tree) : nat :=
  match t with P _ _ _ => 0%nat | C _ _ ts => S (fold_right (fun t acc => Nat.max (tdepth t) acc) 0%nat ts) end.
Lemma seq_depth fx d f : (forall i t r, parse_tag' fx (S d) f i = POk (t, r) -> forall m, limit fx = Some m -> (S d <= S m)%nat -> (tdepth t + S d <= S m)%nat) ->
  forall g c ts, seq_loop' (parse_tag' fx (S d) f) g c = POk ts -> forall m, limit fx = Some m -> (S d <= S m)%nat ->
  (fold_right (fun t acc => Nat.max (tdepth t) acc) 0%nat ts + S d <= S m)%nat \/ ts = [].
Proof. intros H. induction g as [|g IH]; intros c ts Hs m Hm Hdm; destruct c as [|x c]; cbn in Hs; try discriminate; try (injection Hs as <-; now right).
  destruct (parse_tag' fx (S d) f (x :: c)) as [[t c']| | |] eqn:E; try discriminate.
  destruct (seq_loop' (parse_tag' fx (S d) f) g c') as [ts'| | |] eqn:E'; try discriminate. injection Hs as <-.
  left. cbn [fold_right]. pose proof (H _ _ _ E m Hm Hdm) as H1. destruct (IH _ _ E' m Hm Hdm) as [H2|H2]; [|subst ts'; cbn [fold_right]; rewrite Nat.max_0_r; exact H1].
  destruct (Nat.max_spec (tdepth t) (fold_right (fun t acc => Nat.max (tdepth t) acc) 0%nat ts')) as [[_ ->]|[_ ->]]; assumption. Qed.
Theorem c11_depth_bounded fx : forall fuel d i t r, parse_tag' fx d fuel i = POk (t, r) -> forall m, limit fx = Some m -> (d <= S m)%nat -> (tdepth t + d <= S m)%nat.
Proof. induction fuel as [|f IH]; intros d i t r H m Hm Hdm; [discriminate|]. cbn [parse_tag'] in H. destruct i as [|b0 i1]; [discriminate|].
  destruct (parse_header b0) as [[cls pc] id]. destruct (parse_length i1) as [[len i2]| | |]; try discriminate.
  destruct (N.of_nat (length i2) <? len); [discriminate|]. destruct pc.
  - rewrite Hm in H. destruct (Nat.ltb_spec m d); [discriminate|].
    destruct (seq_loop' (parse_tag' fx (S d) f) f (firstn (N.to_nat len) i2)) as [ts| | |] eqn:Es; try discriminate; [|destruct (fix3 fx); discriminate].
    injection H as <- _. cbn [tdepth].
    destruct (seq_depth fx d f (fun i t r H => IH (S d) i t r H) f _ ts Es m Hm ltac:(lia)) as [Hd|Hd]; [|subst ts]; cbn; [rewrite Nat.add_succ_r in Hd; exact Hd|lia].
  - injection H as <- _. cbn. lia. Qed.

(* C11, the limit rejects nothing it should accept: whatever the parser without a limit returns, the parser with limit m returns too,
   provided the tree's nesting fits (constructed levels at depths d .. d + tdepth t - 1, all <= m) *)
Definition nolim (b : bool) := {| fix3 := b; limit := None |}.
Definition lim (b : bool) (m : nat) := {| fix3 := b; limit := Some m |}.
Lemma tdepth_child t ts : In t ts -> (tdepth t <= fold_right (fun t acc => Nat.max (tdepth t) acc) 0 ts)%nat.
Proof. induction ts as [|x ts IH]; cbn [In fold_right]; [intros []|]. intros [->|H]; [lia|]. specialize (IH H). lia. Qed.
Lemma seq_transparent b m f d d0 :
  (forall i t r, parse_tag' (nolim b) d0 f i = POk (t, r) -> (tdepth t + d <= S m)%nat -> parse_tag' (lim b m) d f i = POk (t, r)) ->
  forall g c ts, seq_loop' (parse_tag' (nolim b) d0 f) g c = POk ts -> (forall t, In t ts -> (tdepth t + d <= S m)%nat) ->
  seq_loop' (parse_tag' (lim b m) d f) g c = POk ts.
Proof.
  intros H. induction g as [|g IH]; intros c ts Hs Hd; destruct c as [|x c]; cbn [seq_loop'] in *; try discriminate; try assumption.
  destruct (parse_tag' (nolim b) d0 f (x :: c)) as [[t c']| | |] eqn:E; try discriminate.
  destruct (seq_loop' (parse_tag' (nolim b) d0 f) g c') as [ts'| | |] eqn:E'; try discriminate. injection Hs as <-.
  rewrite (H _ _ _ E) by (apply Hd; now left). rewrite (IH _ _ E') by (intros t' Ht'; apply Hd; now right). reflexivity.
Qed.
Theorem c11_limit_transparent b m : forall fuel d d0 i t r,
  parse_tag' (nolim b) d0 fuel i = POk (t, r) -> (tdepth t + d <= S m)%nat -> parse_tag' (lim b m) d fuel i = POk (t, r).
Proof.
  induction fuel as [|f IH]; intros d d0 i t r H Hd; [discriminate|]. cbn [parse_tag'] in *. destruct i as [|b0 i1]; [discriminate|].
  destruct (parse_header b0) as [[cls pc] id]. destruct (parse_length i1) as [[len i2]| | |]; try discriminate.
  destruct (N.of_nat (length i2) <? len); [discriminate|]. destruct pc; [|exact H].
  cbn [limit fix3 nolim lim] in *.
  destruct (seq_loop' (parse_tag' (nolim b) (S d0) f) f (firstn (N.to_nat len) i2)) as [ts| | |] eqn:Es; try discriminate; [|destruct b; discriminate].
  injection H as <- <-. cbn [tdepth] in Hd.
  destruct (Nat.ltb_spec m d); [lia|].
  rewrite (seq_transparent b m f (S d) (S d0) (fun i t r E Ht => IH (S d) (S d0) i t r E Ht) f _ ts Es).
  - reflexivity.
  - intros t Ht. pose proof (tdepth_child t ts Ht). lia.
Qed.
Lemma seq_fix3 f d : (forall i x, parse_tag' (nolim false) d f i = POk x -> parse_tag' (nolim true) d f i = POk x) ->
  forall g c ts, seq_loop' (parse_tag' (nolim false) d f) g c = POk ts -> seq_loop' (parse_tag' (nolim true) d f) g c = POk ts.
Proof.
  intros H. induction g as [|g IH]; intros c ts Hs; destruct c as [|x c]; cbn [seq_loop'] in *; try discriminate; try assumption.
  destruct (parse_tag' (nolim false) d f (x :: c)) as [[t c']| | |] eqn:E; try discriminate.
  destruct (seq_loop' (parse_tag' (nolim false) d f) g c') as [ts'| | |] eqn:E'; try discriminate. injection Hs as <-.
  now rewrite (H _ _ E), (IH _ _ E').
Qed.
Theorem c11_fix3_transparent : forall fuel d i x, parse_tag' (nolim false) d fuel i = POk x -> parse_tag' (nolim true) d fuel i = POk x.
Proof.
  induction fuel as [|f IH]; intros d i x H; [discriminate|]. cbn [parse_tag'] in *. destruct i as [|b0 i1]; [discriminate|].
  destruct (parse_header b0) as [[cls pc] id]. destruct (parse_length i1) as [[len i2]| | |]; try discriminate.
  destruct (N.of_nat (length i2) <? len); [discriminate|]. destruct pc; [|exact H]. cbn [limit fix3 nolim] in *.
  destruct (seq_loop' (parse_tag' (nolim false) (S d) f) f (firstn (N.to_nat len) i2)) as [ts| | |] eqn:Es; try discriminate.
  now rewrite (seq_fix3 f (S d) (IH (S d)) f _ ts Es).
Qed.
(* both repairs together: every result of the parser as it is today whose tree fits the limit is also the result of the repaired parser *)
Corollary c11_repairs_reject_nothing_valid m fuel i t r :
  parse_tag fuel i = POk (t, r) -> (tdepth t <= S m)%nat -> parse_tag' (lim true m) 0 fuel i = POk (t, r).
Proof.
  intros H Hd. rewrite <- (as_is_agrees fuel 0 i) in H. apply (c11_limit_transparent true m fuel 0%nat 0%nat); [|lia].
  now apply c11_fix3_transparent.
Qed.
(* with C07's completeness: every encoding of a tree that fits the limit is parsed by the limited parser exactly as by the unlimited one,
   so the repair changes behaviour only on inputs nested deeper than the limit (and on the wedge inputs of F3) *)

(* C07 on the repaired parser: every definite encoding of a tree that fits the limit parses to it *)
Theorem c07_any_encoding_parses_limited m t bs rest :
  BerEnc t bs -> (tdepth t <= S m)%nat ->
  parse_tag' (lim true m) 0 (S (length bs)) (bs ++ rest) = POk (t, rest).
Proof. intros HB Hd. apply c11_repairs_reject_nothing_valid; [|exact Hd].
  apply (proj1 any_encoding_parses); [exact HB|lia]. Qed.
Corollary c07_roundtrip_limited m t rest : ids_ok t -> small t -> (tdepth t <= S m)%nat ->
  parse_tag' (lim true m) 0 (S (length (encode t))) (encode t ++ rest) = POk (t, rest).
Proof. intros Hi Hs Hd. apply c07_any_encoding_parses_limited; [now apply encode_is_encoding|exact Hd]. Qed.

(* known finding F36: the depth hypothesis is not vacuous caution. With the limit of the code (100) a chain of 102 SEQUENCEs is written by
   the encoder and refused by the parser: C07's inverse law holds for nesting within the limit only *)
Fixpoint nest (n : nat) : tree := match n with O => C Universal 16%N [] | S k => C Universal 16%N [nest k] end.
Lemma c07_refuted_F36 : let t := nest 101 in ids_ok t /\ small t /\ tdepth t = 102%nat /\
  parse_tag' (lim true 100) 0 (S (length (encode t))) (encode t) = PErr /\
  parse_tag' (lim true 100) 0 (S (length (encode (nest 100)))) (encode (nest 100)) = POk (nest 100, []).
Proof. vm_compute. repeat split; try reflexivity; discriminate. Qed.
Print Assumptions c11_no_wedge.
Print Assumptions c11_depth_bounded.
Print Assumptions c11_limit_transparent.
Print Assumptions c11_repairs_reject_nothing_valid.
