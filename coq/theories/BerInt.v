(* Calibration sketch (round 0): INTEGER/ENUMERATED content octets. Current code (refuted) and the planned repair (proved). *)
From Coq Require Import List ZArith NArith Lia Bool.
From Coq.Strings Require Import Byte.
Import ListNotations.
Open Scope Z_scope.

Definition bZ (b : byte) : Z := Z.of_N (Byte.to_N b).
Definition byte_of_Z (z : Z) : byte := match Byte.of_N (Z.to_N (z mod 256)) with Some b => b | None => x00 end.
Lemma bZ_byte_of_Z z : bZ (byte_of_Z z) = z mod 256.
Proof. unfold byte_of_Z, bZ. assert (0 <= z mod 256 < 256) by (apply Z.mod_pos_bound; lia).
  destruct (Byte.of_N (Z.to_N (z mod 256))) eqn:E.
  - apply Byte.to_of_N in E. rewrite E. lia.
  - exfalso. destruct (Byte.of_N_None_iff (Z.to_N (z mod 256))) as [H1 _]. specialize (H1 E). lia. Qed.
Lemma bZ_range b : 0 <= bZ b < 256.
Proof. unfold bZ. pose proof (Byte.to_N_bounded b). lia. Qed.

(* n big-endian octets of z mod 256^n : i64::to_be_bytes is to_be 8 *)
Fixpoint to_be (n : nat) (z : Z) : list byte :=
  match n with O => [] | S n' => to_be n' (z / 256) ++ [byte_of_Z z] end.
Definition be_val (bs : list byte) : Z := fold_left (fun r b => r * 256 + bZ b) bs 0.
Definition twos (bs : list byte) : Z :=
  match bs with [] => 0 | b :: _ => if 128 <=? bZ b then be_val bs - 256 ^ Z.of_nat (length bs) else be_val bs end.
Definition redundant (b0 b1 : byte) : bool :=
  ((bZ b0 =? 0) && (bZ b1 <? 128)) || ((bZ b0 =? 255) && (128 <=? bZ b1)).
Definition shortest (bs : list byte) : Prop :=
  match bs with [] => False | [_] => True | b0 :: b1 :: _ => redundant b0 b1 = false end.

(* ---- the code as it is (lber/src/structures/integer.rs) ---- *)
Inductive ires := IOk (bs : list byte) | IPanic.
Fixpoint count_loop (fuel : nat) (count rem : Z) : Z :=   (* do { count += 1; rem >>= 8 } while rem > 0 *)
  match fuel with O => count | S f => let c := count + 1 in let r := rem / 256 in if 0 <? r then count_loop f c r else c end.
Definition int_octets_cur (inner : Z) : ires :=
  if inner =? - 2^63 then IPanic (* -inner overflows: debug build panics *) else
  let rem := Z.abs inner in
  let count := count_loop 9 0 rem in
  let count := if (0 <? inner) && (Z.shiftr inner (8 * count - 1) =? 1) then count + 1 else count in
  let repr := to_be 8 inner in
  if 8 <? count then IOk (x00 :: skipn (8 - Z.to_nat (count - 1)) repr)
  else IOk (skipn (8 - Z.to_nat count) repr).

Example cur_127 : int_octets_cur 127 = IOk [x7f]. Proof. reflexivity. Qed.
Example cur_128 : int_octets_cur 128 = IOk [x00; x80]. Proof. reflexivity. Qed.
Example cur_m128 : int_octets_cur (-128) = IOk [x80]. Proof. reflexivity. Qed.
(* the property fails on the code as it is: *)
Lemma c07_int_refuted_m129 : int_octets_cur (-129) = IOk [x7f] /\ twos [x7f] = 127.
Proof. split; reflexivity. Qed.
Lemma c07_int_refuted_min : int_octets_cur (- 2^63) = IPanic.
Proof. reflexivity. Qed.

(* ---- the planned repair: drop redundant leading octets of to_be_bytes ---- *)
Fixpoint strip (bs : list byte) : list byte :=
  match bs with
  | b0 :: ((b1 :: _) as tl) => if redundant b0 b1 then strip tl else bs
  | _ => bs end.
Definition int_octets (inner : Z) : list byte := strip (to_be 8 inner).

Lemma be_val_snoc l b : be_val (l ++ [b]) = be_val l * 256 + bZ b.
Proof. unfold be_val. now rewrite fold_left_app. Qed.
Lemma be_val_cons_gen : forall l acc, fold_left (fun r b => r * 256 + bZ b) l acc = acc * 256 ^ Z.of_nat (length l) + be_val l.
Proof. induction l as [|b l IH]; intros acc; cbn [fold_left length].
  - unfold be_val; cbn. lia.
  - unfold be_val. cbn [fold_left]. rewrite IH, (IH (0 * 256 + bZ b)). rewrite Nat2Z.inj_succ, Z.pow_succ_r by lia. ring. Qed.
Lemma be_val_cons b l : be_val (b :: l) = bZ b * 256 ^ Z.of_nat (length l) + be_val l.
Proof. unfold be_val at 1. cbn [fold_left]. rewrite be_val_cons_gen. lia. Qed.
Lemma be_val_bound l : 0 <= be_val l < 256 ^ Z.of_nat (length l).
Proof. induction l as [|b l IH] using rev_ind; [cbn; lia|].
  rewrite be_val_snoc, app_length. cbn [length]. rewrite Nat.add_1_r, Nat2Z.inj_succ, Z.pow_succ_r by lia.
  pose proof (bZ_range b). lia. Qed.

Lemma to_be_length n z : length (to_be n z) = n.
Proof. revert z. induction n as [|n IH]; intros z; cbn; [reflexivity|]. rewrite app_length, IH. cbn. lia. Qed.
Lemma to_be_val n : forall z, be_val (to_be n z) = z mod 256 ^ Z.of_nat n.
Proof. induction n as [|n IH]; intros z.
  - cbn. now rewrite Z.mod_1_r.
  - cbn [to_be]. rewrite be_val_snoc, IH, bZ_byte_of_Z, Nat2Z.inj_succ, Z.pow_succ_r by lia.
    set (M := 256 ^ Z.of_nat n). assert (0 < M) by (apply Z.pow_pos_nonneg; lia).
    rewrite Z.rem_mul_r by lia. lia. Qed.

(* dropping one redundant leading octet preserves the two's-complement value *)
Lemma twos_strip1 b0 b1 r : redundant b0 b1 = true -> twos (b0 :: b1 :: r) = twos (b1 :: r).
Proof.
  unfold redundant. intros H. unfold twos. rewrite (be_val_cons b0). cbn [length].
  set (L := Z.of_nat (S (length r))). assert (HL : Z.of_nat (S (S (length r))) = L + 1) by lia. rewrite HL.
  rewrite Z.pow_add_r by lia. change (256 ^ 1) with 256.
  pose proof (bZ_range b0) as R0. pose proof (bZ_range b1) as R1.
  pose proof (be_val_bound r) as Rr. pose proof (be_val_cons b1 r) as Ec.
  assert (HP : 0 < 256 ^ Z.of_nat (length r)) by (apply Z.pow_pos_nonneg; lia).
  assert (EL : 256 ^ L = 256 * 256 ^ Z.of_nat (length r)) by (unfold L; rewrite Nat2Z.inj_succ, Z.pow_succ_r; lia).
  apply orb_true_iff in H as [H|H]; apply andb_true_iff in H as [E0 E1];
    apply Z.eqb_eq in E0; rewrite E0.
  - apply Z.ltb_lt in E1. destruct (Z.leb_spec 128 0); [lia|]. destruct (Z.leb_spec 128 (bZ b1)); [lia|]. lia.
  - apply Z.leb_le in E1. destruct (Z.leb_spec 128 255); [|lia]. destruct (Z.leb_spec 128 (bZ b1)); [|lia]. rewrite EL. lia.
Qed.
Lemma strip_cons2 b0 b1 r : strip (b0 :: b1 :: r) = if redundant b0 b1 then strip (b1 :: r) else b0 :: b1 :: r.
Proof. reflexivity. Qed.
Lemma twos_strip bs : twos (strip bs) = twos bs.
Proof. induction bs as [|b0 tl IH]; [reflexivity|]. destruct tl as [|b1 r]; [reflexivity|].
  rewrite strip_cons2. destruct (redundant b0 b1) eqn:E; [|reflexivity]. rewrite IH. symmetry. now apply twos_strip1. Qed.
Lemma strip_shortest bs : bs <> [] -> shortest (strip bs).
Proof. induction bs as [|b0 tl IH]; intros H; [congruence|]. destruct tl as [|b1 r]; [exact I|].
  rewrite strip_cons2. destruct (redundant b0 b1) eqn:E; [apply IH; discriminate|exact E]. Qed.

Lemma twos_to_be8 z : - 2^63 <= z < 2^63 -> twos (to_be 8 z) = z.
Proof.
  intros Hz. pose proof (to_be_val 8 z) as Hv. pose proof (to_be_length 8 z) as Hl.
  destruct (to_be 8 z) as [|b l] eqn:E; [discriminate|]. unfold twos. rewrite Hl, Hv.
  change (256 ^ Z.of_nat 8) with (2^64).
  (* b is the top octet: be_val = b * 256^7 + low, low < 256^7 *)
  rewrite be_val_cons in Hv. cbn [length] in Hl. injection Hl as Hl. rewrite Hl in Hv.
  pose proof (be_val_bound l) as Hb. rewrite Hl in Hb. change (256 ^ Z.of_nat 7) with (2^56) in *.
  change (256 ^ Z.of_nat 8) with (2^64) in Hv. pose proof (bZ_range b).
  destruct (Z.leb_spec 128 (bZ b)).
  - (* negative *) assert (z < 0). { destruct (Z_lt_le_dec z 0); [assumption|]. rewrite Z.mod_small in Hv by lia. lia. }
    rewrite <- (Z.mod_unique z (2^64) (-1) (z + 2^64)) by lia. lia.
  - assert (0 <= z). { destruct (Z_lt_le_dec z 0); [|assumption].
      rewrite <- (Z.mod_unique z (2^64) (-1) (z + 2^64)) in Hv by lia. lia. }
    rewrite Z.mod_small by lia. reflexivity.
Qed.

Theorem c07_int_shortest_repaired z : - 2^63 <= z < 2^63 -> twos (int_octets z) = z /\ shortest (int_octets z).
Proof. intros Hz. unfold int_octets. split.
  - rewrite twos_strip. now apply twos_to_be8.
  - apply strip_shortest. pose proof (to_be_length 8 z). destruct (to_be 8 z); [discriminate|discriminate]. Qed.

(* BOOLEAN contents (lber structures/boolean.rs): 0xFF for true, 0x00 for false *)
Definition bool_octets (b : bool) : list byte := [if b then xff else x00].
Lemma bool_octets_spec (b : bool) : bool_octets b = [if b then xff else x00].
Proof. reflexivity. Qed.
Print Assumptions c07_int_shortest_repaired.
Print Assumptions c07_int_refuted_m129.

(* ---------- uniqueness: the shortest two's-complement octets of a value are unique, so int_octets z is THE canonical content ---------- *)
Lemma twos_range bs : bs <> [] -> - 256 ^ Z.of_nat (length bs) <= 2 * twos bs < 256 ^ Z.of_nat (length bs).
Proof.
  destruct bs as [|b l]; [congruence|]. intros _. unfold twos. rewrite be_val_cons. cbn [length]. rewrite Nat2Z.inj_succ, Z.pow_succ_r by lia.
  pose proof (be_val_bound l). pose proof (bZ_range b). assert (0 < 256 ^ Z.of_nat (length l)) by (apply Z.pow_pos_nonneg; lia).
  destruct (Z.leb_spec 128 (bZ b)); nia.
Qed.
Lemma shortest_outside b0 b1 r : shortest (b0 :: b1 :: r) ->
  256 ^ Z.of_nat (length (b1 :: r)) <= 2 * twos (b0 :: b1 :: r) \/ 2 * twos (b0 :: b1 :: r) < - 256 ^ Z.of_nat (length (b1 :: r)).
Proof.
  cbn [shortest]. unfold redundant. intros H. apply orb_false_elim in H as [H1 H2].
  unfold twos. rewrite (be_val_cons b0), (be_val_cons b1). cbn [length]. rewrite !Nat2Z.inj_succ, !Z.pow_succ_r by lia.
  pose proof (be_val_bound r). pose proof (bZ_range b0). pose proof (bZ_range b1). assert (0 < 256 ^ Z.of_nat (length r)) by (apply Z.pow_pos_nonneg; lia).
  apply andb_false_iff in H1. apply andb_false_iff in H2.
  destruct (Z.leb_spec 128 (bZ b0)).
  - (* negative: b0 >= 128; redundant iff b0 = 255 and b1 >= 128 *)
    right. destruct H2 as [H2|H2]; [apply Z.eqb_neq in H2; nia|apply Z.leb_gt in H2; nia].
  - left. destruct H1 as [H1|H1]; [apply Z.eqb_neq in H1; nia|apply Z.ltb_ge in H1; nia].
Qed.
Lemma be_val_inj : forall a b, length a = length b -> be_val a = be_val b -> a = b.
Proof.
  induction a as [|x a IH]; intros [|y b] L E; try discriminate; [reflexivity|]. injection L as L.
  rewrite !be_val_cons, L in E. pose proof (be_val_bound a). pose proof (be_val_bound b). rewrite L in *.
  pose proof (bZ_range x). pose proof (bZ_range y). assert (0 < 256 ^ Z.of_nat (length b)) by (apply Z.pow_pos_nonneg; lia).
  assert (bZ x = bZ y) by nia. assert (be_val a = be_val b) by nia.
  f_equal; [|now apply IH]. unfold bZ in *. assert (En : Byte.to_N x = Byte.to_N y) by lia.
  assert (Es : Some x = Some y) by (rewrite <- (Byte.of_to_N x), <- (Byte.of_to_N y); now rewrite En). now injection Es.
Qed.
Lemma twos_inj_same_length a b : a <> [] -> length a = length b -> twos a = twos b -> a = b.
Proof.
  intros Ha L E. destruct a as [|x a]; [congruence|]. destruct b as [|y b]; [discriminate|].
  apply be_val_inj; [exact L|]. unfold twos in E. rewrite L in E.
  pose proof (be_val_bound (x :: a)). pose proof (be_val_bound (y :: b)). rewrite L in *.
  rewrite (be_val_cons x) in *. rewrite (be_val_cons y) in *. injection L as L. rewrite L in *.
  pose proof (be_val_bound a). pose proof (be_val_bound b). rewrite L in *.
  pose proof (bZ_range x). pose proof (bZ_range y). cbn [length] in *. rewrite Nat2Z.inj_succ, Z.pow_succ_r in * by lia.
  assert (0 < 256 ^ Z.of_nat (length b)) by (apply Z.pow_pos_nonneg; lia).
  destruct (Z.leb_spec 128 (bZ x)), (Z.leb_spec 128 (bZ y)); nia.
Qed.
Lemma shortest_length_unique a b : shortest a -> shortest b -> twos a = twos b -> length a = length b.
Proof.
  assert (P : forall n m : nat, (n < m)%nat -> 256 ^ Z.of_nat (S n) <= 256 ^ Z.of_nat m).
  { intros n m H. apply Z.pow_le_mono_r; lia. }
  intros Sa Sb E.
  destruct (Nat.lt_trichotomy (length a) (length b)) as [H|[H|H]]; [|exact H|]; exfalso.
  - destruct b as [|b0 [|b1 r]]; [exact Sb|destruct a; [exact Sa|cbn in H; lia]|].
    assert (Ha : a <> []) by (destruct a; [destruct Sa|discriminate]).
    pose proof (twos_range a Ha). destruct (shortest_outside _ _ _ Sb) as [O|O]; rewrite <- E in O;
      assert (256 ^ Z.of_nat (length a) <= 256 ^ Z.of_nat (length (b1 :: r))) by (apply Z.pow_le_mono_r; cbn [length] in *; lia); lia.
  - destruct a as [|a0 [|a1 r]]; [exact Sa|destruct b; [exact Sb|cbn in H; lia]|].
    assert (Hb : b <> []) by (destruct b; [destruct Sb|discriminate]).
    pose proof (twos_range b Hb). destruct (shortest_outside _ _ _ Sa) as [O|O]; rewrite E in O;
      assert (256 ^ Z.of_nat (length b) <= 256 ^ Z.of_nat (length (a1 :: r))) by (apply Z.pow_le_mono_r; cbn [length] in *; lia); lia.
Qed.
Theorem c07_int_canonical z bs : - 2^63 <= z < 2^63 -> shortest bs -> twos bs = z -> bs = int_octets z.
Proof.
  intros Hz Sb Hv. destruct (c07_int_shortest_repaired z Hz) as [Hi Si].
  assert (L : length bs = length (int_octets z)) by (apply shortest_length_unique; [assumption|assumption|congruence]).
  apply twos_inj_same_length; [destruct bs; [destruct Sb|discriminate]|exact L|congruence].
Qed.
Print Assumptions c07_int_canonical.
