(* Calibration sketch (round 0): C01's order clause on the event system of Conn.v, for every schedule and any combination of repairs.
   What an operation's stream hands to its caller is an order-preserving selection of what the server sent. *)
From RecordUpdate Require Import RecordUpdate.
From Coq Require Import List ZArith Lia Bool Arith.
From L3 Require Import Msgid Conn ConnProofs.
Import ListNotations.
Open Scope Z_scope.

(* order-preserving selection *)
Inductive Subseq {A} : list A -> list A -> Prop :=
| Sub_nil : Subseq [] []
| Sub_take x l1 l2 : Subseq l1 l2 -> Subseq (x :: l1) (x :: l2)
| Sub_skip x l1 l2 : Subseq l1 l2 -> Subseq l1 (x :: l2).
Lemma Subseq_nil {A} (l : list A) : Subseq [] l. Proof. induction l; constructor; assumption. Qed.
Lemma Subseq_refl {A} (l : list A) : Subseq l l. Proof. induction l; constructor; assumption. Qed.
Lemma Subseq_app {A} (a b c d : list A) : Subseq a b -> Subseq c d -> Subseq (a ++ c) (b ++ d).
Proof. intros H. induction H; cbn; intros; try constructor; auto. Qed.
Lemma Subseq_trans {A} (a b c : list A) : Subseq a b -> Subseq b c -> Subseq a c.
Proof. intros H1 H2. revert a H1. induction H2 as [|x l1 l2 H IH|x l1 l2 H IH]; intros a H1.
  - assumption.
  - inversion H1; subst; constructor; auto.
  - constructor. auto. Qed.
Lemma Subseq_filter {A} (f : A -> bool) l : Subseq (filter f l) l.
Proof. induction l as [|x l IH]; cbn; [constructor|]. destruct (f x); constructor; assumption. Qed.
Lemma Subseq_firstn {A} n (l : list A) : Subseq (firstn n l) l.
Proof. revert n. induction l as [|x l IH]; intros [|n]; cbn; try constructor; auto. apply Subseq_nil. Qed.
Lemma Subseq_snoc_r {A} (a b : list A) x : Subseq a b -> Subseq a (b ++ [x]).
Proof. intros H. rewrite <- (app_nil_r a). apply Subseq_app; [assumption|]. constructor. constructor. Qed.
Lemma Subseq_snoc {A} (a b : list A) x : Subseq a b -> Subseq (a ++ [x]) (b ++ [x]).
Proof. intros H. apply Subseq_app; [assumption|apply Subseq_refl]. Qed.

Definition notdone (r : resp) : bool := match r_kind r with RDone => false | _ => true end.
(* what a stream hands to its caller: a direct one everything but the final message; behind EntriesOnly the entries only *)
Definition shown (k : kind) (r : resp) : bool :=
  match r_kind r with RDone => false | REntry => true | _ => match k with KSearch true => false | _ => true end end.

(* the fields the order invariant reads *)
Definition view (c : cop) := (o_items c, o_taken c, o_got c, o_kind c).
Definition logs (s : st) := (processed s, win s, sent s).
Definition vpres (s x : st) : Prop :=
  logs x = logs s /\ length (ops x) = length (ops s) /\ forall o c, getop s o = Some c -> exists c', getop x o = Some c' /\ view c' = view c.
Lemma vpres_refl s : vpres s s. Proof. split; [reflexivity|]. split; [reflexivity|]. intros o c H. now exists c. Qed.
Lemma vpres_trans a b c : vpres a b -> vpres b c -> vpres a c.
Proof. intros (G1 & L1 & H1) (G2 & L2 & H2). split; [congruence|]. split; [congruence|]. intros o x Hx. destruct (H1 _ _ Hx) as (y & Hy & V1). destruct (H2 _ _ Hy) as (z & Hz & V2). exists z. split; [assumption|congruence]. Qed.
Lemma vpres_set s x y : vpres s x -> ops y = ops x -> logs y = logs x -> vpres s y.
Proof. intros (G & L & H) E El. unfold vpres, getop in *. rewrite E, El. auto. Qed.
Lemma vpres_updop s o f : (forall c, view (f c) = view c) -> vpres s (updop o f s).
Proof. intros Hf. split; [reflexivity|]. split; [unfold updop; cbn [ops set]; apply upd_length|]. intros o' c Hc. unfold getop, updop in *. cbn [ops set]. rewrite nth_upd, Hc.
  destruct (Nat.eqb o' o); [exists (f c); split; [reflexivity|apply Hf]|now exists c]. Qed.
Lemma vpres_updop' s x o f : vpres s x -> (forall c, view (f c) = view c) -> vpres s (updop o f x).
Proof. intros H Hf. eapply vpres_trans; [exact H|now apply vpres_updop]. Qed.
Lemma vpres_drop_entry' s x m k f : vpres s x -> (forall c, view (f c) = view c) -> vpres s (drop_entry m k f x).
Proof. intros H Hf. unfold drop_entry. destruct (alookup k m); [now apply vpres_updop'|assumption]. Qed.
Lemma vpres_fold {A} (g : st -> A -> st) (l : list A) : (forall s a, vpres s (g s a)) -> forall s, vpres s (fold_left g l s).
Proof. intros Hg. induction l as [|a l IH]; intros s; cbn; [apply vpres_refl|]. eapply vpres_trans; [apply Hg|apply IH]. Qed.
Lemma view_drop c : view (drop_reply c) = view c. Proof. unfold drop_reply. now destruct (o_reply c). Qed.
Lemma view_fill p c : view (fill_reply p c) = view c. Proof. unfold fill_reply. destruct (o_reply c); try reflexivity. now destruct (waiting c). Qed.
Lemma vpres_end_driver h s : vpres s (end_driver h s).
Proof. unfold end_driver.
  eapply vpres_trans; [apply (vpres_fold (fun s (p : Z * nat) => updop (snd p) drop_reply s)); intros; apply vpres_updop; apply view_drop|].
  eapply vpres_trans; [apply (vpres_fold (fun s (p : Z * nat) => updop (snd p) close_chan s)); intros; apply vpres_updop; reflexivity|].
  eapply vpres_trans; [apply (vpres_fold (fun s o => updop o (fun c => close_chan (drop_reply c)) s)); intros; apply vpres_updop; intros; apply view_drop|].
  eapply vpres_set; [apply vpres_refl|reflexivity|reflexivity]. Qed.

Ltac vside := intros; first [ reflexivity | apply view_drop | apply view_fill ].
Ltac vstrip :=
  lazymatch goal with
  | |- vpres ?s ?s => apply vpres_refl
  | |- vpres ?s (set ops _ _) => fail
  | |- vpres ?s (set _ _ ?x) => apply (vpres_set s x); [|reflexivity|reflexivity]
  | |- vpres ?s (updop ?o ?f ?x) => apply (vpres_updop' s x); [|try solve [vside]]
  | |- vpres ?s (drop_entry ?m ?k ?f ?x) => apply (vpres_drop_entry' s x); [|try solve [vside]]
  | |- vpres ?s (end_driver ?h ?x) => apply (vpres_trans s x); [|apply vpres_end_driver]
  end.

(* ---------- the invariant ---------- *)
Record Ord (s : st) : Prop := {
  od_log : map fst (processed s) ++ win s = sent s;
  od_items : forall o c, getop s o = Some c -> Subseq (o_items c) (map fst (processed s));
  od_taken : forall o c, getop s o = Some c -> (o_taken c <= length (o_items c))%nat;
  od_got : forall o c, getop s o = Some c -> o_got c = filter (shown (o_kind c)) (firstn (o_taken c) (o_items c)) }.

Lemma vpres_back s x o c' : vpres s x -> getop x o = Some c' -> exists c, getop s o = Some c /\ view c' = view c.
Proof. intros (_ & L & H) Hc'. destruct (getop s o) as [c|] eqn:Hc.
  - destruct (H _ _ Hc) as (c2 & Hc2 & V). exists c. split; [reflexivity|congruence].
  - exfalso. unfold getop in *. apply nth_error_None in Hc. assert (o < length (ops x))%nat by (apply nth_error_Some; congruence). lia. Qed.

Lemma Ord_vpres s x : Ord s -> vpres s x -> Ord x.
Proof.
  intros O V. assert (El : logs x = logs s) by apply V. injection El as Ep Ew Es. constructor.
  - rewrite Ep, Ew, Es. apply O.
  - intros o c' Hc'. destruct (vpres_back _ _ _ _ V Hc') as (c & Hc & E). injection E as E1 E2 E3 E4. rewrite Ep, E1. exact (od_items s O o c Hc).
  - intros o c' Hc'. destruct (vpres_back _ _ _ _ V Hc') as (c & Hc & E). injection E as E1 E2 E3 E4. rewrite E1, E2. exact (od_taken s O o c Hc).
  - intros o c' Hc'. destruct (vpres_back _ _ _ _ V Hc') as (c & Hc & E). injection E as E1 E2 E3 E4. rewrite E1, E2, E3, E4. exact (od_got s O o c Hc).
Qed.

Lemma Ord_init f : Ord (init f).
Proof. constructor; try reflexivity; intros o c H; unfold getop in H; cbn in H; destruct o; discriminate. Qed.

Lemma Ord_app s x cn : Ord s -> ops x = ops s ++ [cn] -> (o_items cn, o_taken cn, o_got cn) = ([], 0%nat, []) -> logs x = logs s -> Ord x.
Proof.
  intros O Eo Ev El. injection El as Ep Ew Es. injection Ev as V1 V2 V3.
  assert (G : forall o c', getop x o = Some c' -> getop s o = Some c' \/ c' = cn).
  { intros o c' H. unfold getop in *. rewrite Eo in H. destruct (Nat.ltb_spec o (length (ops s))); [rewrite nth_error_app1 in H by assumption; now left|].
    rewrite nth_error_app2 in H by assumption. destruct (o - length (ops s))%nat as [|[|n]]; cbn in H; try discriminate. right. congruence. }
  constructor.
  - rewrite Ep, Ew, Es. apply O.
  - intros o c' H. rewrite Ep. destruct (G _ _ H) as [H'| ->]; [exact (od_items s O o c' H')|rewrite V1; apply Subseq_nil].
  - intros o c' H. destruct (G _ _ H) as [H'| ->]; [exact (od_taken s O o c' H')|rewrite V1, V2; cbn; lia].
  - intros o c' H. destruct (G _ _ H) as [H'| ->]; [exact (od_got s O o c' H')|now rewrite V1, V2, V3].
Qed.

(* one op's view changes to (items', taken', got'), the rest is kept; the logs may change *)
Lemma Ord_upd1 s x o c g : Ord s -> getop s o = Some c -> ops x = upd o g (ops s) ->
  map fst (processed x) ++ win x = sent x ->
  (forall o' c', getop s o' = Some c' -> Subseq (o_items c') (map fst (processed x))) ->
  Subseq (o_items (g c)) (map fst (processed x)) ->
  (o_taken (g c) <= length (o_items (g c)))%nat ->
  o_got (g c) = filter (shown (o_kind (g c))) (firstn (o_taken (g c)) (o_items (g c))) -> Ord x.
Proof.
  intros O Hc Eo Hl Hold Hi Ht Hg.
  assert (G : forall o' c', getop x o' = Some c' -> (o' <> o /\ getop s o' = Some c') \/ (o' = o /\ c' = g c)).
  { intros o' c' H. unfold getop in *. rewrite Eo, nth_upd in H. destruct (Nat.eqb_spec o' o) as [->|Hne]; [right|left; now split].
    rewrite Hc in H. cbn in H. split; congruence. }
  constructor.
  - exact Hl.
  - intros o' c' H. destruct (G _ _ H) as [[_ H']|[-> ->]]; [exact (Hold _ _ H')|exact Hi].
  - intros o' c' H. destruct (G _ _ H) as [[_ H']|[-> ->]]; [exact (od_taken s O _ _ H')|exact Ht].
  - intros o' c' H. destruct (G _ _ H) as [[_ H']|[-> ->]]; [exact (od_got s O _ _ H')|exact Hg].
Qed.

Lemma firstn_snoc_le {A} n (l : list A) x : (n <= length l)%nat -> firstn n (l ++ [x]) = firstn n l.
Proof. intros H. rewrite firstn_app. replace (n - length l)%nat with 0%nat by lia. cbn. apply app_nil_r. Qed.
Lemma firstn_S_nth {A} n (l : list A) x : nth_error l n = Some x -> firstn (S n) l = firstn n l ++ [x].
Proof. revert n. induction l as [|a l IH]; intros [|n] H; cbn in *; try discriminate; [congruence|]. now rewrite (IH n H). Qed.

Lemma Ord_logs2 s x r w tag : Ord s -> win s = r :: w -> ops x = ops s -> processed x = processed s ++ [(r, tag)] -> win x = w -> sent x = sent s -> Ord x.
Proof.
  intros O Ew Eo Ep Ew' Es.
  assert (G : forall o c, getop x o = Some c -> getop s o = Some c) by (intros o c; unfold getop; now rewrite Eo).
  constructor; try (intros o c H; apply G in H).
  - rewrite Ep, Ew', Es, map_app, <- app_assoc. cbn. rewrite <- (od_log s O), Ew. reflexivity.
  - rewrite Ep, map_app. apply Subseq_snoc_r. exact (od_items s O _ _ H).
  - exact (od_taken s O _ _ H).
  - exact (od_got s O _ _ H).
Qed.

Theorem Ord_step s e : Ord s -> Ord (step s e).
Proof.
  intros O. destruct e as [k tmo| | | |how|r|o|o|o|dt|o|o|k tmo|o]; unfold step.
  - (* Start *) destruct (next_msgid (last s) (inuse s)); try exact O.
    destruct (is_running s); eapply (Ord_app s); try exact O; reflexivity.
  - (* DrvOp *) destruct (is_running s); cbn [negb]; [|exact O].
    destruct (opq s) as [|o q]; [exact O|]. apply (Ord_vpres s); [exact O|]. destruct (getop s o) as [c|] eqn:Ec; [|repeat vstrip].
    destruct (o_kind c); repeat match goal with |- context [if ?b then _ else _] => destruct b end; repeat vstrip.
  - (* DrvScrub *) destruct (is_running s); cbn [negb]; [|exact O].
    destruct (scrubq s) as [|id q]; [exact O|]. apply (Ord_vpres s); [exact O|]. repeat vstrip.
  - (* DrvResp *) destruct (is_running s); cbn [negb]; [|exact O].
    destruct (win s) as [|r w] eqn:Ew; [exact O|].
    assert (Hlog : forall tag, map fst (processed s ++ [(r, tag)]) ++ w = sent s).
    { intros tag. rewrite map_app, <- app_assoc. cbn. rewrite <- (od_log s O), Ew. reflexivity. }
    assert (Hold : forall tag o' c', getop s o' = Some c' -> Subseq (o_items c') (map fst (processed s ++ [(r, tag)]))).
    { intros tag o' c' H. rewrite map_app. apply Subseq_snoc_r. exact (od_items s O _ _ H). }
    destruct (alookup (r_mid r) (smap s)) as [o|] eqn:Es.
    + destruct (r_kind r) eqn:Ek.
      5: { apply (Ord_vpres (s <| win := w |> <| processed ::= fun l => l ++ [(r, None)] |>)); [|destruct (fix5 (fx s)); [apply vpres_refl|apply vpres_end_driver]].
           apply (Ord_logs2 s _ r w None); try reflexivity; assumption. }
      all: destruct (getop s o) as [c|] eqn:Ec; [destruct (o_rx c) eqn:Erx|]; cbn [negb].
      (* receiver alive: the item is pushed and logged as routed to o *)
      1,4,7,10: match goal with |- Ord ?x => idtac end;
        set (s1 := updop o (fun c0 => c0 <| o_items ::= fun l => l ++ [r] |>) (s <| win := w |>) <| processed ::= fun l => l ++ [(r, Some o)] |>);
        assert (O1 : Ord s1) by (
          apply (Ord_upd1 s s1 o c (fun c0 => c0 <| o_items ::= fun l => l ++ [r] |>)); try assumption; try reflexivity;
          [ apply Hlog | apply Hold
          | unfold s1; cbn [o_items processed set updop]; rewrite map_app; apply Subseq_snoc; exact (od_items s O _ _ Ec)
          | cbn [o_items o_taken set]; rewrite app_length; pose proof (od_taken s O _ _ Ec); cbn; lia
          | cbn [o_items o_taken o_got set]; rewrite firstn_snoc_le by exact (od_taken s O _ _ Ec); exact (od_got s O _ _ Ec) ]);
        apply (Ord_vpres s1); [exact O1|]; repeat match goal with |- context [if ?b then _ else _] => destruct b end; repeat vstrip.
      (* receiver gone or op unknown: logged as dropped *)
      all: set (s1 := s <| win := w |> <| processed ::= fun l => l ++ [(r, None)] |>);
        assert (O1 : Ord s1) by (apply (Ord_logs2 s s1 r w None); try reflexivity; assumption);
        apply (Ord_vpres s1); [exact O1|]; repeat match goal with |- context [if ?b then _ else _] => destruct b end; repeat vstrip.
    + destruct (alookup (r_mid r) (rmap s)) as [o|] eqn:Er.
      * match goal with |- context [if ?b then _ else _] => destruct b end; [apply (Ord_logs2 s _ r w None); try reflexivity; assumption|].
        match goal with |- Ord (set processed (fun l => l ++ [(r, ?tag)]) _) =>
          set (s1 := s <| win := w |> <| processed ::= fun l => l ++ [(r, tag)] |>);
          assert (O1 : Ord s1) by (apply (Ord_logs2 s s1 r w tag); try reflexivity; assumption) end.
        apply (Ord_vpres s1); [exact O1|].
        apply (vpres_set s1 (updop o (fill_reply (Some r)) s1)); [apply vpres_updop; intros; apply view_fill|reflexivity|reflexivity].
      * apply (Ord_logs2 s _ r w None); try reflexivity; assumption.
  - (* DrvEnd *) destruct (is_running s); [|exact O]. apply (Ord_vpres s); [exact O|apply vpres_end_driver].
  - (* ServerSend *) constructor; unfold getop; cbn [ops processed win sent set].
    + rewrite app_assoc, (od_log s O). reflexivity.
    + intros o c H. exact (od_items s O _ _ H).
    + intros o c H. exact (od_taken s O _ _ H).
    + intros o c H. exact (od_got s O _ _ H).
  - (* CliPoll *) destruct (getop s o) as [c|] eqn:Ec; [|exact O]. apply (Ord_vpres s); [exact O|].
    destruct (waiting c); cbn [negb]; [|apply vpres_refl].
    destruct (o_reply c); [destruct (o_deadline c) as [d|]; [destruct (d <=? now s); [destruct (is_running s)|]|]| |]; repeat vstrip.
  - (* StreamNext *) destruct (getop s o) as [c|] eqn:Ec; [|exact O].
    destruct (o_status c); try exact O.
    destruct (o_rx c); cbn [negb]; [|apply (Ord_vpres s); [exact O|repeat vstrip]].
    destruct (nth_error (o_items c) (o_taken c)) as [r|] eqn:En.
    + assert (Hlt : (o_taken c < length (o_items c))%nat) by (apply nth_error_Some; congruence).
      pose proof (od_got s O _ _ Ec) as Hg. revert Hg.
      destruct (r_kind r) eqn:Ek; try (destruct (o_kind c) as [|[|]| |] eqn:Eko); intros Hg.
      all: match goal with |- Ord (updop ?oo ?g ?ss) => apply (Ord_upd1 ss _ oo c g); try assumption; try reflexivity end.
      all: try apply (od_log s O); try (intros o' c' H'; exact (od_items s O _ _ H')); try exact (od_items s O _ _ Ec).
      all: try (cbn [o_taken o_items set]; lia).
      all: cbn [o_taken o_items o_got o_kind set]; rewrite ?Eko; rewrite (firstn_S_nth _ _ _ En), filter_app; cbn [filter]; unfold shown at 2; rewrite Ek, <- Hg; try reflexivity; symmetry; apply app_nil_r.
    + apply (Ord_vpres s); [exact O|]. destruct (o_chan c); cbn [negb]; [|repeat vstrip].
      destruct (o_tmo c) as [d|]; [|repeat vstrip]. match goal with |- context [if ?b then _ else _] => destruct b end; [|repeat vstrip].
      destruct (is_running s); repeat vstrip.
  - (* StreamFinish *) destruct (getop s o) as [c|] eqn:Ec; [|exact O]. apply (Ord_vpres s); [exact O|].
    destruct (o_status c); try apply vpres_refl; try destruct (fix20 (fx s)); destruct (is_running s); repeat vstrip.
  - (* Advance *) apply (Ord_vpres s); [exact O|]. repeat vstrip.
  - (* ViaHandle *) apply (Ord_vpres s); [exact O|]. repeat vstrip.
  - (* DropCall *) apply (Ord_vpres s); [exact O|]. destruct (getop s o) as [c|] eqn:Ec; [destruct (o_status c) eqn:Est|]; repeat vstrip.
  - (* Alloc *) unfold alloc. destruct (next_msgid (last s) (inuse s)); try exact O. eapply (Ord_app s); try exact O; reflexivity.
  - (* Enqueue *) unfold enqueue. destruct (getop s o) as [c|] eqn:Ec; [|exact O]. apply (Ord_vpres s); [exact O|].
    destruct (o_status c); try apply vpres_refl. destruct (is_running s); repeat vstrip.
Qed.

Theorem reachable_Ord f evs : Ord (run f evs).
Proof. induction evs as [|e evs IH] using rev_ind; [apply Ord_init|]. rewrite run_snoc. now apply Ord_step. Qed.

(* C01, order clause: for every schedule and with or without the repairs, what operation o's stream has handed to its caller so far
   ([o_got], and the stored final result) is, in the same order and without repetition of positions, a selection of the responses the
   server has sent so far; more precisely of those the driver has already taken off the wire. Together with [c01_routed_by_id] (the
   selection only contains responses carrying o's own id) this is the first sentence of the property. *)
Theorem c01_in_order f evs o c : getop (run f evs) o = Some c ->
  Subseq (o_items c) (sent (run f evs)) /\ Subseq (o_got c) (o_items c) /\ Subseq (o_got c) (sent (run f evs)).
Proof.
  intros Hc. pose proof (reachable_Ord f evs) as O.
  assert (H1 : Subseq (o_items c) (sent (run f evs))).
  { rewrite <- (od_log _ O). rewrite <- (app_nil_r (o_items c)). apply Subseq_app; [exact (od_items _ O _ _ Hc)|apply Subseq_nil]. }
  assert (H2 : Subseq (o_got c) (o_items c)).
  { rewrite (od_got _ O _ _ Hc). eapply Subseq_trans; [apply Subseq_filter|apply Subseq_firstn]. }
  split; [exact H1|]. split; [exact H2|]. eapply Subseq_trans; eassumption.
Qed.

(* nothing is skipped on the caller's side: the stream hands over exactly the first [o_taken] items pushed for it, minus the final Done *)
Theorem c01_no_gaps f evs o c : getop (run f evs) o = Some c -> o_got c = filter (shown (o_kind c)) (firstn (o_taken c) (o_items c)).
Proof. intros Hc. exact (od_got _ (reachable_Ord f evs) _ _ Hc). Qed.

(* the hypotheses are met by a history with two searches whose entries interleave on the wire *)
Example c01_in_order_example :
  let e1 := mkResp 1 REntry 11 in let e2 := mkResp 2 REntry 21 in let e1' := mkResp 1 REntry 12 in
  let s := run as_is [Start (KSearch false) None; Start (KSearch false) None; DrvOp; DrvOp; CliPoll 0; CliPoll 1;
                      ServerSend e1; ServerSend e2; ServerSend e1'; DrvResp; DrvResp; DrvResp; StreamNext 0; StreamNext 1; StreamNext 0] in
  option_map o_got (getop s 0%nat) = Some [e1; e1'] /\ option_map o_got (getop s 1%nat) = Some [e2] /\ sent s = [e1; e2; e1'].
Proof. vm_compute. repeat split. Qed.
Print Assumptions c01_in_order.
