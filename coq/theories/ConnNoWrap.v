(* Calibration sketch (round 0): below the wrap-around point the id allocator hands out 1, 2, 3, ... — so the "distinct message ids"
   hypothesis of ConnLin2.c13_all_schedules_partial holds for every history that starts fewer than 2^31 - 1 operations. C13, C05. *)
From RecordUpdate Require Import RecordUpdate.
From Coq Require Import List ZArith Lia Bool Arith.
From L3 Require Import Msgid Conn ConnProofs ConnTimeouts ConnAccount ConnLin2.
Import ListNotations.
Open Scope Z_scope.

Lemma next_msgid_fresh last s : 0 <= last < MAX -> ~ In (last + 1) s -> next_msgid last s = Found (last + 1).
Proof.
  intros Hl Hn. unfold next_msgid. cbn [loop]. unfold succ_id. destruct (Z.eqb_spec last MAX); [lia|].
  destruct (mem (last + 1) s) eqn:E; [apply mem_In in E; contradiction|reflexivity].
Qed.

(* ---------- fields and how events move them ---------- *)
Lemma len_drop_entry m k f s : length (ops (drop_entry m k f s)) = length (ops s).
Proof. unfold drop_entry. destruct (alookup k m); [apply upd_length|reflexivity]. Qed.
Lemma len_fold {A} (g : st -> A -> st) (l : list A) : (forall s a, length (ops (g s a)) = length (ops s)) -> forall s, length (ops (fold_left g l s)) = length (ops s).
Proof. intros Hg. induction l as [|a l IH]; intros s; cbn [fold_left]; [reflexivity|]. now rewrite IH, Hg. Qed.
Lemma len_end_driver h s : length (ops (end_driver h s)) = length (ops s).
Proof. unfold end_driver. cbn [ops set]. rewrite !len_fold; try reflexivity; intros; apply upd_length. Qed.
Lemma last_drop_entry m k f s : last (drop_entry m k f s) = last s. Proof. unfold drop_entry. now destruct (alookup k m). Qed.
Lemma last_fold {A} (g : st -> A -> st) (l : list A) : (forall s a, last (g s a) = last s) -> forall s, last (fold_left g l s) = last s.
Proof. intros Hg. induction l as [|a l IH]; intros s; cbn [fold_left]; [reflexivity|]. now rewrite IH, Hg. Qed.
Lemma last_end_driver h s : last (end_driver h s) = last s.
Proof. unfold end_driver. cbn [last set]. rewrite !last_fold; reflexivity. Qed.
Lemma inuse_drop_entry m k f s : inuse (drop_entry m k f s) = inuse s. Proof. unfold drop_entry. now destruct (alookup k m). Qed.
Lemma inuse_fold {A} (g : st -> A -> st) (l : list A) : (forall s a, inuse (g s a) = inuse s) -> forall s, inuse (fold_left g l s) = inuse s.
Proof. intros Hg. induction l as [|a l IH]; intros s; cbn [fold_left]; [reflexivity|]. now rewrite IH, Hg. Qed.
Lemma inuse_end_driver h s : inuse (end_driver h s) = if fix31 (fx s) then [] else inuse s.
Proof. unfold end_driver. cbn [inuse set]. rewrite !inuse_fold; reflexivity. Qed.

Definition is_start (e : ev) : bool := match e with Start _ _ | Alloc _ _ => true | _ => false end.

Lemma len_step s e : is_start e = false -> length (ops (step s e)) = length (ops s).
Proof.
  intros He. destruct e; try discriminate; unfold step, enqueue;
  repeat first [ reflexivity | rewrite len_end_driver | rewrite len_drop_entry | rewrite upd_length | progress cbn [ops set updop] | progress cbv zeta
               | match goal with |- context [match ?x with _ => _ end] => destruct x end ].
Qed.
Lemma last_step s e : is_start e = false -> last (step s e) = last s.
Proof. intros He. destruct e; try discriminate; unfold step, enqueue; projt last last_end_driver last_drop_entry. Qed.
Lemma In_rem_sub i a l : In i (rem a l) -> In i l. Proof. rewrite In_rem. tauto. Qed.
Lemma inuse_step s e : is_start e = false -> forall i, In i (inuse (step s e)) -> In i (inuse s).
Proof.
  intros He i. destruct e; try discriminate; unfold step, enqueue;
  repeat first [ (intros H; exact H) | (intros []) | rewrite inuse_end_driver | rewrite inuse_drop_entry | progress cbn [inuse set updop] | progress cbv zeta
               | (intros H; apply In_rem_sub in H; revert H)
               | match goal with |- context [match ?x with _ => _ end] => destruct x end ].
Qed.

(* ---------- below the wrap-around point ids are 1, 2, 3, ... in order of issue ---------- *)
Record J (s : st) : Prop := {
  j_last : last s = Z.of_nat (length (ops s));
  j_inuse : forall i, In i (inuse s) -> i <= last s;
  j_mids : forall o c, getop s o = Some c -> o_mid c = Z.of_nat (S o) }.

Lemma J_init f : J (init f).
Proof. constructor; cbn; [reflexivity|intros i []|]. intros o c H. unfold getop in H. cbn in H. destruct o; discriminate. Qed.

Lemma len_step_le s e : (length (ops (step s e)) <= S (length (ops s)))%nat.
Proof.
  destruct (is_start e) eqn:He; [|rewrite len_step by assumption; lia].
  destruct e; try discriminate; unfold step, alloc; (destruct (next_msgid (last s) (inuse s)); [|lia|lia]).
  all: try destruct (is_running s); cbn [ops set]; rewrite app_length; cbn; lia.
Qed.

Lemma nth_app_last (s : st) (cn : cop) o c : nth_error (ops s ++ [cn]) o = Some c -> getop s o = Some c \/ (o = length (ops s) /\ c = cn).
Proof. intros H. unfold getop. destruct (Nat.ltb_spec o (length (ops s))); [rewrite nth_error_app1 in H by assumption; now left|].
  rewrite nth_error_app2 in H by assumption. destruct (o - length (ops s))%nat as [|[|n]] eqn:E; cbn in H; try discriminate. right. split; [lia|congruence]. Qed.
Lemma J_step s e : keyed s -> J s -> Z.of_nat (length (ops s)) < MAX -> J (step s e).
Proof.
  intros K Hj Hlt. destruct (is_start e) eqn:He.
  - destruct e as [k tmo| | | | | | | | | | | |k tmo| ]; try discriminate; unfold step, alloc.
    all: rewrite next_msgid_fresh; [| rewrite (j_last s Hj); lia | intros H; apply (j_inuse s Hj) in H; lia].
    all: try destruct (is_running s); constructor; cbn [last inuse ops set]; unfold getop; cbn [ops set].
    all: try (rewrite app_length, (j_last s Hj); cbn; lia).
    all: try (match goal with |- context [fix31] => intros i H; destruct (fix31 (fx s)); [apply In_rem_sub in H|]; destruct H as [<-|H]; [lia|apply (j_inuse s Hj) in H; lia|lia|apply (j_inuse s Hj) in H; lia] end).
    all: try (intros i [<-|H]; [lia|apply (j_inuse s Hj) in H; lia]).
    all: intros o c H; apply nth_app_last in H as [H|[-> ->]]; [exact (j_mids s Hj o c H)|cbn [o_mid set]; rewrite (j_last s Hj); lia].
  - pose proof (step_sext s e K) as (_ & Hfw & _). constructor.
    + rewrite last_step, len_step by assumption. apply Hj.
    + intros i H. rewrite last_step by assumption. apply (j_inuse s Hj). now apply (inuse_step s e He).
    + intros o c' H. assert (Ho : (o < length (ops s))%nat) by (rewrite <- (len_step s e He); apply nth_error_Some; unfold getop in H; congruence).
      destruct (nth_error (ops s) o) as [c|] eqn:Hc; [|apply nth_error_None in Hc; lia].
      destruct (Hfw _ _ Hc) as (c'' & Hc'' & M & _). unfold getop in H. rewrite H in Hc''. injection Hc'' as <-. rewrite M. exact (j_mids s Hj o c Hc).
Qed.

Theorem reachable_J f evs : Z.of_nat (length evs) < MAX -> J (run f evs) /\ (length (ops (run f evs)) <= length evs)%nat.
Proof.
  induction evs as [|e evs IH] using rev_ind; intros Hlt; [split; [apply J_init|cbn; lia]|].
  rewrite app_length in Hlt. cbn [length] in Hlt. destruct IH as [Hj Hlen]; [lia|]. rewrite run_snoc. split.
  - apply J_step; [apply reachable_keyed|assumption|lia].
  - rewrite app_length. cbn [length]. pose proof (len_step_le (run f evs) e). lia.
Qed.

Lemma J_NoDup s : J s -> NoDup (map o_mid (ops s)).
Proof.
  intros Hj. rewrite NoDup_nth_error. intros i j Hi E. rewrite map_length in Hi. rewrite !nth_error_map in E.
  destruct (nth_error (ops s) i) as [ci|] eqn:Ei; [|apply nth_error_None in Ei; lia].
  destruct (nth_error (ops s) j) as [cj|] eqn:Ej; [|discriminate]. cbn in E. injection E as E.
  rewrite (j_mids s Hj i ci Ei), (j_mids s Hj j cj Ej) in E. lia.
Qed.

(* C05 on the connection model, below the wrap-around point: the k-th operation started carries id k, so no two operations of the
   history (outstanding or not) share an id, and every id is in 1 .. 2^31 - 2 *)
Theorem c05_ids_in_order f evs o c : Z.of_nat (length evs) < MAX -> getop (run f evs) o = Some c ->
  o_mid c = Z.of_nat (S o) /\ 1 <= o_mid c < MAX.
Proof.
  intros Hlt Hc. destruct (reachable_J f evs Hlt) as [Hj Hlen]. rewrite (j_mids _ Hj o c Hc). split; [reflexivity|].
  assert (o < length (ops (run f evs)))%nat by (apply nth_error_Some; unfold getop in Hc; congruence). lia.
Qed.

(* ... in particular no two operation records of such a history share an id - whatever the interleaving of the callers' allocations
   (Alloc), their sends (Enqueue), the driver and the server *)
Theorem c05_distinct_ids f evs : Z.of_nat (length evs) < MAX -> NoDup (map o_mid (ops (run f evs))).
Proof. intros H. apply J_NoDup. now apply reachable_J. Qed.

(* C13 for every history of fewer than 2^31 - 1 events on the repaired model, with no further hypothesis *)
Theorem c13_below_wrap evs : Forall wf_ev evs -> Z.of_nat (length evs) < MAX ->
  quiescent (run repaired evs) = true -> clean (run repaired evs) = true.
Proof.
  intros Hwf Hlt. apply c13_all_schedules_partial; [exact Hwf|]. apply J_NoDup. now apply reachable_J.
Qed.
Print Assumptions c13_below_wrap.
Print Assumptions c05_ids_in_order.

(* ---------- C11 at the driver: with the F5 repair no response can make the driver panic ---------- *)
Lemma drv_fold {A} (g : st -> A -> st) (l : list A) : (forall s a, drv (g s a) = drv s) -> forall s, drv (fold_left g l s) = drv s.
Proof. intros Hg. induction l as [|a l IH]; intros s; cbn [fold_left]; [reflexivity|]. now rewrite IH, Hg. Qed.
Lemma drv_end_driver h s : drv (end_driver h s) = h. Proof. reflexivity. Qed.
Theorem c11_driver_never_panics s e : fix5 (fx s) = true -> drv s <> EndedPanic -> e <> DrvEnd EndedPanic -> drv (step s e) <> EndedPanic.
Proof.
  intros F5 Hs He. destruct e; unfold step, alloc, enqueue; rewrite ?F5;
  repeat first [ exact Hs | rewrite drv_end_driver | rewrite ConnLin2.drv_drop_entry | progress cbn [drv set updop] | progress cbv zeta
               | discriminate
               | match goal with
                 | |- context [match ?x with _ => _ end] => destruct x
                 end ].
  all: try (intros E; apply He; now rewrite E).
Qed.
(* as the code is, one response is enough: an operation code the driver does not know, under the id of a live search *)
Lemma c11_driver_refuted_F5 :
  drv (run as_is [Start (KSearch false) None; DrvOp; ServerSend (mkResp 1 ROther 0); DrvResp]) = EndedPanic.
Proof. vm_compute. reflexivity. Qed.
Print Assumptions c11_driver_never_panics.
