(* C11 / C04 across the two models: what the codec (FrameFixed.decode_inner', fed by tokio-util's Framed: FrameSpec.framed_run) yields from
   ARBITRARY server bytes, turned into the events of the connection model (Conn.step). The same composition is what the correspondence
   runner executes for the script step X:raw (ocaml/connrun.ml). *)
From RecordUpdate Require Import RecordUpdate.
From Coq Require Import List ZArith NArith Lia Bool Arith.
From Coq.Strings Require Import Byte.
From L3 Require Import Ber BerFixed Frame FrameSpec FrameFixed FrameFixedSpec Msgid Conn ConnProofs ConnAccount ConnLin2 ConnC04.
Import ListNotations.

(* ---- the byte stream never makes the codec panic, and an error is the last thing it yields ---- *)
Section Stream.
Variable dec : list byte -> dres.
Hypothesis dec_no_panic : forall b, dec b <> DPanic.
Lemma drain_no_panic : forall fuel buf, ~ In EvPanic (fst (drain dec fuel buf)).
Proof. induction fuel as [|f IH]; intros buf; cbn [drain fst]; [tauto|].
  destruct (dec buf) as [| | |mid op cs rest] eqn:E; cbn [fst]; try tauto.
  - intros [H|[]]; discriminate.
  - now elim (dec_no_panic buf).
  - specialize (IH rest). destruct (drain dec f rest) as [evs b]. cbn [fst] in *. intros [H|H]; [discriminate|tauto]. Qed.
Lemma framed_run_no_panic : forall chunks buf, ~ In EvPanic (framed_run dec buf chunks).
Proof. induction chunks as [|c cs IH]; intros buf; cbn [framed_run]; [tauto|].
  pose proof (drain_no_panic (S (length (buf ++ c))) (buf ++ c)) as H. destruct (drain dec (S (length (buf ++ c))) (buf ++ c)) as [evs [b|]]; cbn [fst] in H; [|exact H].
  intros Hin. apply in_app_or in Hin as [Hin|Hin]; [tauto|now apply (IH b)]. Qed.
(* an error terminates the stream: it is the last event *)
Lemma drain_error_last : forall fuel buf evs b, drain dec fuel buf = (evs, b) -> In EvError evs -> b = None /\ exists pre, evs = pre ++ [EvError] /\ ~ In EvError pre.
Proof. induction fuel as [|f IH]; intros buf evs b H Hin; cbn [drain] in H; [injection H as <- _; destruct Hin|].
  destruct (dec buf) as [| | |mid op cs rest] eqn:E.
  - injection H as <- _. destruct Hin.
  - injection H as <- <-. split; [reflexivity|]. exists []. split; [reflexivity|tauto].
  - injection H as <- _. destruct Hin as [Hd|[]]; discriminate.
  - destruct (drain dec f rest) as [evs' b'] eqn:Ed. injection H as <- <-. destruct Hin as [Hd|Hin]; [discriminate|].
    destruct (IH rest evs' b' Ed Hin) as (-> & pre & -> & Hn). split; [reflexivity|]. exists (Deliver (mid, op, cs) :: pre). split; [reflexivity|].
    intros [Hd|Hd]; [discriminate|tauto]. Qed.
Lemma drain_no_error_some : forall fuel buf evs, drain dec fuel buf = (evs, None) -> In EvError evs.
Proof. induction fuel as [|f IH]; intros buf evs H; cbn [drain] in H; [discriminate|].
  destruct (dec buf) as [| | |mid op cs rest] eqn:E; try discriminate.
  - injection H as <-. now left.
  - now elim (dec_no_panic buf).
  - destruct (drain dec f rest) as [evs' b'] eqn:Ed. injection H as <- ->. right. now apply (IH rest). Qed.
Lemma framed_run_error_last : forall chunks buf, In EvError (framed_run dec buf chunks) ->
  exists pre, framed_run dec buf chunks = pre ++ [EvError] /\ ~ In EvError pre.
Proof. induction chunks as [|c cs IH]; intros buf Hin; cbn [framed_run] in *; [destruct Hin|].
  destruct (drain dec (S (length (buf ++ c))) (buf ++ c)) as [evs [b|]] eqn:Ed.
  - assert (Hn : ~ In EvError evs) by (intros H; destruct (drain_error_last _ _ _ _ Ed H) as [Hb _]; discriminate).
    apply in_app_or in Hin as [Hin|Hin]; [tauto|]. destruct (IH b Hin) as (pre & -> & Hp). exists (evs ++ pre). split; [now rewrite app_assoc|].
    intros H. apply in_app_or in H as [H|H]; tauto.
  - destruct (drain_error_last _ _ _ _ Ed Hin) as (_ & pre & -> & Hp). now exists pre. Qed.
End Stream.

(* ---- from codec events to driver events ---- *)
Definition kind_of_op (op : tree) : rkind :=
  let id := match op with P _ id _ | C _ id _ => id end in
  if (id =? 4)%N then REntry else if (id =? 19)%N then RRef else if (id =? 25)%N then RInter else if (id =? 5)%N then RDone else ROther.
Definition resp_of (v : N * tree * list ctrl) : resp := let '(mid, op, _) := v in mkResp (Z.of_N mid) (kind_of_op op) 0.
(* a decoded frame is queued for the driver and routed; a decoding error ends the driver with an error *)
Definition wire_evs (e : event) : list ev :=
  match e with Deliver v => [ServerSend (resp_of v); DrvResp] | EvError => [DrvEnd EndedErr] | EvPanic => [DrvEnd EndedPanic] end.
Definition receive (m : nat) (chunks : list (list byte)) : list ev := flat_map wire_evs (framed_run (decode_inner' (repaired_d m)) [] chunks).

(* executable form for the correspondence runner: one read appended to the buffered bytes; also returns what stays buffered (None: stream over) *)
Definition receive_buf (m : nat) (buf chunk : list byte) : list ev * option (list byte) :=
  let (evs, left) := framed_run_buf (decode_inner' (repaired_d m)) buf [chunk] in (flat_map wire_evs evs, left).
Lemma receive_buf_receive m chunk : fst (receive_buf m [] chunk) = receive m [chunk].
Proof. unfold receive_buf, receive. rewrite <- (framed_run_buf_events _ [chunk] []). now destruct (framed_run_buf _ [] [chunk]). Qed.

Lemma receive_proper m chunks : Forall proper (receive m chunks).
Proof. unfold receive. apply Forall_forall. intros e Hin. apply in_flat_map in Hin as (x & _ & Hx). destruct x; cbn in Hx; intuition (subst; exact I). Qed.
Lemma run_app f a b : run f (a ++ b) = fold_left step b (run f a).
Proof. unfold run. now rewrite fold_left_app. Qed.
Lemma fold_ended l : forall s, is_running s = false -> is_running (fold_left step l s) = false.
Proof. induction l as [|e l IH]; intros s H; cbn [fold_left]; [exact H|]. apply IH. now apply c04_ended_stays_ended. Qed.

(* C11: the driver never panics on server bytes: the events it is fed contain no panic, whatever the bytes and however they are cut *)
Theorem c11_bytes_never_panic m chunks : ~ In (DrvEnd EndedPanic) (receive m chunks).
Proof. unfold receive. intros Hin. apply in_flat_map in Hin as (x & Hx & Hin). destruct x as [v| |]; cbn in Hin.
  - destruct Hin as [H|[H|[]]]; discriminate.
  - destruct Hin as [H|[]]; discriminate.
  - exact (framed_run_no_panic _ (fun b => c11_decode_no_panic_repaired m b) chunks [] Hx). Qed.

(* C11 + C04: bytes that are not a well-formed LDAPMessage envelope (the codec reports an error somewhere in the stream, however the bytes
   were cut into reads) end the connection, and every operation and stream that was waiting - in ANY reachable state of the connection,
   whatever happens afterwards - observes it: no reply channel is left empty, no item channel open *)
Theorem c11_undecodable_ends_connection f pre m chunks post o c :
  Forall proper pre -> Forall proper post -> In EvError (framed_run (decode_inner' (repaired_d m)) [] chunks) ->
  let s := run f (pre ++ receive m chunks ++ post) in
  is_running s = false /\ (getop s o = Some c -> o_reply c <> OsEmpty /\ o_chan c = false).
Proof.
  intros Hp Hq Hin. cbv zeta.
  assert (Hend : is_running (run f (pre ++ receive m chunks ++ post)) = false).
  { rewrite app_assoc, run_app. apply fold_ended. rewrite run_app.
    destruct (framed_run_error_last _ chunks [] Hin) as (pr & E & _).
    unfold receive. rewrite E, flat_map_app. cbn [flat_map wire_evs app]. rewrite fold_left_app. cbn [fold_left].
    set (s0 := fold_left step (flat_map wire_evs pr) (run f pre)). destruct (is_running s0) eqn:Er.
    - apply c04_end_causes; [discriminate|exact Er].
    - now apply c04_ended_stays_ended. }
  split; [exact Hend|]. intros Hc. eapply c04_no_pending_after_end; [|exact Hend|exact Hc].
  apply Forall_app; split; [exact Hp|]. apply Forall_app; split; [apply receive_proper|exact Hq].
Qed.
(* C06 at the level the caller sees: for a stream of well-formed messages (any legal encoding of each), the events the driver is fed -
   hence every later state of the connection, every delivery to every operation - do not depend on how the bytes were cut into reads *)
Theorem c06_connection_level f pre post m vs bss chunks1 chunks2 :
  Stream (EncFixed m) vs bss -> concat chunks1 = concat bss -> concat chunks2 = concat bss ->
  receive m chunks1 = flat_map wire_evs (map Deliver vs) /\
  run f (pre ++ receive m chunks1 ++ post) = run f (pre ++ receive m chunks2 ++ post).
Proof.
  intros S E1 E2. unfold receive. rewrite (c06_any_segmentation_fixed m vs bss chunks1 S E1), (c06_any_segmentation_fixed m vs bss chunks2 S E2). split; reflexivity.
Qed.
(* and each message costs the driver exactly: queue it, route it *)
Corollary c06_one_pair_per_message m vs bss chunks : Stream (EncFixed m) vs bss -> concat chunks = concat bss ->
  receive m chunks = flat_map (fun v => [ServerSend (resp_of v); DrvResp]) vs.
Proof. intros S E. unfold receive. rewrite (c06_any_segmentation_fixed m vs bss chunks S E). clear. induction vs as [|v vs IH]; [reflexivity|].
  cbn [map flat_map wire_evs app]. now rewrite IH. Qed.

(* the hypothesis is met by, e.g., a frame whose nested element is cut inside its header at the end of its parent *)
Example c11_undecodable_example : In EvError (framed_run (decode_inner' (repaired_d 100)) [] [[x30; x08; x02; x01; x01; x6b; x03; x0a]; [x84; x00]]).
Proof. vm_compute. now left. Qed.
Print Assumptions c11_undecodable_ends_connection.
Print Assumptions c11_bytes_never_panic.
Print Assumptions c06_connection_level.
