(* Calibration sketch (round 0): src/protocol.rs decode_inner + controls_impl.rs parse_controls, as they are. *)
From Coq Require Import List NArith Lia Bool Arith.
From Coq.Strings Require Import Byte.
From L3 Require Import Ber Utf8.
Import ListNotations.
Open Scope N_scope.

Inductive outcome (A : Type) := Ok (a : A) | Panic.
Arguments Ok {A}. Arguments Panic {A}.

Record ctrl := { c_oid : list byte; c_crit : bool; c_val : option (list byte) }.

Definition tree_id (t : tree) : N := match t with P _ id _ | C _ id _ => id end.
Definition tree_class (t : tree) : class := match t with P c _ _ | C c _ _ => c end.
Definition class_eqb (a b : class) : bool := class_N a =? class_N b.

(* one control: components.next().expect / expect_primitive / from_utf8().expect / v[0] / panic!("decoding error") *)
Definition parse_control (t : tree) : outcome ctrl :=
  match t with
  | P _ _ _ => Panic                                                   (* expect("components") *)
  | C _ _ comps =>
    match comps with
    | [] => Panic                                                      (* expect("element") *)
    | C _ _ _ :: _ => Panic                                            (* expect("octet string") *)
    | P _ _ oid :: rest =>
      if negb (Utf8.valid oid) then Panic else                         (* expect("control type") *)
      match rest with
      | [] => Ok {| c_oid := oid; c_crit := false; c_val := None |}
      | c :: rest' =>
        if tree_id c =? 1 then
          match c with
          | C _ _ _ => Panic                                           (* panic!("decoding error") *)
          | P _ _ [] => Panic                                          (* v[0] out of bounds *)
          | P _ _ (b :: _) =>
            let crit := negb (bN b =? 0) in
            match rest' with
            | [] => Ok {| c_oid := oid; c_crit := crit; c_val := None |}
            | P _ _ v :: _ => Ok {| c_oid := oid; c_crit := crit; c_val := Some v |}
            | C _ _ _ :: _ => Panic end                                (* expect("octet string") *)
          end
        else if tree_id c =? 4 then
          match c with P _ _ v => Ok {| c_oid := oid; c_crit := false; c_val := Some v |} | C _ _ _ => Panic end
        else Panic                                                     (* panic!("decoding error") *)
      end
    end
  end.
Fixpoint parse_controls (ts : list tree) : outcome (list ctrl) :=
  match ts with [] => Ok [] | t :: r =>
    match parse_control t with Panic => Panic | Ok c =>
    match parse_controls r with Panic => Panic | Ok cs => Ok (c :: cs) end end end.

Inductive dres := DNeed | DErr | DPanic | DFrame (id : N) (op : tree) (ctrls : list ctrl) (rest : list byte).

(* `as i32` of a u64, reported as the two's-complement bit pattern mod 2^32 *)
Definition as_i32 (n : N) : N := n mod 2^32.
(* MessageID ::= INTEGER (0 .. maxInt), maxInt = 2^31 - 1 (RFC 4511 4.1.1): at most 8 content octets here, the sign bit clear, the value in range *)
Definition id_ok0 (ib : list byte) : bool :=   (* the range check of repair F30, which let an INTEGER without content octets pass as 0 *)
  (length ib <=? 8)%nat && (match ib with [] => true | b0 :: _ => bN b0 <? 128 end) && (parse_uint ib <=? 2147483647).
Definition id_ok (ib : list byte) : bool := match ib with [] => false | _ => id_ok0 ib end.   (* ... and with repair F38: at least one octet *)


Definition envelope (tags : list tree) : outcome (option (N * tree * list ctrl)) :=   (* Ok None = decoding_error *)
  match rev tags with
  | [] => Panic                                                        (* tags.pop().expect("element") *)
  | last :: before =>
    let is_ctx n := class_eqb (tree_class last) Context && (tree_id last =? n) in
    let cont (protoop : tree) (ctrl_seq : option (list tree)) (before : list tree) :=
      match (match ctrl_seq with Some cs => parse_controls cs | None => Ok [] end) with
      | Panic => Panic
      | Ok ctrls =>
        match before with
        | [] => Panic                                                  (* expect("element") *)
        | P Universal id v :: _ => if id =? 2 then Ok (Some (as_i32 (parse_uint v), protoop, ctrls)) else Panic
        | _ => Panic end                                               (* expect("message id") *)
      end in
    if is_ctx 0 then
      match last with
      | P _ _ _ => Ok None
      | C _ _ cs => match before with [] => Panic | protoop :: before' => cont protoop (Some cs) before' end end
    else if is_ctx 10 then                                             (* Active Directory workaround *)
      match before with [] => Panic | protoop :: before' => cont protoop None before' end
    else cont last None before
  end.

Definition decode_inner (buf : list byte) : dres :=
  match buf with
  | [] => DNeed                                                        (* Parser::parse on empty input *)
  | _ =>
    match parse_tag (S (length buf)) buf with
    | PInc => DNeed
    | PErr | PFuel => DErr
    | POk (t, rest) =>
      match t with
      | C _ id tags =>
        if id =? 16 then
          match envelope tags with
          | Panic => DPanic
          | Ok None => DErr
          | Ok (Some (mid, op, ctrls)) => DFrame mid op ctrls rest end
        else DErr
      | P _ _ _ => DErr end
    end
  end.

(* ---- C11 on the code as it is: each clause of the property is refuted by evaluation ---- *)
Definition b (l : list N) : list byte := map byte_of_N l.
Lemma c11_refuted_empty_seq : decode_inner (b [48; 0]) = DPanic. Proof. vm_compute. reflexivity. Qed.
Lemma c11_refuted_one_elem : decode_inner (b [48; 3; 2; 1; 1]) = DPanic. Proof. vm_compute. reflexivity. Qed.
Lemma c11_refuted_bad_msgid : decode_inner (b [48; 5; 4; 1; 1; 97; 0]) = DPanic. Proof. vm_compute. reflexivity. Qed.
Lemma c11_refuted_empty_bool :   (* 30 10 02 01 01 61 00 a0 09 30 07 04 01 78 01 00 *)
  decode_inner (b [48; 14; 2; 1; 1; 97; 0; 160; 7; 48; 5; 4; 1; 120; 1; 0]) = DPanic. Proof. vm_compute. reflexivity. Qed.
(* wedge: the outer TLV is complete (2 + 4 bytes present) and the decoder still asks for more *)
Lemma c11_refuted_wedge : decode_inner (b [48; 4; 48; 130; 16; 0]) = DNeed. Proof. vm_compute. reflexivity. Qed.
(* a well-formed response decodes *)
Example bind_response :
  decode_inner (b [48; 12; 2; 1; 1; 97; 7; 10; 1; 0; 4; 0; 4; 0; 99]) =
  DFrame 1 (C Application 1 [P Universal 10 [x00]; P Universal 4 []; P Universal 4 []]) [] [byte_of_N 99].
Proof. vm_compute. reflexivity. Qed.
