(* C02: the handle's per-operation state as the SOURCE has it. Two tables are regenerated from src/ldap.rs by tools/translate_clone.py before
   every proof stage: what `impl Clone for Ldap` puts into each field of the copy, and which field each with_* modifier assigns. The
   sequence model (RequestSeq) rests on exactly these two facts: a clone starts with nothing pending, and a modifier writes its own field. *)
From Coq Require Import List String Bool.
From L3G Require Import CloneTable.
Import ListNotations.
Open Scope string_scope.

Definition how (f : string) : option string := match find (fun r : string * string => String.eqb (fst r) f) clone_table with Some r => Some (snd r) | None => None end.
(* the three one-shot modifiers and the last message id do not travel with a clone; everything else does *)
Definition per_operation : list string := ["timeout"; "controls"; "search_opts"].
Theorem c02_clone_starts_clean :
  forallb (fun f => match how f with Some "none" => true | _ => false end) per_operation = true /\
  how "last_id" = Some "zero" /\
  forallb (fun r : string * string => if existsb (String.eqb (fst r)) ("last_id" :: per_operation) then true
                                       else String.eqb (snd r) "clone" || String.eqb (snd r) "copy") clone_table = true.
Proof. repeat split; vm_compute; reflexivity. Qed.
(* each modifier assigns Some(parameter) to its own field, and the three fields are the per-operation ones *)
Theorem c02_modifiers_write_their_field :
  handle_modifier_table = [("with_search_options", "search_opts"); ("with_controls", "controls"); ("with_timeout", "timeout")].
Proof. vm_compute. reflexivity. Qed.
Print Assumptions c02_clone_starts_clean.
