(* C04, "operations whose responses had been fully delivered still return them": a completed operation's outcome is final, and what a
   stream has handed to its caller is never taken back - for every event, with or without the repairs. *)
From RecordUpdate Require Import RecordUpdate.
From Coq Require Import List ZArith Lia Bool Arith.
From L3 Require Import Msgid Conn ConnProofs.
Import ListNotations.
Open Scope Z_scope.

Definition fext (c c' : cop) : Prop :=
  (forall p, o_status c = COk p -> o_status c' = COk p) /\
  (forall e, o_status c = CErr e -> o_status c' = CErr e) /\
  (exists extra, o_got c' = o_got c ++ extra).
Lemma fext_refl c : fext c c.
Proof. repeat split; auto. exists []. now rewrite app_nil_r. Qed.
Lemma fext_trans a b c : fext a b -> fext b c -> fext a c.
Proof. intros (A1 & A2 & (x & A3)) (B1 & B2 & (y & B3)). repeat split; auto. exists (x ++ y). now rewrite B3, A3, app_assoc. Qed.
Lemma fext_same c c' : o_status c' = o_status c -> o_got c' = o_got c -> fext c c'.
Proof. intros S G. repeat split; try congruence. exists []. now rewrite app_nil_r. Qed.
Lemma fext_drop_reply c : fext c (drop_reply c).
Proof. unfold drop_reply. destruct (o_reply c); try apply fext_refl. now apply fext_same. Qed.
Lemma fext_close_chan c : fext c (close_chan c). Proof. now apply fext_same. Qed.
Lemma fext_fill p c : fext c (fill_reply p c).
Proof. unfold fill_reply. destruct (o_reply c); try apply fext_refl. destruct (waiting c); now apply fext_same. Qed.
(* an update that changes the status of an operation which is neither completed nor failed, and only appends to what was handed over *)
Lemma fext_live c c' : (forall p, o_status c <> COk p) -> (forall e, o_status c <> CErr e) -> (exists extra, o_got c' = o_got c ++ extra) -> fext c c'.
Proof. intros H1 H2 H3. repeat split; [intros p E; now elim (H1 p)|intros e E; now elim (H2 e)|exact H3]. Qed.

Definition fsext (s s' : st) : Prop := forall o c, getop s o = Some c -> exists c', getop s' o = Some c' /\ fext c c'.
Lemma fsext_refl s : fsext s s. Proof. intros o c H. exists c. split; [assumption|apply fext_refl]. Qed.
Lemma fsext_trans a b c : fsext a b -> fsext b c -> fsext a c.
Proof. intros H1 H2 o x Hx. destruct (H1 _ _ Hx) as (y & Hy & E1). destruct (H2 _ _ Hy) as (z & Hz & E2). exists z. split; [assumption|eapply fext_trans; eassumption]. Qed.
Lemma fsext_updop o f s : (forall c, getop s o = Some c -> fext c (f c)) -> fsext s (updop o f s).
Proof. intros Hf o' c Hc. unfold getop, updop in *. cbn [ops set]. rewrite nth_upd. destruct (Nat.eqb_spec o' o) as [->|].
  - rewrite Hc. cbn. exists (f c). split; [reflexivity|now apply Hf].
  - exists c. split; [assumption|apply fext_refl]. Qed.
Lemma fsext_drop_entry m k f s : (forall c, fext c (f c)) -> fsext s (drop_entry m k f s).
Proof. intros H. unfold drop_entry. destruct (alookup k m); [apply fsext_updop; auto|apply fsext_refl]. Qed.
Lemma fsext_fold {A} (g : st -> A -> st) (l : list A) : (forall s a, fsext s (g s a)) -> forall s, fsext s (fold_left g l s).
Proof. intros Hg. induction l as [|a l IH]; intros s; cbn; [apply fsext_refl|]. eapply fsext_trans; [apply Hg|apply IH]. Qed.
Lemma fsext_same_ops s s' : ops s' = ops s -> fsext s s'.
Proof. intros E o c H. exists c. split; [unfold getop in *; now rewrite E|apply fext_refl]. Qed.
Lemma fsext_end_driver how s : fsext s (end_driver how s).
Proof. unfold end_driver.
  eapply fsext_trans; [apply (fsext_fold (fun s (p : Z * nat) => updop (snd p) drop_reply s)); intros; apply fsext_updop; intros; apply fext_drop_reply|].
  eapply fsext_trans; [apply (fsext_fold (fun s (p : Z * nat) => updop (snd p) close_chan s)); intros; apply fsext_updop; intros; apply fext_close_chan|].
  eapply fsext_trans; [apply (fsext_fold (fun s o => updop o (fun c => close_chan (drop_reply c)) s)); intros; apply fsext_updop; intros;
                      eapply fext_trans; [apply fext_drop_reply|apply fext_close_chan]|].
  apply fsext_same_ops. reflexivity. Qed.
Lemma fsext_set s x y : fsext s x -> ops y = ops x -> fsext s y.
Proof. intros H E. eapply fsext_trans; [exact H|now apply fsext_same_ops]. Qed.
Lemma fsext_updop' s x o f : fsext s x -> (forall c, getop x o = Some c -> fext c (f c)) -> fsext s (updop o f x).
Proof. intros H Hf. eapply fsext_trans; [exact H|now apply fsext_updop]. Qed.
Lemma fsext_drop_entry' s x m k f : fsext s x -> (forall c, fext c (f c)) -> fsext s (drop_entry m k f x).
Proof. intros H Hf. eapply fsext_trans; [exact H|now apply fsext_drop_entry]. Qed.
Lemma fsext_app s l : ops l = ops s -> forall x, fsext s (l <| ops ::= fun q => q ++ [x] |>).
Proof. intros E x o c H. exists c. split; [|apply fext_refl]. unfold getop in *. cbn [ops set]. rewrite E.
  rewrite nth_error_app1; [assumption|]. apply nth_error_Some. congruence. Qed.

Ltac fside :=
  intros; first [ apply fext_drop_reply | apply fext_close_chan | apply fext_fill | (now apply fext_same)
                | (eapply fext_trans; [apply fext_drop_reply|apply fext_close_chan]) ].
Ltac fstrip :=
  lazymatch goal with
  | |- fsext ?s ?s => apply fsext_refl
  | |- fsext ?s (set ops _ _) => fail
  | |- fsext ?s (set _ _ ?x) => apply (fsext_set s x); [|reflexivity]
  | |- fsext ?s (updop ?o ?f ?x) => apply (fsext_updop' s x); [|try solve [fside]]
  | |- fsext ?s (drop_entry ?m ?k ?f ?x) => apply (fsext_drop_entry' s x); [|try solve [fside]]
  | |- fsext ?s (end_driver ?h ?x) => apply (fsext_trans s x); [|apply fsext_end_driver]
  end.

(* the op at index o of a state whose ops are those of s *)
Lemma same_op (s x : st) o c c0 : ops x = ops s -> getop s o = Some c -> getop x o = Some c0 -> c0 = c.
Proof. intros E H1 H2. unfold getop in *. rewrite E in H2. congruence. Qed.

Theorem step_fsext s e : fsext s (step s e).
Proof.
  destruct e as [k tmo| | | |how|r|o|o|o|dt|o|o|k tmo|o]; unfold step.
  - (* Start *) destruct (next_msgid (last s) (inuse s)); try apply fsext_refl.
    destruct (is_running s).
    + match goal with |- fsext ?s0 (set opq _ ?x) => apply (fsext_set s0 x); [|reflexivity] end.
      match goal with |- fsext ?s0 (set ops _ ?l) => apply (fsext_app s0 l); reflexivity end.
    + match goal with |- fsext ?s0 (set inuse _ ?x) => apply (fsext_set s0 x); [|reflexivity] end.
      match goal with |- fsext ?s0 (set ops _ ?l) => apply (fsext_app s0 l); reflexivity end.
  - (* DrvOp *) destruct (is_running s); cbn [negb]; [|apply fsext_refl].
    destruct (opq s) as [|o q]; [apply fsext_refl|]. destruct (getop s o) as [c|] eqn:Ec; [|repeat fstrip].
    destruct (o_kind c); repeat match goal with |- context [if ?b then _ else _] => destruct b end; repeat fstrip.
  - (* DrvScrub *) destruct (is_running s); cbn [negb]; [|apply fsext_refl].
    destruct (scrubq s) as [|id q]; [apply fsext_refl|]. repeat fstrip.
  - (* DrvResp *) destruct (is_running s); cbn [negb]; [|apply fsext_refl].
    destruct (win s) as [|r w]; [apply fsext_refl|].
    destruct (alookup (r_mid r) (smap s)) as [o|].
    + destruct (getop s o) as [c|]; [destruct (r_kind r); destruct (o_rx c)|destruct (r_kind r)]; cbn [negb];
        repeat match goal with |- context [if ?b then _ else _] => destruct b end; repeat fstrip.
    + destruct (alookup (r_mid r) (rmap s)) as [o|]; repeat match goal with |- context [if ?b then _ else _] => destruct b end; repeat fstrip.
  - (* DrvEnd *) destruct (is_running s); [apply fsext_end_driver|apply fsext_refl].
  - (* ServerSend *) repeat fstrip.
  - (* CliPoll: only a waiting operation changes status *)
    destruct (getop s o) as [c|] eqn:Ec; [|apply fsext_refl].
    destruct (waiting c) eqn:Ew; cbn [negb]; [|apply fsext_refl].
    assert (Hl : forall c0 : cop, c0 = c -> forall c', o_got c' = o_got c0 -> fext c0 c').
    { intros c0 -> c' Hg. unfold waiting in Ew. apply fext_live; [intros p E; rewrite E in Ew; discriminate|intros e E; rewrite E in Ew; discriminate|exists []; now rewrite app_nil_r]. }
    destruct (o_reply c); [destruct (o_deadline c) as [d|]; [destruct (d <=? now s); [destruct (is_running s)|]|]| |].
    all: repeat fstrip.
    all: intros c0 H0; apply Hl; [refine (same_op s _ o c c0 _ Ec H0); reflexivity|reflexivity].
  - (* StreamNext: only an Active stream changes, and it only appends to what it has handed over *)
    destruct (getop s o) as [c|] eqn:Ec; [|apply fsext_refl].
    destruct (o_status c) eqn:Es; try apply fsext_refl.
    assert (Hl : forall c0 : cop, c0 = c -> forall c', (exists extra, o_got c' = o_got c0 ++ extra) -> fext c0 c').
    { intros c0 -> c' Hg. apply fext_live; [intros p E; congruence|intros e E; congruence|exact Hg]. }
    assert (Hs : forall x c0, ops x = ops s -> getop x o = Some c0 -> c0 = c) by (intros x c0 E H0; eapply same_op; [exact E|exact Ec|exact H0]).
    destruct (o_rx c); cbn [negb].
    2: { repeat fstrip; try (intros c0 H0; apply Hl; [refine (Hs _ c0 _ H0); reflexivity|exists []; now rewrite app_nil_r]). }
    destruct (nth_error (o_items c) (o_taken c)) as [r|].
    + destruct (r_kind r); try destruct (o_kind c) as [|[|]| |]; repeat fstrip.
      all: intros c0 H0; apply Hl; [refine (Hs _ c0 _ H0); reflexivity|].
      all: first [exists []; now rewrite app_nil_r | eexists; reflexivity].
    + destruct (o_chan c); cbn [negb].
      2: { repeat fstrip; try (intros c0 H0; apply Hl; [refine (Hs _ c0 _ H0); reflexivity|exists []; now rewrite app_nil_r]). }
      destruct (o_tmo c) as [d|].
      2: { repeat fstrip; try (intros c0 H0; apply Hl; [refine (Hs _ c0 _ H0); reflexivity|exists []; now rewrite app_nil_r]). }
      match goal with |- context [if ?b then _ else _] => destruct b end; [destruct (is_running s)|]; repeat fstrip.
      all: try (intros c0 H0; apply Hl; [refine (Hs _ c0 _ H0); reflexivity|exists []; now rewrite app_nil_r]).
  - (* StreamFinish *)
    destruct (getop s o) as [c|] eqn:Ec; [|apply fsext_refl].
    assert (Hs : forall x c0, ops x = ops s -> getop x o = Some c0 -> c0 = c) by (intros x c0 E H0; eapply same_op; [exact E|exact Ec|exact H0]).
    destruct (o_status c) eqn:Es; try apply fsext_refl; try destruct (fix20 (fx s)); destruct (is_running s); repeat fstrip.
    all: intros c0 H0; rewrite (Hs _ c0 eq_refl H0); apply fext_live; [intros p E; congruence|intros e E; congruence|exists []; now rewrite app_nil_r].
  - (* Advance *) repeat fstrip.
  - (* ViaHandle *) repeat fstrip.
  - (* DropCall *) destruct (getop s o) as [c|] eqn:Ec; [destruct (o_status c) eqn:Est|]; repeat fstrip.
  - (* Alloc *) unfold alloc. destruct (next_msgid (last s) (inuse s)); try apply fsext_refl.
    match goal with |- fsext ?s0 (set ops _ ?l) => apply (fsext_app s0 l); reflexivity end.
  - (* Enqueue: only an allocated, not yet queued operation changes *)
    unfold enqueue. destruct (getop s o) as [c|] eqn:Ec; [|apply fsext_refl].
    assert (Hs : forall x c0, ops x = ops s -> getop x o = Some c0 -> c0 = c) by (intros x c0 E H0; eapply same_op; [exact E|exact Ec|exact H0]).
    destruct (o_status c) eqn:Es; try apply fsext_refl. destruct (is_running s); repeat fstrip.
    all: intros c0 H0; rewrite (Hs _ c0 eq_refl H0); apply fext_live; [intros p E; congruence|intros e E; congruence|exists []; rewrite app_nil_r].
    all: unfold drop_reply; cbn; try destruct (o_reply c); reflexivity.
Qed.

(* C04: whatever happens next - including the loss of the connection - an operation that has returned keeps its outcome, and a stream
   keeps what it has handed over, in order *)
Theorem c04_delivered_survives f evs more o c : getop (run f evs) o = Some c ->
  exists c', getop (run f (evs ++ more)) o = Some c' /\
    (forall p, o_status c = COk p -> o_status c' = COk p) /\ (forall e, o_status c = CErr e -> o_status c' = CErr e) /\
    (exists extra, o_got c' = o_got c ++ extra).
Proof.
  assert (H : forall more s, fsext s (fold_left step more s)).
  { induction more0 as [|e m IH]; intros s; cbn [fold_left]; [apply fsext_refl|]. eapply fsext_trans; [apply step_fsext|apply IH]. }
  intros Hc. unfold run in *. rewrite fold_left_app. destruct (H more _ o c Hc) as (c' & Hc' & F). exists c'. split; [exact Hc'|exact F].
Qed.
Print Assumptions c04_delivered_survives.
