(* Calibration sketch (round 0): C04's unbind clause on the Conn model — F15 refuted as the code is, the repaired statement proved. *)
From RecordUpdate Require Import RecordUpdate.
From Coq Require Import List ZArith Lia Bool Arith.
From L3 Require Import Msgid Conn ConnProofs ConnAccount ConnLin2.
Import ListNotations.
Open Scope Z_scope.

(* F15: a bind (or any single-result operation) is on the wire, the caller unbinds, the server stays silent and keeps the socket open.
   The driver has processed both requests and is still running; the first operation is still waiting; and nothing the client side or
   the driver can do changes that: every event that does not come from the server or the clock leaves the state as it is. *)
Definition f15_state := run as_is [Start KSingle None; Start KUnbind None; DrvOp; DrvOp; CliPoll 1].
Lemma c04_refuted_F15 :
  is_running f15_state = true /\
  option_map o_status (getop f15_state 0%nat) = Some CWait /\ option_map o_reply (getop f15_state 0%nat) = Some OsEmpty /\
  option_map o_status (getop f15_state 1%nat) = Some (COk None) /\
  Forall (fun e => step f15_state e = f15_state) [DrvOp; DrvScrub; DrvResp; CliPoll 0; CliPoll 1].
Proof. vm_compute. repeat split; repeat constructor. Qed.

(* with the repair the driver leaves its loop after acknowledging the Unbind ... *)
Theorem c04_unbind_ends_driver s o q c : fix15 (fx s) = true -> is_running s = true -> opq s = o :: q -> getop s o = Some c ->
  o_kind c = KUnbind -> (fix16 (fx s) && negb (waiting c) = false) -> is_running (step s DrvOp) = false.
Proof.
  intros F15 Hr Eq Hc Hk _. unfold step. rewrite Hr, Eq, Hc, Hk, F15. cbn [negb]. reflexivity.
Qed.
(* ... hence (c04_no_pending_after_end) every operation still waiting completes with an error at its next poll. On the same history: *)
Lemma c04_F15_repaired :
  let s := run repaired [Start KSingle None; Start KUnbind None; DrvOp; DrvOp; CliPoll 1; CliPoll 0] in
  is_running s = false /\ option_map o_status (getop s 0%nat) = Some (CErr EResultRecv) /\ option_map o_status (getop s 1%nat) = Some (COk None).
Proof. vm_compute. repeat split. Qed.
Print Assumptions c04_unbind_ends_driver.

(* each listed cause (EOF, I/O error, undecodable frame, write error, last handle dropped: the event [DrvEnd how]) ends the driver,
   whatever the state *)
Theorem c04_end_causes s how : how <> Running -> is_running s = true -> is_running (step s (DrvEnd how)) = false.
Proof. intros Hh Hr. unfold step. rewrite Hr. unfold end_driver, is_running. cbn [drv set]. destruct how; [congruence|reflexivity..]. Qed.
(* ... and once ended it stays ended: no event restarts it *)
Theorem c04_ended_stays_ended s e : is_running s = false -> is_running (step s e) = false.
Proof. intros H. unfold is_running. rewrite (ConnLin2.drv_step_ended s e H). exact H. Qed.
