(* C05 past the wrap-around point: invariants of the allocator's bookkeeping that hold for EVERY history, with no bound on its length and
   whatever set of repairs is switched on - the reserved set never holds an id twice, never leaves 1 .. 2^31-1, the counter stays in
   0 .. 2^31-1, and an allocation never hands out an id that is reserved at that moment.  (What does NOT hold past the wrap-around point
   is recorded as known finding F22: a stale scrub can release an id that has been re-issued - Conn.c12_refuted_F22.) *)
From RecordUpdate Require Import RecordUpdate.
From Coq Require Import List ZArith Lia Bool Arith.
From L3 Require Import Msgid Conn ConnProofs ConnLin2 ConnNoWrap.
Import ListNotations.
Open Scope Z_scope.

Lemma succ_range x : 0 <= x <= MAX -> 1 <= succ_id x <= MAX.
Proof. intros H. unfold succ_id. destruct (Z.eqb_spec x MAX); unfold MAX in *; lia. Qed.

Lemma loop_found fuel last s : forall cur m, 0 <= cur <= MAX -> loop fuel last cur s = Found m -> ~ In m s /\ 1 <= m <= MAX.
Proof.
  induction fuel as [|fuel IH]; intros cur m Hc H; cbn [loop] in H; [discriminate|].
  pose proof (succ_range cur Hc) as Hr.
  destruct (mem (succ_id cur) s) eqn:E; cbn [negb] in H.
  - destruct (succ_id cur =? last); [discriminate|]. apply (IH (succ_id cur) m); [lia|exact H].
  - injection H as <-. split; [|exact Hr]. intros Hin. apply mem_In in Hin. congruence.
Qed.
Lemma next_found last s m : 0 <= last <= MAX -> next_msgid last s = Found m -> ~ In m s /\ 1 <= m <= MAX.
Proof. intros Hl H. exact (loop_found _ last s last m Hl H). Qed.

(* [sub l' l]: l' is l with some ids released *)
Definition sub (l' l : list Z) : Prop := (NoDup l -> NoDup l') /\ (forall i, In i l' -> In i l).
Lemma sub_refl l : sub l l. Proof. split; auto. Qed.
Lemma sub_nil l : sub [] l. Proof. split; [intros _; constructor|intros i []]. Qed.
Lemma NoDup_rem x l : NoDup l -> NoDup (rem x l). Proof. apply NoDup_filter. Qed.
Lemma sub_rem x l' l : sub l' l -> sub (rem x l') l.
Proof. intros [Hn Hi]. split; [intros H; apply NoDup_rem; auto|intros i H; apply In_rem_sub in H; auto]. Qed.

Lemma inuse_step_sub s e : is_start e = false -> sub (inuse (step s e)) (inuse s).
Proof.
  intros He. destruct e; try discriminate; unfold step, enqueue;
  repeat first [ apply sub_refl | apply sub_nil | rewrite inuse_end_driver | rewrite inuse_drop_entry | progress cbn [inuse set updop] | progress cbv zeta
               | apply sub_rem
               | match goal with |- context [match ?x with _ => _ end] => destruct x end ].
Qed.

Record W (s : st) : Prop := {
  w_last : 0 <= last s <= MAX;
  w_nodup : NoDup (inuse s);
  w_range : forall i, In i (inuse s) -> 1 <= i <= MAX }.

Lemma W_init f : W (init f).
Proof. constructor; cbn; [unfold MAX; lia|constructor|intros i []]. Qed.

Lemma W_step s e : W s -> W (step s e).
Proof.
  intros Hw. destruct (is_start e) eqn:He.
  - assert (Hcons : forall mid, next_msgid (last s) (inuse s) = Found mid -> NoDup (mid :: inuse s) /\ (forall i, In i (mid :: inuse s) -> 1 <= i <= MAX) /\ 1 <= mid <= MAX).
    { intros mid E. destruct (next_found _ _ _ (w_last s Hw) E) as [Hn Hr]. split; [constructor; [exact Hn|exact (w_nodup s Hw)]|].
      split; [|exact Hr]. intros i [<-|Hi]; [exact Hr|exact (w_range s Hw i Hi)]. }
    destruct e as [k tmo| | | | | | | | | | | |k tmo| ]; try discriminate; unfold step, alloc;
    (destruct (next_msgid (last s) (inuse s)) as [mid| |] eqn:E; [|exact Hw|exact Hw]); destruct (Hcons mid eq_refl) as (Hnd & Hrg & Hm).
    + destruct (is_running s); constructor; cbn [last inuse set]; try lia; try assumption.
      * destruct (fix31 (fx s)); [apply NoDup_rem|]; assumption.
      * intros i Hi. apply Hrg. destruct (fix31 (fx s)); [apply In_rem_sub in Hi|]; exact Hi.
    + constructor; cbn [last inuse set]; try lia; assumption.
  - destruct (inuse_step_sub s e He) as [Hn Hi]. constructor.
    + rewrite last_step by assumption. exact (w_last s Hw).
    + apply Hn. exact (w_nodup s Hw).
    + intros i H. apply (w_range s Hw). now apply Hi.
Qed.

Lemma W_steps evs : forall s, W s -> W (fold_left step evs s).
Proof. induction evs as [|e evs IH]; intros s Hw; cbn [fold_left]; [exact Hw|]. apply IH. now apply W_step. Qed.

(* every reachable state, any history length, any repair set *)
Theorem c05_wrap_bookkeeping f evs :
  let s := run f evs in NoDup (inuse s) /\ (forall i, In i (inuse s) -> 1 <= i <= MAX) /\ 0 <= last s <= MAX.
Proof. cbv zeta. destruct (W_steps evs (init f) (W_init f)) as [a b c]. fold (run f evs) in *. auto. Qed.

(* ... and from ANY state whose bookkeeping is well-formed - in particular one whose counter stands just below 2^31-1 - so the statement covers
   the histories that wrap, which no enumeration of events from the initial state can reach *)
Theorem c05_wrap_from_any_state s evs :
  0 <= last s <= MAX -> NoDup (inuse s) -> (forall i, In i (inuse s) -> 1 <= i <= MAX) ->
  let s' := fold_left step evs s in NoDup (inuse s') /\ (forall i, In i (inuse s') -> 1 <= i <= MAX) /\ 0 <= last s' <= MAX.
Proof. intros a b c. cbv zeta. destruct (W_steps evs s (Build_W s a b c)) as [a' b' c']. auto. Qed.

(* an allocation - in any such state - hands out an id in range that is not reserved at that moment, records it as reserved and as the counter *)
Theorem c05_wrap_alloc_fresh s k tmo c :
  0 <= last s <= MAX -> getop (step s (Alloc k tmo)) (length (ops s)) = Some c ->
  ~ In (o_mid c) (inuse s) /\ 1 <= o_mid c <= MAX /\ inuse (step s (Alloc k tmo)) = o_mid c :: inuse s /\ last (step s (Alloc k tmo)) = o_mid c.
Proof.
  intros Hl. cbn [step]. unfold alloc. destruct (next_msgid (last s) (inuse s)) as [mid| |] eqn:E.
  - unfold getop. cbn [ops set]. rewrite nth_error_last. intros [= <-]. cbn [o_mid inuse last set].
    destruct (next_found _ _ _ Hl E). auto.
  - unfold getop. rewrite (proj2 (nth_error_None (ops s) (length (ops s))) (le_n _)). discriminate.
  - unfold getop. rewrite (proj2 (nth_error_None (ops s) (length (ops s))) (le_n _)). discriminate.
Qed.

(* non-vacuity: a state at the wrap-around point (counter 2^31-2; 2^31-1, 1 and 2 still reserved by long-lived operations) meets the
   hypotheses, and the next two allocations take 3 and 4 *)
Definition s_wrap : st := init repaired <| last := MAX - 1 |> <| inuse := [MAX; 1; 2] |>.
Example c05_wrap_witness :
  (0 <= last s_wrap <= MAX) /\ NoDup (inuse s_wrap) /\ (forall i, In i (inuse s_wrap) -> 1 <= i <= MAX) /\
  map o_mid (ops (fold_left step [Alloc KSingle None; Start KSingle None] s_wrap)) = [3; 4] /\
  inuse (fold_left step [Alloc KSingle None; Start KSingle None] s_wrap) = [4; 3; MAX; 1; 2].
Proof.
  split; [cbn; unfold MAX; lia|]. split; [repeat constructor; cbn; unfold MAX; intuition lia|].
  split; [cbn; unfold MAX; intros i H; intuition lia|]. vm_compute. split; reflexivity.
Qed.
Print Assumptions c05_wrap_bookkeeping.
Print Assumptions c05_wrap_from_any_state.
Print Assumptions c05_wrap_alloc_fresh.
