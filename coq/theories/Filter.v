(* Calibration sketch (round 0): model of src/filter.rs (nom PEG over bytes), output = the tag tree the code builds. *)
From Coq Require Import List NArith Lia Bool Arith.
From Coq.Strings Require Import Byte.
From L3 Require Import Ber.
Import ListNotations.
Open Scope N_scope.

Definition beq := Byte.eqb.
Definition in_range (lo hi : N) (c : byte) : bool := (lo <=? bN c) && (bN c <=? hi).
Definition is_digit c := in_range 48 57 c.
Definition is_alpha c := in_range 65 90 c || in_range 97 122 c.
Definition is_alnum_hyphen c := is_alpha c || is_digit c || beq c "-"%byte.
Definition is_hex c := is_digit c || in_range 65 70 c || in_range 97 102 c.
Definition hexval (c : byte) : N := let n := bN c in if n <=? 57 then n - 48 else n - ((N.land n 32) + 65 - 10).
Definition is_value_char (c : byte) : bool :=
  negb (beq c x00) && negb (beq c "("%byte) && negb (beq c ")"%byte) && negb (beq c "*"%byte).

Definition res (A : Type) := option (A * list byte).

Fixpoint tag (t i : list byte) : option (list byte) :=
  match t, i with
  | [], _ => Some i
  | a :: t', b :: i' => if beq a b then tag t' i' else None
  | _ :: _, [] => None end.

Fixpoint span (p : byte -> bool) (i : list byte) : list byte * list byte :=
  match i with c :: r => if p c then let (w, r') := span p r in (c :: w, r') else ([], i) | [] => ([], []) end.

(* ---- Unescaper + unescaped (fold_many0 over value chars, then map_res) ---- *)
Inductive ust := WantFirst | WantSecond (p : N) | Value | UError.
Fixpoint unesc_loop (st : ust) (acc : list byte) (i : list byte) : ust * list byte * list byte :=
  match i with
  | [] => (st, acc, [])
  | c :: r =>
    if is_value_char c then
      match st with
      | UError => unesc_loop UError acc r
      | WantFirst => if is_hex c then unesc_loop (WantSecond (hexval c)) acc r else unesc_loop UError acc r
      | WantSecond p => if is_hex c then unesc_loop Value (acc ++ [byte_of_N (p * 16 + hexval c)]) r else unesc_loop UError acc r
      | Value => if beq c "\"%byte then unesc_loop WantFirst acc r else unesc_loop Value (acc ++ [c]) r
      end
    else (st, acc, i)
  end.
Definition unescaped (i : list byte) : res (list byte) :=
  match unesc_loop Value [] i with (Value, v, r) => Some (v, r) | _ => None end.

(* ---- attribute descriptions ---- *)
Definition number (i : list byte) : res (list byte) :=
  let (d, r) := span is_digit i in
  match d with [] => None | [_] => Some (d, r) | x :: _ => if beq x "0"%byte then None else Some (d, r) end.
Fixpoint dotnums (fuel : nat) (i : list byte) : list byte * list byte :=
  match fuel with O => ([], i) | S f =>
  match i with
  | b :: r => if beq b "."%byte then
                match number r with Some (d, r') => let (ds, r'') := dotnums f r' in (b :: d ++ ds, r'') | None => ([], i) end
              else ([], i)
  | [] => ([], i) end end.
Definition numericoid (i : list byte) : res (list byte) :=
  match number i with Some (d, r) => let (ds, r') := dotnums (length r) r in Some (d ++ ds, r') | None => None end.
Definition descr (i : list byte) : res (list byte) :=
  match i with c :: r => if is_alpha c then let (w, r') := span is_alnum_hyphen r in Some (c :: w, r') else None | [] => None end.
Definition attributetype (i : list byte) : res (list byte) :=
  match numericoid i with Some x => Some x | None => descr i end.
Fixpoint opts (fuel : nat) (i : list byte) : list byte * list byte :=
  match fuel with O => ([], i) | S f =>
  match i with
  | b :: r => if beq b ";"%byte then
                let (w, r') := span is_alnum_hyphen r in
                match w with [] => ([], i) | _ => let (ws, r'') := opts f r' in (b :: w ++ ws, r'') end
              else ([], i)
  | [] => ([], i) end end.
Definition attributedescription (i : list byte) : res (list byte) :=
  match attributetype i with Some (a, r) => let (o, r') := opts (length r) r in Some (a ++ o, r') | None => None end.

(* ---- tag trees built by the code ---- *)
Definition octs (v : list byte) := P Universal 4 v.
Definition ctx_p (id : N) (v : list byte) := P Context id v.
Definition seq_u (ts : list tree) := C Universal 16 ts.

(* ---- eq: equality / presence / substring ---- *)
Fixpoint stars (fuel : nat) (i : list byte) : list (list byte) * list byte :=
  match fuel with O => ([], i) | S f =>
  match i with
  | b :: r => if beq b "*"%byte then
                match unescaped r with Some (v, r') => let (vs, r'') := stars f r' in (v :: vs, r'') | None => ([], i) end
              else ([], i)
  | [] => ([], i) end end.
Definition is_nil {A} (l : list A) : bool := match l with [] => true | _ => false end.
Fixpoint bad_stars (v : list (list byte)) : bool :=
  match v with [] => false | [_] => false | x :: tl => is_nil x || bad_stars tl end.
Fixpoint sub_elems (v : list (list byte)) : list tree :=   (* for (i, e) in mid_final: break on empty; ANY unless last *)
  match v with
  | [] => []
  | [x] => if is_nil x then [] else [ctx_p 2 x]
  | x :: tl => if is_nil x then [] else ctx_p 1 x :: sub_elems tl end.
Definition build_eq (attr initial : list byte) (mf : list (list byte)) : tree :=
  match mf with
  | [] => C Context 3 [octs attr; octs initial]
  | _ => if is_nil initial && (match mf with [x] => is_nil x | _ => false end) then ctx_p 7 attr
         else C Context 4 [octs attr; seq_u ((if is_nil initial then [] else [ctx_p 0 initial]) ++ sub_elems mf)]
  end.
Definition eq_item (i : list byte) : res tree :=
  match attributedescription i with None => None | Some (attr, r0) =>
  match tag ["="%byte] r0 with None => None | Some r1 =>
  match unescaped r1 with None => None | Some (initial, r2) =>
  let (mf, r3) := stars (length r2) r2 in
  if bad_stars mf then None else Some (build_eq attr initial mf, r3) end end end.

Definition non_eq (i : list byte) : res tree :=
  match attributedescription i with None => None | Some (attr, r0) =>
  let op := match tag [">"; "="]%byte r0 with Some r => Some (5, r) | None =>
            match tag ["<"; "="]%byte r0 with Some r => Some (6, r) | None =>
            match tag ["~"; "="]%byte r0 with Some r => Some (8, r) | None => None end end end in
  match op with None => None | Some (id, r1) =>
  match unescaped r1 with None => None | Some (v, r2) => Some (C Context id [octs attr; octs v], r2) end end end.

Definition opt_tag (t i : list byte) : bool * list byte := match tag t i with Some r => (true, r) | None => (false, i) end.
(* opt(terminated(tag_no_case(":dn"), peek(tag(":")))): the dn flag is taken only when a colon follows it (repair of F14); the keyword is
   an ABNF literal of RFC 4515, hence matched without regard to case (repair of F37) *)
Definition is_dn (c1 c2 : byte) : bool := (beq c1 "d"%byte || beq c1 "D"%byte) && (beq c2 "n"%byte || beq c2 "N"%byte).
Definition opt_dn (i : list byte) : bool * list byte :=
  match i with
  | c0 :: c1 :: c2 :: ((c :: _) as r) => if beq c0 ":"%byte && is_dn c1 c2 && beq c ":"%byte then (true, r) else (false, i)
  | _ => (false, i) end.
(* the same in the form without an attribute description (dn_mrule), where a matching rule must follow the flag: ":dn:=" can only be the
   rule named dn, so the flag is not taken when "=" follows the colon (repair F52) *)
Definition opt_dn_m (i : list byte) : bool * list byte :=
  match i with
  | c0 :: c1 :: c2 :: ((c :: r') as r) =>
      if beq c0 ":"%byte && is_dn c1 c2 && beq c ":"%byte && negb (match r' with e :: _ => beq e "="%byte | [] => false end) then (true, r) else (false, i)
  | _ => (false, i) end.
Definition opt_mrule (i : list byte) : option (list byte) * list byte :=   (* opt(preceded(tag(":"), attributetype)) *)
  match tag [":"%byte] i with
  | Some r => match attributetype r with Some (m, r') => (Some m, r') | None => (None, i) end
  | None => (None, i) end.
Definition ext_tag_of (mrule attr : option (list byte)) (v : list byte) (dn : bool) : tree :=
  C Context 9 ((match mrule with Some m => [ctx_p 1 m] | None => [] end) ++
               (match attr with Some a => [ctx_p 2 a] | None => [] end) ++
               [ctx_p 3 v] ++ (if dn then [ctx_p 4 [xff]] else [])).
Definition attr_dn_mrule (i : list byte) : res tree :=
  match attributedescription i with None => None | Some (attr, r0) =>
  let (dn, r1) := opt_dn r0 in
  let (mr, r2) := opt_mrule r1 in
  match tag [":"; "="]%byte r2 with None => None | Some r3 =>
  match unescaped r3 with None => None | Some (v, r4) => Some (ext_tag_of mr (Some attr) v dn, r4) end end end.
Definition dn_mrule (i : list byte) : res tree :=
  let (dn, r1) := opt_dn_m i in
  match tag [":"%byte] r1 with None => None | Some r1' =>
  match attributetype r1' with None => None | Some (m, r2) =>
  match tag [":"; "="]%byte r2 with None => None | Some r3 =>
  match unescaped r3 with None => None | Some (v, r4) => Some (ext_tag_of (Some m) None v dn, r4) end end end end.
Definition item (i : list byte) : res tree :=
  match eq_item i with Some x => Some x | None =>
  match non_eq i with Some x => Some x | None =>
  match attr_dn_mrule i with Some x => Some x | None => dn_mrule i end end end.

(* ---- filter / filtercomp ---- *)
Fixpoint filterlist (flt : list byte -> res tree) (g : nat) (i : list byte) : list tree * list byte :=
  match g with O => ([], i) | S g' =>
    match flt i with Some (t, r) => let (ts, r') := filterlist flt g' r in (t :: ts, r') | None => ([], i) end end.
Fixpoint filter (fuel : nat) (i : list byte) : res tree :=
  match fuel with O => None | S f =>
  match i with
  | b :: r =>
    if beq b "("%byte then
      let comp : res tree :=
        match r with
        | c :: r1 =>
          if beq c "&"%byte then let (ts, r2) := filterlist (filter f) f r1 in Some (C Context 0 ts, r2)
          else if beq c "|"%byte then let (ts, r2) := filterlist (filter f) f r1 in Some (C Context 1 ts, r2)
          else if beq c "!"%byte then
            match filter f r1 with Some (t, r2) => Some (C Context 2 [t], r2) | None => item r end
          else item r
        | [] => item r end in
      match comp with
      | Some (t, c :: r') => if beq c ")"%byte then Some (t, r') else None
      | _ => None end
    else None
  | [] => None end end.
Definition filtexpr (i : list byte) : res tree :=
  match filter (S (length i)) i with Some x => Some x | None => item i end.
Definition parse (i : list byte) : option tree :=
  match filtexpr i with Some (t, []) => Some t | _ => None end.

(* ---- the 21 unit tests of filter.rs, replayed on the model ---- *)
Require Import Coq.Strings.String.
Definition s2b (s : string) : list byte := list_byte_of_string s.
Definition enc (s : string) : option (list N) := option_map (fun t => map bN (encode t)) (parse (s2b s)).
Definition bytesN (s : string) : list N := map bN (s2b s).
Local Open Scope string_scope.
Example t_bare : enc "a=v" = Some [163; 6; 4; 1; 97; 4; 1; 118]. Proof. vm_compute. reflexivity. Qed.
Example t_eq : enc "(a=v)" = Some [163; 6; 4; 1; 97; 4; 1; 118]. Proof. vm_compute. reflexivity. Qed.
Example t_garbage : enc "(a=v)garbage" = None. Proof. vm_compute. reflexivity. Qed.
Example t_le : enc "(a<=2)" = Some [166; 6; 4; 1; 97; 4; 1; 50]. Proof. vm_compute. reflexivity. Qed.
Example t_pres : enc "(a=*)" = Some [135; 1; 97]. Proof. vm_compute. reflexivity. Qed.
Example t_ast_ini : enc "(a=*v)" = Some [164; 8; 4; 1; 97; 48; 3; 130; 1; 118]. Proof. vm_compute. reflexivity. Qed.
Example t_ast_fin : enc "(a=v*)" = Some [164; 8; 4; 1; 97; 48; 3; 128; 1; 118]. Proof. vm_compute. reflexivity. Qed.
Example t_ast_multi : enc "(a=v*x*y)" = Some [164; 14; 4; 1; 97; 48; 9; 128; 1; 118; 129; 1; 120; 130; 1; 121]. Proof. vm_compute. reflexivity. Qed.
Example t_ast_double : enc "(a=f**)" = None. Proof. vm_compute. reflexivity. Qed.
Example t_esc_ok : enc "(a=v\2ax)" = Some [163; 8; 4; 1; 97; 4; 3; 118; 42; 120]. Proof. vm_compute. reflexivity. Qed.
Example t_esc_runt : enc "(a=v\2)" = None. Proof. vm_compute. reflexivity. Qed.
Example t_esc_invalid : enc "(a=v\0x)" = None. Proof. vm_compute. reflexivity. Qed.
Example t_oid : enc "(2.5.4.3=v)" = Some ([163; 12; 4; 7] ++ bytesN "2.5.4.3" ++ [4; 1; 118])%list. Proof. vm_compute. reflexivity. Qed.
Example t_oidl0 : enc "(2.5.04.0=top)" = None. Proof. vm_compute. reflexivity. Qed.
Example t_complex : enc "(&(a=v)(b=x)(!(c=y)))" =
  Some [160; 26; 163; 6; 4; 1; 97; 4; 1; 118; 163; 6; 4; 1; 98; 4; 1; 120; 162; 8; 163; 6; 4; 1; 99; 4; 1; 121]. Proof. vm_compute. reflexivity. Qed.
Example t_abs_true : enc "(&)" = Some [160; 0]. Proof. vm_compute. reflexivity. Qed.
Example t_abs_false : enc "(|)" = Some [161; 0]. Proof. vm_compute. reflexivity. Qed.
Example t_ext_dn : enc "(ou:dn:=People)" = Some ([169; 15; 130; 2] ++ bytesN "ou" ++ [131; 6] ++ bytesN "People" ++ [132; 1; 255])%list. Proof. vm_compute. reflexivity. Qed.
Example t_ext_mrule : enc "(cn:2.5.13.5:=J D)" = Some ([169; 19; 129; 8] ++ bytesN "2.5.13.5" ++ [130; 2] ++ bytesN "cn" ++ [131; 3] ++ bytesN "J D")%list. Proof. vm_compute. reflexivity. Qed.
(* F14 (a rule name that merely starts with "dn" used to be rejected), after the repair: *)
Example t_dnmatch_accepted : enc "(cn:dnMatch:=x)" = Some ([169; 16; 129; 7] ++ bytesN "dnMatch" ++ [130; 2] ++ bytesN "cn" ++ [131; 1] ++ bytesN "x")%list. Proof. vm_compute. reflexivity. Qed.
Example t_dn_flag_and_rule : enc "(cn:dn:dnMatch:=x)" = Some ([169; 19; 129; 7] ++ bytesN "dnMatch" ++ [130; 2] ++ bytesN "cn" ++ [131; 1] ++ bytesN "x" ++ [132; 1; 255])%list. Proof. vm_compute. reflexivity. Qed.
(* F37 (the flag was matched in lower case only: "(ou:DN:=People)" went out with matching rule "DN" and no dnAttributes, "(ou:DN:2.5.13.5:=x)" was refused), after the repair: *)
Example t_dn_upper : enc "(ou:DN:=People)" = enc "(ou:dn:=People)" /\ enc "(ou:dN:2.5.13.5:=x)" = enc "(ou:dn:2.5.13.5:=x)" /\ enc "(:Dn:caseIgnoreMatch:=x)" = enc "(:dn:caseIgnoreMatch:=x)" /\ enc "(ou:DN:2.5.13.5:=x)" <> None. Proof. vm_compute. repeat split; discriminate. Qed.
(* F52 (without an attribute description ":dn:=" can only be the matching rule named dn; it was refused), after the repair: *)
Example t_rule_dn_alone : enc "(:dn:=x)" = Some ([169; 7; 129; 2] ++ bytesN "dn" ++ [131; 1] ++ bytesN "x")%list /\ enc "(:DN:=x)" = Some ([169; 7; 129; 2] ++ bytesN "DN" ++ [131; 1] ++ bytesN "x")%list /\
  enc "(:dn:dn:=x)" = Some ([169; 10; 129; 2] ++ bytesN "dn" ++ [131; 1] ++ bytesN "x" ++ [132; 1; 255])%list /\ enc "(:dn:2.5.13.5:=x)" <> None.
Proof. vm_compute. repeat split; discriminate. Qed.
Example t_caseexact_accepted : enc "(cn:caseExactMatch:=x)" <> None. Proof. vm_compute. discriminate. Qed.
