(* C02, sequences: operations issued on one handle, each with the modifiers set just before it (with_controls / with_timeout /
   with_search_options), as the code does after the repairs F10 (op_call discards search options) and F11 (the AddNoValues
   early returns consume the modifiers). What goes on the wire for the k-th operation depends on that operation and its own modifiers only. *)
From Coq Require Import List ZArith NArith Lia Bool Arith.
From Coq.Strings Require Import Byte.
From L3 Require Import Ber BerInt Frame Filter Request.
Import ListNotations.

Inductive opspec :=
| OBind (dn pw : bytes) | OSaslExternal
| OSearch (base : bytes) (scope : Z) (filter : bytes) (attrs : list bytes)
| OAdd (dn : bytes) (attrs : list (bytes * list bytes))
| OCompare (dn attr val : bytes) | ODelete (dn : bytes)
| OModify (dn : bytes) (mods : list (Z * bytes * list bytes))
| OModDn (dn rdn : bytes) (delold : bool) (newsup : option bytes)
| OExtended (name : bytes) (val : option bytes) | OAbandon (id : Z) | OUnbind.

(* the with_* calls made right before an operation: None = that modifier was not called *)
Record mods := { m_ctrls : option (list ctrl); m_timeout : option Z; m_opts : option sopts }.

Definition apply_mods (h : handle) (m : mods) : handle :=
  {| h_ctrls := match m_ctrls m with Some c => Some c | None => h_ctrls h end;
     h_timeout := match m_timeout m with Some t => Some t | None => h_timeout h end;
     h_opts := match m_opts m with Some o => Some o | None => h_opts h end |}.

(* the protocol op a call builds from the handle's state: None = rejected locally (AddNoValues / FilterParsing), no request is sent *)
Definition build_op (h : handle) (o : opspec) : option tree :=
  match o with
  | OBind dn pw => Some (build_simple_bind dn pw)
  | OSaslExternal => Some (build_sasl_bind [x45; x58; x54; x45; x52; x4e; x41; x4c] (Some []))
  | OSearch base scope filt attrs =>
      match Filter.parse filt with
      | Some f => Some (build_search base scope (match h_opts h with Some so => so | None => default_opts end) f attrs)
      | None => None end
  | OAdd dn attrs => build_add dn attrs
  | OCompare dn a v => Some (build_compare dn a v)
  | ODelete dn => Some (build_delete dn)
  | OModify dn ms => build_modify dn ms
  | OModDn dn rdn d ns => Some (build_moddn dn rdn d ns)
  | OExtended n v => Some (build_extended n v)
  | OAbandon id => Some (build_abandon id)
  | OUnbind => Some build_unbind end.

Definition kind_of (h : handle) (o : opspec) : opk :=
  match o with OSearch _ _ _ _ => OpSearch | _ => match build_op h o with Some _ => OpOther | None => OpRejectedLocally end end.

(* one call: new handle state, next message id, and the LDAPMessage put on the wire (if any) *)
Definition call (fix10 fix11 : bool) (st : handle * Z) (mo : mods * opspec) : (handle * Z) * option tree :=
  let '(h0, id) := st in let '(m, o) := mo in
  let h := apply_mods h0 m in
  let '(h', (cs, _, _)) := issue fix10 fix11 h (kind_of h o) in
  match build_op h o with
  | Some op => ((h', id + 1)%Z, Some (envelope_of id op (match o with OSearch _ _ _ _ => h_ctrls h | _ => cs end)))
  | None => ((h', id), None) end.

Fixpoint run_calls (fix10 fix11 : bool) (st : handle * Z) (l : list (mods * opspec)) : list (option tree) :=
  match l with [] => [] | mo :: r => let '(st', out) := call fix10 fix11 st mo in out :: run_calls fix10 fix11 st' r end.

(* what the caller asked for, stated without any handle state: the operation, with exactly the modifiers given with it *)
Definition asked (id : Z) (mo : mods * opspec) : option tree :=
  let '(m, o) := mo in
  option_map (fun op => envelope_of id op (m_ctrls m)) (build_op {| h_ctrls := m_ctrls m; h_timeout := m_timeout m; h_opts := m_opts m |} o).
Fixpoint asked_all (id : Z) (l : list (mods * opspec)) : list (option tree) :=
  match l with [] => [] | mo :: r =>
    match asked id mo with Some t => Some t :: asked_all (id + 1)%Z r | None => None :: asked_all id r end end.

Lemma apply_cleared m : apply_mods cleared m = {| h_ctrls := m_ctrls m; h_timeout := m_timeout m; h_opts := m_opts m |}.
Proof. unfold apply_mods, cleared. cbn. destruct (m_ctrls m), (m_timeout m), (m_opts m); reflexivity. Qed.

Lemma call_cleared id mo : call true true (cleared, id) mo =
  (match asked id mo with Some _ => (cleared, (id + 1)%Z) | None => (cleared, id) end, asked id mo).
Proof.
  destruct mo as [m o]. unfold call, asked. rewrite apply_cleared.
  set (h := {| h_ctrls := m_ctrls m; h_timeout := m_timeout m; h_opts := m_opts m |}).
  unfold kind_of. destruct o; cbn [build_op issue]; try reflexivity.
  - (* search *) destruct (Filter.parse filter); reflexivity.
  - (* add *) destruct (build_add dn attrs); reflexivity.
  - (* modify *) destruct (build_modify dn mods0); reflexivity.
Qed.

(* C02, one-shot modifiers over whole sequences: every request is the one asked for with that call's own modifiers, ids count up *)
Theorem c02_sequence : forall l id, run_calls true true (cleared, id) l = asked_all id l.
Proof.
  induction l as [|mo r IH]; intros id; [reflexivity|].
  cbn [run_calls asked_all]. rewrite call_cleared. destruct (asked id mo); now rewrite IH.
Qed.

(* ---------- clones: a handle cloned while modifiers are pending on it ----------
   Ldap::clone() hands out a handle with NO pending modifiers (src/ldap.rs impl Clone: timeout, controls, search_opts reset), and what
   is pending on the original stays there for the original's next operation. A step is either a call on the base handle, or: set [mb]
   on the base handle (left pending), clone it, set [m] on the clone and invoke the operation on the clone (which is then dropped). *)
Inductive cstep := OnBase (m : mods) (o : opspec) | OnClone (mb m : mods) (o : opspec).
Definition cstep_run (st : handle * Z) (c : cstep) : (handle * Z) * option tree :=
  match c with
  | OnBase m o => call true true st (m, o)
  | OnClone mb m o =>
      let '(h0, id) := st in
      let hb := apply_mods h0 mb in                        (* pending on the base handle *)
      let '((_, id'), out) := call true true (cleared, id) (m, o) in      (* the clone starts with nothing pending; ids are shared *)
      ((hb, id'), out) end.
Fixpoint run_csteps (st : handle * Z) (l : list cstep) : list (option tree) :=
  match l with [] => [] | c :: r => let '(st', out) := cstep_run st c in out :: run_csteps st' r end.
(* what the caller asked for, without any handle: [pend] = the modifiers set on the base handle since its last own operation *)
Definition overlay (p m : mods) : mods :=
  {| m_ctrls := match m_ctrls m with Some c => Some c | None => m_ctrls p end;
     m_timeout := match m_timeout m with Some t => Some t | None => m_timeout p end;
     m_opts := match m_opts m with Some o => Some o | None => m_opts p end |}.
Definition no_mods := {| m_ctrls := None; m_timeout := None; m_opts := None |}.
Fixpoint asked_csteps (pend : mods) (id : Z) (l : list cstep) : list (option tree) :=
  match l with [] => []
  | OnBase m o :: r => match asked id (overlay pend m, o) with Some t => Some t :: asked_csteps no_mods (id + 1)%Z r | None => None :: asked_csteps no_mods id r end
  | OnClone mb m o :: r => match asked id (m, o) with Some t => Some t :: asked_csteps (overlay pend mb) (id + 1)%Z r | None => None :: asked_csteps (overlay pend mb) id r end
  end.
Definition handle_of (p : mods) : handle := {| h_ctrls := m_ctrls p; h_timeout := m_timeout p; h_opts := m_opts p |}.
Lemma apply_handle_of p m : apply_mods (handle_of p) m = handle_of (overlay p m).
Proof. reflexivity. Qed.
Lemma call_handle_of p id m o : call true true (handle_of p, id) (m, o) =
  (match asked id (overlay p m, o) with Some _ => (cleared, (id + 1)%Z) | None => (cleared, id) end, asked id (overlay p m, o)).
Proof.
  rewrite <- (call_cleared id (overlay p m, o)). unfold call. rewrite apply_handle_of, apply_cleared. reflexivity.
Qed.
(* C02 with clones: an operation invoked on a clone carries exactly the modifiers set on the clone - nothing that was pending on the
   handle it was cloned from - and what was pending there reaches exactly the original's next operation *)
Theorem c02_clones : forall l pend id, run_csteps (handle_of pend, id) l = asked_csteps pend id l.
Proof.
  induction l as [|c r IH]; intros pend id; [reflexivity|]. destruct c as [m o|mb m o]; cbn [run_csteps asked_csteps cstep_run].
  - rewrite call_handle_of. destruct (asked id (overlay pend m, o)); change cleared with (handle_of no_mods); now rewrite IH.
  - rewrite call_cleared, apply_handle_of. destruct (asked id (m, o)); now rewrite IH.
Qed.
Print Assumptions c02_clones.

(* the code as it was (F10, F11): search options set before a delete ride on the next search; controls set before a rejected add ride on the next op *)
Definition so1 := {| deref := 3; typesonly := false; timelimit := 0; sizelimit := 7 |}.
Definition none_m := {| m_ctrls := None; m_timeout := None; m_opts := None |}.
Lemma c02_refuted_F10 :
  run_calls false false (cleared, 1%Z) [({| m_ctrls := None; m_timeout := None; m_opts := Some so1 |}, ODelete []); (none_m, OSearch [] 0 [x61; x3d; x62] [])]
  <> asked_all 1%Z [({| m_ctrls := None; m_timeout := None; m_opts := Some so1 |}, ODelete []); (none_m, OSearch [] 0 [x61; x3d; x62] [])].
Proof. vm_compute. discriminate. Qed.
Lemma c02_refuted_F11 :
  let c := {| c_oid := [x31]; c_crit := false; c_val := None |} in
  run_calls false false (cleared, 1%Z) [({| m_ctrls := Some [c]; m_timeout := None; m_opts := None |}, OAdd [] [([x61], [])]); (none_m, ODelete [])]
  <> asked_all 1%Z [({| m_ctrls := Some [c]; m_timeout := None; m_opts := None |}, OAdd [] [([x61], [])]); (none_m, ODelete [])].
Proof. vm_compute. discriminate. Qed.
Print Assumptions c02_sequence.
