(* Calibration sketch (round 0): Ldap::next_msgid (src/ldap.rs:149-170). *)
From Coq Require Import List ZArith Lia Bool Arith.
Import ListNotations.
Open Scope Z_scope.

Definition MAX : Z := 2147483647.
Definition succ_id (x : Z) : Z := if x =? MAX then 1 else x + 1.
Definition mem (x : Z) (l : list Z) : bool := existsb (Z.eqb x) l.
Lemma mem_In x l : mem x l = true <-> In x l.
Proof. unfold mem. rewrite existsb_exists. split.
  - intros (y & Hy & E). apply Z.eqb_eq in E. now subst.
  - intros H. exists x. split; [assumption|apply Z.eqb_refl]. Qed.

Inductive ares := Found (n : Z) | NoFree | OutOfFuel.
Fixpoint loop (fuel : nat) (last cur : Z) (s : list Z) : ares :=
  match fuel with O => OutOfFuel | S f =>
    let n := succ_id cur in
    if negb (mem n s) then Found n
    else if n =? last then NoFree          (* assert_ne! fires *)
    else loop f last n s end.
Definition next_msgid (last : Z) (s : list Z) : ares := loop (S (length s)) last last s.

(* closed form of the i-th candidate after [last] *)
Definition cand (last : Z) (i : Z) : Z := (last + i - 1) mod MAX + 1.

Lemma cand_range last i : 1 <= cand last i <= MAX.
Proof. unfold cand. pose proof (Z.mod_pos_bound (last + i - 1) MAX ltac:(unfold MAX; lia)). lia. Qed.
Lemma cand_0 last : 0 <= last <= MAX -> succ_id last = cand last 1.
Proof. intros H. unfold succ_id, cand. replace (last + 1 - 1) with last by lia.
  destruct (Z.eqb_spec last MAX) as [->|Hne]; [now rewrite Z.mod_same by (unfold MAX; lia)|].
  rewrite Z.mod_small by lia. reflexivity. Qed.
Lemma cand_succ last i : succ_id (cand last i) = cand last (i + 1).
Proof. unfold succ_id, cand. set (a := last + i - 1). replace (last + (i + 1) - 1) with (a + 1) by lia.
  pose proof (Z.mod_pos_bound a MAX ltac:(unfold MAX; lia)) as Hb.
  rewrite <- (Zplus_mod_idemp_l a 1 MAX).
  destruct (Z.eqb_spec (a mod MAX + 1) MAX) as [E|Hne].
  - rewrite E, Z.mod_same by (unfold MAX; lia). reflexivity.
  - rewrite (Z.mod_small (a mod MAX + 1)) by lia. reflexivity. Qed.
Lemma cand_inj last i j : 1 <= i -> i < j -> j - i < MAX -> cand last i <> cand last j.
Proof. unfold cand. intros Hi Hij Hd E.
  assert (E' : (last + i - 1) mod MAX = (last + j - 1) mod MAX) by lia.
  assert (Hdiv : ((last + j - 1) - (last + i - 1)) mod MAX = 0) by (rewrite Zminus_mod, E', Z.sub_diag; reflexivity).
  replace (last + j - 1 - (last + i - 1)) with (j - i) in Hdiv by lia.
  rewrite Z.mod_small in Hdiv by lia. lia. Qed.
Lemma cand_ne_last last i : 0 <= last <= MAX -> 1 <= i < MAX -> cand last i <> last.
Proof. intros Hl Hi E. unfold cand in E. destruct (Z.eq_dec last 0) as [->|Hne].
  - pose proof (Z.mod_pos_bound (0 + i - 1) MAX ltac:(unfold MAX; lia)). lia.
  - assert (E' : (last + i - 1) mod MAX = (last - 1) mod MAX) by (rewrite (Z.mod_small (last - 1)) by lia; lia).
    assert (Hdiv : ((last + i - 1) - (last - 1)) mod MAX = 0) by (rewrite Zminus_mod, E', Z.sub_diag; reflexivity).
    replace (last + i - 1 - (last - 1)) with i in Hdiv by lia. rewrite Z.mod_small in Hdiv by lia. lia. Qed.

(* the loop finds the first candidate that is free, provided one exists before the cycle closes *)
Lemma loop_first_free last s : 0 <= last <= MAX -> forall (d : nat) (k : Z) fuel,
  0 <= k -> (forall i, k < i < k + Z.of_nat (S d) -> mem (cand last i) s = true) ->
  mem (cand last (k + Z.of_nat (S d))) s = false -> k + Z.of_nat (S d) < MAX -> (d < fuel)%nat ->
  loop fuel last (if k =? 0 then last else cand last k) s = Found (cand last (k + Z.of_nat (S d))).
Proof.
  intros Hl. induction d as [|d IH]; intros k fuel Hk Hbusy Hfree Hlt Hf; (destruct fuel as [|fuel]; [lia|]); cbn [loop].
  - assert (En : succ_id (if k =? 0 then last else cand last k) = cand last (k + 1)).
    { destruct (Z.eqb_spec k 0) as [->|]; [now apply cand_0|apply cand_succ]. }
    rewrite En. replace (k + Z.of_nat 1) with (k + 1) in Hfree by lia. now rewrite Hfree.
  - assert (En : succ_id (if k =? 0 then last else cand last k) = cand last (k + 1)).
    { destruct (Z.eqb_spec k 0) as [->|]; [now apply cand_0|apply cand_succ]. }
    rewrite En. rewrite (Hbusy (k + 1)) by lia. cbn [negb].
    destruct (Z.eqb_spec (cand last (k + 1)) last) as [E|_]; [exfalso; apply (cand_ne_last last (k + 1)); [assumption|lia|exact E]|].
    specialize (IH (k + 1) fuel ltac:(lia)).
    destruct (Z.eqb_spec (k + 1) 0); [lia|].
    replace (k + 1 + Z.of_nat (S d)) with (k + Z.of_nat (S (S d))) in IH by lia.
    apply IH; [intros i Hi; apply Hbusy; lia|exact Hfree|lia|lia].
Qed.

(* pigeonhole: among the first |s|+1 candidates one is free *)
Lemma first_free_exists last s : Z.of_nat (length s) < MAX - 1 ->
  exists d : nat, (d <= length s)%nat /\ mem (cand last (Z.of_nat (S d))) s = false /\
                  forall i, 0 < i < Z.of_nat (S d) -> mem (cand last i) s = true.
Proof.
  intros Hs.
  (* search the candidates in order *)
  assert (H : forall n : nat, (n <= S (length s))%nat ->
     (exists d : nat, (d < n)%nat /\ mem (cand last (Z.of_nat (S d))) s = false /\ forall i, 0 < i < Z.of_nat (S d) -> mem (cand last i) s = true)
     \/ (forall i, 0 < i <= Z.of_nat n -> mem (cand last i) s = true)).
  { induction n as [|n IH]; intros Hn; [right; intros i Hi; lia|].
    destruct (IH ltac:(lia)) as [(d & Hd & Hf & Hb)|Hall]; [left; exists d; repeat split; auto; lia|].
    destruct (mem (cand last (Z.of_nat (S n))) s) eqn:E.
    - right. intros i Hi. destruct (Z.eq_dec i (Z.of_nat (S n))) as [->|]; [exact E|apply Hall; lia].
    - left. exists n. repeat split; [lia|exact E|intros i Hi; apply Hall; lia]. }
  destruct (H (S (length s)) (le_n _)) as [(d & Hd & Hf & Hb)|Hall]; [exists d; repeat split; auto; lia|].
  exfalso.
  set (l := map (fun i => cand last (Z.of_nat i)) (seq 1 (S (length s)))).
  assert (Hnd : NoDup l).
  { unfold l. clear Hall H. assert (G : forall n a, (a >= 1)%nat -> Z.of_nat (a + n) <= MAX -> NoDup (map (fun i => cand last (Z.of_nat i)) (seq a n))).
    { induction n as [|n IHn]; intros a Ha Hb; cbn; [constructor|]. constructor.
      - rewrite in_map_iff. intros (j & Ej & Hj). apply in_seq in Hj.
        apply (cand_inj last (Z.of_nat a) (Z.of_nat j)); [lia|lia|lia|now symmetry].
      - apply IHn; lia. }
    apply G; lia. }
  assert (Hincl : incl l s).
  { intros x Hx. unfold l in Hx. apply in_map_iff in Hx as (i & <- & Hi). apply in_seq in Hi. apply mem_In, Hall. lia. }
  pose proof (NoDup_incl_length Hnd Hincl) as Hlen. unfold l in Hlen. rewrite map_length, seq_length in Hlen. lia.
Qed.

Theorem c05_next_is_first_free last s : 0 <= last <= MAX -> Z.of_nat (length s) < MAX - 1 ->
  exists d : nat, next_msgid last s = Found (cand last (Z.of_nat (S d)))
    /\ 1 <= cand last (Z.of_nat (S d)) <= MAX
    /\ ~ In (cand last (Z.of_nat (S d))) s
    /\ forall i, 0 < i < Z.of_nat (S d) -> In (cand last i) s.
Proof.
  intros Hl Hs. destruct (first_free_exists last s Hs) as (d & Hd & Hf & Hb). exists d. repeat split.
  - unfold next_msgid. pose proof (loop_first_free last s Hl d 0 (S (length s)) ltac:(lia)) as L. cbn [Z.eqb] in L.
    rewrite Z.add_0_l in L. apply L; [intros i Hi; apply Hb; lia|exact Hf|lia|lia].
  - apply cand_range.
  - apply cand_range.
  - intros Hin. apply mem_In in Hin. congruence.
  - intros i Hi. apply mem_In, Hb, Hi.
Qed.
Print Assumptions c05_next_is_first_free.
(* wrap-around in action *)
Example wrap : next_msgid (MAX - 1) [MAX; 1; 2; 5] = Found 3. Proof. vm_compute. reflexivity. Qed.

(* the allocation observed on the unchanged code with the id table set to (MAX - 1, {MAX, 1, 2}) through the hook: the next id is 3 *)
Example c05_probe_wrap : next_msgid (MAX - 1) [MAX; 1; 2] = Found 3.
Proof. vm_compute. reflexivity. Qed.
