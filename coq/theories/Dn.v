(* Calibration sketch (round 0): dn_escape (src/util.rs:66-119) and a strict RFC 4514 attribute-value reader. C09, DN half. *)
From Coq Require Import List NArith Lia Bool Arith.
From Coq.Strings Require Import Byte.
From L3 Require Import Ber Filter Escape.
Import ListNotations.
Open Scope N_scope.

Definition always_escape (c : byte) : bool :=
  beq c """"%byte || beq c "+"%byte || beq c ","%byte || beq c ";"%byte || beq c "<"%byte || beq c "="%byte ||
  beq c ">"%byte || beq c "\"%byte || beq c x00.
Definition lead_escape (c : byte) : bool := beq c " "%byte || beq c "#"%byte.
Definition is_nil {A} (l : list A) : bool := match l with [] => true | _ => false end.
Definition hexesc (c : byte) : list byte := ["\"%byte; xdigit (bN c / 16); xdigit (bN c mod 16)].

Fixpoint dn_go (first : bool) (v : list byte) : list byte :=
  match v with [] => [] | c :: r =>
    if always_escape c || (first && lead_escape c) || (is_nil r && beq c " "%byte) then hexesc c ++ dn_go false r
    else c :: dn_go false r end.
Definition dn_escape (v : list byte) : list byte := dn_go true v.

(* the seven unit tests of util.rs *)
Require Import Coq.Strings.String.
Definition t (s : string) := Filter.s2b s.
Example d1 : dn_escape (t " foo") = t "\20foo". Proof. reflexivity. Qed.
Example d2 : dn_escape (t "foo ") = t "foo\20". Proof. reflexivity. Qed.
Example d3 : dn_escape (t "f o o") = t "f o o". Proof. reflexivity. Qed.
Example d4 : dn_escape (t " ") = t "\20". Proof. reflexivity. Qed.
Example d5 : dn_escape (t "  ") = t "\20\20". Proof. reflexivity. Qed.
Example d6 : dn_escape (t "   ") = t "\20 \20". Proof. reflexivity. Qed.
Example d7 : dn_escape (t "#rust") = t "\23rust". Proof. reflexivity. Qed.

(* ---- RFC 4514 section 3: string = [ (leadchar / pair) [ *(stringchar / pair) (trailchar / pair) ] ] ---- *)
Definition sep (c : byte) : bool := beq c ","%byte || beq c "+"%byte.                (* ends the value inside a DN *)
Definition never_plain (c : byte) : bool :=                                           (* must be escaped wherever it occurs *)
  beq c """"%byte || beq c ";"%byte || beq c "<"%byte || beq c ">"%byte || beq c "\"%byte || beq c x00.
Definition pair_special (c : byte) : bool :=                                          (* ESC may be followed by one of these *)
  beq c " "%byte || beq c "#"%byte || beq c "="%byte || beq c """"%byte || beq c "+"%byte || beq c ","%byte ||
  beq c ";"%byte || beq c "<"%byte || beq c ">"%byte || beq c "\"%byte.

(* returns the value and what follows it; None = not a well-formed value string *)
Fixpoint rd_val (fuel : nat) (first prev_plain_space : bool) (s : list byte) : option (list byte * list byte) :=
  match fuel with O => None | S f =>
  match s with
  | [] => if prev_plain_space then None else Some ([], [])
  | c :: r =>
    if sep c then (if prev_plain_space then None else Some ([], s))
    else if beq c "\"%byte then
      match r with
      | h1 :: h2 :: r2 =>
          if is_hex h1 && is_hex h2 then
            match rd_val f false false r2 with Some (v, rest) => Some (byte_of_N (hexval h1 * 16 + hexval h2) :: v, rest) | None => None end
          else if pair_special h1 then
            match rd_val f false false (h2 :: r2) with Some (v, rest) => Some (h1 :: v, rest) | None => None end
          else None
      | [h1] => if pair_special h1 then Some ([h1], []) else None
      | [] => None end
    else if never_plain c || (first && lead_escape c) then None
    else match rd_val f false (beq c " "%byte) r with Some (v, rest) => Some (c :: v, rest) | None => None end
  end end.
Definition read_value (s : list byte) := rd_val (S (List.length s)) true false s.

Definition val_end (rest : list byte) : Prop := match rest with [] => True | c :: _ => sep c = true end.

Lemma hexpair_back c : is_hex (xdigit (bN c / 16)) = true /\ is_hex (xdigit (bN c mod 16)) = true /\
  byte_of_N (hexval (xdigit (bN c / 16)) * 16 + hexval (xdigit (bN c mod 16))) = c.
Proof. destruct c; vm_compute; repeat split. Qed.
Lemma plain_ok c : always_escape c = false -> sep c = false /\ beq c "\"%byte = false /\ never_plain c = false.
Proof. destruct c; vm_compute; intros; repeat split; congruence. Qed.

Lemma dn_go_reads v : forall first fuel rest prev, val_end rest -> (List.length (dn_go first v ++ rest) < fuel)%nat ->
  (v = [] -> prev = false) ->
  rd_val fuel first prev (dn_go first v ++ rest) = Some (v, rest).
Proof.
  induction v as [|c v IH]; intros first fuel rest prev Hr Hf Hp.
  - cbn [dn_go app]. rewrite (Hp eq_refl). destruct fuel; [cbn in Hf; lia|]. cbn [rd_val].
    destruct rest as [|x xs]; [reflexivity|]. cbn in Hr. now rewrite Hr.
  - cbn [dn_go] in Hf |- *. destruct (always_escape c || first && lead_escape c || is_nil v && beq c " "%byte) eqn:E.
    + (* escaped as a hexpair *)
      cbn [hexesc app]. destruct fuel as [|fuel]; [cbn in Hf; lia|]. cbn [rd_val].
      change (sep "\"%byte) with false. change (beq "\" "\")%byte with true. cbn match.
      destruct (hexpair_back c) as (H1 & H2 & H3). rewrite H1, H2. cbn [andb]. rewrite H3.
      rewrite IH; [reflexivity|assumption| |reflexivity]. unfold hexesc in Hf. cbn [List.length app] in Hf. lia.
    + (* kept as it is *)
      apply orb_false_elim in E as [E E3]. apply orb_false_elim in E as [E1 E2].
      destruct (plain_ok c E1) as (Hs & Hb & Hn). destruct fuel as [|fuel]; [cbn in Hf; lia|].
      cbn [app rd_val]. rewrite Hs, Hb, Hn, E2. cbn [orb].
      rewrite IH; [reflexivity|assumption|cbn [List.length app] in Hf; lia|].
      intros ->. cbn [is_nil andb] in E3. exact E3.
Qed.

Theorem c09_dn_inert v rest : val_end rest -> read_value (dn_escape v ++ rest) = Some (v, rest).
Proof. intros Hr. unfold read_value, dn_escape. apply dn_go_reads; [assumption|lia|reflexivity]. Qed.

Fixpoint dn_plain (first : bool) (v : list byte) : bool :=
  match v with [] => true | c :: r => negb (always_escape c || (first && lead_escape c) || (is_nil r && beq c " "%byte)) && dn_plain false r end.
Lemma dn_go_plain v : forall f, dn_plain f v = true -> dn_go f v = v.
Proof. induction v as [|c v IH]; intros f H; [reflexivity|]. cbn in *.
  apply andb_true_iff in H as [H1 H2]. apply negb_true_iff in H1. rewrite H1. now rewrite IH. Qed.
Theorem c09_dn_plain_unchanged v : dn_plain true v = true -> dn_escape v = v.
Proof. apply dn_go_plain. Qed.
Print Assumptions c09_dn_inert.
