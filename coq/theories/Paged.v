(* Calibration sketch (round 0): the PagedResults adapter (src/adapters.rs:332-452) over a scripted paging server. C16. *)
From Coq Require Import List NArith Lia Bool Arith.
From Coq.Strings Require Import Byte.
Import ListNotations.

Definition bytes := list byte.
Inductive ctl := CPaged (size : N) (cookie : bytes) | COther (n : nat).
Definition is_paged (c : ctl) : bool := match c with CPaged _ _ => true | _ => false end.
Record result := mkRes { rc : N; ctrls : list ctl }.
Inductive item := Entry (tok : nat) | Ref (tok : nat) | Inter (tok : nat).
(* what the server answers to one SearchRequest *)
Record page := mkPage { p_items : list item; p_result : result }.
(* what the adapter puts on the wire *)
Record request := mkReq { q_params : nat (* base, scope, filter, attrs, options, timeout: one opaque token *); q_ctrls : list ctl }.

Inductive sstate := Active | Done | SError | Closed.
Record stream := mkS {
  st : sstate;
  chan : option (list item * result);     (* current page still to be read: items, then its SearchResultDone *)
  res : option result;                    (* stream.res *)
  saved_params : nat; saved_ctrls : list ctl; page_size : N;       (* captured in start() *)
  server : list page;                     (* the pages the scripted server will serve to follow-up requests *)
  wire : list request }.                  (* requests sent so far *)

Inductive nres := NSome (it : item) | NNone | NErr.

(* start(): refuse a caller-supplied paging control; otherwise append one with an empty cookie *)
Definition start (params : nat) (user_ctrls : list ctl) (size : N) (srv : list page) : option stream :=
  if existsb is_paged user_ctrls then None                                           (* Err(AdapterInit) *)
  else match srv with
       | [] => None                                                                  (* the script must answer the first request *)
       | p :: rest =>
         Some (mkS Active (Some (p_items p, p_result p)) None params user_ctrls size rest
                   [mkReq params (user_ctrls ++ [CPaged size []])]) end.

Definition find_paged (cs : list ctl) : option bytes :=
  match find is_paged cs with Some (CPaged _ ck) => Some ck | _ => None end.
Definition strip_first_paged (cs : list ctl) : list ctl :=
  (fix go l := match l with [] => [] | c :: r => if is_paged c then r else c :: go r end) cs.

(* PagedResults::next: 'ent: loop { match stream.next() ... } ; [fx]: with the repair of F21 the result of the page just read is
   cleared when the follow-up page's stream is spliced in (stream.res = None), without it it stays in place *)
(* which repairs are in: F21 (the result of the page just read is cleared when the follow-up page's stream is spliced in) and its
   completion F24 (... also when the follow-up search fails to start: the search as a whole has failed, the page's result is not its result) *)
Record pfix := PF { f21 : bool; f24 : bool }.
Definition prepaired := PF true true.
Definition pasfound := PF false false.
Fixpoint next (fx : pfix) (fuel : nat) (s : stream) : stream * nres :=
  match fuel with O => (s, NErr) | S f =>
  match st s with
  | Active =>
    match chan s with
    | None => (mkS SError None (res s) (saved_params s) (saved_ctrls s) (page_size s) (server s) (wire s), NErr)
    | Some (it :: tl, r) => (mkS Active (Some (tl, r)) (res s) (saved_params s) (saved_ctrls s) (page_size s) (server s) (wire s), NSome it)
    | Some ([], r) =>
      (* inner Ok(None): stream.res = r *)
      match find_paged (ctrls r) with
      | Some ((_ :: _) as ck) =>
          match server s with
          | p :: rest =>
              next fx f (mkS Active (Some (p_items p, p_result p)) (if f21 fx then None else Some r) (saved_params s) (saved_ctrls s) (page_size s) rest
                          (wire s ++ [mkReq (saved_params s) (saved_ctrls s ++ [CPaged (page_size s) ck])]))
          | [] => (mkS SError None (if f24 fx then None else Some r) (saved_params s) (saved_ctrls s) (page_size s) [] (wire s), NErr) end   (* the follow-up search fails to start *)
      | Some [] => (mkS Done None (Some (mkRes (rc r) (strip_first_paged (ctrls r)))) (saved_params s) (saved_ctrls s) (page_size s) (server s) (wire s), NNone)
      | None => (mkS Done None (Some r) (saved_params s) (saved_ctrls s) (page_size s) (server s) (wire s), NNone)
      end
    end
  | _ => (s, NNone) end end.

Fixpoint drain (fx : pfix) (fuel : nat) (s : stream) : list item * stream :=
  match fuel with O => ([], s) | S f =>
    match next fx (S (length (server s))) s with
    | (s', NSome it) => let (l, s'') := drain fx f s' in (it :: l, s'')
    | (s', _) => ([], s') end end.
(* the caller reads at most [k] items and stops *)
Fixpoint take_items (fx : pfix) (k : nat) (s : stream) : list item * stream :=
  match k with O => ([], s) | S k' =>
    match next fx (S (length (server s))) s with
    | (s', NSome it) => let (l, s'') := take_items fx k' s' in (it :: l, s'')
    | (s', _) => ([], s') end end.
(* SearchStream::finish / finish_inner: code 80 when already closed; otherwise the stored result, or the synthetic cancellation (88);
   unless the stream is Done the id of the request in flight - the handle's last id: the newest request on the wire, ids being issued
   in sequence on a connection used by nothing else - is scrubbed *)
Definition cancelled : result := mkRes 88 [].
Definition finish (s : stream) : stream * result * option nat :=
  match st s with
  | Closed => (s, mkRes 80 [], None)
  | _ => (mkS Closed None None (saved_params s) (saved_ctrls s) (page_size s) (server s) (wire s),
          match res s with Some r => r | None => cancelled end,
          match st s with Done => None | _ => Some (length (wire s)) end)
  end.

(* a paging server: every page but the last returns a non-empty cookie; the last returns an empty one (or no control at all) *)
Definition cookie_of (r : result) : bytes := match find_paged (ctrls r) with Some ck => ck | None => [] end.
Fixpoint wf_script (cur : result) (rest : list page) : Prop :=
  match rest with
  | [] => cookie_of cur = []
  | p :: rest' => cookie_of cur <> [] /\ wf_script (p_result p) rest' end.
Fixpoint followups (params : nat) (uc : list ctl) (size : N) (cur : result) (rest : list page) : list request :=
  match rest with [] => [] | p :: rest' => mkReq params (uc ++ [CPaged size (cookie_of cur)]) :: followups params uc size (p_result p) rest' end.
Fixpoint last_result (cur : result) (rest : list page) : result :=
  match rest with [] => cur | p :: rest' => last_result (p_result p) rest' end.
Definition final_of (r : result) : result :=
  match find_paged (ctrls r) with Some _ => mkRes (rc r) (strip_first_paged (ctrls r)) | None => r end.

Lemma next_item fx f it tl r rs pa uc sz srv w :
  next fx (S f) (mkS Active (Some (it :: tl, r)) rs pa uc sz srv w) = (mkS Active (Some (tl, r)) rs pa uc sz srv w, NSome it).
Proof. reflexivity. Qed.

Lemma drain_items fx its : forall fuel r rs pa uc sz srv w,
  drain fx (length its + fuel) (mkS Active (Some (its, r)) rs pa uc sz srv w) =
  let (l, s') := drain fx fuel (mkS Active (Some ([], r)) rs pa uc sz srv w) in (its ++ l, s').
Proof. induction its as [|it its IH]; intros fuel r rs pa uc sz srv w.
  - cbn [length Nat.add app]. now destruct (drain fx fuel _).
  - cbn [length Nat.add drain server]. rewrite next_item. rewrite IH.
    destruct (drain fx fuel _). reflexivity. Qed.

(* crossing a page boundary happens inside one call of next(): the follow-up request goes out and reading continues *)
Lemma drain_cross fx g r c0 ck p rest rs pa uc sz w : find_paged (ctrls r) = Some (c0 :: ck) ->
  drain fx (S g) (mkS Active (Some ([], r)) rs pa uc sz (p :: rest) w) =
  drain fx (S g) (mkS Active (Some (p_items p, p_result p)) (if f21 fx then None else Some r) pa uc sz rest (w ++ [mkReq pa (uc ++ [CPaged sz (c0 :: ck)])])).
Proof. intros Ef. cbn [drain server length]. cbn [next st chan]. rewrite Ef. reflexivity. Qed.

(* the whole run, from any point inside any page *)
Theorem c16_run fx rest : forall its r rs pa uc sz w fuel, wf_script r rest ->
  (length its + length (flat_map p_items rest) + length rest < fuel)%nat ->
  exists s', drain fx fuel (mkS Active (Some (its, r)) rs pa uc sz rest w) = (its ++ flat_map p_items rest, s') /\
    st s' = Done /\ res s' = Some (final_of (last_result r rest)) /\
    wire s' = w ++ followups pa uc sz r rest.
Proof.
  induction rest as [|p rest IH]; intros its r rs pa uc sz w fuel Hwf Hf.
  - (* last page *)
    cbn [flat_map app length] in *. rewrite app_nil_r.
    replace fuel with (length its + (fuel - length its))%nat by lia. rewrite drain_items.
    destruct (fuel - length its)%nat as [|g] eqn:Eg; [lia|]. cbn [drain server length next st chan].
    cbn in Hwf. unfold cookie_of in Hwf. unfold final_of. cbn [last_result followups].
    destruct (find_paged (ctrls r)) as [ck|] eqn:Ef.
    + subst ck. rewrite app_nil_r. eexists. split; [reflexivity|]. repeat split; cbn; now rewrite app_nil_r.
    + rewrite app_nil_r. eexists. split; [reflexivity|]. repeat split; cbn; now rewrite app_nil_r.
  - (* a page with a continuation *)
    cbn [wf_script] in Hwf. destruct Hwf as [Hck Hwf]. cbn [flat_map length] in Hf. rewrite app_length in Hf.
    replace fuel with (length its + (fuel - length its))%nat by lia. rewrite drain_items.
    destruct (fuel - length its)%nat as [|g] eqn:Eg; [lia|].
    unfold cookie_of in Hck. destruct (find_paged (ctrls r)) as [ck|] eqn:Ef; [|congruence]. destruct ck as [|c0 ck]; [congruence|].
    rewrite (drain_cross fx g r c0 ck p rest rs pa uc sz w Ef).
    destruct (IH (p_items p) (p_result p) (if f21 fx then None else Some r) pa uc sz (w ++ [mkReq pa (uc ++ [CPaged sz (c0 :: ck)])]) (S g) Hwf ltac:(lia)) as (s' & Hd & Hst & Hres & Hw).
    rewrite Hd. exists s'. split; [cbn [flat_map]; now rewrite app_assoc|]. repeat split; try assumption.
    rewrite Hw. cbn [followups]. unfold cookie_of. rewrite Ef. now rewrite <- app_assoc.
Qed.

(* C16 in the property's words *)
Theorem c16 fx params user_ctrls size p rest s0 :
  start params user_ctrls size (p :: rest) = Some s0 -> wf_script (p_result p) rest ->
  exists s', drain fx (S (length (flat_map p_items (p :: rest)) + length (p :: rest))) s0 = (flat_map p_items (p :: rest), s') /\
    st s' = Done /\
    (* the final result is the last page's, without the paging control *)
    res s' = Some (final_of (last_result (p_result p) rest)) /\
    (* first request: the caller's controls plus paging with the requested size and an empty cookie;
       every follow-up: same parameters and controls, the cookie the server last returned *)
    wire s' = mkReq params (user_ctrls ++ [CPaged size []]) :: followups params user_ctrls size (p_result p) rest.
Proof.
  unfold start. destruct (existsb is_paged user_ctrls); [discriminate|]. intros [= <-] Hwf.
  destruct (c16_run fx rest (p_items p) (p_result p) None params user_ctrls size [mkReq params (user_ctrls ++ [CPaged size []])]
              (S (length (flat_map p_items (p :: rest)) + length (p :: rest))) Hwf) as (s' & Hd & Hst & Hres & Hw).
  { cbn [flat_map length]. rewrite app_length. lia. }
  exists s'. repeat split; assumption.
Qed.
Theorem c16_rejects_caller_paging_control params uc size srv : existsb is_paged uc = true -> start params uc size srv = None.
Proof. unfold start. now intros ->. Qed.
Lemma final_has_no_paging r : (forall c1 c2, In c1 (ctrls r) -> In c2 (ctrls r) -> is_paged c1 = true -> is_paged c2 = true -> c1 = c2) ->
  NoDup (ctrls r) -> existsb is_paged (ctrls (final_of r)) = false.
Proof.
  unfold final_of, find_paged. intros Huniq Hnd. destruct (find is_paged (ctrls r)) as [c|] eqn:Ef.
  - assert (Hc : exists sz ck, c = CPaged sz ck) by (apply find_some in Ef as [_ H]; destruct c; [eauto|discriminate]).
    destruct Hc as (sz & ck & ->). cbn [ctrls].
    (* removing the first paging control from a duplicate-free list with at most one leaves none *)
    revert Ef Huniq Hnd. induction (ctrls r) as [|c l IHl]; intros Ef Huniq Hnd; [discriminate|]. cbn in Ef |- *.
    destruct (is_paged c) eqn:Ec.
    + injection Ef as ->. inversion Hnd as [|? ? Hnin _]; subst. apply not_true_is_false. intros H. apply existsb_exists in H as (x & Hx & Px).
      assert (CPaged sz ck = x) by (apply Huniq; [now left|now right|reflexivity|exact Px]). subst. contradiction.
    + cbn. rewrite Ec. cbn. inversion Hnd; subst. apply IHl; [assumption| |assumption]. intros; apply Huniq; auto; now right.
  - destruct (existsb is_paged (ctrls r)) eqn:E; [|reflexivity]. apply existsb_exists in E as (x & Hx & Px).
    pose proof (find_none _ _ Ef x Hx). congruence.
Qed.

(* ---- finishing before the end (C10 for the adapted stream, C13 for its ids) ---- *)
(* with the repair of F21: while the adapted stream is Active it holds no result *)
Lemma next_active_no_res fuel : forall s s' r, next prepaired fuel s = (s', r) -> (st s = Active -> res s = None) -> st s' = Active -> res s' = None.
Proof.
  induction fuel as [|f IH]; intros s s' r H Hinv Ha; cbn [next] in H; [injection H as <- _; auto|].
  destruct (st s) eqn:Es; try (injection H as <- _; congruence).
  destruct (chan s) as [[[|it tl] rr]|] eqn:Ec.
  - destruct (find_paged (ctrls rr)) as [[|c0 ck]|] eqn:Ef; try (injection H as <- _; cbn in Ha; discriminate).
    destruct (server s) as [|p rest]; [injection H as <- _; cbn in Ha; discriminate|].
    eapply IH; [exact H| |exact Ha]. reflexivity.
  - injection H as <- _. cbn. auto.
  - injection H as <- _. cbn in Ha. discriminate.
Qed.
Lemma take_items_active_no_res k : forall s l s', take_items prepaired k s = (l, s') -> (st s = Active -> res s = None) -> st s' = Active -> res s' = None.
Proof.
  induction k as [|k IH]; intros s l s' H Hinv Ha; cbn [take_items] in H; [injection H as _ <-; auto|].
  destruct (next prepaired (S (length (server s))) s) as [s1 r] eqn:En. pose proof (next_active_no_res _ _ _ _ En Hinv) as H1.
  destruct r; [destruct (take_items prepaired k s1) as [l' s2] eqn:Et; injection H as _ <-; eapply IH; eauto| |]; injection H as _ <-; auto.
Qed.
(* C10 on the adapted stream: however many items the caller has read, on whichever page, a finish() before the end returns the
   synthetic cancellation (88) and scrubs the id of the newest request - never a page's own result *)
Theorem c10_paged_early_finish params uc size srv s0 k l s' : start params uc size srv = Some s0 -> take_items prepaired k s0 = (l, s') -> st s' = Active ->
  let '(s'', r, scrub) := finish s' in r = cancelled /\ scrub = Some (length (wire s')) /\ st s'' = Closed.
Proof.
  intros Hs Ht Ha. assert (Hr : res s' = None).
  { eapply take_items_active_no_res; [exact Ht| |exact Ha]. unfold start in Hs. destruct (existsb is_paged uc); [discriminate|]. destruct srv; [discriminate|]. injection Hs as <-. reflexivity. }
  unfold finish. rewrite Ha, Hr. repeat split. Qed.
(* the defect on the code as it was: one full page read, the second page begun, finish() returns the first page's result *)
Lemma c10_refuted_F21 : let pg := mkPage [Entry 1] (mkRes 0 [CPaged 0 [x01]]) in let pg2 := mkPage [Entry 2; Entry 3] (mkRes 0 [CPaged 0 []]) in
  match start 7 [] 1 [pg; pg2] with Some s0 => let '(_, s') := take_items pasfound 2 s0 in snd (fst (finish s')) = mkRes 0 [CPaged 0 [x01]] | None => False end.
Proof. vm_compute. reflexivity. Qed.
Lemma c10_repaired_F21 : let pg := mkPage [Entry 1] (mkRes 0 [CPaged 0 [x01]]) in let pg2 := mkPage [Entry 2; Entry 3] (mkRes 0 [CPaged 0 []]) in
  match start 7 [] 1 [pg; pg2] with Some s0 => let '(_, s') := take_items prepaired 2 s0 in snd (fst (finish s')) = cancelled /\ st s' = Active | None => False end.
Proof. vm_compute. split; reflexivity. Qed.

(* F24: the follow-up search fails to start (the connection was lost between two pages): next() fails, and - with the repair - the
   result of the page read last does not pass for the result of the search: finish() reports the cancellation *)
Lemma next_err_no_res fuel : forall s s', next prepaired fuel s = (s', NErr) -> st s = Active -> res s = None -> res s' = None.
Proof.
  induction fuel as [|f IH]; intros s s' H Ha Hr; cbn [next] in H; [now injection H as <-|].
  rewrite Ha in H. destruct (chan s) as [[[|it tl] rr]|] eqn:Ec.
  - destruct (find_paged (ctrls rr)) as [[|c0 ck]|] eqn:Ef; try discriminate.
    destruct (server s) as [|p rest]; [now injection H as <-|]. eapply IH; [exact H|reflexivity|reflexivity].
  - discriminate.
  - now injection H as <-.
Qed.
Theorem c10_paged_failed_followup params uc size srv s0 k l s1 fuel s2 : start params uc size srv = Some s0 -> take_items prepaired k s0 = (l, s1) -> st s1 = Active ->
  next prepaired fuel s1 = (s2, NErr) -> snd (fst (finish s2)) = cancelled.
Proof.
  intros Hs Ht Ha Hn. assert (Hr : res s1 = None).
  { eapply take_items_active_no_res; [exact Ht| |exact Ha]. unfold start in Hs. destruct (existsb is_paged uc); [discriminate|]. destruct srv; [discriminate|]. injection Hs as <-. reflexivity. }
  pose proof (next_err_no_res fuel s1 s2 Hn Ha Hr) as R2. unfold finish. destruct (st s2) eqn:E2; cbn [fst snd]; rewrite ?R2; try reflexivity.
  (* Closed cannot be reached by next *)
  exfalso. clear - Hn Ha E2. revert s1 Ha Hn. induction fuel as [|f IH]; intros s1 Ha Hn; cbn [next] in Hn; [injection Hn as <-; congruence|].
  rewrite Ha in Hn. destruct (chan s1) as [[[|it tl] rr]|]; [|discriminate|injection Hn as <-; discriminate].
  destruct (find_paged (ctrls rr)) as [[|c0 ck]|]; try discriminate. destruct (server s1); [injection Hn as <-; discriminate|]. eapply IH; [|exact Hn]. reflexivity.
Qed.
(* with the first repair only: one page read to its end, the server gone - finish() returns that page's own result, paging control and all *)
Lemma c10_refuted_F24 : let pg := mkPage [Entry 1] (mkRes 0 [CPaged 0 [x01]]) in
  match start 7 [] 1 [pg] with Some s0 => let '(_, s1) := take_items (PF true false) 1 s0 in let '(s2, r) := next (PF true false) 5 s1 in
    r = NErr /\ snd (fst (finish s2)) = mkRes 0 [CPaged 0 [x01]] | None => False end.
Proof. vm_compute. split; reflexivity. Qed.
Lemma c10_repaired_F24 : let pg := mkPage [Entry 1] (mkRes 0 [CPaged 0 [x01]]) in
  match start 7 [] 1 [pg] with Some s0 => let '(_, s1) := take_items prepaired 1 s0 in let '(s2, r) := next prepaired 5 s1 in
    r = NErr /\ snd (fst (finish s2)) = cancelled | None => False end.
Proof. vm_compute. split; reflexivity. Qed.

(* ---- chained behind EntriesOnly (adapters = [EntriesOnly, PagedResults]) ----
   EntriesOnly::next loops over the next adapter's next(): intermediate messages are dropped, the URIs of reference messages are collected
   (and added to the final result's referral list by EntriesOnly::finish), entries are handed on. Read to the end, the two nested loops -
   the caller's and the adapter's - are one loop over the paged stream: *)
Fixpoint eo_drain (fx : pfix) (fuel : nat) (s : stream) (refs : list nat) : list nat * list nat * stream :=
  match fuel with O => ([], refs, s) | S f =>
    match next fx (S (length (server s))) s with
    | (s', NSome (Entry k)) => let '(l, r, s'') := eo_drain fx f s' refs in (k :: l, r, s'')
    | (s', NSome (Ref k)) => eo_drain fx f s' (refs ++ [k])
    | (s', NSome (Inter _)) => eo_drain fx f s' refs
    | (s', _) => ([], refs, s') end end.
Definition entries_of (l : list item) : list nat := flat_map (fun it => match it with Entry k => [k] | _ => [] end) l.
Definition refs_of (l : list item) : list nat := flat_map (fun it => match it with Ref k => [k] | _ => [] end) l.
Lemma eo_drain_spec fx : forall fuel s refs,
  eo_drain fx fuel s refs = let (l, s') := drain fx fuel s in (entries_of l, refs ++ refs_of l, s').
Proof.
  induction fuel as [|f IH]; intros s refs; cbn [eo_drain drain]; [cbn; now rewrite app_nil_r|].
  destruct (next fx (S (length (server s))) s) as [s1 [it| |]].
  - destruct it as [k|k|k]; rewrite IH; destruct (drain fx f s1) as [l s2]; cbn [entries_of refs_of flat_map app]; try reflexivity.
    now rewrite <- app_assoc.
  - cbn. now rewrite app_nil_r.
  - cbn. now rewrite app_nil_r.
Qed.
(* C16 behind EntriesOnly: exactly the entries of all pages, in order, each once; the reference URIs of all pages collected in order; the
   stream Done with the last page's result without the paging control; the same requests on the wire *)
Theorem c16_behind_entries_only fx params user_ctrls size p rest s0 :
  start params user_ctrls size (p :: rest) = Some s0 -> wf_script (p_result p) rest ->
  exists s', eo_drain fx (S (length (flat_map p_items (p :: rest)) + length (p :: rest))) s0 [] =
               (entries_of (flat_map p_items (p :: rest)), refs_of (flat_map p_items (p :: rest)), s') /\
    st s' = Done /\ res s' = Some (final_of (last_result (p_result p) rest)) /\
    wire s' = mkReq params (user_ctrls ++ [CPaged size []]) :: followups params user_ctrls size (p_result p) rest.
Proof.
  intros Hs Hwf. destruct (c16 fx params user_ctrls size p rest s0 Hs Hwf) as (s' & Hd & Hst & Hres & Hw).
  exists s'. rewrite eo_drain_spec, Hd. cbn [app]. repeat split; assumption.
Qed.

(* the same two adapters the other way round, [PagedResults, EntriesOnly]: EntriesOnly sits inside and sees every page's stream - it hands
   on that page's entries and keeps its reference URIs (in the adapter, across pages; merged into the result by its finish()). PagedResults
   outside therefore pages over streams whose items are already entries only: the caller sees the same entries in the same order, the same
   requests go out, and the URIs kept are those of all pages in order *)
Definition inner_eo (p : page) : page := mkPage (map Entry (entries_of (p_items p))) (p_result p).
Lemma entries_of_app a b : entries_of (a ++ b) = entries_of a ++ entries_of b. Proof. unfold entries_of. apply flat_map_app. Qed.
Lemma refs_of_app a b : refs_of (a ++ b) = refs_of a ++ refs_of b. Proof. unfold refs_of. apply flat_map_app. Qed.
Lemma entries_of_entries l : entries_of (map Entry l) = l. Proof. induction l as [|k l IH]; [reflexivity|]. change (entries_of (map Entry (k :: l))) with (k :: entries_of (map Entry l)). now rewrite IH. Qed.
Lemma flat_inner_eo pages : flat_map p_items (map inner_eo pages) = map Entry (entries_of (flat_map p_items pages)).
Proof. induction pages as [|p r IH]; [reflexivity|]. cbn [map flat_map inner_eo p_items]. now rewrite IH, entries_of_app, map_app. Qed.
Lemma refs_pagewise pages : flat_map (fun p => refs_of (p_items p)) pages = refs_of (flat_map p_items pages).
Proof. induction pages as [|p r IH]; [reflexivity|]. cbn [flat_map]. now rewrite IH, refs_of_app. Qed.
Lemma wf_inner_eo cur rest : wf_script cur rest -> wf_script cur (map inner_eo rest).
Proof. revert cur. induction rest as [|p r IH]; intros cur H; [exact H|]. cbn [map wf_script inner_eo p_result] in *. destruct H as [H1 H2]. split; [exact H1|now apply IH]. Qed.
Lemma last_inner_eo cur rest : last_result cur (map inner_eo rest) = last_result cur rest.
Proof. revert cur. induction rest as [|p r IH]; intros cur; [reflexivity|]. cbn [map last_result inner_eo p_result]. apply IH. Qed.
Lemma followups_inner_eo pa uc sz cur rest : followups pa uc sz cur (map inner_eo rest) = followups pa uc sz cur rest.
Proof. revert cur. induction rest as [|p r IH]; intros cur; [reflexivity|]. cbn [map followups inner_eo p_result]. now rewrite IH. Qed.
Theorem c16_entries_only_inside fx params user_ctrls size p rest s0 :
  start params user_ctrls size (map inner_eo (p :: rest)) = Some s0 -> wf_script (p_result p) rest ->
  exists s', drain fx (S (length (flat_map p_items (map inner_eo (p :: rest))) + length (map inner_eo (p :: rest)))) s0 = (map Entry (entries_of (flat_map p_items (p :: rest))), s') /\
    st s' = Done /\ res s' = Some (final_of (last_result (p_result p) rest)) /\
    wire s' = mkReq params (user_ctrls ++ [CPaged size []]) :: followups params user_ctrls size (p_result p) rest /\
    flat_map (fun q => refs_of (p_items q)) (p :: rest) = refs_of (flat_map p_items (p :: rest)).
Proof.
  intros Hs Hwf. cbn [map] in Hs.
  destruct (c16 fx params user_ctrls size (inner_eo p) (map inner_eo rest) s0 Hs (wf_inner_eo _ _ Hwf)) as (s' & Hd & Hst & Hres & Hw).
  exists s'. cbn [map]. rewrite Hd. change (inner_eo p :: map inner_eo rest) with (map inner_eo (p :: rest)). rewrite flat_inner_eo.
  cbn [inner_eo p_result] in Hres, Hw. rewrite last_inner_eo in Hres. rewrite followups_inner_eo in Hw.
  repeat split; try assumption. apply refs_pagewise.
Qed.

(* the other response controls of the final result come through untouched and in order, wherever the paging control sat among them *)
Definition others (cs : list ctl) : list ctl := filter (fun c => negb (is_paged c)) cs.
Lemma filter_all_id {A} (f : A -> bool) l : (forall x, In x l -> f x = true) -> filter f l = l.
Proof. induction l as [|a l IH]; intros H; [reflexivity|]. cbn. rewrite (H a (or_introl eq_refl)). f_equal. apply IH. intros x Hx. apply H. now right. Qed.
Lemma strip_first_paged_others cs : (forall c1 c2, In c1 cs -> In c2 cs -> is_paged c1 = true -> is_paged c2 = true -> c1 = c2) -> NoDup cs ->
  strip_first_paged cs = others cs.
Proof.
  induction cs as [|c l IH]; intros Hu Hnd; [reflexivity|]. cbn [strip_first_paged others filter]. destruct (is_paged c) eqn:Ec; cbn [negb].
  - (* the (only) paging control: nothing paged is left in l *)
    inversion Hnd as [|? ? Hnin _]; subst. symmetry. apply filter_all_id. intros x Hx.
    destruct (is_paged x) eqn:Ex; [|reflexivity]. exfalso. assert (c = x) by (apply Hu; [now left|now right|assumption|assumption]). subst. contradiction.
  - f_equal. inversion Hnd; subst. apply IH; [|assumption]. intros; apply Hu; auto; now right.
Qed.
Theorem c16_final_keeps_other_controls r : (forall c1 c2, In c1 (ctrls r) -> In c2 (ctrls r) -> is_paged c1 = true -> is_paged c2 = true -> c1 = c2) -> NoDup (ctrls r) ->
  ctrls (final_of r) = others (ctrls r) /\ rc (final_of r) = rc r.
Proof.
  intros Hu Hnd. unfold final_of, find_paged. destruct (find is_paged (ctrls r)) as [c|] eqn:Ef.
  - assert (Hc : exists sz ck, c = CPaged sz ck) by (apply find_some in Ef as [_ H]; destruct c; [eauto|discriminate]).
    destruct Hc as (sz & ck & ->). cbn [ctrls rc]. split; [now apply strip_first_paged_others|reflexivity].
  - split; [|reflexivity]. unfold others. symmetry. apply filter_all_id. intros x Hx. pose proof (find_none _ _ Ef x Hx) as H. now rewrite H.
Qed.
(* ---- F48: a next() call given up while the adapter asks for the next page ----
   The call has read the final message of the page (stream.res = its result, the receiver gone) and its follow-up request is on its way;
   nothing of the new page is installed in the stream. [f48]: the page's result is dropped before the follow-up is requested (repair), or
   is still there (as found). The abandoned request reaches the server, whose cursor moves on; its answer reaches nobody. *)
Definition abandon_at_switch (f48 : bool) (s : stream) : option stream :=
  match st s, chan s with
  | Active, Some ([], r) =>
      match find_paged (ctrls r), server s with
      | Some ((_ :: _) as ck), p :: rest =>
          Some (mkS Active None (if f48 then None else Some r) (saved_params s) (saved_ctrls s) (page_size s) rest
                    (wire s ++ [mkReq (saved_params s) (saved_ctrls s ++ [CPaged (page_size s) ck])]))
      | _, _ => None end
  | _, _ => None end.
(* the next call on such a stream: the inner stream has no receiver (Ok(None)), the adapter looks at stream.res - nothing there: the end;
   a page result with a live cookie there: the follow-up goes out once more *)
Definition next_after_abandon (s : stream) : stream * nres :=
  match res s with
  | None => (mkS Done None None (saved_params s) (saved_ctrls s) (page_size s) (server s) (wire s), NNone)
  | Some r =>
      match find_paged (ctrls r), server s with
      | Some ((_ :: _) as ck), p :: rest =>
          (mkS Active (Some (tl (p_items p), p_result p)) None (saved_params s) (saved_ctrls s) (page_size s) rest
               (wire s ++ [mkReq (saved_params s) (saved_ctrls s ++ [CPaged (page_size s) ck])]),
           match p_items p with it :: _ => NSome it | [] => NNone end)
      | _, _ => (mkS SError None (Some r) (saved_params s) (saved_ctrls s) (page_size s) (server s)
                     (match find_paged (ctrls r) with Some ((_ :: _) as ck) => wire s ++ [mkReq (saved_params s) (saved_ctrls s ++ [CPaged (page_size s) ck])] | _ => wire s end), NErr)
      end
  end.
(* C10 / C16 after the repair: the stream holds no page result, so finish() is the cancellation and the stream ends without a further request *)
Theorem c10_abandoned_switch s s' : abandon_at_switch true s = Some s' ->
  res s' = None /\ snd (fst (finish s')) = cancelled /\
  fst (next_after_abandon s') = mkS Done None None (saved_params s') (saved_ctrls s') (page_size s') (server s') (wire s') /\ snd (next_after_abandon s') = NNone /\
  wire (fst (next_after_abandon s')) = wire s'.
Proof.
  unfold abandon_at_switch. destruct (st s); try discriminate. destruct (chan s) as [[[|it tl] r]|]; try discriminate.
  destruct (find_paged (ctrls r)) as [[|c0 ck]|]; try discriminate. destruct (server s) as [|p rest]; [discriminate|].
  intros [= <-]. repeat split; reflexivity.
Qed.
(* as found: one page of one entry and a cookie, a second page behind it. finish() after the abandoned switch returns the first page's
   own result; reading on sends the follow-up with cookie 01 a second time and hands out the THIRD page's entry - the second page is lost *)
Lemma c10_refuted_F48 :
  let p1 := mkPage [Entry 1] (mkRes 0 [CPaged 0 [x01]]) in let p2 := mkPage [Entry 2] (mkRes 0 [CPaged 0 [x02]]) in let p3 := mkPage [Entry 3] (mkRes 0 [CPaged 0 []]) in
  match start 7 [] 1 [p1; p2; p3] with None => False | Some s0 =>
    let s1 := fst (next prepaired 5 s0) in                       (* Entry 1 handed over; the page's final message is next *)
    match abandon_at_switch false s1, abandon_at_switch true s1 with
    | Some bad, Some good =>
        snd (fst (finish bad)) = mkRes 0 [CPaged 0 [x01]] /\ snd (next_after_abandon bad) = NSome (Entry 3) /\
        wire (fst (next_after_abandon bad)) = [mkReq 7 [CPaged 1 []]; mkReq 7 [CPaged 1 [x01]]; mkReq 7 [CPaged 1 [x01]]] /\
        snd (fst (finish good)) = cancelled /\ snd (next_after_abandon good) = NNone /\ wire (fst (next_after_abandon good)) = [mkReq 7 [CPaged 1 []]; mkReq 7 [CPaged 1 [x01]]]
    | _, _ => False end end.
Proof. vm_compute. repeat split. Qed.
(* ---- F56: PagedResults::finish() itself ----
   Whatever left a page's own result in the stream (the repairs F21, F24, F48 close the windows the built-in adapters can reach; an adapter
   written by the user, sitting between PagedResults and the stream, can fail at the end of a page before PagedResults looks at it),
   finish() hands out no result that still carries a live cookie: it is replaced by the cancellation. On the model's reachable states
   this changes nothing ([res] never holds a live cookie there); the theorem is about EVERY state. *)
Definition live (r : result) : bool := match find_paged (ctrls r) with Some (_ :: _) => true | _ => false end.
Definition finish56 (s : stream) : stream * result * option nat :=
  let '(s', r, sc) := finish s in (s', if live r then cancelled else mkRes (rc r) (others (ctrls r)), sc).   (* F56b: ... and the control of the last page goes *)
Lemma no_paged_in_others cs : existsb is_paged (others cs) = false.
Proof. unfold others. induction cs as [|c l IH]; [reflexivity|]. cbn [filter]. destruct (is_paged c) eqn:E; cbn [negb]; [exact IH|]. cbn [existsb]. now rewrite E, IH. Qed.
Theorem c16_finish_no_paging_control s : existsb is_paged (ctrls (snd (fst (finish56 s)))) = false.
Proof. unfold finish56. destruct (finish s) as [[s' r] sc]. cbn [fst snd]. destruct (live r); [reflexivity|]. cbn [ctrls]. apply no_paged_in_others. Qed.
Theorem c10_finish_never_a_page_result s : cookie_of (snd (fst (finish56 s))) = [].
Proof.
  pose proof (c16_finish_no_paging_control s) as H. unfold cookie_of, find_paged.
  destruct (find is_paged (ctrls (snd (fst (finish56 s))))) as [c|] eqn:E; [|reflexivity].
  apply find_some in E as [Hin Hp]. exfalso. assert (existsb is_paged (ctrls (snd (fst (finish56 s)))) = true) by (apply existsb_exists; eauto). congruence.
Qed.
Lemma c10_refuted_F56 : let s := mkS SError None (Some (mkRes 0 [CPaged 0 [x01]])) 7 [] 2 [] [] in
  snd (fst (finish s)) = mkRes 0 [CPaged 0 [x01]] /\ snd (fst (finish56 s)) = cancelled.
Proof. split; reflexivity. Qed.
Print Assumptions c16.
Print Assumptions c10_abandoned_switch.
Print Assumptions c10_paged_early_finish.
Print Assumptions c16_behind_entries_only.
Print Assumptions c16_final_keeps_other_controls.
