(* Calibration sketch (round 0): ldap_escape / ldap_unescape (src/util.rs) and inertness inside a filter (C09). *)
From Coq Require Import List NArith Lia Bool Arith.
From Coq.Strings Require Import Byte.
From L3 Require Import Ber Utf8 Filter FilterSpec.
Import ListNotations.
Open Scope N_scope.

Definition needs_escape (c : byte) : bool :=
  beq c "\"%byte || beq c "*"%byte || beq c "("%byte || beq c ")"%byte || beq c x00.
Definition xdigit (n : N) : byte := byte_of_N (n + if n <? 10 then 48 else 87).   (* b'0' / b'a' - 10 *)
Fixpoint esc_all (v : list byte) : list byte :=
  match v with [] => [] | c :: r =>
    if needs_escape c then "\"%byte :: xdigit (bN c / 16) :: xdigit (bN c mod 16) :: esc_all r else c :: esc_all r end.
(* the Cow: borrowed (input returned as is) iff nothing needed escaping; the bytes are esc_all v either way *)
Definition ldap_escape (v : list byte) : bool (* borrowed? *) * list byte :=
  (negb (existsb needs_escape v), esc_all v).

Lemma needs_escape_special c : needs_escape c = special c.
Proof. destruct c; reflexivity. Qed.
Lemma xdigits_ok c : needs_escape c = true ->
  is_hex (xdigit (bN c / 16)) = true /\ is_hex (xdigit (bN c mod 16)) = true /\
  bN c = hexval (xdigit (bN c / 16)) * 16 + hexval (xdigit (bN c mod 16)).
Proof. destruct c; vm_compute; intros H; try discriminate; repeat split. Qed.

Theorem escape_is_ValEnc v : ValEnc v (esc_all v).
Proof. induction v as [|c v IH]; cbn [esc_all]; [constructor|].
  destruct (needs_escape c) eqn:E.
  - destruct (xdigits_ok _ E) as (H1 & H2 & H3). now apply VE_hex.
  - apply VE_plain; [now rewrite <- needs_escape_special|assumption]. Qed.

Lemma escape_plain_unchanged v : existsb needs_escape v = false -> esc_all v = v.
Proof. induction v as [|c v IH]; cbn; [reflexivity|]. intros H. apply orb_false_elim in H as [Hc Hv]. now rewrite Hc, IH. Qed.

(* C09: an escaped value is inert in an equality filter, whatever the value *)
Theorem c09_filter_inert_eq a v : AttrDesc a ->
  parse ("("%byte :: (a ++ "="%byte :: esc_all v) ++ [")"%byte]) = Some (ber_item (IEq a v)).
Proof. intros Ha. apply (c08_complete_modulo_F14 (FItem (IEq a v))); [|cbn; tauto].
  apply D_filter, FS_Item, S_Eq; [assumption|apply escape_is_ValEnc]. Qed.
(* ... in the ordering and approximate-match positions ... *)
Theorem c09_filter_inert_ge a v : AttrDesc a ->
  parse ("("%byte :: (a ++ ">"%byte :: "="%byte :: esc_all v) ++ [")"%byte]) = Some (ber_item (IGe a v)).
Proof. intros Ha. apply (c08_complete_modulo_F14 (FItem (IGe a v))); [|cbn; tauto].
  apply D_filter, FS_Item, S_Ge; [assumption|apply escape_is_ValEnc]. Qed.
Theorem c09_filter_inert_le a v : AttrDesc a ->
  parse ("("%byte :: (a ++ "<"%byte :: "="%byte :: esc_all v) ++ [")"%byte]) = Some (ber_item (ILe a v)).
Proof. intros Ha. apply (c08_complete_modulo_F14 (FItem (ILe a v))); [|cbn; tauto].
  apply D_filter, FS_Item, S_Le; [assumption|apply escape_is_ValEnc]. Qed.
Theorem c09_filter_inert_approx a v : AttrDesc a ->
  parse ("("%byte :: (a ++ "~"%byte :: "="%byte :: esc_all v) ++ [")"%byte]) = Some (ber_item (IApprox a v)).
Proof. intros Ha. apply (c08_complete_modulo_F14 (FItem (IApprox a v))); [|cbn; tauto].
  apply D_filter, FS_Item, S_Approx; [assumption|apply escape_is_ValEnc]. Qed.
(* ... and as the value of an extensible match (attribute form, no rule, with or without the dn flag) *)
Theorem c09_filter_inert_ext a dn v : AttrDesc a ->
  parse ("("%byte :: (a ++ dnstr dn ++ [] ++ ":"%byte :: "="%byte :: esc_all v) ++ [")"%byte]) = Some (ber_item (IExt None (Some a) dn v)).
Proof. intros Ha. apply (c08_complete_modulo_F14 (FItem (IExt None (Some a) dn v))); [|cbn; tauto].
  apply D_filter, FS_Item. apply (S_ExtA a dn (dnstr dn) None v (esc_all v)); [assumption|apply DnStr_canon|exact I|apply escape_is_ValEnc]. Qed.
(* ... and as the initial / any / final component of a substring filter (value non-empty there) *)
Theorem c09_filter_inert_sub a x y z : AttrDesc a -> x <> [] -> y <> [] -> z <> [] ->
  parse ("("%byte :: (a ++ "="%byte :: esc_all x ++ starred ([esc_all y] ++ [esc_all z])) ++ [")"%byte])
  = Some (ber_item (ISub a (Some x) [y] (Some z))).
Proof. intros Ha Hx Hy Hz. apply (c08_complete_modulo_F14 (FItem (ISub a (Some x) [y] (Some z)))); [|cbn; tauto].
  apply D_filter, FS_Item, S_Sub; cbn; auto using escape_is_ValEnc.
  all: try (intros (H & _); discriminate).
  all: repeat constructor; apply escape_is_ValEnc. Qed.

(* ldap_unescape: feeds every byte (no value-char filter) *)
Fixpoint feed_all (st : ust) (acc : list byte) (i : list byte) : ust * list byte :=
  match i with [] => (st, acc) | c :: r =>
    match st with
    | UError => feed_all UError acc r
    | WantFirst => if is_hex c then feed_all (WantSecond (hexval c)) acc r else feed_all UError acc r
    | WantSecond p => if is_hex c then feed_all Value (acc ++ [byte_of_N (p * 16 + hexval c)]) r else feed_all UError acc r
    | Value => if beq c "\"%byte then feed_all WantFirst acc r else feed_all Value (acc ++ [c]) r
    end end.
Lemma needs_escape_bs c : needs_escape c = false -> beq c "\"%byte = false.
Proof. destruct c; vm_compute; congruence. Qed.
Theorem c09_unescape_escape v : forall acc, feed_all Value acc (esc_all v) = (Value, acc ++ v).
Proof. induction v as [|c v IH]; intros acc; cbn [esc_all feed_all]; [now rewrite app_nil_r|].
  destruct (needs_escape c) eqn:E.
  - destruct (xdigits_ok _ E) as (H1 & H2 & H3). cbn [feed_all]. change (beq "\" "\")%byte with true. cbn match.
    rewrite H1, H2, <- H3, byte_of_bN, IH, <- app_assoc. reflexivity.
  - cbn [feed_all]. rewrite (needs_escape_bs _ E), IH, <- app_assoc. reflexivity. Qed.
(* ldap_unescape as a whole: Err unless the automaton ends in a value state and the bytes are UTF-8 *)
Definition ldap_unescape (i : list byte) : option (list byte) :=
  let (st, acc) := feed_all Value [] i in
  match st with Value => if Utf8.valid acc then Some acc else None | _ => None end.
Theorem c09_unescape_escape_str v : Utf8.valid v = true -> ldap_unescape (esc_all v) = Some v.
Proof. intros H. unfold ldap_unescape. rewrite (c09_unescape_escape v []). cbn [app]. now rewrite H. Qed.
Theorem c09_plain_unchanged v : existsb needs_escape v = false -> ldap_escape v = (true, v).
Proof. intros H. unfold ldap_escape. now rewrite H, (escape_plain_unchanged v H). Qed.
Print Assumptions c09_filter_inert_eq.
Print Assumptions c09_unescape_escape.
