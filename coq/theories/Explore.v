From Coq Require Import List ZArith Bool.
From L3 Require Import Msgid Conn.
Import ListNotations.
(* find the first failing schedule, if any *)
Fixpoint find_bad (P : st -> bool) (d : nat) (s : st) (path : list ev) : option (list ev) :=
  if negb (P s) then Some (rev path) else
  match d with O => None | S d' =>
    (fix go (es : list ev) := match es with [] => None | e :: r =>
        match find_bad P d' (step s e) (e :: path) with Some p => Some p | None => go r end end) alphabet end.
