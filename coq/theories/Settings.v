(* C17 / C18: the connection settings builder (LdapConnSettings, src/conn.rs). The table of its setters (L3G.SettingsTable) is regenerated
   from the source by tools/translate_settings.py before every proof stage: each setter assigns exactly one field, its own, from its
   parameter - so the order in which an application chains them cannot matter, and no setter undoes what an earlier one chose
   (StartTLS requested before a connection timeout is set stays requested). *)
From Coq Require Import List String Bool.
From L3G Require Import SettingsTable.
Import ListNotations.
Open Scope string_scope.

Definition expected_settings : list (string * string * string) :=
  [("set_conn_timeout", "conn_timeout", "some"); ("set_connector", "connector", "some"); ("set_config", "config", "some");
   ("set_starttls", "starttls", "plain"); ("set_no_tls_verify", "no_tls_verify", "plain"); ("set_std_stream", "std_stream", "some")].
Fixpoint nodups (l : list string) : bool := match l with [] => true | x :: r => negb (existsb (String.eqb x) r) && nodups r end.

(* what the source says now: every setter is a plain single-field assignment of its own field; no two setters share a field *)
Theorem c17_settings_table : settings_table = expected_settings /\ nodups (map (fun r => snd (fst r)) settings_table) = true.
Proof. split; vm_compute; reflexivity. Qed.

(* semantics over an abstract settings record: a field-indexed store; a setter writes its field and nothing else *)
Section Builder.
Variable val : Type.
Definition store := string -> option val.
Definition field_of (m : string) : option string :=
  match find (fun r : string * string * string => String.eqb (fst (fst r)) m) settings_table with Some r => Some (snd (fst r)) | None => None end.
Definition setter (m : string) (v : val) (s : store) : store :=
  match field_of m with Some f => fun g => if String.eqb g f then Some v else s g | None => s end.
Lemma field_of_inj m1 m2 f : field_of m1 = Some f -> field_of m2 = Some f -> m1 = m2.
Proof.
  unfold field_of. rewrite (proj1 c17_settings_table). unfold expected_settings. cbn [find fst snd].
  repeat match goal with |- context [String.eqb ?a ?b] => destruct (String.eqb_spec a b); subst end; cbn; intros H1 H2; try discriminate; try congruence;
    injection H1 as <-; discriminate H2.
Qed.
(* a setter leaves every other field as it was *)
Theorem c17_setter_touches_one_field m v s f g : field_of m = Some f -> g <> f -> setter m v s g = s g.
Proof. intros E Hne. unfold setter. rewrite E. destruct (String.eqb_spec g f); [contradiction|reflexivity]. Qed.
(* ... and sets its own *)
Theorem c17_setter_sets_its_field m v s f : field_of m = Some f -> setter m v s f = Some v.
Proof. intros E. unfold setter. rewrite E. now rewrite String.eqb_refl. Qed.
(* two different setters commute: the order of the builder calls is irrelevant *)
Theorem c17_setters_commute m1 m2 v1 v2 s g : m1 <> m2 -> setter m1 v1 (setter m2 v2 s) g = setter m2 v2 (setter m1 v1 s) g.
Proof.
  intros Hne. unfold setter. destruct (field_of m1) as [f1|] eqn:E1, (field_of m2) as [f2|] eqn:E2; try reflexivity.
  destruct (String.eqb_spec g f1), (String.eqb_spec g f2); try reflexivity. subst. exfalso. apply Hne. eapply field_of_inj; eassumption.
Qed.
End Builder.
(* e.g.: StartTLS requested, then a connection timeout set: StartTLS is still requested *)
Example c17_starttls_survives_timeout : forall (val : Type) (t b : val) (s : store val),
  setter val "set_conn_timeout" t (setter val "set_starttls" b s) "starttls" = Some b.
Proof. intros. rewrite (c17_setter_touches_one_field val "set_conn_timeout" t _ "conn_timeout" "starttls"); [|vm_compute; reflexivity|discriminate].
  apply c17_setter_sets_its_field. vm_compute. reflexivity. Qed.
Print Assumptions c17_setters_commute.
