(* Calibration sketch (round 0): C12 on the Conn model — timeouts fire on time, keep the connection usable, orphan the late reply. *)
From RecordUpdate Require Import RecordUpdate.
From Coq Require Import List ZArith Lia Bool Arith.
From L3 Require Import Msgid Conn ConnProofs.
Import ListNotations.
Open Scope Z_scope.

Lemma getop_updop_same s o f c : getop s o = Some c -> getop (updop o f s) o = Some (f c).
Proof. unfold getop, updop. cbn. intros H. rewrite nth_upd, Nat.eqb_refl, H. reflexivity. Qed.

(* an operation given a timeout: nothing delivered yet *)
Section OneOp.
Variables (s : st) (o : nat) (c : cop) (d : Z).
Hypothesis Hc : getop s o = Some c.
Hypothesis Hw : o_status c = CWait.
Hypothesis Hd : o_deadline c = Some d.

(* before the deadline the caller keeps waiting (the poll changes nothing) *)
Theorem c12_pending_before_deadline : o_reply c = OsEmpty -> now s < d -> step s (CliPoll o) = s.
Proof. intros He Hlt. unfold step. rewrite Hc. unfold waiting. rewrite Hw. cbn [negb]. rewrite He, Hd.
  destruct (Z.leb_spec d (now s)); [lia|reflexivity]. Qed.

(* at the deadline: Timeout to the caller, an id scrub to the driver *)
Theorem c12_fires_at_deadline : o_reply c = OsEmpty -> d <= now s -> is_running s = true ->
  let s' := step s (CliPoll o) in
  (exists c', getop s' o = Some c' /\ (o_status c' = CErr ETimeout \/ exists e, o_status c' = SStartErr e)) /\
  scrubq s' = scrubq s ++ [o_mid c] /\ drv s' = drv s.
Proof. intros He Hle Hr. unfold step. rewrite Hc. unfold waiting. rewrite Hw. cbn [negb]. rewrite He, Hd.
  destruct (Z.leb_spec d (now s)); [|lia]. rewrite Hr. split; [|split; reflexivity].
  eexists. split; [apply getop_updop_same; exact Hc|]. cbn. destruct (o_kind c); [left| right; eexists |left|left]; reflexivity. Qed.

(* a response that has arrived wins, whatever the clock says *)
Theorem c12_response_wins p : o_reply c = OsFilled p ->
  exists c', getop (step s (CliPoll o)) o = Some c' /\ (o_status c' = COk p \/ o_status c' = SActive).
Proof. intros Hf. unfold step. rewrite Hc. unfold waiting. rewrite Hw. cbn [negb]. rewrite Hf.
  eexists. split; [apply getop_updop_same; exact Hc|]. cbn. destruct (o_kind c); auto. Qed.
End OneOp.

Lemma drv_drop_entry m k f x : drv (drop_entry m k f x) = drv x.
Proof. unfold drop_entry. now destruct (alookup k m). Qed.
Lemma inuse_drop_entry m k f x : inuse (drop_entry m k f x) = inuse x.
Proof. unfold drop_entry. now destruct (alookup k m). Qed.
(* no client-side event ever stops the driver *)
Theorem c12_driver_survives s e : (match e with DrvEnd _ | DrvOp | DrvResp => False | _ => True end) -> drv (step s e) = drv s.
Proof. destruct e; try contradiction; intros _; unfold step, alloc, enqueue;
  repeat match goal with |- context [match ?x with _ => _ end] => destruct x end;
  cbn [drv set]; rewrite ?drv_drop_entry; cbn [drv set]; rewrite ?drv_drop_entry; reflexivity. Qed.

(* after the scrub has been processed: no routing entry, id free; the late reply is then a no-op for everybody *)
Lemma alookup_aremove k m : alookup k (aremove k m) = None.
Proof. unfold alookup, aremove. induction m as [|[k' v] m IH]; cbn; [reflexivity|].
  destruct (Z.eqb_spec k' k); cbn; [exact IH|]. destruct (Z.eqb_spec k' k); [congruence|exact IH]. Qed.
Lemma not_In_rem k l : ~ In k (rem k l).
Proof. unfold rem. rewrite filter_In. intros [_ H]. now rewrite Z.eqb_refl in H. Qed.

Theorem c12_after_scrub s id q : is_running s = true -> scrubq s = id :: q ->
  let s' := step s DrvScrub in
  alookup id (rmap s') = None /\ alookup id (smap s') = None /\ ~ In id (inuse s') /\ drv s' = drv s.
Proof. intros Hr Hq. unfold step. rewrite Hr, Hq. cbn [negb]. msimp. cbn [inuse drv set].
  rewrite ?drv_drop_entry, ?inuse_drop_entry. cbn [inuse drv set]. rewrite ?drv_drop_entry, ?inuse_drop_entry.
  repeat split; try apply alookup_aremove; try apply not_In_rem. Qed.

Theorem c12_late_reply_dropped s r w : is_running s = true -> win s = r :: w ->
  alookup (r_mid r) (rmap s) = None -> alookup (r_mid r) (smap s) = None ->
  ops (step s DrvResp) = ops s /\ rmap (step s DrvResp) = rmap s /\ smap (step s DrvResp) = smap s /\ inuse (step s DrvResp) = inuse s.
Proof. intros Hr Hw Hm Hs. rewrite (c01_unmatched_noop s r w Hr Hw Hs Hm). repeat split. Qed.
Print Assumptions c12_fires_at_deadline.
Print Assumptions c12_after_scrub.

(* ---------- search streams: the timeout applies to every next() call separately ("the timer restarts with every received item") ---------- *)
Section StreamTimer.
Variables (s : st) (o : nat) (c : cop) (d : Z).
Hypothesis Hc : getop s o = Some c.
Hypothesis Hst : o_status c = SActive.
Hypothesis Hrx : o_rx c = true.
Hypothesis Htmo : o_tmo c = Some d.

(* an item that has arrived is handed over whatever the clock says, and ends the call: no call is in progress afterwards *)
(* (an entry on any stream; a reference or an intermediate message on a stream that is not behind EntriesOnly) *)
Theorem c12_stream_item_wins r : nth_error (o_items c) (o_taken c) = Some r -> r_kind r <> RDone -> (r_kind r = REntry \/ o_kind c <> KSearch true) ->
  exists c', getop (step s (StreamNext o)) o = Some c' /\ o_got c' = o_got c ++ [r] /\ o_call c' = None /\ o_status c' = SActive.
Proof.
  intros Hn Hk Hv. unfold step. rewrite Hc, Hst, Hrx. cbn [negb]. rewrite Hn.
  destruct (r_kind r); try contradiction; try (destruct (o_kind c) as [|[|]| |]; try (destruct Hv as [Hv|Hv]; [discriminate Hv|now elim Hv]));
    (eexists; split; [apply getop_updop_same; exact Hc|]); cbn; rewrite Hst; repeat split.
Qed.
(* behind EntriesOnly a reference or an intermediate message is taken by the adapter, which calls next() again: nothing is handed over, the
   call goes on, and its timer starts afresh now ("the timer restarts with every received item", also for the items the caller never sees) *)
Theorem c12_stream_skipped_item_restarts_timer r : nth_error (o_items c) (o_taken c) = Some r -> (r_kind r = RRef \/ r_kind r = RInter) -> o_kind c = KSearch true ->
  exists c', getop (step s (StreamNext o)) o = Some c' /\ o_got c' = o_got c /\ o_taken c' = S (o_taken c) /\ o_call c' = Some (now s) /\ o_status c' = SActive.
Proof.
  intros Hn Hk Ha. unfold step. rewrite Hc, Hst, Hrx. cbn [negb]. rewrite Hn.
  destruct Hk as [Hk|Hk]; rewrite Hk, Ha; (eexists; split; [apply getop_updop_same; exact Hc|]); cbn; rewrite Hst; repeat split.
Qed.

Hypothesis Hnone : nth_error (o_items c) (o_taken c) = None.
Hypothesis Hch : o_chan c = true.

(* a call that starts now (none in progress) records its start; it can only time out at once if the timeout is not positive *)
Theorem c12_stream_call_starts : o_call c = None -> 0 < d ->
  exists c', getop (step s (StreamNext o)) o = Some c' /\ o_call c' = Some (now s) /\ o_status c' = SActive /\ scrubq (step s (StreamNext o)) = scrubq s.
Proof.
  intros Hcall Hd. unfold step. rewrite Hc, Hst, Hrx. cbn [negb]. rewrite Hnone, Hch, Htmo, Hcall. cbn [negb].
  destruct (Z.leb_spec (now s + d) (now s)); [lia|]. eexists. split; [apply getop_updop_same; exact Hc|]. cbn. rewrite Hst. repeat split.
Qed.
(* a call in progress since t0 stays pending strictly before t0 + d ... *)
Theorem c12_stream_pending t0 : o_call c = Some t0 -> now s < t0 + d ->
  exists c', getop (step s (StreamNext o)) o = Some c' /\ o_call c' = Some t0 /\ o_status c' = SActive /\ scrubq (step s (StreamNext o)) = scrubq s.
Proof.
  intros Hcall Hlt. unfold step. rewrite Hc, Hst, Hrx. cbn [negb]. rewrite Hnone, Hch, Htmo, Hcall. cbn [negb].
  destruct (Z.leb_spec (t0 + d) (now s)); [lia|]. eexists. split; [apply getop_updop_same; exact Hc|]. cbn. rewrite Hst. repeat split.
Qed.
(* ... and fails with a timeout, asking the driver to scrub the id, from t0 + d on: the deadline is counted from the start of this call,
   not from the start of the search *)
Theorem c12_stream_fires t0 : o_call c = Some t0 -> t0 + d <= now s -> is_running s = true -> fix25 (fx s) = true ->
  exists c', getop (step s (StreamNext o)) o = Some c' /\ o_status c' = SError /\ o_call c' = None /\
             scrubq (step s (StreamNext o)) = scrubq s ++ [o_mid c].
Proof.
  intros Hcall Hle Hr H25. unfold step, scrub_id. rewrite H25. rewrite Hc, Hst, Hrx. cbn [negb]. rewrite Hnone, Hch, Htmo, Hcall. cbn [negb].
  destruct (Z.leb_spec (t0 + d) (now s)); [|lia]. rewrite Hr. eexists. split; [apply getop_updop_same; exact Hc|]. cbn. repeat split.
Qed.
End StreamTimer.

(* the probe of round 0 on the real code, replayed on the model: a 5 s timeout, an entry arriving at t = 3 s, then silence;
   the first next() returns the entry at 3 s, the second one is still pending at 7 s (the search started 7 s ago) and fails at 8 s *)
Example c12_stream_timer_probe :
  let e := mkResp 1 REntry 11 in
  let upto7 := [Start (KSearch false) (Some 5); DrvOp; CliPoll 0; Advance 3; ServerSend e; DrvResp; StreamNext 0; StreamNext 0; Advance 4; StreamNext 0] in
  let s7 := run as_is upto7 in let s8 := run as_is (upto7 ++ [Advance 1; StreamNext 0]) in
  option_map o_got (getop s7 0%nat) = Some [e] /\ option_map o_status (getop s7 0%nat) = Some SActive /\ now s7 = 7 /\ scrubq s7 = [] /\
  option_map o_status (getop s8 0%nat) = Some SError /\ now s8 = 8 /\ scrubq s8 = [1] /\ option_map o_rx (getop s8 0%nat) = Some true.
Proof. vm_compute. repeat split. Qed.
