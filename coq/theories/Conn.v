(* Calibration sketch (round 0): the connection state machine — driver loop (src/conn.rs turn()),
   op_call (src/ldap.rs), stream receive/finish (src/search.rs) — as an executable event system.
   Repairs of DESIGN.md Appendix B are switchable so that the code as it is can be refuted and the
   repaired code proved, on the same definitions. *)
From RecordUpdate Require Import RecordUpdate.
From Coq Require Import List ZArith Lia Bool Arith.
From L3 Require Import Msgid.
Import ListNotations.
Open Scope Z_scope.

Inductive kind := KSingle | KSearch (adapted : bool) | KAbandon (target : Z) | KUnbind.
Inductive rkind := REntry | RRef | RInter | RDone | ROther.
Record resp := mkResp { r_mid : Z; r_kind : rkind; r_tok : nat }.

Inductive oneshot := OsEmpty | OsFilled (p : option resp) (* None = the Null acknowledgement *) | OsClosed.
Inductive cerr := EResultRecv | ETimeout | EOpSend | EEndOfStream.
Inductive cstatus :=
| CWait                         (* op_call awaiting its one-shot *)
| COk (p : option resp) | CErr (e : cerr)
| SActive | SDone | SClosed | SError | SPanicked
| SStartErr (e : cerr)            (* streaming_search returned Err: the caller never holds a stream *)
| CAlloc.                         (* op_call has taken its message id (next_msgid, under the shared mutex) but has not yet sent the request to
                                     the driver's queue: with handles on several threads other operations can be allocated AND queued in between *)

Record cop := mkOp {
  o_mid : Z; o_kind : kind; o_deadline : option Z; o_status : cstatus; o_reply : oneshot;
  o_items : list resp;   (* everything ever pushed into the stream's channel *)
  o_taken : nat;         (* how many the stream has consumed *)
  o_chan : bool;         (* a sender of the item channel is still alive *)
  o_rx : bool;           (* the stream still holds its receiver *)
  o_got : list resp;     (* items handed to the caller *)
  o_res : option resp;   (* stored SearchResultDone *)
  o_tmo : option Z;      (* the handle's timeout as a duration: a search stream applies it to every next() call separately *)
  o_call : option Z }.   (* start time of the next() call now in progress, if one is pending *)
#[global] Instance eta_cop : Settable _ :=
  settable! mkOp <o_mid; o_kind; o_deadline; o_status; o_reply; o_items; o_taken; o_chan; o_rx; o_got; o_res; o_tmo; o_call>.

Record fixes := mkFx { fix5 : bool; fix7 : bool; fix8 : bool; fix9 : bool; fix15 : bool; fix16 : bool; fix20 : bool; fix25 : bool; fix29 : bool; fix31 : bool }.
Definition as_is := mkFx false false false false false false false false false false.
Definition repaired := mkFx true true true true true true true true true true.

Inductive dstatus := Running | EndedOk | EndedErr | EndedPanic.
Record st := mkSt {
  fx : fixes;
  last : Z; inuse : list Z;
  rmap : list (Z * nat); smap : list (Z * nat);
  opq : list nat; scrubq : list Z; win : list resp; wout : list (Z * kind);
  ops : list cop; drv : dstatus; now : Z;
  sent : list resp; processed : list (resp * option nat);
  sids : list (nat * Z) }.   (* stream -> what its handle's last_id says after an operation was issued through SearchStream::ldap_handle() *)
#[global] Instance eta_st : Settable _ :=
  settable! mkSt <fx; last; inuse; rmap; smap; opq; scrubq; win; wout; ops; drv; now; sent; processed; sids>.

Definition init (f : fixes) : st := mkSt f 0 [] [] [] [] [] [] [] [] Running 0 [] [] [].

(* ---- small map / list helpers ---- *)
Definition rem (x : Z) (l : list Z) : list Z := filter (fun y => negb (Z.eqb x y)) l.
Definition alookup (k : Z) (m : list (Z * nat)) : option nat :=
  match find (fun p => Z.eqb (fst p) k) m with Some p => Some (snd p) | None => None end.
Definition aremove (k : Z) (m : list (Z * nat)) : list (Z * nat) := filter (fun p => negb (Z.eqb (fst p) k)) m.
Definition ainsert (k : Z) (v : nat) (m : list (Z * nat)) : list (Z * nat) := (k, v) :: aremove k m.
Fixpoint upd {A} (n : nat) (f : A -> A) (l : list A) : list A :=
  match l, n with [], _ => [] | x :: r, O => f x :: r | x :: r, S n' => x :: upd n' f r end.
Definition getop (s : st) (o : nat) : option cop := nth_error (ops s) o.
Definition updop (o : nat) (f : cop -> cop) (s : st) : st := s <| ops ::= upd o f |>.

(* dropping the sender of a one-shot without sending: the receiver sees a closed channel *)
Definition drop_reply (c : cop) : cop := match o_reply c with OsEmpty => c <| o_reply := OsClosed |> | _ => c end.
Definition close_chan (c : cop) : cop := c <| o_chan := false |>.
Definition drop_entry (m : list (Z * nat)) (k : Z) (f : cop -> cop) (s : st) : st :=
  match alookup k m with Some o => updop o f s | None => s end.

Definition end_driver (how : dstatus) (s : st) : st :=
  let s1 := fold_left (fun s p => updop (snd p) drop_reply s) (rmap s) s in
  let s2 := fold_left (fun s p => updop (snd p) close_chan s) (smap s1) s1 in
  let s3 := fold_left (fun s o => updop o (fun c => close_chan (drop_reply c)) s) (opq s2) s2 in
  (* repair F31: when the driver ends nothing is routed any more - the id table is cleared (as found, every id stayed reserved for good) *)
  s3 <| rmap := [] |> <| smap := [] |> <| opq := [] |> <| scrubq := [] |> <| drv := how |> <| inuse ::= fun l => if fix31 (fx s) then [] else l |>.

Definition abandon_hit (s0 : st) (t : Z) : bool :=
  match alookup t (rmap s0), alookup t (smap s0) with None, None => false | _, _ => true end.
Definition is_running (s : st) : bool := match drv s with Running => true | _ => false end.
Definition waiting (c : cop) : bool := match o_status c with CWait => true | _ => false end.

Inductive ev :=
| Start (k : kind) (timeout : option Z)
| DrvOp | DrvScrub | DrvResp
| DrvEnd (how : dstatus)        (* EOF / I-O error / decode error / write error / last handle dropped *)
| ServerSend (r : resp)
| CliPoll (o : nat)
| StreamNext (o : nat) | StreamFinish (o : nat)
| Advance (dt : Z)
| ViaHandle (o : nat)                     (* an operation has just been issued through the handle of stream o (ldap_handle()): that handle's
                                            last_id - which the stream consulted when it asked for a scrub, before repair F25 - is now the id
                                            allocated last *)
| DropCall (o : nat)                      (* the caller gives up a next() that is pending (drops its future: the losing arm of a select!, an outer
                                            timeout): no call is in progress any more; what the call had consumed so far stays consumed *)
| Alloc (k : kind) (timeout : option Z)   (* the first half of Start: id allocation only *)
| Enqueue (o : nat).                       (* the second half: self.tx.send(..) of an allocated operation; the op timer starts here *)

Definition fill_reply (p : option resp) (c : cop) : cop :=   (* a one-shot is sent at most once; sending to a dropped receiver fails and the sender is consumed *)
  match o_reply c with OsEmpty => if waiting c then c <| o_reply := OsFilled p |> else c <| o_reply := OsClosed |> | _ => c end.

Definition is_search_kind (k : kind) : bool := match k with KSearch _ => true | _ => false end.
Definition start_err (k : kind) (e : cerr) : cstatus := match k with KSearch _ => SStartErr e | _ => CErr e end.
Definition alloc (k : kind) (tmo : option Z) (s : st) : st :=
  match next_msgid (last s) (inuse s) with
  | Found mid =>
      (* the one-shot (and a search's item channel) do not exist yet: the record is inert until Enqueue creates and hands them over *)
      s <| last := mid |> <| inuse ::= cons mid |>
        <| ops ::= fun l => l ++ [mkOp mid k None CAlloc OsClosed [] 0 false false [] None tmo None] |>
  | _ => s end.
Definition enqueue (o : nat) (s : st) : st :=
  match getop s o with None => s | Some c =>
    match o_status c with
    | CAlloc =>
        if is_running s
        then updop o (fun c => c <| o_status := CWait |> <| o_deadline := option_map (Z.add (now s)) (o_tmo c) |> <| o_reply := OsEmpty |>
                                 <| o_chan := is_search_kind (o_kind c) |> <| o_rx := is_search_kind (o_kind c) |>) s <| opq ::= fun q => q ++ [o] |>
        else updop o (fun c => c <| o_status := start_err (o_kind c) EOpSend |> <| o_deadline := option_map (Z.add (now s)) (o_tmo c) |>) s
               <| inuse ::= fun l => if fix31 (fx s) then rem (o_mid c) l else l |>
    | _ => s end end.

(* the id a stream names when it asks the driver to scrub: its own (repair F25: it remembers it), or whatever its handle says *)
Definition scrub_id (s : st) (o : nat) (c : cop) : Z :=
  if fix25 (fx s) then o_mid c else match find (fun p => Nat.eqb (fst p) o) (sids s) with Some p => snd p | None => o_mid c end.

Definition step (s : st) (e : ev) : st :=
  match e with
  | ViaHandle o => s <| sids ::= cons (o, last s) |>
  | DropCall o => match getop s o with Some c => match o_status c with SActive => updop o (fun c => c <| o_call := None |>) s | _ => s end | None => s end
  | Alloc k tmo => alloc k tmo s
  | Enqueue o => enqueue o s
  | Start k tmo =>
    match next_msgid (last s) (inuse s) with
    | Found mid =>
      let o := mkOp mid k (option_map (Z.add (now s)) tmo) CWait OsEmpty [] 0
                    (match k with KSearch _ => true | _ => false end) (match k with KSearch _ => true | _ => false end) [] None tmo None in
      let s1 := s <| last := mid |> <| inuse ::= cons mid |> in
      if is_running s then s1 <| ops ::= fun l => l ++ [o] |> <| opq ::= fun q => q ++ [length (ops s)] |>
      else (* the send to the driver fails: repair F31 gives the id just taken back *)
           s1 <| ops ::= fun l => l ++ [o <| o_status := match k with KSearch _ => SStartErr EOpSend | _ => CErr EOpSend end |> <| o_reply := OsClosed |> <| o_rx := false |> <| o_chan := false |>] |>
              <| inuse ::= fun l => if fix31 (fx s) then rem mid l else l |>
    | _ => s end
  | DrvOp =>
    if negb (is_running s) then s else
    match opq s with [] => s | o :: q =>
    match getop s o with None => s <| opq := q |> | Some c =>
      let mid := o_mid c in
      let s0 := s <| opq := q |> <| wout ::= fun w => w ++ [(mid, o_kind c)] |> in
      match o_kind c with
      | KSingle =>
          if fix16 (fx s) && negb (waiting c) then updop o drop_reply s0 <| inuse ::= fun l => if fix31 (fx s) then rem mid l else l |>
          else drop_entry (rmap s0) mid drop_reply s0 <| rmap ::= ainsert mid o |>
      | KSearch _ =>
          let s1 := drop_entry (smap s0) mid close_chan s0 <| smap ::= ainsert mid o |> in
          let s2 := updop o (fill_reply None) s1 in
          if fix16 (fx s) && negb (waiting c) then updop o close_chan s2 <| smap ::= aremove mid |> <| inuse ::= fun l => if fix31 (fx s) then rem mid l else l |> else s2
      | KAbandon t =>
          let s1 := drop_entry (rmap s0) t drop_reply s0 <| rmap ::= aremove t |> in
          let s2 := drop_entry (smap s1) t close_chan s1 <| smap ::= aremove t |> in
          let s3 := s2 <| inuse ::= rem mid |> in
          (* repair F9: the target's id is released only when a routing entry for it was actually removed *)
          let s4 := if fix9 (fx s) && abandon_hit s0 t then s3 <| inuse ::= rem t |> else s3 in
          updop o (fill_reply None) s4
      | KUnbind =>
          let s1 := updop o (fill_reply None) s0 in
          if fix15 (fx s) then end_driver EndedOk s1 else s1
      end end end
  | DrvScrub =>
    if negb (is_running s) then s else
    match scrubq s with [] => s | id :: q =>
      let s1 := drop_entry (rmap s) id drop_reply s <| rmap ::= aremove id |> in
      let s2 := drop_entry (smap s1) id close_chan s1 <| smap ::= aremove id |> in
      s2 <| inuse ::= rem id |> <| scrubq := q |> end
  | DrvResp =>
    if negb (is_running s) then s else
    match win s with [] => s | r :: w =>
      let s0 := s <| win := w |> in
      match alookup (r_mid r) (smap s) with
      | Some o =>
        match r_kind r with
        | ROther =>
            let s1 := s0 <| processed ::= fun l => l ++ [(r, None)] |> in
            if fix5 (fx s) then s1                                  (* repair F5: log and drop *)
            else end_driver EndedPanic s1                           (* panic!("unrecognized op id") *)
        | _ =>
          let alive := match getop s o with Some c => o_rx c | None => false end in
          let s1 := if alive then updop o (fun c => c <| o_items ::= fun l => l ++ [r] |>) s0 else s0 in
          let s1 := s1 <| processed ::= fun l => l ++ [(r, if alive then Some o else None)] |> in
          let remove := match r_kind r with RDone => true | _ => negb alive end in
          if remove then
            let s2 := updop o close_chan s1 <| smap ::= aremove (r_mid r) |> in
            if fix8 (fx s) then s2 <| inuse ::= rem (r_mid r) |> else s2
          else s1
        end
      | None =>
        match alookup (r_mid r) (rmap s) with
        | Some o =>
          (* repair F29: an IntermediateResponse is not the result of a single-result operation: it is dropped and the operation keeps
             waiting (as found, it was handed over as "the" result - unparsable for the caller - and the real result then matched nobody) *)
          if fix29 (fx s) && (match r_kind r with RInter => true | _ => false end) then s0 <| processed ::= fun l => l ++ [(r, None)] |> else
          let alive := match getop s o with Some c => waiting c | None => false end in
          updop o (fill_reply (Some r)) s0 <| rmap ::= aremove (r_mid r) |> <| inuse ::= rem (r_mid r) |>
                <| processed ::= fun l => l ++ [(r, if alive then Some o else None)] |>
        | None => s0 <| processed ::= fun l => l ++ [(r, None)] |>        (* warn!("unmatched id") *)
        end
      end end
  | DrvEnd how => if is_running s then end_driver how s else s
  | ServerSend r => s <| win ::= fun w => w ++ [r] |> <| sent ::= fun l => l ++ [r] |>
  | CliPoll o =>
    match getop s o with None => s | Some c =>
      if negb (waiting c) then s else
      match o_reply c with
      | OsFilled p =>
          updop o (fun c => c <| o_status := match o_kind c with KSearch _ => SActive | _ => COk p end |>) s
      | OsClosed => updop o (fun c => c <| o_status := match o_kind c with KSearch _ => SStartErr EResultRecv | _ => CErr EResultRecv end |> <| o_rx := false |>) s
      | OsEmpty =>
          match o_deadline c with
          | Some d => if d <=? now s then
                        let s1 := updop o (fun c => c <| o_status := match o_kind c with KSearch _ => SStartErr ETimeout | _ => CErr ETimeout end |> <| o_rx := false |>) s in
                        if is_running s then s1 <| scrubq ::= fun q => q ++ [o_mid c] |> else s1
                      else s
          | None => s end
      end end
  | StreamNext o =>
    match getop s o with None => s | Some c =>
      match o_status c with
      | SActive =>
        if negb (o_rx c) then updop o (fun c => c <| o_status := SPanicked |>) s     (* rx.as_mut().unwrap() on None *)
        else
        let t0 := match o_call c with Some t => t | None => now s end in      (* a pending call keeps its start time; otherwise a new call starts now *)
        match nth_error (o_items c) (o_taken c) with
        | Some r =>
            match r_kind r with
            | RDone => updop o (fun c => c <| o_taken ::= S |> <| o_res := Some r |> <| o_rx := false |> <| o_call := None |>
                                            <| o_status := match o_kind c with KSearch ad => if ad || fix7 (fx s) then SDone else SActive | _ => SActive end |>) s
            | REntry => updop o (fun c => c <| o_taken ::= S |> <| o_got ::= fun l => l ++ [r] |> <| o_call := None |>) s
            | _ =>
                (* a reference or an intermediate message: a direct stream hands it over; behind EntriesOnly the adapter's loop takes it
                   (collecting reference URIs) and calls next() again - a new call of the inner stream, whose item timer starts now *)
                match o_kind c with
                | KSearch true => updop o (fun c => c <| o_taken ::= S |> <| o_call := Some (now s) |>) s
                | _ => updop o (fun c => c <| o_taken ::= S |> <| o_got ::= fun l => l ++ [r] |> <| o_call := None |>) s end
            end
        | None =>
            if negb (o_chan c) then updop o (fun c => c <| o_status := SError |> <| o_rx := false |> <| o_call := None |>) s   (* EndOfStream *)
            else match o_tmo c with
                 | Some d => if t0 + d <=? now s then
                               (* Err(Timeout): next() sets the state to Error; the receiver is kept until finish() or drop *)
                               let s1 := updop o (fun c => c <| o_status := SError |> <| o_call := None |>) s in
                               if is_running s then s1 <| scrubq ::= fun q => q ++ [scrub_id s o c] |> else s1
                             else updop o (fun c => c <| o_call := Some t0 |>) s
                 | None => updop o (fun c => c <| o_call := Some t0 |>) s end
        end
      | _ => s end end
  | StreamFinish o =>
    match getop s o with None => s | Some c =>
      match o_status c with
      | SActive | SError | SDone =>
          let s1 := updop o (fun c => c <| o_status := SClosed |> <| o_rx := false |>) s in
          (* finish_inner asks for the id to be scrubbed unless the stream is Done; repair F20: only while it is still Active - in the
             Error state that has been done already (timeout) or the id is gone (closed channel) *)
          match o_status c with
          | SDone => s1
          | SError => if fix20 (fx s) then s1 else if is_running s then s1 <| scrubq ::= fun q => q ++ [scrub_id s o c] |> else s1
          | _ => if is_running s then s1 <| scrubq ::= fun q => q ++ [scrub_id s o c] |> else s1 end
      | _ => s end end
  | Advance dt => s <| now ::= Z.add (Z.max 0 dt) |>
  end.

Definition run (f : fixes) (evs : list ev) : st := fold_left step evs (init f).

(* Start is exactly Alloc followed at once by Enqueue of the operation just allocated (one thread, no preemption in between) *)
Lemma upd_last {A} (f : A -> A) (l : list A) (x : A) : upd (length l) f (l ++ [x]) = l ++ [f x].
Proof. induction l as [|a l IH]; cbn; [reflexivity|now rewrite IH]. Qed.
Lemma nth_error_last {A} (l : list A) (x : A) : nth_error (l ++ [x]) (length l) = Some x.
Proof. induction l as [|a l IH]; cbn; [reflexivity|exact IH]. Qed.
Lemma st_eq (a b : st) : fx a = fx b -> last a = last b -> inuse a = inuse b -> rmap a = rmap b -> smap a = smap b -> opq a = opq b ->
  scrubq a = scrubq b -> win a = win b -> wout a = wout b -> ops a = ops b -> drv a = drv b -> now a = now b -> sent a = sent b ->
  processed a = processed b -> sids a = sids b -> a = b.
Proof. destruct a, b. cbn [fx last inuse rmap smap opq scrubq win wout ops drv now sent processed sids]. intros. subst. reflexivity. Qed.
Lemma start_split s k tmo : step s (Start k tmo) = step (step s (Alloc k tmo)) (Enqueue (length (ops s))).
Proof.
  cbn [step]. unfold alloc. destruct (next_msgid (last s) (inuse s)) as [mid| |].
  - unfold enqueue, getop. cbn [ops set]. rewrite nth_error_last. cbn [o_status]. unfold is_running. cbn [drv set].
    destruct (drv s); apply st_eq; try reflexivity; unfold updop; cbn [ops set]; rewrite upd_last; destruct k; reflexivity.
  - unfold enqueue, getop. now rewrite (proj2 (nth_error_None (ops s) (length (ops s))) (le_n _)).
  - unfold enqueue, getop. now rewrite (proj2 (nth_error_None (ops s) (length (ops s))) (le_n _)).
Qed.

(* ---- C13 as an executable predicate ---- *)
Definition op_finished (c : cop) : bool :=
  match o_status c with COk _ | CErr _ | SClosed | SPanicked | SStartErr _ => true
  | _ => false end.   (* an Active, Done or Error stream still owes finish() *)
Definition quiescent (s : st) : bool :=
  is_running s && forallb op_finished (ops s) && match opq s, scrubq s, win s with [], [], [] => true | _, _, _ => false end.
Definition clean (s : st) : bool := match inuse s, rmap s, smap s with [], [], [] => true | _, _, _ => false end.
Definition c13 (s : st) : bool := implb (quiescent s) (clean s).

Definition done1 := mkResp 1 RDone 7.
(* F8: a search read to the end and finished leaves its id reserved (adapted stream: finish() sends no scrub) *)
Lemma c13_refuted_F8 : c13 (run as_is [Start (KSearch true) None; DrvOp; CliPoll 0; ServerSend done1; DrvResp; StreamNext 0; StreamFinish 0]) = false.
Proof. vm_compute. reflexivity. Qed.
(* F9: abandoning an in-flight operation releases the wrong id *)
Lemma c13_refuted_F9 : c13 (run as_is [Start KSingle None; DrvOp; Start (KAbandon 1) None; DrvOp; CliPoll 1; CliPoll 0]) = false.
Proof. vm_compute. reflexivity. Qed.
(* F16: the scrub overtakes its own request *)
Lemma c13_refuted_F16 : c13 (run as_is [Start KSingle (Some 0); CliPoll 0; DrvScrub; DrvOp]) = false.
Proof. vm_compute. reflexivity. Qed.
(* the same three histories on the repaired model *)
Lemma c13_repaired_samples :
  c13 (run repaired [Start (KSearch true) None; DrvOp; CliPoll 0; ServerSend done1; DrvResp; StreamNext 0; StreamFinish 0]) = true /\
  c13 (run repaired [Start KSingle None; DrvOp; Start (KAbandon 1) None; DrvOp; CliPoll 1; CliPoll 0]) = true /\
  c13 (run repaired [Start KSingle (Some 0); CliPoll 0; DrvScrub; DrvOp]) = true.
Proof. vm_compute. repeat split. Qed.

(* F22 (known finding, the wrap-around regime): the driver releases a search's id when it routes the SearchResultDone (repair F8); a caller
   that has not read that far and calls finish() sends a scrub for that id all the same; if the id has been re-issued in between - the counter
   has come round: modelled by stepping [last] back - the stale scrub takes the reply sender of the operation that owns the id now *)
(* F25: an operation issued through a stream's own handle; the stream, finished early, then has the driver scrub that operation's id and
   keeps its own - with every other repair in *)
Definition all_but_25 := mkFx true true true true true true true false true true.
Definition h25 := [Start (KSearch false) None; DrvOp; CliPoll 0; Start KSingle None; ViaHandle 0; DrvOp; ServerSend (mkResp 2 ROther 5); DrvResp; CliPoll 1; StreamFinish 0; DrvScrub].
Lemma c13_refuted_F25 : c13 (run all_but_25 h25) = false /\ inuse (run all_but_25 h25) = [1] /\ map fst (smap (run all_but_25 h25)) = [1].
Proof. vm_compute. repeat split. Qed.
Lemma c13_repaired_F25 : c13 (run repaired h25) = true /\ inuse (run repaired h25) = [] /\ smap (run repaired h25) = [].
Proof. vm_compute. repeat split. Qed.

(* F29: an intermediate response, then the real result, for a single-result operation *)
Definition all_but_29 := mkFx true true true true true true true true false true.
Definition h29 := [Start KSingle None; DrvOp; ServerSend (mkResp 1 RInter 4); ServerSend (mkResp 1 ROther 5); DrvResp; DrvResp; CliPoll 0].
Lemma c01_refuted_F29 : option_map o_status (getop (run all_but_29 h29) 0%nat) = Some (COk (Some (mkResp 1 RInter 4))) /\ map snd (processed (run all_but_29 h29)) = [Some 0%nat; None].
Proof. vm_compute. split; reflexivity. Qed.
Lemma c01_repaired_F29 : option_map o_status (getop (run repaired h29) 0%nat) = Some (COk (Some (mkResp 1 ROther 5))) /\ map snd (processed (run repaired h29)) = [None; Some 0%nat].
Proof. vm_compute. split; reflexivity. Qed.

Lemma c12_refuted_F22 :
  let s0 := run repaired [Start (KSearch false) None; DrvOp; CliPoll 0; ServerSend (mkResp 1 RDone 1); DrvResp] in
  let s1 := s0 <| last := 0 |> in
  let s2 := fold_left step [Start KSingle None; DrvOp; StreamFinish 0; DrvScrub; CliPoll 1] s1 in
  inuse s0 = [] /\ match getop s2 1 with Some c => o_mid c = 1 /\ o_status c = CErr EResultRecv | None => False end.
Proof. vm_compute. repeat split. Qed.

(* ---- bounded exploration inside the kernel: every schedule over a small alphabet, to a fixed depth ---- *)
Definition alphabet : list ev :=
  [Start KSingle None; Start KSingle (Some 0); Start (KSearch true) None; Start (KSearch false) (Some 0); Start (KAbandon 1) None;
   DrvOp; DrvScrub; DrvResp;
   ServerSend (mkResp 1 REntry 1); ServerSend (mkResp 1 RDone 2); ServerSend (mkResp 2 RDone 3);
   CliPoll 0; CliPoll 1; StreamNext 0; StreamFinish 0; StreamNext 1; StreamFinish 1].
Fixpoint explore (P : st -> bool) (d : nat) (s : st) : bool :=
  P s && match d with O => true | S d' => forallb (fun e => explore P d' (step s e)) alphabet end.
(* counted, so that the evidence can say how many states were visited *)
Fixpoint count (d : nat) : nat := match d with O => 1 | S d' => 1 + length alphabet * count d' end.

(* a test, not a proof: all 17^5 schedules of length <= 5 on the repaired model *)
Lemma c13_repaired_bounded_5 : explore c13 5 (init repaired) = true.
Proof. vm_compute. reflexivity. Qed.
