(* Calibration sketch (round 0): the linear-ownership invariant behind C13 on the repaired model, first as an executable predicate. *)
From RecordUpdate Require Import RecordUpdate.
From Coq Require Import List ZArith Lia Bool Arith.
From L3 Require Import Msgid Conn.
Import ListNotations.
Open Scope Z_scope.

Definition inb (o : nat) (l : list nat) : bool := existsb (Nat.eqb o) l.
Definition inm (k : Z) (o : nat) (m : list (Z * nat)) : bool := existsb (fun p => Z.eqb (fst p) k && Nat.eqb (snd p) o) m.
Definition anym (o : nat) (m : list (Z * nat)) : bool := existsb (fun p => Nat.eqb (snd p) o) m.
Definition memz (k : Z) (l : list Z) : bool := existsb (Z.eqb k) l.
Fixpoint nodupb (l : list nat) : bool := match l with [] => true | x :: r => negb (inb x r) && nodupb r end.
Definition is_empty_reply (c : cop) : bool := match o_reply c with OsEmpty => true | _ => false end.
Definition has_done (c : cop) : bool := existsb (fun r => match r_kind r with RDone => true | _ => false end) (o_items c).
Definition queued_status (c : cop) : bool :=
  match o_status c with CWait | CErr ETimeout | SStartErr ETimeout => true | _ => false end.
Definition is_active (c : cop) : bool := match o_status c with SActive => true | _ => false end.

Fixpoint forall_ops (P : nat -> cop -> bool) (i : nat) (l : list cop) : bool :=
  match l with [] => true | c :: r => P i c && forall_ops P (S i) r end.
Fixpoint exists_ops (P : nat -> cop -> bool) (i : nat) (l : list cop) : bool :=
  match l with [] => false | c :: r => P i c || exists_ops P (S i) r end.

Definition op_ok (s : st) (o : nat) (c : cop) : bool :=
  let inq := inb o (opq s) in
  let inr := inm (o_mid c) o (rmap s) in
  let ins := inm (o_mid c) o (smap s) in
  implb inq (is_empty_reply c && negb (anym o (rmap s)) && negb (anym o (smap s)) && (match o_items c with [] => true | _ => false end) && queued_status c)
  && implb (inq && negb (waiting c)) (memz (o_mid c) (scrubq s) || negb (memz (o_mid c) (inuse s)))
  && implb inr (is_empty_reply c && (waiting c || memz (o_mid c) (scrubq s)))
  && implb ins (negb (op_finished c) || memz (o_mid c) (scrubq s))
  && implb (is_active c) (o_rx c)
  && implb (has_done c) (negb ins && negb inq).
Definition id_ok (s : st) (id : Z) : bool :=
  memz id (scrubq s) ||
  exists_ops (fun o c => Z.eqb (o_mid c) id && (inb o (opq s) || inm id o (rmap s) || inm id o (smap s))) 0 (ops s).
Definition lin (s : st) : bool :=
  if is_running s then
    nodupb (opq s) && forallb (fun o => Nat.ltb o (length (ops s))) (opq s)
    && forall_ops (op_ok s) 0 (ops s) && forallb (id_ok s) (inuse s)
  else true.

(* a test, not a proof: the candidate invariant holds on every schedule of length <= 5 over the 17-event alphabet *)
Lemma lin_bounded_5 : explore lin 5 (init repaired) = true.
Proof. vm_compute. reflexivity. Qed.

(* ---------- what the invariant buys: at quiescence nothing is left ---------- *)
From L3 Require Import ConnProofs.
Lemma forall_ops_nth P : forall l i o c, forall_ops P i l = true -> nth_error l o = Some c -> P (i + o)%nat c = true.
Proof. induction l as [|x l IH]; intros i o c H Hn; [destruct o; discriminate|]. cbn in H. apply andb_true_iff in H as [Hx Hl].
  destruct o as [|o]; cbn in Hn.
  - injection Hn as <-. now rewrite Nat.add_0_r.
  - replace (i + S o)%nat with (S i + o)%nat by lia. now apply IH. Qed.
Lemma exists_ops_false P : forall l i, exists_ops P i l = false -> forall o c, nth_error l o = Some c -> P (i + o)%nat c = false.
Proof. induction l as [|x l IH]; intros i H o c Hn; [destruct o; discriminate|]. cbn in H. apply orb_false_elim in H as [Hx Hl].
  destruct o as [|o]; cbn in Hn.
  - injection Hn as <-. now rewrite Nat.add_0_r.
  - replace (i + S o)%nat with (S i + o)%nat by lia. now apply IH. Qed.
Lemma inm_In k o m : In (k, o) m -> inm k o m = true.
Proof. intros H. unfold inm. apply existsb_exists. exists (k, o). split; [assumption|]. cbn. now rewrite Z.eqb_refl, Nat.eqb_refl. Qed.

Theorem lin_quiescent_clean s : keyed s -> lin s = true -> quiescent s = true -> clean s = true.
Proof.
  intros HK HL HQ. unfold quiescent in HQ. apply andb_true_iff in HQ as [HQ Hqs]. apply andb_true_iff in HQ as [Hr Hfin].
  unfold lin in HL. rewrite Hr in HL. apply andb_true_iff in HL as [HL Hids]. apply andb_true_iff in HL as [_ Hops].
  destruct (opq s) as [|? ?] eqn:Eq; [|discriminate]. destruct (scrubq s) as [|? ?] eqn:Es; [|discriminate].
  (* no routing entry can remain: its operation would still be waiting / unfinished *)
  assert (Hrm : rmap s = []).
  { destruct (rmap s) as [|[k o] m] eqn:Er; [reflexivity|exfalso].
    destruct (HK k o) as (c & Hc & Hm); [left; rewrite Er; now left|].
    pose proof (forall_ops_nth _ _ 0%nat o c Hops Hc) as Hok. cbn [Nat.add] in Hok. unfold op_ok in Hok.
    repeat (apply andb_true_iff in Hok as [Hok ?]).
    assert (Hin : inm (o_mid c) o (rmap s) = true) by (apply inm_In; rewrite Hm, Er; now left).
    match goal with H : implb (inm (o_mid c) o (rmap s)) _ = true |- _ => rewrite Hin in H; cbn in H; apply andb_true_iff in H as [_ Hw] end.
    rewrite Es in Hw. cbn in Hw. rewrite orb_false_r in Hw.
    rewrite forallb_forall in Hfin. specialize (Hfin c (nth_error_In _ _ Hc)). unfold waiting in Hw. unfold op_finished in Hfin.
    destruct (o_status c); discriminate. }
  assert (Hsm : smap s = []).
  { destruct (smap s) as [|[k o] m] eqn:Er; [reflexivity|exfalso].
    destruct (HK k o) as (c & Hc & Hm); [right; rewrite Er; now left|].
    pose proof (forall_ops_nth _ _ 0%nat o c Hops Hc) as Hok. cbn [Nat.add] in Hok. unfold op_ok in Hok.
    repeat (apply andb_true_iff in Hok as [Hok ?]).
    assert (Hin : inm (o_mid c) o (smap s) = true) by (apply inm_In; rewrite Hm, Er; now left).
    match goal with H : implb (inm (o_mid c) o (smap s)) _ = true |- _ => rewrite Hin in H; cbn in H end.
    rewrite forallb_forall in Hfin. specialize (Hfin c (nth_error_In _ _ Hc)).
    match goal with H : negb (op_finished c) || _ = true |- _ => rewrite Hfin, Es in H; cbn in H; discriminate end. }
  (* and then no id can remain reserved: nobody could still owe its release *)
  unfold clean. rewrite Hrm, Hsm. destruct (inuse s) as [|id ids] eqn:Ei; [reflexivity|exfalso].
  cbn in Hids. apply andb_true_iff in Hids as [Hid _]. unfold id_ok in Hid. rewrite Es, Eq, Hrm, Hsm in Hid. cbn [memz existsb orb] in Hid.
  clear -Hid. generalize dependent 0%nat. induction (ops s) as [|c l IH]; intros i H; cbn in H; [discriminate|].
  unfold inb, inm in H. cbn in H. rewrite andb_false_r in H. cbn in H. now apply IH in H.
Qed.
Print Assumptions lin_quiescent_clean.
