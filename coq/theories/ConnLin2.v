(* Calibration sketch (round 0): the ownership invariant of ConnLinear.v as a proposition, and its preservation. C13. *)
From RecordUpdate Require Import RecordUpdate.
From Coq Require Import List ZArith Lia Bool Arith.
From L3 Require Import Msgid Conn ConnProofs ConnTimeouts ConnAccount ConnAlloc.
Import ListNotations.
Open Scope Z_scope.

Definition qstat (c : cop) : Prop := match o_status c with CWait | CErr ETimeout | SStartErr ETimeout => True | _ => False end.
Definition has_doneP (c : cop) : Prop := exists r, In r (o_items c) /\ r_kind r = RDone.

Definition stream_status (c : cop) : Prop :=
  match o_status c with SActive | SDone | SClosed | SError | SPanicked | SStartErr _ => True | _ => False end.

Record Lin (s : st) : Prop := {
  l_nodup : NoDup (opq s);
  l_q : forall o, In o (opq s) -> exists c, getop s o = Some c /\ o_reply c = OsEmpty /\ (forall k, ~ In (k, o) (rmap s)) /\ (forall k, ~ In (k, o) (smap s)) /\
          o_items c = [] /\ qstat c /\ (waiting c = false -> In (o_mid c) (scrubq s) \/ ~ In (o_mid c) (inuse s));
  l_r : forall k o, In (k, o) (rmap s) -> exists c, getop s o = Some c /\ o_mid c = k /\ o_reply c = OsEmpty /\ (waiting c = true \/ In k (scrubq s)) /\ ~ is_search c;
  l_s : forall k o, In (k, o) (smap s) -> exists c, getop s o = Some c /\ o_mid c = k /\ o_reply c = OsFilled None /\
          (op_finished c = false \/ In k (scrubq s)) /\ ~ has_doneP c /\ is_search c;
  l_stat : forall o c, getop s o = Some c ->
          (o_status c = SActive -> o_rx c = true) /\ (o_status c = CWait -> is_search c -> o_rx c = true) /\ (o_status c = SDone -> has_doneP c) /\
          (stream_status c -> is_search c);
  l_id : forall id, In id (inuse s) -> In id (scrubq s) \/
          exists o c, getop s o = Some c /\ o_mid c = id /\ (o_status c = CAlloc \/ In o (opq s) \/ In (id, o) (rmap s) \/ In (id, o) (smap s)) }.
(* [o_status c = CAlloc]: the id was taken by a caller that has not yet handed its request to the driver (multi-thread callers: Alloc / Enqueue) *)

Lemma Lin_init f : Lin (init f).
Proof. constructor; cbn.
  - constructor. - intros ? []. - intros ? ? []. - intros ? ? [].
  - intros x c H. unfold getop in H. cbn in H. destruct x; discriminate.
  - intros ? []. Qed.

(* ---------- a companion invariant for the repair of F20 (finish() scrubs only while the stream is Active) ----------
   a routing entry of a search is a live sender: the item channel of its operation is open; and a stream that has failed (Error) while its
   entry is still there has its scrub request queued (it failed by timing out) - so finish() need not ask again. Queued searches have an
   open channel too (the entry made from them must satisfy the first clause). *)
Definition Chan (s : st) : Prop :=
  (forall k o c, In (k, o) (smap s) -> getop s o = Some c -> o_chan c = true /\ (o_status c = SError -> In k (scrubq s))) /\
  (forall o c, In o (opq s) -> getop s o = Some c -> is_search c -> o_chan c = true).
Lemma Chan_init f : Chan (init f).
Proof. split; cbn; intros; contradiction. Qed.

(* at quiescence the invariant leaves nothing behind *)
Theorem Lin_quiescent_clean s : Lin s -> quiescent s = true -> clean s = true.
Proof.
  intros L HQ. unfold quiescent in HQ. apply andb_true_iff in HQ as [HQ Hqs]. apply andb_true_iff in HQ as [Hr Hfin].
  destruct (opq s) as [|? ?] eqn:Eq; [|discriminate]. destruct (scrubq s) as [|? ?] eqn:Es; [|discriminate].
  rewrite forallb_forall in Hfin.
  assert (Hrm : rmap s = []).
  { destruct (rmap s) as [|[k o] m] eqn:Er; [reflexivity|exfalso]. destruct (l_r s L k o) as (c & Hc & _ & _ & [Hw|Hsq] & _); [rewrite Er; now left| |now rewrite Es in Hsq].
    specialize (Hfin c (nth_error_In _ _ Hc)). unfold waiting in Hw. unfold op_finished in Hfin. destruct (o_status c); discriminate. }
  assert (Hsm : smap s = []).
  { destruct (smap s) as [|[k o] m] eqn:Er; [reflexivity|exfalso]. destruct (l_s s L k o) as (c & Hc & _ & _ & [Hw|Hsq] & _ & _); [rewrite Er; now left| |now rewrite Es in Hsq].
    specialize (Hfin c (nth_error_In _ _ Hc)). congruence. }
  unfold clean. rewrite Hrm, Hsm. destruct (inuse s) as [|id ids] eqn:Ei; [reflexivity|exfalso].
  destruct (l_id s L id) as [H|(o & c & Hc & _ & [H|[H|[H|H]]])]; [rewrite Ei; now left|..]; rewrite ?Es, ?Eq, ?Hrm, ?Hsm in H; try exact H.
  specialize (Hfin c (nth_error_In _ _ Hc)). unfold op_finished in Hfin. rewrite H in Hfin. discriminate.
Qed.

(* ---------- a frame lemma for everything the caller's side does ---------- *)
(* the step touches one op record through g, may append to the scrub queue, and leaves queues, maps and the id table alone *)
Lemma Lin_client s s' o c g : Lin s -> getop s o = Some c ->
  ops s' = upd o g (ops s) -> opq s' = opq s -> rmap s' = rmap s -> smap s' = smap s -> inuse s' = inuse s ->
  (forall x, In x (scrubq s) -> In x (scrubq s')) ->
  o_mid (g c) = o_mid c -> o_kind (g c) = o_kind c -> o_reply (g c) = o_reply c ->
  (forall r, In r (o_items (g c)) <-> In r (o_items c)) -> (o_items c = [] -> o_items (g c) = []) ->
  (In o (opq s) -> qstat (g c) /\ (waiting (g c) = false -> In (o_mid c) (scrubq s') \/ ~ In (o_mid c) (inuse s))) ->
  (In (o_mid c, o) (rmap s) -> waiting (g c) = true \/ In (o_mid c) (scrubq s')) ->
  (In (o_mid c, o) (smap s) -> op_finished (g c) = false \/ In (o_mid c) (scrubq s')) ->
  ((o_status (g c) = SActive -> o_rx (g c) = true) /\ (o_status (g c) = CWait -> is_search c -> o_rx (g c) = true) /\ (o_status (g c) = SDone -> has_doneP c) /\
   (stream_status (g c) -> is_search c)) ->
  o_status c <> CAlloc ->
  Lin s'.
Proof.
  intros L Hc Eo Eq Er Es Ei Hsq Hm Hk Hrp Hit Hit0 Hq Hr Hs Hst Hna.
  assert (G : forall o', getop s' o' = if Nat.eqb o' o then Some (g c) else getop s o').
  { intros o'. unfold getop. rewrite Eo, nth_upd. destruct (Nat.eqb_spec o' o) as [->|]; [|reflexivity]. unfold getop in Hc. now rewrite Hc. }
  assert (Hd : has_doneP (g c) <-> has_doneP c) by (unfold has_doneP; split; intros (r & Hi & Hk'); exists r; (split; [now apply Hit|assumption])).
  constructor.
  - rewrite Eq. apply L.
  - intros o' Hin. rewrite Eq in Hin. destruct (l_q s L o' Hin) as (c' & Hc' & R & Nr & Ns & It & Qs & Wq). rewrite G.
    destruct (Nat.eqb_spec o' o) as [->|Hne].
    + rewrite Hc in Hc'. injection Hc' as <-. destruct (Hq Hin) as [Q1 Q2]. exists (g c). rewrite Er, Es, Ei, Hm, Hrp.
      repeat split; auto.
    + exists c'. rewrite Er, Es, Ei. repeat split; auto. intros W. destruct (Wq W) as [H|H]; [left; now apply Hsq|now right].
  - intros k o' Hin. rewrite Er in Hin. destruct (l_r s L k o' Hin) as (c' & Hc' & M & R & W & NS). rewrite G.
    destruct (Nat.eqb_spec o' o) as [->|Hne].
    + rewrite Hc in Hc'. injection Hc' as <-. subst k. exists (g c). rewrite Hm, Hrp. repeat split; auto. unfold is_search in *. now rewrite Hk.
    + exists c'. repeat split; auto. destruct W as [W|W]; [now left|right; now apply Hsq].
  - intros k o' Hin. rewrite Es in Hin. destruct (l_s s L k o' Hin) as (c' & Hc' & M & R & W & D & IS). rewrite G.
    destruct (Nat.eqb_spec o' o) as [->|Hne].
    + rewrite Hc in Hc'. injection Hc' as <-. subst k. exists (g c). rewrite Hm, Hrp. repeat split; auto; [now rewrite Hd|unfold is_search in *; now rewrite Hk].
    + exists c'. repeat split; auto. destruct W as [W|W]; [now left|right; now apply Hsq].
  - intros o' c' H. rewrite G in H. destruct (Nat.eqb_spec o' o) as [->|Hne].
    + injection H as <-. destruct Hst as (S1 & S2 & S3 & S4). repeat split.
      * exact S1. * intros A B. apply S2; [assumption|]. unfold is_search in *. now rewrite <- Hk.
      * intros A. rewrite Hd. now apply S3. * intros A. unfold is_search. rewrite Hk. now apply S4.
    + exact (l_stat s L o' c' H).
  - intros id Hin. rewrite Ei in Hin. destruct (l_id s L id Hin) as [H|(o' & c' & Hc' & M & W)]; [left; now apply Hsq|right].
    destruct (Nat.eqb_spec o' o) as [->|Hne].
    + rewrite Hc in Hc'. injection Hc' as <-. destruct W as [W|W]; [contradiction|]. exists o, (g c). rewrite G, Nat.eqb_refl, Eq, Er, Es.
      split; [reflexivity|]. split; [congruence|]. right. exact W.
    + exists o', c'. rewrite G. destruct (Nat.eqb_spec o' o); [congruence|]. rewrite Eq, Er, Es. now repeat split.
Qed.

Lemma upd_updop o g s : ops (updop o g s) = upd o g (ops s). Proof. reflexivity. Qed.
Ltac lc_basic := try reflexivity; try (intros; assumption); try (intros; tauto).

Lemma Lin_clipoll s o : Lin s -> is_running s = true -> Lin (step s (CliPoll o)).
Proof.
  intros L Hr. unfold step. destruct (getop s o) as [c|] eqn:Hc; [|exact L]. destruct (waiting c) eqn:Hw; cbn [negb]; [|exact L].
  assert (Hst : o_status c = CWait) by (unfold waiting in Hw; destruct (o_status c); congruence).
  destruct (o_reply c) eqn:Er.
  - (* still empty: only the deadline can end the wait *)
    destruct (o_deadline c) as [d|]; [|exact L]. destruct (d <=? now s); [|exact L]. rewrite Hr.
    eapply (Lin_client s _ o c _ L Hc); try reflexivity.
    + intros x Hx. cbn [scrubq set]. apply in_or_app. now left.
    + tauto.
    + intros _. split; [cbn; destruct (o_kind c); exact I|]. intros _. left. cbn [scrubq set]. apply in_or_app. right. now left.
    + intros _. right. cbn [scrubq set]. apply in_or_app. right. now left.
    + intros Hin. destruct (l_s s L _ _ Hin) as (c' & Hc' & _ & R & _). rewrite Hc in Hc'. injection Hc' as <-. congruence.
    + cbn. repeat split; destruct (o_kind c) eqn:Ek; try discriminate; unfold is_search; rewrite ?Ek; try exact I; cbn; tauto.
    + rewrite Hst; discriminate.
  - (* a value (or the acknowledgement) is there *)
    eapply (Lin_client s _ o c _ L Hc); try reflexivity; try tauto.
    + intros Hin. destruct (l_q s L o Hin) as (c' & Hc' & R & _). rewrite Hc in Hc'. injection Hc' as <-. congruence.
    + intros Hin. destruct (l_r s L _ _ Hin) as (c' & Hc' & _ & R & _). rewrite Hc in Hc'. injection Hc' as <-. congruence.
    + intros Hin. destruct (l_s s L _ _ Hin) as (c' & Hc' & _ & _ & _ & _ & IS). rewrite Hc in Hc'. injection Hc' as <-.
      left. cbn. unfold is_search in IS. destruct (o_kind c); try contradiction. reflexivity.
    + destruct (l_stat s L o c Hc) as (_ & S2 & _ & _). cbn. repeat split.
      * destruct (o_kind c) eqn:Ek; try discriminate. intros _. apply S2; [assumption|]. unfold is_search. now rewrite Ek.
      * destruct (o_kind c); discriminate.
      * destruct (o_kind c); discriminate.
      * destruct (o_kind c) eqn:Ek; cbn; try tauto. intros _. unfold is_search. now rewrite Ek.
    + rewrite Hst; discriminate.
  - (* the sender was dropped *)
    eapply (Lin_client s _ o c _ L Hc); try reflexivity; try tauto.
    + intros Hin. destruct (l_q s L o Hin) as (c' & Hc' & R & _). rewrite Hc in Hc'. injection Hc' as <-. congruence.
    + intros Hin. destruct (l_r s L _ _ Hin) as (c' & Hc' & _ & R & _). rewrite Hc in Hc'. injection Hc' as <-. congruence.
    + intros Hin. destruct (l_s s L _ _ Hin) as (c' & Hc' & _ & R & _). rewrite Hc in Hc'. injection Hc' as <-. congruence.
    + cbn. repeat split; destruct (o_kind c) eqn:Ek; try discriminate; unfold is_search; rewrite ?Ek; try exact I; cbn; tauto.
    + rewrite Hst; discriminate.
Qed.

(* the frame lemma specialised to an op that is neither queued nor in the result map (a started stream) *)
Lemma Lin_client_stream s s' o c g : Lin s -> getop s o = Some c -> ~ In o (opq s) -> ~ In (o_mid c, o) (rmap s) ->
  ops s' = upd o g (ops s) -> opq s' = opq s -> rmap s' = rmap s -> smap s' = smap s -> inuse s' = inuse s ->
  (forall x, In x (scrubq s) -> In x (scrubq s')) ->
  o_mid (g c) = o_mid c -> o_kind (g c) = o_kind c -> o_reply (g c) = o_reply c -> o_items (g c) = o_items c ->
  (In (o_mid c, o) (smap s) -> op_finished (g c) = false \/ In (o_mid c) (scrubq s')) ->
  (o_status (g c) = SActive -> o_rx (g c) = true) -> o_status (g c) <> CWait -> (o_status (g c) = SDone -> has_doneP c) ->
  (stream_status (g c) -> is_search c) -> o_status c <> CAlloc -> Lin s'.
Proof.
  intros L Hc Nq Nr Eo Eq Er Es Ei Hsq Hm Hk Hrp Hit Hs S1 S2 S3 S4 Hna.
  eapply (Lin_client s s' o c g L Hc); try assumption; try tauto.
  - intros r. now rewrite Hit. - intros E. now rewrite Hit.
Qed.

Lemma Lin_streamnext s o : Lin s -> is_running s = true -> fix7 (fx s) = true -> fix25 (fx s) = true -> Lin (step s (StreamNext o)).
Proof.
  intros L Hr H7 H25. unfold step, scrub_id. rewrite H25. destruct (getop s o) as [c|] eqn:Hc; [|exact L]. destruct (o_status c) eqn:Hst; try exact L.
  destruct (l_stat s L o c Hc) as (S1 & _ & _ & S4). assert (IS : is_search c) by (apply S4; unfold stream_status; now rewrite Hst).
  rewrite (S1 Hst). cbn [negb].
  assert (Nq : ~ In o (opq s)). { intros Hin. destruct (l_q s L o Hin) as (c' & Hc' & _ & _ & _ & _ & Q & _). rewrite Hc in Hc'. injection Hc' as <-. unfold qstat in Q. now rewrite Hst in Q. }
  assert (Nr : ~ In (o_mid c, o) (rmap s)). { intros Hin. destruct (l_r s L _ _ Hin) as (c' & Hc' & _ & _ & _ & NS). rewrite Hc in Hc'. injection Hc' as <-. contradiction. }
  destruct (nth_error (o_items c) (o_taken c)) as [r|] eqn:En.
  - destruct (r_kind r) eqn:Ek; [| destruct (o_kind c) as [|[|]| |] eqn:Eko | destruct (o_kind c) as [|[|]| |] eqn:Eko | | destruct (o_kind c) as [|[|]| |] eqn:Eko ].
    all: try (match goal with |- Lin (updop _ ?g _) => apply (Lin_client_stream s _ o c g L Hc Nq Nr) end;
      [ reflexivity | reflexivity | reflexivity | reflexivity | reflexivity | (intros; assumption) | reflexivity | reflexivity | reflexivity | reflexivity
      | (intros _; left; unfold op_finished; cbn; now rewrite Hst)
      | (cbn; intros _; now apply S1)
      | (cbn; rewrite Hst; discriminate)
      | (cbn; rewrite Hst; discriminate)
      | (intros _; exact IS) | (rewrite Hst; discriminate) ]; fail).
    (* the SearchResultDone is taken: the driver removed the routing entry when it queued it *)
    assert (HD : has_doneP c) by (exists r; split; [eapply nth_error_In; eassumption|assumption]).
    assert (Ekd : exists ad, o_kind c = KSearch ad) by (unfold is_search in IS; destruct (o_kind c); try contradiction; eauto).
    destruct Ekd as (ad & Ekd).
    match goal with |- Lin (updop _ ?g _) => apply (Lin_client_stream s _ o c g L Hc Nq Nr) end;
      [ reflexivity | reflexivity | reflexivity | reflexivity | reflexivity | (intros; assumption) | reflexivity | reflexivity | reflexivity | reflexivity
      | (intros Hin; exfalso; destruct (l_s s L _ _ Hin) as (c' & Hc' & _ & _ & _ & ND & _); rewrite Hc in Hc'; injection Hc' as <-; contradiction)
      | (cbn; rewrite Ekd, H7, orb_true_r; discriminate)
      | (cbn; rewrite Ekd, H7, orb_true_r; discriminate)
      | (intros _; exact HD)
      | (intros _; exact IS) | (rewrite Hst; discriminate) ].
  - assert (Pending : forall t0, Lin (updop o (fun c0 => c0 <| o_call := Some t0 |>) s)).
    { intros t0. apply (Lin_client_stream s _ o c (fun c0 => c0 <| o_call := Some t0 |>) L Hc Nq Nr);
      [ reflexivity | reflexivity | reflexivity | reflexivity | reflexivity | (intros; assumption) | reflexivity | reflexivity | reflexivity | reflexivity
      | (intros _; left; unfold op_finished; cbn; now rewrite Hst)
      | (cbn; intros _; now apply S1)
      | (cbn; rewrite Hst; discriminate)
      | (cbn; rewrite Hst; discriminate)
      | (intros _; exact IS) | (rewrite Hst; discriminate) ]. }
    destruct (o_chan c); cbn [negb].
    + destruct (o_tmo c) as [d|]; [|apply Pending]. match goal with |- context [if ?b then _ else _] => destruct b end; [|apply Pending]. rewrite Hr.
      match goal with |- Lin (set scrubq _ (updop _ ?g _)) => apply (Lin_client_stream s _ o c g L Hc Nq Nr) end;
      [ reflexivity | reflexivity | reflexivity | reflexivity | reflexivity | (intros x Hx; cbn [scrubq set]; apply in_or_app; now left)
      | reflexivity | reflexivity | reflexivity | reflexivity
      | (intros _; now left) | (cbn; discriminate) | (cbn; discriminate) | (cbn; discriminate) | (intros _; exact IS) | (rewrite Hst; discriminate) ].
    + match goal with |- Lin (updop _ ?g _) => apply (Lin_client_stream s _ o c g L Hc Nq Nr) end;
      [ reflexivity | reflexivity | reflexivity | reflexivity | reflexivity | (intros; assumption)
      | reflexivity | reflexivity | reflexivity | reflexivity
      | (intros _; now left) | (cbn; discriminate) | (cbn; discriminate) | (cbn; discriminate) | (intros _; exact IS) | (rewrite Hst; discriminate) ].
Qed.

(* giving up a pending next(): only the call marker changes *)
Lemma Lin_dropcall s o : Lin s -> Lin (step s (DropCall o)).
Proof.
  intros L. unfold step. destruct (getop s o) as [c|] eqn:Hc; [|exact L]. destruct (o_status c) eqn:Hst; try exact L.
  destruct (l_stat s L o c Hc) as (S1 & _ & _ & S4). assert (IS : is_search c) by (apply S4; unfold stream_status; now rewrite Hst).
  assert (Nq : ~ In o (opq s)). { intros Hin. destruct (l_q s L o Hin) as (c' & Hc' & _ & _ & _ & _ & Q & _). rewrite Hc in Hc'. injection Hc' as <-. unfold qstat in Q. now rewrite Hst in Q. }
  assert (Nr : ~ In (o_mid c, o) (rmap s)). { intros Hin. destruct (l_r s L _ _ Hin) as (c' & Hc' & _ & _ & _ & NS). rewrite Hc in Hc'. injection Hc' as <-. contradiction. }
  apply (Lin_client_stream s _ o c (fun c0 => c0 <| o_call := None |>) L Hc Nq Nr);
      [ reflexivity | reflexivity | reflexivity | reflexivity | reflexivity | (intros; assumption) | reflexivity | reflexivity | reflexivity | reflexivity
      | (intros _; left; unfold op_finished; cbn; now rewrite Hst)
      | (cbn; intros _; now apply S1)
      | (cbn; rewrite Hst; discriminate)
      | (cbn; rewrite Hst; discriminate)
      | (intros _; exact IS) | (rewrite Hst; discriminate) ].
Qed.

Lemma Lin_streamfinish s o : Lin s -> Chan s -> is_running s = true -> fix25 (fx s) = true -> Lin (step s (StreamFinish o)).
Proof.
  intros L CH Hr H25. unfold step, scrub_id. rewrite H25. destruct (getop s o) as [c|] eqn:Hc; [|exact L].
  destruct (l_stat s L o c Hc) as (_ & _ & S3 & S4).
  assert (Nq : (o_status c = SActive \/ o_status c = SDone \/ o_status c = SError) -> stream_status c -> ~ In o (opq s)).
  { intros E SS Hin. destruct (l_q s L o Hin) as (c' & Hc' & _ & _ & _ & _ & Q & _). rewrite Hc in Hc'. injection Hc' as <-. unfold qstat in Q.
    destruct E as [E|[E|E]]; rewrite E in Q; exact Q. }
  assert (Nr : stream_status c -> ~ In (o_mid c, o) (rmap s)).
  { intros SS Hin. destruct (l_r s L _ _ Hin) as (c' & Hc' & _ & _ & _ & NS). rewrite Hc in Hc'. injection Hc' as <-. apply NS, S4, SS. }
  destruct (o_status c) eqn:Hst; try exact L; rewrite ?Hr;
    (assert (SS : stream_status c) by (unfold stream_status; now rewrite Hst)).
  - (* Active: cancelled, scrub sent *)
    apply (Lin_client_stream s _ o c (fun c0 => c0 <| o_status := SClosed |> <| o_rx := false |>) L Hc (Nq (or_introl eq_refl) SS) (Nr SS));
      [ reflexivity | reflexivity | reflexivity | reflexivity | reflexivity | (intros x Hx; cbn [scrubq set]; apply in_or_app; now left)
      | reflexivity | reflexivity | reflexivity | reflexivity
      | (intros _; right; cbn [scrubq set]; apply in_or_app; right; now left) | (cbn; discriminate) | (cbn; discriminate) | (cbn; discriminate) | (intros _; now apply S4) | (rewrite Hst; discriminate) ].
  - (* Done: no scrub is sent — the id was released when the driver saw the SearchResultDone *)
    apply (Lin_client_stream s _ o c (fun c0 => c0 <| o_status := SClosed |> <| o_rx := false |>) L Hc (Nq (or_intror (or_introl eq_refl)) SS) (Nr SS));
      [ reflexivity | reflexivity | reflexivity | reflexivity | reflexivity | (intros; assumption)
      | reflexivity | reflexivity | reflexivity | reflexivity
      | (intros Hin; exfalso; destruct (l_s s L _ _ Hin) as (c' & Hc' & _ & _ & _ & ND & _); rewrite Hc in Hc'; injection Hc' as <-; apply ND, S3; reflexivity)
      | (cbn; discriminate) | (cbn; discriminate) | (cbn; discriminate) | (intros _; now apply S4) | (rewrite Hst; discriminate) ].
  - (* Error *)
    destruct (fix20 (fx s)).
    { (* repaired (F20): no second scrub; if the routing entry is still there, the scrub sent when next() timed out is still queued *)
      apply (Lin_client_stream s _ o c (fun c0 => c0 <| o_status := SClosed |> <| o_rx := false |>) L Hc (Nq (or_intror (or_intror eq_refl)) SS) (Nr SS));
      [ reflexivity | reflexivity | reflexivity | reflexivity | reflexivity | (intros; assumption)
      | reflexivity | reflexivity | reflexivity | reflexivity
      | (intros Hin; right; exact (proj2 (proj1 CH _ _ _ Hin Hc) Hst))
      | (cbn; discriminate) | (cbn; discriminate) | (cbn; discriminate) | (intros _; now apply S4) | (rewrite Hst; discriminate) ]. }
    apply (Lin_client_stream s _ o c (fun c0 => c0 <| o_status := SClosed |> <| o_rx := false |>) L Hc (Nq (or_intror (or_intror eq_refl)) SS) (Nr SS));
      [ reflexivity | reflexivity | reflexivity | reflexivity | reflexivity | (intros x Hx; cbn [scrubq set]; apply in_or_app; now left)
      | reflexivity | reflexivity | reflexivity | reflexivity
      | (intros _; right; cbn [scrubq set]; apply in_or_app; right; now left) | (cbn; discriminate) | (cbn; discriminate) | (cbn; discriminate) | (intros _; now apply S4) | (rewrite Hst; discriminate) ].
Qed.

Lemma Lin_same s s' : Lin s -> ops s' = ops s -> opq s' = opq s -> rmap s' = rmap s -> smap s' = smap s -> inuse s' = inuse s -> scrubq s' = scrubq s -> Lin s'.
Proof. intros L Eo Eq Er Es Ei Esq. assert (G : forall o, getop s' o = getop s o) by (intros; unfold getop; now rewrite Eo).
  constructor.
  - rewrite Eq. apply L.
  - intros o H. rewrite Eq in H. destruct (l_q s L o H) as (c & A). exists c. now rewrite G, Er, Es, Ei, Esq.
  - intros k o H. rewrite Er in H. destruct (l_r s L k o H) as (c & A). exists c. now rewrite G, Esq.
  - intros k o H. rewrite Es in H. destruct (l_s s L k o H) as (c & A). exists c. now rewrite G, Esq.
  - intros o c H. rewrite G in H. exact (l_stat s L o c H).
  - intros id H. rewrite Ei in H. rewrite Esq. destruct (l_id s L id H) as [A|(o & c & A)]; [now left|right]. exists o, c. now rewrite G, Eq, Er, Es.
Qed.

(* ---------- Start ---------- *)
Lemma NoDup_app_cons_end {A} (l : list A) x : ~ In x l -> NoDup l -> NoDup (l ++ [x]).
Proof.
  intros Hn Hd. induction l as [|a l IH]; cbn; [constructor; [intros []|constructor]|].
  inversion Hd as [|? ? Ha Hl]; subst. constructor.
  - intros Hin. apply in_app_or in Hin as [H|[<-|[]]]; [contradiction|]. apply Hn. now left.
  - apply IH; [intros H; apply Hn; now right|assumption].
Qed.
Lemma Lin_start s k tmo : Lin s -> is_running s = true -> NoDup (map o_mid (ops (step s (Start k tmo)))) -> Lin (step s (Start k tmo)).
Proof.
  intros L Hr. unfold step. destruct (next_msgid (last s) (inuse s)) as [mid| |]; try (intros; exact L). rewrite Hr.
  set (onew := mkOp mid k (option_map (Z.add (now s)) tmo) CWait OsEmpty [] 0
                    (match k with KSearch _ => true | _ => false end) (match k with KSearch _ => true | _ => false end) [] None tmo None).
  set (n := length (ops s)). intros Hnd. cbn [ops set] in Hnd. rewrite map_app in Hnd. cbn [map] in Hnd. change (o_mid onew) with mid in Hnd.
  assert (Hfresh : forall o c, getop s o = Some c -> o_mid c <> mid).
  { intros o c Hc E. apply NoDup_remove_2 in Hnd. rewrite app_nil_r in Hnd. apply Hnd. rewrite <- E. apply in_map. eapply nth_error_In; eassumption. }
  set (s' := s <| last := mid |> <| inuse ::= cons mid |> <| ops ::= fun l => l ++ [onew] |> <| opq ::= fun q => q ++ [n] |>).
  assert (G : forall o, getop s' o = if Nat.ltb o n then getop s o else if Nat.eqb o n then Some onew else None).
  { intros o. unfold getop, s', n. cbn [ops set]. destruct (Nat.ltb_spec o (length (ops s))); [now rewrite nth_error_app1|].
    rewrite nth_error_app2 by lia. destruct (Nat.eqb_spec o (length (ops s))) as [->|]; [now rewrite Nat.sub_diag|].
    destruct (o - length (ops s))%nat as [|[|m]] eqn:E; [lia|reflexivity|reflexivity]. }
  assert (Hlt : forall o c, getop s o = Some c -> (o < n)%nat) by (intros o c H; unfold n; apply nth_error_Some; unfold getop in H; congruence).
  assert (Gold : forall o c, getop s o = Some c -> getop s' o = Some c).
  { intros o c H. rewrite G. destruct (Nat.ltb_spec o n); [assumption|]. pose proof (Hlt o c H). lia. }
  constructor.
  - (* NoDup *) change (NoDup (opq s ++ [n])). apply NoDup_app_cons_end. 2: apply L.
    intros Hin. destruct (l_q s L n Hin) as (c & Hc & _). pose proof (Hlt n c Hc). lia.
  - intros o Hin. change (In o (opq s ++ [n])) in Hin. apply in_app_or in Hin as [Hin|[<-|[]]].
    + destruct (l_q s L o Hin) as (c & Hc & R & Nr & Ns & It & Q & W). exists c. split; [now apply Gold|]. do 5 (split; [assumption|]).
      intros Hw. destruct (W Hw) as [H|H]; [now left|right]. cbn [inuse set]. intros [E|E]; [apply (Hfresh o c Hc); now symmetry|contradiction].
    + exists onew. rewrite G. destruct (Nat.ltb_spec n n); [lia|]. rewrite Nat.eqb_refl. repeat split; try reflexivity.
      * intros k0 Hin. destruct (l_r s L k0 n Hin) as (c & Hc & _). pose proof (Hlt n c Hc). lia.
      * intros k0 Hin. destruct (l_s s L k0 n Hin) as (c & Hc & _). pose proof (Hlt n c Hc). lia.
      * discriminate.
  - intros k0 o Hin. destruct (l_r s L k0 o Hin) as (c & Hc & A). exists c. split; [now apply Gold|exact A].
  - intros k0 o Hin. destruct (l_s s L k0 o Hin) as (c & Hc & A). exists c. split; [now apply Gold|exact A].
  - intros o c H. rewrite G in H. destruct (Nat.ltb o n); [exact (l_stat s L o c H)|]. destruct (Nat.eqb o n); [|discriminate]. injection H as <-.
    cbn. repeat split; try discriminate; [|intros []]. intros _ IS. unfold is_search, onew in IS. cbn in IS. destruct k; try contradiction; reflexivity.
  - intros id Hin. cbn [inuse set] in Hin. destruct Hin as [<-|Hin].
    + right. exists n, onew. rewrite G. destruct (Nat.ltb_spec n n); [lia|]. rewrite Nat.eqb_refl. repeat split. right. left. apply in_or_app. right. now left.
    + destruct (l_id s L id Hin) as [H|(o & c & Hc & M & W)]; [now left|right]. exists o, c. repeat split; [now apply Gold|assumption|].
      destruct W as [W|[W|W]]; [now left|right; left; apply in_or_app; now left|right; now right].
Qed.

Lemma G_updop_l s o c g : getop s o = Some c -> forall o', getop (updop o g s) o' = if Nat.eqb o' o then Some (g c) else getop s o'.
Proof. intros Hc o'. unfold getop, updop. cbn [ops set]. rewrite nth_upd. unfold getop in Hc. destruct (Nat.eqb_spec o' o) as [->|]; [now rewrite Hc|reflexivity]. Qed.

(* ---------- Alloc / Enqueue: the two halves of a start, for callers on several threads ---------- *)
Lemma Lin_alloc s k tmo : Lin s -> NoDup (map o_mid (ops (step s (Alloc k tmo)))) -> Lin (step s (Alloc k tmo)).
Proof.
  intros L. cbn [step]. unfold alloc. destruct (next_msgid (last s) (inuse s)) as [mid| |]; try (intros; exact L).
  set (onew := mkOp mid k None CAlloc OsClosed [] 0 false false [] None tmo None).
  set (n := length (ops s)). intros Hnd. cbn [ops set] in Hnd. rewrite map_app in Hnd. cbn [map] in Hnd. change (o_mid onew) with mid in Hnd.
  assert (Hfresh : forall o c, getop s o = Some c -> o_mid c <> mid).
  { intros o c Hc E. apply NoDup_remove_2 in Hnd. rewrite app_nil_r in Hnd. apply Hnd. rewrite <- E. apply in_map. eapply nth_error_In; eassumption. }
  set (s' := s <| last := mid |> <| inuse ::= cons mid |> <| ops ::= fun l => l ++ [onew] |>).
  assert (G : forall o, getop s' o = if Nat.ltb o n then getop s o else if Nat.eqb o n then Some onew else None).
  { intros o. unfold getop, s', n. cbn [ops set]. destruct (Nat.ltb_spec o (length (ops s))); [now rewrite nth_error_app1|].
    rewrite nth_error_app2 by lia. destruct (Nat.eqb_spec o (length (ops s))) as [->|]; [now rewrite Nat.sub_diag|].
    destruct (o - length (ops s))%nat as [|[|m]] eqn:E; [lia|reflexivity|reflexivity]. }
  assert (Hlt : forall o c, getop s o = Some c -> (o < n)%nat) by (intros o c H; unfold n; apply nth_error_Some; unfold getop in H; congruence).
  assert (Gold : forall o c, getop s o = Some c -> getop s' o = Some c).
  { intros o c H. rewrite G. destruct (Nat.ltb_spec o n); [assumption|]. pose proof (Hlt o c H). lia. }
  constructor.
  - apply L.
  - intros o Hin. change (In o (opq s)) in Hin. destruct (l_q s L o Hin) as (c & Hc & R & Nr & Ns & It & Q & W). exists c. split; [now apply Gold|]. do 5 (split; [assumption|]).
    intros Hw. destruct (W Hw) as [H|H]; [now left|right]. cbn [inuse set]. intros [E|E]; [apply (Hfresh o c Hc); now symmetry|contradiction].
  - intros k0 o Hin. destruct (l_r s L k0 o Hin) as (c & Hc & A). exists c. split; [now apply Gold|exact A].
  - intros k0 o Hin. destruct (l_s s L k0 o Hin) as (c & Hc & A). exists c. split; [now apply Gold|exact A].
  - intros o c H. rewrite G in H. destruct (Nat.ltb o n); [exact (l_stat s L o c H)|]. destruct (Nat.eqb o n); [|discriminate]. injection H as <-.
    cbn. repeat split; try discriminate. intros [].
  - intros id Hin. cbn [inuse set] in Hin. destruct Hin as [<-|Hin].
    + right. exists n, onew. rewrite G. destruct (Nat.ltb_spec n n); [lia|]. rewrite Nat.eqb_refl. repeat split. now left.
    + destruct (l_id s L id Hin) as [H|(o & c & Hc & M & W)]; [now left|right]. exists o, c. repeat split; [now apply Gold|assumption|exact W].
Qed.

Lemma Lin_enqueue s o : Lin s -> Al s -> is_running s = true -> Lin (step s (Enqueue o)).
Proof.
  intros L A Hr. cbn [step]. unfold enqueue. destruct (getop s o) as [c|] eqn:Hc; [|exact L]. destruct (o_status c) eqn:Hst; try exact L. rewrite Hr.
  destruct (A o c Hc Hst) as (Rc & Xc & Cc & Ic).
  set (g := fun c0 : cop => c0 <| o_status := CWait |> <| o_deadline := option_map (Z.add (now s)) (o_tmo c0) |> <| o_reply := OsEmpty |>
                               <| o_chan := is_search_kind (o_kind c0) |> <| o_rx := is_search_kind (o_kind c0) |>).
  assert (G : forall o', getop (updop o g s <| opq ::= fun q => q ++ [o] |>) o' = if Nat.eqb o' o then Some (g c) else getop s o').
  { intros o'. change (getop (updop o g s) o' = if Nat.eqb o' o then Some (g c) else getop s o'). now apply G_updop_l. }
  assert (Nq : ~ In o (opq s)). { intros H. destruct (l_q s L o H) as (c' & Hc' & R & _). rewrite Hc in Hc'. injection Hc' as <-. congruence. }
  assert (Nr : forall k0, ~ In (k0, o) (rmap s)). { intros k0 H. destruct (l_r s L k0 o H) as (c' & Hc' & _ & R & _). rewrite Hc in Hc'. injection Hc' as <-. congruence. }
  assert (Ns : forall k0, ~ In (k0, o) (smap s)). { intros k0 H. destruct (l_s s L k0 o H) as (c' & Hc' & _ & R & _). rewrite Hc in Hc'. injection Hc' as <-. congruence. }
  constructor.
  - change (NoDup (opq s ++ [o])). apply NoDup_app_cons_end; [exact Nq|apply L].
  - intros o' Hin. change (In o' (opq s ++ [o])) in Hin. rewrite G. apply in_app_or in Hin as [Hin|[<-|[]]].
    + destruct (Nat.eqb_spec o' o) as [->|Hne]; [contradiction|]. exact (l_q s L o' Hin).
    + rewrite Nat.eqb_refl. exists (g c). split; [reflexivity|]. split; [reflexivity|]. split; [exact Nr|]. split; [exact Ns|].
      split; [exact Ic|]. split; [exact I|]. intros W. discriminate W.
  - intros k0 o' Hin. change (In (k0, o') (rmap s)) in Hin. rewrite G. destruct (Nat.eqb_spec o' o) as [->|Hne]; [now elim (Nr k0)|]. exact (l_r s L k0 o' Hin).
  - intros k0 o' Hin. change (In (k0, o') (smap s)) in Hin. rewrite G. destruct (Nat.eqb_spec o' o) as [->|Hne]; [now elim (Ns k0)|]. exact (l_s s L k0 o' Hin).
  - intros o' c' H. rewrite G in H. destruct (Nat.eqb_spec o' o) as [->|Hne]; [|exact (l_stat s L o' c' H)]. injection H as <-.
    cbn. repeat split; try discriminate; [|intros []]. intros _ IS. unfold is_search in IS. cbn in IS. destruct (o_kind c); try contradiction; reflexivity.
  - intros id Hin. change (In id (inuse s)) in Hin. destruct (l_id s L id Hin) as [H|(o' & c' & Hc' & M & W)]; [now left|right].
    destruct (Nat.eq_dec o' o) as [->|Hne].
    + rewrite Hc in Hc'. injection Hc' as <-. exists o, (g c). rewrite G, Nat.eqb_refl. split; [reflexivity|]. split; [exact M|]. right. left. apply in_or_app. right. now left.
    + exists o', c'. rewrite G. destruct (Nat.eqb_spec o' o); [contradiction|]. split; [assumption|]. split; [assumption|].
      destruct W as [W|[W|W]]; [now left|right; left; apply in_or_app; now left|right; now right].
Qed.

(* ---------- driver-side helpers ---------- *)
Definition soft (g : cop -> cop) : Prop := forall c,
  o_mid (g c) = o_mid c /\ o_kind (g c) = o_kind c /\ o_status (g c) = o_status c /\ o_rx (g c) = o_rx c /\ o_items (g c) = o_items c /\
  (o_reply (g c) = o_reply c \/ (o_reply c = OsEmpty /\ o_reply (g c) = OsClosed)).
Lemma soft_id : soft (fun c => c). Proof. intros c. repeat split. now left. Qed.
Lemma soft_close : soft close_chan. Proof. intros c. repeat split. now left. Qed.
Lemma soft_drop : soft drop_reply.
Proof. intros c. unfold drop_reply. destruct (o_reply c) eqn:E; repeat split; try (now left). right. now split. Qed.
Lemma soft_comp f g : soft f -> soft g -> soft (fun c => f (g c)).
Proof. intros Hf Hg c. destruct (Hg c) as (a1 & a2 & a3 & a4 & a5 & a6). destruct (Hf (g c)) as (b1 & b2 & b3 & b4 & b5 & b6).
  repeat split; try congruence. destruct a6 as [a6|[a6 a7]], b6 as [b6|[b6 b7]]; [left|right|right|]; try (split; congruence); congruence. Qed.
Lemma soft_waiting g c : soft g -> waiting (g c) = waiting c. Proof. intros H. destruct (H c) as (_ & _ & E & _). unfold waiting. now rewrite E. Qed.
Lemma soft_qstat g c : soft g -> qstat (g c) <-> qstat c. Proof. intros H. destruct (H c) as (_ & _ & E & _). unfold qstat. now rewrite E. Qed.
Lemma soft_search g c : soft g -> is_search (g c) <-> is_search c. Proof. intros H. destruct (H c) as (_ & E & _). unfold is_search. now rewrite E. Qed.
Lemma soft_fin g c : soft g -> op_finished (g c) = op_finished c. Proof. intros H. destruct (H c) as (_ & _ & E & _). unfold op_finished. now rewrite E. Qed.
Lemma soft_done g c : soft g -> has_doneP (g c) <-> has_doneP c. Proof. intros H. destruct (H c) as (_ & _ & _ & _ & E & _). unfold has_doneP. now rewrite E. Qed.
Lemma soft_sstat g c : soft g -> stream_status (g c) <-> stream_status c. Proof. intros H. destruct (H c) as (_ & _ & E & _). unfold stream_status. now rewrite E. Qed.

Lemma getop_drop_entry m k f s o : getop (drop_entry m k f s) o =
  match alookup k m with Some o' => if Nat.eqb o o' then option_map f (getop s o) else getop s o | None => getop s o end.
Proof. unfold drop_entry. destruct (alookup k m); [|reflexivity]. unfold getop, updop. cbn [ops set]. apply nth_upd. Qed.
Lemma In_rem x k l : In x (rem k l) <-> x <> k /\ In x l.
Proof. unfold rem. rewrite filter_In. destruct (Z.eqb_spec k x); cbn; intuition congruence. Qed.
Lemma In_arem k' o k m : In (k', o) (aremove k m) <-> k' <> k /\ In (k', o) m.
Proof. unfold aremove. rewrite filter_In. cbn [fst]. destruct (Z.eqb_spec k' k); cbn; intuition congruence. Qed.

(* the l_stat clause only reads fields a soft update keeps *)
Lemma l_stat_soft c g : soft g ->
  ((o_status c = SActive -> o_rx c = true) /\ (o_status c = CWait -> is_search c -> o_rx c = true) /\ (o_status c = SDone -> has_doneP c) /\ (stream_status c -> is_search c)) ->
  ((o_status (g c) = SActive -> o_rx (g c) = true) /\ (o_status (g c) = CWait -> is_search (g c) -> o_rx (g c) = true) /\ (o_status (g c) = SDone -> has_doneP (g c)) /\ (stream_status (g c) -> is_search (g c))).
Proof. intros Hg. rewrite (soft_search g c Hg), (soft_done g c Hg), (soft_sstat g c Hg). destruct (Hg c) as (_ & _ & -> & -> & _). tauto. Qed.

Lemma In_alookup_some k o m : In (k, o) m -> exists o', alookup k m = Some o'.
Proof. unfold alookup. induction m as [|[k' v] m IH]; cbn [In find fst]; [intros []|]. intros [H|H].
  - injection H as -> ->. rewrite Z.eqb_refl. eexists; reflexivity.
  - destruct (Z.eqb k' k); [eexists; reflexivity|now apply IH]. Qed.
Ltac de_solve := repeat match goal with |- context [match alookup ?k ?m with _ => _ end] => destruct (alookup k m) end; reflexivity.
(* ---------- DrvScrub ---------- *)
Lemma Lin_scrub s : Lin s -> Lin (step s DrvScrub).
Proof.
  intros L. unfold step. destruct (is_running s); cbn [negb]; [|exact L]. destruct (scrubq s) as [|id q] eqn:Q; [exact L|].
  set (s1 := drop_entry (rmap s) id drop_reply s <| rmap ::= aremove id |>).
  set (s' := drop_entry (smap s1) id close_chan s1 <| smap ::= aremove id |> <| inuse ::= rem id |> <| scrubq := q |>).
  assert (G : forall o, exists g, soft g /\ getop s' o = option_map g (getop s o) /\ (forall c, o_reply (g c) <> o_reply c -> In (id, o) (rmap s))).
  { intros o. change (getop s' o) with (getop (drop_entry (smap s1) id close_chan s1) o). rewrite getop_drop_entry.
    change (getop s1 o) with (getop (drop_entry (rmap s) id drop_reply s) o). rewrite getop_drop_entry.
    destruct (alookup id (rmap s)) as [orr|] eqn:Er; [destruct (Nat.eqb o orr) eqn:Eo|];
    (destruct (alookup id (smap s1)) as [os|]; [destruct (Nat.eqb o os)|]).
    all: try (exists (fun c => close_chan (drop_reply c)); split; [apply soft_comp; [apply soft_close|apply soft_drop]|split; [now destruct (getop s o)|intros; apply Nat.eqb_eq in Eo; subst; now apply alookup_In]]).
    all: try (exists drop_reply; split; [apply soft_drop|split; [reflexivity|intros; apply Nat.eqb_eq in Eo; subst; now apply alookup_In]]).
    all: try (exists close_chan; split; [apply soft_close|split; [reflexivity|intros c Hne; now elim Hne]]).
    all: exists (fun c => c); (split; [apply soft_id|split; [now destruct (getop s o)|intros c Hne; now elim Hne]]). }
  assert (Rm : rmap s' = aremove id (rmap s)) by (unfold s', s1, drop_entry; destruct (alookup id (rmap s)); de_solve).
  assert (Sm : smap s' = aremove id (smap s)) by (unfold s', s1, drop_entry; destruct (alookup id (rmap s)); de_solve).
  assert (Iu : inuse s' = rem id (inuse s)) by (unfold s', s1, drop_entry; destruct (alookup id (rmap s)); de_solve).
  assert (Sq : scrubq s' = q) by (unfold s', s1, drop_entry; destruct (alookup id (rmap s)); de_solve).
  assert (Oq : opq s' = opq s) by (unfold s', s1, drop_entry; destruct (alookup id (rmap s)); de_solve).
  clearbody s'. clear s1.
  constructor.
  - rewrite Oq. apply L.
  - intros o Hin. rewrite Oq in Hin. destruct (l_q s L o Hin) as (c & Hc & R & Nr & Ns & It & Qs & W).
    destruct (G o) as (g & Hg & Gc & Gr). exists (g c). rewrite Gc, Hc. split; [reflexivity|]. destruct (Hg c) as (e1 & e2 & e3 & e4 & e5 & e6).
    split. { destruct e6 as [e6|[_ e6]]; [congruence|]. exfalso. apply (Nr id). apply (Gr c). congruence. }
    split. { intros k. rewrite Rm, In_arem. intros [_ H]. now apply (Nr k). }
    split. { intros k. rewrite Sm, In_arem. intros [_ H]. now apply (Ns k). }
    split; [congruence|]. split; [now apply soft_qstat|]. rewrite (soft_waiting g c Hg), e1, Iu, Sq, In_rem. intros Hw. destruct (W Hw) as [H|H].
    + rewrite Q in H. destruct H as [<-|H]; [right; intros [H' _]; now apply H'|now left].
    + right. intros [_ H']. now apply H.
  - intros k o. rewrite Rm, In_arem. intros [Hk Hin]. destruct (l_r s L k o Hin) as (c & Hc & M & R & W & NS).
    destruct (G o) as (g & Hg & Gc & Gr). exists (g c). rewrite Gc, Hc. split; [reflexivity|]. destruct (Hg c) as (e1 & e2 & e3 & e4 & e5 & e6).
    split; [congruence|]. split. { destruct e6 as [e6|[_ e6]]; [congruence|]. exfalso. assert (Hin' : In (id, o) (rmap s)) by (apply (Gr c); congruence).
      destruct (l_r s L id o Hin') as (c2 & Hc2 & M2 & _). congruence. }
    split. { rewrite (soft_waiting g c Hg), Sq. destruct W as [W|W]; [now left|right]. rewrite Q in W. destruct W as [W|W]; [congruence|assumption]. }
    now rewrite (soft_search g c Hg).
  - intros k o. rewrite Sm, In_arem. intros [Hk Hin]. destruct (l_s s L k o Hin) as (c & Hc & M & R & W & ND & IS).
    destruct (G o) as (g & Hg & Gc & Gr). exists (g c). rewrite Gc, Hc. split; [reflexivity|]. destruct (Hg c) as (e1 & e2 & e3 & e4 & e5 & e6).
    split; [congruence|]. split. { destruct e6 as [e6|[e6 _]]; congruence. }
    split. { rewrite (soft_fin g c Hg), Sq. destruct W as [W|W]; [now left|right]. rewrite Q in W. destruct W as [W|W]; [congruence|assumption]. }
    rewrite (soft_done g c Hg), (soft_search g c Hg). now split.
  - intros o c' Hc'. destruct (G o) as (g & Hg & Gc & _). rewrite Gc in Hc'. destruct (getop s o) as [c|] eqn:Hc; [|discriminate]. injection Hc' as <-.
    apply l_stat_soft; [assumption|]. exact (l_stat s L o c Hc).
  - intros i. rewrite Iu, In_rem, Sq. intros [Hne Hin]. destruct (l_id s L i Hin) as [H|(o & c & Hc & M & W)].
    + rewrite Q in H. destruct H as [H|H]; [congruence|now left].
    + right. destruct (G o) as (g & Hg & Gc & _). exists o, (g c). rewrite Gc, Hc. split; [reflexivity|]. destruct (Hg c) as (e1 & _ & e3 & _). split; [congruence|].
      rewrite e3, Oq, Rm, Sm, !In_arem. tauto.
Qed.

(* ---------- a driver step that touches one op which is not queued ---------- *)
Lemma Lin_upd1 s s' o c g : Lin s -> getop s o = Some c ->
  (forall o', getop s' o' = if Nat.eqb o' o then Some (g c) else getop s o') -> opq s' = opq s -> scrubq s' = scrubq s -> ~ In o (opq s) ->
  o_mid (g c) = o_mid c -> o_kind (g c) = o_kind c -> o_status (g c) = o_status c -> o_rx (g c) = o_rx c ->
  (forall r, In r (o_items c) -> In r (o_items (g c))) ->
  (forall k o', In (k, o') (rmap s') -> In (k, o') (rmap s)) -> (forall k o', In (k, o') (smap s') -> In (k, o') (smap s)) ->
  (forall i, In i (inuse s') -> In i (inuse s)) ->
  (forall k, In (k, o) (rmap s') -> o_reply (g c) = OsEmpty) ->
  (forall k, In (k, o) (smap s') -> o_reply (g c) = OsFilled None /\ ~ has_doneP (g c)) ->
  (forall i o', In i (inuse s') -> (In (i, o') (rmap s) -> In (i, o') (rmap s')) /\ (In (i, o') (smap s) -> In (i, o') (smap s'))) ->
  Lin s'.
Proof.
  intros L Hc G Eq Esq Hnq Hm Hk Hst Hrx Hit Ir Is Ii Hr Hs Hid.
  assert (Hd : has_doneP c -> has_doneP (g c)) by (intros (r & Hi & Hk'); exists r; split; [now apply Hit|assumption]).
  assert (Hw : waiting (g c) = waiting c) by (unfold waiting; now rewrite Hst).
  assert (Hf : op_finished (g c) = op_finished c) by (unfold op_finished; now rewrite Hst).
  assert (Hsr : is_search (g c) <-> is_search c) by (unfold is_search; now rewrite Hk).
  constructor.
  - rewrite Eq. apply L.
  - intros o' Hin. rewrite Eq in Hin. destruct (l_q s L o' Hin) as (c' & Hc' & R & Nr & Ns & It & Qs & Wq). rewrite G.
    destruct (Nat.eqb_spec o' o) as [->|Hne]; [contradiction|]. exists c'. split; [assumption|]. split; [assumption|].
    split. { intros k H. apply (Nr k). now apply Ir. } split. { intros k H. apply (Ns k). now apply Is. }
    split; [assumption|]. split; [assumption|]. rewrite Esq. intros W. destruct (Wq W) as [H|H]; [now left|right]. intros H'. apply H. now apply Ii.
  - intros k o' Hin. pose proof (Ir _ _ Hin) as Hin0. destruct (l_r s L k o' Hin0) as (c' & Hc' & M & R & W & NS). rewrite G, Esq.
    destruct (Nat.eqb_spec o' o) as [->|Hne].
    + rewrite Hc in Hc'. injection Hc' as <-. exists (g c). split; [reflexivity|]. split; [congruence|]. split; [now apply (Hr k)|]. split; [now rewrite Hw|]. now rewrite Hsr.
    + exists c'. now repeat split.
  - intros k o' Hin. pose proof (Is _ _ Hin) as Hin0. destruct (l_s s L k o' Hin0) as (c' & Hc' & M & R & W & D & IS). rewrite G, Esq.
    destruct (Nat.eqb_spec o' o) as [->|Hne].
    + rewrite Hc in Hc'. injection Hc' as <-. exists (g c). destruct (Hs k Hin) as [S1 S2]. split; [reflexivity|]. split; [congruence|]. split; [assumption|].
      split; [now rewrite Hf|]. split; [assumption|]. now rewrite Hsr.
    + exists c'. now repeat split.
  - intros o' c' H. rewrite G in H. destruct (Nat.eqb_spec o' o) as [->|Hne]; [|exact (l_stat s L o' c' H)].
    injection H as <-. destruct (l_stat s L o c Hc) as (S1 & S2 & S3 & S4). rewrite Hst, Hrx, Hsr. repeat split.
    + exact S1. + exact S2. + intros A. apply Hd. now apply S3. + unfold stream_status in *. now rewrite Hst.
  - intros id Hin. rewrite Esq. destruct (l_id s L id (Ii _ Hin)) as [H|(o' & c' & Hc' & M & W)]; [now left|right].
    destruct (Hid id o' Hin) as [P1 P2]. rewrite Eq.
    destruct (Nat.eqb_spec o' o) as [->|Hne].
    + rewrite Hc in Hc'. injection Hc' as <-. exists o, (g c). rewrite G, Nat.eqb_refl. split; [reflexivity|]. split; [congruence|]. rewrite Hst. tauto.
    + exists o', c'. rewrite G. destruct (Nat.eqb_spec o' o); [congruence|]. split; [assumption|]. split; [assumption|]. tauto.
Qed.

(* ---------- DrvResp (search ids released on Done: fix8) ---------- *)
Lemma fill_reply_core p c : o_mid (fill_reply p c) = o_mid c /\ o_kind (fill_reply p c) = o_kind c /\ o_status (fill_reply p c) = o_status c /\
  o_rx (fill_reply p c) = o_rx c /\ o_items (fill_reply p c) = o_items c.
Proof. unfold fill_reply. destruct (o_reply c), (waiting c); repeat split. Qed.

Lemma Lin_resp s : Lin s -> fix8 (fx s) = true -> is_running (step s DrvResp) = true -> Lin (step s DrvResp).
Proof.
  intros L F8. unfold step. destruct (is_running s) eqn:Hr; cbn [negb]; [|intros; exact L]. destruct (win s) as [|r w]; [intros; exact L|].
  destruct (alookup (r_mid r) (smap s)) as [o|] eqn:Es.
  - pose proof (alookup_In _ _ _ Es) as Hin. destruct (l_s s L _ _ Hin) as (c & Hc & M & R & W & ND & IS).
    assert (Hnq : ~ In o (opq s)). { intros H. destruct (l_q s L o H) as (c' & _ & _ & _ & Ns & _). exact (Ns _ Hin). }
    assert (Hnr : forall k, ~ In (k, o) (rmap s)). { intros k H. destruct (l_r s L k o H) as (c' & Hc' & _ & _ & _ & NS). rewrite Hc in Hc'. injection Hc' as <-. contradiction. }
    assert (Hk1 : forall k, In (k, o) (smap s) -> k = r_mid r). { intros k H. destruct (l_s s L k o H) as (c' & Hc' & M' & _). congruence. }
    rewrite Hc, F8.
    destruct (r_kind r) eqn:Ek; [| | | |destruct (fix5 (fx s)); [intros _; apply (Lin_same s); try reflexivity; exact L|intros H; discriminate H]]; intros _.
    all: destruct (o_rx c) eqn:Erx; cbn [negb].
    (* six cases keep or drop the smap entry; each is one application of Lin_upd1 *)
    7: apply (Lin_upd1 s _ o c (fun c0 => close_chan (c0 <| o_items ::= fun l => l ++ [r] |>))); [exact L|exact Hc|..].
    1,3,5: apply (Lin_upd1 s _ o c (fun c0 => c0 <| o_items ::= fun l => l ++ [r] |>)); [exact L|exact Hc|..].
    all: try (apply (Lin_upd1 s _ o c close_chan); [exact L|exact Hc|..]).
    all: try reflexivity.
    all: try exact Hnq.
    all: try (intros o'; unfold getop, updop; cbn [ops set]; rewrite ?nth_upd; unfold getop in Hc; destruct (Nat.eqb_spec o' o) as [->|]; [rewrite Hc; cbn [option_map]; reflexivity|reflexivity]).
    all: try (cbn [o_items set close_chan]; intros r0 Hr0; try apply in_or_app; auto; fail).
    all: try (intros k o'; cbn [rmap smap set updop]; try rewrite In_arem; tauto).
    all: try (intros i; cbn [inuse set updop]; try rewrite In_rem; tauto).
    all: try (intros k H; exfalso; cbn [rmap set updop] in H; exact (Hnr k H)).
    all: try (intros i o'; cbn [inuse rmap smap set updop]; rewrite ?In_rem, ?In_arem; tauto).
    all: try (intros k; cbn [smap set updop]; rewrite ?In_arem; intros H; try (exfalso; destruct H as [H1 H2]; apply H1; now apply Hk1)).
    all: try (split; [exact R|]; unfold has_doneP; cbn [o_items set close_chan]; intros (r0 & Hr0 & Kr0); try (apply in_app_or in Hr0 as [Hr0|[<-|[]]]; [|congruence]); apply ND; exists r0; now split).
  - destruct (alookup (r_mid r) (rmap s)) as [o|] eqn:Er; intros _.
    + match goal with |- context [if ?b then _ else _] => destruct b end; [apply (Lin_same s); try reflexivity; exact L|].
      pose proof (alookup_In _ _ _ Er) as Hin. destruct (l_r s L _ _ Hin) as (c & Hc & M & R & W & NS).
      assert (Hnq : ~ In o (opq s)). { intros H. destruct (l_q s L o H) as (c' & _ & _ & Nr & _). exact (Nr _ Hin). }
      assert (Hk1 : forall k, In (k, o) (rmap s) -> k = r_mid r). { intros k H. destruct (l_r s L k o H) as (c' & Hc' & M' & _). congruence. }
      destruct (fill_reply_core (Some r) c) as (f1 & f2 & f3 & f4 & f5).
      match goal with |- Lin ?s' => apply (Lin_upd1 s s' o c (fill_reply (Some r))) end; try assumption; try reflexivity.
      * intros o'. unfold getop, updop. cbn [ops set]. rewrite nth_upd. unfold getop in Hc. destruct (Nat.eqb_spec o' o) as [->|]; [now rewrite Hc|reflexivity].
      * intros r0. now rewrite f5.
      * intros k o'. cbn [rmap set updop]. rewrite In_arem. tauto.
      * intros k o'. cbn [smap set updop]. tauto.
      * intros i. cbn [inuse set updop]. rewrite In_rem. tauto.
      * intros k. cbn [rmap set updop]. rewrite In_arem. intros [H1 H2]. elim H1. now apply Hk1.
      * intros k H. cbn [smap set updop] in H. destruct (l_s s L k o H) as (c' & Hc' & _ & _ & _ & _ & IS). rewrite Hc in Hc'. injection Hc' as <-. contradiction.
      * intros i o'. cbn [inuse rmap smap set updop]. rewrite In_rem, In_arem. tauto.
    + apply (Lin_same s); try reflexivity. exact L.
Qed.

(* ---------- a driver step that takes the head of the op queue ---------- *)
Lemma Lin_pop s s' o q c c' : Lin s -> opq s = o :: q -> getop s o = Some c -> opq s' = q -> scrubq s' = scrubq s ->
  (forall o', o' <> o -> exists g, soft g /\ getop s' o' = option_map g (getop s o') /\
      (forall c0, o_reply (g c0) <> o_reply c0 -> exists k, In (k, o') (rmap s) /\ forall o2, ~ In (k, o2) (rmap s'))) ->
  getop s' o = Some c' -> o_mid c' = o_mid c -> o_kind c' = o_kind c -> o_status c' = o_status c -> o_rx c' = o_rx c -> o_items c' = o_items c ->
  (forall k o', In (k, o') (rmap s') -> In (k, o') (rmap s) \/ (k = o_mid c /\ o' = o)) ->
  (forall k o', In (k, o') (smap s') -> In (k, o') (smap s) \/ (k = o_mid c /\ o' = o)) ->
  (forall i, In i (inuse s') -> In i (inuse s)) ->
  (forall k, In (k, o) (rmap s') -> o_reply c' = OsEmpty /\ waiting c = true /\ ~ is_search c) ->
  (forall k, In (k, o) (smap s') -> o_reply c' = OsFilled None /\ waiting c = true /\ is_search c) ->
  (forall i o', In i (inuse s') -> (In (i, o') (rmap s) -> In (i, o') (rmap s')) /\ (In (i, o') (smap s) -> In (i, o') (smap s')) /\
      (i = o_mid c -> In (i, o) (rmap s') \/ In (i, o) (smap s') \/ In i (scrubq s))) ->
  Lin s'.
Proof.
  intros L Eq Hc Eq' Esq G Hc' Hm Hk Hst Hrx Hit Ir Is Ii Hr Hs Hid.
  assert (Ho : In o (opq s)) by (rewrite Eq; now left).
  destruct (l_q s L o Ho) as (c_ & Hc_ & R & Nr & Ns & It & Qs & Wq). rewrite Hc in Hc_. injection Hc_ as <-.
  assert (Hnd : NoDup (o :: q)) by (rewrite <- Eq; apply L). apply NoDup_cons_iff in Hnd as [Hnq Hq].
  assert (Hw : waiting c' = waiting c) by (unfold waiting; now rewrite Hst).
  assert (Hsr : is_search c' <-> is_search c) by (unfold is_search; now rewrite Hk).
  constructor.
  - now rewrite Eq'.
  - intros o' Hin. rewrite Eq' in Hin. assert (Hne : o' <> o) by (intros ->; contradiction).
    assert (Hin0 : In o' (opq s)) by (rewrite Eq; now right).
    destruct (l_q s L o' Hin0) as (c0 & Hc0 & R0 & Nr0 & Ns0 & It0 & Qs0 & Wq0).
    destruct (G o' Hne) as (g & Hg & Gc & Gr). exists (g c0). rewrite Gc, Hc0. split; [reflexivity|]. destruct (Hg c0) as (e1 & e2 & e3 & e4 & e5 & e6).
    split. { destruct e6 as [e6|[_ e6]]; [congruence|]. exfalso. destruct (Gr c0) as (k & Hk0 & _); [congruence|]. exact (Nr0 k Hk0). }
    split. { intros k H. destruct (Ir _ _ H) as [H'|[_ H']]; [exact (Nr0 k H')|contradiction]. }
    split. { intros k H. destruct (Is _ _ H) as [H'|[_ H']]; [exact (Ns0 k H')|contradiction]. }
    split; [congruence|]. split; [now apply soft_qstat|]. rewrite (soft_waiting g c0 Hg), e1, Esq. intros W. destruct (Wq0 W) as [H|H]; [now left|right]. intros H'. apply H. now apply Ii.
  - intros k o' Hin. rewrite Esq. destruct (Ir _ _ Hin) as [Hin0|[-> ->]].
    + destruct (l_r s L k o' Hin0) as (c0 & Hc0 & M & R0 & W & NS). assert (Hne : o' <> o) by (intros ->; exact (Nr k Hin0)).
      destruct (G o' Hne) as (g & Hg & Gc & Gr). exists (g c0). rewrite Gc, Hc0. split; [reflexivity|]. destruct (Hg c0) as (e1 & e2 & e3 & e4 & e5 & e6).
      split; [congruence|]. split. { destruct e6 as [e6|[_ e6]]; [congruence|]. exfalso. destruct (Gr c0) as (k' & Hk0 & Hno); [congruence|].
        destruct (l_r s L k' o' Hk0) as (c1 & Hc1 & M1 & _). assert (Ek : k' = k) by congruence. rewrite Ek in Hno. exact (Hno o' Hin). }
      split; [now rewrite (soft_waiting g c0 Hg)|]. now rewrite (soft_search g c0 Hg).
    + exists c'. destruct (Hr _ Hin) as (A & B & C). split; [assumption|]. split; [assumption|]. split; [assumption|]. split; [left; now rewrite Hw|]. now rewrite Hsr.
  - intros k o' Hin. rewrite Esq. destruct (Is _ _ Hin) as [Hin0|[-> ->]].
    + destruct (l_s s L k o' Hin0) as (c0 & Hc0 & M & R0 & W & ND & IS). assert (Hne : o' <> o) by (intros ->; exact (Ns k Hin0)).
      destruct (G o' Hne) as (g & Hg & Gc & Gr). exists (g c0). rewrite Gc, Hc0. split; [reflexivity|]. destruct (Hg c0) as (e1 & e2 & e3 & e4 & e5 & e6).
      split; [congruence|]. split. { destruct e6 as [e6|[e6 _]]; congruence. }
      split; [now rewrite (soft_fin g c0 Hg)|]. rewrite (soft_done g c0 Hg), (soft_search g c0 Hg). now split.
    + exists c'. destruct (Hs _ Hin) as (A & B & C). split; [assumption|]. split; [assumption|]. split; [assumption|].
      split. { left. unfold op_finished. rewrite Hst. unfold waiting in B. destruct (o_status c); try discriminate; reflexivity. }
      split. { unfold has_doneP. rewrite Hit, It. intros (r0 & [] & _). } now rewrite Hsr.
  - intros o' c1 H. destruct (Nat.eq_dec o' o) as [->|Hne].
    + rewrite Hc' in H. injection H as <-. destruct (l_stat s L o c Hc) as (S1 & S2 & S3 & S4). rewrite Hst, Hrx, Hsr. unfold has_doneP, stream_status in *. rewrite Hit, Hst. tauto.
    + destruct (G o' Hne) as (g & Hg & Gc & _). rewrite Gc in H. destruct (getop s o') as [c0|] eqn:Hc0; [|discriminate]. injection H as <-.
      apply l_stat_soft; [assumption|]. exact (l_stat s L o' c0 Hc0).
  - intros i Hin. rewrite Esq, Eq'. destruct (Hid i o Hin) as (_ & _ & P3).
    destruct (l_id s L i (Ii _ Hin)) as [H|(o' & c0 & Hc0 & M & W)]; [now left|].
    destruct (Nat.eq_dec o' o) as [->|Hne].
    + rewrite Hc in Hc0. injection Hc0 as <-. destruct (P3 (eq_sym M)) as [H|[H|H]]; [right|right|now left]; exists o, c'; (split; [assumption|split; [congruence|tauto]]).
    + right. destruct (G o' Hne) as (g & Hg & Gc & _). exists o', (g c0). rewrite Gc, Hc0. split; [reflexivity|]. destruct (Hg c0) as (e1 & _ & e3 & _). split; [congruence|].
      destruct (Hid i o' Hin) as (P1 & P2 & _). rewrite Eq in W.
      destruct W as [W|[[W|W]|[W|W]]]; [left; congruence|congruence|right; now left|right; right; left; now apply P1|right; right; right; now apply P2].
Qed.

(* ---------- DrvOp ---------- *)
Lemma mids_unique s o1 c1 o2 c2 : NoDup (map o_mid (ops s)) -> getop s o1 = Some c1 -> getop s o2 = Some c2 -> o_mid c1 = o_mid c2 -> o1 = o2.
Proof.
  intros Hnd H1 H2 E. unfold getop in *. rewrite NoDup_nth_error in Hnd. apply Hnd.
  - rewrite map_length. apply nth_error_Some. congruence.
  - rewrite !nth_error_map, H1, H2. cbn. now rewrite E.
Qed.
Lemma In_ainsert_keep k v m k' o' : In (k', o') m -> k' <> k -> In (k', o') (ainsert k v m).
Proof. intros H Hne. right. apply In_arem. now split. Qed.
Lemma getop_updop_ne o f s o' : o' <> o -> getop (updop o f s) o' = getop s o'.
Proof. intros H. unfold getop, updop. cbn [ops set]. rewrite nth_upd. destruct (Nat.eqb_spec o' o); [contradiction|reflexivity]. Qed.
Lemma getop_updop_eq o f s : getop (updop o f s) o = option_map f (getop s o).
Proof. unfold getop, updop. cbn [ops set]. rewrite nth_upd. now rewrite Nat.eqb_refl. Qed.

Lemma Lin_op s : Lin s -> NoDup (map o_mid (ops s)) -> fix9 (fx s) = true -> fix15 (fx s) = true -> fix16 (fx s) = true -> fix31 (fx s) = true ->
  is_running (step s DrvOp) = true -> Lin (step s DrvOp).
Proof.
  intros L Hnd F9 F15 F16 F31. unfold step. rewrite F31. destruct (is_running s) eqn:Hr; cbn [negb]; [|intros; exact L]. destruct (opq s) as [|o q] eqn:Eq; [intros; exact L|].
  assert (Ho : In o (opq s)) by (rewrite Eq; now left).
  destruct (l_q s L o Ho) as (c & Hc & R & Nr & Ns & It & Qs & Wq). rewrite Hc, F9, F15, F16. cbn [andb].
  assert (Ur : forall o', ~ In (o_mid c, o') (rmap s)).
  { intros o' H. destruct (l_r s L _ _ H) as (c2 & Hc2 & M2 & _). assert (o' = o) by (eapply mids_unique; eassumption). subst o'. exact (Nr _ H). }
  assert (Us : forall o', ~ In (o_mid c, o') (smap s)).
  { intros o' H. destruct (l_s s L _ _ H) as (c2 & Hc2 & M2 & _). assert (o' = o) by (eapply mids_unique; eassumption). subst o'. exact (Ns _ H). }
  assert (Nkr : alookup (o_mid c) (rmap s) = None). { destruct (alookup (o_mid c) (rmap s)) eqn:E; [|reflexivity]. apply alookup_In in E. now elim (Ur n). }
  assert (Nks : alookup (o_mid c) (smap s) = None). { destruct (alookup (o_mid c) (smap s)) eqn:E; [|reflexivity]. apply alookup_In in E. now elim (Us n). }
  assert (Gid : forall (s' : st) o', getop s' o' = getop s o' -> exists g, soft g /\ getop s' o' = option_map g (getop s o') /\
      (forall c0, o_reply (g c0) <> o_reply c0 -> exists k, In (k, o') (rmap s) /\ forall o2, ~ In (k, o2) (rmap s'))).
  { intros s' o' E. exists (fun c0 => c0). split; [apply soft_id|]. split; [rewrite E; now destruct (getop s o')|]. intros c0 H. now elim H. }
  destruct (o_kind c) eqn:Ek.
  - (* KSingle *) intros _. destruct (waiting c) eqn:Ew; cbn [negb].
    + unfold drop_entry. cbn [rmap set]. rewrite Nkr.
      eapply (Lin_pop s _ o q c c); try eassumption; try reflexivity.
      * intros o' Hne. now apply Gid.
      * intros k o'. cbn [rmap set]. intros H. apply In_ainsert in H as [H|H]; [right; injection H; auto|left; exact H].
      * intros k o' H. now left.
      * intros i H. exact H.
      * intros k _. split; [assumption|]. split; [exact Ew|]. unfold is_search. now rewrite Ek.
      * intros k H. now elim (Ns k).
      * intros i o' Hi. cbn [rmap smap set]. split; [|split; [tauto|]].
        -- intros H. apply In_ainsert_keep; [assumption|]. intros ->. exact (Ur _ H).
        -- intros ->. left. now left.
    + destruct (soft_drop c) as (e1 & e2 & e3 & e4 & e5 & e6).
      eapply (Lin_pop s _ o q c (drop_reply c)); try eassumption; try reflexivity.
      * intros o' Hne. apply Gid. match goal with |- getop (set inuse _ ?x) _ = _ => change (getop x o' = getop s o') end. rewrite getop_updop_ne by assumption. reflexivity.
      * match goal with |- getop (set inuse _ ?x) _ = _ => change (getop x o = Some (drop_reply c)) end. rewrite getop_updop_eq. match goal with |- option_map _ ?x = _ => change x with (getop s o) end. now rewrite Hc.
      * intros k o' H. now left.
      * intros k o' H. now left.
      * intros i. cbn [inuse set updop]. rewrite In_rem. tauto.
      * intros k H. now elim (Nr k).
      * intros k H. now elim (Ns k).
      * intros i o'. cbn [inuse rmap smap set updop]. rewrite In_rem. intros [Hi1 Hi2]. split; [tauto|]. split; [tauto|]. intros ->. now elim Hi1.
  - (* KSearch *) intros _. unfold drop_entry. cbn [smap set]. rewrite Nks.
    destruct (fill_reply_core None c) as (f1 & f2 & f3 & f4 & f5).
    destruct (waiting c) eqn:Ew; cbn [negb].
    + eapply (Lin_pop s _ o q c (fill_reply None c)); try eassumption; try reflexivity.
      * intros o' Hne. apply Gid. rewrite getop_updop_ne by assumption. reflexivity.
      * rewrite getop_updop_eq. match goal with |- option_map _ ?x = _ => change x with (getop s o) end. now rewrite Hc.
      * intros k o' H. now left.
      * intros k o'. cbn [smap set updop]. intros H. apply In_ainsert in H as [H|H]; [right; injection H; auto|left; exact H].
      * intros i H. exact H.
      * intros k H. now elim (Nr k).
      * intros k _. split; [unfold fill_reply; now rewrite R, Ew|]. split; [exact Ew|]. unfold is_search. now rewrite Ek.
      * intros i o' Hi. cbn [rmap smap set updop]. split; [tauto|]. split.
        -- intros H. apply In_ainsert_keep; [assumption|]. intros ->. exact (Us _ H).
        -- intros ->. right. left. now left.
    + eapply (Lin_pop s _ o q c (close_chan (fill_reply None c))); try eassumption; try reflexivity.
      * intros o' Hne. apply Gid. cbn [getop ops set]. change (getop (updop o close_chan (updop o (fill_reply None) s)) o' = getop s o'). now rewrite !getop_updop_ne.
      * cbn [getop ops set]. change (getop (updop o close_chan (updop o (fill_reply None) s)) o = Some (close_chan (fill_reply None c))). rewrite !getop_updop_eq, Hc. reflexivity.
      * intros k o' H. now left.
      * intros k o'. cbn [smap set updop]. rewrite In_arem. intros [H1 H]. apply In_ainsert in H as [H|H]; [injection H; intros; contradiction|now left].
      * intros i. cbn [inuse set updop]. rewrite In_rem. tauto.
      * intros k H. now elim (Nr k).
      * intros k. cbn [smap set updop]. rewrite In_arem. intros [H1 H]. apply In_ainsert in H as [H|H]; [injection H; intros; contradiction|now elim (Ns k)].
      * intros i o'. cbn [inuse rmap smap set updop]. rewrite In_rem. intros [Hi1 Hi2]. split; [tauto|]. split.
        -- intros H. apply In_arem. assert (i <> o_mid c) by (intros ->; exact (Us _ H)). split; [assumption|]. now apply In_ainsert_keep.
        -- intros ->. now elim Hi1.
  - (* KAbandon *) intros _. rename target into t.
    set (s0 := s <| opq := q |> <| wout ::= fun w => w ++ [(o_mid c, KAbandon t)] |>).
    destruct (abandon_hit s0 t) eqn:Eh.
    + (* a routing entry for t existed: t is released as well *)
      set (s1 := drop_entry (rmap s0) t drop_reply s0 <| rmap ::= aremove t |>).
      set (s2 := drop_entry (smap s1) t close_chan s1 <| smap ::= aremove t |>).
      set (s4 := s2 <| inuse ::= rem (o_mid c) |> <| inuse ::= rem t |>).
      destruct (fill_reply_core None c) as (f1 & f2 & f3 & f4 & f5).
      assert (G2 : forall o', exists g, soft g /\ getop s4 o' = option_map g (getop s o') /\ (forall c0, o_reply (g c0) <> o_reply c0 -> In (t, o') (rmap s))).
      { intros o'. change (getop s4 o') with (getop (drop_entry (smap s1) t close_chan s1) o'). rewrite getop_drop_entry.
        change (getop s1 o') with (getop (drop_entry (rmap s0) t drop_reply s0) o'). rewrite getop_drop_entry.
        change (getop s0 o') with (getop s o'). change (rmap s0) with (rmap s).
        destruct (alookup t (rmap s)) as [orr|] eqn:Er; [destruct (Nat.eqb o' orr) eqn:Eo|];
        (destruct (alookup t (smap s1)) as [os|]; [destruct (Nat.eqb o' os)|]).
        all: try (exists (fun c => close_chan (drop_reply c)); split; [apply soft_comp; [apply soft_close|apply soft_drop]|split; [now destruct (getop s o')|intros; apply Nat.eqb_eq in Eo; subst; now apply alookup_In]]).
        all: try (exists drop_reply; split; [apply soft_drop|split; [reflexivity|intros; apply Nat.eqb_eq in Eo; subst; now apply alookup_In]]).
        all: try (exists close_chan; split; [apply soft_close|split; [reflexivity|intros c0 Hne; now elim Hne]]).
        all: exists (fun c => c); (split; [apply soft_id|split; [now destruct (getop s o')|intros c0 Hne; now elim Hne]]). }
      assert (Rm : rmap s4 = aremove t (rmap s)) by (unfold s4, s2, s1, drop_entry; destruct (alookup t (rmap s0)); de_solve).
      assert (Sm : smap s4 = aremove t (smap s)) by (unfold s4, s2, s1, drop_entry; destruct (alookup t (rmap s0)); de_solve).
      assert (Iu : inuse s4 = rem t (rem (o_mid c) (inuse s))) by (unfold s4, s2, s1, drop_entry; destruct (alookup t (rmap s0)); de_solve).
      assert (Sq : scrubq s4 = scrubq s) by (unfold s4, s2, s1, drop_entry; destruct (alookup t (rmap s0)); de_solve).
      assert (Oq : opq s4 = q) by (unfold s4, s2, s1, drop_entry; destruct (alookup t (rmap s0)); de_solve).
      clearbody s4. clear Eh. clear s2 s1 s0.
      destruct (G2 o) as (g0 & Hg0 & Gc0 & Gr0). destruct (Hg0 c) as (d1 & d2 & d3 & d4 & d5 & d6).
      destruct (fill_reply_core None (g0 c)) as (h1 & h2 & h3 & h4 & h5).
      eapply (Lin_pop s _ o q c (fill_reply None (g0 c))); try eassumption; try congruence.
      * intros o' Hne. destruct (G2 o') as (g & Hg & Gc & Gr). exists g. split; [assumption|]. split; [now rewrite getop_updop_ne|].
        intros c0 H. exists t. split; [now apply (Gr c0)|]. intros o2. cbn [rmap set updop]. rewrite Rm, In_arem. tauto.
      * rewrite getop_updop_eq, Gc0, Hc. reflexivity.
      * intros k o'. cbn [rmap set updop]. rewrite Rm, In_arem. tauto.
      * intros k o'. cbn [smap set updop]. rewrite Sm, In_arem. tauto.
      * intros i. cbn [inuse set updop]. rewrite Iu, !In_rem. tauto.
      * intros k. cbn [rmap set updop]. rewrite Rm, In_arem. intros [_ H]. now elim (Nr k).
      * intros k. cbn [smap set updop]. rewrite Sm, In_arem. intros [_ H]. now elim (Ns k).
      * intros i o'. cbn [inuse rmap smap set updop]. rewrite Iu, Rm, Sm, !In_rem, !In_arem. tauto.

    + (* no routing entry for t: only the Abandon's own id is released *)
      assert (Nhr : forall o', ~ In (t, o') (rmap s)).
      { intros o' H. unfold abandon_hit in Eh. change (rmap s0) with (rmap s) in Eh. destruct (In_alookup_some _ _ _ H) as (x & Hx). now rewrite Hx in Eh. }
      assert (Nhs : forall o', ~ In (t, o') (smap s)).
      { intros o' H. unfold abandon_hit in Eh. change (smap s0) with (smap s) in Eh. destruct (In_alookup_some _ _ _ H) as (x & Hx). rewrite Hx in Eh. now destruct (alookup t (rmap s0)). }
      set (s1 := drop_entry (rmap s0) t drop_reply s0 <| rmap ::= aremove t |>).
      set (s2 := drop_entry (smap s1) t close_chan s1 <| smap ::= aremove t |>).
      set (s4 := s2 <| inuse ::= rem (o_mid c) |>).
      destruct (fill_reply_core None c) as (f1 & f2 & f3 & f4 & f5).
      assert (G2 : forall o', exists g, soft g /\ getop s4 o' = option_map g (getop s o') /\ (forall c0, o_reply (g c0) <> o_reply c0 -> In (t, o') (rmap s))).
      { intros o'. change (getop s4 o') with (getop (drop_entry (smap s1) t close_chan s1) o'). rewrite getop_drop_entry.
        change (getop s1 o') with (getop (drop_entry (rmap s0) t drop_reply s0) o'). rewrite getop_drop_entry.
        change (getop s0 o') with (getop s o'). change (rmap s0) with (rmap s).
        destruct (alookup t (rmap s)) as [orr|] eqn:Er; [destruct (Nat.eqb o' orr) eqn:Eo|];
        (destruct (alookup t (smap s1)) as [os|]; [destruct (Nat.eqb o' os)|]).
        all: try (exists (fun c => close_chan (drop_reply c)); split; [apply soft_comp; [apply soft_close|apply soft_drop]|split; [now destruct (getop s o')|intros; apply Nat.eqb_eq in Eo; subst; now apply alookup_In]]).
        all: try (exists drop_reply; split; [apply soft_drop|split; [reflexivity|intros; apply Nat.eqb_eq in Eo; subst; now apply alookup_In]]).
        all: try (exists close_chan; split; [apply soft_close|split; [reflexivity|intros c0 Hne; now elim Hne]]).
        all: exists (fun c => c); (split; [apply soft_id|split; [now destruct (getop s o')|intros c0 Hne; now elim Hne]]). }
      assert (Rm : rmap s4 = aremove t (rmap s)) by (unfold s4, s2, s1, drop_entry; destruct (alookup t (rmap s0)); de_solve).
      assert (Sm : smap s4 = aremove t (smap s)) by (unfold s4, s2, s1, drop_entry; destruct (alookup t (rmap s0)); de_solve).
      assert (Iu : inuse s4 = rem (o_mid c) (inuse s)) by (unfold s4, s2, s1, drop_entry; destruct (alookup t (rmap s0)); de_solve).
      assert (Sq : scrubq s4 = scrubq s) by (unfold s4, s2, s1, drop_entry; destruct (alookup t (rmap s0)); de_solve).
      assert (Oq : opq s4 = q) by (unfold s4, s2, s1, drop_entry; destruct (alookup t (rmap s0)); de_solve).
      clearbody s4. clear Eh. clear s2 s1 s0.
      destruct (G2 o) as (g0 & Hg0 & Gc0 & Gr0). destruct (Hg0 c) as (d1 & d2 & d3 & d4 & d5 & d6).
      destruct (fill_reply_core None (g0 c)) as (h1 & h2 & h3 & h4 & h5).
      eapply (Lin_pop s _ o q c (fill_reply None (g0 c))); try eassumption; try congruence.
      * intros o' Hne. destruct (G2 o') as (g & Hg & Gc & Gr). exists g. split; [assumption|]. split; [now rewrite getop_updop_ne|].
        intros c0 H. exists t. split; [now apply (Gr c0)|]. intros o2. cbn [rmap set updop]. rewrite Rm, In_arem. tauto.
      * rewrite getop_updop_eq, Gc0, Hc. reflexivity.
      * intros k o'. cbn [rmap set updop]. rewrite Rm, In_arem. tauto.
      * intros k o'. cbn [smap set updop]. rewrite Sm, In_arem. tauto.
      * intros i. cbn [inuse set updop]. rewrite Iu, !In_rem. tauto.
      * intros k. cbn [rmap set updop]. rewrite Rm, In_arem. intros [_ H]. now elim (Nr k).
      * intros k. cbn [smap set updop]. rewrite Sm, In_arem. intros [_ H]. now elim (Ns k).
      * intros i o'. cbn [inuse rmap smap set updop]. rewrite Iu, Rm, Sm, !In_rem, !In_arem. intros [Hi1 Hi2].
        split; [intros H; split; [intros ->; exact (Nhr _ H)|exact H]|]. split; [intros H; split; [intros ->; exact (Nhs _ H)|exact H]|]. intros ->. now elim Hi1.

  - (* KUnbind *) intros H. discriminate H.
Qed.

(* ---------- fields no event writes ---------- *)
Lemma fx_drop_entry m k f s : fx (drop_entry m k f s) = fx s. Proof. unfold drop_entry. now destruct (alookup k m). Qed.
Lemma drv_drop_entry m k f s : drv (drop_entry m k f s) = drv s. Proof. unfold drop_entry. now destruct (alookup k m). Qed.
Lemma fx_fold {A} (g : st -> A -> st) (l : list A) : (forall s a, fx (g s a) = fx s) -> forall s, fx (fold_left g l s) = fx s.
Proof. intros Hg. induction l as [|a l IH]; intros s; cbn [fold_left]; [reflexivity|]. now rewrite IH, Hg. Qed.
Lemma fx_end_driver h s : fx (end_driver h s) = fx s.
Proof. unfold end_driver. cbn [fx set]. rewrite !fx_fold; reflexivity. Qed.
Ltac projt P lem1 lem2 :=
  repeat first [ reflexivity | rewrite lem1 | rewrite lem2 | progress cbn [P set updop] | progress cbv zeta
               | match goal with
                 | |- context [match ?x with _ => _ end] => destruct x
                 end ].
Lemma fx_step s e : fx (step s e) = fx s.
Proof. destruct e; unfold step, alloc, enqueue; projt fx fx_end_driver fx_drop_entry. Qed.
Lemma drv_step_ended s e : is_running s = false -> drv (step s e) = drv s.
Proof. intros H. destruct e; unfold step, alloc, enqueue; rewrite ?H; cbn [negb]; try reflexivity; projt drv drv_drop_entry drv_drop_entry. Qed.
Lemma running_back s e : is_running (step s e) = true -> is_running s = true.
Proof. destruct (is_running s) eqn:E; [reflexivity|]. intros H. unfold is_running in H. rewrite (drv_step_ended s e E) in H. fold (is_running s) in H. congruence. Qed.

(* ---------- message ids of existing ops never change, so distinctness is inherited by every prefix ---------- *)
Lemma oext_mids_nodup l l' : oext l l' -> NoDup (map o_mid l') -> NoDup (map o_mid l).
Proof.
  intros (Hlen & Hfw & _) Hnd. rewrite NoDup_nth_error in *. intros i j Hi E. rewrite map_length in Hi.
  rewrite !nth_error_map in E. destruct (nth_error l i) as [ci|] eqn:Ei; [|apply nth_error_None in Ei; lia].
  destruct (nth_error l j) as [cj|] eqn:Ej; [|discriminate]. cbn in E. injection E as E.
  destruct (Hfw _ _ Ei) as (ci' & Ei' & Mi & _). destruct (Hfw _ _ Ej) as (cj' & Ej' & Mj & _).
  apply Hnd. { rewrite map_length. apply nth_error_Some. congruence. }
  rewrite !nth_error_map, Ei', Ej'. cbn. congruence.
Qed.

(* ---------- every event preserves the invariant on the repaired model, while the driver runs ---------- *)
(* [DrvEnd Running] is an artefact of reusing [dstatus] as the event's argument: a driver does not end into the running state *)
Definition wf_ev (e : ev) : Prop := e <> DrvEnd Running.
Theorem step_Lin s e : wf_ev e -> keyed s -> Lin s -> Chan s -> Al s -> fx s = repaired -> is_running (step s e) = true -> NoDup (map o_mid (ops (step s e))) -> Lin (step s e).
Proof.
  intros We K L CH AL F Hr' Hnd. pose proof (running_back s e Hr') as Hr.
  assert (Hnd0 : NoDup (map o_mid (ops s))) by (eapply oext_mids_nodup; [apply (step_sext s e K)|exact Hnd]).
  destruct e.
  - now apply Lin_start.
  - apply Lin_op; try assumption; now rewrite F.
  - now apply Lin_scrub.
  - apply Lin_resp; try assumption; now rewrite F.
  - unfold step in Hr'. rewrite Hr in Hr'. unfold step. rewrite Hr. exfalso. unfold end_driver, is_running in Hr'. cbn [drv set] in Hr'. destruct how; try discriminate. now elim We.
  - apply (Lin_same s); try reflexivity. exact L.
  - now apply Lin_clipoll.
  - apply Lin_streamnext; try assumption; now rewrite F.
  - apply Lin_streamfinish; try assumption; now rewrite F.
  - apply (Lin_same s); try reflexivity. exact L.
  - apply (Lin_same s); try reflexivity. exact L.
  - now apply Lin_dropcall.
  - now apply Lin_alloc.
  - now apply Lin_enqueue.
Qed.

(* ---------- the companion invariant is preserved as well ---------- *)
(* one operation record changes through g, the search map does not grow, the scrub queue does not shrink, the op queue does not grow *)
Lemma Chan_upd1 s s' o c g : Chan s -> Lin s -> getop s o = Some c ->
  (forall o', getop s' o' = if Nat.eqb o' o then Some (g c) else getop s o') ->
  (forall k o', In (k, o') (smap s') -> In (k, o') (smap s)) ->
  (forall o', In o' (opq s') -> In o' (opq s)) ->
  (forall x, In x (scrubq s) -> In x (scrubq s')) ->
  (In (o_mid c, o) (smap s') -> o_chan (g c) = true /\ (o_status (g c) = SError -> In (o_mid c) (scrubq s'))) ->
  (In o (opq s') -> is_search c -> o_chan (g c) = true) -> (is_search (g c) -> is_search c) ->
  Chan s'.
Proof.
  intros [C1 C2] L Hc G Is Iq Isq Hs Hq Hk. split.
  - intros k o' c' Hin Hg. rewrite G in Hg. destruct (Nat.eqb_spec o' o) as [->|Hne].
    + injection Hg as <-. destruct (l_s s L k o (Is _ _ Hin)) as (c0 & Hc0 & M & _). rewrite Hc in Hc0. injection Hc0 as <-. subst k. now apply Hs.
    + destruct (C1 k o' c' (Is _ _ Hin) Hg) as [A B]. split; [exact A|]. intros E. apply Isq. now apply B.
  - intros o' c' Hin Hg IS. rewrite G in Hg. destruct (Nat.eqb_spec o' o) as [->|Hne].
    + injection Hg as <-. apply Hq; [assumption|now apply Hk].
    + exact (C2 o' c' (Iq _ Hin) Hg IS).
Qed.
Lemma G_updop s o c g : getop s o = Some c -> forall o', getop (updop o g s) o' = if Nat.eqb o' o then Some (g c) else getop s o'.
Proof. intros Hc o'. unfold getop, updop. cbn [ops set]. rewrite nth_upd. unfold getop in Hc. destruct (Nat.eqb_spec o' o) as [->|]; [now rewrite Hc|reflexivity]. Qed.
Lemma Chan_same s s' : Chan s -> ops s' = ops s -> opq s' = opq s -> smap s' = smap s -> scrubq s' = scrubq s -> Chan s'.
Proof. intros [C1 C2] Eo Eq Es Esq. unfold Chan, getop. rewrite Eo, Eq, Es, Esq. split; assumption. Qed.

Ltac chan_k K Hc := eapply K; [apply (G_updop _ _ _ _ Hc)|..]; try reflexivity; try tauto.
Lemma Chan_clipoll s o : Lin s -> Chan s -> Chan (step s (CliPoll o)).
Proof.
  intros L CH. unfold step. destruct (getop s o) as [c|] eqn:Hc; [|exact CH]. destruct (waiting c) eqn:Hw; cbn [negb]; [|exact CH].
  assert (Hst : o_status c = CWait) by (unfold waiting in Hw; destruct (o_status c); congruence).
  destruct (CH) as [C1 C2].
  assert (K : forall (s' : st) g, (forall o', getop s' o' = if Nat.eqb o' o then Some (g c) else getop s o') -> smap s' = smap s -> opq s' = opq s ->
     (forall x, In x (scrubq s) -> In x (scrubq s')) -> o_chan (g c) = o_chan c -> o_kind (g c) = o_kind c -> o_status (g c) <> SError -> Chan s').
  { intros s' g G Es Eq Esq Ech Ek Est. apply (Chan_upd1 s s' o c g CH L Hc G); try (rewrite ?Es, ?Eq; tauto); try assumption.
    - rewrite Es. intros Hin. rewrite Ech. split; [exact (proj1 (C1 _ _ _ Hin Hc))|]. intros E. now elim Est.
    - rewrite Eq, Ech. intros Hin IS. exact (C2 _ _ Hin Hc IS).
    - unfold is_search. now rewrite Ek. }
  destruct (o_reply c).
  - destruct (o_deadline c) as [d|]; [|exact CH]. destruct (d <=? now s); [|exact CH].
    destruct (is_running s); chan_k K Hc.
    all: try (intros x Hx; cbn [scrubq set updop]; apply in_or_app; now left).
    all: cbn; destruct (o_kind c); discriminate.
  - chan_k K Hc. cbn; destruct (o_kind c); discriminate.
  - chan_k K Hc. cbn; destruct (o_kind c); discriminate.
Qed.

Lemma Chan_streamnext s o : Lin s -> Chan s -> is_running s = true -> fix25 (fx s) = true -> Chan (step s (StreamNext o)).
Proof.
  intros L CH Hr H25. unfold step, scrub_id. rewrite H25. destruct (getop s o) as [c|] eqn:Hc; [|exact CH]. destruct (o_status c) eqn:Hst; try exact CH.
  destruct (CH) as [C1 C2].
  assert (Nq : ~ In o (opq s)). { intros Hin. destruct (l_q s L o Hin) as (c' & Hc' & _ & _ & _ & _ & Q & _). rewrite Hc in Hc'. injection Hc' as <-. unfold qstat in Q. now rewrite Hst in Q. }
  assert (K : forall (s' : st) g, (forall o', getop s' o' = if Nat.eqb o' o then Some (g c) else getop s o') -> smap s' = smap s -> opq s' = opq s ->
     (forall x, In x (scrubq s) -> In x (scrubq s')) -> o_chan (g c) = o_chan c -> o_kind (g c) = o_kind c ->
     (o_status (g c) = SError -> o_chan c = false \/ In (o_mid c) (scrubq s')) -> Chan s').
  { intros s' g G Es Eq Esq Ech Ek Est. apply (Chan_upd1 s s' o c g CH L Hc G); try (rewrite ?Es, ?Eq; tauto); try assumption.
    - rewrite Es. intros Hin. rewrite Ech. destruct (C1 _ _ _ Hin Hc) as [A _]. split; [exact A|]. intros E. destruct (Est E) as [F|F]; [congruence|exact F].
    - unfold is_search. now rewrite Ek. }
  destruct (o_rx c); cbn [negb].
  2: { chan_k K Hc. cbn; discriminate. }
  destruct (nth_error (o_items c) (o_taken c)) as [r|].
  - destruct (r_kind r); try destruct (o_kind c) as [|[|]| |] eqn:Eko; chan_k K Hc.
    all: cbn; try (rewrite Hst; discriminate).
    all: destruct (o_kind c) as [| [|] | |]; try destruct (fix7 (fx s)); cbn; try discriminate; rewrite ?Hst; discriminate.
  - destruct (o_chan c) eqn:Ech; cbn [negb].
    + destruct (o_tmo c) as [d|].
      * match goal with |- context [if ?b then _ else _] => destruct b end.
        -- rewrite Hr. chan_k K Hc.
           ++ intros x Hx; cbn [scrubq set updop]; apply in_or_app; now left.
           ++ intros _. right. cbn [scrubq set updop]. apply in_or_app. right. now left.
        -- chan_k K Hc. cbn; rewrite Hst; discriminate.
      * chan_k K Hc. cbn; rewrite Hst; discriminate.
    + chan_k K Hc. 
Qed.

Lemma Chan_streamfinish s o : Lin s -> Chan s -> fix25 (fx s) = true -> Chan (step s (StreamFinish o)).
Proof.
  intros L CH H25. unfold step, scrub_id. rewrite H25. destruct (getop s o) as [c|] eqn:Hc; [|exact CH].
  destruct (CH) as [C1 C2].
  assert (K : forall (s' : st) g, (forall o', getop s' o' = if Nat.eqb o' o then Some (g c) else getop s o') -> smap s' = smap s -> opq s' = opq s ->
     (forall x, In x (scrubq s) -> In x (scrubq s')) -> o_chan (g c) = o_chan c -> o_kind (g c) = o_kind c -> o_status (g c) <> SError -> Chan s').
  { intros s' g G Es Eq Esq Ech Ek Est. apply (Chan_upd1 s s' o c g CH L Hc G); try (rewrite ?Es, ?Eq; tauto); try assumption.
    - rewrite Es. intros Hin. rewrite Ech. split; [exact (proj1 (C1 _ _ _ Hin Hc))|]. intros E. now elim Est.
    - rewrite Eq, Ech. intros Hin IS. exact (C2 _ _ Hin Hc IS).
    - unfold is_search. now rewrite Ek. }
  destruct (o_status c); try exact CH; try destruct (fix20 (fx s)); destruct (is_running s); chan_k K Hc.
  all: try (intros x Hx; cbn [scrubq set updop]; apply in_or_app; now left).
  all: cbn; discriminate.
Qed.

Lemma Chan_dropcall s o : Lin s -> Chan s -> Chan (step s (DropCall o)).
Proof.
  intros L CH. unfold step. destruct (getop s o) as [c|] eqn:Hc; [|exact CH]. destruct (o_status c) eqn:Hst; try exact CH.
  destruct (CH) as [C1 C2].
  apply (Chan_upd1 s _ o c (fun c0 => c0 <| o_call := None |>) CH L Hc (G_updop _ _ _ _ Hc)); try (cbn [smap opq scrubq set updop]; tauto).
  - cbn [smap scrubq set updop o_chan o_status]. intros Hin. destruct (C1 _ _ _ Hin Hc) as [A B]. split; [exact A|]. rewrite Hst. discriminate.
  - cbn [opq set updop o_chan]. intros Hin IS. exact (C2 _ _ Hin Hc IS).
Qed.

Lemma Chan_start s k tmo : Lin s -> Chan s -> is_running s = true -> Chan (step s (Start k tmo)).
Proof.
  intros L [C1 C2] Hr. unfold step. destruct (next_msgid (last s) (inuse s)) as [mid| |]; try (split; assumption). rewrite Hr.
  set (onew := mkOp mid k (option_map (Z.add (now s)) tmo) CWait OsEmpty [] 0
                    (match k with KSearch _ => true | _ => false end) (match k with KSearch _ => true | _ => false end) [] None tmo None).
  set (n := length (ops s)).
  set (s' := s <| last := mid |> <| inuse ::= cons mid |> <| ops ::= fun l => l ++ [onew] |> <| opq ::= fun q => q ++ [n] |>).
  assert (G : forall o, getop s' o = if Nat.ltb o n then getop s o else if Nat.eqb o n then Some onew else None).
  { intros o. unfold getop, s', n. cbn [ops set]. destruct (Nat.ltb_spec o (length (ops s))); [now rewrite nth_error_app1|].
    rewrite nth_error_app2 by lia. destruct (Nat.eqb_spec o (length (ops s))) as [->|]; [now rewrite Nat.sub_diag|].
    destruct (o - length (ops s))%nat as [|[|m]] eqn:E; [lia|reflexivity|reflexivity]. }
  assert (Hlt : forall o c, getop s o = Some c -> (o < n)%nat) by (intros o c H; unfold n; apply nth_error_Some; unfold getop in H; congruence).
  split.
  - intros k0 o c Hin Hg. change (smap s') with (smap s) in Hin. change (scrubq s') with (scrubq s).
    destruct (l_s s L k0 o Hin) as (c0 & Hc0 & _). rewrite G in Hg. destruct (Nat.ltb_spec o n); [|pose proof (Hlt o c0 Hc0); lia].
    exact (C1 k0 o c Hin Hg).
  - intros o c Hin Hg IS. change (In o (opq s ++ [n])) in Hin. rewrite G in Hg. apply in_app_or in Hin as [Hin|[<-|[]]].
    + destruct (l_q s L o Hin) as (c0 & Hc0 & _). destruct (Nat.ltb_spec o n); [|pose proof (Hlt o c0 Hc0); lia]. exact (C2 o c Hin Hg IS).
    + destruct (Nat.ltb_spec n n); [lia|]. rewrite Nat.eqb_refl in Hg. injection Hg as <-. unfold is_search, onew in IS. cbn in IS. unfold onew. cbn. destruct k; try contradiction; reflexivity.
Qed.


Lemma Chan_alloc s k tmo : Lin s -> Chan s -> Chan (step s (Alloc k tmo)).
Proof.
  intros L [C1 C2]. cbn [step]. unfold alloc. destruct (next_msgid (last s) (inuse s)) as [mid| |]; try (split; assumption).
  set (onew := mkOp mid k None CAlloc OsClosed [] 0 false false [] None tmo None).
  set (n := length (ops s)).
  set (s' := s <| last := mid |> <| inuse ::= cons mid |> <| ops ::= fun l => l ++ [onew] |>).
  assert (G : forall o, getop s' o = if Nat.ltb o n then getop s o else if Nat.eqb o n then Some onew else None).
  { intros o. unfold getop, s', n. cbn [ops set]. destruct (Nat.ltb_spec o (length (ops s))); [now rewrite nth_error_app1|].
    rewrite nth_error_app2 by lia. destruct (Nat.eqb_spec o (length (ops s))) as [->|]; [now rewrite Nat.sub_diag|].
    destruct (o - length (ops s))%nat as [|[|m]] eqn:E; [lia|reflexivity|reflexivity]. }
  assert (Hlt : forall o c, getop s o = Some c -> (o < n)%nat) by (intros o c H; unfold n; apply nth_error_Some; unfold getop in H; congruence).
  split.
  - intros k0 o c Hin Hg. change (smap s') with (smap s) in Hin. change (scrubq s') with (scrubq s).
    destruct (l_s s L k0 o Hin) as (c0 & Hc0 & _). rewrite G in Hg. destruct (Nat.ltb_spec o n); [|pose proof (Hlt o c0 Hc0); lia].
    exact (C1 k0 o c Hin Hg).
  - intros o c Hin Hg IS. change (In o (opq s)) in Hin. rewrite G in Hg.
    destruct (l_q s L o Hin) as (c0 & Hc0 & _). destruct (Nat.ltb_spec o n); [|pose proof (Hlt o c0 Hc0); lia]. exact (C2 o c Hin Hg IS).
Qed.

Lemma Chan_enqueue s o : Lin s -> Al s -> Chan s -> Chan (step s (Enqueue o)).
Proof.
  intros L A [C1 C2]. cbn [step]. unfold enqueue. destruct (getop s o) as [c|] eqn:Hc; [|split; assumption]. destruct (o_status c) eqn:Hst; try (split; assumption).
  destruct (A o c Hc Hst) as (Rc & Xc & Cc & Ic).
  assert (Ns : forall k0, ~ In (k0, o) (smap s)). { intros k0 H. destruct (l_s s L k0 o H) as (c' & Hc' & _ & R & _). rewrite Hc in Hc'. injection Hc' as <-. congruence. }
  assert (Nq : ~ In o (opq s)). { intros H. destruct (l_q s L o H) as (c' & Hc' & R & _). rewrite Hc in Hc'. injection Hc' as <-. congruence. }
  destruct (is_running s).
  - match goal with |- Chan (set opq _ (updop _ ?g0 _)) => set (g := g0) end.
    assert (G : forall o', getop (updop o g s <| opq ::= fun q => q ++ [o] |>) o' = if Nat.eqb o' o then Some (g c) else getop s o').
    { intros o'. change (getop (updop o g s) o' = if Nat.eqb o' o then Some (g c) else getop s o'). now apply G_updop. }
    split.
    + intros k0 o' c' Hin Hg. change (In (k0, o') (smap s)) in Hin. rewrite G in Hg. destruct (Nat.eqb_spec o' o) as [->|Hne]; [now elim (Ns k0)|]. exact (C1 k0 o' c' Hin Hg).
    + intros o' c' Hin Hg IS. change (In o' (opq s ++ [o])) in Hin. rewrite G in Hg. destruct (Nat.eqb_spec o' o) as [->|Hne].
      * injection Hg as <-. unfold is_search in IS. cbn in IS. cbn. destruct (o_kind c); try contradiction; reflexivity.
      * apply in_app_or in Hin as [Hin|[E|[]]]; [|now elim Hne]. exact (C2 o' c' Hin Hg IS).
  - match goal with |- Chan (set inuse _ ?x) => apply (Chan_same x); [|reflexivity..] end.
    match goal with |- Chan (updop _ ?g0 _) => set (g := g0) end.
    pose proof (G_updop s o c g Hc) as G.
    split.
    + intros k0 o' c' Hin Hg. change (In (k0, o') (smap s)) in Hin. rewrite G in Hg. destruct (Nat.eqb_spec o' o) as [->|Hne]; [now elim (Ns k0)|]. exact (C1 k0 o' c' Hin Hg).
    + intros o' c' Hin Hg IS. change (In o' (opq s)) in Hin. rewrite G in Hg. destruct (Nat.eqb_spec o' o) as [->|Hne]; [contradiction|]. exact (C2 o' c' Hin Hg IS).
Qed.

(* the two drops a scrub / an abandon performs: which fields of which operation they touch *)
Lemma getop_two_drops s id o :
  let s1 := drop_entry (rmap s) id drop_reply s <| rmap ::= aremove id |> in
  let s2 := drop_entry (smap s1) id close_chan s1 in
  exists g, getop s2 o = option_map g (getop s o) /\
    forall c, o_status (g c) = o_status c /\ o_kind (g c) = o_kind c /\ o_mid (g c) = o_mid c /\ (o_chan (g c) = o_chan c \/ In (id, o) (smap s)).
Proof.
  cbv zeta. rewrite getop_drop_entry.
  assert (Es : smap (drop_entry (rmap s) id drop_reply s <| rmap ::= aremove id |>) = smap s) by (unfold drop_entry; destruct (alookup id (rmap s)); reflexivity).
  rewrite Es. change (getop (drop_entry (rmap s) id drop_reply s <| rmap ::= aremove id |>) o) with (getop (drop_entry (rmap s) id drop_reply s) o).
  rewrite getop_drop_entry.
  assert (D : forall c, o_status (drop_reply c) = o_status c /\ o_kind (drop_reply c) = o_kind c /\ o_mid (drop_reply c) = o_mid c /\ o_chan (drop_reply c) = o_chan c)
    by (intros c; unfold drop_reply; destruct (o_reply c); repeat split).
  destruct (alookup id (smap s)) as [os|] eqn:Eos; [destruct (Nat.eqb_spec o os) as [<-|]|];
  (destruct (alookup id (rmap s)) as [orr|]; [destruct (Nat.eqb o orr)|]).
  all: try (exists (fun c => close_chan (drop_reply c)); split; [now destruct (getop s o)|intros c; destruct (D c) as (d1 & d2 & d3 & d4); repeat split; try assumption; right; now apply alookup_In]).
  all: try (exists close_chan; split; [reflexivity|intros c; repeat split; right; now apply alookup_In]).
  all: try (exists drop_reply; split; [reflexivity|intros c; destruct (D c) as (d1 & d2 & d3 & d4); repeat split; try assumption; now left]).
  all: exists (fun c => c); (split; [now destruct (getop s o)|intros c; repeat split; now left]).
Qed.

Lemma Chan_scrub s : Lin s -> Chan s -> Chan (step s DrvScrub).
Proof.
  intros L CH. unfold step. destruct (is_running s); cbn [negb]; [|exact CH]. destruct (scrubq s) as [|id q] eqn:Q; [exact CH|]. destruct CH as [C1 C2]. rewrite Q in C1.
  set (s1 := drop_entry (rmap s) id drop_reply s <| rmap ::= aremove id |>).
  set (s2 := drop_entry (smap s1) id close_chan s1).
  assert (Sm : smap s2 = smap s) by (unfold s2, s1, drop_entry; destruct (alookup id (rmap s)); de_solve).
  assert (Oq : opq s2 = opq s) by (unfold s2, s1, drop_entry; destruct (alookup id (rmap s)); de_solve).
  assert (G : forall o, exists g, getop s2 o = option_map g (getop s o) /\
    forall c, o_status (g c) = o_status c /\ o_kind (g c) = o_kind c /\ o_mid (g c) = o_mid c /\ (o_chan (g c) = o_chan c \/ In (id, o) (smap s)))
    by (intros o; exact (getop_two_drops s id o)).
  clearbody s2. clear s1.
  split.
  - intros k o c'. cbn [smap scrubq set]. rewrite Sm. intros Hin Hg. apply In_arem in Hin as [Hk Hin].
    change (getop s2 o = Some c') in Hg. destruct (G o) as (g & Gc & Gp). rewrite Gc in Hg. destruct (l_s s L k o Hin) as (c & Hc & M & _). rewrite Hc in Hg. injection Hg as <-.
    destruct (Gp c) as (g1 & g2 & g3 & g4). destruct (C1 k o c Hin Hc) as [A B]. split.
    + destruct g4 as [g4|g4]; [congruence|]. exfalso. destruct (l_s s L id o g4) as (c2 & Hc2 & M2 & _). congruence.
    + rewrite g1. intros E. specialize (B E). destruct B as [B|B]; [congruence|exact B].
  - intros o c'. cbn [opq set]. rewrite Oq. intros Hin Hg IS. change (getop s2 o = Some c') in Hg. destruct (G o) as (g & Gc & Gp). rewrite Gc in Hg.
    destruct (l_q s L o Hin) as (c & Hc & _ & _ & Ns & _). rewrite Hc in Hg. injection Hg as <-. destruct (Gp c) as (g1 & g2 & g3 & g4).
    destruct g4 as [g4|g4]; [|now elim (Ns id)]. rewrite g4. apply (C2 o c Hin Hc). unfold is_search in *. now rewrite <- g2.
Qed.

Lemma Chan_end how s : Chan (end_driver how s).
Proof. unfold end_driver. split; cbn [smap opq set]; intros; contradiction. Qed.

Lemma Chan_resp s : Lin s -> Chan s -> fix8 (fx s) = true -> Chan (step s DrvResp).
Proof.
  intros L CH F8. unfold step. destruct (is_running s) eqn:Hr; cbn [negb]; [|exact CH]. destruct (win s) as [|r w]; [exact CH|].
  destruct (alookup (r_mid r) (smap s)) as [o|] eqn:Es.
  - pose proof (alookup_In _ _ _ Es) as Hin. destruct (l_s s L _ _ Hin) as (c & Hc & M & R & W & ND & IS).
    assert (Hnq : ~ In o (opq s)). { intros H. destruct (l_q s L o H) as (c' & _ & _ & _ & Ns & _). exact (Ns _ Hin). }
    destruct (proj1 CH _ _ _ Hin Hc) as [Cc Ce].
    rewrite Hc, F8.
    destruct (r_kind r) eqn:Ek; [| | | |destruct (fix5 (fx s)); [apply (Chan_same s); try reflexivity; exact CH|apply Chan_end]].
    all: destruct (o_rx c) eqn:Erx; cbn [negb].
    7: apply (Chan_upd1 s _ o c (fun c0 => close_chan (c0 <| o_items ::= fun l => l ++ [r] |>)) CH L Hc).
    1,3,5: apply (Chan_upd1 s _ o c (fun c0 => c0 <| o_items ::= fun l => l ++ [r] |>) CH L Hc).
    all: try apply (Chan_upd1 s _ o c close_chan CH L Hc).
    all: try (intros o'; unfold getop, updop; cbn [ops set]; rewrite ?nth_upd; unfold getop in Hc; destruct (Nat.eqb_spec o' o) as [->|]; [rewrite Hc; cbn [option_map]; reflexivity|reflexivity]).
    all: try (intros k o'; cbn [smap set updop]; try rewrite In_arem; tauto).
    all: try (intros o'; cbn [opq set updop]; tauto).
    all: try (intros x; cbn [scrubq set updop]; tauto).
    all: try (cbn [opq set updop]; intros Hq; contradiction).
    all: try (cbn [is_search o_kind set close_chan]; unfold is_search; cbn; tauto).
    all: cbn [smap scrubq set updop]; try rewrite In_arem; intros Hs.
    all: try (exfalso; destruct Hs as [Hs _]; apply Hs; exact M).
    all: cbn; rewrite M; split; [exact Cc|exact Ce].
  - destruct (alookup (r_mid r) (rmap s)) as [o|] eqn:Er.
    + match goal with |- context [if ?b then _ else _] => destruct b end; [apply (Chan_same s); try reflexivity; exact CH|].
      pose proof (alookup_In _ _ _ Er) as Hin. destruct (l_r s L _ _ Hin) as (c & Hc & M & R & W & NS).
      assert (Hns : forall k, ~ In (k, o) (smap s)). { intros k H. destruct (l_s s L k o H) as (c' & Hc' & _ & _ & _ & _ & IS). rewrite Hc in Hc'. injection Hc' as <-. contradiction. }
      destruct (fill_reply_core (Some r) c) as (f1 & f2 & f3 & f4 & f5).
      match goal with |- Chan ?s' => apply (Chan_upd1 s s' o c (fill_reply (Some r)) CH L Hc) end.
      * intros o'. unfold getop, updop. cbn [ops set]. rewrite nth_upd. unfold getop in Hc. destruct (Nat.eqb_spec o' o) as [->|]; [now rewrite Hc|reflexivity].
      * intros k o'. cbn [smap set updop]. tauto.
      * intros o'. cbn [opq set updop]. tauto.
      * intros x. cbn [scrubq set updop]. tauto.
      * cbn [smap set updop]. intros H. now elim (Hns _ H).
      * intros _ IS. contradiction.
      * unfold is_search. now rewrite f2.
    + apply (Chan_same s); try reflexivity. exact CH.
Qed.

Lemma fill_reply_chan p c : o_chan (fill_reply p c) = o_chan c.
Proof. unfold fill_reply. destruct (o_reply c), (waiting c); reflexivity. Qed.
Lemma Chan_sub s s' : Chan s -> ops s' = ops s -> (forall o, In o (opq s') -> In o (opq s)) -> smap s' = smap s -> scrubq s' = scrubq s -> Chan s'.
Proof. intros [C1 C2] Eo Eq Es Esq. unfold Chan, getop. rewrite Eo, Es, Esq. split; [assumption|]. intros o c Hin. apply C2. now apply Eq. Qed.

Lemma Chan_op s : Lin s -> Chan s -> NoDup (map o_mid (ops s)) -> fix15 (fx s) = true -> fix16 (fx s) = true -> Chan (step s DrvOp).
Proof.
  intros L CH Hnd F15 F16. unfold step. destruct (is_running s) eqn:Hr; cbn [negb]; [|exact CH]. destruct (opq s) as [|o q] eqn:Eq; [exact CH|].
  assert (Ho : In o (opq s)) by (rewrite Eq; now left).
  assert (Hq : forall o', In o' q -> In o' (opq s)) by (intros o' H; rewrite Eq; now right).
  assert (Hnq : ~ In o q). { pose proof (l_nodup s L) as N. rewrite Eq in N. now apply NoDup_cons_iff in N. }
  destruct (l_q s L o Ho) as (c & Hc & R & Nr & Ns & It & Qs & Wq). rewrite Hc, F15, F16. cbn [andb].
  destruct CH as [C1 C2]. assert (CH : Chan s) by (split; assumption).
  assert (Us : forall o', ~ In (o_mid c, o') (smap s)).
  { intros o' H. destruct (l_s s L _ _ H) as (c2 & Hc2 & M2 & _). assert (o' = o) by (eapply mids_unique; eassumption). subst o'. exact (Ns _ H). }
  assert (Ur : forall o', ~ In (o_mid c, o') (rmap s)).
  { intros o' H. destruct (l_r s L _ _ H) as (c2 & Hc2 & M2 & _). assert (o' = o) by (eapply mids_unique; eassumption). subst o'. exact (Nr _ H). }
  assert (Nkr : alookup (o_mid c) (rmap s) = None). { destruct (alookup (o_mid c) (rmap s)) eqn:E; [|reflexivity]. apply alookup_In in E. now elim (Ur n). }
  assert (Nks : alookup (o_mid c) (smap s) = None). { destruct (alookup (o_mid c) (smap s)) eqn:E; [|reflexivity]. apply alookup_In in E. now elim (Us n). }
  destruct (o_kind c) eqn:Ek.
  - (* KSingle *) destruct (waiting c); cbn [negb].
    + unfold drop_entry. cbn [rmap set]. rewrite Nkr. apply (Chan_sub s); try reflexivity; [exact CH|exact Hq].
    + match goal with |- Chan ?s' => apply (Chan_upd1 s s' o c drop_reply CH L Hc) end.
      * intros o'. unfold getop, updop. cbn [ops set]. rewrite nth_upd. unfold getop in Hc. destruct (Nat.eqb_spec o' o) as [->|]; [now rewrite Hc|reflexivity].
      * intros k o'. cbn [smap set updop]. tauto.
      * exact Hq.
      * intros x. cbn [scrubq set updop]. tauto.
      * cbn [smap set updop]. intros H. now elim (Ns _ H).
      * intros H. now elim Hnq.
      * unfold is_search, drop_reply. destruct (o_reply c); cbn; tauto.
  - (* KSearch *) unfold drop_entry. cbn [smap set]. rewrite Nks.
    assert (ISc : is_search c) by (unfold is_search; now rewrite Ek).
    assert (Cc : o_chan c = true) by (exact (C2 o c Ho Hc ISc)).
    destruct (fill_reply_core None c) as (f1 & f2 & f3 & f4 & f5).
    assert (G1 : forall (s0 : st) o', ops s0 = ops s -> getop (updop o (fill_reply None) s0) o' = if Nat.eqb o' o then Some (fill_reply None c) else getop s o').
    { intros s0 o' E. unfold getop, updop. cbn [ops set]. rewrite E, nth_upd. unfold getop in Hc. destruct (Nat.eqb_spec o' o) as [->|]; [now rewrite Hc|reflexivity]. }
    destruct (waiting c) eqn:Ew; cbn [negb].
    + split.
      * intros k o' c'. cbn [smap scrubq set updop]. intros Hin Hg. rewrite G1 in Hg by reflexivity. apply In_ainsert in Hin as [Hin|Hin].
        -- injection Hin as -> ->. rewrite Nat.eqb_refl in Hg. injection Hg as <-. rewrite fill_reply_chan, f3. split; [exact Cc|]. unfold waiting in Ew. destruct (o_status c); discriminate.
        -- destruct (Nat.eqb_spec o' o) as [->|]; [now elim (Ns _ Hin)|]. exact (C1 k o' c' Hin Hg).
      * intros o' c'. cbn [opq set updop]. intros Hin Hg. rewrite G1 in Hg by reflexivity. destruct (Nat.eqb_spec o' o) as [->|]; [now elim Hnq|]. exact (C2 o' c' (Hq _ Hin) Hg).
    + assert (G2 : forall (s0 : st) o', ops s0 = ops s -> getop (updop o close_chan (updop o (fill_reply None) s0)) o' = if Nat.eqb o' o then Some (close_chan (fill_reply None c)) else getop s o').
      { intros s0 o' E. unfold getop, updop. cbn [ops set]. rewrite E, !nth_upd. unfold getop in Hc. destruct (Nat.eqb_spec o' o) as [->|]; [now rewrite Hc|reflexivity]. }
      split.
      * intros k o' c'. cbn [smap scrubq set updop]. intros Hin Hg. apply In_arem in Hin as [Hk Hin]. apply In_ainsert in Hin as [Hin|Hin]; [injection Hin; intros; contradiction|].
        change (getop (updop o close_chan (updop o (fill_reply None) (s <| opq := q |> <| wout ::= fun w => w ++ [(o_mid c, KSearch adapted)] |> <| smap ::= ainsert (o_mid c) o |>))) o' = Some c') in Hg.
        rewrite G2 in Hg by reflexivity. destruct (Nat.eqb_spec o' o) as [->|]; [now elim (Ns _ Hin)|]. exact (C1 k o' c' Hin Hg).
      * intros o' c'. cbn [opq set updop]. intros Hin Hg.
        change (getop (updop o close_chan (updop o (fill_reply None) (s <| opq := q |> <| wout ::= fun w => w ++ [(o_mid c, KSearch adapted)] |> <| smap ::= ainsert (o_mid c) o |>))) o' = Some c') in Hg.
        rewrite G2 in Hg by reflexivity. destruct (Nat.eqb_spec o' o) as [->|]; [now elim Hnq|]. exact (C2 o' c' (Hq _ Hin) Hg).
  - (* KAbandon *) rename target into t.
    set (s0 := s <| opq := q |> <| wout ::= fun w => w ++ [(o_mid c, KAbandon t)] |>).
    set (s1 := drop_entry (rmap s0) t drop_reply s0 <| rmap ::= aremove t |>).
    set (s2 := drop_entry (smap s1) t close_chan s1).
    assert (G : forall o', exists g, getop s2 o' = option_map g (getop s o') /\
      forall c0, o_status (g c0) = o_status c0 /\ o_kind (g c0) = o_kind c0 /\ o_mid (g c0) = o_mid c0 /\ (o_chan (g c0) = o_chan c0 \/ In (t, o') (smap s)))
      by (intros o'; exact (getop_two_drops s0 t o')).
    assert (Sm : smap s2 = smap s) by (unfold s2, s1, s0, drop_entry; cbn [rmap smap set]; destruct (alookup t (rmap s)); de_solve).
    assert (Sq : scrubq s2 = scrubq s) by (unfold s2, s1, s0, drop_entry; cbn [rmap smap set]; destruct (alookup t (rmap s)); de_solve).
    assert (Oq : opq s2 = q) by (unfold s2, s1, s0, drop_entry; cbn [rmap smap set]; destruct (alookup t (rmap s)); de_solve).
    assert (Fin : Chan (updop o (fill_reply None) (s2 <| smap ::= aremove t |>))).
    { clearbody s2. clear s1 s0. split.
      - intros k o' c'. cbn [smap scrubq set updop]. rewrite Sm, Sq. intros Hin Hg. apply In_arem in Hin as [Hk Hin].
        destruct (Nat.eq_dec o' o) as [->|Hne]; [now elim (Ns _ Hin)|].
        change (getop (updop o (fill_reply None) s2) o' = Some c') in Hg. rewrite getop_updop_ne in Hg by assumption.
        destruct (G o') as (g & Gc & Gp). rewrite Gc in Hg. destruct (l_s s L k o' Hin) as (c0 & Hc0 & M & _). rewrite Hc0 in Hg. injection Hg as <-.
        destruct (Gp c0) as (g1 & g2 & g3 & g4). destruct (C1 k o' c0 Hin Hc0) as [A B]. split.
        + destruct g4 as [g4|g4]; [congruence|]. exfalso. destruct (l_s s L t o' g4) as (c2 & Hc2 & M2 & _). congruence.
        + rewrite g1. exact B.
      - intros o' c'. cbn [opq set updop]. rewrite Oq. intros Hin Hg IS.
        destruct (Nat.eq_dec o' o) as [->|Hne]; [now elim Hnq|].
        change (getop (updop o (fill_reply None) s2) o' = Some c') in Hg. rewrite getop_updop_ne in Hg by assumption.
        destruct (G o') as (g & Gc & Gp). rewrite Gc in Hg. destruct (l_q s L o' (Hq _ Hin)) as (c0 & Hc0 & _ & _ & Ns0 & _). rewrite Hc0 in Hg. injection Hg as <-.
        destruct (Gp c0) as (g1 & g2 & g3 & g4). destruct g4 as [g4|g4]; [|now elim (Ns0 t)]. rewrite g4. apply (C2 o' c0 (Hq _ Hin) Hc0). unfold is_search in *. now rewrite <- g2. }
    destruct (fix9 (fx s) && abandon_hit s0 t); (eapply Chan_sub; [exact Fin|reflexivity|intros o'; cbn [opq set updop]; tauto|reflexivity|reflexivity]).
  - (* KUnbind *) apply Chan_end.
Qed.

Theorem step_Chan s e : wf_ev e -> Lin s -> Chan s -> Al s -> fx s = repaired -> is_running s = true -> NoDup (map o_mid (ops s)) -> Chan (step s e).
Proof.
  intros We L CH AL F Hr Hnd. destruct e.
  - now apply Chan_start.
  - apply Chan_op; try assumption; now rewrite F.
  - now apply Chan_scrub.
  - apply Chan_resp; try assumption; now rewrite F.
  - unfold step. rewrite Hr. apply Chan_end.
  - apply (Chan_same s); try reflexivity. exact CH.
  - now apply Chan_clipoll.
  - apply Chan_streamnext; try assumption; now rewrite F.
  - apply Chan_streamfinish; try assumption; now rewrite F.
  - apply (Chan_same s); try reflexivity. exact CH.
  - apply (Chan_same s); try reflexivity. exact CH.
  - now apply Chan_dropcall.
  - now apply Chan_alloc.
  - now apply Chan_enqueue.
Qed.

Theorem reachable_Lin_Chan evs : Forall wf_ev evs -> is_running (run repaired evs) = true -> NoDup (map o_mid (ops (run repaired evs))) ->
  Lin (run repaired evs) /\ Chan (run repaired evs).
Proof.
  induction evs as [|e evs IH] using rev_ind; intros Hwf Hr Hnd; [split; [apply Lin_init|apply Chan_init]|].
  apply Forall_app in Hwf as [Hwf He]. apply Forall_inv in He.
  rewrite run_snoc in *. pose proof (reachable_keyed repaired evs) as K.
  assert (F : fx (run repaired evs) = repaired).
  { clear. induction evs as [|e evs IH] using rev_ind; [reflexivity|]. now rewrite run_snoc, fx_step. }
  assert (Hnd0 : NoDup (map o_mid (ops (run repaired evs)))) by (eapply oext_mids_nodup; [apply (step_sext _ e K)|exact Hnd]).
  pose proof (running_back _ e Hr) as Hr0.
  destruct (IH Hwf Hr0 Hnd0) as [L CH]. pose proof (reachable_Al repaired evs) as AL.
  split; [apply step_Lin; assumption|apply step_Chan; assumption].
Qed.
Theorem reachable_Lin evs : Forall wf_ev evs -> is_running (run repaired evs) = true -> NoDup (map o_mid (ops (run repaired evs))) -> Lin (run repaired evs).
Proof. intros A B C. exact (proj1 (reachable_Lin_Chan evs A B C)). Qed.

(* C13, every schedule of the repaired model. The hypothesis says that no two operations of the history were given the same message id,
   i.e. the 31-bit id counter did not come round to an id still remembered in the model's op table; discharging it needs the C05 invariant
   "ids in use are pairwise distinct" on this state machine (open). *)
Theorem c13_all_schedules_partial evs : Forall wf_ev evs ->
  NoDup (map o_mid (ops (run repaired evs))) -> quiescent (run repaired evs) = true -> clean (run repaired evs) = true.
Proof.
  intros Hwf Hnd Hq. apply Lin_quiescent_clean; [|exact Hq]. apply reachable_Lin; [exact Hwf| |exact Hnd].
  unfold quiescent in Hq. apply andb_prop in Hq as [Hq _]. apply andb_prop in Hq as [Hq _]. exact Hq.
Qed.
Print Assumptions c13_all_schedules_partial.

(* the hypotheses are satisfiable by histories that do reach quiescence: a search run to its end, an abandoned operation, a timed-out one *)
Definition wf_evb (e : ev) : bool := match e with DrvEnd Running => false | _ => true end.
Lemma wf_evb_ok evs : forallb wf_evb evs = true -> Forall wf_ev evs.
Proof. rewrite forallb_forall, Forall_forall. intros H e Hin He. specialize (H e Hin). subst e. discriminate. Qed.
Fixpoint nodupZ (l : list Z) : bool := match l with [] => true | x :: r => negb (existsb (Z.eqb x) r) && nodupZ r end.
Lemma nodupZ_ok l : nodupZ l = true -> NoDup l.
Proof. induction l as [|x r IH]; cbn; [constructor|]. intros H. apply andb_prop in H as [H1 H2]. constructor; [|now apply IH].
  intros Hin. apply negb_true_iff in H1. assert (existsb (Z.eqb x) r = true) by (apply existsb_exists; exists x; split; [assumption|apply Z.eqb_refl]). congruence. Qed.
Example c13_hypotheses_met :
  let h1 := [Start (KSearch true) None; DrvOp; CliPoll 0; ServerSend done1; DrvResp; StreamNext 0; StreamFinish 0] in
  let h2 := [Start KSingle None; DrvOp; Start (KAbandon 1) None; DrvOp; CliPoll 1; CliPoll 0] in
  let h3 := [Start KSingle (Some 0); CliPoll 0; DrvScrub; DrvOp] in
  Forall (fun h => Forall wf_ev h /\ NoDup (map o_mid (ops (run repaired h))) /\ quiescent (run repaired h) = true) [h1; h2; h3].
Proof. cbv zeta. repeat (apply Forall_cons; [split; [apply wf_evb_ok; vm_compute; reflexivity|split; [apply nodupZ_ok; vm_compute; reflexivity|vm_compute; reflexivity]]|]). apply Forall_nil. Qed.
