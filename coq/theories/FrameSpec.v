(* Calibration sketch (round 0): C06 — framing does not depend on how the byte stream is segmented. *)
From Coq Require Import List NArith Lia Bool Arith.
From Coq.Strings Require Import Byte.
From L3 Require Import Ber Utf8 Frame.
Import ListNotations.
Open Scope N_scope.

(* ---- well-formed LDAPMessage trees and what the client must see in them ---- *)
Inductive WfCtrl : tree -> ctrl -> Prop :=
| WC_oid c i c1 i1 oid : Utf8.valid oid = true ->
    WfCtrl (C c i [P c1 i1 oid]) {| c_oid := oid; c_crit := false; c_val := None |}
| WC_val c i c1 i1 oid c2 v : Utf8.valid oid = true ->
    WfCtrl (C c i [P c1 i1 oid; P c2 4 v]) {| c_oid := oid; c_crit := false; c_val := Some v |}
| WC_crit c i c1 i1 oid c2 b0 bs : Utf8.valid oid = true ->
    WfCtrl (C c i [P c1 i1 oid; P c2 1 (b0 :: bs)]) {| c_oid := oid; c_crit := negb (bN b0 =? 0); c_val := None |}
| WC_crit_val c i c1 i1 oid c2 b0 bs c3 i3 v : Utf8.valid oid = true ->
    WfCtrl (C c i [P c1 i1 oid; P c2 1 (b0 :: bs); P c3 i3 v]) {| c_oid := oid; c_crit := negb (bN b0 =? 0); c_val := Some v |}.

Definition op_ok (op : tree) : Prop := tree_class op = Application.

Inductive WfMsg : tree -> N * tree * list ctrl -> Prop :=
| WM_plain ib op : op_ok op -> id_ok ib = true ->
    WfMsg (C Universal 16 [P Universal 2 ib; op]) (as_i32 (parse_uint ib), op, [])
| WM_ctrls ib op cts cs : op_ok op -> id_ok ib = true -> Forall2 WfCtrl cts cs ->
    WfMsg (C Universal 16 [P Universal 2 ib; op; C Context 0 cts]) (as_i32 (parse_uint ib), op, cs).

Lemma parse_control_wf t c : WfCtrl t c -> parse_control t = Ok c.
Proof. intros []; cbn; rewrite H; cbn; try reflexivity. Qed.
Lemma parse_controls_wf cts cs : Forall2 WfCtrl cts cs -> parse_controls cts = Ok cs.
Proof. induction 1 as [|t c cts cs Hc _ IH]; cbn; [reflexivity|]. now rewrite (parse_control_wf _ _ Hc), IH. Qed.

Lemma envelope_wf env view : WfMsg env view -> exists tags, env = C Universal 16 tags /\ envelope tags = Ok (Some view).
Proof.
  intros [ib op Hop Hid|ib op cts cs Hop Hid Hcs]; eexists; (split; [reflexivity|]); unfold envelope; cbn [rev app].
  - unfold op_ok in Hop. unfold class_eqb. rewrite Hop. cbn. reflexivity.
  - cbn. rewrite (parse_controls_wf _ _ Hcs). reflexivity.
Qed.

Definition view_frame (v : N * tree * list ctrl) (rest : list byte) : dres :=
  let '(mid, op, cs) := v in DFrame mid op cs rest.

Theorem c06_exact_consumption env view bs rest :
  WfMsg env view -> BerEnc env bs -> decode_inner (bs ++ rest) = view_frame view rest.
Proof.
  intros Hw He. destruct (envelope_wf _ _ Hw) as (tags & -> & Henv).
  pose proof (BerEnc_nonempty _ _ He) as Hne.
  unfold decode_inner. destruct (bs ++ rest) as [|x xs] eqn:E; [destruct bs; [congruence|discriminate]|]. rewrite <- E.
  rewrite (proj1 any_encoding_parses _ _ He (S (length (bs ++ rest))) rest) by (rewrite app_length; lia).
  change (16 =? 16) with true. cbn match. rewrite Henv. destruct view as [[mid op] cs]. reflexivity.
Qed.

Theorem c06_prefix_needs_more env view bs p q :
  WfMsg env view -> BerEnc env bs -> p ++ q = bs -> q <> [] -> decode_inner p = DNeed.
Proof.
  intros _ He E Hq. unfold decode_inner. destruct p as [|x xs] eqn:Ep; [reflexivity|]. rewrite <- Ep in *.
  now rewrite (proper_prefix_incomplete _ _ p q (length p) He E Hq).
Qed.

(* ---- the Framed loop: append a chunk, deliver every complete frame, keep the remainder ----
   Generic in the decoder: everything below uses only "empty buffer needs more", "exact consumption" and
   "a proper prefix needs more", so it applies to decode_inner as it was and to the repaired decoder alike. *)
Inductive event := Deliver (v : N * tree * list ctrl) | EvError | EvPanic.

Section Framed.
Variable dec : list byte -> dres.
Variable Enc : N * tree * list ctrl -> list byte -> Prop.      (* "bs is an encoding of a message the client must see as v" *)
Hypothesis Enc_nonempty : forall v bs, Enc v bs -> bs <> [].
Hypothesis dec_nil : dec [] = DNeed.
Hypothesis dec_exact : forall v bs rest, Enc v bs -> dec (bs ++ rest) = view_frame v rest.
Hypothesis dec_prefix : forall v bs p q, Enc v bs -> p ++ q = bs -> q <> [] -> dec p = DNeed.

Fixpoint drain (fuel : nat) (buf : list byte) : list event * option (list byte) :=   (* None = stream terminated *)
  match fuel with O => ([], Some buf) | S f =>
    match dec buf with
    | DNeed => ([], Some buf)
    | DErr => ([EvError], None)
    | DPanic => ([EvPanic], None)
    | DFrame mid op cs rest => let (evs, b) := drain f rest in (Deliver (mid, op, cs) :: evs, b) end end.
Fixpoint framed_run (buf : list byte) (chunks : list (list byte)) : list event :=
  match chunks with [] => [] | c :: cs =>
    match drain (S (length (buf ++ c))) (buf ++ c) with
    | (evs, Some b) => evs ++ framed_run b cs
    | (evs, None) => evs end end.

(* the stream: messages and one encoding of each *)
Definition Stream (vs : list (N * tree * list ctrl)) (bss : list (list byte)) : Prop := Forall2 Enc vs bss.

Lemma drain_messages vs bss : Stream vs bss -> forall p fuel,
  (p = [] \/ exists v bs q, Enc v bs /\ p ++ q = bs /\ q <> []) ->
  (length vs < fuel)%nat ->
  drain fuel (concat bss ++ p) = (map Deliver vs, Some p).
Proof.
  induction 1 as [|v bs vs bss He _ IH]; intros p fuel Hp Hf; (destruct fuel as [|fuel]; [lia|]); cbn [concat app drain map].
  - destruct Hp as [->|(v & bs & q & He & E & Hq)]; [now rewrite dec_nil|].
    now rewrite (dec_prefix v bs p q He E Hq).
  - rewrite <- app_assoc, (dec_exact v bs _ He). destruct v as [[mid op] cs]. cbn [view_frame].
    cbn [length] in Hf. rewrite (IH p fuel Hp ltac:(lia)). reflexivity.
Qed.

(* every prefix of the remaining stream splits into whole messages followed by a proper prefix of the next one *)
Lemma split_prefix vs bss : Stream vs bss -> forall B tail, B ++ tail = concat bss ->
  exists vs1 bss1 vs2 bss2 p, vs = vs1 ++ vs2 /\ bss = bss1 ++ bss2 /\ Stream vs1 bss1 /\ Stream vs2 bss2 /\
    B = concat bss1 ++ p /\ p ++ tail = concat bss2 /\
    (p = [] \/ exists v bs q, Enc v bs /\ p ++ q = bs /\ q <> [] /\ hd_error bss2 = Some bs).
Proof.
  induction 1 as [|v bs vs bss He Hs IH]; intros B tail E.
  - cbn in E. apply app_eq_nil in E as [-> ->]. exists [], [], [], [], []. repeat split; try reflexivity; try (now left); constructor.
  - cbn [concat] in E.
    destruct (Nat.lt_ge_cases (length B) (length bs)) as [Hlt|Hge].
    + (* B is a proper prefix of the first message *)
      exists [], [], (v :: vs), (bs :: bss), B.
      split; [reflexivity|]. split; [reflexivity|]. split; [constructor|].
      split; [constructor; assumption|]. split; [reflexivity|]. split; [exact E|].
      destruct B as [|b0 B']; [now left|right].
      assert (Hq : exists q, (b0 :: B') ++ q = bs /\ q <> []).
      { exists (skipn (length (b0 :: B')) bs). split.
        - rewrite <- (firstn_skipn (length (b0 :: B')) bs) at 2. f_equal.
          apply (f_equal (firstn (length (b0 :: B')))) in E. rewrite firstn_app_exact in E.
          rewrite firstn_app in E. replace (length (b0 :: B') - length bs)%nat with 0%nat in E by lia.
          cbn [firstn] in E. now rewrite app_nil_r in E.
        - intros Hn. apply (f_equal (@length byte)) in Hn. rewrite skipn_length in Hn. cbn [length] in *. lia. }
      destruct Hq as (q & Eq & Hq). exists v, bs, q. repeat split; try assumption.
    + (* B covers the first message *)
      assert (HB : B = bs ++ skipn (length bs) B).
      { rewrite <- (firstn_skipn (length bs) B) at 1. f_equal.
        apply (f_equal (firstn (length bs))) in E. rewrite firstn_app_exact in E.
        rewrite firstn_app in E. replace (length bs - length B)%nat with 0%nat in E by lia.
        cbn [firstn] in E. now rewrite app_nil_r in E. }
      set (B' := skipn (length bs) B) in *. rewrite HB, <- app_assoc in E. apply app_inv_head in E.
      destruct (IH B' tail E) as (vs1 & bss1 & vs2 & bss2 & p & -> & -> & S1 & S2 & EB & Ep & Hp).
      exists (v :: vs1), (bs :: bss1), vs2, bss2, p.
      split; [reflexivity|]. split; [reflexivity|]. split; [constructor; assumption|].
      split; [assumption|]. split; [rewrite HB, EB; cbn [concat]; now rewrite app_assoc|]. split; assumption.
Qed.

Theorem c06_chunking_invariant : forall chunks buf vs1 bss1,
  Stream vs1 bss1 ->
  (buf = [] \/ exists v bs q, Enc v bs /\ buf ++ q = bs /\ q <> [] /\ hd_error bss1 = Some bs) ->
  buf ++ concat chunks = concat bss1 ->
  framed_run buf chunks = map Deliver vs1.
Proof.
  induction chunks as [|c cs IH]; intros buf vs1 bss1 S1 Hbuf E.
  - cbn [concat] in E. rewrite app_nil_r in E. cbn [framed_run].
    destruct Hbuf as [->|(v & bs & q & _ & Eq & Hq & Hh)].
    + destruct S1 as [|v' bs' vs' bss' He _]; [reflexivity|]. cbn [concat] in E.
      apply Enc_nonempty in He. destruct bs'; [congruence|discriminate].
    + exfalso. destruct bss1 as [|bs' bss']; [discriminate|]. cbn in Hh. injection Hh as ->. cbn [concat] in E.
      subst bs. rewrite <- app_assoc in E. rewrite <- (app_nil_r buf) in E at 1. apply app_inv_head in E.
      symmetry in E. apply app_eq_nil in E as [-> _]. congruence.
  - cbn [concat] in E. rewrite app_assoc in E. cbn [framed_run].
    destruct (split_prefix _ _ S1 (buf ++ c) (concat cs) E) as (va & ba & vb & bb & p & -> & -> & Sa & Sb & EB & Ep & Hp).
    assert (Hp' : p = [] \/ exists v bs q, Enc v bs /\ p ++ q = bs /\ q <> []).
    { destruct Hp as [->|(v & bs & q & He & Eq & Hq & _)]; [now left|right; now exists v, bs, q]. }
    assert (Hfuel : (length va < S (length (buf ++ c)))%nat).
    { assert (L2 : (length va <= length (concat ba))%nat).
      { clear - Sa Enc_nonempty. induction Sa as [|v bs vs bss He _ IHs]; cbn; [lia|]. rewrite app_length.
        apply Enc_nonempty in He. destruct bs; [congruence|cbn; lia]. }
      rewrite EB, app_length. lia. }
    rewrite EB in Hfuel |- *. rewrite (drain_messages _ _ Sa p _ Hp' Hfuel).
    rewrite map_app. f_equal. apply (IH p vb bb Sb Hp Ep).
Qed.

Corollary c06_any_segmentation vs bss chunks : Stream vs bss -> concat chunks = concat bss ->
  framed_run [] chunks = map Deliver vs.
Proof. intros S E. apply (c06_chunking_invariant chunks [] vs bss S); auto. Qed.
End Framed.

(* instance: the decoder as it was before the repairs *)
Definition EncAsIs (v : N * tree * list ctrl) (bs : list byte) : Prop := exists env, WfMsg env v /\ BerEnc env bs.
Corollary c06_any_segmentation_as_is vs bss chunks : Stream EncAsIs vs bss -> concat chunks = concat bss ->
  framed_run decode_inner [] chunks = map Deliver vs.
Proof.
  apply (c06_any_segmentation decode_inner EncAsIs).
  - intros v bs (env & _ & He). now apply BerEnc_nonempty in He.
  - reflexivity.
  - intros v bs rest (env & Hw & He). now apply (c06_exact_consumption env).
  - intros v bs p q (env & Hw & He). now apply (c06_prefix_needs_more env v).
Qed.
Print Assumptions c06_any_segmentation_as_is.

(* executable variant used by the correspondence runner: also returns the bytes left in the buffer (None once the stream terminated) *)
Fixpoint framed_run_buf (dec : list byte -> dres) (buf : list byte) (chunks : list (list byte)) : list event * option (list byte) :=
  match chunks with [] => ([], Some buf) | c :: cs =>
    match drain dec (S (length (buf ++ c))) (buf ++ c) with
    | (evs, Some b) => let (evs', b') := framed_run_buf dec b cs in (evs ++ evs', b')
    | (evs, None) => (evs, None) end end.
Lemma framed_run_buf_events dec : forall chunks buf, fst (framed_run_buf dec buf chunks) = framed_run dec buf chunks.
Proof. induction chunks as [|c cs IH]; intros buf; cbn [framed_run_buf framed_run]; [reflexivity|].
  destruct (drain dec (S (length (buf ++ c))) (buf ++ c)) as [evs [b|]]; [|reflexivity].
  specialize (IH b). destruct (framed_run_buf dec b cs) as [evs' b']. cbn [fst] in *. now rewrite IH. Qed.
