(* Calibration sketch (round 0): SearchEntry::construct (src/search.rs:147-217) and C15. *)
From Coq Require Import List NArith Lia Bool Arith Permutation.
From Coq.Strings Require Import Byte.
From L3 Require Import Ber Utf8 Frame.
Import ListNotations.
Open Scope N_scope.

Definition bytes := list byte.
Definition beqb (a b : bytes) : bool := if list_eq_dec Byte.byte_eq_dec a b then true else false.
Lemma beqb_eq a b : beqb a b = true <-> a = b.
Proof. unfold beqb. destruct (list_eq_dec Byte.byte_eq_dec a b); split; congruence. Qed.

(* HashMap<String, Vec<_>> as an association list; only the operations the code uses *)
Definition amap := list (bytes * list bytes).
Fixpoint mget (k : bytes) (m : amap) : option (list bytes) :=
  match m with [] => None | (k', v) :: r => if beqb k' k then Some v else mget k r end.
Fixpoint minsert (k : bytes) (v : list bytes) (m : amap) : amap :=       (* insert: replaces *)
  match m with [] => [(k, v)] | (k', v') :: r => if beqb k' k then (k, v) :: r else (k', v') :: minsert k v r end.
Fixpoint mappend (k : bytes) (xs : list bytes) (m : amap) : amap :=      (* entry().or_insert_with(Vec::new) then push / extend *)
  match m with [] => [(k, xs)] | (k', v') :: r => if beqb k' k then (k', v' ++ xs) :: r else (k', v') :: mappend k xs r end.

Definition mremove (k : bytes) (m : amap) : amap := filter (fun kv => negb (beqb (fst kv) k)) m.       (* remove *)

Section Construct.
Variable isu : bytes -> bool.     (* std::str::from_utf8(..).is_ok(); instantiated with Utf8.valid below *)

Record sentry := { e_dn : bytes; e_attrs : amap; e_bin : amap }.

(* values of one attribute: the strings, and the invalid ones in the order met *)
Fixpoint split_vals (vs : list tree) : outcome (list bytes * list bytes) :=
  match vs with
  | [] => Ok ([], [])
  | P _ _ v :: r => match split_vals r with Panic => Panic | Ok (t, b) => if isu v then Ok (v :: t, b) else Ok (t, v :: b) end
  | C _ _ _ :: _ => Panic end.                                           (* expect("octet string") *)

(* [f41]: repair F41 - an attribute description may come in more than one PartialAttribute element (chunking servers, attribute-mapping
   proxies); the values of all of them belong to the one attribute. As found each element was folded into the maps on its own: a later
   all-text element replaced the earlier values (insert), and a text and a binary element of one description ended up in both maps *)
Definition one_attr_gen (f41 : bool) (acc : amap * amap) (a_v : tree) : outcome (amap * amap) :=
  let (attrs, bins) := acc in
  match a_v with
  | C _ _ (P _ _ a_type :: C _ _ vals :: _) =>
      if negb (isu a_type) then Panic else                               (* expect("attribute type") *)
      match split_vals vals with
      | Panic => Panic
      | Ok (texts, []) =>
          if f41 then match mget a_type bins with
                      | Some _ => Ok (attrs, mappend a_type texts bins)
                      | None => Ok (mappend a_type texts attrs, bins) end
          else Ok (minsert a_type texts attrs, bins)
      | Ok (texts, invalid) =>
          if f41 then let earlier := match mget a_type attrs with Some e => e | None => [] end in
                      Ok (mremove a_type attrs, mappend a_type texts (mappend a_type earlier (mappend a_type invalid bins)))
          else Ok (attrs, mappend a_type texts (mappend a_type invalid bins)) end
  | _ => Panic end.
Fixpoint all_attrs_gen (f41 : bool) (acc : amap * amap) (l : list tree) : outcome (amap * amap) :=
  match l with [] => Ok acc | a :: r => match one_attr_gen f41 acc a with Panic => Panic | Ok acc' => all_attrs_gen f41 acc' r end end.

Definition construct_gen (f41 : bool) (t : tree) : outcome sentry :=
  match t with
  | C _ id (P _ _ dn :: C _ _ attrs :: _) =>
      if negb (id =? 4) then Panic else if negb (isu dn) then Panic else
      match all_attrs_gen f41 ([], []) attrs with Panic => Panic | Ok (a, b) => Ok {| e_dn := dn; e_attrs := a; e_bin := b |} end
  | _ => Panic end.
Definition one_attr := one_attr_gen true.
Definition all_attrs := all_attrs_gen true.
Definition construct := construct_gen true.

(* ---- what the server sent ---- *)
Definition spec_attr := (bytes * list bytes)%type.
Definition enc_attr (a : spec_attr) : tree :=
  C Universal 16 [P Universal 4 (fst a); C Universal 17 (map (P Universal 4) (snd a))].
Definition enc_entry (dn : bytes) (attrs : list spec_attr) : tree :=
  C Application 4 [P Universal 4 dn; C Universal 16 (map enc_attr attrs)].

Definition all_text (vals : list bytes) : bool := forallb isu vals.

Lemma split_vals_spec vals :
  split_vals (map (P Universal 4) vals) = Ok (filter isu vals, filter (fun v => negb (isu v)) vals).
Proof. induction vals as [|v vals IH]; [reflexivity|]. cbn [map split_vals filter]. rewrite IH. now destruct (isu v). Qed.
Lemma filter_all_text vals : all_text vals = true -> filter isu vals = vals /\ filter (fun v => negb (isu v)) vals = [].
Proof. induction vals as [|v vals IH]; [now split|]. cbn. intros H. apply andb_true_iff in H as [Hv H].
  rewrite Hv. cbn. destruct (IH H) as [-> ->]. now split. Qed.
Lemma filter_some_binary vals : all_text vals = false -> filter (fun v => negb (isu v)) vals <> [].
Proof. induction vals as [|v vals IH]; [discriminate|]. cbn. destruct (isu v); cbn; [exact IH|discriminate]. Qed.

(* the maps after processing a list of attributes whose names are pairwise distinct and fresh *)
Definition fresh (k : bytes) (m : amap) : Prop := mget k m = None.
Lemma mget_minsert_same k v m : mget k (minsert k v m) = Some v.
Proof. induction m as [|[k' v'] m IH]; cbn; [now rewrite (proj2 (beqb_eq k k) eq_refl)|].
  destruct (beqb k' k) eqn:E; cbn; [now rewrite (proj2 (beqb_eq k k) eq_refl)|now rewrite E]. Qed.
Lemma mget_minsert_other k k' v m : k' <> k -> mget k' (minsert k v m) = mget k' m.
Proof. intros Hne. induction m as [|[k2 v2] m IH]; cbn.
  - destruct (beqb k k') eqn:E; [apply beqb_eq in E; congruence|reflexivity].
  - destruct (beqb k2 k) eqn:E; cbn.
    + apply beqb_eq in E. subst k2. destruct (beqb k k') eqn:E2; [apply beqb_eq in E2; congruence|reflexivity].
    + destruct (beqb k2 k'); [reflexivity|exact IH]. Qed.
Lemma mget_mappend_fresh k xs m : fresh k m -> mget k (mappend k xs m) = Some xs.
Proof. unfold fresh. induction m as [|[k' v'] m IH]; cbn; [now rewrite (proj2 (beqb_eq k k) eq_refl)|].
  destruct (beqb k' k) eqn:E; [discriminate|]. intros H. cbn. rewrite E. now apply IH. Qed.
Lemma mget_mappend_same k xs ys m : mget k m = Some ys -> mget k (mappend k xs m) = Some (ys ++ xs).
Proof. induction m as [|[k' v'] m IH]; cbn; [discriminate|].
  destruct (beqb k' k) eqn:E; cbn; rewrite E; [now intros [= ->]|exact IH]. Qed.
Lemma mget_mappend_other k k' xs m : k' <> k -> mget k' (mappend k xs m) = mget k' m.
Proof. intros Hne. induction m as [|[k2 v2] m IH]; cbn.
  - destruct (beqb k k') eqn:E; [apply beqb_eq in E; congruence|reflexivity].
  - destruct (beqb k2 k) eqn:E; cbn.
    + apply beqb_eq in E. subst k2. destruct (beqb k k') eqn:E2; [apply beqb_eq in E2; congruence|reflexivity].
    + destruct (beqb k2 k'); [reflexivity|exact IH]. Qed.

Lemma mget_mremove_same k m : mget k (mremove k m) = None.
Proof. induction m as [|[k' v'] m IH]; cbn; [reflexivity|]. destruct (beqb k' k) eqn:E; cbn; [exact IH|now rewrite E]. Qed.
Lemma mget_mremove_other k k' m : k' <> k -> mget k' (mremove k m) = mget k' m.
Proof. intros Hne. induction m as [|[k2 v2] m IH]; cbn; [reflexivity|]. destruct (beqb k2 k) eqn:E; cbn.
  - apply beqb_eq in E. subst k2. destruct (beqb k k') eqn:E2; [apply beqb_eq in E2; congruence|exact IH].
  - destruct (beqb k2 k'); [reflexivity|exact IH]. Qed.
Lemma mget_mappend_none k xs m : mget k m = None -> mget k (mappend k xs m) = Some xs.
Proof. exact (mget_mappend_fresh k xs m). Qed.

(* all the values the server sent under one description, in the order sent *)
Definition vals_of (k : bytes) (attrs : list spec_attr) : list bytes := concat (map snd (filter (fun a => beqb (fst a) k) attrs)).
Lemma vals_of_snoc k done n vals : vals_of k (done ++ [(n, vals)]) = vals_of k done ++ (if beqb n k then vals else []).
Proof. unfold vals_of. rewrite filter_app, map_app, concat_app. cbn [filter fst]. destruct (beqb n k); cbn; now rewrite ?app_nil_r. Qed.
Lemma all_text_app a b : all_text (a ++ b) = all_text a && all_text b.
Proof. apply forallb_app. Qed.

(* the two maps after the elements [done] *)
Definition Inv (done : list spec_attr) (am bm : amap) : Prop := forall k,
  (~ In k (map fst done) -> mget k am = None /\ mget k bm = None) /\
  (In k (map fst done) ->
     if all_text (vals_of k done) then mget k am = Some (vals_of k done) /\ mget k bm = None
     else mget k am = None /\ exists bs, mget k bm = Some bs /\ Permutation bs (vals_of k done)).

Lemma perm_split vals : Permutation (filter (fun v => negb (isu v)) vals ++ filter isu vals) vals.
Proof. induction vals as [|v vs IH]; [constructor|]. cbn. destruct (isu v); cbn.
  - apply Permutation_sym, Permutation_cons_app, Permutation_sym. exact IH.
  - now constructor. Qed.

Lemma one_attr_step done am bm n vals : Inv done am bm -> isu n = true ->
  exists am' bm', one_attr (am, bm) (enc_attr (n, vals)) = Ok (am', bm') /\ Inv (done ++ [(n, vals)]) am' bm'.
Proof.
  intros HI Hun. unfold one_attr. cbn [one_attr_gen enc_attr fst snd]. rewrite Hun. cbn [negb]. rewrite split_vals_spec.
  assert (Hin_snoc : forall k, In k (map fst (done ++ [(n, vals)])) <-> In k (map fst done) \/ k = n).
  { intros k. rewrite map_app, in_app_iff. cbn. intuition congruence. }
  destruct (HI n) as [Hn_out Hn_in].
  destruct (all_text vals) eqn:Et.
  - (* this element is all text *)
    destruct (filter_all_text _ Et) as [-> ->].
    destruct (mget n bm) as [b0|] eqn:Eb.
    + (* the attribute is already binary: the strings join it *)
      exists am, (mappend n vals bm). split; [reflexivity|]. intros k. rewrite Hin_snoc, vals_of_snoc. split.
      * intros Hk. assert (Hkn : k <> n) by tauto. destruct (HI k) as [Ho _]. destruct (Ho (fun H => Hk (or_introl H))) as [E1 E2].
        rewrite mget_mappend_other by exact Hkn. now split.
      * intros Hk. destruct (list_eq_dec Byte.byte_eq_dec k n) as [->|Hkn].
        -- rewrite (proj2 (beqb_eq n n) eq_refl). assert (Hd : In n (map fst done)).
           { destruct (in_dec (list_eq_dec Byte.byte_eq_dec) n (map fst done)) as [H|H]; [exact H|]. destruct (Hn_out H) as [_ E]. congruence. }
           specialize (Hn_in Hd). rewrite all_text_app. destruct (all_text (vals_of n done)).
           ++ destruct Hn_in as [_ E]. congruence.
           ++ cbn [andb]. destruct Hn_in as [E1 (bs & E2 & Hp)]. split; [exact E1|]. exists (bs ++ vals). split.
              ** injection E2 as ->. now apply mget_mappend_same.
              ** now apply Permutation_app_tail.
        -- assert (Eq : beqb n k = false) by (destruct (beqb n k) eqn:E; [apply beqb_eq in E; congruence|reflexivity]). rewrite Eq, app_nil_r.
           rewrite mget_mappend_other by exact Hkn. destruct (HI k) as [_ Hi]. apply Hi. tauto.
    + (* not binary so far: the strings are appended in the text map *)
      exists (mappend n vals am), bm. split; [reflexivity|]. intros k. rewrite Hin_snoc, vals_of_snoc. split.
      * intros Hk. assert (Hkn : k <> n) by tauto. destruct (HI k) as [Ho _]. destruct (Ho (fun H => Hk (or_introl H))) as [E1 E2].
        rewrite mget_mappend_other by exact Hkn. now split.
      * intros Hk. destruct (list_eq_dec Byte.byte_eq_dec k n) as [->|Hkn].
        -- rewrite (proj2 (beqb_eq n n) eq_refl), all_text_app, Et, andb_true_r.
           destruct (in_dec (list_eq_dec Byte.byte_eq_dec) n (map fst done)) as [Hd|Hd].
           ++ specialize (Hn_in Hd). destruct (all_text (vals_of n done)).
              ** destruct Hn_in as [E1 E2]. split; [now apply mget_mappend_same|exact Eb].
              ** destruct Hn_in as [_ (bs & E2 & _)]. congruence.
           ++ destruct (Hn_out Hd) as [E1 E2]. assert (Ev : vals_of n done = []).
              { unfold vals_of. replace (filter (fun a => beqb (fst a) n) done) with (@nil spec_attr); [reflexivity|].
                symmetry. clear -Hd. induction done as [|[k v] d IH]; [reflexivity|]. cbn in *. destruct (beqb k n) eqn:E; [apply beqb_eq in E; tauto|]. apply IH. tauto. }
              rewrite Ev. cbn [all_text forallb app]. split; [now apply mget_mappend_none|exact Eb].
        -- assert (Eq : beqb n k = false) by (destruct (beqb n k) eqn:E; [apply beqb_eq in E; congruence|reflexivity]). rewrite Eq, app_nil_r.
           rewrite mget_mappend_other by exact Hkn. destruct (HI k) as [_ Hi]. apply Hi. tauto.
  - (* this element has a value that is not UTF-8: everything of this description goes to the binary map *)
    pose proof (filter_some_binary _ Et) as Hne.
    destruct (filter (fun v => negb (isu v)) vals) as [|b0 bs0] eqn:Ebv; [congruence|]. rewrite <- Ebv.
    set (earlier := match mget n am with Some e => e | None => [] end).
    set (inv := filter (fun v => negb (isu v)) vals). set (txt := filter isu vals).
    exists (mremove n am), (mappend n txt (mappend n earlier (mappend n inv bm))). split; [reflexivity|].
    intros k. rewrite Hin_snoc, vals_of_snoc. split.
    + intros Hk. assert (Hkn : k <> n) by tauto. destruct (HI k) as [Ho _]. destruct (Ho (fun H => Hk (or_introl H))) as [E1 E2].
      rewrite mget_mremove_other, !mget_mappend_other by exact Hkn. now split.
    + intros Hk. destruct (list_eq_dec Byte.byte_eq_dec k n) as [->|Hkn].
      * rewrite (proj2 (beqb_eq n n) eq_refl), all_text_app, Et, andb_false_r. split; [apply mget_mremove_same|].
        pose proof (perm_split vals) as Hps. fold inv txt in Hps.
        destruct (in_dec (list_eq_dec Byte.byte_eq_dec) n (map fst done)) as [Hd|Hd].
        -- specialize (Hn_in Hd). destruct (all_text (vals_of n done)).
           ++ destruct Hn_in as [E1 E2]. unfold earlier. rewrite E1. exists ((inv ++ vals_of n done) ++ txt). split.
              ** apply mget_mappend_same, mget_mappend_same. now apply mget_mappend_none.
              ** rewrite <- app_assoc. apply Permutation_trans with (vals_of n done ++ inv ++ txt); [apply Permutation_app_swap_app|]. now apply Permutation_app_head.
           ++ destruct Hn_in as [E1 (bs & E2 & Hp)]. unfold earlier. rewrite E1. exists (((bs ++ inv) ++ []) ++ txt). split.
              ** apply mget_mappend_same, mget_mappend_same. now apply mget_mappend_same.
              ** rewrite app_nil_r, <- app_assoc. now apply Permutation_app.
        -- destruct (Hn_out Hd) as [E1 E2]. unfold earlier. rewrite E1. assert (Ev : vals_of n done = []).
           { unfold vals_of. replace (filter (fun a => beqb (fst a) n) done) with (@nil spec_attr); [reflexivity|].
             symmetry. clear -Hd. induction done as [|[k v] d IH]; [reflexivity|]. cbn in *. destruct (beqb k n) eqn:E; [apply beqb_eq in E; tauto|]. apply IH. tauto. }
           rewrite Ev. cbn [app]. exists ((inv ++ []) ++ txt). split.
           ++ apply mget_mappend_same, mget_mappend_same. now apply mget_mappend_none.
           ++ now rewrite app_nil_r.
      * assert (Eq : beqb n k = false) by (destruct (beqb n k) eqn:E; [apply beqb_eq in E; congruence|reflexivity]). rewrite Eq, app_nil_r.
        rewrite mget_mremove_other, !mget_mappend_other by exact Hkn. destruct (HI k) as [_ Hi]. apply Hi. tauto.
Qed.

Lemma all_attrs_run attrs : forall done am bm, Inv done am bm -> Forall (fun a => isu (fst a) = true) attrs ->
  exists am' bm', all_attrs (am, bm) (map enc_attr attrs) = Ok (am', bm') /\ Inv (done ++ attrs) am' bm'.
Proof.
  induction attrs as [|[n vals] attrs IH]; intros done am bm HI Hu.
  - exists am, bm. rewrite app_nil_r. now split.
  - inversion Hu as [|? ? Hun Hu']; subst. cbn [fst] in Hun.
    destruct (one_attr_step done am bm n vals HI Hun) as (am1 & bm1 & E1 & HI1).
    destruct (IH (done ++ [(n, vals)]) am1 bm1 HI1 Hu') as (am' & bm' & E2 & HI2).
    exists am', bm'. split; [|now rewrite <- app_assoc in HI2].
    unfold all_attrs, one_attr in *. cbn [map all_attrs_gen]. now rewrite E1.
Qed.

(* C15, for every entry: attribute descriptions may repeat (repair F41) *)
Theorem c15_construct dn attrs :
  isu dn = true -> Forall (fun a => isu (fst a) = true) attrs ->
  exists e, construct (enc_entry dn attrs) = Ok e /\ e_dn e = dn /\
    (forall k, In k (map fst attrs) ->
        (* exactly one of the two maps; text iff every value sent under the description is UTF-8, values in the order sent *)
        (all_text (vals_of k attrs) = true  -> mget k (e_attrs e) = Some (vals_of k attrs) /\ mget k (e_bin e) = None) /\
        (all_text (vals_of k attrs) = false -> mget k (e_attrs e) = None /\
                                     exists bs, mget k (e_bin e) = Some bs /\ Permutation bs (vals_of k attrs))) /\
    (forall k, ~ In k (map fst attrs) -> mget k (e_attrs e) = None /\ mget k (e_bin e) = None).   (* nothing else *)
Proof.
  intros Hdn Hu. unfold construct, construct_gen, enc_entry. cbn beta iota. change (4 =? 4) with true. cbn [negb]. rewrite Hdn. cbn [negb].
  assert (H0 : Inv [] [] []) by (intros k; split; [now split|intros []]).
  destruct (all_attrs_run attrs [] [] [] H0 Hu) as (am & bm & Hrun & HI). cbn [app] in HI.
  unfold all_attrs in Hrun. unfold amap in *. eexists. split; [rewrite Hrun; reflexivity|]. cbn [e_dn e_attrs e_bin]. split; [reflexivity|]. split.
  - intros k Hk. destruct (HI k) as [_ Hi]. specialize (Hi Hk). split; intros Et; rewrite Et in Hi; exact Hi.
  - intros k Hk. destruct (HI k) as [Ho _]. exact (Ho Hk).
Qed.
(* with descriptions that do not repeat, [vals_of] is the attribute's own value list: the statement of the earlier rounds *)
Lemma vals_of_nodup attrs a : NoDup (map fst attrs) -> In a attrs -> vals_of (fst a) attrs = snd a.
Proof.
  induction attrs as [|[k v] attrs IH]; intros Hnd Hin; [destruct Hin|]. cbn [map fst] in Hnd. inversion Hnd as [|? ? Hnin Hnd']; subst.
  unfold vals_of. cbn [filter fst]. destruct Hin as [<-|Hin].
  - cbn [fst snd]. rewrite (proj2 (beqb_eq k k) eq_refl). cbn [map concat snd].
    replace (filter (fun a => beqb (fst a) k) attrs) with (@nil spec_attr); [cbn; now rewrite app_nil_r|].
    symmetry. clear -Hnin. induction attrs as [|[k2 v2] d IH]; [reflexivity|]. cbn in *. destruct (beqb k2 k) eqn:E; [apply beqb_eq in E; tauto|]. apply IH. tauto.
  - assert (Hne : beqb k (fst a) = false). { destruct (beqb k (fst a)) eqn:E; [|reflexivity]. apply beqb_eq in E. subst k. elim Hnin. now apply in_map. }
    rewrite Hne. now apply IH.
Qed.
(* as found: the later element replaces the earlier values; a text and a binary element leave the attribute in both maps *)
End Construct.

(* instantiated with the real classifier *)
Definition c15 := c15_construct Utf8.valid.
Print Assumptions c15.
(* the probe of round 0, on the model *)
Lemma c15_refuted_F41 :
  let lost := enc_entry [x63] [([x6d], [[x61]; [x62]]); ([x6d], [[x63]])] in
  let both := enc_entry [x63] [([x6d], [[x61]]); ([x6d], [[xff]])] in
  construct_gen Utf8.valid false lost = Ok {| e_dn := [x63]; e_attrs := [([x6d], [[x63]])]; e_bin := [] |} /\
  construct Utf8.valid lost = Ok {| e_dn := [x63]; e_attrs := [([x6d], [[x61]; [x62]; [x63]])]; e_bin := [] |} /\
  construct_gen Utf8.valid false both = Ok {| e_dn := [x63]; e_attrs := [([x6d], [[x61]])]; e_bin := [([x6d], [[xff]])] |} /\
  construct Utf8.valid both = Ok {| e_dn := [x63]; e_attrs := []; e_bin := [([x6d], [[xff]; [x61]])] |}.
Proof. vm_compute. repeat split. Qed.
Example mixed :
  construct Utf8.valid (enc_entry [x63] [([x6d], [[x76; x31]; [xff; xfe]; [x76; x33]; [xc0; x80]])]) =
  Ok {| e_dn := [x63]; e_attrs := []; e_bin := [([x6d], [[xff; xfe]; [xc0; x80]; [x76; x31]; [x76; x33]])] |}.
Proof. vm_compute. reflexivity. Qed.
