(* Calibration sketch (round 0): SearchEntry::construct (src/search.rs:147-217) and C15. *)
From Coq Require Import List NArith Lia Bool Arith Permutation.
From Coq.Strings Require Import Byte.
From L3 Require Import Ber Utf8 Frame.
Import ListNotations.
Open Scope N_scope.

Definition bytes := list byte.
Definition beqb (a b : bytes) : bool := if list_eq_dec Byte.byte_eq_dec a b then true else false.
Lemma beqb_eq a b : beqb a b = true <-> a = b.
Proof. unfold beqb. destruct (list_eq_dec Byte.byte_eq_dec a b); split; congruence. Qed.

(* HashMap<String, Vec<_>> as an association list; only the operations the code uses *)
Definition amap := list (bytes * list bytes).
Fixpoint mget (k : bytes) (m : amap) : option (list bytes) :=
  match m with [] => None | (k', v) :: r => if beqb k' k then Some v else mget k r end.
Fixpoint minsert (k : bytes) (v : list bytes) (m : amap) : amap :=       (* insert: replaces *)
  match m with [] => [(k, v)] | (k', v') :: r => if beqb k' k then (k, v) :: r else (k', v') :: minsert k v r end.
Fixpoint mappend (k : bytes) (xs : list bytes) (m : amap) : amap :=      (* entry().or_insert_with(Vec::new) then push / extend *)
  match m with [] => [(k, xs)] | (k', v') :: r => if beqb k' k then (k', v' ++ xs) :: r else (k', v') :: mappend k xs r end.

Section Construct.
Variable isu : bytes -> bool.     (* std::str::from_utf8(..).is_ok(); instantiated with Utf8.valid below *)

Record sentry := { e_dn : bytes; e_attrs : amap; e_bin : amap }.

(* values of one attribute: the strings, and the invalid ones in the order met *)
Fixpoint split_vals (vs : list tree) : outcome (list bytes * list bytes) :=
  match vs with
  | [] => Ok ([], [])
  | P _ _ v :: r => match split_vals r with Panic => Panic | Ok (t, b) => if isu v then Ok (v :: t, b) else Ok (t, v :: b) end
  | C _ _ _ :: _ => Panic end.                                           (* expect("octet string") *)

Definition one_attr (acc : amap * amap) (a_v : tree) : outcome (amap * amap) :=
  let (attrs, bins) := acc in
  match a_v with
  | C _ _ (P _ _ a_type :: C _ _ vals :: _) =>
      if negb (isu a_type) then Panic else                               (* expect("attribute type") *)
      match split_vals vals with
      | Panic => Panic
      | Ok (texts, []) => Ok (minsert a_type texts attrs, bins)
      | Ok (texts, invalid) => Ok (attrs, mappend a_type texts (mappend a_type invalid bins)) end
  | _ => Panic end.
Fixpoint all_attrs (acc : amap * amap) (l : list tree) : outcome (amap * amap) :=
  match l with [] => Ok acc | a :: r => match one_attr acc a with Panic => Panic | Ok acc' => all_attrs acc' r end end.

Definition construct (t : tree) : outcome sentry :=
  match t with
  | C _ id (P _ _ dn :: C _ _ attrs :: _) =>
      if negb (id =? 4) then Panic else if negb (isu dn) then Panic else
      match all_attrs ([], []) attrs with Panic => Panic | Ok (a, b) => Ok {| e_dn := dn; e_attrs := a; e_bin := b |} end
  | _ => Panic end.

(* ---- what the server sent ---- *)
Definition spec_attr := (bytes * list bytes)%type.
Definition enc_attr (a : spec_attr) : tree :=
  C Universal 16 [P Universal 4 (fst a); C Universal 17 (map (P Universal 4) (snd a))].
Definition enc_entry (dn : bytes) (attrs : list spec_attr) : tree :=
  C Application 4 [P Universal 4 dn; C Universal 16 (map enc_attr attrs)].

Definition all_text (vals : list bytes) : bool := forallb isu vals.

Lemma split_vals_spec vals :
  split_vals (map (P Universal 4) vals) = Ok (filter isu vals, filter (fun v => negb (isu v)) vals).
Proof. induction vals as [|v vals IH]; [reflexivity|]. cbn [map split_vals filter]. rewrite IH. now destruct (isu v). Qed.
Lemma filter_all_text vals : all_text vals = true -> filter isu vals = vals /\ filter (fun v => negb (isu v)) vals = [].
Proof. induction vals as [|v vals IH]; [now split|]. cbn. intros H. apply andb_true_iff in H as [Hv H].
  rewrite Hv. cbn. destruct (IH H) as [-> ->]. now split. Qed.
Lemma filter_some_binary vals : all_text vals = false -> filter (fun v => negb (isu v)) vals <> [].
Proof. induction vals as [|v vals IH]; [discriminate|]. cbn. destruct (isu v); cbn; [exact IH|discriminate]. Qed.

(* the maps after processing a list of attributes whose names are pairwise distinct and fresh *)
Definition fresh (k : bytes) (m : amap) : Prop := mget k m = None.
Lemma mget_minsert_same k v m : mget k (minsert k v m) = Some v.
Proof. induction m as [|[k' v'] m IH]; cbn; [now rewrite (proj2 (beqb_eq k k) eq_refl)|].
  destruct (beqb k' k) eqn:E; cbn; [now rewrite (proj2 (beqb_eq k k) eq_refl)|now rewrite E]. Qed.
Lemma mget_minsert_other k k' v m : k' <> k -> mget k' (minsert k v m) = mget k' m.
Proof. intros Hne. induction m as [|[k2 v2] m IH]; cbn.
  - destruct (beqb k k') eqn:E; [apply beqb_eq in E; congruence|reflexivity].
  - destruct (beqb k2 k) eqn:E; cbn.
    + apply beqb_eq in E. subst k2. destruct (beqb k k') eqn:E2; [apply beqb_eq in E2; congruence|reflexivity].
    + destruct (beqb k2 k'); [reflexivity|exact IH]. Qed.
Lemma mget_mappend_fresh k xs m : fresh k m -> mget k (mappend k xs m) = Some xs.
Proof. unfold fresh. induction m as [|[k' v'] m IH]; cbn; [now rewrite (proj2 (beqb_eq k k) eq_refl)|].
  destruct (beqb k' k) eqn:E; [discriminate|]. intros H. cbn. rewrite E. now apply IH. Qed.
Lemma mget_mappend_same k xs ys m : mget k m = Some ys -> mget k (mappend k xs m) = Some (ys ++ xs).
Proof. induction m as [|[k' v'] m IH]; cbn; [discriminate|].
  destruct (beqb k' k) eqn:E; cbn; rewrite E; [now intros [= ->]|exact IH]. Qed.
Lemma mget_mappend_other k k' xs m : k' <> k -> mget k' (mappend k xs m) = mget k' m.
Proof. intros Hne. induction m as [|[k2 v2] m IH]; cbn.
  - destruct (beqb k k') eqn:E; [apply beqb_eq in E; congruence|reflexivity].
  - destruct (beqb k2 k) eqn:E; cbn.
    + apply beqb_eq in E. subst k2. destruct (beqb k k') eqn:E2; [apply beqb_eq in E2; congruence|reflexivity].
    + destruct (beqb k2 k'); [reflexivity|exact IH]. Qed.

(* the expected content of each map for one attribute *)
Definition text_of (a : spec_attr) : option (list bytes) := if all_text (snd a) then Some (snd a) else None.
Definition bin_of (a : spec_attr) : option (list bytes) :=
  if all_text (snd a) then None else Some (filter (fun v => negb (isu v)) (snd a) ++ filter isu (snd a)).

Lemma all_attrs_spec attrs : forall am bm,
  NoDup (map fst attrs) -> Forall (fun a => isu (fst a) = true) attrs ->
  (forall a, In a attrs -> fresh (fst a) am /\ fresh (fst a) bm) ->
  exists am' bm', all_attrs (am, bm) (map enc_attr attrs) = Ok (am', bm') /\
    (forall a, In a attrs -> mget (fst a) am' = text_of a /\ mget (fst a) bm' = bin_of a) /\
    (forall k, ~ In k (map fst attrs) -> mget k am' = mget k am /\ mget k bm' = mget k bm).
Proof.
  induction attrs as [|[n vals] attrs IH]; intros am bm Hnd Hu Hf.
  - exists am, bm. split; [reflexivity|]. split; [intros x []|intros; split; reflexivity].
  - cbn [map fst] in Hnd. inversion Hnd as [|? ? Hnin Hnd']; subst. inversion Hu as [|? ? Hun Hu']; subst. cbn [fst] in Hun.
    destruct (Hf (n, vals) (or_introl eq_refl)) as [Fa Fb]. cbn [fst] in Fa, Fb.
    cbn [map all_attrs enc_attr one_attr fst snd]. rewrite Hun. cbn [negb]. rewrite split_vals_spec.
    destruct (all_text vals) eqn:Et.
    + destruct (filter_all_text _ Et) as [-> ->].
      destruct (IH (minsert n vals am) bm Hnd' Hu') as (am' & bm' & Hrun & Hin & Hout).
      { intros a Ha. destruct (Hf a (or_intror Ha)) as [F1 F2]. split; [|exact F2]. unfold fresh.
        rewrite mget_minsert_other; [exact F1|]. intros E. apply Hnin. rewrite <- E. now apply in_map. }
      exists am', bm'. split; [exact Hrun|]. split.
      * intros a [<-|Ha]; [|now apply Hin]. destruct (Hout n Hnin) as [E1 E2]. cbn [fst].
        rewrite E1, E2, mget_minsert_same. unfold text_of, bin_of. cbn [snd]. rewrite Et. split; [reflexivity|exact Fb].
      * intros k Hk. cbn [map fst] in Hk. destruct (Hout k (fun H => Hk (or_intror H))) as [E1 E2].
        rewrite E1, E2. split; [|reflexivity]. apply mget_minsert_other. intros ->. apply Hk. now left.
    + pose proof (filter_some_binary _ Et) as Hne.
      destruct (filter (fun v => negb (isu v)) vals) as [|b0 bs] eqn:Eb; [congruence|].
      set (bm1 := mappend n (filter isu vals) (mappend n (b0 :: bs) bm)).
      destruct (IH am bm1 Hnd' Hu') as (am' & bm' & Hrun & Hin & Hout).
      { intros a Ha. destruct (Hf a (or_intror Ha)) as [F1 F2]. split; [exact F1|]. unfold fresh, bm1.
        assert (fst a <> n) by (intros E; apply Hnin; rewrite <- E; now apply in_map).
        now rewrite !mget_mappend_other. }
      exists am', bm'. split; [exact Hrun|]. split.
      * intros a [<-|Ha]; [|now apply Hin]. destruct (Hout n Hnin) as [E1 E2]. cbn [fst].
        rewrite E1, E2. unfold text_of, bin_of. cbn [snd]. rewrite Et, Eb. split; [exact Fa|]. unfold bm1.
        rewrite (mget_mappend_same n _ (b0 :: bs)); [reflexivity|]. now apply mget_mappend_fresh.
      * intros k Hk. cbn [map fst] in Hk. destruct (Hout k (fun H => Hk (or_intror H))) as [E1 E2].
        rewrite E1, E2. split; [reflexivity|]. unfold bm1. assert (k <> n) by (intros ->; apply Hk; now left).
        now rewrite !mget_mappend_other.
Qed.

(* C15 *)
Theorem c15_construct dn attrs :
  isu dn = true -> NoDup (map fst attrs) -> Forall (fun a => isu (fst a) = true) attrs ->
  exists e, construct (enc_entry dn attrs) = Ok e /\ e_dn e = dn /\
    (forall a, In a attrs ->
        (* exactly one of the two maps; text iff every value is UTF-8, values in order *)
        (all_text (snd a) = true  -> mget (fst a) (e_attrs e) = Some (snd a) /\ mget (fst a) (e_bin e) = None) /\
        (all_text (snd a) = false -> mget (fst a) (e_attrs e) = None /\
                                     exists bs, mget (fst a) (e_bin e) = Some bs /\ Permutation bs (snd a))) /\
    (forall k, ~ In k (map fst attrs) -> mget k (e_attrs e) = None /\ mget k (e_bin e) = None).   (* nothing else *)
Proof.
  intros Hdn Hnd Hu. unfold construct, enc_entry. cbn beta iota. change (4 =? 4) with true. cbn [negb]. rewrite Hdn. cbn [negb].
  destruct (all_attrs_spec attrs [] [] Hnd Hu) as (am & bm & Hrun & Hin & Hout); [intros; split; reflexivity|].
  unfold amap in *. eexists. split; [rewrite Hrun; reflexivity|]. cbn [e_dn e_attrs e_bin]. split; [reflexivity|]. split.
  - intros a Ha. destruct (Hin a Ha) as [E1 E2]. unfold text_of, bin_of in *. split; intros Et; rewrite Et in *.
    + now split.
    + split; [assumption|]. eexists. split; [exact E2|].
      clear. induction (snd a) as [|v vs IH]; [constructor|]. cbn. destruct (isu v); cbn.
      * apply Permutation_sym, Permutation_cons_app, Permutation_sym. exact IH.
      * now constructor.
  - intros k Hk. destruct (Hout k Hk) as [E1 E2]. now rewrite E1, E2.
Qed.
End Construct.

(* instantiated with the real classifier *)
Definition c15 := c15_construct Utf8.valid.
Print Assumptions c15.
(* the probe of round 0, on the model *)
Example mixed :
  construct Utf8.valid (enc_entry [x63] [([x6d], [[x76; x31]; [xff; xfe]; [x76; x33]; [xc0; x80]])]) =
  Ok {| e_dn := [x63]; e_attrs := []; e_bin := [([x6d], [[xff; xfe]; [xc0; x80]; [x76; x31]; [x76; x33]])] |}.
Proof. vm_compute. reflexivity. Qed.
