(* Calibration sketch (round 0): SearchStream shims, next_inner/finish_inner (src/search.rs:669-806), the EntriesOnly adapter
   (src/adapters.rs:244-286) and Ldap::search's loop (src/ldap.rs:480-496). C10. *)
From Coq Require Import List NArith Lia Bool Arith.
From Coq.Strings Require Import Byte.
Import ListNotations.

Definition bytes := list byte.
Record result := mkRes { rc : N; res_refs : list bytes; res_ctrls : list nat }.
Inductive sitem := IEntry (tok : nat) | IRef (uris : list bytes) | IInter (tok : nat) | IDone (r : result) (ctrls : list nat).
Inductive sstate := Fresh | Active | Done | Closed | SError.
Inductive nres := NSome (it : sitem) | NNone | NErr | NPanic | NPending.

(* the item channel as the stream sees it: what has arrived and not been taken; whether all senders are gone *)
Record chan := mkChan { avail : list sitem; closed : bool }.
Record stream := mkStream {
  state : sstate; rx : option chan; res : option result;
  eo_refs : list bytes;       (* the EntriesOnly adapter's accumulator (meaningful only when adapted) *)
  adapted : bool;             (* adapters = [EntriesOnly] or [] *)
  scrubs : nat;               (* id scrub messages sent by finish_inner *)
  fix7 : bool }.              (* Appendix B repair F7 *)

Definition set_state (s : stream) (x : sstate) : stream :=
  mkStream x (rx s) (res s) (eo_refs s) (adapted s) (scrubs s) (fix7 s).

(* next_inner: rx.as_mut().unwrap().recv() *)
Definition next_inner (s : stream) : stream * nres :=
  match rx s with
  | None => (s, NPanic)                                                    (* Option::unwrap() on None *)
  | Some ch =>
    match avail ch with
    | [] => if closed ch then (mkStream (state s) None (res s) (eo_refs s) (adapted s) (scrubs s) (fix7 s), NErr)   (* EndOfStream *)
            else (s, NPending)
    | IDone r cs :: _ =>
        (mkStream (state s) None (Some (mkRes (rc r) (res_refs r) cs)) (eo_refs s) (adapted s) (scrubs s) (fix7 s), NNone)
    | it :: tl =>
        (mkStream (state s) (Some (mkChan tl (closed ch))) (res s) (eo_refs s) (adapted s) (scrubs s) (fix7 s), NSome it)
    end
  end.

(* stream.next() with ax == adapters.len(): the direct arm *)
Definition next_direct (s : stream) : stream * nres :=
  match state s with
  | Active =>
      let (s', r) := next_inner s in
      match r with
      | NErr => (set_state s' SError, r)
      | NNone => if fix7 s && negb (adapted s) then (set_state s' Done, r) else (s', r)
      | _ => (s', r) end
  | _ => (s, NNone) end.

(* EntriesOnly::next — loop { match stream.next() ... }, bounded by what has arrived *)
Fixpoint eo_loop (fuel : nat) (s : stream) : stream * nres :=
  match fuel with O => (s, NPending) | S f =>
    let (s', r) := next_direct s in
    match r with
    | NSome (IInter _) => eo_loop f s'
    | NSome (IRef uris) => eo_loop f (mkStream (state s') (rx s') (res s') (eo_refs s' ++ uris) (adapted s') (scrubs s') (fix7 s'))
    | _ => (s', r) end end.

(* the public next(): state gate, then the chain; state transition at ax == 0 for adapted streams *)
Definition next (s : stream) : stream * nres :=
  match state s with
  | Active =>
      if adapted s then
        let fuel := match rx s with Some ch => S (length (avail ch)) | None => 1%nat end in
        let (s', r) := eo_loop fuel s in
        match r with
        | NNone => (set_state s' Done, r)
        | NErr => (set_state s' SError, r)
        | _ => (s', r) end
      else next_direct s
  | _ => (s, NNone) end.

Definition cancelled := mkRes 88 [] [].
Definition already := mkRes 80 [] [].
Definition finish (s : stream) : stream * result :=
  match state s with
  | Closed => (s, already)
  | _ =>
    let sc := match state s with Done => scrubs s | _ => S (scrubs s) end in
    let r := match res s with Some r => r | None => cancelled end in
    let r := if adapted s then mkRes (rc r) (res_refs r ++ eo_refs s) (res_ctrls r) else r in
    (mkStream Closed None None [] (adapted s) sc (fix7 s), r)
  end.

Definition start (items : list sitem) (is_adapted f7 : bool) : stream :=
  mkStream Active (Some (mkChan items true)) None [] is_adapted 0 f7.

(* ---- F7 on the code as it is: a direct stream read to the end is still Active, and one more next() panics ---- *)
Definition done0 := IDone (mkRes 0 [] []) [5].
Lemma c10_refuted_direct_never_done :
  let s0 := start [IEntry 1; done0] false false in
  let (s1, r1) := next s0 in let (s2, r2) := next s1 in let (s3, r3) := next s2 in
  r1 = NSome (IEntry 1) /\ r2 = NNone /\ state s2 = Active /\ r3 = NPanic.
Proof. vm_compute. repeat split. Qed.

(* ---- the abstract behaviour every stream must have (the property's text) ---- *)
Definition is_entry (it : sitem) : bool := match it with IEntry _ => true | _ => false end.
Definition ref_uris (it : sitem) : list bytes := match it with IRef u => u | _ => [] end.
Definition visible (is_adapted : bool) (its : list sitem) : list sitem := if is_adapted then filter is_entry its else its.

Fixpoint drain (fuel : nat) (s : stream) : list sitem * stream :=       (* call next() until it stops yielding *)
  match fuel with O => ([], s) | S f =>
    match next s with
    | (s', NSome it) => let (l, s'') := drain f s' in (it :: l, s'')
    | (s', _) => ([], s') end end.

Definition not_done (it : sitem) : Prop := match it with IDone _ _ => False | _ => True end.

(* ---- one-step facts ---- *)
Notation live its cl rs refs ad sc f7 := (mkStream Active (Some (mkChan its cl)) rs refs ad sc f7) (only parsing).

Lemma next_direct_item it tl cl rs refs ad sc f7 : not_done it ->
  next_direct (live (it :: tl) cl rs refs ad sc f7) = (live tl cl rs refs ad sc f7, NSome it).
Proof. destruct it; cbn; try reflexivity. contradiction. Qed.
Lemma next_direct_done r cs tl cl rs refs ad sc f7 :
  next_direct (live (IDone r cs :: tl) cl rs refs ad sc f7) =
  (mkStream (if f7 && negb ad then Done else Active) None (Some (mkRes (rc r) (res_refs r) cs)) refs ad sc f7, NNone).
Proof. unfold next_direct. cbn. destruct (f7 && negb ad); reflexivity. Qed.
Lemma next_direct_eof rs refs ad sc f7 :
  next_direct (live [] true rs refs ad sc f7) = (mkStream SError None rs refs ad sc f7, NErr).
Proof. reflexivity. Qed.

Lemma eo_loop_S fuel s : eo_loop (S fuel) s =
  let (s', r) := next_direct s in
  match r with
  | NSome (IInter _) => eo_loop fuel s'
  | NSome (IRef uris) => eo_loop fuel (mkStream (state s') (rx s') (res s') (eo_refs s' ++ uris) (adapted s') (scrubs s') (fix7 s'))
  | _ => (s', r) end.
Proof. reflexivity. Qed.

Definition hidden (it : sitem) : Prop := match it with IRef _ | IInter _ => True | _ => False end.
(* EntriesOnly swallows a run of referrals/intermediates, collecting the URIs *)
Lemma eo_loop_hidden its : Forall hidden its -> forall fuel tl cl rs refs sc f7,
  eo_loop (length its + fuel) (live (its ++ tl) cl rs refs true sc f7) =
  eo_loop fuel (live tl cl rs (refs ++ flat_map ref_uris its) true sc f7).
Proof.
  induction 1 as [|it its Hh _ IH]; intros fuel tl cl rs refs sc f7.
  - cbn. now rewrite app_nil_r.
  - cbn [length app Nat.add]. rewrite eo_loop_S, next_direct_item by (destruct it; cbn in *; tauto).
    destruct it as [t|u|t|r c]; cbn in Hh; try contradiction; cbn [state rx res eo_refs adapted scrubs fix7].
    + rewrite (IH fuel tl cl rs (refs ++ u) sc f7). cbn [flat_map ref_uris]. now rewrite <- app_assoc.
    + rewrite (IH fuel tl cl rs refs sc f7). reflexivity.
Qed.

(* what one call of next() yields on an EntriesOnly stream: the next entry, after any hidden items *)
Theorem next_adapted_entry hid t tl cl rs refs sc f7 : Forall hidden hid ->
  next (live (hid ++ IEntry t :: tl) cl rs refs true sc f7) =
  (live tl cl rs (refs ++ flat_map ref_uris hid) true sc f7, NSome (IEntry t)).
Proof.
  intros Hh. unfold next. cbn [state adapted rx avail].
  replace (S (length (hid ++ IEntry t :: tl))) with (length hid + S (S (length tl)))%nat by (rewrite app_length; cbn; lia).
  rewrite (eo_loop_hidden hid Hh). rewrite eo_loop_S, next_direct_item by exact I. reflexivity.
Qed.
(* ... and at the end of the data: Ok(None), state Done, result stored with the controls of the Done message *)
Theorem next_adapted_done hid r cs tl cl rs refs sc f7 : Forall hidden hid ->
  next (live (hid ++ IDone r cs :: tl) cl rs refs true sc f7) =
  (mkStream Done None (Some (mkRes (rc r) (res_refs r) cs)) (refs ++ flat_map ref_uris hid) true sc f7, NNone).
Proof.
  intros Hh. unfold next. cbn [state adapted rx avail].
  replace (S (length (hid ++ IDone r cs :: tl))) with (length hid + S (S (length tl)))%nat by (rewrite app_length; cbn; lia).
  rewrite (eo_loop_hidden hid Hh). rewrite eo_loop_S, next_direct_done.
  rewrite andb_false_r. reflexivity.
Qed.
(* direct stream, repaired: item by item, then Done *)
Theorem next_direct_repaired_item it tl cl rs refs sc : not_done it ->
  next (live (it :: tl) cl rs refs false sc true) = (live tl cl rs refs false sc true, NSome it).
Proof. intros H. unfold next. cbn [state adapted]. now apply next_direct_item. Qed.
Theorem next_direct_repaired_done r cs tl cl rs refs sc :
  next (live (IDone r cs :: tl) cl rs refs false sc true) =
  (mkStream Done None (Some (mkRes (rc r) (res_refs r) cs)) refs false sc true, NNone).
Proof. unfold next. cbn [state adapted]. now rewrite next_direct_done. Qed.

(* outside Active, next() is Ok(None), changes nothing, and cannot panic *)
Theorem c10_next_outside_active s : state s <> Active -> next s = (s, NNone).
Proof. unfold next. destruct (state s); congruence. Qed.
(* finish(): the server's result (with its controls) after a full read, 88 otherwise, 80 the second time; always ends Closed *)
Theorem c10_finish_after_done r refs ad sc f7 :
  finish (mkStream Done None (Some r) refs ad sc f7) =
  (mkStream Closed None None [] ad sc f7, if ad then mkRes (rc r) (res_refs r ++ refs) (res_ctrls r) else r).
Proof. reflexivity. Qed.
Theorem c10_finish_early s : state s <> Closed -> res s = None ->
  snd (finish s) = (if adapted s then mkRes 88 (eo_refs s) [] else cancelled) /\ state (fst (finish s)) = Closed.
Proof. unfold finish. intros Hs Hr. rewrite Hr. destruct (state s); try congruence; destruct (adapted s); split; reflexivity. Qed.
Theorem c10_second_finish s : snd (finish (fst (finish s))) = already.
Proof. unfold finish at 2. destruct (state s) eqn:E; cbn [fst]; try reflexivity. unfold finish. now rewrite E. Qed.
Theorem c10_finish_closes s : state (fst (finish s)) = Closed.
Proof. unfold finish. destruct (state s) eqn:E; cbn; try reflexivity. exact E. Qed.

(* Ldap::search: entries in order, referral URIs merged into the result, intermediates dropped *)
Definition search (items : list sitem) : list sitem * result :=
  let (es, s) := drain (S (length items)) (start items true false) in (es, snd (finish s)).
Example search_example :
  search [IEntry 1; IRef [[x61]]; IInter 9; IEntry 2; IRef [[x62]]; IDone (mkRes 0 [[x63]] []) [7]] =
  ([IEntry 1; IEntry 2], mkRes 0 [[x63]; [x61]; [x62]] [7]).
Proof. vm_compute. reflexivity. Qed.

(* ---------- reading a stream to the end, then finishing it ---------- *)
Lemma hidden_or_entry it : not_done it -> hidden it \/ exists t, it = IEntry t.
Proof. destruct it; cbn; intros H; try contradiction; [right; eauto|left; exact I|left; exact I]. Qed.

Theorem c10_adapted_read_all its : Forall not_done its -> forall hid r cs cl rs refs sc f7 fuel, Forall hidden hid -> (length its < fuel)%nat ->
  drain fuel (mkStream Active (Some (mkChan (hid ++ its ++ [IDone r cs]) cl)) rs refs true sc f7) =
  (filter is_entry its, mkStream Done None (Some (mkRes (rc r) (res_refs r) cs)) (refs ++ flat_map ref_uris hid ++ flat_map ref_uris its) true sc f7).
Proof.
  induction 1 as [|it its Hnd _ IH]; intros hid r cs cl rs refs sc f7 fuel Hh Hf.
  - destruct fuel as [|fuel]; [cbn in Hf; lia|]. cbn [app drain]. rewrite (next_adapted_done hid r cs [] cl rs refs sc f7 Hh).
    cbn [filter flat_map]. now rewrite app_nil_r.
  - destruct (hidden_or_entry it Hnd) as [Hit|[t ->]].
    + (* swallowed by the adapter together with what precedes it *)
      replace (hid ++ (it :: its) ++ [IDone r cs]) with ((hid ++ [it]) ++ its ++ [IDone r cs]) by (rewrite <- app_assoc; reflexivity).
      rewrite (IH (hid ++ [it]) r cs cl rs refs sc f7 fuel) by (try (apply Forall_app; split; [assumption|now constructor]); cbn in Hf; lia).
      assert (E : is_entry it = false) by (destruct it; cbn in Hit; try contradiction; reflexivity).
      cbn [filter]. rewrite E. f_equal. f_equal. rewrite flat_map_app. cbn [flat_map]. now rewrite app_nil_r, <- !app_assoc.
    + destruct fuel as [|fuel]; [cbn in Hf; lia|]. cbn [drain app].
      change (hid ++ IEntry t :: its ++ [IDone r cs]) with (hid ++ IEntry t :: (its ++ [IDone r cs])).
      rewrite (next_adapted_entry hid t (its ++ [IDone r cs]) cl rs refs sc f7 Hh).
      pose proof (IH [] r cs cl rs (refs ++ flat_map ref_uris hid) sc f7 fuel (Forall_nil _) ltac:(cbn in Hf; lia)) as E. cbn [app] in E.
      rewrite E. cbn [filter is_entry flat_map ref_uris app]. now rewrite <- !app_assoc.
Qed.

(* C10, for Ldap::search and for any EntriesOnly stream read to the end: exactly the entries in order, then Ok(None); finish()
   returns the server's code and controls with the referral URIs of the reference messages merged in; then Closed; then 80 *)
Theorem c10_search_collects its r cs : Forall not_done its ->
  search (its ++ [IDone r cs]) = (filter is_entry its, mkRes (rc r) (res_refs r ++ flat_map ref_uris its) cs).
Proof. intros H. unfold search, start. rewrite app_length. cbn [length].
  pose proof (c10_adapted_read_all its H [] r cs true None [] 0%nat false (S (length its + 1)) (Forall_nil _) ltac:(lia)) as E. cbn [app] in E.
  rewrite E. reflexivity. Qed.

(* the repaired direct stream: every item in order (entries, references, intermediates), then Ok(None) and Done *)
Theorem c10_direct_read_all its : Forall not_done its -> forall r cs cl rs refs sc fuel, (length its < fuel)%nat ->
  drain fuel (mkStream Active (Some (mkChan (its ++ [IDone r cs]) cl)) rs refs false sc true) =
  (its, mkStream Done None (Some (mkRes (rc r) (res_refs r) cs)) refs false sc true).
Proof.
  induction 1 as [|it its Hnd _ IH]; intros r cs cl rs refs sc fuel Hf; (destruct fuel as [|fuel]; [cbn in Hf; lia|]); cbn [app drain].
  - now rewrite next_direct_repaired_done.
  - rewrite next_direct_repaired_item by assumption. rewrite IH by (cbn in Hf; lia). reflexivity.
Qed.
Print Assumptions c10_search_collects.
