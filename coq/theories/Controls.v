(* Calibration sketch (round 0): control and extended-operation value codecs (src/controls_impl/*.rs, src/exop_impl/*.rs). C19. *)
From Coq Require Import List ZArith NArith Lia Bool Arith.
From Coq.Strings Require Import Byte String.
From L3 Require Import Ber BerFixed BerInt Utf8 Frame Filter Request Entry.
Import ListNotations.

Definition s2b := Filter.s2b.
Local Open Scope string_scope.
Local Open Scope list_scope.

(* every value is "BER-encode this tree": the byte level is C07's business *)
Record rawctl := { r_oid : bytes; r_crit : bool; r_val : option tree }.

(* ---- request controls ---- *)
Definition paged_results (size : Z) (cookie : bytes) : rawctl :=
  {| r_oid := s2b "1.2.840.113556.1.4.319"; r_crit := false; r_val := Some (seq [int_t Universal 2 size; oct cookie]) |}.
Inductive refresh_mode := RefreshOnly | RefreshAndPersist.
Definition mode_code (m : refresh_mode) : Z := match m with RefreshOnly => 1 | RefreshAndPersist => 3 end.
Definition sync_request (m : refresh_mode) (cookie : option bytes) (reload_hint : bool) : rawctl :=
  {| r_oid := s2b "1.3.6.1.4.1.4203.1.9.1.1"; r_crit := false;
     r_val := Some (seq (int_t Universal 10 (mode_code m) :: (match cookie with Some c => [oct c] | None => [] end) ++ (if reload_hint then [boolt true] else []))) |}.
Definition read_entry (oid : bytes) (attrs : list bytes) : rawctl := {| r_oid := oid; r_crit := false; r_val := Some (seq (map oct attrs)) |}.
Definition pre_read := read_entry (s2b "1.3.6.1.1.13.1").
Definition post_read := read_entry (s2b "1.3.6.1.1.13.2").
Definition assertion (filter : tree) : rawctl := {| r_oid := s2b "1.3.6.1.1.12"; r_crit := false; r_val := Some filter |}.
Definition matched_values (items : list tree) : rawctl := {| r_oid := s2b "1.2.826.0.1.3344810.2.3"; r_crit := false; r_val := Some (seq items) |}.
(* these carry raw bytes, not BER, as their value; modelled with a primitive node's payload *)
Record rawctl_b := { b_oid : bytes; b_crit : bool; b_val : option bytes }.
Definition proxy_auth (authzid : bytes) : rawctl_b := {| b_oid := s2b "2.16.840.1.113730.3.4.18"; b_crit := true; b_val := Some authzid |}.
Definition txn_spec (txn_id : bytes) : rawctl_b := {| b_oid := s2b "1.3.6.1.1.21.2"; b_crit := true; b_val := Some txn_id |}.
Definition manage_dsa_it : rawctl_b := {| b_oid := s2b "2.16.840.1.113730.3.4.2"; b_crit := false; b_val := None |}.
Definition relax_rules : rawctl_b := {| b_oid := s2b "1.3.6.1.4.1.4203.666.5.12"; b_crit := false; b_val := None |}.
Definition make_critical (c : rawctl) : rawctl := {| r_oid := r_oid c; r_crit := true; r_val := r_val c |}.

(* ---- readers written from the RFCs ---- *)
Definition rd_paged (t : tree) : option (Z * bytes) :=                              (* RFC 2696 *)
  match t with C Universal 16 [sz; ck] => match rd_int 2 sz, rd_oct ck with Some s, Some c => Some (s, c) | _, _ => None end | _ => None end.
Definition rd_sync_request (t : tree) : option (Z * option bytes * bool) :=       (* RFC 4533: reloadHint DEFAULT FALSE *)
  match t with
  | C Universal 16 [m] => option_map (fun x => (x, None, false)) (rd_int 10 m)
  | C Universal 16 [m; P Universal 4 c] => option_map (fun x => (x, Some c, false)) (rd_int 10 m)
  | C Universal 16 [m; P Universal 1 [b]] => option_map (fun x => (x, None, negb (Byte.eqb b x00))) (rd_int 10 m)
  | C Universal 16 [m; P Universal 4 c; P Universal 1 [b]] => option_map (fun x => (x, Some c, negb (Byte.eqb b x00))) (rd_int 10 m)
  | _ => None end.
Definition rd_attr_sel (t : tree) : option (list bytes) := match t with C Universal 16 l => all_some rd_oct l | _ => None end.  (* RFC 4527 *)

Theorem c19_paged_request size cookie : i64 size -> option_map rd_paged (r_val (paged_results size cookie)) = Some (Some (size, cookie)).
Proof. intros H. cbn [paged_results r_val option_map rd_paged seq]. now rewrite rd_int_t, rd_oct_oct by assumption. Qed.
Theorem c19_sync_request m (ck : option bytes) (hint : bool) :
  option_map rd_sync_request (r_val (sync_request m ck hint)) = Some (Some (mode_code m, ck, hint)).
Proof. assert (Hm : i64 (mode_code m)) by (destruct m; unfold i64; cbn; lia).
  destruct ck as [c|], hint; cbn [sync_request r_val option_map rd_sync_request seq app oct boolt]; now rewrite rd_int_t by assumption. Qed.
Theorem c19_read_entry oid attrs : option_map rd_attr_sel (r_val (read_entry oid attrs)) = Some (Some attrs).
Proof. cbn. now rewrite (all_some_map rd_oct oct attrs rd_oct_oct). Qed.
Theorem c19_oids_and_criticality :
  r_crit (paged_results 0 []) = false /\ b_crit (proxy_auth []) = true /\ b_crit (txn_spec []) = true /\
  b_crit manage_dsa_it = false /\ b_val manage_dsa_it = None /\ b_val relax_rules = None /\
  (forall c, r_crit (make_critical c) = true /\ r_oid (make_critical c) = r_oid c /\ r_val (make_critical c) = r_val c).
Proof. repeat split. Qed.

(* ---- response values: the code's parsers, with their panics ---- *)
Definition parse_paged (t : tree) : outcome (Z * bytes) :=                          (* ControlParser for PagedResults *)
  match t with
  | C _ _ (P Universal 2 sz :: P _ _ ck :: _) => Ok (Z.of_N (parse_uint sz mod 2^32), ck)      (* parse_uint(..) as i32, non-negative range *)
  | _ => Panic end.
Inductive entry_state := Present | Add | Modify | Delete.
Definition parse_sync_state (t : tree) : outcome (entry_state * bytes * option bytes) :=
  match t with
  | C _ _ (P Universal 10 st :: P _ _ uuid :: rest) =>
      let code := parse_uint st in
      let k := match rest with [] => Ok None | P _ _ c :: _ => Ok (Some c) | C _ _ _ :: _ => Panic end in
      match k with Panic => Panic | Ok ck =>
        if N.eqb code 0 then Ok (Present, uuid, ck) else if N.eqb code 1 then Ok (Add, uuid, ck)
        else if N.eqb code 2 then Ok (Modify, uuid, ck) else if N.eqb code 3 then Ok (Delete, uuid, ck) else Panic end
  | _ => Panic end.
Fixpoint sync_done_loop (l : list tree) (ck : option bytes) (rd : bool) : outcome (option bytes * bool) :=
  match l with [] => Ok (ck, rd)
  | P _ id v :: r => if N.eqb id 4 then sync_done_loop r (Some v) rd
                     else if N.eqb id 1 then match v with cons b _ => sync_done_loop r ck (negb (Byte.eqb b x00)) | nil => Panic end
                     else Panic
  | C _ _ _ :: _ => Panic end.
Definition parse_sync_done (t : tree) : outcome (option bytes * bool) :=
  match t with C _ _ l => sync_done_loop l None false | _ => Panic end.

Definition state_code (s : entry_state) : N := match s with Present => 0 | Add => 1 | Modify => 2 | Delete => 3 end.
Definition enc_small (n : N) : bytes := [byte_of_N n].
Theorem c19_paged_response size cookie : (0 <= size < 2^31)%Z ->
  forall sz, parse_uint sz = Z.to_N size -> parse_paged (seq [P Universal 2 sz; oct cookie]) = Ok (size, cookie).
Proof. intros H sz Hs. cbn. rewrite Hs, N.mod_small by lia. f_equal. f_equal. lia. Qed.
Theorem c19_sync_state st uuid ck :
  parse_sync_state (seq (P Universal 10 (enc_small (state_code st)) :: oct uuid :: match ck with Some c => [oct c] | None => @nil tree end)) = Ok (st, uuid, ck).
Proof. destruct st, ck; reflexivity. Qed.
Theorem c19_sync_done (ck : option bytes) (rd : bool) :
  parse_sync_done (seq (app (match ck with Some c => [oct c] | None => @nil tree end) (if rd then [boolt true] else @nil tree))) = Ok (ck, rd).   (* refreshDeletes DEFAULT FALSE *)
Proof. destruct ck, rd; reflexivity. Qed.

(* ---- extended operations ---- *)
Record exop := { x_name : bytes; x_val : option tree }.
Definition whoami : exop := {| x_name := s2b "1.3.6.1.4.1.4203.1.11.3"; x_val := None |}.
Definition starttls : exop := {| x_name := s2b "1.3.6.1.4.1.1466.20037"; x_val := None |}.
Definition start_txn : exop := {| x_name := s2b "1.3.6.1.1.21.1"; x_val := None |}.
Definition passmod (user old new : option bytes) : exop :=
  let l := (match user with Some u => [P Context 0 u] | None => [] end) ++ (match old with Some o => [P Context 1 o] | None => [] end)
           ++ (match new with Some n => [P Context 2 n] | None => [] end) in
  {| x_name := s2b "1.3.6.1.4.1.4203.1.11.1"; x_val := match l with [] => None | _ => Some (seq l) end |}.
Definition end_txn (txn_id : bytes) (commit : bool) : exop :=
  {| x_name := s2b "1.3.6.1.1.21.3"; x_val := Some (seq ((if commit then [] else [boolt false]) ++ [oct txn_id])) |}.   (* commit DEFAULT TRUE *)

Definition rd_passmod (t : tree) : option (option bytes * option bytes * option bytes) :=   (* RFC 3062 *)
  match t with
  | C Universal 16 l =>
      let get id := match find (fun x => match x with P Context i _ => N.eqb i id | _ => false end) l with Some (P _ _ v) => Some v | _ => None end in
      Some (get 0%N, get 1%N, get 2%N)
  | _ => None end.
Theorem c19_passmod u o n : (u, o, n) <> (None, None, None) -> option_map rd_passmod (x_val (passmod u o n)) = Some (Some (u, o, n)).
Proof. destruct u, o, n; intros H; try reflexivity. congruence. Qed.
Definition rd_end_txn (t : tree) : option (bool * bytes) :=                                   (* RFC 5805 *)
  match t with
  | C Universal 16 [P Universal 4 id] => Some (true, id)
  | C Universal 16 [P Universal 1 [b]; P Universal 4 id] => Some (negb (Byte.eqb b x00), id)
  | _ => None end.
Theorem c19_end_txn (id : bytes) (commit : bool) : option_map rd_end_txn (x_val (end_txn id commit)) = Some (Some (commit, id)).
Proof. now destruct commit. Qed.
Print Assumptions c19_sync_request.

(* ---- composed with C07: from the control's value bytes, in any definite encoding, to what the parser hands the caller ---- *)
Definition max_depth : nat := 100.                                                   (* MAX_DEPTH of the repaired lber parser *)
Definition parse_value {A} (p : tree -> outcome A) (v : bytes) : outcome A :=       (* Control parsers start with parse_tag(val).expect(..) *)
  match parse_tag' (lim true max_depth) 0 (S (List.length v)) v with POk (t, _) => p t | _ => Panic end.
Lemma parse_value_enc {A} (p : tree -> outcome A) t bs : BerEnc t bs -> (tdepth t <= S max_depth)%nat -> parse_value p bs = p t.
Proof. intros He Hd. unfold parse_value.
  pose proof (c07_any_encoding_parses_limited max_depth t bs [] He Hd) as Hp. rewrite app_nil_r in Hp. now rewrite Hp. Qed.
Theorem c19_paged_response_bytes size cookie sz bs : (0 <= size < 2^31)%Z -> parse_uint sz = Z.to_N size ->
  BerEnc (seq [P Universal 2 sz; oct cookie]) bs -> parse_value parse_paged bs = Ok (size, cookie).
Proof. intros Hs Hsz He. rewrite (parse_value_enc _ _ _ He) by (cbn; unfold max_depth; lia). now apply c19_paged_response. Qed.
Theorem c19_sync_state_bytes st uuid ck bs :
  BerEnc (seq (P Universal 10 (enc_small (state_code st)) :: oct uuid :: match ck with Some c => [oct c] | None => @nil tree end)) bs ->
  parse_value parse_sync_state bs = Ok (st, uuid, ck).
Proof. intros He. rewrite (parse_value_enc _ _ _ He) by (destruct ck; cbn; unfold max_depth; lia). apply c19_sync_state. Qed.
Theorem c19_sync_done_bytes (ck : option bytes) (rd : bool) bs :
  BerEnc (seq (app (match ck with Some c => [oct c] | None => @nil tree end) (if rd then [boolt true] else @nil tree))) bs ->
  parse_value parse_sync_done bs = Ok (ck, rd).
Proof. intros He. rewrite (parse_value_enc _ _ _ He) by (destruct ck, rd; cbn; unfold max_depth; lia). apply c19_sync_done. Qed.

(* ---- Assertion (RFC 4528) and MatchedValues (RFC 3876): the value is the BER of the filter the string denotes ---- *)
Definition assertion_of (filter : bytes) : outcome rawctl :=                         (* parse(filter).expect("filter") *)
  match Filter.parse filter with Some f => Ok (assertion f) | None => Panic end.
(* parse_matched_values: "(" 1*( "(" item ")" ) ")" -> SEQUENCE OF the items' filters *)
Fixpoint mv_items (g : nat) (i : bytes) : list tree * bytes :=
  match g with O => ([], i) | S g' =>
    match Filter.tag ["("%byte] i with
    | Some r => match Filter.item r with
                | Some (t, r') => match Filter.tag [")"%byte] r' with
                                  | Some r'' => let (ts, rest) := mv_items g' r'' in (t :: ts, rest)
                                  | None => ([], i) end
                | None => ([], i) end
    | None => ([], i) end end.
Definition parse_mv (i : bytes) : option (list tree) :=
  match Filter.tag ["("%byte] i with
  | Some r => match mv_items (S (List.length r)) r with
              | ((_ :: _) as ts, r') => match Filter.tag [")"%byte] r' with Some [] => Some ts | _ => None end
              | ([], _) => None end
  | None => None end.
Definition matched_values_of (filter : bytes) : outcome rawctl :=
  match parse_mv filter with Some items => Ok (matched_values items) | None => Panic end.
Theorem c19_assertion f s : Filter.parse s = Some f -> assertion_of s = Ok {| r_oid := s2b "1.3.6.1.1.12"; r_crit := false; r_val := Some f |}.
Proof. intros H. unfold assertion_of. now rewrite H. Qed.

(* ---- SyncInfo (RFC 4533 syncInfoValue inside an IntermediateResponse) ---- *)
Inductive sync_info :=
| NewCookie (c : bytes) | RefreshDelete (ck : option bytes) (done : bool) | RefreshPresent (ck : option bytes) (done : bool)
| SyncIdSet (ck : option bytes) (deletes : bool) (uuids : list bytes).
Fixpoint uuid_list (l : list tree) : outcome (list bytes) :=
  match l with [] => Ok [] | P _ _ v :: r => match uuid_list r with Ok vs => Ok (v :: vs) | Panic => Panic end | C _ _ _ :: _ => Panic end.
(* the component loop: cookie only in pass 1, flag in pass <= 2, set in pass <= 3; anything else panics *)
Fixpoint si_loop (l : list tree) (pass : nat) (ck : option bytes) (flag : bool) (uu : list bytes) : outcome (option bytes * bool * list bytes) :=
  match l with [] => Ok (ck, flag, uu)
  | comp :: r =>
    match comp with
    | P Universal 4 v => if Nat.leb pass 1 then si_loop r (S pass) (Some v) flag uu else Panic
    | C Universal 4 _ => if Nat.leb pass 1 then si_loop r (S pass) None flag uu else Panic           (* expect_primitive() -> None *)
    | P Universal 1 (b :: _) => if Nat.leb pass 2 then si_loop r (S pass) ck (negb (Byte.eqb b x00)) uu else Panic
    | P Universal 1 [] => Panic | C Universal 1 _ => Panic
    | C Universal 17 us => if Nat.leb pass 3 then match uuid_list us with Ok vs => si_loop r (S pass) ck flag vs | Panic => Panic end else Panic
    | P Universal 17 _ => Panic
    | _ => Panic end end.
Definition si_value (t : tree) : outcome sync_info :=
  match t with
  | P Context 0 c => Ok (NewCookie c)
  | C Context 0 _ => Panic
  | C Context id l =>
      if N.ltb id 4 then
        match si_loop l 1 None (negb (N.eqb id 3)) [] with
        | Panic => Panic
        | Ok (ck, flag, uu) => if N.eqb id 1 then Ok (RefreshDelete ck flag) else if N.eqb id 2 then Ok (RefreshPresent ck flag) else Ok (SyncIdSet ck flag uu) end
      else Panic
  | _ => Panic end.
Definition sync_info_oid := s2b "1.3.6.1.4.1.4203.1.9.1.4".
Fixpoint si_tags (l : list tree) : outcome sync_info :=
  match l with [] => Panic                                                         (* "out of tags" *)
  | t :: r =>
    if N.eqb (tree_id t) 0 then
      match t with P _ _ oid => if Utf8.valid oid then if Entry.beqb oid sync_info_oid then si_tags r else Panic else Panic | _ => Panic end
    else if N.eqb (tree_id t) 1 then
      match t with P _ _ v => parse_value si_value v | _ => Panic end
    else Panic end.
Definition parse_syncinfo (t : tree) : outcome sync_info :=
  match t with C _ id l => if N.eqb id 25 then si_tags l else Panic | _ => Panic end.
(* what a server sends (RFC 4533): responseName [0] OID, responseValue [1] the BER of the syncInfoValue CHOICE *)
Definition enc_si (si : sync_info) : tree :=
  let ckl (ck : option bytes) := match ck with Some c => [oct c] | None => @nil tree end in
  match si with
  | NewCookie c => P Context 0 c
  | RefreshDelete ck d => C Context 1 (ckl ck ++ (if d then [] else [boolt false]))           (* refreshDone DEFAULT TRUE *)
  | RefreshPresent ck d => C Context 2 (ckl ck ++ (if d then [] else [boolt false]))
  | SyncIdSet ck dl uu => C Context 3 (ckl ck ++ (if dl then [boolt true] else []) ++ [sett (map oct uu)]) end.   (* refreshDeletes DEFAULT FALSE *)
Lemma uuid_list_oct uu : uuid_list (map oct uu) = Ok uu.
Proof. induction uu as [|u l IH]; cbn; [reflexivity|now rewrite IH]. Qed.
Theorem c19_sync_info_value si : si_value (enc_si si) = Ok si.
Proof. destruct si as [c|[ck|] [|]|[ck|] [|]|[ck|] [|] uu]; cbn; rewrite ?uuid_list_oct; reflexivity. Qed.
Lemma sync_oid_ok : Utf8.valid sync_info_oid = true. Proof. vm_compute. reflexivity. Qed.
Lemma sync_oid_eq : Entry.beqb sync_info_oid sync_info_oid = true. Proof. vm_compute. reflexivity. Qed.
Lemma si_tags_wire bs : si_tags [P Context 0 sync_info_oid; P Context 1 bs] = parse_value si_value bs.
Proof. cbn [si_tags tree_id]. change (N.eqb 0 0) with true. change (N.eqb 1 0) with false. change (N.eqb 1 1) with true. cbv iota.
  now rewrite sync_oid_ok, sync_oid_eq. Qed.
Lemma tdepth_enc_si si : (tdepth (enc_si si) <= 2)%nat.
Proof. assert (H : forall uu, fold_right (fun t acc => Nat.max (tdepth t) acc) 0%nat (map oct uu) = 0%nat) by (induction uu; cbn; auto).
  destruct si as [c|[ck|] [|]|[ck|] [|]|[ck|] [|] uu]; cbn [enc_si tdepth app fold_right oct boolt sett]; rewrite ?H; cbn; lia. Qed.
Theorem c19_sync_info si bs : BerEnc (enc_si si) bs ->
  parse_syncinfo (C Application 25 [P Context 0 sync_info_oid; P Context 1 bs]) = Ok si.
Proof. intros He. unfold parse_syncinfo. change (N.eqb 25 25) with true. cbv iota. rewrite si_tags_wire.
  rewrite (parse_value_enc _ _ _ He); [apply c19_sync_info_value|]. pose proof (tdepth_enc_si si). unfold max_depth. lia. Qed.

(* ---- Pre/Post-Read response (RFC 4527): a SearchResultEntry, handed to SearchEntry::construct ---- *)
Definition parse_read_entry (v : bytes) : outcome sentry := parse_value (Entry.construct Utf8.valid) v.
Lemma tdepth_prims (l : list bytes) : fold_right (fun t acc => Nat.max (tdepth t) acc) 0%nat (map (P Universal 4) l) = 0%nat.
Proof. induction l as [|v l IH]; cbn; [reflexivity|exact IH]. Qed.
Lemma tdepth_enc_attrs (l : list spec_attr) : (fold_right (fun t acc => Nat.max (tdepth t) acc) 0 (map enc_attr l) <= 2)%nat.
Proof. induction l as [|a l IH]; cbn [map fold_right]; [lia|]. unfold enc_attr at 1. cbn [tdepth fold_right]. rewrite tdepth_prims. lia. Qed.
Theorem c19_read_entry_resp dn attrs bs : BerEnc (enc_entry dn attrs) bs ->
  parse_read_entry bs = Entry.construct Utf8.valid (enc_entry dn attrs).
Proof. intros He. apply (parse_value_enc _ _ _ He). unfold enc_entry, max_depth. cbn [tdepth fold_right].
  pose proof (tdepth_enc_attrs attrs). lia. Qed.

(* ---- extended responses: WhoAmI and StartTxn values are the raw UTF-8 octets; PasswordModify is SEQUENCE { [0] genPasswd } ---- *)
Definition parse_utf8_val (v : bytes) : outcome bytes := if Utf8.valid v then Ok v else Panic.
(* repair F39: genPasswd is OPTIONAL (RFC 3062); an empty SEQUENCE - the answer to a request that supplied the new password - yields an
   empty gen_pass (as found: expect("element") panicked in the caller's task) *)
Definition parse_passmod_resp_gen (f39 : bool) (t : tree) : outcome bytes :=
  match t with C _ _ (P Context 0 g :: _) => if Utf8.valid g then Ok g else Panic | C _ _ [] => if f39 then Ok [] else Panic | _ => Panic end.
Definition parse_passmod_resp_t := parse_passmod_resp_gen true.
Definition parse_passmod_resp (v : bytes) : outcome bytes := parse_value parse_passmod_resp_t v.
Theorem c19_whoami_resp v : Utf8.valid v = true -> parse_utf8_val v = Ok v.
Proof. intros H. unfold parse_utf8_val. now rewrite H. Qed.
Theorem c19_passmod_resp g bs : Utf8.valid g = true -> BerEnc (seq [P Context 0 g]) bs -> parse_passmod_resp bs = Ok g.
Proof. intros H He. unfold parse_passmod_resp. rewrite (parse_value_enc _ _ _ He) by (cbn; unfold max_depth; lia). cbn. now rewrite H. Qed.
Theorem c19_passmod_resp_absent bs : BerEnc (seq []) bs -> parse_passmod_resp bs = Ok [].
Proof. intros He. unfold parse_passmod_resp. rewrite (parse_value_enc _ _ _ He) by (cbn; unfold max_depth; lia). reflexivity. Qed.
Lemma c19_refuted_F39 : parse_value (parse_passmod_resp_gen false) [x30; x00] = Panic /\ parse_passmod_resp [x30; x00] = Ok [].
Proof. vm_compute. split; reflexivity. Qed.
(* known finding F40: the hypothesis [Utf8.valid] of c19_whoami_resp and c19_passmod_resp is where C19 stops for StartTxn and PasswordModify.
   A transaction identifier (RFC 5805) and a generated password (RFC 3062) are OCTET STRINGs of any content; the structs hold Strings,
   and the parsers panic on anything else *)
Lemma c19_refuted_F40 : parse_utf8_val [xff] = Panic /\ parse_passmod_resp [x30; x03; x80; x01; xff] = Panic.
Proof. vm_compute. split; reflexivity. Qed.
Print Assumptions c19_paged_response_bytes.

(* ---- what the unchanged library builds for each request control and extended operation (last probe of round 0), on the model ---- *)
Definition hexd (n : N) : Ascii.ascii := Ascii.ascii_of_N (if N.ltb n 10 then 48 + n else 87 + n).
Fixpoint tohex (l : bytes) : string :=
  match l with [] => EmptyString | b :: r => String (hexd (N.div (Byte.to_N b) 16)) (String (hexd (N.modulo (Byte.to_N b) 16)) (tohex r)) end.
Definition vhex (c : rawctl) : option string := option_map (fun t => tohex (encode t)) (r_val c).
Definition xhex (e : exop) : option string := option_map (fun t => tohex (encode t)) (x_val e).
Example c19_probe_bytes :
  vhex (paged_results 500 (s2b "ck")) = Some "3008020201f40402636b" /\
  vhex (make_critical (paged_results 0 [])) = Some "30050201000400" /\ r_crit (make_critical (paged_results 0 [])) = true /\
  vhex (sync_request RefreshOnly None false) = Some "30030a0101" /\
  vhex (sync_request RefreshAndPersist (Some (s2b "c1")) true) = Some "300a0a0103040263310101ff" /\
  vhex (pre_read [s2b "cn"; s2b "sn"]) = Some "30080402636e0402736e" /\
  vhex (post_read [s2b "cn"]) = Some "30040402636e" /\
  option_map tohex (b_val (proxy_auth (s2b "dn:cn=a"))) = Some "646e3a636e3d61" /\
  option_map tohex (b_val (txn_spec (s2b "t1"))) = Some "7431" /\
  xhex whoami = None /\ xhex start_txn = None /\
  xhex (passmod (Some (s2b "u")) None (Some (s2b "n"))) = Some "300680017582016e" /\
  xhex (end_txn (s2b "t1") true) = Some "300404027431" /\
  xhex (end_txn (s2b "t1") false) = Some "300701010004027431".
Proof. vm_compute. repeat split. Qed.
