(* C20 — LDAP URL parameters are extracted as RFC 4516 defines them. Pinned statements only. *)
From Coq Require Import List NArith Lia Bool Arith.
From Coq.Strings Require Import Byte.
From L3 Require Import Ber Utf8 Filter UrlParams.
Import ListNotations.

(* [penc]: percent-encode every octet outside A-Za-z0-9-._~ (so that the `url` crate's own normalisation is the identity);
   attribute descriptions are written as they are (they contain neither ',' nor '?'): see F19 for percent-encoded ones. *)
Theorem c20_roundtrip : forall base attrs sc filt,
  Utf8.valid base = true -> Utf8.valid filt = true -> filt <> [] -> attrs <> [] -> Forall attr_ok attrs ->
  get_url_params ("/"%byte :: penc base) (Some (join ","%byte attrs ++ "?"%byte :: scope_word sc ++ "?"%byte :: penc filt)) =
  UOk {| p_base := base; p_attrs := attrs; p_scope := sc; p_filter := filt; p_exts := [] |}.
Proof. exact UrlParams.c20_roundtrip. Qed.

Theorem c20_roundtrip_ext : forall base attrs sc filt ces,
  Utf8.valid base = true -> Utf8.valid filt = true -> filt <> [] -> attrs <> [] -> Forall attr_ok attrs ->
  ces <> [] -> Forall (fun ce => ext_valid (snd ce)) ces -> fresh_kinds (map snd ces) ->
  get_url_params ("/"%byte :: penc base)
    (Some (join ","%byte attrs ++ "?"%byte :: scope_word sc ++ "?"%byte :: penc filt ++ "?"%byte :: join ","%byte (map fmt_ext ces))) =
  UOk {| p_base := base; p_attrs := attrs; p_scope := sc; p_filter := filt; p_exts := map snd ces |}.
Proof. exact UrlParams.c20_roundtrip_ext. Qed.

Theorem c20_pdec_penc : forall s, pdec (penc s) = s.
Proof. exact UrlParams.pdec_penc. Qed.

Print Assumptions c20_roundtrip.
Print Assumptions c20_roundtrip_ext.
Print Assumptions c20_pdec_penc.
