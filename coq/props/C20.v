(* C20 — LDAP URL parameters are extracted as RFC 4516 defines them. Pinned statements only. *)
From Coq Require Import List NArith Lia Bool Arith.
From Coq.Strings Require Import Byte String.
From L3 Require Import Ber Utf8 Filter UrlParams.
Import ListNotations.

(* [penc]: percent-encode every octet outside A-Za-z0-9-._~ (so that the `url` crate's own normalisation is the identity);
   attribute descriptions are written as they are (they contain neither ',' nor '?'): see F19 for percent-encoded ones. *)
Theorem c20_roundtrip : forall base attrs sc filt,
  Utf8.valid base = true -> Utf8.valid filt = true -> filt <> [] -> attrs <> [] -> Forall attr_ok attrs ->
  get_url_params ("/"%byte :: penc base) (Some (join ","%byte attrs ++ "?"%byte :: scope_word sc ++ "?"%byte :: penc filt)) =
  UOk {| p_base := base; p_attrs := attrs; p_scope := sc; p_filter := filt; p_exts := [] |}.
Proof. exact UrlParams.c20_roundtrip. Qed.

Theorem c20_roundtrip_ext : forall base attrs sc filt ces,
  Utf8.valid base = true -> Utf8.valid filt = true -> filt <> [] -> attrs <> [] -> Forall attr_ok attrs ->
  ces <> [] -> Forall (fun ce => ext_valid (snd ce)) ces -> fresh_kinds (map snd ces) ->
  get_url_params ("/"%byte :: penc base)
    (Some (join ","%byte attrs ++ "?"%byte :: scope_word sc ++ "?"%byte :: penc filt ++ "?"%byte :: join ","%byte (map fmt_ext ces))) =
  UOk {| p_base := base; p_attrs := attrs; p_scope := sc; p_filter := filt; p_exts := map snd ces |}.
Proof. exact UrlParams.c20_roundtrip_ext. Qed.

Theorem c20_pdec_penc : forall s, pdec (penc s) = s.
Proof. exact UrlParams.pdec_penc. Qed.

(* defaults for the omitted components *)
Theorem c20_defaults : forall base, Utf8.valid base = true ->
  get_url_params ("/"%byte :: penc base) None =
  UOk {| p_base := base; p_attrs := [s2b "*"%string]; p_scope := Subtree; p_filter := s2b "(objectClass=*)"%string; p_exts := [] |}.
Proof. exact UrlParams.c20_defaults. Qed.
Theorem c20_defaults_after_attrs : forall base attrs, Utf8.valid base = true -> attrs <> [] -> Forall attr_ok attrs ->
  get_url_params ("/"%byte :: penc base) (Some (join ","%byte attrs)) =
  UOk {| p_base := base; p_attrs := attrs; p_scope := Subtree; p_filter := s2b "(objectClass=*)"%string; p_exts := [] |}.
Proof. exact UrlParams.c20_defaults_after_attrs. Qed.
(* repair F35: a scope word is recognised in any spelling of its letters *)
Theorem c20_scope_any_case : forall base attrs w sc filt, map lc w = scope_word sc -> no_byte "?"%byte w ->
  Utf8.valid base = true -> Utf8.valid filt = true -> filt <> [] -> attrs <> [] -> Forall attr_ok attrs ->
  get_url_params ("/"%byte :: penc base) (Some (join ","%byte attrs ++ "?"%byte :: w ++ "?"%byte :: penc filt)) =
  UOk {| p_base := base; p_attrs := attrs; p_scope := sc; p_filter := filt; p_exts := [] |}.
Proof. exact UrlParams.c20_scope_any_case. Qed.
(* the error classes: an invalid scope word, a base that does not decode to UTF-8, an unknown critical extension; an unknown non-critical one is ignored *)
Theorem c20_bad_scope : forall base attrs w rest, Utf8.valid base = true -> attrs <> [] -> Forall attr_ok attrs ->
  w <> [] -> no_byte "?"%byte w -> beqs (map lc w) (s2b "base"%string) = false -> beqs (map lc w) (s2b "one"%string) = false -> beqs (map lc w) (s2b "sub"%string) = false ->
  get_url_params ("/"%byte :: penc base) (Some (join ","%byte attrs ++ "?"%byte :: w ++ "?"%byte :: rest)) = UErr EScope.
Proof. exact UrlParams.c20_bad_scope. Qed.
Theorem c20_non_utf8_base : forall path query,
  Utf8.valid (pdec (match path with c :: r => if beq c "/"%byte then r else path | [] => path end)) = false ->
  get_url_params path query = UErr EUtf8.
Proof. exact UrlParams.c20_non_utf8_base. Qed.
Theorem c20_unknown_critical : forall id r acc, no_byte "="%byte id -> known_ext id = false ->
  do_exts (("!"%byte :: id) :: r) acc = UErr ECritical.
Proof. exact UrlParams.c20_unknown_critical. Qed.
Theorem c20_unknown_noncritical_ignored : forall id r acc, no_byte "="%byte id -> known_ext id = false ->
  (match id with c :: _ => beq c "!"%byte = false | [] => True end) -> do_exts (id :: r) acc = do_exts r acc.
Proof. exact UrlParams.c20_unknown_noncritical_ignored. Qed.


Print Assumptions c20_roundtrip.
Print Assumptions c20_roundtrip_ext.
Print Assumptions c20_pdec_penc.
Print Assumptions c20_defaults.
Print Assumptions c20_defaults_after_attrs.
Print Assumptions c20_bad_scope.
Print Assumptions c20_non_utf8_base.
Print Assumptions c20_unknown_critical.
Print Assumptions c20_unknown_noncritical_ignored.
Print Assumptions c20_scope_any_case.
