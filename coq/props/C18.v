(* C18 - connection set-up honours the URL and fails cleanly on bad input. Pinned statements only. [plan_of repaired18 scheme host port settings]: the model of from_url_with_settings / new_unix / new_tcp from what the url crate reports (scheme, host_str, port) and the settings (StartTLS, pre-opened stream, timeout), with the repairs F12 (missing host = localhost instead of a panic) and F13 (an ldapi URL with a port is rejected). The fourth component of a TCP plan says that the connection timeout wraps the whole establishment, StartTLS included. *)
From RecordUpdate Require Import RecordUpdate.
From Coq Require Import List ZArith NArith Lia Bool Arith.
From Coq.Strings Require Import Byte String.
From L3 Require Import Ber Filter UrlParams Setup.
Import ListNotations.

Theorem c18_total : forall (sch : list byte) (h : option (list byte)) (p : option N) (st : settings), plan_of repaired18 sch h p st <> PPanic.
Proof. exact Setup.c18_total. Qed.

Theorem c18_ldap_default_port : forall (h : byte) (hs : list byte) (st : settings), std_stream st = None -> plan_of repaired18 (s2b (String.String (Ascii.Ascii false false true true false true true false) (String.String (Ascii.Ascii false false true false false true true false) (String.String (Ascii.Ascii true false false false false true true false) (String.String (Ascii.Ascii false false false false true true true false) String.EmptyString))))) (Some (h :: hs)) None st = PTcp (h :: hs) 389 (if starttls st then StartTls else Plain) (has_timeout st).
Proof. exact Setup.c18_ldap_default_port. Qed.

Theorem c18_ldaps_default_port : forall (h : byte) (hs : list byte) (st : settings), std_stream st = None -> plan_of repaired18 (s2b (String.String (Ascii.Ascii false false true true false true true false) (String.String (Ascii.Ascii false false true false false true true false) (String.String (Ascii.Ascii true false false false false true true false) (String.String (Ascii.Ascii false false false false true true true false) (String.String (Ascii.Ascii true true false false true true true false) String.EmptyString)))))) (Some (h :: hs)) None st = PTcp (h :: hs) 636 Ldaps (has_timeout st).
Proof. exact Setup.c18_ldaps_default_port. Qed.

Theorem c18_missing_host_localhost : forall (st : settings) (p : option N), std_stream st = None -> plan_of repaired18 (s2b (String.String (Ascii.Ascii false false true true false true true false) (String.String (Ascii.Ascii false false true false false true true false) (String.String (Ascii.Ascii true false false false false true true false) (String.String (Ascii.Ascii false false false false true true true false) String.EmptyString))))) None p st = PTcp (s2b (String.String (Ascii.Ascii false false true true false true true false) (String.String (Ascii.Ascii true true true true false true true false) (String.String (Ascii.Ascii true true false false false true true false) (String.String (Ascii.Ascii true false false false false true true false) (String.String (Ascii.Ascii false false true true false true true false) (String.String (Ascii.Ascii false false false true false true true false) (String.String (Ascii.Ascii true true true true false true true false) (String.String (Ascii.Ascii true true false false true true true false) (String.String (Ascii.Ascii false false true false true true true false) String.EmptyString)))))))))) match p with | Some x => x | None => 389 end (if starttls st then StartTls else Plain) (has_timeout st) /\ plan_of repaired18 (s2b (String.String (Ascii.Ascii false false true true false true true false) (String.String (Ascii.Ascii false false true false false true true false) (String.String (Ascii.Ascii true false false false false true true false) (String.String (Ascii.Ascii false false false false true true true false) String.EmptyString))))) (Some []) p st = PTcp (s2b (String.String (Ascii.Ascii false false true true false true true false) (String.String (Ascii.Ascii true true true true false true true false) (String.String (Ascii.Ascii true true false false false true true false) (String.String (Ascii.Ascii true false false false false true true false) (String.String (Ascii.Ascii false false true true false true true false) (String.String (Ascii.Ascii false false false true false true true false) (String.String (Ascii.Ascii true true true true false true true false) (String.String (Ascii.Ascii true true false false true true true false) (String.String (Ascii.Ascii false false true false true true true false) String.EmptyString)))))))))) match p with | Some x => x | None => 389 end (if starttls st then StartTls else Plain) (has_timeout st).
Proof. exact Setup.c18_missing_host_localhost. Qed.

Theorem c18_ldapi_decodes_path : forall (h : byte) (hs : list byte) (st : settings), std_stream st = None -> starttls st = false -> contains_colon (h :: hs) = false -> plan_of repaired18 (s2b (String.String (Ascii.Ascii false false true true false true true false) (String.String (Ascii.Ascii false false true false false true true false) (String.String (Ascii.Ascii true false false false false true true false) (String.String (Ascii.Ascii false false false false true true true false) (String.String (Ascii.Ascii true false false true false true true false) String.EmptyString)))))) (Some (h :: hs)) None st = PUnix (pdec (h :: hs)).
Proof. exact Setup.c18_ldapi_decodes_path. Qed.

Theorem c18_ldapi_port_rejected : forall (h : byte) (hs : list byte) (n : N) (st : settings), std_stream st = None -> starttls st = false -> plan_of repaired18 (s2b (String.String (Ascii.Ascii false false true true false true true false) (String.String (Ascii.Ascii false false true false false true true false) (String.String (Ascii.Ascii true false false false false true true false) (String.String (Ascii.Ascii false false false false true true true false) (String.String (Ascii.Ascii true false false true false true true false) String.EmptyString)))))) (Some (h :: hs)) (Some n) st = PErr EPortInUnixPath.
Proof. exact Setup.c18_ldapi_port_rejected. Qed.

Theorem c18_ldapi_empty : forall (st : settings) (p : option N), std_stream st = None -> starttls st = false -> plan_of repaired18 (s2b (String.String (Ascii.Ascii false false true true false true true false) (String.String (Ascii.Ascii false false true false false true true false) (String.String (Ascii.Ascii true false false false false true true false) (String.String (Ascii.Ascii false false false false true true true false) (String.String (Ascii.Ascii true false false true false true true false) String.EmptyString)))))) None p st = PErr EEmptyUnixPath.
Proof. exact Setup.c18_ldapi_empty. Qed.

Theorem c18_mismatched : forall (fx : fixes18) (h : option (list byte)) (p : option N) (st : settings), (std_stream st = Some StUnix \/ std_stream st = Some StInvalid -> exists e : serr, plan_of fx (s2b (String.String (Ascii.Ascii false false true true false true true false) (String.String (Ascii.Ascii false false true false false true true false) (String.String (Ascii.Ascii true false false false false true true false) (String.String (Ascii.Ascii false false false false true true true false) String.EmptyString))))) (Some (s2b (String.String (Ascii.Ascii false false false true false true true false) String.EmptyString))) p st = PErr e) /\ (std_stream st = Some StTcp \/ std_stream st = Some StInvalid -> starttls st = false -> plan_of fx (s2b (String.String (Ascii.Ascii false false true true false true true false) (String.String (Ascii.Ascii false false true false false true true false) (String.String (Ascii.Ascii true false false false false true true false) (String.String (Ascii.Ascii false false false false true true true false) (String.String (Ascii.Ascii true false false true false true true false) String.EmptyString)))))) h p st = PErr EMismatched).
Proof. exact Setup.c18_mismatched. Qed.

Theorem c18_unknown_scheme : forall (fx : fixes18) (sch : bytes) (h : option (list byte)) (p : option N) (st : settings), beqs sch (s2b (String.String (Ascii.Ascii false false true true false true true false) (String.String (Ascii.Ascii false false true false false true true false) (String.String (Ascii.Ascii true false false false false true true false) (String.String (Ascii.Ascii false false false false true true true false) String.EmptyString))))) = false -> beqs sch (s2b (String.String (Ascii.Ascii false false true true false true true false) (String.String (Ascii.Ascii false false true false false true true false) (String.String (Ascii.Ascii true false false false false true true false) (String.String (Ascii.Ascii false false false false true true true false) (String.String (Ascii.Ascii true true false false true true true false) String.EmptyString)))))) = false -> beqs sch (s2b (String.String (Ascii.Ascii false false true true false true true false) (String.String (Ascii.Ascii false false true false false true true false) (String.String (Ascii.Ascii true false false false false true true false) (String.String (Ascii.Ascii false false false false true true true false) (String.String (Ascii.Ascii true false false true false true true false) String.EmptyString)))))) = false -> plan_of fx sch h p st = PErr EUnknownScheme.
Proof. exact Setup.c18_unknown_scheme. Qed.

Theorem c18_ldapi_starttls_rejected : forall (h : option (list byte)) (p : option N) (st : settings), starttls st = true -> plan_of repaired18 (s2b (String.String (Ascii.Ascii false false true true false true true false) (String.String (Ascii.Ascii false false true false false true true false) (String.String (Ascii.Ascii true false false false false true true false) (String.String (Ascii.Ascii false false false false true true true false) (String.String (Ascii.Ascii true false false true false true true false) String.EmptyString)))))) h p st = PErr EStartTlsUnix.
Proof. exact Setup.c17_ldapi_starttls_rejected. Qed.

Theorem c18_refuted_F27 : plan_of {| fix12 := true; fix13 := true; fix27 := false; fix57 := true |} (s2b (String.String (Ascii.Ascii false false true true false true true false) (String.String (Ascii.Ascii false false true false false true true false) (String.String (Ascii.Ascii true false false false false true true false) (String.String (Ascii.Ascii false false false false true true true false) (String.String (Ascii.Ascii true false false true false true true false) String.EmptyString)))))) (Some (s2b (String.String (Ascii.Ascii true false true false false true false false) (String.String (Ascii.Ascii false true false false true true false false) (String.String (Ascii.Ascii false true true false false true true false) (String.String (Ascii.Ascii false false true false true true true false) (String.String (Ascii.Ascii true false true true false true true false) (String.String (Ascii.Ascii false false false false true true true false) (String.String (Ascii.Ascii true false true false false true false false) (String.String (Ascii.Ascii false true false false true true false false) (String.String (Ascii.Ascii false true true false false true true false) (String.String (Ascii.Ascii true true false false true true true false) (String.String (Ascii.Ascii true true true true false true true false) (String.String (Ascii.Ascii true true false false false true true false) (String.String (Ascii.Ascii true true false true false true true false) String.EmptyString))))))))))))))) None {| starttls := true; std_stream := None; has_timeout := false |} = PUnix (s2b (String.String (Ascii.Ascii true true true true false true false false) (String.String (Ascii.Ascii false false true false true true true false) (String.String (Ascii.Ascii true false true true false true true false) (String.String (Ascii.Ascii false false false false true true true false) (String.String (Ascii.Ascii true true true true false true false false) (String.String (Ascii.Ascii true true false false true true true false) (String.String (Ascii.Ascii true true true true false true true false) (String.String (Ascii.Ascii true true false false false true true false) (String.String (Ascii.Ascii true true false true false true true false) String.EmptyString)))))))))).
Proof. exact Setup.c17_refuted_F27. Qed.

(* repair F43: the name matched against the server's certificate - the host of the URL, an IPv6 literal without its brackets; "localhost" when
   the URL names no host *)
Theorem c18_tls_name_v6_literal : forall a, tls_name true (Some ("["%byte :: a ++ ["]"%byte])) = a.
Proof. exact Setup.c18_tls_name_v6_literal. Qed.
Theorem c18_tls_name_plain : forall c r, beq c "["%byte = false -> tls_name true (Some (c :: r)) = c :: r.
Proof. exact Setup.c18_tls_name_plain. Qed.
Theorem c18_tls_name_default : forall f, tls_name f None = s2b "localhost"%string /\ tls_name f (Some []) = s2b "localhost"%string.
Proof. exact Setup.c18_tls_name_default. Qed.
Theorem c18_refuted_F43 : tls_name false (Some (s2b "[::1]"%string)) = s2b "[::1]"%string /\ tls_name true (Some (s2b "[::1]"%string)) = s2b "::1"%string /\
  cert_names_match [s2b "localhost"%string; s2b "127.0.0.1"%string; s2b "::1"%string] false (Some (s2b "[::1]"%string)) = false /\
  cert_names_match [s2b "localhost"%string; s2b "127.0.0.1"%string; s2b "::1"%string] true (Some (s2b "[::1]"%string)) = true /\
  cert_names_match [s2b "localhost"%string] true (Some (s2b "[::1]"%string)) = false.
Proof. exact Setup.c18_refuted_F43. Qed.

(* repair F57 (found by a review of my own repair F12): a URL without "//" has no authority part and is no LDAP URL - an error, not localhost *)
Theorem c18_no_authority : forall sch p st, beqs sch (s2b "ldap"%string) = true \/ (beqs sch (s2b "ldap"%string) = false /\ beqs sch (s2b "ldaps"%string) = true) ->
  beqs sch (s2b "ldapi"%string) = false -> plan_of_auth repaired18 false sch None p st = PErr ENoAuthority.
Proof. exact Setup.c18_no_authority. Qed.
Theorem c18_refuted_F57 : plan_of_auth {| fix12 := true; fix13 := true; fix27 := true; fix57 := false |} false (s2b "ldap"%string) None None dflt = PTcp (s2b "localhost"%string) 389 Plain false /\
  plan_of_auth repaired18 false (s2b "ldap"%string) None None dflt = PErr ENoAuthority /\ plan_of_auth repaired18 true (s2b "ldap"%string) None None dflt = PTcp (s2b "localhost"%string) 389 Plain false.
Proof. exact Setup.c18_refuted_F57. Qed.

Print Assumptions c18_total.
Print Assumptions c18_ldap_default_port.
Print Assumptions c18_ldaps_default_port.
Print Assumptions c18_missing_host_localhost.
Print Assumptions c18_ldapi_decodes_path.
Print Assumptions c18_ldapi_port_rejected.
Print Assumptions c18_ldapi_empty.
Print Assumptions c18_mismatched.
Print Assumptions c18_unknown_scheme.
Print Assumptions c18_ldapi_starttls_rejected.
Print Assumptions c18_refuted_F27.
Print Assumptions c18_tls_name_v6_literal.
Print Assumptions c18_tls_name_plain.
Print Assumptions c18_tls_name_default.
Print Assumptions c18_refuted_F43.
Print Assumptions c18_no_authority.
Print Assumptions c18_refuted_F57.
