(* C06 — message framing does not depend on how the byte stream is segmented. Pinned statements only. *)
From Coq Require Import List NArith Lia Bool Arith.
From Coq.Strings Require Import Byte.
From RecordUpdate Require Import RecordUpdate.
From Coq Require Import ZArith.
From L3 Require Import Ber BerFixed Utf8 Frame FrameSpec FrameFixed FrameFixedSpec Msgid Conn ConnWire.
Import ListNotations.

(* [EncFixed m v bs]: bs is any definite-length encoding of a well-formed LDAPMessage (nesting within the parser's limit m)
   that the client must see as v = (message id, protocol op, controls).
   [framed_run dec buf chunks]: tokio-util's Framed loop - append a chunk, decode until the decoder asks for more. *)

(* never surfaces a message before its last byte has arrived *)
Theorem c06_prefix_needs_more : forall m v bs p q,
  EncFixed m v bs -> p ++ q = bs -> q <> [] -> decode_inner' (repaired_d m) p = DNeed.
Proof. exact FrameFixedSpec.c06_prefix_needs_more_fixed. Qed.

(* consumes exactly the message's bytes and leaves what follows untouched *)
Theorem c06_exact_consumption : forall m v bs rest,
  EncFixed m v bs -> decode_inner' (repaired_d m) (bs ++ rest) = view_frame v rest.
Proof. exact FrameFixedSpec.c06_exact_consumption_fixed. Qed.

(* any partition of the concatenated stream into read chunks delivers exactly the messages, in order *)
Theorem c06_any_segmentation : forall m vs bss chunks,
  Stream (EncFixed m) vs bss -> concat chunks = concat bss ->
  framed_run (decode_inner' (repaired_d m)) [] chunks = map Deliver vs.
Proof. exact FrameFixedSpec.c06_any_segmentation_fixed. Qed.

(* the same at the level the caller sees (ConnWire: codec and connection models composed): for a stream of well-formed messages the events the
   driver is fed - hence every later state of the connection and every delivery to every operation - do not depend on how the bytes were cut *)
Theorem c06_connection_level : forall (f : fixes) (pre post : list ev) (m : nat) (vs : list (N * tree * list ctrl)) (bss chunks1 chunks2 : list (list byte)),
  Stream (EncFixed m) vs bss -> concat chunks1 = concat bss -> concat chunks2 = concat bss ->
  receive m chunks1 = flat_map wire_evs (map Deliver vs) /\
  run f (pre ++ receive m chunks1 ++ post) = run f (pre ++ receive m chunks2 ++ post).
Proof. exact ConnWire.c06_connection_level. Qed.

Print Assumptions c06_prefix_needs_more.
Print Assumptions c06_exact_consumption.
Print Assumptions c06_any_segmentation.
Print Assumptions c06_connection_level.
