(* C17 - requested TLS is never silently downgraded. Pinned statements only. [establish fix18 c s]: the model of connection establishment as a function of the configuration c (ldaps, starttls, no_tls_verify, custom connector) and the server's behaviour s (answer to StartTLS, certificate trusted for the host name - an ORACLE for the TLS library's X.509 validation -, handshake completes - an oracle too -, cleartext bytes appended to the StartTLS response). PARTIAL by nature: the handshake and certificate validation themselves are the TLS library's. *)
From RecordUpdate Require Import RecordUpdate.
From Coq Require Import List ZArith NArith Lia Bool Arith.
From Coq.Strings Require Import Byte.
From Coq Require Import String.
From L3 Require Import Tls.
From L3 Require Setup Filter.
From Coq Require String.
From L3 Require Settings.
From L3G Require SettingsTable.
Import ListNotations.

Theorem c17_tls_when_requested : forall (f : bool) (c : cfg) (s : server) (t : transport), tls_requested c = true -> result (establish f c s) = Established t -> t = Tls.
Proof. exact Tls.c17_tls_when_requested. Qed.

Theorem c17_cleartext_only_starttls : forall (f : bool) (c : cfg) (s : server), tls_requested c = true -> forall w : wrote, In w (cleartext_writes (establish f c s)) -> w = StartTlsRequest.
Proof. exact Tls.c17_cleartext_only_starttls. Qed.

Theorem c17_nonzero_rc_fails : forall (f : bool) (c : cfg) (s : server) (n : N), ldaps c = false -> starttls c = true -> answer s = AnsRc n -> n <> 0%N -> result (establish f c s) = Failed.
Proof. exact Tls.c17_nonzero_rc_fails. Qed.

Theorem c17_handshake_failure_fails : forall (f : bool) (c : cfg) (s : server), tls_requested c = true -> handshake_completes s = false -> forall t : transport, result (establish f c s) <> Established t.
Proof. exact Tls.c17_handshake_failure_fails. Qed.

Theorem c17_untrusted_fails_unless_disabled : forall (f : bool) (c : cfg) (s : server), tls_requested c = true -> cert_trusted_for_host s = false -> no_tls_verify c = false -> custom_connector_accepts_invalid c = None -> forall t : transport, result (establish f c s) <> Established t.
Proof. exact Tls.c17_untrusted_fails_unless_disabled. Qed.

Theorem c17_preface_bytes_dropped : forall (f : bool) (c : cfg) (s : server), cleartext_bytes_fed_to_ldap_decoder_after_tls (establish f c s) = [].
Proof. exact Tls.c17_preface_bytes_dropped. Qed.

(* the settings builder (table regenerated from src/conn.rs on every run): every setter assigns exactly its own field from its parameter, no two share a field ... *)
Theorem c17_settings_table : SettingsTable.settings_table = Settings.expected_settings /\ Settings.nodups (map (fun r => snd (fst r)) SettingsTable.settings_table) = true.
Proof. exact Settings.c17_settings_table. Qed.
(* ... so a setter leaves every other setting as it was (StartTLS requested before a connection timeout is set stays requested) and the order of the builder calls is irrelevant *)
Theorem c17_setter_touches_one_field : forall (val : Type) (m : string) (v : val) (s : Settings.store val) (f g : string), Settings.field_of m = Some f -> g <> f -> Settings.setter val m v s g = s g.
Proof. exact Settings.c17_setter_touches_one_field. Qed.
Theorem c17_setters_commute : forall (val : Type) (m1 m2 : string) (v1 v2 : val) (s : Settings.store val) (g : string), m1 <> m2 -> Settings.setter val m1 v1 (Settings.setter val m2 v2 s) g = Settings.setter val m2 v2 (Settings.setter val m1 v1 s) g.
Proof. exact Settings.c17_setters_commute. Qed.

Theorem c17_ldapi_starttls_rejected : forall (h : option (list Coq.Init.Byte.byte)) (p : option N) (st : Setup.settings), Setup.starttls st = true -> Setup.plan_of Setup.repaired18 (Filter.s2b "ldapi"%string) h p st = Setup.PErr Setup.EStartTlsUnix.
Proof. exact Setup.c17_ldapi_starttls_rejected. Qed.

Print Assumptions c17_tls_when_requested.
Print Assumptions c17_cleartext_only_starttls.
Print Assumptions c17_nonzero_rc_fails.
Print Assumptions c17_handshake_failure_fails.
Print Assumptions c17_untrusted_fails_unless_disabled.
Print Assumptions c17_preface_bytes_dropped.
Print Assumptions c17_settings_table.
Print Assumptions c17_setter_touches_one_field.
Print Assumptions c17_setters_commute.
Print Assumptions c17_ldapi_starttls_rejected.
