(* C02 — each request on the wire is exactly the RFC 4511 PDU the caller asked for; modifiers are one-shot. Pinned statements only. *)
From Coq Require Import List ZArith NArith Lia Bool Arith.
From Coq.Strings Require Import Byte.
From L3 Require Import Ber BerInt Frame Filter Request RequestSeq.
From Coq Require String.
From L3 Require Handle.
From L3G Require CloneTable.
Import ListNotations.

(* [build_*]: the model of the library's request builders; [spec_decode_req]: a reader written from RFC 4511 section 4. *)
Theorem c02_bind : forall dn pw, spec_decode_req (build_simple_bind dn pw) = Some (RBind 3 dn (Simple pw)).
Proof. exact Request.c02_bind. Qed.
Theorem c02_sasl_external : spec_decode_req (build_sasl_bind [x45;x58;x54;x45;x52;x4e;x41;x4c] (Some [])) =
  Some (RBind 3 [] (Sasl [x45;x58;x54;x45;x52;x4e;x41;x4c] (Some []))).
Proof. exact Request.c02_sasl_external. Qed.
Theorem c02_search : forall base scope o f attrs, i64 scope -> i64 (deref o) -> i64 (sizelimit o) -> i64 (timelimit o) ->
  spec_decode_req (build_search base scope o f attrs) = Some (RSearch base scope (deref o) (sizelimit o) (timelimit o) (typesonly o) f attrs).
Proof. exact Request.c02_search. Qed.
Theorem c02_add : forall dn attrs t, build_add dn attrs = Some t -> spec_decode_req t = Some (RAdd dn attrs).
Proof. exact Request.c02_add. Qed.
Theorem c02_compare : forall dn a v, spec_decode_req (build_compare dn a v) = Some (RCompare dn a v).
Proof. exact Request.c02_compare. Qed.
Theorem c02_delete : forall dn, spec_decode_req (build_delete dn) = Some (RDelete dn).
Proof. exact Request.c02_delete. Qed.
Theorem c02_modify : forall dn mods t, Forall (fun m => i64 (fst (fst m))) mods -> build_modify dn mods = Some t -> spec_decode_req t = Some (RModify dn mods).
Proof. exact Request.c02_modify. Qed.
Theorem c02_moddn : forall dn rdn del ns, spec_decode_req (build_moddn dn rdn del ns) = Some (RModDn dn rdn del ns).
Proof. exact Request.c02_moddn. Qed.
Theorem c02_extended : forall n v, spec_decode_req (build_extended n v) = Some (RExtended n v).
Proof. exact Request.c02_extended. Qed.
Theorem c02_abandon : forall id, i64 id -> spec_decode_req (build_abandon id) = Some (RAbandon id).
Proof. exact Request.c02_abandon. Qed.
Theorem c02_unbind : spec_decode_req build_unbind = Some RUnbind.
Proof. exact Request.c02_unbind. Qed.

(* the LDAPMessage envelope: message id, the protocol op, and the optional controls with OID, criticality (written only when true)
   and value (written only when present) *)
Theorem c02_envelope : forall id op ctrls, (1 <= id <= 2147483647)%Z -> spec_decode_msg (envelope_of id op ctrls) = Some (id, op, ctrls).
Proof. exact Request.c02_envelope. Qed.

(* controls, timeout and search options affect exactly the next operation: for every sequence of calls on a handle, each with the
   with_* calls made just before it, the k-th message on the wire is the one asked for by the k-th call alone *)
Theorem c02_sequence : forall l id, run_calls true true (cleared, id) l = asked_all id l.
Proof. exact RequestSeq.c02_sequence. Qed.

(* clones: an operation invoked on a clone carries exactly the modifiers set on the clone - nothing that was pending on the handle it was cloned from - and what was pending there reaches exactly the original's next operation *)
Theorem c02_clones : forall (l : list cstep) (pend : mods) (id : Z), run_csteps (handle_of pend, id) l = asked_csteps pend id l.
Proof. exact RequestSeq.c02_clones. Qed.

Module HandleFacts.
Import String.
Local Open Scope string_scope.
(* what the sequence model assumes about the handle, read off the source on every run (tables regenerated from src/ldap.rs): a clone is made with nothing pending (timeout, controls, search options None; last id 0; everything else cloned or copied), and each with_* modifier assigns its own field *)
Theorem c02_clone_starts_clean :
  forallb (fun f => match Handle.how f with Some "none" => true | _ => false end) Handle.per_operation = true /\
  Handle.how "last_id" = Some "zero" /\
  forallb (fun r : string * string => if existsb (String.eqb (fst r)) ("last_id" :: Handle.per_operation) then true
                                       else (String.eqb (snd r) "clone" || String.eqb (snd r) "copy")) CloneTable.clone_table = true.
Proof. exact Handle.c02_clone_starts_clean. Qed.
Theorem c02_modifiers_write_their_field :
  CloneTable.handle_modifier_table = [("with_search_options", "search_opts"); ("with_controls", "controls"); ("with_timeout", "timeout")].
Proof. exact Handle.c02_modifiers_write_their_field. Qed.
End HandleFacts.

Print Assumptions c02_bind. Print Assumptions c02_sasl_external. Print Assumptions c02_search. Print Assumptions c02_add.
Print Assumptions c02_compare. Print Assumptions c02_delete. Print Assumptions c02_modify. Print Assumptions c02_moddn.
Print Assumptions c02_extended. Print Assumptions c02_abandon. Print Assumptions c02_unbind. Print Assumptions c02_envelope.
Print Assumptions c02_sequence.
Print Assumptions c02_clones.
Print Assumptions HandleFacts.c02_clone_starts_clean.
Print Assumptions HandleFacts.c02_modifiers_write_their_field.
