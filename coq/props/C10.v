(* C10 - search streams deliver the server's items in order and obey the state machine. Pinned statements only. [spec_step] is a 40-line specification machine written from the property's text (phase Active/Done/Closed, items still to hand over, referral URIs seen by an adapter, stored final result); [model_step] is the model of SearchStream::next/finish/state over the adapter chain ([] or [EntriesOnly]) with the F7 repair. For EVERY list of next()/finish()/state() calls the model's outputs equal the specification's (c10_all_call_sequences, refinement by an abstraction function and an invariant); a stream started on any server script satisfies the invariant (c10_start_all_call_sequences). At the connection level a search's item channel is exactly what the driver routed to it (c10_items_exact). *)
From RecordUpdate Require Import RecordUpdate.
From Coq Require Import List ZArith NArith Lia Bool Arith.
From Coq.Strings Require Import Byte.
From L3 Require Import Stream StreamSpec Msgid Conn ConnProofs ConnAccount ConnExact.
From L3 Require Paged.
Import ListNotations.

Theorem c10_all_call_sequences : forall (cs : list call) (s : stream), Inv s -> StreamSpec.run model_step s cs = StreamSpec.run spec_step (abs s) cs.
Proof. exact StreamSpec.c10_all_call_sequences. Qed.

Theorem c10_start_all_call_sequences : forall (its : list sitem) (r : result) (cs : list nat) (adp : bool) (calls : list call), Forall not_done its -> StreamSpec.run model_step (start (its ++ [IDone r cs]) adp true) calls = StreamSpec.run spec_step {| phase := Active; todo := its ++ [IDone r cs]; refs := []; stored := None; ad := adp |} calls.
Proof. exact StreamSpec.c10_start_all_call_sequences. Qed.

Theorem c10_next_outside_active : forall s : stream, state s <> Active -> next s = (s, NNone).
Proof. exact Stream.c10_next_outside_active. Qed.

Theorem c10_finish_after_done : forall (r : result) (refs : list bytes) (ad : bool) (sc : nat) (f7 : bool), finish {| state := Done; rx := None; res := Some r; eo_refs := refs; adapted := ad; scrubs := sc; Stream.fix7 := f7 |} = ({| state := Closed; rx := None; res := None; eo_refs := []; adapted := ad; scrubs := sc; Stream.fix7 := f7 |}, if ad then {| rc := rc r; res_refs := res_refs r ++ refs; res_ctrls := res_ctrls r |} else r).
Proof. exact Stream.c10_finish_after_done. Qed.

Theorem c10_finish_early : forall s : stream, state s <> Closed -> res s = None -> snd (finish s) = (if adapted s then {| rc := 88; res_refs := eo_refs s; res_ctrls := [] |} else cancelled) /\ state (fst (finish s)) = Closed.
Proof. exact Stream.c10_finish_early. Qed.

Theorem c10_second_finish : forall s : stream, snd (finish (fst (finish s))) = already.
Proof. exact Stream.c10_second_finish. Qed.

Theorem c10_finish_closes : forall s : stream, state (fst (finish s)) = Closed.
Proof. exact Stream.c10_finish_closes. Qed.

Theorem c10_adapted_read_all : forall its : list sitem, Forall not_done its -> forall (hid : list sitem) (r : result) (cs : list nat) (cl : bool) (rs : option result) (refs : list bytes) (sc : nat) (f7 : bool) (fuel : nat), Forall hidden hid -> (length its < fuel)%nat -> drain fuel {| state := Active; rx := Some {| avail := hid ++ its ++ [IDone r cs]; closed := cl |}; res := rs; eo_refs := refs; adapted := true; scrubs := sc; Stream.fix7 := f7 |} = (filter is_entry its, {| state := Done; rx := None; res := Some {| rc := rc r; res_refs := res_refs r; res_ctrls := cs |}; eo_refs := refs ++ flat_map ref_uris hid ++ flat_map ref_uris its; adapted := true; scrubs := sc; Stream.fix7 := f7 |}).
Proof. exact Stream.c10_adapted_read_all. Qed.

Theorem c10_direct_read_all : forall its : list sitem, Forall not_done its -> forall (r : result) (cs : list nat) (cl : bool) (rs : option result) (refs : list bytes) (sc fuel : nat), (length its < fuel)%nat -> drain fuel {| state := Active; rx := Some {| avail := its ++ [IDone r cs]; closed := cl |}; res := rs; eo_refs := refs; adapted := false; scrubs := sc; Stream.fix7 := true |} = (its, {| state := Done; rx := None; res := Some {| rc := rc r; res_refs := res_refs r; res_ctrls := cs |}; eo_refs := refs; adapted := false; scrubs := sc; Stream.fix7 := true |}).
Proof. exact Stream.c10_direct_read_all. Qed.

Theorem c10_search_collects : forall (its : list sitem) (r : result) (cs : list nat), Forall not_done its -> search (its ++ [IDone r cs]) = (filter is_entry its, {| rc := rc r; res_refs := res_refs r ++ flat_map ref_uris its; res_ctrls := cs |}).
Proof. exact Stream.c10_search_collects. Qed.

Theorem c10_items_exact : forall (f : fixes) (evs : list ev) (o : nat) (c : cop), getop (run f evs) o = Some c -> is_search c -> o_items c = map fst (filter (to o) (processed (run f evs))).
Proof. exact ConnExact.c10_items_exact. Qed.

(* the PagedResults-adapted stream (model L3.Paged, repaired: F21): however many items the caller has read, on whichever page, a finish() before the end returns the synthetic cancellation (88) - never a page's own result - and scrubs the id of the newest request *)
Theorem c10_paged_early_finish : forall (params : nat) (uc : list Paged.ctl) (size : N) (srv : list Paged.page) (s0 : Paged.stream) (k : nat) (l : list Paged.item) (s' : Paged.stream), Paged.start params uc size srv = Some s0 -> Paged.take_items Paged.prepaired k s0 = (l, s') -> Paged.st s' = Paged.Active -> let '(s'', r, scrub) := Paged.finish s' in r = Paged.cancelled /\ scrub = Some (length (Paged.wire s')) /\ Paged.st s'' = Paged.Closed.
Proof. exact Paged.c10_paged_early_finish. Qed.

Theorem c10_paged_failed_followup : forall (params : nat) (uc : list Paged.ctl) (size : N) (srv : list Paged.page) (s0 : Paged.stream) (k : nat) (l : list Paged.item) (s1 : Paged.stream) (fuel : nat) (s2 : Paged.stream), Paged.start params uc size srv = Some s0 -> Paged.take_items Paged.prepaired k s0 = (l, s1) -> Paged.st s1 = Paged.Active -> Paged.next Paged.prepaired fuel s1 = (s2, Paged.NErr) -> snd (fst (Paged.finish s2)) = Paged.cancelled.
Proof. exact Paged.c10_paged_failed_followup. Qed.

(* repair F48: a next() call given up while the PagedResults adapter asks for the next page leaves no page result behind - Paged.finish() is
   the cancellation, and the stream ends there without sending anything further (the cookie is not used twice) *)
Theorem c10_abandoned_switch : forall s s', Paged.abandon_at_switch true s = Some s' ->
  Paged.res s' = None /\ snd (fst (Paged.finish s')) = Paged.cancelled /\
  fst (Paged.next_after_abandon s') = Paged.mkS Paged.Done None None (Paged.saved_params s') (Paged.saved_ctrls s') (Paged.page_size s') (Paged.server s') (Paged.wire s') /\ snd (Paged.next_after_abandon s') = Paged.NNone /\
  Paged.wire (fst (Paged.next_after_abandon s')) = Paged.wire s'.
Proof. exact Paged.c10_abandoned_switch. Qed.
Theorem c10_refuted_F48 :
  let p1 := Paged.mkPage [Paged.Entry 1] (Paged.mkRes 0 [Paged.CPaged 0 [x01]]) in let p2 := Paged.mkPage [Paged.Entry 2] (Paged.mkRes 0 [Paged.CPaged 0 [x02]]) in let p3 := Paged.mkPage [Paged.Entry 3] (Paged.mkRes 0 [Paged.CPaged 0 []]) in
  match Paged.start 7 [] 1 [p1; p2; p3] with None => False | Some s0 =>
    let s1 := fst (Paged.next Paged.prepaired 5 s0) in
    match Paged.abandon_at_switch false s1, Paged.abandon_at_switch true s1 with
    | Some bad, Some good =>
        snd (fst (Paged.finish bad)) = Paged.mkRes 0 [Paged.CPaged 0 [x01]] /\ snd (Paged.next_after_abandon bad) = Paged.NSome (Paged.Entry 3) /\
        Paged.wire (fst (Paged.next_after_abandon bad)) = [Paged.mkReq 7 [Paged.CPaged 1 []]; Paged.mkReq 7 [Paged.CPaged 1 [x01]]; Paged.mkReq 7 [Paged.CPaged 1 [x01]]] /\
        snd (fst (Paged.finish good)) = Paged.cancelled /\ snd (Paged.next_after_abandon good) = Paged.NNone /\ Paged.wire (fst (Paged.next_after_abandon good)) = [Paged.mkReq 7 [Paged.CPaged 1 []]; Paged.mkReq 7 [Paged.CPaged 1 [x01]]]
    | _, _ => False end end.
Proof. exact Paged.c10_refuted_F48. Qed.

(* repair F56: PagedResults::finish() hands out no result that still carries a live paging cookie - in any state of the stream *)
Theorem c10_finish_never_a_page_result : forall s, Paged.cookie_of (snd (fst (Paged.finish56 s))) = [].
Proof. exact Paged.c10_finish_never_a_page_result. Qed.
Theorem c16_finish_no_paging_control : forall s, existsb Paged.is_paged (Paged.ctrls (snd (fst (Paged.finish56 s)))) = false.
Proof. exact Paged.c16_finish_no_paging_control. Qed.
Theorem c10_refuted_F56 : let s := Paged.mkS Paged.SError None (Some (Paged.mkRes 0 [Paged.CPaged 0 [x01]])) 7 [] 2 [] [] in
  snd (fst (Paged.finish s)) = Paged.mkRes 0 [Paged.CPaged 0 [x01]] /\ snd (fst (Paged.finish56 s)) = Paged.cancelled.
Proof. exact Paged.c10_refuted_F56. Qed.

Print Assumptions c10_all_call_sequences.
Print Assumptions c10_start_all_call_sequences.
Print Assumptions c10_next_outside_active.
Print Assumptions c10_finish_after_done.
Print Assumptions c10_finish_early.
Print Assumptions c10_second_finish.
Print Assumptions c10_finish_closes.
Print Assumptions c10_adapted_read_all.
Print Assumptions c10_direct_read_all.
Print Assumptions c10_search_collects.
Print Assumptions c10_items_exact.
Print Assumptions c10_paged_early_finish.
Print Assumptions c10_paged_failed_followup.
Print Assumptions c10_abandoned_switch.
Print Assumptions c10_refuted_F48.
Print Assumptions c10_finish_never_a_page_result.
Print Assumptions c10_refuted_F56.
Print Assumptions c16_finish_no_paging_control.
