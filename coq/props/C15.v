(* C15 — SearchEntry::construct keeps every attribute value and classifies it correctly. Pinned statements only. *)
From Coq Require Import List NArith Lia Bool Arith Permutation.
From Coq.Strings Require Import Byte.
From L3 Require Import Ber Utf8 Frame Entry.
Import ListNotations.

(* [enc_entry dn attrs]: the SearchResultEntry a server builds from the PartialAttribute elements [attrs] - any number of them, the same
   description any number of times (repair F41); [vals_of k attrs]: all the values sent under description k, in the order sent;
   [construct Utf8.valid]: the model of SearchEntry::construct with the real UTF-8 classifier. For a UTF-8 DN and UTF-8 attribute
   descriptions: the DN is the server's; each attribute is in exactly one map - the text map with its values in order iff all its values
   are UTF-8, otherwise the binary map holds a permutation of its values (nothing lost, duplicated or altered); no other key appears. *)
Theorem c15_construct : forall dn attrs,
  Utf8.valid dn = true -> Forall (fun a => Utf8.valid (fst a) = true) attrs ->
  exists e, construct Utf8.valid (enc_entry dn attrs) = Ok e /\ e_dn e = dn /\
    (forall k, In k (map fst attrs) ->
        (all_text Utf8.valid (vals_of k attrs) = true  -> mget k (e_attrs e) = Some (vals_of k attrs) /\ mget k (e_bin e) = None) /\
        (all_text Utf8.valid (vals_of k attrs) = false -> mget k (e_attrs e) = None /\
                                     exists bs, mget k (e_bin e) = Some bs /\ Permutation bs (vals_of k attrs))) /\
    (forall k, ~ In k (map fst attrs) -> mget k (e_attrs e) = None /\ mget k (e_bin e) = None).
Proof. exact Entry.c15. Qed.
(* when no description repeats, [vals_of] is the attribute's own value list *)
Theorem c15_vals_of_nodup : forall attrs a, NoDup (map fst attrs) -> In a attrs -> vals_of (fst a) attrs = snd a.
Proof. exact Entry.vals_of_nodup. Qed.
(* F41 as found: member: [a, b] then member: [c] yields [c]; member: [a] then member: [ff] leaves the attribute in both maps *)
Theorem c15_refuted_F41 :
  let lost := enc_entry [x63] [([x6d], [[x61]; [x62]]); ([x6d], [[x63]])] in
  let both := enc_entry [x63] [([x6d], [[x61]]); ([x6d], [[xff]])] in
  construct_gen Utf8.valid false lost = Ok {| e_dn := [x63]; e_attrs := [([x6d], [[x63]])]; e_bin := [] |} /\
  construct Utf8.valid lost = Ok {| e_dn := [x63]; e_attrs := [([x6d], [[x61]; [x62]; [x63]])]; e_bin := [] |} /\
  construct_gen Utf8.valid false both = Ok {| e_dn := [x63]; e_attrs := [([x6d], [[x61]])]; e_bin := [([x6d], [[xff]])] |} /\
  construct Utf8.valid both = Ok {| e_dn := [x63]; e_attrs := []; e_bin := [([x6d], [[xff]; [x61]])] |}.
Proof. exact Entry.c15_refuted_F41. Qed.
Print Assumptions c15_construct.
Print Assumptions c15_vals_of_nodup.
Print Assumptions c15_refuted_F41.
