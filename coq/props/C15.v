(* C15 — SearchEntry::construct keeps every attribute value and classifies it correctly. Pinned statement only. *)
From Coq Require Import List NArith Lia Bool Arith Permutation.
From Coq.Strings Require Import Byte.
From L3 Require Import Ber Utf8 Frame Entry.
Import ListNotations.

(* [enc_entry dn attrs]: the SearchResultEntry a server builds; [construct Utf8.valid]: the model of SearchEntry::construct with the
   real UTF-8 classifier. For a UTF-8 DN and duplicate-free UTF-8 attribute names: the DN is the server's; each attribute is in exactly
   one map - the text map with its values in order iff all its values are UTF-8, otherwise the binary map holds a permutation of its
   values (nothing lost, duplicated or altered); no other key appears. *)
Theorem c15_construct : forall dn attrs,
  Utf8.valid dn = true -> NoDup (map fst attrs) -> Forall (fun a => Utf8.valid (fst a) = true) attrs ->
  exists e, construct Utf8.valid (enc_entry dn attrs) = Ok e /\ e_dn e = dn /\
    (forall a, In a attrs ->
        (all_text Utf8.valid (snd a) = true  -> mget (fst a) (e_attrs e) = Some (snd a) /\ mget (fst a) (e_bin e) = None) /\
        (all_text Utf8.valid (snd a) = false -> mget (fst a) (e_attrs e) = None /\
                                     exists bs, mget (fst a) (e_bin e) = Some bs /\ Permutation bs (snd a))) /\
    (forall k, ~ In k (map fst attrs) -> mget k (e_attrs e) = None /\ mget k (e_bin e) = None).
Proof. exact Entry.c15. Qed.
Print Assumptions c15_construct.
