(* C05 - in-flight operations never share a message id; ids stay within 1..2^31-1. Pinned statements only. Allocator: for EVERY counter position and in-use set (not full), next_msgid returns an id in 1..MAX that is not in use and is the first free one in cyclic order after the counter (wrap MAX -> 1, in-use ids skipped). Connection level: in every history of fewer than 2^31-1 events the k-th operation started carries id k. *)
From RecordUpdate Require Import RecordUpdate.
From Coq Require Import List ZArith NArith Lia Bool Arith.
From Coq.Strings Require Import Byte.
From L3 Require Import Msgid Conn ConnProofs ConnNoWrap.
Import ListNotations.

Theorem c05_next_is_first_free : forall (last : Z) (s : list Z), 0 <= last <= MAX -> Z.of_nat (length s) < MAX - 1 -> exists d : nat, next_msgid last s = Found (cand last (Z.of_nat (S d))) /\ 1 <= cand last (Z.of_nat (S d)) <= MAX /\ ~ In (cand last (Z.of_nat (S d))) s /\ (forall i : Z, 0 < i < Z.of_nat (S d) -> In (cand last i) s).
Proof. exact Msgid.c05_next_is_first_free. Qed.

Theorem c05_ids_in_order : forall (f : fixes) (evs : list ev) (o : nat) (c : cop), Z.of_nat (length evs) < MAX -> getop (run f evs) o = Some c -> o_mid c = Z.of_nat (S o) /\ 1 <= o_mid c < MAX.
Proof. exact ConnNoWrap.c05_ids_in_order. Qed.

Theorem c05_wrap_example : next_msgid (MAX - 1) [MAX; 1; 2] = Found 3.
Proof. exact Msgid.c05_probe_wrap. Qed.

Print Assumptions c05_next_is_first_free.
Print Assumptions c05_ids_in_order.
Print Assumptions c05_wrap_example.
