(* C05 - in-flight operations never share a message id; ids stay within 1..2^31-1. Pinned statements only. Allocator: for EVERY counter position and in-use set (not full), next_msgid returns an id in 1..MAX that is not in use and is the first free one in cyclic order after the counter (wrap MAX -> 1, in-use ids skipped). Connection level: in every history of fewer than 2^31-1 events the k-th operation started carries id k. Callers on several threads: taking the id (Alloc) and handing the request to the driver (Enqueue) are separate events - Start is exactly one followed at once by the other - so the histories quantified over include every interleaving in which other handles allocate AND send in between; an allocated, not yet sent operation is touched by nothing but its own Enqueue. Past the wrap-around point (theorems c05_wrap_..): for EVERY history, of any length and under any set of repairs, and from any well-formed state (counter anywhere in 0..MAX) the reserved set never holds an id twice nor one outside 1..MAX, and an allocation never hands out an id reserved at that moment; what fails there is known finding F22. Frame: an event that is not an allocation (a result arriving - a Bind's included -, a poll, a scrub, the driver ending ..) never moves the counter and never adds to the reserved set. *)
From RecordUpdate Require Import RecordUpdate.
From Coq Require Import List ZArith NArith Lia Bool Arith.
From Coq.Strings Require Import Byte.
From L3 Require Import Msgid Conn ConnProofs ConnAlloc ConnNoWrap ConnWrap.
Import ListNotations.

Theorem c05_next_is_first_free : forall (last : Z) (s : list Z), 0 <= last <= MAX -> Z.of_nat (length s) < MAX - 1 -> exists d : nat, next_msgid last s = Found (cand last (Z.of_nat (S d))) /\ 1 <= cand last (Z.of_nat (S d)) <= MAX /\ ~ In (cand last (Z.of_nat (S d))) s /\ (forall i : Z, 0 < i < Z.of_nat (S d) -> In (cand last i) s).
Proof. exact Msgid.c05_next_is_first_free. Qed.

Theorem c05_ids_in_order : forall (f : fixes) (evs : list ev) (o : nat) (c : cop), Z.of_nat (length evs) < MAX -> getop (run f evs) o = Some c -> o_mid c = Z.of_nat (S o) /\ 1 <= o_mid c < MAX.
Proof. exact ConnNoWrap.c05_ids_in_order. Qed.

Theorem c05_wrap_example : next_msgid (MAX - 1) [MAX; 1; 2] = Found 3.
Proof. exact Msgid.c05_probe_wrap. Qed.

Theorem c05_distinct_ids : forall (f : fixes) (evs : list ev), Z.of_nat (length evs) < MAX -> NoDup (map o_mid (ops (run f evs))).
Proof. exact ConnNoWrap.c05_distinct_ids. Qed.

Theorem c05_start_is_alloc_then_enqueue : forall (s : st) (k : kind) (tmo : option Z), step s (Start k tmo) = step (step s (Alloc k tmo)) (Enqueue (length (ops s))).
Proof. exact Conn.start_split. Qed.

Theorem c05_allocated_is_inert : forall (f : fixes) (evs : list ev) (o : nat) (c : cop), getop (run f evs) o = Some c -> o_status c = CAlloc -> inert c.
Proof. exact ConnAlloc.reachable_alloc_inert. Qed.

Theorem c05_held_operation_untouched : forall (s : st) (e : ev) (o : nat) (c : cop), getop s o = Some c -> inert c -> e <> Enqueue o -> e <> DropCall o -> getop (step s e) o = Some c.
Proof. exact ConnAlloc.alloc_untouched. Qed.

Theorem c05_crossed_starts : let r1 := mkResp 1 RDone 11 in let r2 := mkResp 2 RDone 22 in let s := run as_is [Alloc KSingle None; Alloc KSingle None; Enqueue 1; Enqueue 0; DrvOp; DrvOp; ServerSend r1; ServerSend r2; DrvResp; DrvResp; CliPoll 0; CliPoll 1] in map fst (wout s) = [2; 1] /\ option_map o_status (getop s 0%nat) = Some (COk (Some r1)) /\ option_map o_status (getop s 1%nat) = Some (COk (Some r2)) /\ inuse s = [].
Proof. exact ConnAlloc.crossed_starts. Qed.

Theorem c05_wrap_bookkeeping : forall (f : fixes) (evs : list ev), let s := run f evs in NoDup (inuse s) /\ (forall i : Z, In i (inuse s) -> 1 <= i <= MAX) /\ 0 <= last s <= MAX.
Proof. exact ConnWrap.c05_wrap_bookkeeping. Qed.

Theorem c05_wrap_from_any_state : forall (s : st) (evs : list ev), 0 <= last s <= MAX -> NoDup (inuse s) -> (forall i : Z, In i (inuse s) -> 1 <= i <= MAX) -> let s' := fold_left step evs s in NoDup (inuse s') /\ (forall i : Z, In i (inuse s') -> 1 <= i <= MAX) /\ 0 <= last s' <= MAX.
Proof. exact ConnWrap.c05_wrap_from_any_state. Qed.

Theorem c05_wrap_alloc_fresh : forall (s : st) (k : kind) (tmo : option Z) (c : cop), 0 <= last s <= MAX -> getop (step s (Alloc k tmo)) (length (ops s)) = Some c -> ~ In (o_mid c) (inuse s) /\ 1 <= o_mid c <= MAX /\ inuse (step s (Alloc k tmo)) = o_mid c :: inuse s /\ last (step s (Alloc k tmo)) = o_mid c.
Proof. exact ConnWrap.c05_wrap_alloc_fresh. Qed.

Theorem c05_wrap_witness : 0 <= last s_wrap <= MAX /\ NoDup (inuse s_wrap) /\ (forall i : Z, In i (inuse s_wrap) -> 1 <= i <= MAX) /\ map o_mid (ops (fold_left step [Alloc KSingle None; Start KSingle None] s_wrap)) = [3; 4] /\ inuse (fold_left step [Alloc KSingle None; Start KSingle None] s_wrap) = [4; 3; MAX; 1; 2].
Proof. exact ConnWrap.c05_wrap_witness. Qed.

Theorem c05_counter_moves_only_on_allocation : forall (s : st) (e : ev), is_start e = false -> last (step s e) = last s.
Proof. exact ConnNoWrap.last_step. Qed.

Theorem c05_only_allocation_reserves : forall (s : st) (e : ev), is_start e = false -> forall i : Z, In i (inuse (step s e)) -> In i (inuse s).
Proof. exact ConnNoWrap.inuse_step. Qed.

Print Assumptions c05_next_is_first_free.
Print Assumptions c05_ids_in_order.
Print Assumptions c05_wrap_example.
Print Assumptions c05_distinct_ids.
Print Assumptions c05_start_is_alloc_then_enqueue.
Print Assumptions c05_allocated_is_inert.
Print Assumptions c05_held_operation_untouched.
Print Assumptions c05_crossed_starts.
Print Assumptions c05_wrap_bookkeeping.
Print Assumptions c05_wrap_from_any_state.
Print Assumptions c05_wrap_alloc_fresh.
Print Assumptions c05_wrap_witness.
Print Assumptions c05_counter_moves_only_on_allocation.
Print Assumptions c05_only_allocation_reserves.
