(* C04 - every operation terminates; losing the connection fails all pending work. Pinned statements only. [acct] is the accounting invariant (every empty one-shot / open item channel has a live sender: a queued request, a routing entry or a running driver); it holds after every history of proper events (reachable_acct), so once the driver has ended - for whichever cause (c04_end_causes) - no reply channel is empty and no item channel is open (c04_no_pending_after_end): every poll completes with the delivered value or an error (c04_poll_completes, c04_stream_next_completes), later operations fail at once (c04_later_ops_fail), Unbind ends the repaired driver (c04_unbind_ends_driver). The StartTLS exchange of connection establishment is one single-operation turn of the driver (SingleOp.v, every schedule of its select! branches): when it hands the connection back the response has been delivered, it returns once the transport has ended, so the establishment never strands its caller (c04_starttls_*; F18 and its completion F23). *)
From RecordUpdate Require Import RecordUpdate.
From Coq Require Import List ZArith NArith Lia Bool Arith.
From Coq.Strings Require Import Byte.
From L3 Require Import Msgid Conn ConnProofs ConnAccount ConnLin2 ConnC04 ConnNoWrap ConnFinal SingleOp.
From L3 Require Tls.
Import ListNotations.

Theorem c04_invariant_reachable : forall (f : fixes) (evs : list ev), Forall proper evs -> acct (run f evs).
Proof. exact ConnAccount.reachable_acct. Qed.

Theorem c04_no_pending_after_end : forall (f : fixes) (evs : list ev) (o : nat) (c : cop), Forall proper evs -> is_running (run f evs) = false -> getop (run f evs) o = Some c -> o_reply c <> OsEmpty /\ o_chan c = false.
Proof. exact ConnAccount.c04_no_pending_after_end. Qed.

Theorem c04_poll_completes : forall (s : st) (o : nat) (c : cop), acct s -> is_running s = false -> getop s o = Some c -> o_status c = CWait -> exists c' : cop, getop (step s (CliPoll o)) o = Some c' /\ o_status c' <> CWait.
Proof. exact ConnAccount.c04_poll_completes. Qed.

Theorem c04_stream_next_completes : forall (s : st) (o : nat) (c : cop), acct s -> is_running s = false -> getop s o = Some c -> o_status c = SActive -> o_rx c = true -> nth_error (o_items c) (o_taken c) = None -> exists c' : cop, getop (step s (StreamNext o)) o = Some c' /\ o_status c' = SError.
Proof. exact ConnAccount.c04_stream_next_completes. Qed.

Theorem c04_later_ops_fail : forall (s : st) (k : kind) (tmo : option Z) (mid : Z), is_running s = false -> next_msgid (last s) (inuse s) = Found mid -> exists c : cop, getop (step s (Start k tmo)) (length (ops s)) = Some c /\ o_status c = match k with | KSearch _ => SStartErr EOpSend | _ => CErr EOpSend end.
Proof. exact ConnAccount.c04_later_ops_fail. Qed.

Theorem c04_end_causes : forall (s : st) (how : dstatus), how <> Running -> is_running s = true -> is_running (step s (DrvEnd how)) = false.
Proof. exact ConnC04.c04_end_causes. Qed.

Theorem c04_ended_stays_ended : forall (s : st) (e : ev), is_running s = false -> is_running (step s e) = false.
Proof. exact ConnC04.c04_ended_stays_ended. Qed.

Theorem c04_unbind_ends_driver : forall (s : st) (o : nat) (q : list nat) (c : cop), fix15 (fx s) = true -> is_running s = true -> opq s = o :: q -> getop s o = Some c -> o_kind c = KUnbind -> fix16 (fx s) && negb (waiting c) = false -> is_running (step s DrvOp) = false.
Proof. exact ConnC04.c04_unbind_ends_driver. Qed.


(* whatever happens next - including the loss of the connection - an operation that has returned keeps its outcome, and a stream keeps what it has handed over, in order (any repair setting, any events) *)
Theorem c04_delivered_survives : forall (f : fixes) (evs more : list ev) (o : nat) (c : cop), getop (run f evs) o = Some c -> exists c' : cop, getop (run f (evs ++ more)) o = Some c' /\ (forall p, o_status c = COk p -> o_status c' = COk p) /\ (forall e, o_status c = CErr e -> o_status c' = CErr e) /\ (exists extra, o_got c' = o_got c ++ extra).
Proof. exact ConnFinal.c04_delivered_survives. Qed.


Theorem c04_single_turn_ok_means_delivered : forall evs : list sev, ret (srun V23 evs) = RetOk -> deliv (srun V23 evs) = true.
Proof. exact SingleOp.c04_single_turn_ok_means_delivered. Qed.

Theorem c04_single_turn_returns_when_transport_ends : forall (v : sver) (evs : list sev), In Eof evs \/ In RdErr evs -> ret (srun v evs) <> Going.
Proof. exact SingleOp.c04_single_turn_returns_when_transport_ends. Qed.

Theorem c04_starttls_exchange_terminates : forall evs : list sev, In Eof evs \/ In RdErr evs -> caller_sees (srun V23 evs) = SFails \/ caller_sees (srun V23 evs) = SHasResponse.
Proof. exact SingleOp.c04_starttls_exchange_terminates. Qed.

Theorem c04_starttls_establishment_returns : forall (c : Tls.cfg) (s : Tls.server), Tls.result (Tls.establish true c s) <> Tls.NeverReturns.
Proof. exact Tls.c04_starttls_establishment_returns. Qed.

Theorem c04_refuted_F23 : caller_sees (srun V18 [Eof]) = SNever /\ caller_sees (srun V18 [Msg false; TakeOp true; Msg true]) = SNever /\ caller_sees (srun V18 [Other]) = SNever.
Proof. exact SingleOp.c04_refuted_F23. Qed.

Print Assumptions c04_invariant_reachable.
Print Assumptions c04_no_pending_after_end.
Print Assumptions c04_poll_completes.
Print Assumptions c04_stream_next_completes.
Print Assumptions c04_later_ops_fail.
Print Assumptions c04_end_causes.
Print Assumptions c04_ended_stays_ended.
Print Assumptions c04_unbind_ends_driver.
Print Assumptions c04_delivered_survives.
Print Assumptions c04_single_turn_ok_means_delivered.
Print Assumptions c04_single_turn_returns_when_transport_ends.
Print Assumptions c04_starttls_exchange_terminates.
Print Assumptions c04_starttls_establishment_returns.
Print Assumptions c04_refuted_F23.
