(* C04 - every operation terminates; losing the connection fails all pending work. Pinned statements only. [acct] is the accounting invariant (every empty one-shot / open item channel has a live sender: a queued request, a routing entry or a running driver); it holds after every history of proper events (reachable_acct), so once the driver has ended - for whichever cause (c04_end_causes) - no reply channel is empty and no item channel is open (c04_no_pending_after_end): every poll completes with the delivered value or an error (c04_poll_completes, c04_stream_next_completes), later operations fail at once (c04_later_ops_fail), Unbind ends the repaired driver (c04_unbind_ends_driver). *)
From RecordUpdate Require Import RecordUpdate.
From Coq Require Import List ZArith NArith Lia Bool Arith.
From Coq.Strings Require Import Byte.
From L3 Require Import Msgid Conn ConnProofs ConnAccount ConnLin2 ConnC04 ConnNoWrap ConnFinal.
Import ListNotations.

Theorem c04_invariant_reachable : forall (f : fixes) (evs : list ev), Forall proper evs -> acct (run f evs).
Proof. exact ConnAccount.reachable_acct. Qed.

Theorem c04_no_pending_after_end : forall (f : fixes) (evs : list ev) (o : nat) (c : cop), Forall proper evs -> is_running (run f evs) = false -> getop (run f evs) o = Some c -> o_reply c <> OsEmpty /\ o_chan c = false.
Proof. exact ConnAccount.c04_no_pending_after_end. Qed.

Theorem c04_poll_completes : forall (s : st) (o : nat) (c : cop), acct s -> is_running s = false -> getop s o = Some c -> o_status c = CWait -> exists c' : cop, getop (step s (CliPoll o)) o = Some c' /\ o_status c' <> CWait.
Proof. exact ConnAccount.c04_poll_completes. Qed.

Theorem c04_stream_next_completes : forall (s : st) (o : nat) (c : cop), acct s -> is_running s = false -> getop s o = Some c -> o_status c = SActive -> o_rx c = true -> nth_error (o_items c) (o_taken c) = None -> exists c' : cop, getop (step s (StreamNext o)) o = Some c' /\ o_status c' = SError.
Proof. exact ConnAccount.c04_stream_next_completes. Qed.

Theorem c04_later_ops_fail : forall (s : st) (k : kind) (tmo : option Z) (mid : Z), is_running s = false -> next_msgid (last s) (inuse s) = Found mid -> exists c : cop, getop (step s (Start k tmo)) (length (ops s)) = Some c /\ o_status c = match k with | KSearch _ => SStartErr EOpSend | _ => CErr EOpSend end.
Proof. exact ConnAccount.c04_later_ops_fail. Qed.

Theorem c04_end_causes : forall (s : st) (how : dstatus), how <> Running -> is_running s = true -> is_running (step s (DrvEnd how)) = false.
Proof. exact ConnC04.c04_end_causes. Qed.

Theorem c04_ended_stays_ended : forall (s : st) (e : ev), is_running s = false -> is_running (step s e) = false.
Proof. exact ConnC04.c04_ended_stays_ended. Qed.

Theorem c04_unbind_ends_driver : forall (s : st) (o : nat) (q : list nat) (c : cop), fix15 (fx s) = true -> is_running s = true -> opq s = o :: q -> getop s o = Some c -> o_kind c = KUnbind -> fix16 (fx s) && negb (waiting c) = false -> is_running (step s DrvOp) = false.
Proof. exact ConnC04.c04_unbind_ends_driver. Qed.


(* whatever happens next - including the loss of the connection - an operation that has returned keeps its outcome, and a stream keeps what it has handed over, in order (any repair setting, any events) *)
Theorem c04_delivered_survives : forall (f : fixes) (evs more : list ev) (o : nat) (c : cop), getop (run f evs) o = Some c -> exists c' : cop, getop (run f (evs ++ more)) o = Some c' /\ (forall p, o_status c = COk p -> o_status c' = COk p) /\ (forall e, o_status c = CErr e -> o_status c' = CErr e) /\ (exists extra, o_got c' = o_got c ++ extra).
Proof. exact ConnFinal.c04_delivered_survives. Qed.


Print Assumptions c04_invariant_reachable.
Print Assumptions c04_no_pending_after_end.
Print Assumptions c04_poll_completes.
Print Assumptions c04_stream_next_completes.
Print Assumptions c04_later_ops_fail.
Print Assumptions c04_end_causes.
Print Assumptions c04_ended_stays_ended.
Print Assumptions c04_unbind_ends_driver.
Print Assumptions c04_delivered_survives.
