(* C16 - the PagedResults adapter returns the whole result set exactly once. Pinned statements only. For every paging script (pages of entries/references/intermediates, each ending with a result; every page but the last returns a non-empty cookie, the last an empty one or no paging control) and every page size and caller control list without a paging control: draining the adapted stream yields the concatenation of all pages' items in order, the stream ends Done, the final result is the last page's without the paging control, the first request carries the caller's controls plus paging(size, empty cookie) and every follow-up repeats parameters and controls with the cookie the server last returned (c16); a caller-supplied paging control is rejected at start. [fx] is the repair switch of F21 (the page result is cleared when the follow-up page is spliced in): the theorem holds with and without it. *)
From RecordUpdate Require Import RecordUpdate.
From Coq Require Import List ZArith NArith Lia Bool Arith.
From Coq.Strings Require Import Byte.
From L3 Require Import Paged.
Import ListNotations.

Theorem c16 : forall (fx : pfix) (params : nat) (user_ctrls : list ctl) (size : N) (p : page) (rest : list page) (s0 : stream), start params user_ctrls size (p :: rest) = Some s0 -> wf_script (p_result p) rest -> exists s' : stream, drain fx (S (length (flat_map p_items (p :: rest)) + length (p :: rest))) s0 = (flat_map p_items (p :: rest), s') /\ st s' = Done /\ res s' = Some (final_of (last_result (p_result p) rest)) /\ wire s' = {| q_params := params; q_ctrls := user_ctrls ++ [CPaged size []] |} :: followups params user_ctrls size (p_result p) rest.
Proof. exact Paged.c16. Qed.

Theorem c16_rejects_caller_paging_control : forall (params : nat) (uc : list ctl) (size : N) (srv : list page), existsb is_paged uc = true -> start params uc size srv = None.
Proof. exact Paged.c16_rejects_caller_paging_control. Qed.

Theorem c16_final_has_no_paging : forall r : result, (forall c1 c2 : ctl, In c1 (ctrls r) -> In c2 (ctrls r) -> is_paged c1 = true -> is_paged c2 = true -> c1 = c2) -> NoDup (ctrls r) -> existsb is_paged (ctrls (final_of r)) = false.
Proof. exact Paged.final_has_no_paging. Qed.

(* chained behind EntriesOnly (adapters = [EntriesOnly, PagedResults]): exactly the entries of all pages, in order, each once; the reference tokens of all pages collected in order (EntriesOnly adds their URIs to the final result); the stream Done with the last page's result without the paging control; the same requests on the wire *)
Theorem c16_behind_entries_only : forall (fx : pfix) (params : nat) (user_ctrls : list ctl) (size : N) (p : page) (rest : list page) (s0 : stream),
  start params user_ctrls size (p :: rest) = Some s0 -> wf_script (p_result p) rest ->
  exists s' : stream, eo_drain fx (S (length (flat_map p_items (p :: rest)) + length (p :: rest))) s0 [] =
      (entries_of (flat_map p_items (p :: rest)), refs_of (flat_map p_items (p :: rest)), s') /\
    st s' = Done /\ res s' = Some (final_of (last_result (p_result p) rest)) /\
    wire s' = {| q_params := params; q_ctrls := user_ctrls ++ [CPaged size []] |} :: followups params user_ctrls size (p_result p) rest.
Proof. exact Paged.c16_behind_entries_only. Qed.

(* the other response controls of the final result come through untouched and in order, wherever the paging control sat among them *)
Theorem c16_final_keeps_other_controls : forall r : result, (forall c1 c2 : ctl, In c1 (ctrls r) -> In c2 (ctrls r) -> is_paged c1 = true -> is_paged c2 = true -> c1 = c2) -> NoDup (ctrls r) -> ctrls (final_of r) = others (ctrls r) /\ rc (final_of r) = rc r.
Proof. exact Paged.c16_final_keeps_other_controls. Qed.

Theorem c16_entries_only_inside : forall (fx : pfix) (params : nat) (user_ctrls : list ctl) (size : N) (p : page) (rest : list page) (s0 : stream),
  start params user_ctrls size (map inner_eo (p :: rest)) = Some s0 -> wf_script (p_result p) rest ->
  exists s' : stream, drain fx (S (length (flat_map p_items (map inner_eo (p :: rest))) + length (map inner_eo (p :: rest)))) s0 = (map Entry (entries_of (flat_map p_items (p :: rest))), s') /\
    st s' = Done /\ res s' = Some (final_of (last_result (p_result p) rest)) /\
    wire s' = mkReq params (user_ctrls ++ [CPaged size []]) :: followups params user_ctrls size (p_result p) rest /\
    flat_map (fun q : page => refs_of (p_items q)) (p :: rest) = refs_of (flat_map p_items (p :: rest)).
Proof. exact Paged.c16_entries_only_inside. Qed.

Print Assumptions c16.
Print Assumptions c16_rejects_caller_paging_control.
Print Assumptions c16_final_has_no_paging.
Print Assumptions c16_behind_entries_only.
Print Assumptions c16_final_keeps_other_controls.
Print Assumptions c16_entries_only_inside.
