(* C11 — hostile or corrupt server bytes cannot crash or wedge the connection. Pinned statements only.
   Decoder level here; the driver-level statement (no event makes the driver panic) is c11_driver_never_panics. *)
From Coq Require Import List NArith Lia Bool Arith.
From Coq.Strings Require Import Byte.
From RecordUpdate Require Import RecordUpdate.
From Coq Require Import ZArith.
From L3 Require Import Ber BerFixed Utf8 Frame FrameSpec FrameFixed Msgid Conn ConnAccount ConnNoWrap ConnWire.
Import ListNotations.
Open Scope N_scope.

(* no byte string whatsoever makes the decoder panic *)
Theorem c11_decode_no_panic : forall m buf, decode_inner' (repaired_d m) buf <> DPanic.
Proof. exact FrameFixed.c11_decode_no_panic_repaired. Qed.

(* once the bytes announced by the frame's outer length have arrived, the frame is delivered or rejected,
   never waited for *)
Theorem c11_decode_no_wedge : forall m b0 i1 len i2,
  parse_length i1 = POk (len, i2) -> len <= N.of_nat (length i2) ->
  decode_inner' (repaired_d m) (b0 :: i1) <> DNeed.
Proof. exact FrameFixed.c11_decode_no_wedge_repaired. Qed.

(* recursion depth is bounded by the limit: a parsed tree never nests deeper than the limit allows *)
Theorem c11_depth_bounded : forall fx fuel d i t r,
  parse_tag' fx d fuel i = POk (t, r) -> forall m, limit fx = Some m -> (d <= S m)%nat -> (tdepth t + d <= S m)%nat.
Proof. exact BerFixed.c11_depth_bounded. Qed.

(* the repairs reject nothing valid: whatever the parser without them returned, for a tree within the limit, is still returned *)
Theorem c11_repairs_reject_nothing_valid : forall m fuel i t r,
  parse_tag fuel i = POk (t, r) -> (tdepth t <= S m)%nat -> parse_tag' (lim true m) 0 fuel i = POk (t, r).
Proof. exact BerFixed.c11_repairs_reject_nothing_valid. Qed.

(* driver level (connection model with the F5 repairs): no event - in particular no response, whatever its kind and id - makes the
   driver panic; the only way into the panicked state is the artificial event that says so *)
Theorem c11_driver_never_panics : forall (s : st) (e : ev), fix5 (fx s) = true -> drv s <> EndedPanic -> e <> DrvEnd EndedPanic -> drv (step s e) <> EndedPanic.
Proof. exact ConnNoWrap.c11_driver_never_panics. Qed.

(* the two models composed (ConnWire: what tokio-util's Framed yields from the bytes becomes the driver's events): whatever the bytes and
   however they are cut into reads, the driver is never handed a panic *)
Theorem c11_bytes_never_panic : forall (m : nat) (chunks : list (list byte)), ~ In (DrvEnd EndedPanic) (receive m chunks).
Proof. exact ConnWire.c11_bytes_never_panic. Qed.

(* input that is not a well-formed LDAPMessage envelope ends the connection with an error that every pending operation observes:
   in any reachable state of the connection (pre), whatever happens afterwards (post), no reply channel is left empty, no item channel open *)
Theorem c11_undecodable_ends_connection : forall (f : fixes) (pre : list ev) (m : nat) (chunks : list (list byte)) (post : list ev) (o : nat) (c : cop),
  Forall proper pre -> Forall proper post -> In EvError (framed_run (decode_inner' (repaired_d m)) [] chunks) ->
  let s := run f (pre ++ receive m chunks ++ post) in
  is_running s = false /\ (getop s o = Some c -> o_reply c <> OsEmpty /\ o_chan c = false).
Proof. exact ConnWire.c11_undecodable_ends_connection. Qed.

(* "input that is not a well-formed LDAPMessage envelope ends the connection with a decoding error", decoder side (repair F38): whatever is
   delivered is an envelope - universal SEQUENCE, message id with content octets in 0 .. 2^31-1 first, protocol op, then nothing, the
   controls, or Active Directory's stray [10] - and an element of any other shape is a decoding error *)
Theorem c11_delivered_is_envelope : forall m buf mid op cs rest, decode_inner' (repaired_d m) buf = DFrame mid op cs rest ->
  exists env, parse_tag' (lim true m) 0 (S (length buf)) buf = POk (env, rest) /\ Envelope env (mid, op, cs).
Proof. exact FrameFixed.c11_delivered_is_envelope. Qed.
Theorem c11_not_envelope_is_error : forall m buf env rest, parse_tag' (lim true m) 0 (S (length buf)) buf = POk (env, rest) ->
  (forall v, ~ Envelope env v) -> decode_inner' (repaired_d m) buf = DErr.
Proof. exact FrameFixed.c11_not_envelope_is_error. Qed.
(* length octets are never folded: what the length parser returns is the value they denote, below 2^64 *)
Theorem c11_length_honest : forall b r n r', parse_length (b :: r) = POk (n, r') -> (128 <= bN b)%N ->
  let k := N.to_nat (bN b - 128) in n = be_value (firstn k r) /\ r' = skipn k r /\ (n < 2^64)%N /\ (0 < k)%nat.
Proof. exact Ber.parse_length_honest. Qed.
(* as found *)
Theorem c11_refuted_F38 :
  let resp := C Application 1 [P Universal 10 [x00]; P Universal 4 []; P Universal 4 []] in
  decode_inner' (repaired_d_but38 100) (b [112; 12; 2; 1; 1; 97; 7; 10; 1; 0; 4; 0; 4; 0]) = DFrame 1 resp [] [] /\
  decode_inner' (repaired_d_but38 100) (b [48; 14; 4; 0; 2; 1; 1; 97; 7; 10; 1; 0; 4; 0; 4; 0]) = DFrame 1 resp [] [] /\
  decode_inner' (repaired_d_but38 100) (b [48; 11; 2; 0; 97; 7; 10; 1; 0; 4; 0; 4; 0]) = DFrame 0 resp [] [] /\
  decode_inner' (repaired_d 100) (b [112; 12; 2; 1; 1; 97; 7; 10; 1; 0; 4; 0; 4; 0]) = DErr /\
  decode_inner' (repaired_d 100) (b [48; 14; 4; 0; 2; 1; 1; 97; 7; 10; 1; 0; 4; 0; 4; 0]) = DErr /\
  decode_inner' (repaired_d 100) (b [48; 11; 2; 0; 97; 7; 10; 1; 0; 4; 0; 4; 0]) = DErr /\
  decode_inner' (repaired_d 100) (b [48; 12; 2; 1; 1; 97; 7; 10; 1; 0; 4; 0; 4; 0]) = DFrame 1 resp [] [].
Proof. exact FrameFixed.c11_refuted_F38. Qed.
Theorem c11_refuted_F38_length : let i := map byte_of_N [137; 1; 0; 0; 0; 0; 0; 0; 0; 12; 48]%N in
  parse_length_asfound i = POk (12%N, [byte_of_N 48]) /\ parse_length i = PErr /\
  parse_length (map byte_of_N [137; 0; 0; 0; 0; 0; 0; 0; 0; 12; 48]%N) = POk (12%N, [byte_of_N 48]) /\
  parse_length_asfound (map byte_of_N [128; 48]%N) = POk (0%N, [byte_of_N 48]) /\ parse_length (map byte_of_N [128; 48]%N) = PErr.
Proof. exact Ber.c11_refuted_F38_length. Qed.

Print Assumptions c11_decode_no_panic.
Print Assumptions c11_driver_never_panics.
Print Assumptions c11_decode_no_wedge.
Print Assumptions c11_depth_bounded.
Print Assumptions c11_repairs_reject_nothing_valid.
Print Assumptions c11_bytes_never_panic.
Print Assumptions c11_undecodable_ends_connection.
Print Assumptions c11_delivered_is_envelope.
Print Assumptions c11_not_envelope_is_error.
Print Assumptions c11_length_honest.
Print Assumptions c11_refuted_F38.
Print Assumptions c11_refuted_F38_length.
