(* C07 — BER encoding and parsing are mutual inverses and encoding is canonical.
   Pinned statements only: each is closed by [exact] of a lemma proved under theories/. *)
From Coq Require Import List NArith ZArith Lia Bool Arith.
From Coq.Strings Require Import Byte.
From L3 Require Import Ber BerFixed BerInt.
Import ListNotations.

(* The parser of the tree as repaired (F3: an element cut short inside a complete outer element is an error;
   F6: at most [max_depth] constructed levels below the top) is [parse_tag' (lim true max_depth) 0]. *)

(* every definite-length encoding (any legal length-of-length) of a tree whose nesting fits the limit parses to
   that tree and leaves the trailing bytes untouched *)
Theorem c07_any_encoding_parses : forall m t bs rest,
  BerEnc t bs -> (tdepth t <= S m)%nat ->
  parse_tag' (lim true m) 0 (S (length bs)) (bs ++ rest) = POk (t, rest).
Proof. exact BerFixed.c07_any_encoding_parses_limited. Qed.

(* the encoder's output is such an encoding: tag numbers <= 30, content lengths < 2^64 *)
Theorem c07_encode_is_encoding : forall t, ids_ok t -> small t -> BerEnc t (encode t).
Proof. exact Ber.encode_is_encoding. Qed.

Theorem c07_roundtrip : forall m t rest, ids_ok t -> small t -> (tdepth t <= S m)%nat ->
  parse_tag' (lim true m) 0 (S (length (encode t))) (encode t ++ rest) = POk (t, rest).
Proof. exact BerFixed.c07_roundtrip_limited. Qed.

(* emitted lengths: short form exactly below 128; long form has the exact octet count and no leading zero octet *)
Theorem c07_length_minimal : forall n, (n < 2^64)%N ->
  (n < 128 -> write_length n = [byte_of_N n])%N /\
  (128 <= n -> exists bs, write_length n = byte_of_N (128 + N.of_nat (length bs)) :: bs /\
                 be_value bs = n /\ (1 <= length bs <= 8)%nat /\ hd x00 bs <> x00)%N.
Proof. exact Ber.write_length_minimal. Qed.

(* INTEGER / ENUMERATED contents: the shortest two's-complement octets, for every 64-bit value *)
Theorem c07_int_shortest : forall z, (- 2^63 <= z < 2^63)%Z ->
  twos (int_octets z) = z /\ shortest (int_octets z).
Proof. exact BerInt.c07_int_shortest_repaired. Qed.

Theorem c07_bool_octet : forall b : bool, bool_octets b = [if b then xff else x00].
Proof. exact BerInt.bool_octets_spec. Qed.

(* ... and they are the only shortest octets of that value: INTEGER / ENUMERATED contents are canonical *)
Theorem c07_int_canonical : forall z bs, (- 2^63 <= z < 2^63)%Z -> shortest bs -> twos bs = z -> bs = int_octets z.
Proof. exact BerInt.c07_int_canonical. Qed.


(* known finding F36: the nesting hypothesis above is where C07 stops on this code - 102 nested SEQUENCEs are written and not read back *)
Theorem c07_refuted_F36 : let t := nest 101 in ids_ok t /\ small t /\ tdepth t = 102%nat /\
  parse_tag' (lim true 100) 0 (S (length (encode t))) (encode t) = PErr /\
  parse_tag' (lim true 100) 0 (S (length (encode (nest 100)))) (encode (nest 100)) = POk (nest 100, []).
Proof. exact BerFixed.c07_refuted_F36. Qed.

Print Assumptions c07_any_encoding_parses.
Print Assumptions c07_encode_is_encoding.
Print Assumptions c07_roundtrip.
Print Assumptions c07_length_minimal.
Print Assumptions c07_int_shortest.
Print Assumptions c07_bool_octet.
Print Assumptions c07_int_canonical.
Print Assumptions c07_refuted_F36.
