(* C12 - timeouts fire on time, keep the connection usable and orphan the late reply. Pinned statements only. Two clocks as in the code: op_call wraps the wait for the reply in one timeout from the start of the operation (o_deadline); a search stream wraps EACH next() call in its own timeout (o_tmo, o_call = start of the call in progress). *)
From RecordUpdate Require Import RecordUpdate.
From Coq Require Import List ZArith NArith Lia Bool Arith.
From Coq.Strings Require Import Byte.
From L3 Require Import Msgid Conn ConnProofs ConnTimeouts.
Import ListNotations.

Theorem c12_pending_before_deadline : forall (s : st) (o : nat) (c : cop) (d : Z), getop s o = Some c -> o_status c = CWait -> o_deadline c = Some d -> o_reply c = OsEmpty -> now s < d -> step s (CliPoll o) = s.
Proof. exact ConnTimeouts.c12_pending_before_deadline. Qed.

Theorem c12_fires_at_deadline : forall (s : st) (o : nat) (c : cop) (d : Z), getop s o = Some c -> o_status c = CWait -> o_deadline c = Some d -> o_reply c = OsEmpty -> d <= now s -> is_running s = true -> let s' := step s (CliPoll o) in (exists c' : cop, getop s' o = Some c' /\ (o_status c' = CErr ETimeout \/ (exists e : cerr, o_status c' = SStartErr e))) /\ scrubq s' = scrubq s ++ [o_mid c] /\ drv s' = drv s.
Proof. exact ConnTimeouts.c12_fires_at_deadline. Qed.

Theorem c12_response_wins : forall (s : st) (o : nat) (c : cop), getop s o = Some c -> o_status c = CWait -> forall p : option resp, o_reply c = OsFilled p -> exists c' : cop, getop (step s (CliPoll o)) o = Some c' /\ (o_status c' = COk p \/ o_status c' = SActive).
Proof. exact ConnTimeouts.c12_response_wins. Qed.

Theorem c12_driver_survives : forall (s : st) (e : ev), match e with | DrvOp | DrvResp | DrvEnd _ => False | _ => True end -> drv (step s e) = drv s.
Proof. exact ConnTimeouts.c12_driver_survives. Qed.

Theorem c12_after_scrub : forall (s : st) (id : Z) (q : list Z), is_running s = true -> scrubq s = id :: q -> let s' := step s DrvScrub in alookup id (rmap s') = None /\ alookup id (smap s') = None /\ ~ In id (inuse s') /\ drv s' = drv s.
Proof. exact ConnTimeouts.c12_after_scrub. Qed.

Theorem c12_late_reply_dropped : forall (s : st) (r : resp) (w : list resp), is_running s = true -> win s = r :: w -> alookup (r_mid r) (rmap s) = None -> alookup (r_mid r) (smap s) = None -> ops (step s DrvResp) = ops s /\ rmap (step s DrvResp) = rmap s /\ smap (step s DrvResp) = smap s /\ inuse (step s DrvResp) = inuse s.
Proof. exact ConnTimeouts.c12_late_reply_dropped. Qed.

Theorem c12_stream_item_wins : forall (s : st) (o : nat) (c : cop), getop s o = Some c -> o_status c = SActive -> o_rx c = true -> forall r : resp, nth_error (o_items c) (o_taken c) = Some r -> r_kind r <> RDone -> r_kind r = REntry \/ o_kind c <> KSearch true -> exists c' : cop, getop (step s (StreamNext o)) o = Some c' /\ o_got c' = o_got c ++ [r] /\ o_call c' = None /\ o_status c' = SActive.
Proof. exact ConnTimeouts.c12_stream_item_wins. Qed.

(* behind EntriesOnly a reference or an intermediate message is taken by the adapter and the call goes on: its timer starts afresh *)
Theorem c12_stream_skipped_item_restarts_timer : forall (s : st) (o : nat) (c : cop), getop s o = Some c -> o_status c = SActive -> o_rx c = true -> forall r : resp, nth_error (o_items c) (o_taken c) = Some r -> r_kind r = RRef \/ r_kind r = RInter -> o_kind c = KSearch true -> exists c' : cop, getop (step s (StreamNext o)) o = Some c' /\ o_got c' = o_got c /\ o_taken c' = S (o_taken c) /\ o_call c' = Some (now s) /\ o_status c' = SActive.
Proof. exact ConnTimeouts.c12_stream_skipped_item_restarts_timer. Qed.

Theorem c12_stream_call_starts : forall (s : st) (o : nat) (c : cop) (d : Z), getop s o = Some c -> o_status c = SActive -> o_rx c = true -> o_tmo c = Some d -> nth_error (o_items c) (o_taken c) = None -> o_chan c = true -> o_call c = None -> 0 < d -> exists c' : cop, getop (step s (StreamNext o)) o = Some c' /\ o_call c' = Some (now s) /\ o_status c' = SActive /\ scrubq (step s (StreamNext o)) = scrubq s.
Proof. exact ConnTimeouts.c12_stream_call_starts. Qed.

Theorem c12_stream_pending : forall (s : st) (o : nat) (c : cop) (d : Z), getop s o = Some c -> o_status c = SActive -> o_rx c = true -> o_tmo c = Some d -> nth_error (o_items c) (o_taken c) = None -> o_chan c = true -> forall t0 : Z, o_call c = Some t0 -> now s < t0 + d -> exists c' : cop, getop (step s (StreamNext o)) o = Some c' /\ o_call c' = Some t0 /\ o_status c' = SActive /\ scrubq (step s (StreamNext o)) = scrubq s.
Proof. exact ConnTimeouts.c12_stream_pending. Qed.

Theorem c12_stream_fires : forall (s : st) (o : nat) (c : cop) (d : Z), getop s o = Some c -> o_status c = SActive -> o_rx c = true -> o_tmo c = Some d -> nth_error (o_items c) (o_taken c) = None -> o_chan c = true -> forall t0 : Z, o_call c = Some t0 -> t0 + d <= now s -> is_running s = true -> fix25 (fx s) = true -> exists c' : cop, getop (step s (StreamNext o)) o = Some c' /\ o_status c' = SError /\ o_call c' = None /\ scrubq (step s (StreamNext o)) = scrubq s ++ [o_mid c].
Proof. exact ConnTimeouts.c12_stream_fires. Qed.

Print Assumptions c12_pending_before_deadline.
Print Assumptions c12_fires_at_deadline.
Print Assumptions c12_response_wins.
Print Assumptions c12_driver_survives.
Print Assumptions c12_after_scrub.
Print Assumptions c12_late_reply_dropped.
Print Assumptions c12_stream_item_wins.
Print Assumptions c12_stream_skipped_item_restarts_timer.
Print Assumptions c12_stream_call_starts.
Print Assumptions c12_stream_pending.
Print Assumptions c12_stream_fires.
