(* C19 — control and extended-operation values round-trip through their codecs. Pinned statements only.
   Each request value is "BER-encode this tree" (the byte level is C07's); the rd_* functions are readers written from the defining
   RFCs (2696, 4533, 4527, 3062, 5805); the parse_* functions model the library's response parsers on top of the repaired lber parser. *)
From Coq Require Import List ZArith NArith Lia Bool Arith.
From Coq.Strings Require Import Byte String.
From L3 Require Import Ber BerFixed BerInt Utf8 Frame Filter Request Entry Controls ConstsCheck.
Import ListNotations.

Theorem c19_paged_request : forall size cookie, i64 size -> option_map rd_paged (r_val (paged_results size cookie)) = Some (Some (size, cookie)).
Proof. exact Controls.c19_paged_request. Qed.
Theorem c19_sync_request : forall m (ck : option bytes) (hint : bool),
  option_map rd_sync_request (r_val (sync_request m ck hint)) = Some (Some (mode_code m, ck, hint)).
Proof. exact Controls.c19_sync_request. Qed.
Theorem c19_read_entry_request : forall oid attrs, option_map rd_attr_sel (r_val (read_entry oid attrs)) = Some (Some attrs).
Proof. exact Controls.c19_read_entry. Qed.
Theorem c19_assertion : forall f s, Filter.parse s = Some f -> assertion_of s = Ok {| r_oid := s2b "1.3.6.1.1.12"; r_crit := false; r_val := Some f |}.
Proof. exact Controls.c19_assertion. Qed.
Theorem c19_passmod_request : forall u o n, (u, o, n) <> (None, None, None) -> option_map rd_passmod (x_val (passmod u o n)) = Some (Some (u, o, n)).
Proof. exact Controls.c19_passmod. Qed.
Theorem c19_end_txn_request : forall (id : bytes) (commit : bool), option_map rd_end_txn (x_val (end_txn id commit)) = Some (Some (commit, id)).
Proof. exact Controls.c19_end_txn. Qed.

(* criticality defaults and make_critical; the OIDs and filter tag numbers of the model are those /repo's source declares on this run *)
Theorem c19_criticality :
  r_crit (paged_results 0 []) = false /\ b_crit (proxy_auth []) = true /\ b_crit (txn_spec []) = true /\
  b_crit manage_dsa_it = false /\ b_val manage_dsa_it = None /\ b_val relax_rules = None /\
  (forall c, r_crit (make_critical c) = true /\ r_oid (make_critical c) = r_oid c /\ r_val (make_critical c) = r_val c).
Proof. exact Controls.c19_oids_and_criticality. Qed.
Theorem c19_consts_agree_with_source : oids_agree = true /\ nums_agree = true.
Proof. exact ConstsCheck.consts_agree. Qed.

(* response values, from the value octets in any definite-length encoding *)
Theorem c19_paged_response : forall size cookie sz bs, (0 <= size < 2^31)%Z -> parse_uint sz = Z.to_N size ->
  BerEnc (seq [P Universal 2 sz; oct cookie]) bs -> parse_value parse_paged bs = Ok (size, cookie).
Proof. exact Controls.c19_paged_response_bytes. Qed.
Theorem c19_sync_state : forall st uuid ck bs,
  BerEnc (seq (P Universal 10 (enc_small (state_code st)) :: oct uuid :: match ck with Some c => [oct c] | None => @nil tree end)) bs ->
  parse_value parse_sync_state bs = Ok (st, uuid, ck).
Proof. exact Controls.c19_sync_state_bytes. Qed.
Theorem c19_sync_done : forall (ck : option bytes) (rd : bool) bs,
  BerEnc (seq (app (match ck with Some c => [oct c] | None => @nil tree end) (if rd then [boolt true] else @nil tree))) bs ->
  parse_value parse_sync_done bs = Ok (ck, rd).
Proof. exact Controls.c19_sync_done_bytes. Qed.
Theorem c19_sync_info : forall si bs, BerEnc (enc_si si) bs ->
  parse_syncinfo (C Application 25 [P Context 0 sync_info_oid; P Context 1 bs]) = Ok si.
Proof. exact Controls.c19_sync_info. Qed.
Theorem c19_read_entry_response : forall dn attrs bs, BerEnc (enc_entry dn attrs) bs ->
  parse_read_entry bs = Entry.construct Utf8.valid (enc_entry dn attrs).
Proof. exact Controls.c19_read_entry_resp. Qed.
Theorem c19_whoami_starttxn_response : forall v, Utf8.valid v = true -> parse_utf8_val v = Ok v.
Proof. exact Controls.c19_whoami_resp. Qed.
Theorem c19_passmod_response : forall g bs, Utf8.valid g = true -> BerEnc (seq [P Context 0 g]) bs -> parse_passmod_resp bs = Ok g.
Proof. exact Controls.c19_passmod_resp. Qed.

(* repair F39: the response value with genPasswd absent (RFC 3062: OPTIONAL) *)
Theorem c19_passmod_resp_absent : forall bs, BerEnc (seq []) bs -> parse_passmod_resp bs = Ok [].
Proof. exact Controls.c19_passmod_resp_absent. Qed.
Theorem c19_refuted_F39 : parse_value (parse_passmod_resp_gen false) [x30; x00] = Panic /\ parse_passmod_resp [x30; x00] = Ok [].
Proof. exact Controls.c19_refuted_F39. Qed.
(* known finding F40: octet strings held as Strings *)
Theorem c19_refuted_F40 : parse_utf8_val [xff] = Panic /\ parse_passmod_resp [x30; x03; x80; x01; xff] = Panic.
Proof. exact Controls.c19_refuted_F40. Qed.

Print Assumptions c19_paged_request. Print Assumptions c19_sync_request. Print Assumptions c19_read_entry_request.
Print Assumptions c19_assertion. Print Assumptions c19_passmod_request. Print Assumptions c19_end_txn_request.
Print Assumptions c19_criticality. Print Assumptions c19_consts_agree_with_source.
Print Assumptions c19_paged_response. Print Assumptions c19_sync_state. Print Assumptions c19_sync_done. Print Assumptions c19_sync_info.
Print Assumptions c19_read_entry_response. Print Assumptions c19_whoami_starttxn_response. Print Assumptions c19_passmod_response.
Print Assumptions c19_passmod_resp_absent.
Print Assumptions c19_refuted_F39.
Print Assumptions c19_refuted_F40.
