(* C13 - completed operations leave nothing behind. Pinned statements only. [quiescent s]: the driver runs, every operation has completed / every stream is closed, and the request, scrub and wire queues are empty; [clean s]: no id reserved, both routing maps empty. For EVERY history of fewer than 2^31-1 well-formed events of the repaired model (F8, F9, F15, F16), quiescent implies clean (c13_below_wrap); for histories of any length under the hypothesis that no message id was issued twice (c13_all_schedules_partial). *)
From RecordUpdate Require Import RecordUpdate.
From Coq Require Import List ZArith NArith Lia Bool Arith.
From Coq.Strings Require Import Byte.
From L3 Require Import ConnEnded Msgid Conn ConnProofs ConnAccount ConnLin2 ConnC04 ConnNoWrap ConnAbandon.
Import ListNotations.

Theorem c13_below_wrap : forall evs : list ev, Forall wf_ev evs -> Z.of_nat (length evs) < MAX -> quiescent (run repaired evs) = true -> clean (run repaired evs) = true.
Proof. exact ConnNoWrap.c13_below_wrap. Qed.

Theorem c13_all_schedules_partial : forall evs : list ev, Forall wf_ev evs -> NoDup (map o_mid (ops (run repaired evs))) -> quiescent (run repaired evs) = true -> clean (run repaired evs) = true.
Proof. exact ConnLin2.c13_all_schedules_partial. Qed.

Theorem c13_hypotheses_met : let h1 := [Start (KSearch true) None; DrvOp; CliPoll 0; ServerSend done1; DrvResp; StreamNext 0; StreamFinish 0] in let h2 := [Start KSingle None; DrvOp; Start (KAbandon 1) None; DrvOp; CliPoll 1; CliPoll 0] in let h3 := [Start KSingle (Some 0); CliPoll 0; DrvScrub; DrvOp] in Forall (fun h : list ev => Forall wf_ev h /\ NoDup (map o_mid (ops (run repaired h))) /\ quiescent (run repaired h) = true) [h1; h2; h3].
Proof. exact ConnLin2.c13_hypotheses_met. Qed.

(* one Abandon step of the repaired driver, for a single (non-search) target t that is still waiting: the request on the wire names t, no routing state for t is left, both message ids are released, the waiting caller's channel is closed *)
Theorem c13_abandon_single : forall (s : st) (o : nat) (q : list nat) (c : cop) (t : Z) (o' : nat) (c' : cop), fix9 (fx s) = true -> is_running s = true -> opq s = o :: q -> getop s o = Some c -> o_kind c = KAbandon t -> alookup t (rmap s) = Some o' -> getop s o' = Some c' -> o' <> o -> let s' := step s DrvOp in In (o_mid c, KAbandon t) (wout s') /\ alookup t (rmap s') = None /\ alookup t (smap s') = None /\ ~ In t (inuse s') /\ ~ In (o_mid c) (inuse s') /\ (exists c'' : cop, getop s' o' = Some c'' /\ (o_reply c' = OsEmpty -> o_reply c'' = OsClosed)).
Proof. exact ConnAbandon.c13_abandon_single. Qed.


(* ... and for a search in flight (its routing entry is in the search map): the item channel is closed, the stream's next() ends with an error *)
Theorem c13_abandon_search : forall (s : st) (o : nat) (q : list nat) (c : cop) (t : Z) (o' : nat) (c' : cop), fix9 (fx s) = true -> is_running s = true -> opq s = o :: q -> getop s o = Some c -> o_kind c = KAbandon t -> alookup t (rmap s) = None -> alookup t (smap s) = Some o' -> getop s o' = Some c' -> o' <> o -> let s' := step s DrvOp in In (o_mid c, KAbandon t) (wout s') /\ alookup t (rmap s') = None /\ alookup t (smap s') = None /\ ~ In t (inuse s') /\ ~ In (o_mid c) (inuse s') /\ (exists c'' : cop, getop s' o' = Some c'' /\ o_chan c'' = false).
Proof. exact ConnAbandon.c13_abandon_search. Qed.

Theorem c13_refuted_F25 : c13 (run all_but_25 h25) = false /\ inuse (run all_but_25 h25) = [1] /\ map fst (smap (run all_but_25 h25)) = [1].
Proof. exact Conn.c13_refuted_F25. Qed.

Theorem c13_repaired_F25 : c13 (run repaired h25) = true /\ inuse (run repaired h25) = [] /\ smap (run repaired h25) = [].
Proof. exact Conn.c13_repaired_F25. Qed.

Theorem c13_dead_connection : forall evs : list ev, is_running (run repaired evs) = false -> forallb op_finished (ops (run repaired evs)) = true -> inuse (run repaired evs) = [].
Proof. exact ConnEnded.c13_dead_connection. Qed.

Theorem c13_refuted_F31 : let s := run all_but_31 (DrvEnd EndedOk :: repeat (Start KSingle None) 10) in is_running s = false /\ forallb op_finished (ops s) = true /\ length (inuse s) = 10%nat.
Proof. exact ConnEnded.c13_refuted_F31. Qed.

Print Assumptions c13_below_wrap.
Print Assumptions c13_all_schedules_partial.
Print Assumptions c13_hypotheses_met.
Print Assumptions c13_abandon_single.
Print Assumptions c13_abandon_search.
Print Assumptions c13_refuted_F25.
Print Assumptions c13_repaired_F25.
Print Assumptions c13_dead_connection.
Print Assumptions c13_refuted_F31.
