(* C13 - completed operations leave nothing behind. Pinned statements only. [quiescent s]: the driver runs, every operation has completed / every stream is closed, and the request, scrub and wire queues are empty; [clean s]: no id reserved, both routing maps empty. For EVERY history of fewer than 2^31-1 well-formed events of the repaired model (F8, F9, F15, F16), quiescent implies clean (c13_below_wrap); for histories of any length under the hypothesis that no message id was issued twice (c13_all_schedules_partial). *)
From RecordUpdate Require Import RecordUpdate.
From Coq Require Import List ZArith NArith Lia Bool Arith.
From Coq.Strings Require Import Byte.
From L3 Require Import Msgid Conn ConnProofs ConnAccount ConnLin2 ConnNoWrap.
Import ListNotations.

Theorem c13_below_wrap : forall evs : list ev, Forall wf_ev evs -> Z.of_nat (length evs) < MAX -> quiescent (run repaired evs) = true -> clean (run repaired evs) = true.
Proof. exact ConnNoWrap.c13_below_wrap. Qed.

Theorem c13_all_schedules_partial : forall evs : list ev, Forall wf_ev evs -> NoDup (map o_mid (ops (run repaired evs))) -> quiescent (run repaired evs) = true -> clean (run repaired evs) = true.
Proof. exact ConnLin2.c13_all_schedules_partial. Qed.

Theorem c13_hypotheses_met : let h1 := [Start (KSearch true) None; DrvOp; CliPoll 0; ServerSend done1; DrvResp; StreamNext 0; StreamFinish 0] in let h2 := [Start KSingle None; DrvOp; Start (KAbandon 1) None; DrvOp; CliPoll 1; CliPoll 0] in let h3 := [Start KSingle (Some 0); CliPoll 0; DrvScrub; DrvOp] in Forall (fun h : list ev => Forall wf_ev h /\ NoDup (map o_mid (ops (run repaired h))) /\ quiescent (run repaired h) = true) [h1; h2; h3].
Proof. exact ConnLin2.c13_hypotheses_met. Qed.

Print Assumptions c13_below_wrap.
Print Assumptions c13_all_schedules_partial.
Print Assumptions c13_hypotheses_met.
