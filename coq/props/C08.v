(* C08 — filter strings compile to the RFC 4511 filter they denote. Pinned statements only. *)
From Coq Require Import List NArith Lia Bool Arith.
From Coq.Strings Require Import Byte.
From L3 Require Import Ber Filter FilterSpec FilterSound.
Import ListNotations.

(* [Denote f s]: s is a string of the RFC 4515 grammar (plus the documented extensions: a bare item, (&) and (|)) for the syntax
   tree f, with every escaping choice ([ValEnc]: a value byte as itself unless NUL ( ) * \, or as \hh with either-case hex).
   [ber f]: the RFC 4511 Filter of f.  [NoF14 f]: f contains no extensible item WITH an attribute description whose matching rule is named "dn" (in any case)
   without the dn flag - a:dn:=v, the one shape on which the RFC's grammar itself is ambiguous (c08_dn_rule_ambiguity). Without an
   attribute description :dn:=v has one reading only, the rule named dn, and is within the theorem (repair F52). *)
Theorem c08_complete : forall f s, Denote f s -> NoF14 f -> parse s = Some (ber f).
Proof. exact FilterSpec.c08_complete_modulo_F14. Qed.

Theorem c08_dn_rule_ambiguity : exists it1 it2 s, it1 <> it2 /\ ItemStr it1 s /\ ItemStr it2 s.
Proof. exact FilterSpec.c08_dn_rule_ambiguity. Qed.

(* every accepted string means what it says: it is a string of the (lenient) grammar for some tree, and the output is that tree's filter;
   rejection of unbalanced parentheses, trailing text, malformed escapes, unescaped specials, empty attribute descriptions and adjacent
   asterisks follows, since no such string is in the grammar. [parse] returns an option: it cannot panic. *)
Theorem c08_sound : forall s t, parse s = Some t -> exists f, DenoteL f s /\ t = ber f.
Proof. exact FilterSound.c08_sound. Qed.

(* the strict relation is contained in the lenient one, so the two halves meet *)
Theorem c08_strict_in_lenient : forall f s, Denote f s -> DenoteL f s.
Proof. exact FilterSound.Denote_DenoteL. Qed.

Print Assumptions c08_complete.
Print Assumptions c08_dn_rule_ambiguity.
Print Assumptions c08_sound.
Print Assumptions c08_strict_in_lenient.
