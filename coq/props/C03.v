(* C03 — results returned to the caller are exactly what the server sent. Pinned statements only. *)
From Coq Require Import List NArith Lia Bool Arith.
From Coq.Strings Require Import Byte.
From L3 Require Import Ber BerFixed Utf8 Frame FrameSpec FrameFixed Result ResultFixed.
Import ListNotations.
Open Scope N_scope.

(* [spec_response app code r]: the RFC 4511 response PDU a server builds for result r (code octets `code`, matched DN, diagnostic text,
   optional referral list, SASL credentials, extended-response name and value); [wf_res]: code of 1 to 8 octets, < 2^32, strings UTF-8.
   [result_of_tree]: the model of the library's conversion of a response protocolOp into the structs handed to the caller. *)
Theorem c03_result_of_spec : forall app_id code r, wf_res code r -> result_of_tree (spec_response app_id code r) = Ok r.
Proof. exact Result.c03_result_of_spec. Qed.

(* from the wire: any definite-length encoding (any legal length forms) of the whole LDAPMessage decodes to the message id, the
   response and (no) controls, and the response converts to exactly the server's fields *)
Theorem c03_from_the_wire : forall m app_id code r ib env bs rest, (2 <= m)%nat -> id_ok ib = true ->
  wf_res code r -> env = C Universal 16 [P Universal 2 ib; spec_response app_id code r] -> BerEnc env bs ->
  decode_inner' (repaired_d m) (bs ++ rest) = DFrame (as_i32 (parse_uint ib)) (spec_response app_id code r) [] rest /\
  result_of_tree (spec_response app_id code r) = Ok r.
Proof. exact ResultFixed.c03_from_the_wire_fixed. Qed.

(* with response controls: OID, criticality (absent = false) and value (absent = none) of each control, in order *)
Theorem c03_from_the_wire_with_controls : forall m app_id code r ib cts cs env bs rest, (2 <= m)%nat -> id_ok ib = true ->
  wf_res code r -> Forall2 WfCtrl cts cs ->
  env = C Universal 16 [P Universal 2 ib; spec_response app_id code r; C Context 0 cts] -> BerEnc env bs ->
  decode_inner' (repaired_d m) (bs ++ rest) = DFrame (as_i32 (parse_uint ib)) (spec_response app_id code r) cs rest /\
  result_of_tree (spec_response app_id code r) = Ok r.
Proof. exact ResultFixed.c03_from_the_wire_with_controls_fixed. Qed.

(* helper predicates: total decision lemmas over every result code *)
Theorem c03_success_iff : forall c, success c = true <-> c = 0.
Proof. exact Result.c03_success_iff. Qed.
Theorem c03_non_error_iff : forall c, non_error c = true <-> c = 0 \/ c = 10.
Proof. exact Result.c03_non_error_iff. Qed.
Theorem c03_equal_spec : forall c, (cmp_equal c = Some false <-> c = 5) /\ (cmp_equal c = Some true <-> c = 6) /\ (cmp_equal c = None <-> c <> 5 /\ c <> 6).
Proof. exact Result.c03_equal_spec. Qed.
Theorem c03_cmp_non_error_iff : forall c, cmp_non_error c = true <-> c = 5 \/ c = 6 \/ c = 10.
Proof. exact Result.c03_cmp_non_error_iff. Qed.

(* F28 / F30: nothing is folded into range - a result code that does not fit 32 bits makes the response malformed (as found, 2^32 read as
   success), and the decoder never delivers a frame under a message id outside 0 .. 2^31-1 (as found, 2^32+1 was delivered as id 1) *)
Theorem c03_refuted_F28 : rc_as_found [x01; x00; x00; x00; x00] = 0.
Proof. exact Result.c03_refuted_F28. Qed.
(* F51: a result code without content octets read as 0; now the response is malformed *)
Theorem c03_refuted_F51 : rc_as_found [] = 0 /\ result_of_tree (C Application 24 [P Universal 10 []; P Universal 4 []; P Universal 4 []]) = Panic /\
  result_of_tree (C Application 24 [P Universal 10 [x00]; P Universal 4 []; P Universal 4 []]) <> Panic.
Proof. exact Result.c03_refuted_F51. Qed.

Theorem c01_decoded_id_in_range : forall (fx : dfix) (buf : list byte) (mid : N) (op : tree) (cs : list ctrl) (rest : list byte), fix30 fx = true -> decode_inner' fx buf = DFrame mid op cs rest -> mid <= 2147483647.
Proof. exact FrameFixed.c01_decoded_id_in_range. Qed.

Theorem c01_refuted_F30 : decode_inner' (repaired_d_but30 100) (b [48; 16; 2; 5; 1; 0; 0; 0; 1; 97; 7; 10; 1; 0; 4; 0; 4; 0]) = DFrame 1 (C Application 1 [P Universal 10 [x00]; P Universal 4 []; P Universal 4 []]) [] [] /\ decode_inner' (repaired_d 100) (b [48; 16; 2; 5; 1; 0; 0; 0; 1; 97; 7; 10; 1; 0; 4; 0; 4; 0]) = DErr.
Proof. exact FrameFixed.c01_refuted_F30. Qed.

Print Assumptions c03_result_of_spec.
Print Assumptions c03_from_the_wire.
Print Assumptions c03_from_the_wire_with_controls.
Print Assumptions c03_success_iff.
Print Assumptions c03_non_error_iff.
Print Assumptions c03_equal_spec.
Print Assumptions c03_cmp_non_error_iff.
Print Assumptions c03_refuted_F28.
Print Assumptions c03_refuted_F51.
Print Assumptions c01_decoded_id_in_range.
Print Assumptions c01_refuted_F30.
