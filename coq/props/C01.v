(* C01 - responses are routed to the operation whose message id they carry; order preserved; unmatched responses disturb nobody. Pinned statements only (statements printed by Coq from the lemmas under theories/Conn*.v). [run f evs] is the state after ANY list of events - every interleaving of client calls, driver steps (each ready select! branch is its own event), server sends, clock advances and connection faults. *)
From RecordUpdate Require Import RecordUpdate.
From Coq Require Import List ZArith NArith Lia Bool Arith.
From Coq.Strings Require Import Byte.
From L3 Require Import Msgid Conn ConnProofs ConnOrder ConnAccount ConnExact.
Import ListNotations.

Theorem c01_routed_by_id : forall (f : fixes) (evs : list ev) (o : nat) (c : cop), getop (run f evs) o = Some c -> Forall (fun r : resp => r_mid r = o_mid c) (o_items c) /\ match o_reply c with | OsFilled (Some r) => r_mid r = o_mid c | _ => True end.
Proof. exact ConnProofs.c01_routed_by_id. Qed.

Theorem c01_in_order : forall (f : fixes) (evs : list ev) (o : nat) (c : cop), getop (run f evs) o = Some c -> Subseq (o_items c) (sent (run f evs)) /\ Subseq (o_got c) (o_items c) /\ Subseq (o_got c) (sent (run f evs)).
Proof. exact ConnOrder.c01_in_order. Qed.

Theorem c01_no_gaps : forall (f : fixes) (evs : list ev) (o : nat) (c : cop), getop (run f evs) o = Some c -> o_got c = filter (shown (o_kind c)) (firstn (o_taken c) (o_items c)).
Proof. exact ConnOrder.c01_no_gaps. Qed.

Theorem c01_unmatched_noop : forall (s : st) (r : resp) (w : list resp), is_running s = true -> win s = r :: w -> alookup (r_mid r) (smap s) = None -> alookup (r_mid r) (rmap s) = None -> step s DrvResp = s <| win := w |> <| processed ::= (fun l : list (resp * option nat) => l ++ [(r, None)]) |>.
Proof. exact ConnProofs.c01_unmatched_noop. Qed.

Theorem c01_routes_to_registered : forall (s : st) (r : resp) (w : list resp) (o : nat) (c : cop), acct s -> is_running s = true -> win s = r :: w -> In (r_mid r, o) (smap s) -> getop s o = Some c -> o_rx c = true -> r_kind r <> ROther -> processed (step s DrvResp) = processed s ++ [(r, Some o)].
Proof. exact ConnExact.c01_routes_to_registered. Qed.

Theorem c01_items_exact : forall (f : fixes) (evs : list ev) (o : nat) (c : cop), getop (run f evs) o = Some c -> is_search c -> o_items c = map fst (filter (to o) (processed (run f evs))).
Proof. exact ConnExact.c10_items_exact. Qed.

Theorem c01_refuted_F29 : option_map o_status (getop (run all_but_29 h29) 0%nat) = Some (COk (Some (mkResp 1 RInter 4))) /\ map snd (processed (run all_but_29 h29)) = [Some 0%nat; None].
Proof. exact Conn.c01_refuted_F29. Qed.

Theorem c01_repaired_F29 : option_map o_status (getop (run repaired h29) 0%nat) = Some (COk (Some (mkResp 1 ROther 5))) /\ map snd (processed (run repaired h29)) = [None; Some 0%nat].
Proof. exact Conn.c01_repaired_F29. Qed.

Print Assumptions c01_routed_by_id.
Print Assumptions c01_in_order.
Print Assumptions c01_no_gaps.
Print Assumptions c01_unmatched_noop.
Print Assumptions c01_routes_to_registered.
Print Assumptions c01_items_exact.
Print Assumptions c01_refuted_F29.
Print Assumptions c01_repaired_F29.
