(* C09 — escaped text is inert. Pinned statements only. *)
From Coq Require Import List NArith Lia Bool Arith.
From Coq.Strings Require Import Byte.
From L3 Require Import Ber Utf8 Filter FilterSpec Escape Dn.
Import ListNotations.

(* ldap_escape(v) embedded as an assertion value: the filter's structure is unchanged and its value is byte-for-byte v *)
Theorem c09_filter_inert_eq : forall a v, AttrDesc a ->
  parse ("("%byte :: (a ++ "="%byte :: esc_all v) ++ [")"%byte]) = Some (ber_item (IEq a v)).
Proof. exact Escape.c09_filter_inert_eq. Qed.
Theorem c09_filter_inert_ge : forall a v, AttrDesc a ->
  parse ("("%byte :: (a ++ ">"%byte :: "="%byte :: esc_all v) ++ [")"%byte]) = Some (ber_item (IGe a v)).
Proof. exact Escape.c09_filter_inert_ge. Qed.
Theorem c09_filter_inert_le : forall a v, AttrDesc a ->
  parse ("("%byte :: (a ++ "<"%byte :: "="%byte :: esc_all v) ++ [")"%byte]) = Some (ber_item (ILe a v)).
Proof. exact Escape.c09_filter_inert_le. Qed.
Theorem c09_filter_inert_approx : forall a v, AttrDesc a ->
  parse ("("%byte :: (a ++ "~"%byte :: "="%byte :: esc_all v) ++ [")"%byte]) = Some (ber_item (IApprox a v)).
Proof. exact Escape.c09_filter_inert_approx. Qed.
Theorem c09_filter_inert_ext : forall a dn v, AttrDesc a ->
  parse ("("%byte :: (a ++ dnstr dn ++ [] ++ ":"%byte :: "="%byte :: esc_all v) ++ [")"%byte]) = Some (ber_item (IExt None (Some a) dn v)).
Proof. exact Escape.c09_filter_inert_ext. Qed.
Theorem c09_filter_inert_sub : forall a x y z, AttrDesc a -> x <> [] -> y <> [] -> z <> [] ->
  parse ("("%byte :: (a ++ "="%byte :: esc_all x ++ starred ([esc_all y] ++ [esc_all z])) ++ [")"%byte])
  = Some (ber_item (ISub a (Some x) [y] (Some z))).
Proof. exact Escape.c09_filter_inert_sub. Qed.

(* ldap_unescape (ldap_escape v) = v, for every (UTF-8) string *)
Theorem c09_unescape_escape : forall v, Utf8.valid v = true -> ldap_unescape (esc_all v) = Some v.
Proof. exact Escape.c09_unescape_escape_str. Qed.

(* dn_escape(v) embedded as an attribute value in a DN: an RFC 4514 value reader returns v and stops exactly where the value ends
   (end of string, ',' or '+'), so the RDN structure around it is unchanged *)
Theorem c09_dn_inert : forall v rest, val_end rest -> read_value (dn_escape v ++ rest) = Some (v, rest).
Proof. exact Dn.c09_dn_inert. Qed.

(* strings that need no escaping are returned unchanged (borrowed) *)
Theorem c09_plain_unchanged : forall v, existsb needs_escape v = false -> ldap_escape v = (true, v).
Proof. exact Escape.c09_plain_unchanged. Qed.
Theorem c09_dn_plain_unchanged : forall v, dn_plain true v = true -> dn_escape v = v.
Proof. exact Dn.c09_dn_plain_unchanged. Qed.

Print Assumptions c09_filter_inert_eq.
Print Assumptions c09_filter_inert_ge.
Print Assumptions c09_filter_inert_le.
Print Assumptions c09_filter_inert_approx.
Print Assumptions c09_filter_inert_ext.
Print Assumptions c09_filter_inert_sub.
Print Assumptions c09_unescape_escape.
Print Assumptions c09_dn_inert.
Print Assumptions c09_plain_unchanged.
Print Assumptions c09_dn_plain_unchanged.
