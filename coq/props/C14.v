(* C14 - the synchronous API is observationally identical to the asynchronous one. Pinned statements only. THIN MODEL: [sync_table] / [modifier_table] (L3G.SyncTable) are regenerated from src/sync.rs by tools/translate_sync.py on every run - for each pub fn of LdapConn / EntryStream the inner method it blocks on and the arguments it passes; the theorems say the table is diagonal (same method, same arguments in order, every operation of the surface present, modifiers assign the same fields) and that, for a diagonal table, every sequence of calls through the facade is the same sequence of async calls. block_on and the private runtime are not modelled; the differential lane (sync vs async over socket pairs) carries the behavioural weight. *)
From RecordUpdate Require Import RecordUpdate.
From Coq Require Import List ZArith NArith Lia Bool Arith.
From Coq.Strings Require Import Byte.
From L3G Require Import SyncTable.
From L3 Require Import Sync.
Import ListNotations.

Theorem c14_table_diagonal : forallb row_ok sync_table = true /\ covers = true /\ modifier_table = async_modifiers.
Proof. exact Sync.c14_table_diagonal. Qed.

Theorem c14_equivalence : forall (St Arg Res : Type) (async_step : St -> String.string -> list Arg -> St * Res) (env : String.string -> Arg) (s : St) (m : String.string), sync_step St Arg Res async_step env s m = async_direct St Arg Res async_step env s m.
Proof. exact Sync.c14_equivalence. Qed.

Theorem c14_sequences : forall (St Arg Res : Type) (async_step : St -> String.string -> list Arg -> St * Res) (env : String.string -> Arg) (ms : list String.string) (s : St), run_sync St Arg Res async_step env s ms = run_async St Arg Res async_step env s ms.
Proof. exact Sync.c14_sequences. Qed.

Print Assumptions c14_table_diagonal.
Print Assumptions c14_equivalence.
Print Assumptions c14_sequences.
