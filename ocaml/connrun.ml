(* Script interpreter over the extracted connection model (Conn.step).  One script = one case line:
     conn <mode> <step> <step> ...        mode: r = repaired model
   Steps (each followed by a settle):
     S:<kind>:<tmo>      start an operation on a clone of the handle; kind = single | sd | sa | ab<target> | unbind ; tmo = - | <ms>
     P:<kind>:<tmo>      the same, but the caller is held between taking the message id and queueing the request (Alloc); E:<op> releases it (Enqueue)
     R:<mid>:<k>:<tok>   the server sends one complete response (k = e entry, r reference, i intermediate, d done, o other op, x single-op result)
     B:<mid>:<k>:<tok>   the server sends only a proper prefix of that response (nothing may be delivered)
     A:<ms>              the clock advances
     N:<op> / F:<op>     next() / finish() on stream <op> (queued per stream, FIFO)
     C:<op>              next() polled once and dropped if still pending (cancellation)
     U:<op>:single       an operation issued through the handle of stream <op> (SearchStream::ldap_handle()), if that stream is started and idle
     M:<pct>:<mid>.<k>.<tok>,...   several complete responses in one write (or cut in two at pct percent)
     X:raw:<hex>         the server sends these bytes; the codec model (FrameFixed.decode_inner') says what they are
     X:eof | X:garbage | X:rderr | X:wrerr     connection faults
     H                   the caller drops its own handle
   Output: after every step  "|" + observation. *)
open Model
open Conv
module String = Stdlib.String
module List = Stdlib.List
module Printf = Stdlib.Printf
module Hashtbl = Stdlib.Hashtbl
type string = Stdlib.String.t

let kind_of_string s =
  if s = "single" then KSingle else if s = "sd" then KSearch false else if s = "sa" then KSearch true else if s = "unbind" then KUnbind
  else if String.length s > 2 && String.sub s 0 2 = "ab" then KAbandon (z_of_decimal (String.sub s 2 (String.length s - 2))) else failwith ("kind " ^ s)
let rkind_of_string = function "e" | "j" -> REntry | "r" -> RRef | "i" -> RInter | "d" -> RDone | "o" -> ROther | "x" -> ROther | s -> failwith ("rkind " ^ s)
let cerr_str = function EResultRecv -> "resultrecv" | ETimeout -> "timeout" | EOpSend -> "opsend" | EEndOfStream -> "eos"
let is_search_kind = function KSearch _ -> true | _ -> false

type info = { mutable cmds : char list; mutable lastres : string }

let run_script (toks : string list) : string =
  let st = ref (init repaired) in
  let infos : (int, info) Hashtbl.t = Hashtbl.create 8 in
  let info o = match Hashtbl.find_opt infos o with Some i -> i | None -> let i = { cmds = []; lastres = "-" } in Hashtbl.add infos o i; i in
  let main_dropped = ref false in
  (* operations issued through a stream's own handle (U): new op index -> stream index; the stream's task awaits such an operation, so the
     stream's queued commands wait behind it *)
  let via : (int * int) list ref = ref [] in
  let wr_armed = ref false in
  let partial = ref false in
  let apply e = st := step !st e in
  let running () = (!st).drv = Running in
  let nops () = List.length (!st).ops in
  let getop o = List.nth (!st).ops o in
  let settle () =
    let changed = ref true in let rounds = ref 0 in
    while !changed && !rounds < 60 do
      incr rounds;
      let before = !st in
      let cmd_before = Hashtbl.fold (fun _ i acc -> acc + List.length i.cmds) infos 0 in
      (* driver: requests, scrubs, responses *)
      let guard = ref 0 in
      while running () && ((!st).opq <> [] || (!st).scrubq <> [] || (!st).win <> []) && !guard < 1000 do
        incr guard;
        if (!st).opq <> [] then (if !wr_armed then apply (DrvEnd EndedErr) else apply DrvOp);
        if running () && (!st).scrubq <> [] then apply DrvScrub;
        if running () && (!st).win <> [] then apply DrvResp
      done;
      (* clients waiting on their one-shot *)
      for o = 0 to nops () - 1 do if (getop o).o_status = CWait then apply (CliPoll (nat_of_int o)) done;
      (* stream commands, FIFO per stream *)
      for o = 0 to nops () - 1 do
        let i = info o in
        let continue = ref (not (List.exists (fun (v, p) -> p = o && (getop v).o_status = CWait) !via)) in
        while !continue && i.cmds <> [] do
          let c = getop o in
          (match c.o_status with
           | CWait | CAlloc -> continue := false               (* the stream does not exist yet *)
           | SStartErr _ | SPanicked | COk0 _ | CErr _ | SClosed -> i.cmds <- []; continue := false   (* no stream (any more): the runner's stream task has ended *)
           | SActive | SDone | SError ->
             (match List.hd i.cmds with
              | 'n' ->
                  apply (StreamNext (nat_of_int o));
                  let c' = getop o in
                  if c'.o_call <> None then continue := false     (* the call is pending *)
                  else begin
                    i.cmds <- List.tl i.cmds;
                    i.lastres <-
                      (if List.length c'.o_got > List.length c.o_got then Printf.sprintf "item:%d" (int_of_nat (List.nth c'.o_got (List.length c'.o_got - 1)).r_tok)
                       else if c'.o_status = SPanicked then "panic"
                       else if c'.o_status = SError && c.o_status <> SError then (if c.o_chan then "err:timeout" else "err:eos")
                       else "none")
                  end
              | 'c' ->
                  (* next() polled once and dropped if it does not complete at once. Behind EntriesOnly one poll runs the adapter's loop over
                     everything that has already arrived: references and intermediate messages are taken (and stay taken), an entry
                     completes the call; otherwise the call is pending and is given up: DropCall - no call is in progress any more *)
                  let rec poll guard =
                    let before = getop o in
                    apply (StreamNext (nat_of_int o));
                    let after = getop o in
                    if after.o_call <> None && int_of_nat after.o_taken > int_of_nat before.o_taken && guard > 0 then poll (guard - 1) in
                  poll 100000;
                  let c' = getop o in
                  i.cmds <- List.tl i.cmds;
                  if c'.o_call <> None then apply (DropCall (nat_of_int o))
                  else
                    i.lastres <-
                      (if List.length c'.o_got > List.length c.o_got then Printf.sprintf "item:%d" (int_of_nat (List.nth c'.o_got (List.length c'.o_got - 1)).r_tok)
                       else if c'.o_status = SPanicked then "panic"
                       else if c'.o_status = SError && c.o_status <> SError then (if c.o_chan then "err:timeout" else "err:eos")
                       else "none")
              | _ ->
                  apply (StreamFinish (nat_of_int o));
                  i.cmds <- List.tl i.cmds;
                  i.lastres <- (match c.o_status with
                                | SDone -> (match c.o_res with Some r -> Printf.sprintf "res:t%d" (int_of_nat r.r_tok) | None -> "res:88")
                                | SClosed -> "res:80" | _ -> "res:88"))
          )
        done
      done;
      (* last handle gone: the request channel closes *)
      if running () && !main_dropped && List.for_all (fun c -> op_finished c) (!st).ops then apply (DrvEnd EndedOk);
      let cmd_after = Hashtbl.fold (fun _ i acc -> acc + List.length i.cmds) infos 0 in
      changed := (!st != before) || cmd_after <> cmd_before      (* physical: every step that changes anything allocates a new state; a deep comparison of states holding thousands of items is what made floods slow *)
    done in
  let observe () =
    let s = !st in
    let opstr o c =
      let status = match c.o_status with
        | CAlloc -> "alloc" | CWait -> "pending"
        (* what the driver hands to a single-result operation is parsed by its caller (op_call: LdapResultExt::try_from_tag): a search entry
           or reference - or, before repair F29, an intermediate response - is no LDAPResult: Err(Io "malformed result") *)
        | COk0 (Some r) when (match r.r_kind with REntry | RRef | RInter -> true | _ -> false) -> "err:io"
        | COk0 (Some r) -> Printf.sprintf "ok:%d" (int_of_nat r.r_tok) | COk0 None -> "ok:null" | CErr e -> "err:" ^ cerr_str e
        | SActive -> "active" | SDone -> "done" | SClosed -> "closed" | SError -> "error" | SPanicked -> "panicked" | SStartErr e -> "starterr:" ^ cerr_str e in
      Printf.sprintf "%d:%s:[%s]:%s:%s" o status (String.concat "," (List.map (fun r -> string_of_int (int_of_nat r.r_tok)) c.o_got))
        (if c.o_call <> None then "call" else "idle") (info o).lastres in
    let zs l = String.concat "," (List.map decimal_of_z (List.sort (fun a b -> compare (int_of_z a) (int_of_z b)) l)) in
    let kind_tag = function KSingle -> 10 | KSearch _ -> 3 | KAbandon _ -> 16 | KUnbind -> 2 in
    Printf.sprintf "ops=[%s] wire=[%s] tab=%s/[%s] rmap=[%s] smap=[%s] drv=%s"
      (String.concat " " (List.mapi opstr s.ops))
      (String.concat "," (List.map (fun (m, k) -> Printf.sprintf "%s/%d" (decimal_of_z m) (kind_tag k)) s.wout))
      (decimal_of_z s.last0) (zs s.inuse) (zs (List.map fst s.rmap)) (zs (List.map fst s.smap))
      (match s.drv with Running -> "running" | EndedOk -> "ok" | EndedErr -> "err" | EndedPanic -> "panic") in
  let out = Buffer.create 256 in
  List.iter (fun tok ->
    (match String.split_on_char ':' tok with
     | ["S"; _; _] | ["P"; _; _] when !main_dropped -> ()      (* no handle left to start an operation from *)
     | ["P"; k; tmo] ->
         (* the caller's task takes its message id and is held before it hands the request to the driver (a thread preempted there) *)
         apply (Alloc (kind_of_string k, (if tmo = "-" then None else if tmo = "max" then Some (z_of_decimal "18446744073709551615000") else Some (z_of_decimal tmo))))
     | ["E"; o] ->
         (* ... and goes on: the request is queued, the reply channel polled once *)
         let o = int_of_string o in
         if o < nops () && (getop o).o_status = CAlloc then begin apply (Enqueue (nat_of_int o)); apply (CliPoll (nat_of_int o)) end
     | ["G"; ks] when not !main_dropped ->      (* several operations started back to back: each allocates, queues and polls once; one settle *)
         List.iter (fun k -> let o = nops () in apply (Start (kind_of_string k, None)); if nops () > o then apply (CliPoll (nat_of_int o))) (String.split_on_char ',' ks)
     | ["G"; _] -> ()
     | ["S"; k; tmo] ->
         (* the caller's task runs to its first await: it allocates the id, queues the request and polls its reply channel once *)
         let o = nops () in
         apply (Start (kind_of_string k, (if tmo = "-" then None else if tmo = "max" then Some (z_of_decimal "18446744073709551615000") else Some (z_of_decimal tmo))));
         if nops () > o then apply (CliPoll (nat_of_int o))
     | ["R"; mid; k; t] -> if not !partial then apply (ServerSend { r_mid = z_of_decimal mid; r_kind = rkind_of_string k; r_tok = nat_of_int (int_of_string t) })
     | ["B"; _; _; _] -> partial := true
     | ["A"; ms] -> apply (Advance (z_of_decimal ms))
     (* a command for an operation that does not exist (yet) goes nowhere *)
     | ["N"; o] | ["F"; o] | ["C"; o] when int_of_string o >= nops () -> ()
     | ["N"; o] -> let i = info (int_of_string o) in i.cmds <- i.cmds @ ['n']
     | ["F"; o] -> let i = info (int_of_string o) in i.cmds <- i.cmds @ ['f']
     | ["L"; mid; count; first] ->      (* a flood of entries for one search, tokens 3t+1 *)
         if not !partial then for t = int_of_string first to int_of_string first + int_of_string count - 1 do
           apply (ServerSend { r_mid = z_of_decimal mid; r_kind = REntry; r_tok = nat_of_int (3 * t + 1) }) done
     | ["C"; o] -> let i = info (int_of_string o) in i.cmds <- i.cmds @ ['c']
     | ["U"; o; _] ->
         (* only on a started stream that is idle: no call in progress, nothing queued, no earlier such operation still pending *)
         let o = int_of_string o in
         if o < nops () && (match (getop o).o_status with SActive | SDone | SError -> true | _ -> false) && is_search_kind (getop o).o_kind
            && (getop o).o_call = None && (info o).cmds = [] && not (List.exists (fun (v, p) -> p = o && (getop v).o_status = CWait) !via) then begin
           let n = nops () in
           apply (Start (KSingle, None));
           if nops () > n then begin apply (ViaHandle (nat_of_int o)); via := (n, o) :: !via; apply (CliPoll (nat_of_int n)) end
         end
     | ["M"; _; parts] ->
         if not !partial then List.iter (fun part -> match String.split_on_char '.' part with
           | [mid; k; t] -> apply (ServerSend { r_mid = z_of_decimal mid; r_kind = rkind_of_string k; r_tok = nat_of_int (int_of_string t) })
           | _ -> failwith "burst") (String.split_on_char ',' parts)
     | ["X"; "raw"; h] ->
         (* the codec model decides what the bytes are: an error ends the driver, an incomplete frame wedges the stream like B *)
         if running () && not !partial then begin
           let (evs, left) = receive_buf max_depth [] (bytes_of_hex h) in
           List.iter (fun e -> if running () then apply e) evs;
           (match left with Some (_ :: _) -> partial := true | _ -> ())
         end
     | ["X"; "eof"] -> if running () then apply (DrvEnd (if !partial then EndedErr else EndedOk))
     | ["X"; "garbage"] | ["X"; "rderr"] -> if running () then apply (DrvEnd EndedErr)
     | ["X"; "wrerr"] | ["X"; "wrerr"; _] -> wr_armed := true      (* with a byte budget: the next request is cut short - for the model the same: it is not sent *)
     | ["H"] -> main_dropped := true
     | ["T"; _; _] when !main_dropped -> ()      (* the hook is reached through the caller's own handle *)
     | ["T"; l; ids] ->      (* hook verif_set_id_table: positions the allocator (simulates a counter that has come round) *)
         st := { !st with last0 = z_of_decimal l; inuse = (if ids = "~" then [] else if ids = "=" then (!st).inuse else List.map z_of_decimal (String.split_on_char ',' ids)) }
     | _ -> failwith ("step " ^ tok));
    settle ();
    Buffer.add_string out "| "; Buffer.add_string out (observe ()); Buffer.add_char out ' ') toks;
  Buffer.contents out
