(* glue between text lines and the extracted model's data types *)
open Model
module String = Stdlib.String
module List = Stdlib.List
module Char = Stdlib.Char
module Array = Stdlib.Array
module Buffer = Stdlib.Buffer
module Printf = Stdlib.Printf
type string = Stdlib.String.t
let compare = Stdlib.compare

let rec pos_of_int i = if i <= 1 then XH else if i land 1 = 1 then XI (pos_of_int (i lsr 1)) else XO (pos_of_int (i lsr 1))
let n_of_int i = if i <= 0 then N0 else Npos (pos_of_int i)
let rec int_of_pos = function XH -> 1 | XO p -> 2 * int_of_pos p | XI p -> 2 * int_of_pos p + 1
let int_of_n = function N0 -> 0 | Npos p -> int_of_pos p
let rec nat_of_int i = if i <= 0 then O else S (nat_of_int (i - 1))
let rec int_of_nat = function O -> 0 | S n -> 1 + int_of_nat n
let z_of_int i = if i = 0 then Z0 else if i > 0 then Zpos (pos_of_int i) else Zneg (pos_of_int (- i))
let int_of_z = function Z0 -> 0 | Zpos p -> int_of_pos p | Zneg p -> - (int_of_pos p)

(* arbitrary-size positives from/to decimal strings (i64 boundaries, 2^64 lengths) *)
let rec pos_of_bits = function   (* little-endian bit list, last is the leading 1 *)
  | [] | [_] -> XH
  | b :: r -> if b then XI (pos_of_bits r) else XO (pos_of_bits r)
let bits_of_decimal (s : string) : bool list =
  (* repeated division by 2 on a decimal digit array *)
  let d = Array.init (String.length s) (fun i -> Char.code s.[i] - 48) in
  let is_zero () = Array.for_all (fun x -> x = 0) d in
  let bits = ref [] in
  while not (is_zero ()) do
    let carry = ref 0 in
    for i = 0 to Array.length d - 1 do
      let v = !carry * 10 + d.(i) in d.(i) <- v / 2; carry := v mod 2 done;
    bits := (!carry = 1) :: !bits
  done;
  List.rev !bits
let n_of_decimal s = match bits_of_decimal s with [] -> N0 | bs -> Npos (pos_of_bits bs)
let z_of_decimal s =
  if String.length s > 0 && s.[0] = '-' then
    (match n_of_decimal (String.sub s 1 (String.length s - 1)) with N0 -> Z0 | Npos p -> Zneg p)
  else (match n_of_decimal s with N0 -> Z0 | Npos p -> Zpos p)
let decimal_of_pos (p : positive) : string =
  (* digits little-endian; double-and-add from the most significant bit *)
  let rec bits p acc = match p with XH -> true :: acc | XO q -> bits q (false :: acc) | XI q -> bits q (true :: acc) in
  let bl = bits p [] in   (* most significant first *)
  let d = ref [0] in
  List.iter (fun b ->
    let carry = ref (if b then 1 else 0) in
    d := List.map (fun x -> let v = 2 * x + !carry in carry := v / 10; v mod 10) !d;
    if !carry > 0 then d := !d @ [!carry]) bl;
  String.concat "" (List.rev_map string_of_int !d)
let decimal_of_n = function N0 -> "0" | Npos p -> decimal_of_pos p
let decimal_of_z = function Z0 -> "0" | Zpos p -> decimal_of_pos p | Zneg p -> "-" ^ decimal_of_pos p

let byte_tab : byte array = Array.init 256 (fun i -> match of_N (n_of_int i) with Some b -> b | None -> assert false)
let byte_of_int i = byte_tab.(i land 255)
let int_of_byte (b : byte) = int_of_n (to_N b)

let hexval c = match c with '0'..'9' -> Char.code c - 48 | 'a'..'f' -> Char.code c - 87 | 'A'..'F' -> Char.code c - 55 | _ -> failwith "hex"
let bytes_of_hex (s : string) : byte list =
  if s = "-" then [] else begin
    let n = String.length s / 2 in
    let rec go i acc = if i < 0 then acc else go (i - 1) (byte_of_int (hexval s.[2*i] * 16 + hexval s.[2*i+1]) :: acc) in
    go (n - 1) [] end
let hex_of_bytes (l : byte list) : string =
  if l = [] then "-" else begin
    let b = Buffer.create 64 in
    List.iter (fun x -> Buffer.add_string b (Printf.sprintf "%02x" (int_of_byte x))) l;
    Buffer.contents b end
let string_of_bytes (l : byte list) : string =
  let b = Buffer.create 64 in List.iter (fun x -> Buffer.add_char b (Char.chr (int_of_byte x))) l; Buffer.contents b
let bytes_of_string (s : string) : byte list = List.init (String.length s) (fun i -> byte_of_int (Char.code s.[i]))

let class_char = function Universal -> 'u' | Application -> 'a' | Context -> 'c' | Private -> 'p'
let class_of_char = function 'u' -> Universal | 'a' -> Application | 'c' -> Context | 'p' -> Private | _ -> failwith "class"

(* tree text:  p<class><id>:<hex>   c<class><id>(T,T,...) *)
let rec show_tree (t : tree) : string =
  match t with
  | P (c, id, v) -> Printf.sprintf "p%c%s:%s" (class_char c) (decimal_of_n id) (hex_of_bytes v)
  | C (c, id, ts) -> Printf.sprintf "c%c%s(%s)" (class_char c) (decimal_of_n id) (String.concat "," (List.map show_tree ts))
let parse_tree (s : string) : tree =
  let pos = ref 0 in
  let peek () = if !pos < String.length s then s.[!pos] else '\000' in
  let next () = let c = peek () in incr pos; c in
  let number () = let st = !pos in while (match peek () with '0'..'9' -> true | _ -> false) do incr pos done; String.sub s st (!pos - st) in
  let rec tree () =
    let k = next () in let c = class_of_char (next ()) in let id = n_of_decimal (number ()) in
    match k with
    | 'p' -> ignore (next ()); (* ':' *)
        let st = !pos in while (match peek () with '0'..'9' | 'a'..'f' | '-' -> true | _ -> false) do incr pos done;
        P (c, id, bytes_of_hex (String.sub s st (!pos - st)))
    | 'c' -> ignore (next ()); (* '(' *)
        let items = ref [] in
        if peek () = ')' then ignore (next ()) else begin
          let continue = ref true in
          while !continue do
            items := tree () :: !items;
            (match next () with ',' -> () | ')' -> continue := false | _ -> failwith "tree syntax")
          done end;
        C (c, id, List.rev !items)
    | _ -> failwith "tree kind" in
  tree ()

let split_ws (s : string) : string list = List.filter (fun x -> x <> "") (String.split_on_char ' ' s)
let opt_hex = function None -> "none" | Some v -> hex_of_bytes v
let list_str f l = "[" ^ String.concat "," (List.map f l) ^ "]"
