(* correspondence runner: one case per line on stdin  "<id> <lane> <args>", one outcome per line  "<id> <outcome>" *)
open Model
module String = Stdlib.String
module List = Stdlib.List
module Char = Stdlib.Char
module Array = Stdlib.Array
module Buffer = Stdlib.Buffer
module Printf = Stdlib.Printf
type string = Stdlib.String.t
let compare = Stdlib.compare
open Conv

let max_depth = nat_of_int 100          (* MAX_DEPTH of the repaired lber parser *)

let show_pres show = function
  | POk (t, rest) -> Printf.sprintf "ok %s rest=%s" (show t) (hex_of_bytes rest)
  | PInc -> "incomplete" | PErr -> "error" | PFuel -> "FUEL"

let lane_parse args =
  let bs = bytes_of_hex (List.hd args) in
  show_pres show_tree (parse_tag' (lim true max_depth) O (nat_of_int (List.length bs + 1)) bs)

let lane_enc args = hex_of_bytes (encode (parse_tree (List.hd args)))
let lane_lenhdr args = let n = int_of_string (List.hd args) in
  let hdr = byte_of_int 4 :: write_length (n_of_int n) in Printf.sprintf "%s total=%d" (hex_of_bytes hdr) (List.length hdr + n)
let lane_int args = hex_of_bytes (int_octets (z_of_decimal (List.hd args)))
let lane_bool args = hex_of_bytes (bool_octets (List.hd args = "1"))

(* ---- frames ---- *)
let show_ctrl (c : ctrl) = Printf.sprintf "%s/%d/%s" (hex_of_bytes c.c_oid) (if c.c_crit then 1 else 0) (opt_hex c.c_val)
let show_view ((mid, op), cs) = Printf.sprintf "f(%s,%s,%s)" (decimal_of_n mid) (show_tree op) (list_str show_ctrl cs)
let show_event = function Deliver v -> show_view v | EvError -> "error" | EvPanic -> "panic"
let rec split_chunks (bs : byte list) (sizes : int list) : byte list list =
  match sizes with
  | [] -> if bs = [] then [] else [bs]
  | n :: r ->
      let rec take k l acc = if k = 0 then (List.rev acc, l) else match l with [] -> (List.rev acc, []) | x :: t -> take (k - 1) t (x :: acc) in
      let (c, rest) = take n bs [] in c :: split_chunks rest r
let lane_frame args =
  let bs = bytes_of_hex (List.nth args 0) in
  let sizes = match args with [_] | [_; "-"] -> [] | _ :: s :: _ -> List.map int_of_string (String.split_on_char ',' s) | _ -> [] in
  let chunks = split_chunks bs sizes in
  let (evs, left) = framed_run_buf (decode_inner' (repaired_d max_depth)) [] chunks in
  String.concat " " (List.map show_event evs @ [match left with Some b -> Printf.sprintf "need:%d" (List.length b) | None -> "end"])

(* ---- text lanes ---- *)
let lane_filter args = match parse (bytes_of_hex (List.hd args)) with Some t -> "ok " ^ show_tree t | None -> "error"
let lane_esc args =
  match args with
  | ["ldap"; h] -> let (borrowed, out) = ldap_escape (bytes_of_hex h) in Printf.sprintf "%s %s" (if borrowed then "borrowed" else "owned") (hex_of_bytes out)
  | ["dn"; h] -> let v = bytes_of_hex h in let out = dn_escape v in Printf.sprintf "%s %s" (if out = v then "borrowed" else "owned") (hex_of_bytes out)
  | ["unesc"; h] -> (match ldap_unescape (bytes_of_hex h) with Some v -> "ok " ^ hex_of_bytes v | None -> "error")
  | _ -> "BAD-ARGS"
let lane_utf8 args = if valid (bytes_of_hex (List.hd args)) then "valid" else "invalid"
let show_amap (m : (byte list * byte list list) list) =
  let items = List.map (fun (k, vs) -> (hex_of_bytes k, list_str hex_of_bytes vs)) m in
  let items = List.sort compare items in
  "{" ^ String.concat ";" (List.map (fun (k, v) -> k ^ "=" ^ v) items) ^ "}"
let lane_entry args =
  match construct valid (parse_tree (List.hd args)) with
  | Panic -> "panic"
  | Ok e -> Printf.sprintf "dn=%s text=%s bin=%s" (hex_of_bytes e.e_dn) (show_amap e.e_attrs) (show_amap e.e_bin)
let lane_result args =
  match result_of_tree (parse_tree (List.hd args)) with
  | Panic -> "panic"
  | Ok r -> Printf.sprintf "rc=%s matched=%s text=%s refs=%s" (decimal_of_n r.rc) (hex_of_bytes r.matched) (hex_of_bytes r.text) (list_str hex_of_bytes r.refs)
let lane_helpers args =
  let c = n_of_decimal (List.hd args) in
  let b x = if x then "1" else "0" in
  Printf.sprintf "success=%s non_error=%s equal=%s cmp_non_error=%s" (b (success c)) (b (non_error c))
    (match cmp_equal c with Some true -> "true" | Some false -> "false" | None -> "err") (b (cmp_non_error c))
let ext_str = function
  | Bindname v -> "bindname=" ^ hex_of_bytes v | XBindpw v -> "x-bindpw=" ^ hex_of_bytes v
  | Credentials v -> "credentials=" ^ hex_of_bytes v | SaslMech v -> "saslmech=" ^ hex_of_bytes v | StartTLS -> "starttls"
let lane_url args =
  (* url <urlhex> <pathhex> <queryhex|none> [tags..] *)
  let path = bytes_of_hex (List.nth args 1) in
  let query = match List.nth args 2 with "none" -> None | h -> Some (bytes_of_hex h) in
  match get_url_params path query with
  | UErr EUtf8 -> "err utf8" | UErr EScope -> "err scope" | UErr ECritical -> "err critical"
  | UOk p -> Printf.sprintf "base=%s attrs=%s scope=%s filter=%s exts={%s}" (hex_of_bytes p.p_base) (list_str hex_of_bytes p.p_attrs)
      (match p.p_scope with Base -> "base" | OneLevel -> "one" | Subtree -> "sub") (hex_of_bytes p.p_filter)
      (String.concat ";" (List.sort compare (List.map ext_str p.p_exts)))

(* ---- requests (C02) ---- *)
let rec canon (t : tree) : tree =
  match t with
  | P _ -> t
  | C (c, id, ts) ->
      let ts = List.map canon ts in
      let ts = if c = Universal && int_of_n id = 17 then List.sort (fun a b -> compare (show_tree a) (show_tree b)) ts else ts in
      C (c, id, ts)
let split_on c s = if s = "~" then [] else String.split_on_char c s
let hexlist s = List.map bytes_of_hex (split_on ',' s)
let parse_ctrl s = match String.split_on_char '.' s with
  | [o; c; v] -> { c_oid = bytes_of_hex o; c_crit = (c = "1"); c_val = (if v = "none" then None else Some (bytes_of_hex v)) }
  | _ -> failwith "ctrl"
let parse_mods s = match String.split_on_char ':' s with
  | [("m" | "M" | "k"); cs; tmo; opts] ->      (* "M": the scripted server withholds its reply, the operation times out - the modifiers are spent all the same *)
      { m_ctrls = (if cs = "none" then None else Some (List.map parse_ctrl (split_on ';' cs)));
        m_timeout = (if tmo = "none" then None else Some (z_of_decimal tmo));
        m_opts = (if opts = "none" then None else match String.split_on_char '.' opts with
                  | [d; ty; tl; sl] -> Some { deref = z_of_decimal d; typesonly = (ty = "1"); timelimit = z_of_decimal tl; sizelimit = z_of_decimal sl }
                  | _ -> failwith "opts") }
  | _ -> failwith "mods"
let parse_av s = match String.split_on_char '=' s with [a; vs] -> (bytes_of_hex a, hexlist vs) | _ -> failwith "av"
let parse_op s = match String.split_on_char '/' s with
  | ["bind"; dn; pw] -> OBind (bytes_of_hex dn, bytes_of_hex pw)
  | ["sasl"] -> OSaslExternal
  | ["search"; b; sc; f; at] -> OSearch (bytes_of_hex b, z_of_decimal sc, bytes_of_hex f, hexlist at)
  | ["add"; dn; avs] -> OAdd (bytes_of_hex dn, List.map parse_av (split_on ';' avs))
  | ["compare"; dn; a; v] -> OCompare (bytes_of_hex dn, bytes_of_hex a, bytes_of_hex v)
  | ["delete"; dn] -> ODelete (bytes_of_hex dn)
  | ["modify"; dn; ms] -> OModify (bytes_of_hex dn, List.map (fun m -> match String.split_on_char '@' m with
        | [k; av] -> let (a, vs) = parse_av av in ((z_of_decimal k, a), vs) | _ -> failwith "mod") (split_on ';' ms))
  | ["moddn"; dn; rdn; d; ns] -> OModDn (bytes_of_hex dn, bytes_of_hex rdn, d = "1", (if ns = "none" then None else Some (bytes_of_hex ns)))
  | ["ext"; n; v] -> OExtended (bytes_of_hex n, (if v = "none" then None else Some (bytes_of_hex v)))
  | ["abandon"; id] -> OAbandon (z_of_decimal id)
  | ["unbind"] -> OUnbind
  | _ -> failwith ("op " ^ s)
let lane_req args =
  (* "m:.. op" = a call on the handle; "k:.. m:.. op" = modifiers left pending on the handle, the operation invoked on a clone (RequestSeq.cstep) *)
  let rec steps = function
    | kb :: m :: o :: r when String.length kb > 1 && kb.[0] = 'k' && kb.[1] = ':' -> OnClone (parse_mods kb, parse_mods m, parse_op o) :: steps r
    | m :: o :: r -> OnBase (parse_mods m, parse_op o) :: steps r
    | _ -> [] in
  let outs = run_csteps (handle_of no_mods, z_of_int 1) (steps args) in
  String.concat " | " (List.map (function Some t -> show_tree (canon t) | None -> "local-error") outs)

(* ---- controls and extended operations (C19) ---- *)
let optb s = if s = "none" then None else Some (bytes_of_hex s)
let show_rawctl (c : rawctl) = Printf.sprintf "%s/%d/%s" (hex_of_bytes c.r_oid) (if c.r_crit then 1 else 0) (match c.r_val with Some t -> hex_of_bytes (encode t) | None -> "none")
let show_rawctl_b (c : rawctl_b) = Printf.sprintf "%s/%d/%s" (hex_of_bytes c.b_oid) (if c.b_crit then 1 else 0) (opt_hex c.b_val)
let lane_ctl args =
  match String.split_on_char '/' (List.hd args) with
  | ["paged"; sz; ck; crit] -> let c = paged_results (z_of_decimal sz) (bytes_of_hex ck) in show_rawctl (if crit = "1" then make_critical c else c)
  | ["syncreq"; m; ck; hint] -> show_rawctl (sync_request (if m = "1" then RefreshOnly else RefreshAndPersist) (optb ck) (hint = "1"))
  | ["preread"; at] -> show_rawctl (pre_read (hexlist at))
  | ["postread"; at] -> show_rawctl (post_read (hexlist at))
  | ["assertion"; f] -> (match assertion_of (bytes_of_hex f) with Ok c -> show_rawctl c | Panic -> "panic")
  | ["matched"; f] -> (match matched_values_of (bytes_of_hex f) with Ok c -> show_rawctl c | Panic -> "panic")
  | ["proxy"; a] -> show_rawctl_b (proxy_auth (bytes_of_hex a))
  | ["txnspec"; a] -> show_rawctl_b (txn_spec (bytes_of_hex a))
  | ["managedsait"] -> show_rawctl_b manage_dsa_it
  | ["relax"] -> show_rawctl_b relax_rules
  | _ -> "BAD-ARGS"
let show_exop (e : exop) = Printf.sprintf "%s/%s" (hex_of_bytes e.x_name) (match e.x_val with Some t -> hex_of_bytes (encode t) | None -> "none")
let lane_exop args =
  match String.split_on_char '/' (List.hd args) with
  | ["whoami"] -> show_exop whoami | ["starttls"] -> show_exop starttls | ["starttxn"] -> show_exop start_txn
  | ["passmod"; u; o; n] -> show_exop (passmod (optb u) (optb o) (optb n))
  | ["endtxn"; id; c] -> show_exop (end_txn (bytes_of_hex id) (c = "1"))
  | _ -> "BAD-ARGS"
let lane_cresp args =
  match args with
  | ["paged"; v] -> (match parse_value parse_paged (bytes_of_hex v) with Ok (sz, ck) -> Printf.sprintf "size=%s cookie=%s" (decimal_of_z sz) (hex_of_bytes ck) | Panic -> "panic")
  | ["syncstate"; v] -> (match parse_value parse_sync_state (bytes_of_hex v) with
        | Ok ((st, uuid), ck) -> Printf.sprintf "state=%s uuid=%s cookie=%s" (match st with Present -> "present" | Add -> "add" | Modify -> "modify" | Delete -> "delete") (hex_of_bytes uuid) (opt_hex ck)
        | Panic -> "panic")
  | ["syncdone"; v] -> (match parse_value parse_sync_done (bytes_of_hex v) with Ok (ck, rd) -> Printf.sprintf "cookie=%s refresh_deletes=%b" (opt_hex ck) rd | Panic -> "panic")
  | ["syncinfo"; t] -> (match parse_syncinfo (parse_tree t) with
        | Ok (NewCookie c) -> "newcookie " ^ hex_of_bytes c
        | Ok (RefreshDelete (ck, d)) -> Printf.sprintf "refreshdelete cookie=%s done=%b" (opt_hex ck) d
        | Ok (RefreshPresent (ck, d)) -> Printf.sprintf "refreshpresent cookie=%s done=%b" (opt_hex ck) d
        | Ok (SyncIdSet (ck, d, uu)) -> Printf.sprintf "syncidset cookie=%s deletes=%b uuids=%s" (opt_hex ck) d (list_str (fun x -> x) (List.sort compare (List.sort_uniq compare (List.map hex_of_bytes uu))))
        | Panic -> "panic")
  | ["readentry"; v] -> (match parse_read_entry (bytes_of_hex v) with Ok e -> Printf.sprintf "text=%s bin=%s" (show_amap e.e_attrs) (show_amap e.e_bin) | Panic -> "panic")
  | ["whoami"; v] | ["starttxn"; v] | ["starttxn-raw"; v] -> (match parse_utf8_val (bytes_of_hex v) with Ok x -> "ok " ^ hex_of_bytes x | Panic -> "panic")
  | ["passmod"; v] | ["passmod-raw"; v] -> (match parse_passmod_resp (bytes_of_hex v) with Ok x -> "ok " ^ hex_of_bytes x | Panic -> "panic")
  | _ -> "BAD-ARGS"

(* ---- message id allocator (C05) ---- *)
let lane_msgid args =
  match args with
  | [last; ids; n] ->
      let inuse = ref (if ids = "~" then [] else List.map z_of_decimal (String.split_on_char ',' ids)) in
      let last = ref (z_of_decimal last) in
      let out = ref [] in
      (try for _ = 1 to int_of_string n do
         match next_msgid !last !inuse with
         | Found m -> out := decimal_of_z m :: !out; last := m; inuse := m :: !inuse
         | NoFree -> out := "nofree" :: !out; raise Exit
         | OutOfFuel -> out := "FUEL" :: !out; raise Exit
       done with Exit -> ());
      String.concat "," (List.rev !out)
  | _ -> "BAD-ARGS"

(* ---- search streams (C10) and the paging adapter (C16) ---- *)
let parse_sitem (t : string) : sitem =
  let rest = String.sub t 1 (String.length t - 1) in
  match t.[0] with
  | 'e' -> IEntry (nat_of_int (int_of_string rest))
  | 'i' -> IInter (nat_of_int (int_of_string rest))
  | 'r' -> IRef (List.map bytes_of_hex (String.split_on_char '+' rest))
  | 'd' -> (match String.split_on_char '.' rest with
            | [rc; refs; nc] -> IDone ({ rc0 = n_of_decimal rc; res_refs = (if refs = "~" then [] else List.map bytes_of_hex (String.split_on_char '+' refs)); res_ctrls = [] },
                                       List.init (int_of_string nc) (fun k -> nat_of_int k))
            | _ -> failwith "done item")
  | _ -> failwith "sitem"
let show_result (r : result) = Printf.sprintf "res(%s,[%s],%d)" (decimal_of_n r.rc0) (String.concat "," (List.map hex_of_bytes r.res_refs)) (List.length r.res_ctrls)
let show_sitem = function IEntry t -> Printf.sprintf "e%d" (int_of_nat t) | IInter t -> Printf.sprintf "i%d" (int_of_nat t)
  | IRef us -> "r" ^ String.concat "+" (List.map hex_of_bytes us) | IDone _ -> "DONE"
let lane_stream args =
  match args with
  | [mode; items; calls] ->
      let its = List.map parse_sitem (String.split_on_char ',' items) in
      if mode = "s" then begin
        let (es, r) = search its in
        Printf.sprintf "entries=[%s] %s" (String.concat "," (List.map show_sitem es)) (show_result r)
      end else begin
        let s0 = start its (mode = "a") true in
        let cs = List.init (String.length calls) (fun i -> match calls.[i] with 'n' -> CNext | 'f' -> CFinish | _ -> CState) in
        let outs = run model_step s0 cs in
        String.concat " " (List.map (function
          | ONext (NSome it) -> show_sitem it | ONext NNone -> "none" | ONext NErr -> "err" | ONext NPanic -> "panic" | ONext NPending -> "pending"
          | OFinish r -> show_result r
          | OState st -> (match st with Fresh -> "st:fresh" | Active -> "st:active" | Done -> "st:done" | Closed -> "st:closed" | SError0 -> "st:error")) outs)
      end
  | _ -> "BAD-ARGS"
let lane_paged args =
  let (args, stop) = (match args with [a; b; c; k] -> ([a; b; c], Some (int_of_string k)) | _ -> (args, None)) in
  match args with
  | [size; uc; pages] ->
      let chained = String.contains uc 'E' || String.contains uc 'R' in      (* R: [PagedResults, EntriesOnly] - observably the same composition *)
      let user = (if String.contains uc 'P' then [CPaged (n_of_int 5, [])] else []) @
                 List.init (int_of_string (String.concat "" (List.filter (fun x -> x <> "P" && x <> "E" && x <> "R") (List.map (String.make 1) (List.of_seq (String.to_seq (String.sub uc 1 (String.length uc - 1)))))))) (fun k -> COther (nat_of_int k)) in
      let parse_page (p : string) : page =
        let parts = String.split_on_char ',' p in
        (* items after "w" are withheld by the scripted server: the caller never gets that far *)
        let rec upto = function [] -> [] | "w" :: _ -> [] | x :: r -> x :: upto r in
        let items = List.filter (fun x -> x.[0] <> 'd') (upto parts) and d = List.find (fun x -> x.[0] = 'd') parts in
        let it x = let k = nat_of_int (int_of_string (String.sub x 1 (String.length x - 1))) in (match x.[0] with 'e' -> Entry k | 'r' -> Ref k | _ -> Inter k) in
        (match String.split_on_char '.' (String.sub d 1 (String.length d - 1)) with
         | rc :: ck :: no :: posl ->
             let others = List.init (int_of_string no) (fun k -> COther (nat_of_int (100 + k))) in
             let pos = min (match posl with [p] -> int_of_string p | _ -> 0) (int_of_string no) in
             let rec ins i l = if i = 0 then CPaged (n_of_int 0, bytes_of_hex ck) :: l else (match l with x :: r -> x :: ins (i - 1) r | [] -> [CPaged (n_of_int 0, bytes_of_hex ck)]) in
             let cs = if ck = "none" then others else ins pos others in
             { p_items = List.map it items; p_result = { rc1 = n_of_decimal rc; ctrls = cs } }
         | _ -> failwith "page result") in
      let pgs = List.map parse_page (String.split_on_char ';' pages) in
      let params = nat_of_int 7 in
      (match start0 params user (n_of_decimal size) pgs with
       | None -> "rejected"
       | Some s0 ->
           let total = List.fold_left (fun a p -> a + List.length p.p_items + 1) 2 pgs in
           (* behind EntriesOnly: the composed loop (Paged.eo_drain) hands on the entries and collects the reference tokens *)
           let (items, s', eo_refs) = (match stop, chained with
             | None, true -> let ((es, rs), s1) = eo_drain prepaired (nat_of_int total) s0 [] in (List.map (fun k -> Entry k) es, s1, Some rs)
             | None, false -> let (l, s1) = drain1 prepaired (nat_of_int total) s0 in (l, s1, None)
             | Some k, _ -> let (l, s1) = take_items prepaired (nat_of_int k) s0 in (l, s1, None)) in
           (* finish(): the result, and the id it scrubs; an id is still reserved afterwards only if the page in flight has not been
              answered in full (withheld) and is not the one scrubbed *)
           let withheld_pages = List.mapi (fun i p -> (i + 1, List.mem "w" (String.split_on_char ',' p))) (String.split_on_char ';' pages) in
           let cur = List.length s'.wire in
           let st_before = s'.st0 in
           let ((s', fres), scrub) = finish0 s' in
           let inflight = if List.mem (cur, true) withheld_pages then [cur] else [] in
           let left = List.filter (fun i -> match scrub with Some j -> int_of_nat j <> i | None -> true) inflight in
           let left_s = String.concat "," (List.map string_of_int left) in
           let show_it = function Entry k -> Printf.sprintf "e%d" (int_of_nat k) | Ref k -> Printf.sprintf "r%d" (int_of_nat k) | Inter k -> Printf.sprintf "i%d" (int_of_nat k) in
           let show_req (q : request) =
             let (sz, ck) = (match List.find_opt (function CPaged _ -> true | _ -> false) q.q_ctrls with Some (CPaged (sz, ck)) -> (decimal_of_n sz, hex_of_bytes ck) | _ -> ("none", "none")) in
             Printf.sprintf "%s/%s/%d/%d" sz ck (List.length (List.filter (function COther _ -> true | _ -> false) q.q_ctrls)) (if q.q_params = params then 1 else 0) in
           let fin = match Some fres with
             | Some r -> Printf.sprintf "rc=%s paged_in_final=%d others=%s" (decimal_of_n r.rc1) (if List.exists is_paged r.ctrls then 1 else 0)
                           (String.concat "+" (List.filter_map (function COther k -> Some (string_of_int (int_of_nat k - 100)) | _ -> None) r.ctrls))
             | None -> "nores" in
           Printf.sprintf "items=[%s] end=%s %s wire=[%s] left=%s//%s%s" (String.concat "," (List.map show_it items))
             (match st_before with Done0 -> "done" | Active0 -> "active" | SError1 -> "error" | Closed0 -> "closed") fin (String.concat ";" (List.map show_req s'.wire)) left_s left_s
             (match eo_refs with Some rs -> Printf.sprintf " refs=[%s]" (String.concat "," (List.map (fun k -> string_of_int (int_of_nat k)) rs)) | None -> ""))
  | _ -> "BAD-ARGS"

(* ---- connection set-up (C18) and TLS establishment (C17) ---- *)
let lane_setup args =
  match args with
  | [_; scheme; host; port; stls; std; tmo] ->
      if scheme = "-" then "err:url" else begin
        let st = { starttls0 = (stls = "1"); std_stream = (match std with "tcp" -> Some StTcp | "unix" -> Some StUnix | "invalid" -> Some StInvalid | _ -> None); has_timeout = (tmo <> "none") } in
        (* "noauth": the URL has no "//" after the scheme - no authority part, hence no host (F57) *)
        let auth = host <> "noauth" in
        let h = if host = "none" || host = "noauth" then None else Some (bytes_of_hex host) in
        let p = if port = "none" then None else Some (n_of_decimal port) in
        let mode = function Plain -> "plain" | StartTls -> "starttls" | Ldaps -> "ldaps" in
        match plan_of_auth repaired18 auth (bytes_of_string scheme) h p st with
        | PPanic -> "panic"
        | PErr0 EEmptyUnixPath -> "err:emptyunix" | PErr0 EPortInUnixPath -> "err:portunix" | PErr0 EMismatched -> "err:mismatched" | PErr0 EUnknownScheme -> "err:scheme" | PErr0 ENoAuthority -> "err:url" | PErr0 EStartTlsUnix -> "err:io no-contact"
        | PTcp (_, port, m, _) -> Printf.sprintf "tcp port=%s mode=%s" (decimal_of_n port) (mode m)
        | PPreTcp (m, _) -> "pretcp mode=" ^ mode m
        | PUnix path ->       (* the lane listens on two socket paths (one of them not UTF-8): any other path cannot be connected to *)
            if hex_of_bytes path = hex_of_bytes (bytes_of_string "/tmp/l3h-setup.sock") || hex_of_bytes path = hex_of_bytes (bytes_of_string "/tmp/l3h-setup-\xe9.sock") then "unix path=" ^ hex_of_bytes path else "err:io no-contact"
        | PPreUnix -> "preunix"
      end
  | _ -> "BAD-ARGS"
(* the names the lane's certificates list (tools/mkcerts.sh); whether the TLS library accepts a certificate for a name stays an oracle - the
   model contributes which name is asked for (Setup.tls_name, repair F43) *)
let sans_of cert = match cert with "trusted" -> ["localhost"; "127.0.0.1"; "::1"] | "dnsonly" -> ["localhost"] | "wrongname" -> ["other.example"] | _ -> ["localhost"; "127.0.0.1"; "::1"]
let lane_tls args =
  match args with
  | [scheme; stls; nov; connector; answer; cert; hs; extra] ->
      let c = { ldaps = (scheme = "ldaps"); starttls1 = (stls = "1"); no_tls_verify = (nov = "1");
                custom_connector_accepts_invalid = (if connector = "ca" then Some false else None) } in
      let ans = (match answer with "success" -> AnsSuccess | "garbage" | "rcempty" -> AnsGarbage | "close" -> AnsClose | "otherid" -> AnsOtherIdFirst | "slam" -> AnsSlam | "greet" -> AnsGreetFirst
                 | rc -> AnsRc (n_of_decimal (String.sub rc 2 (String.length rc - 2)))) in
      (* oracle inputs: the certificate is trusted for the host name only when it chains to the CA the connector was given *)
      (* who wins the race between the driver task and the caller is not under the lane's control: the model is asked for both outcomes,
         which must agree (they do on the repaired turn: Tls.c04_slam_and_greet) *)
      let show df =
        let sv = { answer = ans; cert_trusted_for_host = (connector = "ca" && cert <> "selfsigned" && cert_names_match (List.map bytes_of_string (sans_of cert)) true (Some (bytes_of_string (if extra = "v6" then "[::1]" else "localhost")))); handshake_completes = (hs = "1"); driver_first = df; bytes_after_response = [] } in
        let r = establish true c sv in
        (match r.result1 with
         | Established Tls -> "ok transport=tls" | Established Clear -> "ok transport=clear" | Failed -> "err" | NeverReturns -> "hang") in
      let a = show true and b = show false in if a = b then a else a ^ "|" ^ b
  | _ -> "BAD-ARGS"

let dispatch lane args =
  match lane with
  | "parse" -> lane_parse args
  | "enc" -> lane_enc args
  | "lenhdr" -> lane_lenhdr args
  | "int" -> lane_int args
  | "bool" -> lane_bool args
  | "frame" -> lane_frame args
  | "filter" -> lane_filter args
  | "esc" -> lane_esc args
  | "utf8" -> lane_utf8 args
  | "entry" -> lane_entry args
  | "result" -> lane_result args
  | "helpers" -> lane_helpers args
  | "url" -> lane_url args
  | "req" -> lane_req args
  | "conn" -> Connrun.run_script args
  | "msgid" -> lane_msgid args
  | "stream" -> lane_stream args
  | "setup" -> lane_setup args
  | "setupx" | "bigframe" -> "oracle-only"
  | "mt" | "stall" | "wstall" | "mtclose" | "pagedlost" | "pagedabandon" | "useradapter" -> "oracle-only"     (* multi-thread stress: the harness's oracles decide, there is no model outcome to compare *)
  | "sync" -> "equal"     (* c14_sequences: for a diagonal table the facade IS the async API; the lane compares the two real APIs *)
  | "tls" -> lane_tls args
  | "paged" -> lane_paged args
  | "ctl" -> lane_ctl args
  | "exop" -> lane_exop args
  | "cresp" -> lane_cresp args
  | _ -> "UNKNOWN-LANE"

let () =
  try
    while true do
      let line = input_line stdin in
      match split_ws line with
      | id :: lane :: args ->
          let out = try dispatch lane args with Stack_overflow -> "MODEL-STACK" | Failure m -> "MODEL-FAIL:" ^ m | Not_found -> "MODEL-NOTFOUND" in
          print_string id; print_char ' '; print_endline out
      | _ -> ()
    done
  with End_of_file -> ()
