(* correspondence runner: one case per line on stdin  "<id> <lane> <args>", one outcome per line  "<id> <outcome>" *)
open Model
open Conv

let max_depth = nat_of_int 100          (* MAX_DEPTH of the repaired lber parser *)

let show_pres show = function
  | POk (t, rest) -> Printf.sprintf "ok %s rest=%s" (show t) (hex_of_bytes rest)
  | PInc -> "incomplete" | PErr -> "error" | PFuel -> "FUEL"

let lane_parse args =
  let bs = bytes_of_hex (List.hd args) in
  show_pres show_tree (parse_tag' (lim true max_depth) O (nat_of_int (List.length bs + 1)) bs)

let lane_enc args = hex_of_bytes (encode (parse_tree (List.hd args)))
let lane_int args = hex_of_bytes (int_octets (z_of_decimal (List.hd args)))
let lane_bool args = hex_of_bytes (bool_octets (List.hd args = "1"))

(* ---- frames ---- *)
let show_ctrl (c : ctrl) = Printf.sprintf "%s/%d/%s" (hex_of_bytes c.c_oid) (if c.c_crit then 1 else 0) (opt_hex c.c_val)
let show_view ((mid, op), cs) = Printf.sprintf "f(%s,%s,%s)" (decimal_of_n mid) (show_tree op) (list_str show_ctrl cs)
let show_event = function Deliver v -> show_view v | EvError -> "error" | EvPanic -> "panic"
let rec split_chunks (bs : byte list) (sizes : int list) : byte list list =
  match sizes with
  | [] -> if bs = [] then [] else [bs]
  | n :: r ->
      let rec take k l acc = if k = 0 then (List.rev acc, l) else match l with [] -> (List.rev acc, []) | x :: t -> take (k - 1) t (x :: acc) in
      let (c, rest) = take n bs [] in c :: split_chunks rest r
let lane_frame args =
  let bs = bytes_of_hex (List.nth args 0) in
  let sizes = match args with [_] | [_; "-"] -> [] | _ :: s :: _ -> List.map int_of_string (String.split_on_char ',' s) | _ -> [] in
  let chunks = split_chunks bs sizes in
  let (evs, left) = framed_run_buf (decode_inner' (repaired_d max_depth)) [] chunks in
  String.concat " " (List.map show_event evs @ [match left with Some b -> Printf.sprintf "need:%d" (List.length b) | None -> "end"])

let dispatch lane args =
  match lane with
  | "parse" -> lane_parse args
  | "enc" -> lane_enc args
  | "int" -> lane_int args
  | "bool" -> lane_bool args
  | "frame" -> lane_frame args
  | _ -> "UNKNOWN-LANE"

let () =
  try
    while true do
      let line = input_line stdin in
      match split_ws line with
      | id :: lane :: args ->
          let out = try dispatch lane args with Stack_overflow -> "MODEL-STACK" | Failure m -> "MODEL-FAIL:" ^ m | Not_found -> "MODEL-NOTFOUND" in
          print_string id; print_char ' '; print_endline out
      | _ -> ()
    done
  with End_of_file -> ()
