(* correspondence runner: one case per line on stdin  "<id> <lane> <args>", one outcome per line  "<id> <outcome>" *)
open Model
open Conv

let max_depth = nat_of_int 100          (* MAX_DEPTH of the repaired lber parser *)

let show_pres show = function
  | POk (t, rest) -> Printf.sprintf "ok %s rest=%s" (show t) (hex_of_bytes rest)
  | PInc -> "incomplete" | PErr -> "error" | PFuel -> "FUEL"

let lane_parse args =
  let bs = bytes_of_hex (List.hd args) in
  show_pres show_tree (parse_tag' (lim true max_depth) O (nat_of_int (List.length bs + 1)) bs)

let lane_enc args = hex_of_bytes (encode (parse_tree (List.hd args)))
let lane_int args = hex_of_bytes (int_octets (z_of_decimal (List.hd args)))
let lane_bool args = hex_of_bytes (bool_octets (List.hd args = "1"))

let dispatch lane args =
  match lane with
  | "parse" -> lane_parse args
  | "enc" -> lane_enc args
  | "int" -> lane_int args
  | "bool" -> lane_bool args
  | _ -> "UNKNOWN-LANE"

let () =
  try
    while true do
      let line = input_line stdin in
      match split_ws line with
      | id :: lane :: args ->
          let out = try dispatch lane args with Stack_overflow -> "MODEL-STACK" | Failure m -> "MODEL-FAIL:" ^ m | Not_found -> "MODEL-NOTFOUND" in
          print_string id; print_char ' '; print_endline out
      | _ -> ()
    done
  with End_of_file -> ()
