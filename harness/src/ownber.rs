//! Independent BER reader/writer written from X.690, used only as an oracle:
//! it shares no code with lber and none with the Coq model.
use lber::common::TagClass;
use lber::structure::{StructureTag, PL};

#[derive(Debug, PartialEq)]
pub enum Own { Ok(StructureTag, usize), Truncated, Invalid }

/// Reads one definite-length TLV with a low tag number (0..=30) from `b`.
/// Returns the tree and the number of octets consumed. `minimal` reports whether
/// every length field met was in its shortest form.
pub fn read(b: &[u8], minimal: &mut bool, depth: usize) -> Own {
    if depth > 4000 { return Own::Invalid; }
    if b.is_empty() { return Own::Truncated; }
    let ident = b[0];
    let class = match ident >> 6 { 0 => TagClass::Universal, 1 => TagClass::Application, 2 => TagClass::Context, _ => TagClass::Private };
    let constructed = ident & 0x20 != 0;
    let num = (ident & 0x1f) as u64;
    if b.len() < 2 { return Own::Truncated; }
    let l0 = b[1];
    let (len, hdr) = if l0 < 0x80 { (l0 as u128, 2usize) } else {
        let k = (l0 & 0x7f) as usize;
        if k == 0 { return Own::Invalid; } // indefinite form: not definite-length BER
        if b.len() < 2 + k { return Own::Truncated; }
        let mut v: u128 = 0;
        for i in 0..k { v = (v << 8) | b[2 + i] as u128; if v > u64::MAX as u128 { return Own::Invalid; } }
        if v < 128 || b[2] == 0 { *minimal = false; }
        (v, 2 + k)
    };
    if ((b.len() - hdr) as u128) < len { return Own::Truncated; }
    let len = len as usize;
    let content = &b[hdr..hdr + len];
    if !constructed {
        return Own::Ok(StructureTag { class, id: num, payload: PL::P(content.to_vec()) }, hdr + len);
    }
    let mut kids = vec![];
    let mut off = 0;
    while off < content.len() {
        match read(&content[off..], minimal, depth + 1) {
            Own::Ok(t, n) => { kids.push(t); off += n; }
            // the enclosing element is complete, so a child that does not fit is malformed
            Own::Truncated | Own::Invalid => return Own::Invalid,
        }
    }
    Own::Ok(StructureTag { class, id: num, payload: PL::C(kids) }, hdr + len)
}

/// Writes `t` choosing, for each length, `extra(n)` superfluous leading zero octets / long form.
pub fn write(t: &StructureTag, out: &mut Vec<u8>, extra: &mut dyn FnMut(usize) -> usize) {
    let (pc, body) = match &t.payload {
        PL::P(v) => (0u8, v.clone()),
        PL::C(ts) => { let mut b = vec![]; for k in ts { write(k, &mut b, extra); } (0x20, b) }
    };
    assert!(t.id <= 30);
    out.push(((t.class as u8) << 6) | pc | t.id as u8);
    let n = body.len();
    let ex = extra(n);
    if n < 128 && ex == 0 { out.push(n as u8); } else {
        let mut digits = vec![];
        let mut m = n;
        while m > 0 { digits.push((m & 0xff) as u8); m >>= 8; }
        if digits.is_empty() { digits.push(0); }
        for _ in 0..ex.saturating_sub(if n < 128 { 1 } else { 0 }) { digits.push(0); }
        digits.reverse();
        out.push(0x80 | digits.len() as u8);
        out.extend(digits);
    }
    out.extend(body);
}

pub fn depth(t: &StructureTag) -> usize {
    match &t.payload { PL::P(_) => 0, PL::C(ts) => 1 + ts.iter().map(depth).max().unwrap_or(0) }
}

/// Two's-complement value of a content-octet string (None if empty or longer than 8 octets... up to 16 handled).
pub fn twos(b: &[u8]) -> Option<i128> {
    if b.is_empty() || b.len() > 15 { return None; }
    let mut v: i128 = if b[0] & 0x80 != 0 { -1 } else { 0 };
    for x in b { v = (v << 8) | *x as i128; }
    Some(v)
}
pub fn shortest_int(b: &[u8]) -> bool {
    if b.is_empty() { return false; }
    if b.len() == 1 { return true; }
    !((b[0] == 0 && b[1] < 0x80) || (b[0] == 0xff && b[1] >= 0x80))
}
