//! C07 lanes: lber encoder, parser, INTEGER/ENUMERATED/BOOLEAN contents.
use crate::ownber::{self, Own};
use crate::rng::Rng;
use crate::text::*;
use bytes::BytesMut;
use lber::common::TagClass;
use lber::structure::{StructureTag, PL};
use lber::structures::{ASNTag, Boolean, Enumerated, Integer};

pub const MAX_DEPTH: usize = 100;

const LENS: &[usize] = &[0, 1, 2, 3, 5, 17, 126, 127, 128, 129, 130, 254, 255, 256, 257, 300, 1000];
const BIG_LENS: &[usize] = &[65534, 65535, 65536, 65537, 70000];

pub fn rand_class(rng: &mut Rng) -> TagClass {
    match rng.below(4) { 0 => TagClass::Universal, 1 => TagClass::Application, 2 => TagClass::Context, _ => TagClass::Private }
}
pub fn rand_tree(rng: &mut Rng, depth: usize, maxid: u64, big: bool) -> StructureTag {
    let class = rand_class(rng);
    let id = if rng.chance(1, 6) { *rng.pick(&[0u64, 30, 30, 16, 17]) } else { rng.below(maxid + 1) };
    if depth == 0 || rng.chance(2, 5) {
        let n = if big && rng.chance(1, 40) { *rng.pick(BIG_LENS) } else if rng.chance(1, 3) { *rng.pick(LENS) } else { rng.below(12) as usize };
        StructureTag { class, id, payload: PL::P(rng.bytes(n)) }
    } else {
        let w = if rng.chance(1, 8) { 0 } else { rng.below(5) as usize + 1 };
        StructureTag { class, id, payload: PL::C((0..w).map(|_| rand_tree(rng, depth - 1, maxid, big)).collect()) }
    }
}

pub fn int_boundaries() -> Vec<i64> {
    let mut v = vec![0i64, 1, -1, i64::MAX, i64::MIN, i64::MIN + 1, i64::MAX - 1];
    for k in 1..=8u32 {
        let p: i128 = 1i128 << (8 * k - 1);
        for d in [-2i128, -1, 0, 1, 2] {
            for s in [p + d, -p + d, (p << 1) + d, -(p << 1) + d] {
                if s >= i64::MIN as i128 && s <= i64::MAX as i128 { v.push(s as i64); }
            }
        }
    }
    v
}

pub fn gen(rng: &mut Rng, n: usize, out: &mut Vec<String>) {
    // integers: all boundaries, then random of random magnitude
    for z in int_boundaries() { out.push(format!("int {}", z)); }
    out.push("bool 0".into()); out.push("bool 1".into());
    for _ in 0..n / 3 {
        let bits = rng.below(64) + 1;
        let mag = (rng.next() >> (64 - bits)) as i64;
        let z = if rng.chance(1, 2) { mag } else { mag.wrapping_neg() };
        out.push(format!("int {}", z));
    }
    // every boundary between length forms, up to the 3/4-octet one at 16 MiB
    for n in [0usize, 127, 128, 255, 256, 65535, 65536, 16777215, 16777216, 16777217] { out.push(format!("lenhdr {}", n)); }
    // encoder: trees with tag numbers up to 30 (parseable) and beyond (high-tag-number form, encode only)
    for i in 0..n / 3 {
        let d = 1 + rng.below(6) as usize; let t = rand_tree(rng, d, if i % 7 == 0 { 1 << 20 } else { 30 }, i % 11 == 0);
        out.push(format!("enc {}", show_tree(&t)));
    }
    // parser: independent encodings with arbitrary legal length forms; trailing bytes; truncations; mutations; random bytes
    for i in 0..n / 3 {
        let d = 1 + rng.below(6) as usize; let t = rand_tree(rng, d, 30, i % 13 == 0);
        let mut enc = vec![];
        let mut r2 = Rng::new(rng.next());
        let nonmin = i % 2 == 0;
        ownber::write(&t, &mut enc, &mut |_n| if nonmin && r2.chance(1, 3) { 1 + r2.below(4) as usize } else { 0 });
        match i % 6 {
            0 | 1 => {}
            2 => { let k = rng.below(6) as usize; enc.extend(rng.bytes(k)); }
            3 => { let k = rng.below(enc.len() as u64) as usize; enc.truncate(k); }
            4 => { let k = rng.below(enc.len() as u64) as usize; enc[k] ^= 1 << rng.below(8); }
            _ => { let k = rng.below(enc.len() as u64) as usize; enc[k] = *rng.pick(&[0u8, 0x80, 0x81, 0x84, 0xff, 0x30, 0x7f]); }
        }
        out.push(format!("parse {}", hex(&enc)));
    }
    for _ in 0..n / 10 { let k = 1 + rng.below(12) as usize; out.push(format!("parse {}", hex(&rng.bytes(k)))); }
    // length octets at their edges (F38): the indefinite-form octet, nine length octets led by zero (valid) and by one (2^64 more), 127 of them
    for w in ["0480", "3080", "30030480ff", "0480ff", "04890000000000000000016161", "04890100000000000000016161", "3089000000000000000003040161ff", "308901000000000000000304016 1ff", "04880000000000000001ff", "0488ffffffffffffffff", "04810161", "048100", "0489000000000000000000", "308a00000000000000000000", "04880000000000000000", "30820000", "300e0489000000000000000000 0101ff"] {
        out.push(format!("parse {}", w.replace(' ', "")));
    }
    { let mut e = vec![0x04u8, 0xff]; e.extend([0u8; 126]); e.push(2); e.extend([7u8, 8, 9]); out.push(format!("parse {}", hex(&e)));
      let mut e = vec![0x04u8, 0xff]; e.extend([0u8; 127]); e.extend([7u8, 8]); out.push(format!("parse {}", hex(&e)));
      let mut e = vec![0x04u8, 0xff]; e.push(1); e.extend([0u8; 125]); e.push(2); e.extend([7u8, 8, 9]); out.push(format!("parse {}", hex(&e))); }
    // nesting around the depth limit
    for d in [1usize, 2, MAX_DEPTH - 1, MAX_DEPTH, MAX_DEPTH + 1, MAX_DEPTH + 2, MAX_DEPTH + 3, 300] {
        let mut t = StructureTag { class: TagClass::Universal, id: 4, payload: PL::P(vec![1]) };
        for _ in 0..d { t = StructureTag { class: TagClass::Universal, id: 16, payload: PL::C(vec![t]) }; }
        let mut enc = vec![]; ownber::write(&t, &mut enc, &mut |_| 0);
        out.push(format!("parse {}", hex(&enc)));
    }
}

pub fn show_parse(b: &[u8]) -> String {
    let b2 = b.to_vec();
    match guarded(move || match lber::parse::parse_tag(&b2) {
        Ok((rest, t)) => format!("ok {} rest={}", show_tree(&t), hex(rest)),
        Err(e) if e.is_incomplete() => "incomplete".to_string(),
        Err(_) => "error".to_string(),
    }) { Some(s) => s, None => "panic".into() }
}

pub fn run(lane: &str, args: &[&str]) -> (String, Option<String>) {
    match lane {
        // a primitive OCTET STRING of n zero bytes: only the header is compared (id octet + length octets), the content by its length; the
        // encoding is parsed back by lber and by the independent reader. Reaches the 3/4-octet length boundary (16 MiB) without a 32 MB case line
        "lenhdr" => {
            let n: usize = args[0].parse().unwrap();
            let t = StructureTag { class: TagClass::Universal, id: 4, payload: PL::P(vec![0u8; n]) };
            let r = guarded(move || { let mut buf = BytesMut::new(); lber::write::encode_into(&mut buf, t).map(|_| buf.to_vec()) });
            match r {
                Some(Ok(b)) => {
                    let hdr = b.len() - n; let mut oracle = None;
                    if b.len() < n || b[hdr..].iter().any(|x| *x != 0) { oracle = Some("content octets altered".to_string()); }
                    let mut minimal = true;
                    match ownber::read(&b, &mut minimal, 0) { Own::Ok(t3, used) if used == b.len() && matches!(&t3.payload, PL::P(v) if v.len() == n) => { if !minimal { oracle = Some("encoder emitted a non-minimal length".to_string()); } } _ => oracle = Some("independent reader does not read back the element".to_string()) }
                    let b2 = b.clone();
                    match guarded(move || lber::parse::parse_tag(&b2).map(|(rest, t)| (rest.len(), match t.payload { PL::P(v) => v.len() as i64, _ => -1 })).map_err(|_| ())) {
                        Some(Ok((0, l))) if l == n as i64 => {} other => { oracle.get_or_insert(format!("lber does not parse its own encoding back: {:?}", other)); } }
                    (format!("{} total={}", hex(&b[..hdr]), b.len()), oracle)
                }
                Some(Err(_)) => ("encode-error".into(), Some("encoder failed".into())),
                None => ("panic".into(), Some("encoder panicked".into())),
            }
        }
        "enc" => {
            let t = parse_tree(args[0]);
            let t2 = t.clone();
            let r = guarded(move || { let mut buf = BytesMut::new(); lber::write::encode_into(&mut buf, t2).map(|_| buf.to_vec()) });
            match r {
                Some(Ok(b)) => {
                    let mut oracle = None;
                    if max_id(&t) <= 30 {
                        let mut minimal = true;
                        match ownber::read(&b, &mut minimal, 0) {
                            Own::Ok(t3, n) if t3 == t && n == b.len() => { if !minimal { oracle = Some("encoder emitted a non-minimal length".to_string()); } }
                            _ => oracle = Some("independent reader does not read back the encoded tree".to_string()),
                        }
                    }
                    (hex(&b), oracle)
                }
                Some(Err(_)) => ("ioerror".into(), Some("encoder failed".into())),
                None => ("panic".into(), Some("encoder panicked".into())),
            }
        }
        "parse" => {
            let b = unhex(args[0]);
            let got = show_parse(&b);
            let mut minimal = true;
            let oracle = match ownber::read(&b, &mut minimal, 0) {
                Own::Ok(t, n) if ownber::depth(&t) <= MAX_DEPTH + 1 => {
                    let want = format!("ok {} rest={}", show_tree(&t), hex(&b[n..]));
                    if want != got { Some(format!("valid definite-length input: independent reader gives {} but lber gives {}", clip(&want), clip(&got))) } else { None }
                }
                // deeper than the parser's recursion guard (repair F6, for C11): valid input, refused - known finding F36
                Own::Ok(t, _) if got != "panic" => if got.starts_with("ok ") { None } else { Some(format!("[only:C07] F36-depth-limit: valid definite-length input nested {} levels deep is refused by the parser's recursion guard", ownber::depth(&t))) },
                // and the converse (F38): what the independent reader cannot read as definite-length BER (the indefinite-form octet 0x80, length
                // octets worth 2^64 or more, a child overrunning its parent, a cut-off element) must not come out as a tree
                Own::Invalid | Own::Truncated if got.starts_with("ok ") => Some(format!("F38-length: not a complete definite-length BER element, yet lber gives {}", clip(&got))),
                _ => if got == "panic" { Some("parser panicked".to_string()) } else { None },
            };
            (got, oracle)
        }
        "int" => {
            let z: i64 = args[0].parse().unwrap();
            let r = guarded(move || {
                let a = Integer { inner: z, ..Default::default() }.into_structure();
                let b = Enumerated { inner: z, ..Default::default() }.into_structure();
                (a, b)
            });
            match r {
                None => ("panic".into(), Some(format!("integer encoder panicked on {}", z))),
                Some((a, b)) => {
                    let (pa, pb) = (a.expect_primitive().unwrap_or_default(), b.expect_primitive().unwrap_or_default());
                    let mut oracle = None;
                    for p in [&pa, &pb] {
                        if ownber::twos(p) != Some(z as i128) { oracle = Some(format!("contents {} decode to {:?}, not {}", hex(p), ownber::twos(p), z)); }
                        else if !ownber::shortest_int(p) { oracle = Some(format!("contents {} are not the shortest encoding of {}", hex(p), z)); }
                    }
                    (if pa == pb { hex(&pa) } else { format!("{}/{}", hex(&pa), hex(&pb)) }, oracle)
                }
            }
        }
        "bool" => {
            let v = args[0] == "1";
            let p = Boolean { inner: v, ..Default::default() }.into_structure().expect_primitive().unwrap_or_default();
            let oracle = if (v && p != [0xff]) || (!v && p != [0]) { Some("BOOLEAN contents".to_string()) } else { None };
            (hex(&p), oracle)
        }
        _ => unreachable!(),
    }
}

pub fn max_id(t: &StructureTag) -> u64 {
    match &t.payload { PL::P(_) => t.id, PL::C(ts) => ts.iter().map(max_id).max().unwrap_or(0).max(t.id) }
}
pub fn clip(s: &str) -> String { if s.len() > 160 { format!("{}…", &s[..160]) } else { s.to_string() } }
