//! Pure-function lanes: filter parser (C08), escapers (C09), SearchEntry::construct (C15), LdapResult conversion (C03), URL parameters (C20).
use crate::lanes::frame::{c, entry, enum_tag, ldap_result, octets, p};
use crate::ownfilter;
use crate::rng::Rng;
use crate::text::*;
use lber::common::TagClass;
use lber::structure::{StructureTag, PL};
use lber::structures::{ASNTag, Tag};
use ldap3::{dn_escape, ldap_escape, ldap_unescape, LdapResult, ResultEntry, SearchEntry};
use std::borrow::Cow;

// ------------------------------------------------------------------------------------------------ generators
const FILT_ALPHA: &[u8] = b"()&|!=*\\:;.-~<>adn02f";
const FILT_CORE: &[u8] = b"()a=*\\";

fn enumerate(alpha: &[u8], len: usize, stride: usize, offset: usize, out: &mut Vec<String>) {
    let total = alpha.len().pow(len as u32);
    let mut k = offset % stride.max(1);
    while k < total {
        let mut s = Vec::with_capacity(len); let mut x = k;
        for _ in 0..len { s.push(alpha[x % alpha.len()]); x /= alpha.len(); }
        out.push(format!("filter {}", hex(&s)));
        k += stride.max(1);
    }
}

fn rand_attr(rng: &mut Rng) -> Vec<u8> {
    let base: &[&[u8]] = &[b"cn", b"a", b"objectClass", b"2.5.4.3", b"1.2.840.113556.1.4.803", b"dn", b"dnQualifier", b"d", b"x-y-9", b"0.9", b"2"];
    let mut a = rng.pick(base).to_vec();
    for _ in 0..rng.below(3).saturating_sub(1) { a.push(b';'); a.extend(*rng.pick(&[&b"binary"[..], b"lang-en", b"x-1", b"0"])); }
    a
}
fn rand_value(rng: &mut Rng) -> Vec<u8> {
    let n = rng.below(7) as usize;
    (0..n).map(|_| match rng.below(10) { 0 => *rng.pick(&[0u8, b'(', b')', b'*', b'\\']), 1 => 0xc3, 2 => 0xa9, 3 => b' ', 4 => b'=', 5 => b':', _ => b'a' + rng.below(26) as u8 }).collect()
}
fn render_value(rng: &mut Rng, v: &[u8], sloppy: bool) -> Vec<u8> {
    let mut o = vec![];
    for &b in v {
        let must = matches!(b, 0 | b'(' | b')' | b'*' | b'\\');
        if (must && !sloppy) || rng.chance(1, 6) { o.extend(if rng.chance(1, 2) { format!("\\{:02x}", b) } else { format!("\\{:02X}", b) }.into_bytes()); } else { o.push(b); }
    }
    o
}
// the dn flag: three in four as ":dn", the rest in another case (F37)
fn dnflag(rng: &mut Rng) -> Vec<u8> { if rng.chance(3, 4) { b":dn".to_vec() } else { rng.pick(&[&b":DN"[..], b":Dn", b":dN"]).to_vec() } }
fn rand_item(rng: &mut Rng, sloppy: bool) -> Vec<u8> {
    let a = rand_attr(rng);
    let v = rand_value(rng);
    let rv = render_value(rng, &v, sloppy);
    let rules: &[&[u8]] = &[b"caseExactMatch", b"2.5.13.5", b"dnMatch", b"dn", b"DN", b"dnSubtreeMatch", b"dn-x", b"d", b"1.2"];
    match rng.below(12) {
        0 => [a, b"=".to_vec(), rv].concat(),
        1 => [a, b">=".to_vec(), rv].concat(),
        2 => [a, b"<=".to_vec(), rv].concat(),
        3 => [a, b"~=".to_vec(), rv].concat(),
        4 => [a, b"=*".to_vec()].concat(),
        5 | 6 => { let mut s = [a, b"=".to_vec()].concat();
            if rng.chance(1, 2) { s.extend(render_value(rng, &[b'i'], false)); }
            for _ in 0..1 + rng.below(3) { s.push(b'*'); if rng.chance(3, 4) { let x = rand_value(rng); s.extend(render_value(rng, &x, sloppy)); } }
            s }
        7 => [a, b":=".to_vec(), rv].concat(),
        8 => [a, dnflag(rng), b":=".to_vec(), rv].concat(),
        9 => [a, b":".to_vec(), rng.pick(rules).to_vec(), b":=".to_vec(), rv].concat(),
        10 => [a, dnflag(rng), b":".to_vec(), rng.pick(rules).to_vec(), b":=".to_vec(), rv].concat(),
        _ => [if rng.chance(1, 2) { [dnflag(rng), b":".to_vec()].concat() } else { b":".to_vec() }, rng.pick(rules).to_vec(), b":=".to_vec(), rv].concat(),
    }
}
fn rand_filter(rng: &mut Rng, depth: usize, sloppy: bool) -> Vec<u8> {
    if depth == 0 || rng.chance(1, 2) { return [b"(".to_vec(), rand_item(rng, sloppy), b")".to_vec()].concat(); }
    match rng.below(3) {
        0 | 1 => { let mut s = vec![b'(', if rng.chance(1, 2) { b'&' } else { b'|' }]; for _ in 0..rng.below(4) { s.extend(rand_filter(rng, depth - 1, sloppy)); } s.push(b')'); s }
        _ => [b"(!".to_vec(), rand_filter(rng, depth - 1, sloppy), b")".to_vec()].concat(),
    }
}

pub fn gen_filter(rng: &mut Rng, n: usize, out: &mut Vec<String>) {
    // exhaustive short strings (sampled with a stride when the tier's budget is below the space)
    for len in 0..=2 { enumerate(FILT_ALPHA, len, 1, 0, out); }
    let b = n / 4;
    for len in 3..=5 { let total = FILT_ALPHA.len().pow(len as u32); enumerate(FILT_ALPHA, len, (total / b.max(1)).max(1), rng.below(97) as usize, out); }
    for len in 3..=8 { let total = FILT_CORE.len().pow(len as u32); enumerate(FILT_CORE, len, (total / (b / 2).max(1)).max(1), rng.below(89) as usize, out); }
    for i in 0..n / 2 {
        let sloppy = i % 5 == 4;
        let d = 1 + rng.below(3) as usize; let mut s = if i % 7 == 0 { rand_item(rng, sloppy) } else { rand_filter(rng, d, sloppy) };
        match i % 11 { 9 => { let k = rng.below(s.len() as u64 + 1) as usize; s.insert(k.min(s.len()), *rng.pick(FILT_ALPHA)); }
                       10 => { if !s.is_empty() { let k = rng.below(s.len() as u64) as usize; s.remove(k); } } _ => {} }
        out.push(format!("filter {}", hex(&s)));
    }
    for _ in 0..n / 20 { let k = rng.below(10) as usize; out.push(format!("filter {}", hex(&rng.bytes(k)))); }
    for w in ["(cn:dnMatch:=x)", "(:dnFoo:=x)", "(entryDN:dnSubtreeMatch:=dc=example,dc=com)", "(cn:dn:=x)", "(cn:dn:dnMatch:=x)", "(ou:DN:=People)", "(:dn:=x)", ":dn:=x", "(:DN:=x)", "(&(a=b)(:dn:=x))", "(:dn:dn:=x)", "(ou:Dn:2.5.13.5:=People)", "(:dN:caseIgnoreMatch:=x)", "(cn:DN:dnMatch:=x)", "(cn:DNx:=x)", "(&)", "(|)", "cn=x", "(a=*)", "(a=**)", "(a=*b**c)", "(a=\\2a)", "(a=\\2)", "(=x)", "(a=x))", "((a=x)", "(2=v)", "(a;b=c)", "(a;=c)",
              // numeric OIDs with arcs beyond 64 bits (2.25.<UUID>), at and around u64::MAX, zero arcs, leading zeros
              "(2.25.329800735698586629295641978511506172918=v)", "(1.18446744073709551615=v)", "(1.18446744073709551616=v)", "(1.2.99999999999999999999999999=*)", "(a:2.25.329800735698586629295641978511506172918:=v)",
              "(1.0.3=v)", "(1.02=v)", "(0.0=v)",
              // bare items (no parentheses) whose value ends or begins with whitespace: the value is the whole rest of the string
              "cn=Smith ", "cn=Smith\t", " cn=x", "cn=x\n", "cn>=a ", "cn:dn:=v ", "(cn=x) ", " (cn=x)"] {
        out.push(format!("filter {}", hex(w.as_bytes())));
    }
}

fn rand_unicode(rng: &mut Rng) -> String {
    let n = rng.below(8) as usize;
    (0..n).map(|_| match rng.below(12) {
        0 => *rng.pick(&['\0', '(', ')', '*', '\\']), 1 => *rng.pick(&[',', '+', '"', '<', '>', ';', '=', '#']), 2 | 3 => ' ',
        4 => 'é', 5 => '€', 6 => '\u{1F600}', 7 => '\u{7f}', _ => (b'a' + rng.below(26) as u8) as char }).collect()
}
pub fn gen_escape(rng: &mut Rng, n: usize, out: &mut Vec<String>) {
    // exhaustive ASCII strings up to length 2, sampled length 3
    out.push("esc ldap -".into()); out.push("esc dn -".into()); out.push("esc unesc -".into());
    for a in 0..128u8 { for l in ["ldap", "dn", "unesc"] { out.push(format!("esc {} {:02x}", l, a)); } }
    let stride = ((128 * 128) / (n / 4).max(1)).max(1);
    let mut k = rng.below(stride as u64) as usize;
    while k < 128 * 128 { let (a, b) = ((k / 128) as u8, (k % 128) as u8); for l in ["ldap", "dn"] { out.push(format!("esc {} {:02x}{:02x}", l, a, b)); } k += stride; }
    let special = [0u8, b' ', b'#', b'\\', b'*', b'(', b')', b',', b'+', b'"', b'<', b'>', b';', b'=', b'a', 0x7f];
    for a in special { for b in special { for c2 in special { if rng.chance(1, 3) { out.push(format!("esc dn {:02x}{:02x}{:02x}", a, b, c2)); out.push(format!("esc ldap {:02x}{:02x}{:02x}", a, b, c2)); } } } }
    for _ in 0..n / 4 { let s = rand_unicode(rng); out.push(format!("esc ldap {}", hex(s.as_bytes()))); out.push(format!("esc dn {}", hex(s.as_bytes()))); }
    for _ in 0..n / 4 {
        // escape-shaped strings for ldap_unescape
        let k = rng.below(8) as usize;
        let s: String = (0..k).map(|_| match rng.below(8) { 0 | 1 => '\\', 2 => *rng.pick(&['2', 'a', 'F', '0', 'c', '3']), 3 => *rng.pick(&['g', 'x', ' ']), 4 => 'é', _ => (b'0' + rng.below(10) as u8) as char }).collect();
        out.push(format!("esc unesc {}", hex(s.as_bytes())));
    }
}

const UTF8_SEEDS: &[&[u8]] = &[b"a", &[0xc2, 0x80], &[0xdf, 0xbf], &[0xe0, 0xa0, 0x80], &[0xe0, 0x9f, 0xbf], &[0xed, 0x9f, 0xbf], &[0xed, 0xa0, 0x80], &[0xef, 0xbf, 0xbf],
    &[0xf0, 0x90, 0x80, 0x80], &[0xf0, 0x8f, 0xbf, 0xbf], &[0xf4, 0x8f, 0xbf, 0xbf], &[0xf4, 0x90, 0x80, 0x80], &[0xc0, 0x80], &[0xc1, 0xbf], &[0xf5, 0x80, 0x80, 0x80], &[0x80], &[0xff], &[0xe1, 0x80], &[0xf1, 0x80, 0x80]];
pub fn rand_bytes_utf8ish(rng: &mut Rng) -> Vec<u8> {
    let mut v: Vec<u8> = vec![];
    for _ in 0..rng.below(4) { v.extend(*rng.pick(UTF8_SEEDS)); }
    if rng.chance(1, 4) && !v.is_empty() { let k = rng.below(v.len() as u64) as usize; v[k] = v[k].wrapping_add(*rng.pick(&[1u8, 0xff, 0x40, 0x80])); }
    if rng.chance(1, 8) && !v.is_empty() { v.pop(); }
    v
}
pub fn gen_entry(rng: &mut Rng, n: usize, out: &mut Vec<String>) {
    for i in 0..n / 2 {
        let na = rng.below(9) as usize;
        let names: Vec<Vec<u8>> = (0..na).map(|k| if rng.chance(1, 10) { b"cn".to_vec() } else if rng.chance(1, 8) { b"member".to_vec() } else { format!("a{}{}", k, if rng.chance(1, 5) { ";binary" } else { "" }).into_bytes() }).collect();
        let attrs: Vec<(Vec<u8>, Vec<Vec<u8>>)> = names.into_iter().map(|nm| {
            let nv = rng.below(7) as usize;
            let mode = rng.below(4);
            (nm, (0..nv).map(|_| match mode { 0 => rand_unicode(rng).into_bytes(), 1 => rand_bytes_utf8ish(rng), _ => if rng.chance(1, 2) { rand_unicode(rng).into_bytes() } else { rand_bytes_utf8ish(rng) } }).collect())
        }).collect();
        let refs: Vec<(&[u8], Vec<Vec<u8>>)> = attrs.iter().map(|(a, v)| (&a[..], v.clone())).collect();
        let mut t = entry(rand_unicode(rng).as_bytes(), &refs);
        if i % 17 == 16 { // malformed entries: outside C15's domain, both sides must still agree (panic)
            match rng.below(4) { 0 => t.id = 5, 1 => if let PL::C(k) = &mut t.payload { k.truncate(1); }, 2 => if let PL::C(k) = &mut t.payload { k[0] = octets(&[0xff]); }, _ => if let PL::C(k) = &mut t.payload { k[1] = octets(b"x"); } }
        }
        out.push(format!("entry {}", show_tree(&t)));
    }
    for _ in 0..n / 2 { out.push(format!("utf8 {}", hex(&rand_bytes_utf8ish(rng)))); }
    // large values: text with a multi-byte character across the 64 KiB mark, 90 KiB of three-byte characters, one invalid byte far in
    let mut v1 = vec![b'a'; 65535]; v1.extend("é".as_bytes()); v1.extend(vec![b'a'; 10]);
    let v2: Vec<u8> = "€".as_bytes().iter().cycle().take(3 * 30_000).copied().collect();
    let mut v3 = vec![b'a'; 70_000]; v3.push(0xff); v3.extend(vec![b'a'; 5]);
    let mut v4 = vec![b'a'; 65536]; v4.extend("日本".as_bytes());
    for (k, v) in [v1, v2, v3, v4].into_iter().enumerate() {
        let t = entry(b"cn=large", &[(b"cn", vec![b"x".to_vec()]), (format!("big{}", k).as_bytes(), vec![b"small".to_vec(), v])]);
        out.push(format!("entry {}", show_tree(&t)));
    }
}

const RCS: &[i64] = &[0, 1, 2, 3, 4, 5, 6, 7, 8, 10, 11, 12, 14, 16, 32, 49, 50, 53, 68, 80, 88, 118, 127, 128, 255, 256, 65535, 65536, 0x7fffffff, 0xffffffff];
pub fn gen_result(rng: &mut Rng, n: usize, out: &mut Vec<String>) {
    for rc in 0..=300u32 { out.push(format!("helpers {}", rc)); }
    for rc in [65535u64, 65536, 0x7fffffff, 0x80000000, 0xffffffff] { out.push(format!("helpers {}", rc)); }
    for _ in 0..n / 10 { out.push(format!("helpers {}", rng.next() as u32)); }
    for i in 0..n {
        let app = *rng.pick(&[1u64, 5, 7, 9, 11, 13, 15, 24]);
        let refs = if rng.chance(1, 3) { Some((0..1 + rng.below(4)).map(|k| format!("ldap://h{}/dc=x", k).into_bytes()).collect()) } else { None };
        let mut t = ldap_result(app, *rng.pick(RCS), rand_unicode(rng).as_bytes(), rand_unicode(rng).as_bytes(), refs);
        if let PL::C(k) = &mut t.payload {
            if app == 1 && rng.chance(1, 3) { k.push(p(TagClass::Context, 7, &rng.bytes(5))); }
            if app == 24 { if rng.chance(1, 2) { k.push(p(TagClass::Context, 10, b"1.3.6.1.4.1.4203.1.11.3")); } if rng.chance(1, 2) { k.push(p(TagClass::Context, 11, &rng.bytes(6))); } }
            if i % 13 == 12 { // malformed LDAPResult: outside C03's domain (both sides: panic or the same fields)
                match rng.below(5) { 0 => { k.truncate(2); } 1 => { k[0] = c(TagClass::Universal, 10, vec![]); } 2 => { k[1] = octets(&[0xff, 0xfe]); } 3 => { k[0].id = 2; } _ => { k.push(c(TagClass::Context, 3, vec![c(TagClass::Universal, 16, vec![])])); } }
            }
        }
        out.push(format!("result {}", show_tree(&t)));
    }
    // result codes at and beyond the 32-bit boundary, in 4 to 9 content octets (F28: nothing is truncated into range)
    for code in [vec![0x00u8, 0xff, 0xff, 0xff, 0xff], vec![0x01, 0, 0, 0, 0], vec![0x35, 0, 0, 0, 0], vec![0, 0, 0, 1, 0, 0, 0, 0], vec![1, 0, 0, 0, 0, 0, 0, 0, 0], vec![0, 0, 0, 0, 0, 0, 0, 0, 5], vec![0x80], vec![0xff, 0xff, 0xff, 0xff], vec![] /* F51: no content octets */, vec![0]] {
        let mut t = ldap_result(*rng.pick(&[1u64, 7, 24]), 0, b"", b"x", None);
        if let PL::C(k) = &mut t.payload { k[0] = p(TagClass::Universal, 10, &code); }
        out.push(format!("result {}", show_tree(&t)));
    }
    let _ = enum_tag(0);
}

fn penc(s: &[u8], keep: &dyn Fn(u8) -> bool, upper: bool) -> String {
    let mut o = String::new();
    for &b in s { if keep(b) { o.push(b as char); } else { o.push_str(&if upper { format!("%{:02X}", b) } else { format!("%{:02x}", b) }); } }
    o
}
fn unreserved(b: u8) -> bool { b.is_ascii_alphanumeric() || matches!(b, b'-' | b'.' | b'_' | b'~') }
pub fn gen_url(rng: &mut Rng, n: usize, out: &mut Vec<String>) {
    let push = |u: String, tag: &str, out: &mut Vec<String>| {
        // a percent sign inside the attribute-list field marks the F19 class whatever lane produced the URL
        let attrs_field = u.splitn(2, "://").nth(1).and_then(|r| r.splitn(2, '/').nth(1)).and_then(|d| d.split('?').nth(1)).unwrap_or("");
        let tag = if attrs_field.contains('%') { "policy=maxattrs" } else { tag };
        match url::Url::parse(&u) {
            Ok(p) => out.push(format!("url {} {} {} {}", hex(u.as_bytes()), hex(p.path().as_bytes()), p.query().map(|q| hex(q.as_bytes())).unwrap_or("none".into()), tag)),
            Err(_) => {}
        }
    };
    for i in 0..n {
        let base = format!("{}={},dc={}", rng.pick(&["cn", "ou", "uid"]), rand_unicode(rng), rand_unicode(rng));
        let filt = String::from_utf8_lossy(&rand_filter(rng, 2, false)).into_owned();
        let attrs: Vec<String> = (0..1 + rng.below(4)).map(|_| rng.pick(&["cn", "sn", "*", "+", "1.1", "mail;lang-en", "2.5.4.3", "jpegPhoto;binary"]).to_string()).collect();
        let scope = *rng.pick(&["base", "one", "sub", "base", "one", "sub", "Base", "ONE", "Sub", "sUB"]);   // the words are ABNF literals: any case (F35)
        let kinds = ["bindname", "x-bindpw", "1.3.6.1.4.1.10094.1.5.1", "1.3.6.1.4.1.10094.1.5.2", "1.3.6.1.4.1.1466.20037", "x-unknown", "1.2.3.4", "BindName", "X-BINDPW", "bindname2", "x-bindpw-sha256", "bindnam", "x-bind", "BINDNAMES"];
        // 0-3 extensions as a rule; one URL in twelve lists all five recognised ones first and something else after them
        let nex = if i % 12 == 5 { 5 + 1 + rng.below(3) as usize } else { rng.below(4) as usize };
        let exts: Vec<String> = (0..nex).map(|j| { let k = if i % 12 == 5 && j < 5 { kinds[j] } else { *rng.pick(&kinds) }; let crit = rng.chance(1, 3);
            let v = rand_unicode(rng); format!("{}{}{}", if crit { "!" } else { "" }, k, if k.ends_with("20037") && rng.chance(2, 3) { String::new() } else { format!("={}", penc(v.as_bytes(), &unreserved, rng.chance(1, 2))) }) }).collect();
        let present = rng.below(16);   // subset of {attrs, scope, filter, exts}
        let maxattrs = i % 9 == 8;
        let fmt_attrs = |a: &Vec<String>| if maxattrs { a.iter().map(|x| penc(x.as_bytes(), &|b| b.is_ascii_alphanumeric(), false)).collect::<Vec<_>>().join(",") } else { a.join(",") };
        let mut q = String::new();
        let fields = [if present & 1 != 0 { fmt_attrs(&attrs) } else { String::new() }, if present & 2 != 0 { scope.to_string() } else { String::new() },
            if present & 4 != 0 { penc(filt.as_bytes(), &unreserved, rng.chance(1, 2)) } else { String::new() }, if present & 8 != 0 { exts.join(",") } else { String::new() }];
        let last = fields.iter().rposition(|f| !f.is_empty());
        if let Some(l) = last { q = format!("?{}", fields[..=l].join("?")); }
        let u = format!("ldap://{}/{}{}", rng.pick(&["localhost", "h.example.com:1389", ""]), penc(base.as_bytes(), &unreserved, rng.chance(1, 2)), q);
        let tag = if maxattrs && present & 1 != 0 && attrs.iter().any(|a| a.bytes().any(|b| !b.is_ascii_alphanumeric())) { "policy=maxattrs" } else { "policy=std" };
        push(u, tag, out);
        if i % 6 == 0 { // hostile variants: bad scope, invalid percent sequences, non-UTF-8 percent bytes, surplus '?' fields, raw characters
            let v = match rng.below(7) {
                0 => format!("ldap://h/{}??{}", penc(base.as_bytes(), &unreserved, false), rng.pick(&["Base", "subtree", "one ", "x", "ONE"])),
                1 => format!("ldap://h/dc=%ff%fe?cn"), 2 => format!("ldap://h/dc=x?cn?sub?(cn=%c3%28)"), 3 => format!("ldap://h/dc=x?cn?sub?(a=b)?x=%e2%28%a1"),
                4 => format!("ldap://h/dc=x?cn?sub?(a=b)?!x-foo=1?more?fields"), 5 => format!("ldap://h/dc=%zz%4?a%2"), _ => format!("ldap://h/{}?cn,sn?one?(a=b c)?bindname=cn=a b,!x-bindpw=p", base),
            };
            push(v, "policy=hostile", out);
        }
    }
    for w in ["ldap://h/", "ldap://h", "ldap:///dc=x??sub", "ldap://h/?*,%2B", "ldap://h/dc=x????", "ldap://h//dc=x", "ldap://h/dc=x?cn?base?(objectClass=*)?!1.3.6.1.4.1.1466.20037", "ldap://h/dc=x?cn?SUB", "ldap://h/dc=x??Base?(cn=a)", "ldap://h/dc=x?cn?oNe", "ldap://h/dc=x?cn?subs", "ldap://h/dc=x?cn?BASES"] { push(w.to_string(), "policy=corpus", out); }
}

// ------------------------------------------------------------------------------------------------ execution
fn tag_to_tree(t: Tag) -> StructureTag { t.into_structure() }

pub fn run(lane: &str, args: &[&str]) -> (String, Option<String>) {
    match lane {
        "filter" => {
            let s = unhex(args[0]);
            let s2 = s.clone();
            let got = match guarded(move || ldap3::parse_filter(&s2).map(tag_to_tree)) { None => "panic".to_string(), Some(Ok(t)) => format!("ok {}", show_tree(&t)), Some(Err(_)) => "error".into() };
            let v = ownfilter::parse(&s);
            let mut oracle = None;
            if got == "panic" { oracle = Some("filter parser panicked".to_string()); }
            else if !v.ambiguous {
                match &v.tree {
                    Some(t) => { let want = format!("ok {}", show_tree(t));
                        if got != want && (v.strict || got != "error") { oracle = Some(format!("RFC 4515 reading is {} but the library returned {}", crate::lanes::ber::clip(&want), crate::lanes::ber::clip(&got))); } }
                    None => if got != "error" { oracle = Some(format!("not a filter string by RFC 4515, but accepted as {}", crate::lanes::ber::clip(&got))); }
                }
            }
            (got, oracle)
        }
        "esc" => {
            let b = unhex(args[1]);
            let s = match String::from_utf8(b.clone()) { Ok(s) => s, Err(_) => return ("not-utf8".into(), None) };
            match args[0] {
                "ldap" => {
                    let r = ldap_escape(s.as_str());
                    let out = format!("{} {}", if matches!(r, Cow::Borrowed(_)) { "borrowed" } else { "owned" }, hex(r.as_bytes()));
                    // oracle: the escaped text is inert as an assertion value and unescapes to the original
                    let mut oracle = None;
                    let f = format!("(cn={})", r);
                    let want = crate::lanes::frame::c(TagClass::Context, 3, vec![octets(b"cn"), octets(&b)]);
                    match ldap3::parse_filter(&f) { Ok(t) if tag_to_tree(t.clone()) == want => {}, _ => oracle = Some("escaped value is not inert in (cn=<escaped>)".to_string()) }
                    // ... also in the bare form of an item (no enclosing parentheses), where the value runs to the end of the string,
                    // and as the value of an extensible match
                    if !b.is_empty() {
                        match ldap3::parse_filter(&format!("cn={}", r)) { Ok(t) if tag_to_tree(t.clone()) == want => {}, _ => { oracle.get_or_insert("escaped value is not inert in the bare item cn=<escaped>".to_string()); } }
                        let want3 = crate::lanes::frame::c(TagClass::Context, 9, vec![p(TagClass::Context, 2, b"cn"), p(TagClass::Context, 3, &b)]);
                        match ldap3::parse_filter(&format!("(cn:={})", r)) { Ok(t) if tag_to_tree(t.clone()) == want3 => {}, _ => { oracle.get_or_insert("escaped value is not inert in (cn:=<escaped>)".to_string()); } }
                    }
                    let f2 = format!("(cn=a*{}*b)", r);
                    if !b.is_empty() { match ldap3::parse_filter(&f2) { Ok(t) => { let t = tag_to_tree(t);
                        let want2 = crate::lanes::frame::c(TagClass::Context, 4, vec![octets(b"cn"), crate::lanes::frame::seq(vec![p(TagClass::Context, 0, b"a"), p(TagClass::Context, 1, &b), p(TagClass::Context, 2, b"b")])]);
                        if t != want2 { oracle = Some("escaped value is not inert as a substring component".to_string()); } }, _ => oracle = Some("escaped value breaks a substring filter".to_string()) } }
                    match ldap_unescape(r.as_ref()) { Ok(u) if u.as_bytes() == &b[..] => {}, _ => oracle = Some("ldap_unescape(ldap_escape(v)) != v".to_string()) }
                    if !b.iter().any(|c| matches!(c, 0 | b'(' | b')' | b'*' | b'\\')) && !matches!(r, Cow::Borrowed(_)) { oracle = Some("string needing no escaping was not returned unchanged".to_string()); }
                    (out, oracle)
                }
                "dn" => {
                    let r = dn_escape(s.as_str());
                    let out = format!("{} {}", if matches!(r, Cow::Borrowed(_)) { "borrowed" } else { "owned" }, hex(r.as_bytes()));
                    let mut oracle = None;
                    // independent RFC 4514 reading of  cn=<escaped>,dc=x  and  ou=a+cn=<escaped>
                    for (pre, post) in [("cn=", ",dc=x"), ("ou=a+cn=", ""), ("cn=", "+sn=b,dc=y")] {
                        let dn = format!("{}{}{}", pre, r, post);
                        match crate::owndn::read_dn(dn.as_bytes()) {
                            Some(rdns) => { let flat: Vec<(Vec<u8>, Vec<u8>)> = rdns.into_iter().flatten().collect();
                                let want_n = pre.matches('=').count() + post.matches('=').count();
                                if flat.len() != want_n || !flat.iter().any(|(a, v)| a == b"cn" && v == &b) { oracle = Some(format!("RFC 4514 reading of {:?} does not yield cn=<original value> with the same structure", dn)); } }
                            None => oracle = Some(format!("RFC 4514 reader rejects {:?}", dn)),
                        }
                    }
                    (out, oracle)
                }
                _ => { match ldap_unescape(s.as_str()) { Ok(u) => (format!("ok {}", hex(u.as_bytes())), None), Err(_) => ("error".into(), None) } }
            }
        }
        "utf8" => { let b = unhex(args[0]); (if std::str::from_utf8(&b).is_ok() { "valid" } else { "invalid" }.into(), None) }
        "entry" => {
            let t = parse_tree(args[0]);
            let t2 = t.clone();
            match guarded(move || SearchEntry::construct(ResultEntry::new(t2))) {
                None => ("panic".into(), None),
                Some(e) => {
                    let show = |m: Vec<(String, Vec<Vec<u8>>)>| { let mut items: Vec<(String, String)> = m.into_iter().map(|(k, vs)| (hex(k.as_bytes()), format!("[{}]", vs.iter().map(|v| hex(v)).collect::<Vec<_>>().join(",")))).collect(); items.sort();
                        format!("{{{}}}", items.into_iter().map(|(k, v)| format!("{}={}", k, v)).collect::<Vec<_>>().join(";")) };
                    let text: Vec<(String, Vec<Vec<u8>>)> = e.attrs.iter().map(|(k, v)| (k.clone(), v.iter().map(|s| s.as_bytes().to_vec()).collect())).collect();
                    let bin: Vec<(String, Vec<Vec<u8>>)> = e.bin_attrs.iter().map(|(k, v)| (k.clone(), v.clone())).collect();
                    let out = format!("dn={} text={} bin={}", hex(e.dn.as_bytes()), show(text), show(bin));
                    (out, entry_oracle(&t, &e))
                }
            }
        }
        "result" => {
            let t = parse_tree(args[0]);
            match guarded(move || LdapResult::from(Tag::StructureTag(t))) {
                None => ("panic".into(), None),
                Some(r) => (format!("rc={} matched={} text={} refs=[{}]", r.rc, hex(r.matched.as_bytes()), hex(r.text.as_bytes()), r.refs.iter().map(|u| hex(u.as_bytes())).collect::<Vec<_>>().join(",")), None),
            }
        }
        "helpers" => {
            let rc: u32 = args[0].parse().unwrap();
            let mk = || LdapResult { rc, matched: String::new(), text: String::new(), refs: vec![], ctrls: vec![] };
            let b = |x: bool| if x { "1" } else { "0" };
            let eq = match ldap3::result::CompareResult(mk()).equal() { Ok(true) => "true", Ok(false) => "false", Err(_) => "err" };
            let out = format!("success={} non_error={} equal={} cmp_non_error={}", b(mk().success().is_ok()), b(mk().non_error().is_ok()), eq, b(ldap3::result::CompareResult(mk()).non_error().is_ok()));
            let want = format!("success={} non_error={} equal={} cmp_non_error={}", b(rc == 0), b(rc == 0 || rc == 10), if rc == 5 { "false" } else if rc == 6 { "true" } else { "err" }, b(rc == 5 || rc == 6 || rc == 10));
            let oracle = if out != want { Some(format!("documented helper semantics for rc={} are {}", rc, want)) } else { None };
            (out, oracle)
        }
        "url" => {
            let u = String::from_utf8(unhex(args[0])).unwrap();
            let parsed = match url::Url::parse(&u) { Ok(p) => p, Err(_) => return ("url-crate-rejects".into(), None) };
            if hex(parsed.path().as_bytes()) != args[1] || parsed.query().map(|q| hex(q.as_bytes())).unwrap_or("none".into()) != args[2] { return ("url-crate-drift".into(), None); }
            match guarded(|| ldap3::get_url_params(&parsed).map(|p| {
                let mut ex: Vec<String> = p.extensions.iter().map(|e| match e {
                    ldap3::LdapUrlExt::Bindname(v) => format!("bindname={}", hex(v.as_bytes())), ldap3::LdapUrlExt::XBindpw(v) => format!("x-bindpw={}", hex(v.as_bytes())),
                    ldap3::LdapUrlExt::Credentials(v) => format!("credentials={}", hex(v.as_bytes())), ldap3::LdapUrlExt::SaslMech(v) => format!("saslmech={}", hex(v.as_bytes())),
                    ldap3::LdapUrlExt::StartTLS => "starttls".to_string(), ldap3::LdapUrlExt::Unknown(v) => format!("unknown={}", hex(v.as_bytes())) }).collect();
                ex.sort();
                format!("base={} attrs=[{}] scope={} filter={} exts={{{}}}", hex(p.base.as_bytes()), p.attrs.iter().map(|a| hex(a.as_bytes())).collect::<Vec<_>>().join(","),
                    match p.scope { ldap3::Scope::Base => "base", ldap3::Scope::OneLevel => "one", ldap3::Scope::Subtree => "sub" }, hex(p.filter.as_bytes()), ex.join(";"))
            })) {
                None => ("panic".into(), Some("get_url_params panicked".into())),
                Some(Ok(s)) => { let o = url_oracle(&u, &s); (s, o) }
                Some(Err(e)) => { let cls = match e { ldap3::LdapError::DecodingUTF8 => "utf8", ldap3::LdapError::InvalidScopeString(_) => "scope", ldap3::LdapError::UnrecognizedCriticalExtension(_) => "critical", _ => "other" };
                    let s = format!("err {}", cls); let o = url_oracle(&u, &s); (s, o) }
            }
        }
        _ => unreachable!(),
    }
}

/// C15 evaluated directly on a well-formed entry (independent of the model).
fn entry_oracle(t: &StructureTag, e: &SearchEntry) -> Option<String> {
    let kids = match &t.payload { PL::C(k) if t.id == 4 && k.len() >= 2 => k, _ => return None };
    let dn = match &kids[0].payload { PL::P(v) => v, _ => return None };
    if std::str::from_utf8(dn).is_err() { return None; }
    let attrs = match &kids[1].payload { PL::C(a) => a, _ => return None };
    let mut spec: Vec<(Vec<u8>, Vec<Vec<u8>>)> = vec![];
    for a in attrs {
        let parts = match &a.payload { PL::C(x) if x.len() >= 2 => x, _ => return None };
        let name = match &parts[0].payload { PL::P(v) => v.clone(), _ => return None };
        if std::str::from_utf8(&name).is_err() { return None; }
        let vals = match &parts[1].payload { PL::C(vs) => vs, _ => return None };
        let mut vv = vec![]; for v in vals { match &v.payload { PL::P(x) => vv.push(x.clone()), _ => return None } }
        // a description may come in several elements (F41): its values are all of theirs, in the order sent
        if let Some(s) = spec.iter_mut().find(|(n, _)| *n == name) { s.1.extend(vv); } else { spec.push((name, vv)); }
    }
    if e.dn.as_bytes() != &dn[..] { return Some("dn differs from the server's".into()); }
    for (name, vals) in &spec {
        let k = String::from_utf8(name.clone()).unwrap();
        let all_text = vals.iter().all(|v| std::str::from_utf8(v).is_ok());
        let (t, b) = (e.attrs.get(&k), e.bin_attrs.get(&k));
        if all_text {
            if b.is_some() { return Some(format!("attribute {} with only UTF-8 values appears in the binary map", k)); }
            match t { Some(tv) if tv.iter().map(|s| s.as_bytes().to_vec()).collect::<Vec<_>>() == *vals => {}, _ => return Some(format!("attribute {}: text values lost, altered or reordered", k)) }
        } else {
            if t.is_some() { return Some(format!("attribute {} with a non-UTF-8 value appears in the text map", k)); }
            let mut got = b.cloned().unwrap_or_default(); let mut want = vals.clone(); got.sort(); want.sort();
            if got != want { return Some(format!("attribute {}: binary map is not the multiset of its values", k)); }
        }
    }
    if e.attrs.len() + e.bin_attrs.len() != spec.len() { return Some("an attribute is missing or appears in both maps / a spurious key appears".into()); }
    None
}

/// C20 evaluated directly: an independent RFC 4516 reading of the URL text (percent-decoding every component, attribute list included).
fn url_oracle(u: &str, got: &str) -> Option<String> {
    let rest = u.splitn(2, "://").nth(1)?;
    let slash = rest.find('/');
    let (dnq, _host) = match slash { Some(i) => (&rest[i + 1..], &rest[..i]), None => ("", rest) };
    if dnq.contains('#') { return None; }
    let mut f = dnq.splitn(5, '?');
    let pdec = |s: &str| -> Option<Result<String, ()>> { // None: malformed escape (outside RFC 4516), Some(Err): not UTF-8
        let b = s.as_bytes(); let mut o = vec![]; let mut i = 0;
        while i < b.len() { if b[i] == b'%' { if i + 2 >= b.len() + 0 && i + 2 > b.len() - 1 { return None; } let h = (b[i + 1] as char).to_digit(16)?; let l = (b[i + 2] as char).to_digit(16)?; o.push((h * 16 + l) as u8); i += 3; } else { o.push(b[i]); i += 1; } }
        Some(String::from_utf8(o).map_err(|_| ())) };
    let dn = f.next().unwrap_or(""); let attrs = f.next().unwrap_or(""); let scope = f.next().unwrap_or(""); let filt = f.next().unwrap_or(""); let exts = f.next().unwrap_or("");
    if !u.is_ascii() || u.contains(' ') || u.contains('"') || u.contains('<') || u.contains('>') || u.contains('`') || u.contains('{') || u.contains('}') || u.contains('\\') || u.contains('^') || u.contains('|') { return None; } // the url crate re-encodes these: outside this oracle
    let mut want_err: Option<&str> = None;
    let base = match pdec(dn) { None => return None, Some(Err(())) => { want_err = Some("utf8"); String::new() } Some(Ok(s)) => s };
    let mut alist = vec![];
    if want_err.is_none() { if attrs.is_empty() { alist.push("*".to_string()); } else { for a in attrs.split(',') { match pdec(a) { None => return None, Some(Err(())) => return None, Some(Ok(s)) => alist.push(s) } } } }
    let sc = if want_err.is_some() { "" } else { match scope.to_ascii_lowercase().as_str() { "" | "sub" => "sub", "base" => "base", "one" => "one", _ => { want_err = Some("scope"); "" } } };
    let filter = if want_err.is_some() { String::new() } else { match pdec(if filt.is_empty() { "(objectClass=*)" } else { filt }) { None => return None, Some(Err(())) => { want_err = Some("utf8"); String::new() } Some(Ok(s)) => s } };
    let mut ex: Vec<String> = vec![]; let mut seen = std::collections::HashSet::new();
    if want_err.is_none() && !exts.is_empty() {
        for e in exts.split(',') {
            let (crit, body) = if let Some(b) = e.strip_prefix('!') { (true, b) } else { (false, e) };
            let (name, val) = match body.find('=') { Some(i) => (&body[..i], &body[i + 1..]), None => (body, "") };
            let v = match pdec(val) { None => return None, Some(Err(())) => { want_err = Some("utf8"); break; } Some(Ok(s)) => s };
            let kind = match name { "1.3.6.1.4.1.10094.1.5.1" => "credentials", "1.3.6.1.4.1.10094.1.5.2" => "saslmech", "1.3.6.1.4.1.1466.20037" => "starttls",
                n if n.eq_ignore_ascii_case("bindname") => "bindname", n if n.eq_ignore_ascii_case("x-bindpw") => "x-bindpw", _ => { if crit { want_err = Some("critical"); break; } continue; } };
            if seen.insert(kind) { ex.push(if kind == "starttls" { kind.to_string() } else { format!("{}={}", kind, hex(v.as_bytes())) }); }
        }
        ex.sort();
    }
    let want = match want_err { Some(e) => format!("err {}", e),
        None => format!("base={} attrs=[{}] scope={} filter={} exts={{{}}}", hex(base.as_bytes()), alist.iter().map(|a| hex(a.as_bytes())).collect::<Vec<_>>().join(","), sc, hex(filter.as_bytes()), ex.join(";")) };
    if want != got && want_err.is_none() {
        // the one recorded deviation (F19): everything equal except that the attribute descriptions were left percent-encoded
        let raw: Vec<String> = if attrs.is_empty() { vec!["*".to_string()] } else { attrs.split(',').map(|a| a.to_string()).collect() };
        let want_raw = format!("base={} attrs=[{}] scope={} filter={} exts={{{}}}", hex(base.as_bytes()), raw.iter().map(|a| hex(a.as_bytes())).collect::<Vec<_>>().join(","), sc, hex(filter.as_bytes()), ex.join(";"));
        if want_raw == got { return Some("F19-attrs-not-percent-decoded: every component equals the RFC 4516 reading except the attribute list, which is returned still percent-encoded".into()); }
    }
    if want != got { Some(format!("RFC 4516 reading: {} ; library: {}", crate::lanes::ber::clip(&want), crate::lanes::ber::clip(got))) } else { None }
}
