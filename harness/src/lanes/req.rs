//! C02 lane: real operations over the in-memory transport; the bytes each one writes are captured, read by an independent
//! BER reader, canonicalised (SET OF sorted) and compared with the model; an independent RFC 4511 request reader is the oracle.
use crate::lanes::frame::{ldap_result, message};
use crate::ownber;
use crate::ownfilter;
use crate::rng::Rng;
use crate::sess::*;
use crate::text::*;
use lber::common::TagClass;
use lber::structure::{StructureTag, PL};
use ldap3::controls::RawControl;
use ldap3::exop::Exop;
use ldap3::{DerefAliases, Mod, Scope, SearchOptions};
use std::collections::HashSet;
use std::time::Duration;

#[derive(Clone, Debug)]
pub struct Mods { pub ctrls: Option<Vec<(Vec<u8>, bool, Option<Vec<u8>>)>>, pub timeout: Option<u64>, pub opts: Option<(i64, bool, i64, i64)>, pub withheld: bool }
#[derive(Clone, Debug)]
pub enum Op {
    Bind(Vec<u8>, Vec<u8>), Sasl, Search(Vec<u8>, i64, Vec<u8>, Vec<Vec<u8>>), Add(Vec<u8>, Vec<(Vec<u8>, Vec<Vec<u8>>)>), Compare(Vec<u8>, Vec<u8>, Vec<u8>), Delete(Vec<u8>),
    Modify(Vec<u8>, Vec<(i64, Vec<u8>, Vec<Vec<u8>>)>), ModDn(Vec<u8>, Vec<u8>, bool, Option<Vec<u8>>), Ext(Vec<u8>, Option<Vec<u8>>), Abandon(i64), Unbind,
}

fn hexlist(v: &[Vec<u8>]) -> String { if v.is_empty() { "~".into() } else { v.iter().map(|x| hex(x)).collect::<Vec<_>>().join(",") } }
fn unhexlist(s: &str) -> Vec<Vec<u8>> { if s == "~" { vec![] } else { s.split(',').map(unhex).collect() } }

pub fn show_mods(m: &Mods) -> String {
    format!("{}:{}:{}:{}", if m.withheld { "M" } else { "m" },
        match &m.ctrls { None => "none".to_string(), Some(cs) if cs.is_empty() => "~".into(), Some(cs) => cs.iter().map(|(o, c, v)| format!("{}.{}.{}", hex(o), if *c { 1 } else { 0 }, opt_hex(v))).collect::<Vec<_>>().join(";") },
        match m.timeout { None => "none".to_string(), Some(t) => t.to_string() },
        match m.opts { None => "none".to_string(), Some((d, t, tl, sl)) => format!("{}.{}.{}.{}", d, if t { 1 } else { 0 }, tl, sl) })
}
pub fn show_base_mods(m: &Mods) -> String { let t = show_mods(m); format!("k{}", &t[1..]) }
pub fn parse_mods(s: &str) -> Mods {
    let f: Vec<&str> = s.split(':').collect();
    Mods {
        withheld: f[0] == "M",
        ctrls: match f[1] { "none" => None, "~" => Some(vec![]), cs => Some(cs.split(';').map(|c| { let p: Vec<&str> = c.split('.').collect(); (unhex(p[0]), p[1] == "1", un_opt_hex(p[2])) }).collect()) },
        timeout: if f[2] == "none" { None } else { Some(f[2].parse().unwrap()) },
        opts: if f[3] == "none" { None } else { let p: Vec<&str> = f[3].split('.').collect(); Some((p[0].parse().unwrap(), p[1] == "1", p[2].parse().unwrap(), p[3].parse().unwrap())) },
    }
}
pub fn show_op(o: &Op) -> String {
    let av = |a: &Vec<u8>, vs: &Vec<Vec<u8>>| format!("{}={}", hex(a), hexlist(vs));
    match o {
        Op::Bind(d, p) => format!("bind/{}/{}", hex(d), hex(p)), Op::Sasl => "sasl".into(),
        Op::Search(b, s, f, a) => format!("search/{}/{}/{}/{}", hex(b), s, hex(f), hexlist(a)),
        Op::Add(d, avs) => format!("add/{}/{}", hex(d), if avs.is_empty() { "~".into() } else { avs.iter().map(|(a, v)| av(a, v)).collect::<Vec<_>>().join(";") }),
        Op::Compare(d, a, v) => format!("compare/{}/{}/{}", hex(d), hex(a), hex(v)), Op::Delete(d) => format!("delete/{}", hex(d)),
        Op::Modify(d, ms) => format!("modify/{}/{}", hex(d), if ms.is_empty() { "~".into() } else { ms.iter().map(|(k, a, v)| format!("{}@{}", k, av(a, v))).collect::<Vec<_>>().join(";") }),
        Op::ModDn(d, r, del, ns) => format!("moddn/{}/{}/{}/{}", hex(d), hex(r), if *del { 1 } else { 0 }, opt_hex(ns)),
        Op::Ext(n, v) => format!("ext/{}/{}", hex(n), opt_hex(v)), Op::Abandon(i) => format!("abandon/{}", i), Op::Unbind => "unbind".into(),
    }
}
pub fn parse_op(s: &str) -> Op {
    let f: Vec<&str> = s.split('/').collect();
    let av = |x: &str| -> (Vec<u8>, Vec<Vec<u8>>) { let p: Vec<&str> = x.split('=').collect(); (unhex(p[0]), unhexlist(p[1])) };
    match f[0] {
        "bind" => Op::Bind(unhex(f[1]), unhex(f[2])), "sasl" => Op::Sasl,
        "search" => Op::Search(unhex(f[1]), f[2].parse().unwrap(), unhex(f[3]), unhexlist(f[4])),
        "add" => Op::Add(unhex(f[1]), if f[2] == "~" { vec![] } else { f[2].split(';').map(av).collect() }),
        "compare" => Op::Compare(unhex(f[1]), unhex(f[2]), unhex(f[3])), "delete" => Op::Delete(unhex(f[1])),
        "modify" => Op::Modify(unhex(f[1]), if f[2] == "~" { vec![] } else { f[2].split(';').map(|m| { let p: Vec<&str> = m.split('@').collect(); let (a, v) = av(p[1]); (p[0].parse().unwrap(), a, v) }).collect() }),
        "moddn" => Op::ModDn(unhex(f[1]), unhex(f[2]), f[3] == "1", un_opt_hex(f[4])),
        "ext" => Op::Ext(unhex(f[1]), un_opt_hex(f[2])), "abandon" => Op::Abandon(f[1].parse().unwrap()), "unbind" => Op::Unbind,
        _ => panic!("op"),
    }
}

// ------------------------------------------------------------------------------------------------ generator
pub fn rstr(rng: &mut Rng) -> Vec<u8> {
    match rng.below(8) { 0 => vec![], 1 => "cn=é,dc=€".as_bytes().to_vec(), 2 => vec![b'x'; *rng.pick(&[127usize, 128, 129, 300])], _ => { let n = 1 + rng.below(10) as usize; (0..n).map(|_| b"abcdefgh=,. 0123"[rng.below(16) as usize]).collect() } }
}
fn rval(rng: &mut Rng) -> Vec<u8> { if rng.chance(1, 4) { rng.bytes(rng.clone().below(6) as usize) } else { rstr(rng) } }
fn rvals(rng: &mut Rng, allow_empty: bool) -> Vec<Vec<u8>> {
    // now and then a large value list (the SET OF then needs a 2-octet length)
    let n = if allow_empty && rng.chance(1, 6) { 0 } else if rng.chance(1, 40) { 60 + rng.below(200) as usize } else { 1 + rng.below(4) as usize };
    let mut v: Vec<Vec<u8>> = (0..n).map(|i| { let mut x = rval(rng); x.push(b'#'); x.extend(i.to_string().as_bytes()); x }).collect(); v.dedup(); v
}
pub fn rand_mods(rng: &mut Rng) -> Mods {
    Mods {
        withheld: false,
        ctrls: if rng.chance(1, 3) { Some((0..rng.below(4)).map(|i| (format!("1.2.840.{}", 100 + i).into_bytes(), rng.chance(1, 2), match rng.below(5) { 0 | 1 => Some(rng.bytes(4)), 2 => Some(vec![]), _ => None })).collect()) } else { None },
        timeout: if rng.chance(1, 5) { Some(1000 + rng.below(5000)) } else { None },
        opts: if rng.chance(1, 3) { Some((rng.below(4) as i64, rng.chance(1, 2), *rng.pick(&[0i64, 1, 127, 128, 3600, 65536]), *rng.pick(&[0i64, 7, 255, 256, 100000]))) } else { None },
    }
}
pub fn rand_op(rng: &mut Rng) -> Op {
    let filters: &[&[u8]] = &[b"(objectClass=*)", b"(&(cn=a*)(!(sn=b)))", b"(cn:dn:2.5.13.5:=x)", b"uid=j\\2a", b"(|(a>=1)(b<=2)(c~=3))", b"(broken", b"(cn=\xc3\xa9)"];
    match rng.below(14) {
        0 => Op::Bind(rstr(rng), rstr(rng)), 1 => Op::Sasl,
        2 | 3 => Op::Search(rstr(rng), rng.below(3) as i64, rng.pick(filters).to_vec(), (0..if rng.chance(1, 30) { 150 } else { rng.below(4) }).map(|_| rng.pick(&[&b"cn"[..], b"*", b"+", b"1.1", b"mail"]).to_vec()).collect()),
        4 => Op::Add(rstr(rng), (0..rng.below(4)).map(|i| (format!("a{}", i).into_bytes(), rvals(rng, true))).collect()),
        5 => Op::Compare(rstr(rng), b"cn".to_vec(), rval(rng)), 6 => Op::Delete(rstr(rng)),
        7 | 8 => Op::Modify(rstr(rng), (0..rng.below(5)).map(|i| { let k = rng.below(4) as i64; (k, format!("m{}", i).into_bytes(), if k == 3 { vec![b"1".to_vec()] } else { rvals(rng, true) }) }).collect()),
        9 => Op::ModDn(rstr(rng), rstr(rng), rng.chance(1, 2), if rng.chance(1, 2) { Some(rstr(rng)) } else { None }),
        10 => Op::Ext(b"1.3.6.1.4.1.4203.1.11.3".to_vec(), None),
        11 => Op::Ext(format!("1.2.{}", rng.below(1000)).into_bytes(), if rng.chance(2, 3) { Some(rng.bytes(8)) } else { None }),
        12 => Op::Abandon(*rng.pick(&[0i64, 1, 2, 127, 128, 65535, 0x7fffffff])),
        _ => Op::Delete(rstr(rng)),
    }
}
pub fn gen(rng: &mut Rng, n: usize, out: &mut Vec<String>) {
    for _ in 0..n {
        let k = 1 + rng.below(6) as usize;
        let mut toks = vec![];
        for j in 0..k {
            let mut m = rand_mods(rng);
            let o = if j == k - 1 && rng.chance(1, 10) { Op::Unbind } else { rand_op(rng) };
            // one call in eight gets no answer and ends in a timeout (its modifiers are spent all the same)
            if j + 1 < k && rng.chance(1, 8) && !matches!(o, Op::Abandon(_) | Op::Unbind) { m.withheld = true; if m.timeout.is_none() { m.timeout = Some(1000 + rng.below(3000)); } }
            // one call in six goes through a clone made while modifiers are pending on the handle (they must reach the handle's NEXT own operation)
            if rng.chance(1, 6) && !matches!(o, Op::Unbind) { let mut mb = rand_mods(rng); if mb.ctrls.is_none() && mb.opts.is_none() { mb.opts = Some((3, true, 9, 7)); } toks.push(show_base_mods(&mb)); }
            toks.push(show_mods(&m)); toks.push(show_op(&o));
        }
        out.push(format!("req {}", toks.join(" ")));
    }
    // a control whose value is present but empty (e.g. anonymous proxied authorization) keeps its (empty) value on the wire
    out.push("req m:322e31362e3834302e312e3131333733302e332e342e3138.1.-;312e32.0.none:none:none delete/64633d78".into());
    // modifiers pending on a handle when it is cloned: the clone's operation must not carry them, the handle's next one must
    out.push("req k:312e32.1.none:none:3.1.9.7 m:none:none:none delete/64633d78 m:none:none:none search/64633d78/2/28613d6229/~".into());
    // a timed-out operation in the middle: what it carried must not reach the next operation
    out.push("req M:none:1500:3.1.9.7 delete/64633d78 m:none:none:none search/64633d78/2/28613d6229/~".into());
    out.push("req M:312e32.1.none:1500:none compare/64633d78/636e/78 m:none:none:none delete/64633d78".into());
    // the recorded witnesses of F10 / F11
    out.push("req m:none:none:3.0.0.7 delete/64633d78 m:none:none:none search/64633d78/2/28613d6229/~".into());
    out.push("req m:312e32.1.none:none:none add/64633d78/61=~ m:none:none:none delete/64633d78".into());
    out.push("req m:312e32.0.6162:5000:1.1.5.6 modify/64633d78/0@61=~ m:none:none:none search/-/0/28613d6229/636e".into());
}

// ------------------------------------------------------------------------------------------------ execution
fn canon(t: &StructureTag) -> StructureTag {
    match &t.payload {
        PL::P(_) => t.clone(),
        PL::C(ts) => { let mut k: Vec<StructureTag> = ts.iter().map(canon).collect();
            if t.class == TagClass::Universal && t.id == 17 { k.sort_by_key(show_tree); }
            StructureTag { class: t.class, id: t.id, payload: PL::C(k) } }
    }
}
fn s(b: &[u8]) -> String { String::from_utf8_lossy(b).into_owned() }

async fn server_task(mut sess_server: tokio::io::DuplexStream, log: std::sync::Arc<std::sync::Mutex<Vec<Vec<u8>>>>, silent: std::sync::Arc<std::sync::Mutex<HashSet<i64>>>) {
    use tokio::io::{AsyncReadExt, AsyncWriteExt};
    let mut inbuf: Vec<u8> = vec![]; let mut buf = vec![0u8; 65536];
    loop {
        let n = match sess_server.read(&mut buf).await { Ok(0) | Err(_) => return, Ok(n) => n };
        inbuf.extend_from_slice(&buf[..n]);
        loop {
            let mut min = true;
            let (t, used) = match ownber::read(&inbuf, &mut min, 0) { ownber::Own::Ok(t, u) => (t, u), _ => break };
            log.lock().unwrap().push(inbuf[..used].to_vec());
            inbuf.drain(..used);
            // reply so that the operation completes
            if let PL::C(k) = &t.payload { if k.len() >= 2 {
                let id = match &k[0].payload { PL::P(v) => ownber::twos(v).unwrap_or(0) as i64, _ => 0 };
                let reply = match k[1].id { 0 => Some(1u64), 3 => Some(5), 6 => Some(7), 8 => Some(9), 10 => Some(11), 12 => Some(13), 14 => Some(15), 23 => Some(24), _ => None };
                if silent.lock().unwrap().contains(&id) { continue; }
                if let Some(app) = reply { let mut e = vec![]; ownber::write(&message(id, ldap_result(app, if app == 15 { 6 } else { 0 }, b"", b"", None), None), &mut e, &mut |_| 0); if sess_server.write_all(&e).await.is_err() { return; } }
            } }
        }
    }
}

fn set_mods(l: &mut ldap3::Ldap, m: &Mods) {
    if let Some(cs) = &m.ctrls { l.with_controls(cs.iter().map(|(o, c, v)| RawControl { ctype: s(o), crit: *c, val: v.clone() }).collect::<Vec<_>>()); }
    if let Some(t) = m.timeout { l.with_timeout(Duration::from_millis(t)); }
    if let Some((d, ty, tl, sl)) = m.opts {
        let de = match d { 0 => DerefAliases::Never, 1 => DerefAliases::Searching, 2 => DerefAliases::Finding, _ => DerefAliases::Always };
        l.with_search_options(SearchOptions::new().deref(de).typesonly(ty).timelimit(tl as i32).sizelimit(sl as i32));
    }
}
async fn invoke(ldap: &mut ldap3::Ldap, op: &Op) -> Option<String> {
    match op {
        Op::Bind(d, p) => ldap.simple_bind(&s(d), &s(p)).await.err().map(|e| err_class(&e).to_string()),
        Op::Sasl => ldap.sasl_external_bind().await.err().map(|e| err_class(&e).to_string()),
        Op::Search(b, sc, f, at) => { let scope = match sc { 0 => Scope::Base, 1 => Scope::OneLevel, _ => Scope::Subtree };
            ldap.search(&s(b), scope, &s(f), at.iter().map(|a| s(a)).collect::<Vec<_>>()).await.err().map(|e| err_class(&e).to_string()) }
        Op::Add(d, avs) => ldap.add(&s(d), avs.iter().map(|(a, vs)| (a.clone(), vs.iter().cloned().collect::<HashSet<_>>())).collect()).await.err().map(|e| err_class(&e).to_string()),
        Op::Compare(d, a, v) => ldap.compare(&s(d), &s(a), v).await.err().map(|e| err_class(&e).to_string()),
        Op::Delete(d) => ldap.delete(&s(d)).await.err().map(|e| err_class(&e).to_string()),
        Op::Modify(d, ms) => ldap.modify(&s(d), ms.iter().map(|(k, a, vs)| { let set: HashSet<Vec<u8>> = vs.iter().cloned().collect();
            match k { 0 => Mod::Add(a.clone(), set), 1 => Mod::Delete(a.clone(), set), 2 => Mod::Replace(a.clone(), set), _ => Mod::Increment(a.clone(), vs.first().cloned().unwrap_or_default()) } }).collect()).await.err().map(|e| err_class(&e).to_string()),
        Op::ModDn(d, r, del, ns) => ldap.modifydn(&s(d), &s(r), *del, ns.as_ref().map(|x| s(x)).as_deref()).await.err().map(|e| err_class(&e).to_string()),
        Op::Ext(n, v) => ldap.extended(Exop { name: Some(s(n)), val: v.clone() }).await.err().map(|e| err_class(&e).to_string()),
        Op::Abandon(i) => ldap.abandon(*i as i32).await.err().map(|e| err_class(&e).to_string()),
        Op::Unbind => ldap.unbind().await.err().map(|e| err_class(&e).to_string()),
    }
}
fn overlay(p: &Mods, m: &Mods) -> Mods {
    Mods { ctrls: m.ctrls.clone().or(p.ctrls.clone()), timeout: m.timeout.or(p.timeout), opts: m.opts.or(p.opts), withheld: m.withheld }
}

/// A case is a list of steps: `m:.. <op>` = set the modifiers on the handle and invoke the operation on it; `k:.. m:.. <op>` = set the first
/// modifiers on the handle and leave them pending, clone the handle, set the second modifiers on the clone and invoke the operation on the clone.
pub fn run(_lane: &str, args: &[&str]) -> (String, Option<String>) {
    let mut calls: Vec<(Option<Mods>, Mods, Op)> = vec![];
    let mut i = 0;
    while i + 1 < args.len() {
        if args[i].starts_with("k:") && i + 2 < args.len() { calls.push((Some(parse_mods(args[i])), parse_mods(args[i + 1]), parse_op(args[i + 2]))); i += 3; }
        else { calls.push((None, parse_mods(args[i]), parse_op(args[i + 1]))); i += 2; }
    }
    let rt = runtime();
    let res = std::panic::catch_unwind(std::panic::AssertUnwindSafe(|| rt.block_on(async {
        let Sess { mut ldap, server, driver: _driver, .. } = new_sess();
        let log = std::sync::Arc::new(std::sync::Mutex::new(vec![]));
        let silent = std::sync::Arc::new(std::sync::Mutex::new(HashSet::new()));
        tokio::spawn(server_task(server, log.clone(), silent.clone()));
        let mut outs: Vec<String> = vec![]; let mut oracle: Option<String> = None; let mut next_id = 1i64;
        let none = Mods { ctrls: None, timeout: None, opts: None, withheld: false };
        let mut pend = none.clone();          // oracle: what has been set on the base handle since its last own operation
        for (mb, m, op) in &calls {
            if m.withheld { silent.lock().unwrap().insert(next_id); }
            let before = log.lock().unwrap().len();
            let (sent_err, eff): (Option<String>, Mods) = match mb {
                None => { set_mods(&mut ldap, m); let eff = overlay(&pend, m); pend = none.clone(); let r = invoke(&mut ldap, op).await;
                    // C02: "controls, timeout and search options set on a handle affect exactly the next operation invoked on it and none after it":
                    // whatever the outcome of the call, nothing may still be parked on the handle afterwards (a stale timeout shows in no request)
                    if ldap.timeout.is_some() || ldap.controls.is_some() || ldap.search_opts.is_some() { oracle.get_or_insert(format!("[only:C02,C12] after {} the handle still holds modifiers (timeout {:?}, controls {}, search options {}): they would affect a later operation", show_op(op), ldap.timeout, ldap.controls.is_some(), ldap.search_opts.is_some())); }
                    (r, eff) }
                Some(mb) => { set_mods(&mut ldap, mb); pend = overlay(&pend, mb); let mut k = ldap.clone(); set_mods(&mut k, m); let r = invoke(&mut k, op).await;
                    if k.timeout.is_some() || k.controls.is_some() || k.search_opts.is_some() { oracle.get_or_insert(format!("[only:C02,C12] after {} the cloned handle still holds modifiers (timeout {:?}, controls {}, search options {})", show_op(op), k.timeout, k.controls.is_some(), k.search_opts.is_some())); }
                    (r, m.clone()) }
            };
            let m = &eff;
            settle().await;
            let reqs: Vec<Vec<u8>> = log.lock().unwrap()[before..].to_vec();
            if reqs.len() > 1 { outs.push(format!("several-requests:{}", reqs.len())); oracle.get_or_insert("one call wrote more than one LDAPMessage".into()); continue; }
            match reqs.first() {
                None => { outs.push("local-error".into()); silent.lock().unwrap().remove(&next_id);
                    let expect_local = matches!(op, Op::Add(_, avs) if avs.iter().any(|(_, v)| v.is_empty())) || matches!(op, Op::Modify(_, ms) if ms.iter().any(|(k, _, v)| *k == 0 && v.is_empty()))
                        || matches!(op, Op::Search(_, _, f, _) if ownfilter::parse(f).tree.is_none());
                    if !expect_local { oracle.get_or_insert(format!("no request was written for {} (error class {:?})", show_op(op), sent_err)); } }
                Some(bytes) => {
                    match read_tree(bytes) {
                        None => { outs.push(format!("not-one-tlv:{}", hex(bytes))); oracle.get_or_insert("request is not one well-formed definite-length TLV".into()); }
                        Some(t) => { outs.push(show_tree(&canon(&t)));
                            let want = describe_args(next_id, m, op); let got = describe_tree(&t);
                            if got.as_deref() != Some(want.as_str()) { oracle.get_or_insert(format!("RFC 4511 reading of the request is {:?}, the caller asked for {}", got.map(|x| crate::lanes::ber::clip(&x)), crate::lanes::ber::clip(&want))); } }
                    }
                    next_id += 1;
                }
            }
        }
        (outs.join(" | "), oracle)
    })));
    match res { Ok(x) => x, Err(_) => ("panic".into(), Some("operation panicked".into())) }
}

// ---- independent RFC 4511 request reader: both functions print the same canonical description -------------------------
fn fmt_ctrls(cs: &Option<Vec<(Vec<u8>, bool, Option<Vec<u8>>)>>) -> String {
    match cs { None => "ctrls=absent".into(), Some(v) => format!("ctrls=[{}]", v.iter().map(|(o, c, x)| format!("{}/{}/{}", hex(o), c, opt_hex(x))).collect::<Vec<_>>().join(",")) }
}
fn sorted(vs: &[Vec<u8>]) -> String { let mut v: Vec<String> = vs.iter().map(|x| hex(x)).collect(); v.sort(); v.join(",") }
fn describe_args(id: i64, m: &Mods, op: &Op) -> String {
    let body = match op {
        Op::Bind(d, p) => format!("bind v=3 dn={} simple={}", hex(d), hex(p)),
        Op::Sasl => "bind v=3 dn=- sasl=45585445524e414c creds=-".into(),
        Op::Search(b, sc, f, at) => { let (d, ty, tl, sl) = m.opts.unwrap_or((0, false, 0, 0));
            format!("search base={} scope={} deref={} size={} time={} typesonly={} filter={} attrs=[{}]", hex(b), sc, d, sl, tl, ty,
                ownfilter::parse(f).tree.map(|t| show_tree(&t)).unwrap_or("?".into()), at.iter().map(|a| hex(a)).collect::<Vec<_>>().join(",")) }
        Op::Add(d, avs) => format!("add dn={} attrs=[{}]", hex(d), avs.iter().map(|(a, v)| format!("{}={{{}}}", hex(a), sorted(v))).collect::<Vec<_>>().join(";")),
        Op::Compare(d, a, v) => format!("compare dn={} attr={} val={}", hex(d), hex(a), hex(v)),
        Op::Delete(d) => format!("delete dn={}", hex(d)),
        Op::Modify(d, ms) => format!("modify dn={} mods=[{}]", hex(d), ms.iter().map(|(k, a, v)| format!("{}:{}={{{}}}", k, hex(a), sorted(v))).collect::<Vec<_>>().join(";")),
        Op::ModDn(d, r, del, ns) => format!("moddn dn={} rdn={} delold={} newsup={}", hex(d), hex(r), del, opt_hex(ns)),
        Op::Ext(n, v) => format!("extended name={} val={}", hex(n), opt_hex(v)),
        Op::Abandon(i) => format!("abandon id={}", i), Op::Unbind => "unbind".into(),
    };
    format!("id={} {} {}", id, body, fmt_ctrls(&m.ctrls))
}
fn describe_tree(t: &StructureTag) -> Option<String> {
    let u = TagClass::Universal;
    let kids = |t: &StructureTag| -> Option<Vec<StructureTag>> { match &t.payload { PL::C(k) => Some(k.clone()), _ => None } };
    let prim = |t: &StructureTag, c: TagClass, id: u64| -> Option<Vec<u8>> { if t.class == c && t.id == id { if let PL::P(v) = &t.payload { return Some(v.clone()); } } None };
    let int = |t: &StructureTag, id: u64| -> Option<i128> { let v = prim(t, u, id)?; if !ownber::shortest_int(&v) { return None; } ownber::twos(&v) };
    let boolean = |t: &StructureTag| -> Option<bool> { let v = prim(t, u, 1)?; if v.len() != 1 { return None; } Some(v[0] != 0) };
    if t.class != u || t.id != 16 { return None; }
    let k = kids(t)?; if k.len() < 2 || k.len() > 3 { return None; }
    let id = int(&k[0], 2)?; if !(1..=0x7fffffff).contains(&id) { return None; }
    let ctrls = if k.len() == 3 {
        if k[2].class != TagClass::Context || k[2].id != 0 { return None; }
        let mut v = vec![];
        for c in kids(&k[2])? { if c.class != u || c.id != 16 { return None; } let p = kids(&c)?;
            let oid = prim(p.first()?, u, 4)?;
            let (crit, val) = match p.len() { 1 => (false, None), 2 => if let Some(b) = boolean(&p[1]) { if !b { return None; } (b, None) } else { (false, Some(prim(&p[1], u, 4)?)) }, 3 => { let b = boolean(&p[1])?; if !b { return None; } (b, Some(prim(&p[2], u, 4)?)) } _ => return None };
            v.push((oid, crit, val)); }
        Some(v) } else { None };
    let op = &k[1];
    if op.class != TagClass::Application { return None; }
    let avs = |t: &StructureTag| -> Option<(Vec<u8>, Vec<Vec<u8>>)> { if t.class != u || t.id != 16 { return None; } let p = kids(t)?; if p.len() != 2 { return None; }
        let a = prim(&p[0], u, 4)?; if p[1].class != u || p[1].id != 17 { return None; } let mut vs = vec![]; for v in kids(&p[1])? { vs.push(prim(&v, u, 4)?); } Some((a, vs)) };
    let body = match op.id {
        0 => { let p = kids(op)?; if p.len() != 3 { return None; } let v = int(&p[0], 2)?; let dn = prim(&p[1], u, 4)?;
            if let Some(pw) = prim(&p[2], TagClass::Context, 0) { format!("bind v={} dn={} simple={}", v, hex(&dn), hex(&pw)) }
            else { if p[2].class != TagClass::Context || p[2].id != 3 { return None; } let sp = kids(&p[2])?; if sp.is_empty() || sp.len() > 2 { return None; }
                format!("bind v={} dn={} sasl={} creds={}", v, hex(&dn), hex(&prim(&sp[0], u, 4)?), if sp.len() == 2 { hex(&prim(&sp[1], u, 4)?) } else { "none".into() }) } }
        3 => { let p = kids(op)?; if p.len() != 8 { return None; }
            if p[7].class != u || p[7].id != 16 { return None; }
            let mut at = vec![]; for a in kids(&p[7])? { at.push(hex(&prim(&a, u, 4)?)); }
            format!("search base={} scope={} deref={} size={} time={} typesonly={} filter={} attrs=[{}]", hex(&prim(&p[0], u, 4)?), int(&p[1], 10)?, int(&p[2], 10)?, int(&p[3], 2)?, int(&p[4], 2)?, boolean(&p[5])?, show_tree(&p[6]), at.join(",")) }
        8 => { let p = kids(op)?; if p.len() != 2 || p[1].class != u || p[1].id != 16 { return None; } let mut l = vec![]; for a in kids(&p[1])? { let (n, v) = avs(&a)?; l.push(format!("{}={{{}}}", hex(&n), sorted(&v))); }
            format!("add dn={} attrs=[{}]", hex(&prim(&p[0], u, 4)?), l.join(";")) }
        14 => { let p = kids(op)?; if p.len() != 2 || p[1].class != u || p[1].id != 16 { return None; } let q = kids(&p[1])?; if q.len() != 2 { return None; }
            format!("compare dn={} attr={} val={}", hex(&prim(&p[0], u, 4)?), hex(&prim(&q[0], u, 4)?), hex(&prim(&q[1], u, 4)?)) }
        10 => format!("delete dn={}", hex(&prim(op, TagClass::Application, 10)?)),
        6 => { let p = kids(op)?; if p.len() != 2 || p[1].class != u || p[1].id != 16 { return None; } let mut l = vec![];
            for m in kids(&p[1])? { if m.class != u || m.id != 16 { return None; } let q = kids(&m)?; if q.len() != 2 { return None; } let (n, v) = avs(&q[1])?; l.push(format!("{}:{}={{{}}}", int(&q[0], 10)?, hex(&n), sorted(&v))); }
            format!("modify dn={} mods=[{}]", hex(&prim(&p[0], u, 4)?), l.join(";")) }
        12 => { let p = kids(op)?; if p.len() < 3 || p.len() > 4 { return None; }
            format!("moddn dn={} rdn={} delold={} newsup={}", hex(&prim(&p[0], u, 4)?), hex(&prim(&p[1], u, 4)?), boolean(&p[2])?, if p.len() == 4 { hex(&prim(&p[3], TagClass::Context, 0)?) } else { "none".into() }) }
        23 => { let p = kids(op)?; if p.is_empty() || p.len() > 2 { return None; }
            format!("extended name={} val={}", hex(&prim(&p[0], TagClass::Context, 0)?), if p.len() == 2 { hex(&prim(&p[1], TagClass::Context, 1)?) } else { "none".into() }) }
        16 => { let v = prim(op, TagClass::Application, 16)?; if !ownber::shortest_int(&v) { return None; } format!("abandon id={}", ownber::twos(&v)?) }
        2 => { if prim(op, TagClass::Application, 2)? != Vec::<u8>::new() { return None; } "unbind".into() }
        _ => return None,
    };
    Some(format!("id={} {} {}", id, body, fmt_ctrls(&ctrls)))
}
